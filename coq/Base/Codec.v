(* Flat integer wire format between the Python harness and the models.
   Every exported model entry point has type [list Z -> list Z].            *)
Require Import JV.Base.Prelude JV.Base.JaxIndex JV.Base.Tree.

Definition take1 (l : list Z) : Z * list Z :=
  match l with [] => (0, []) | x :: t => (x, t) end.
Definition taken (n : Z) (l : list Z) : list Z * list Z := (firstn_z n l, skipn_z n l).

Fixpoint dec_many {A} (dec : list Z -> A * list Z) (n : nat) (l : list Z) : list A * list Z :=
  match n with
  | O => ([], l)
  | S n' => let (x, l1) := dec l in let (xs, l2) := dec_many dec n' l1 in (x :: xs, l2)
  end.

(* rows x cols grid in row-major order *)
Definition take_grid (rows cols : Z) (l : list Z) : list (list Z) * list Z :=
  dec_many (taken cols) (Z.to_nat rows) l.

Definition take_bool (l : list Z) : bool * list Z := let (x, t) := take1 l in (z2b x, t).
Definition bools (l : list Z) : list bool := map z2b l.
Definition unbools (l : list bool) : list Z := map b2z l.

Definition nan_code : Z := 1152921504606846976.  (* 2^60 *)
Definition dec_x (z : Z) : xnum := if z =? nan_code then NaN else Fin z.
Definition enc_x (x : xnum) : Z := match x with Fin z => z | NaN => nan_code end.

(* tensor := dtype, rank, dims..., ndata, data... *)
Definition dec_tensor (l : list Z) : tensor * list Z :=
  let (dt, l) := take1 l in
  let (rk, l) := take1 l in
  let (sh, l) := taken rk l in
  let (n, l) := take1 l in
  let (d, l) := taken n l in
  (mkT dt sh (map dec_x d), l).
Definition enc_tensor (t : tensor) : list Z :=
  t_dt t :: zlen (t_shape t) :: t_shape t ++ zlen (t_data t) :: map enc_x (t_data t).

(* ptree := ndef, def..., nleaves, leaves... *)
Definition dec_ptree (l : list Z) : ptree * list Z :=
  let (nd, l) := take1 l in
  let (d, l) := taken nd l in
  let (nl, l) := take1 l in
  let (ls, l) := dec_many dec_tensor (Z.to_nat nl) l in
  (mkP d ls, l).
Definition enc_ptree (t : ptree) : list Z :=
  zlen (p_def t) :: p_def t ++ zlen (p_leaves t) :: concat (map enc_tensor (p_leaves t)).

Definition enc_opt {A} (enc : A -> list Z) (o : option A) : list Z :=
  match o with None => [0] | Some x => 1 :: enc x end.
Definition enc_bool (b : bool) : list Z := [b2z b].

(* ---- exported entry points for the pytree helpers (C19) ---- *)
Definition tree_transpose_io (l : list Z) : list Z :=
  let (k, l) := take1 l in
  let (ts, _) := dec_many dec_ptree (Z.to_nat k) l in
  enc_opt enc_ptree (tree_transpose ts).
(* @export tree_transpose_io *)

Definition tree_slice_io (l : list Z) : list Z :=
  let (t, l) := dec_ptree l in let (i, _) := take1 l in
  enc_opt enc_ptree (tree_slice t i).
(* @export tree_slice_io *)

Definition tree_add_element_io (l : list Z) : list Z :=
  let (t, l) := dec_ptree l in let (i, l) := take1 l in let (e, _) := dec_ptree l in
  enc_opt enc_ptree (tree_add_element t i e).
(* @export tree_add_element_io *)

Definition is_equal_pytree_io (l : list Z) : list Z :=
  let (a, l) := dec_ptree l in let (b, _) := dec_ptree l in
  enc_opt enc_bool (is_equal_pytree a b).
(* @export is_equal_pytree_io *)
