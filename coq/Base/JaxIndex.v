(* JAX indexing semantics written out explicitly (validated against the real
   primitives by harness/prim_suite.py):
   - gather  x[i]           : a negative index wraps once (i+n), then is CLAMPED to [0,n-1]
   - scatter x.at[i].set(v) : a negative index wraps once, out-of-range updates are DROPPED
   - dynamic_slice / dynamic_update_slice : negative start wraps once, then the start is
     clamped to [0, n-size]
   - argmax / argmin : first occurrence                                                    *)
Require Import JV.Base.Prelude.

Definition jnorm (n i : Z) : Z := if i <? 0 then i + n else i.
Definition jclamp (n i : Z) : Z := Z.max 0 (Z.min (n - 1) (jnorm n i)).

Definition jget {A} (d : A) (l : list A) (i : Z) : A := znth d l (jclamp (zlen l) i).

Definition jset {A} (l : list A) (i : Z) (v : A) : list A :=
  let j := jnorm (zlen l) i in
  if (0 <=? j) && (j <? zlen l) then zupd j v l else l.

(* 2-D grids as lists of rows *)
Definition grid (A : Type) := list (list A).
Definition gget {A} (d : A) (g : grid A) (r c : Z) : A := jget d (jget [] g r) c.
Definition gset {A} (g : grid A) (r c : Z) (v : A) : grid A :=
  let n := zlen g in
  let j := jnorm n r in
  if (0 <=? j) && (j <? n) then
    let row := znth [] g j in
    let m := zlen row in
    let k := jnorm m c in
    if (0 <=? k) && (k <? m) then zupd j (zupd k v row) g else g
  else g.

(* strict in-range accessors, used on the specification side *)
Definition inb (n i : Z) : bool := (0 <=? i) && (i <? n).
Definition gat {A} (d : A) (g : grid A) (r c : Z) : A := znth d (znth [] g r) c.

Definition dyn_start (n size i : Z) : Z := Z.max 0 (Z.min (n - size) (jnorm n i)).

Fixpoint argmax_from (best : Z) (bi : Z) (i : Z) (l : list Z) : Z :=
  match l with
  | [] => bi
  | x :: t => if best <? x then argmax_from x i (i + 1) t else argmax_from best bi (i + 1) t
  end.
Definition argmax (l : list Z) : Z :=
  match l with [] => 0 | x :: t => argmax_from x 0 1 t end.
Definition argmin (l : list Z) : Z := argmax (map Z.opp l).

Definition firstn_z {A} (n : Z) (l : list A) := firstn (Z.to_nat n) l.
Definition skipn_z {A} (n : Z) (l : list A) := skipn (Z.to_nat n) l.

Lemma jclamp_range n i : 0 < n -> 0 <= jclamp n i < n.
Proof. unfold jclamp; lia. Qed.

Lemma jclamp_id n i : 0 <= i < n -> jclamp n i = i.
Proof. unfold jclamp, jnorm; intros; destruct (i <? 0) eqn:E; lia. Qed.

Lemma jget_in_range {A} (d : A) l i : 0 <= i < zlen l -> jget d l i = nth (Z.to_nat i) l d.
Proof.
  intro H. unfold jget. rewrite jclamp_id by lia. unfold znth.
  destruct (i <? 0) eqn:E; [lia|reflexivity].
Qed.

Lemma jset_length {A} (l : list A) i v : length (jset l i v) = length l.
Proof. unfold jset. destruct (_ && _); auto using zupd_length. Qed.

Lemma jset_in_range {A} (l : list A) i v : 0 <= i < zlen l -> jset l i v = upd (Z.to_nat i) v l.
Proof.
  intro H. unfold jset, jnorm, zupd.
  destruct (i <? 0) eqn:E; [lia|].
  replace ((0 <=? i) && (i <? zlen l)) with true by lia.
  rewrite E. reflexivity.
Qed.

Lemma jset_oob {A} (l : list A) i v : zlen l <= i -> jset l i v = l.
Proof.
  intro H. unfold jset, jnorm. pose proof (zlen_nonneg l).
  destruct (i <? 0) eqn:E; [lia|].
  replace ((0 <=? i) && (i <? zlen l)) with false by lia. reflexivity.
Qed.
