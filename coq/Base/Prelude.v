(* Common imports and small list/Z helpers shared by every model.  No axioms. *)
From Coq Require Export ZArith List Bool Lia ZifyBool Arith.
Export ListNotations.
Open Scope Z_scope.

Ltac Zify.zify_post_hook ::= Z.to_euclidean_division_equations.

Definition zlen {A} (l : list A) : Z := Z.of_nat (length l).

(* total nth over Z indices; out of range gives the default *)
Definition znth {A} (d : A) (l : list A) (i : Z) : A :=
  if i <? 0 then d else nth (Z.to_nat i) l d.

Fixpoint upd {A} (n : nat) (v : A) (l : list A) : list A :=
  match l, n with
  | [], _ => []
  | _ :: t, O => v :: t
  | h :: t, S n' => h :: upd n' v t
  end.

Definition zupd {A} (i : Z) (v : A) (l : list A) : list A :=
  if i <? 0 then l else upd (Z.to_nat i) v l.

Fixpoint zsum (l : list Z) : Z := match l with [] => 0 | x :: t => x + zsum t end.

Fixpoint zrange_from (s : Z) (n : nat) : list Z :=
  match n with O => [] | S n' => s :: zrange_from (s + 1) n' end.
Definition zrange (n : Z) : list Z := zrange_from 0 (Z.to_nat n).

Definition b2z (b : bool) : Z := if b then 1 else 0.
Definition z2b (z : Z) : bool := negb (z =? 0).

Fixpoint list_eqb {A} (eqb : A -> A -> bool) (a b : list A) : bool :=
  match a, b with
  | [], [] => true
  | x :: a', y :: b' => eqb x y && list_eqb eqb a' b'
  | _, _ => false
  end.

Definition count_if {A} (f : A -> bool) (l : list A) : Z := zlen (filter f l).

Lemma zlen_nonneg {A} (l : list A) : 0 <= zlen l.
Proof. unfold zlen; lia. Qed.

Lemma zlen_cons {A} (x : A) l : zlen (x :: l) = 1 + zlen l.
Proof. unfold zlen; cbn [length]; lia. Qed.

Lemma zlen_app {A} (a b : list A) : zlen (a ++ b) = zlen a + zlen b.
Proof. unfold zlen; rewrite app_length; lia. Qed.

Lemma upd_length {A} n (v : A) l : length (upd n v l) = length l.
Proof. revert n; induction l as [|h t IH]; intros [|n]; cbn; auto. Qed.

Lemma zupd_length {A} i (v : A) l : length (zupd i v l) = length l.
Proof. unfold zupd; destruct (i <? 0); auto using upd_length. Qed.

Lemma nth_upd_same {A} n (v d : A) l : (n < length l)%nat -> nth n (upd n v l) d = v.
Proof. revert n; induction l as [|h t IH]; intros [|n] H; cbn in *; try lia; auto. apply IH; lia. Qed.

Lemma nth_upd_other {A} n m (v d : A) l : n <> m -> nth m (upd n v l) d = nth m l d.
Proof. revert n m; induction l as [|h t IH]; intros [|n] [|m] H; cbn; auto; try congruence. Qed.

Lemma list_eqb_eq {A} (eqb : A -> A -> bool) :
  (forall x y, eqb x y = true <-> x = y) -> forall a b, list_eqb eqb a b = true <-> a = b.
Proof.
  intros H a; induction a as [|x a IH]; intros [|y b]; cbn; split; intro E; try congruence; auto.
  - apply andb_true_iff in E as [E1 E2]. apply H in E1. apply IH in E2. congruence.
  - inversion E; subst. apply andb_true_iff; split; [apply H | apply IH]; auto.
Qed.

Lemma zrange_from_length s n : length (zrange_from s n) = n.
Proof. revert s; induction n; cbn; auto. Qed.

Lemma zrange_from_nth s n i : (i < n)%nat -> nth i (zrange_from s n) 0 = s + Z.of_nat i.
Proof.
  revert s i; induction n as [|n IH]; intros s [|i] H; cbn [zrange_from nth]; try lia.
  rewrite IH by lia. lia.
Qed.

Lemma in_zrange_from x s n : In x (zrange_from s n) <-> s <= x < s + Z.of_nat n.
Proof.
  revert s; induction n as [|n IH]; intro s; cbn [zrange_from In].
  - lia.
  - rewrite IH. lia.
Qed.

Lemma in_zrange x n : In x (zrange n) <-> 0 <= x < n.
Proof. unfold zrange. rewrite in_zrange_from. lia. Qed.
