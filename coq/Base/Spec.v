(* Model of jumanji/specs.py: Array, BoundedArray, DiscreteArray, MultiDiscreteArray, nested Spec.
   Executable model only (proofs: Proofs/Spec_laws.v).  Conventions:
   - a leaf value is a [tensor] (dtype code, shape, data as order/equality preserving integer codes);
   - "raises" is [None] for the option-valued operations, [false] for validate;
   - names are lists of code points; dict keys of nested specs are kept sorted by the harness.   *)
Require Import JV.Base.Prelude JV.Base.JaxIndex JV.Base.Tree.

Definition name := list Z.
Definition name_eqb (a b : name) : bool := list_eqb Z.eqb a b.

(* a bound as stored by BoundedArray: an array (any shape broadcastable to the spec's shape) *)
Record bound := mkB { b_shape : list Z; b_data : list xnum }.

Inductive spec :=
| SArray (shape : list Z) (dt : Z) (nm : name)
| SBounded (shape : list Z) (dt : Z) (lo hi : bound) (nm : name)
| SDiscrete (n : Z) (dt : Z) (nm : name)
| SMulti (nshape : list Z) (nvec : list Z) (dt : Z) (nm : name)
| SNested (nm : name) (fields : list (name * spec)).

Inductive value :=
| VLeaf (t : tensor)
| VNode (fields : list (name * value)).


(* ---- generic helpers over the field lists of nested specs (the function parameter is a
   section variable so that the guard checker sees through them) ---- *)
Section Fields.
  Context {A B : Type}.
  Variable fv : A -> B -> bool.
  Fixpoint fields_validate (fs : list (name * A)) (vs : list (name * B)) : bool :=
    match fs, vs with
    | [], [] => true
    | p :: fs', q :: vs' => name_eqb (fst p) (fst q) && fv (snd p) (snd q) && fields_validate fs' vs'
    | _, _ => false
    end.
  Variable fg : A -> option B.
  Fixpoint fields_gen (fs : list (name * A)) : option (list (name * B)) :=
    match fs with
    | [] => Some []
    | p :: fs' =>
        match fg (snd p), fields_gen fs' with
        | Some x, Some r => Some ((fst p, x) :: r)
        | _, _ => None
        end
    end.
  Variable fa : A -> bool.
  Fixpoint fields_all (fs : list (name * A)) : bool :=
    match fs with [] => true | p :: fs' => fa (snd p) && fields_all fs' end.
  Variable fe : A -> B -> option bool.
  Fixpoint fields_eqb (f1 : list (name * A)) (f2 : list (name * B)) : option bool :=
    match f1, f2 with
    | [], [] => Some true
    | p :: r1, q :: r2 =>
        if name_eqb (fst p) (fst q) then
          match fe (snd p) (snd q), fields_eqb r1 r2 with
          | Some x, Some y => Some (x && y)
          | _, _ => None
          end
        else None
    | _, _ => None
    end.
End Fields.

(* ---- NumPy broadcasting of (shape, data) to a target shape; None = ValueError ---- *)
Fixpoint chunks {A} (n : nat) (sz : nat) (l : list A) : list (list A) :=
  match n with O => [] | S n' => firstn sz l :: chunks n' sz (skipn sz l) end.

Fixpoint repeat_list {A} (n : nat) (l : list A) : list A :=
  match n with O => [] | S n' => l ++ repeat_list n' l end.

Fixpoint concat_opt {A} (l : list (option (list A))) : option (list A) :=
  match l with
  | [] => Some []
  | None :: _ => None
  | Some x :: t => match concat_opt t with Some r => Some (x ++ r) | None => None end
  end.

Fixpoint bcast (sshape : list Z) (sdata : list xnum) (dshape : list Z) {struct dshape} : option (list xnum) :=
  match dshape with
  | [] => match sshape with [] => Some sdata | _ => None end
  | d :: drest =>
      if (length sshape <? length dshape)%nat then
        match bcast sshape sdata drest with
        | Some r => Some (repeat_list (Z.to_nat d) r)
        | None => None
        end
      else match sshape with
           | [] => None
           | s :: srest =>
               if s =? d then
                 concat_opt (map (fun c => bcast srest c drest) (chunks (Z.to_nat s) (prodn srest) sdata))
               else if s =? 1 then
                 match bcast srest sdata drest with
                 | Some r => Some (repeat_list (Z.to_nat d) r)
                 | None => None
                 end
               else None
           end
  end.

Definition bcast_bound (b : bound) (shape : list Z) : option (list xnum) := bcast (b_shape b) (b_data b) shape.

(* ---- validate ---- *)
Definition validate_array (shape : list Z) (dt : Z) (t : tensor) : bool :=
  shape_eqb (t_shape t) shape && (t_dt t =? dt).

(* (value < minimum).any() or (value > maximum).any()  -- IEEE comparisons, so NaN passes *)
Fixpoint in_bounds (v lo hi : list xnum) : bool :=
  match v, lo, hi with
  | [], _, _ => true
  | x :: v', l :: lo', h :: hi' => negb (xnum_ltb x l) && negb (xnum_ltb h x) && in_bounds v' lo' hi'
  | _, _, _ => false
  end.

Definition validate_bounded (shape : list Z) (dt : Z) (lo hi : bound) (t : tensor) : bool :=
  validate_array shape dt t &&
  match bcast_bound lo shape, bcast_bound hi shape with
  | Some l, Some h => in_bounds (t_data t) l h
  | _, _ => false
  end.

Definition scalar_bound (z : Z) : bound := mkB [] [Fin z].
Definition vec_bound (shape : list Z) (l : list Z) : bound := mkB shape (map Fin l).

(* DiscreteArray / MultiDiscreteArray are BoundedArrays with derived bounds *)
Definition discrete_lo := scalar_bound 0.
Definition discrete_hi (n : Z) := scalar_bound (n - 1).
Definition multi_lo (nshape nvec : list Z) := vec_bound nshape (map (fun _ => 0) nvec).
Definition multi_hi (nshape nvec : list Z) := vec_bound nshape (map (fun n => n - 1) nvec).

Definition validate_leaf (sp : spec) (t : tensor) : bool :=
  match sp with
  | SArray sh dt _ => validate_array sh dt t
  | SBounded sh dt lo hi _ => validate_bounded sh dt lo hi t
  (* DiscreteArray / MultiDiscreteArray: the stored bounds have exactly the spec's shape, so the
     broadcast is the identity and the bounds test is written directly *)
  | SDiscrete n dt _ => validate_array [] dt t && in_bounds (t_data t) [Fin 0] [Fin (n - 1)]
  | SMulti nsh nvec dt _ =>
      validate_array nsh dt t
      && in_bounds (t_data t) (map (fun _ => Fin 0) nvec) (map (fun n => Fin (n - 1)) nvec)
  | SNested _ _ => false
  end.

Fixpoint validate (sp : spec) (v : value) {struct sp} : bool :=
  match sp with
  | SNested _ fs => match v with VNode vs => fields_validate (fun s x => validate s x) fs vs | VLeaf _ => false end
  | _ => match v with VLeaf t => validate_leaf sp t | VNode _ => false end
  end.

(* ---- generate_value ---- *)
Definition zeros (sh : list Z) (dt : Z) : tensor := mkT dt sh (repeat (Fin 0) (prodn sh)).
Definition full (sh : list Z) (dt : Z) (b : bound) : option tensor :=
  match bcast_bound b sh with Some d => Some (mkT dt sh d) | None => None end.

Definition generate_leaf (sp : spec) : option tensor :=
  match sp with
  | SArray sh dt _ => Some (zeros sh dt)
  | SBounded sh dt lo _ _ => full sh dt lo
  | SDiscrete _ dt _ => Some (mkT dt [] [Fin 0])
  | SMulti nsh nvec dt _ => Some (mkT dt nsh (map (fun _ => Fin 0) nvec))
  | SNested _ _ => None
  end.

Fixpoint generate_value (sp : spec) : option value :=
  match sp with
  | SNested _ fs => option_map VNode (fields_gen (fun s => generate_value s) fs)
  | _ => option_map VLeaf (generate_leaf sp)
  end.

(* ---- well-formedness = what the constructors accept ---- *)
Definition bounds_ok (sh : list Z) (lo hi : bound) : bool :=
  match bcast_bound lo sh, bcast_bound hi sh with
  | Some l, Some h => forallb (fun p => negb (xnum_ltb (snd p) (fst p))) (combine l h)
                      && Nat.eqb (length l) (prodn sh) && Nat.eqb (length h) (prodn sh)
  | _, _ => false
  end.

Definition shape_ok (sh : list Z) : bool := forallb (fun d => 0 <=? d) sh.

Fixpoint wf_spec (sp : spec) : bool :=
  match sp with
  | SArray sh _ _ => shape_ok sh
  | SBounded sh _ lo hi _ => shape_ok sh && bounds_ok sh lo hi
  | SDiscrete n _ _ => 0 <? n
  | SMulti nsh nvec _ _ => shape_ok nsh && forallb (fun n => 0 <? n) nvec && Nat.eqb (length nvec) (prodn nsh)
  | SNested _ fs => fields_all (fun s => wf_spec s) fs
  end.

(* ---- __eq__ as written (after the fix: commits recorded in known_findings.json) ----
   Some b = returns b ; None = raises.  For two specs of different Python classes the
   comparison falls back through NotImplemented; the model covers same-kind comparisons
   and returns the fall-through result for the mixed cases it is asked about.             *)
Definition bound_eq (sh : list Z) (a b : bound) : option bool :=
  (* (self.minimum == other.minimum).all() : broadcast both against each other; for two bounds
     that both broadcast to [sh] this equals comparing them after broadcasting to [sh] *)
  match bcast_bound a sh, bcast_bound b sh with
  | Some x, Some y => Some (list_eqb xnum_eqb x y)
  | _, _ => None
  end.

Definition andb_opt (a : bool) (b : option bool) : option bool := if a then b else Some false.
Definition and_opt (a b : option bool) : option bool :=
  match a with Some true => b | Some false => Some false | None => None end.

Fixpoint spec_eqb (a b : spec) {struct a} : option bool :=
  match a, b with
  | SArray s1 d1 n1, SArray s2 d2 n2 => Some (shape_eqb s1 s2 && (d1 =? d2) && name_eqb n1 n2)
  | SBounded s1 d1 l1 h1 n1, SBounded s2 d2 l2 h2 n2 =>
      andb_opt (shape_eqb s1 s2 && (d1 =? d2))
               (and_opt (bound_eq s1 l1 l2) (and_opt (bound_eq s1 h1 h2) (Some (name_eqb n1 n2))))
  | SDiscrete k1 d1 n1, SDiscrete k2 d2 n2 => Some ((k1 =? k2) && (d1 =? d2) && name_eqb n1 n2)
  | SMulti s1 v1 d1 n1, SMulti s2 v2 d2 n2 =>
      Some (shape_eqb s1 s2 && list_eqb Z.eqb v1 v2 && (d1 =? d2) && name_eqb n1 n2)
  | SNested _ f1, SNested _ f2 =>
      (* is_equal_pytree(self._specs, other._specs): dm-tree raises when the key sets differ *)
      fields_eqb (fun s1 s2 => spec_eqb s1 s2) f1 f2
  | _, _ => Some false
  end.

(* ---- replace / pickling: rebuild from the constructor arguments ---- *)
Inductive kwarg :=
| KShape (s : list Z) | KDtype (d : Z) | KName (n : name) | KMin (b : bound) | KMax (b : bound)
| KNumValues (n : Z) | KNvec (sh : list Z) (v : list Z) | KField (k : name) (s : spec).

Definition apply_kw (sp : spec) (kw : kwarg) : option spec :=
  match sp, kw with
  | SArray s d n, KShape s' => Some (SArray s' d n)
  | SArray s d n, KDtype d' => Some (SArray s d' n)
  | SArray s d n, KName n' => Some (SArray s d n')
  | SBounded s d l h n, KShape s' => Some (SBounded s' d l h n)
  | SBounded s d l h n, KDtype d' => Some (SBounded s d' l h n)
  | SBounded s d l h n, KName n' => Some (SBounded s d l h n')
  | SBounded s d l h n, KMin l' => Some (SBounded s d l' h n)
  | SBounded s d l h n, KMax h' => Some (SBounded s d l h' n)
  | SDiscrete k d n, KNumValues k' => Some (SDiscrete k' d n)
  | SDiscrete k d n, KDtype d' => Some (SDiscrete k d' n)
  | SDiscrete k d n, KName n' => Some (SDiscrete k d n')
  | SMulti s v d n, KNvec s' v' => Some (SMulti s' v' d n)
  | SMulti s v d n, KDtype d' => Some (SMulti s v d' n)
  | SMulti s v d n, KName n' => Some (SMulti s v d n')
  | SNested n fs, KField k s' =>
      Some (SNested n ((fix go (fs : list (name * spec)) : list (name * spec) :=
                          match fs with
                          | [] => [(k, s')]
                          | (k0, s0) :: r => if name_eqb k0 k then (k, s') :: r else (k0, s0) :: go r
                          end) fs))
  | _, _ => None   (* TypeError: unexpected keyword argument *)
  end.

Fixpoint replace (sp : spec) (kws : list kwarg) : option spec :=
  match kws with
  | [] => Some sp
  | kw :: r => match apply_kw sp kw with Some sp' => replace sp' r | None => None end
  end.

(* __reduce__ : (class, constructor args); unreduce rebuilds.  The model's reduce is the
   identity on the constructor-argument tuple, so the round trip is exact by construction;
   what is tied to the code is that the real pickle round trip agrees with it (C16 T3).   *)
Definition reduce (sp : spec) : spec := sp.
Definition unreduce (sp : spec) : spec := sp.

(* ---- conversions (jumanji_specs_to_gym_spaces / _to_dm_env_specs), leaf membership ---- *)
(* gym Box/Discrete/MultiDiscrete.contains on a value of the SAME dtype and shape class:
   np.all(x >= low) and np.all(x <= high)  -- NaN is NOT contained                         *)
Fixpoint gym_in_bounds (v lo hi : list xnum) : bool :=
  match v, lo, hi with
  | [], _, _ => true
  | x :: v', l :: lo', h :: hi' =>
      (xnum_ltb l x || xnum_eqb l x) && (xnum_ltb x h || xnum_eqb x h) && gym_in_bounds v' lo' hi'
  | _, _, _ => false
  end.

Definition gym_contains_leaf (sp : spec) (t : tensor) : bool :=
  match sp with
  | SArray sh dt _ => validate_array sh dt t && forallb (fun x => negb (xnum_same x NaN)) (t_data t)
  | SBounded sh dt lo hi _ =>
      validate_array sh dt t &&
      match bcast_bound lo sh, bcast_bound hi sh with
      | Some l, Some h => gym_in_bounds (t_data t) l h | _, _ => false end
  | SDiscrete n dt _ =>
      shape_eqb (t_shape t) [] && gym_in_bounds (t_data t) [Fin 0] [Fin (n - 1)]
  | SMulti nsh nvec dt _ =>
      shape_eqb (t_shape t) nsh && gym_in_bounds (t_data t) (map (fun _ => Fin 0) nvec) (map (fun n => Fin (n - 1)) nvec)
  | SNested _ _ => false
  end.

(* dm_env.specs.*.validate has the same shape/dtype/bounds test as jumanji's *)
Definition dm_validate_leaf (sp : spec) (t : tensor) : bool := validate_leaf sp t.
