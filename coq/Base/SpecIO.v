(* Wire format + exported entry points for the spec model (C16, C01, C15). *)
Require Import JV.Base.Prelude JV.Base.JaxIndex JV.Base.Tree JV.Base.Codec JV.Base.Spec.

Definition dec_name (l : list Z) : name * list Z := let (n, l) := take1 l in taken n l.
Definition dec_shape (l : list Z) : list Z * list Z := let (n, l) := take1 l in taken n l.
Definition dec_bound (l : list Z) : bound * list Z :=
  let (sh, l) := dec_shape l in let (n, l) := take1 l in let (d, l) := taken n l in
  (mkB sh (map dec_x d), l).

Fixpoint dec_spec (fuel : nat) (l : list Z) : spec * list Z :=
  match fuel with
  | O => (SArray [] 0 [], [])
  | S f =>
      let (tag, l) := take1 l in
      if tag =? 0 then
        let (sh, l) := dec_shape l in let (dt, l) := take1 l in let (nm, l) := dec_name l in
        (SArray sh dt nm, l)
      else if tag =? 1 then
        let (sh, l) := dec_shape l in let (dt, l) := take1 l in
        let (lo, l) := dec_bound l in let (hi, l) := dec_bound l in let (nm, l) := dec_name l in
        (SBounded sh dt lo hi nm, l)
      else if tag =? 2 then
        let (n, l) := take1 l in let (dt, l) := take1 l in let (nm, l) := dec_name l in
        (SDiscrete n dt nm, l)
      else if tag =? 3 then
        let (sh, l) := dec_shape l in let (n, l) := take1 l in let (v, l) := taken n l in
        let (dt, l) := take1 l in let (nm, l) := dec_name l in
        (SMulti sh v dt nm, l)
      else
        let (nm, l) := dec_name l in
        let (k, l) := take1 l in
        let (fs, l) := dec_many (fun l => let (key, l) := dec_name l in
                                          let (s, l) := dec_spec f l in ((key, s), l))
                                (Z.to_nat k) l in
        (SNested nm fs, l)
  end.

Fixpoint dec_value (fuel : nat) (l : list Z) : value * list Z :=
  match fuel with
  | O => (VNode [], [])
  | S f =>
      let (tag, l) := take1 l in
      if tag =? 0 then let (t, l) := dec_tensor l in (VLeaf t, l)
      else
        let (k, l) := take1 l in
        let (fs, l) := dec_many (fun l => let (key, l) := dec_name l in
                                          let (v, l) := dec_value f l in ((key, v), l))
                                (Z.to_nat k) l in
        (VNode fs, l)
  end.

Definition enc_name (n : name) : list Z := zlen n :: n.
Definition enc_shape (s : list Z) : list Z := zlen s :: s.
Definition enc_bound (b : bound) : list Z := enc_shape (b_shape b) ++ zlen (b_data b) :: map enc_x (b_data b).

Fixpoint enc_spec (sp : spec) : list Z :=
  match sp with
  | SArray sh dt nm => 0 :: enc_shape sh ++ dt :: enc_name nm
  | SBounded sh dt lo hi nm => 1 :: enc_shape sh ++ dt :: enc_bound lo ++ enc_bound hi ++ enc_name nm
  | SDiscrete n dt nm => 2 :: n :: dt :: enc_name nm
  | SMulti sh v dt nm => 3 :: enc_shape sh ++ zlen v :: v ++ dt :: enc_name nm
  | SNested nm fs =>
      4 :: enc_name nm ++ zlen fs ::
        (fix go (fs : list (name * spec)) : list Z :=
           match fs with [] => [] | p :: r => enc_name (fst p) ++ enc_spec (snd p) ++ go r end) fs
  end.

Fixpoint enc_value (v : value) : list Z :=
  match v with
  | VLeaf t => 0 :: enc_tensor t
  | VNode fs =>
      1 :: zlen fs ::
        (fix go (fs : list (name * value)) : list Z :=
           match fs with [] => [] | p :: r => enc_name (fst p) ++ enc_value (snd p) ++ go r end) fs
  end.

Definition spec_validate_io (l : list Z) : list Z :=
  let (sp, l) := dec_spec (length l) l in let (v, _) := dec_value (length l) l in
  [b2z (validate sp v); b2z (wf_spec sp)].
(* @export spec_validate_io *)

Definition spec_generate_io (l : list Z) : list Z :=
  let (sp, _) := dec_spec (length l) l in enc_opt enc_value (generate_value sp).
(* @export spec_generate_io *)

Definition spec_eqb_io (l : list Z) : list Z :=
  let (a, l) := dec_spec (length l) l in let (b, _) := dec_spec (length l) l in
  enc_opt enc_bool (spec_eqb a b).
(* @export spec_eqb_io *)

(* kwarg := 0 shape | 1 dtype | 2 name | 3 min | 4 max | 5 num_values | 6 nvec | 7 field *)
Definition dec_kwarg (l : list Z) : kwarg * list Z :=
  let (tag, l) := take1 l in
  if tag =? 0 then let (s, l) := dec_shape l in (KShape s, l)
  else if tag =? 1 then let (d, l) := take1 l in (KDtype d, l)
  else if tag =? 2 then let (n, l) := dec_name l in (KName n, l)
  else if tag =? 3 then let (b, l) := dec_bound l in (KMin b, l)
  else if tag =? 4 then let (b, l) := dec_bound l in (KMax b, l)
  else if tag =? 5 then let (n, l) := take1 l in (KNumValues n, l)
  else if tag =? 6 then let (s, l) := dec_shape l in let (n, l) := take1 l in let (v, l) := taken n l in (KNvec s v, l)
  else let (k, l) := dec_name l in let (s, l) := dec_spec (length l) l in (KField k s, l).

Definition spec_replace_io (l : list Z) : list Z :=
  let (sp, l) := dec_spec (length l) l in
  let (k, l) := take1 l in
  let (kws, _) := dec_many dec_kwarg (Z.to_nat k) l in
  enc_opt enc_spec (replace sp kws).
(* @export spec_replace_io *)

Definition spec_gym_io (l : list Z) : list Z :=
  let (sp, l) := dec_spec (length l) l in let (t, _) := dec_tensor l in
  [b2z (gym_contains_leaf sp t); b2z (validate_leaf sp t)].
(* @export spec_gym_io *)
