(* jumanji/types.py: StepType, restart / transition / termination / truncation.
   Rewards are environment-specific integer codes (scaled or integral floats); discounts are
   the integers 0 / 1 (every discount jumanji builds is jnp.zeros/jnp.ones/1-done).         *)
Require Import JV.Base.Prelude JV.Base.Codec.

Definition FIRST := 0. Definition MID := 1. Definition LAST := 2.

Record tstep := mkTS { st : Z; reward : list Z; discount : list Z }.

(* shape = number of agents' rewards (1 for the scalar default) *)
Definition restart (k : nat) : tstep := mkTS FIRST (repeat 0 k) (repeat 1 k).
Definition transition (k : nat) (r : list Z) : tstep := mkTS MID r (repeat 1 k).
Definition transition_d (r d : list Z) : tstep := mkTS MID r d.
Definition termination (k : nat) (r : list Z) : tstep := mkTS LAST r (repeat 0 k).
Definition truncation (k : nat) (r : list Z) : tstep := mkTS LAST r (repeat 1 k).
Definition truncation_d (r d : list Z) : tstep := mkTS LAST r d.

(* jax.lax.cond(done, termination, transition, reward, obs) *)
Definition cond_done (k : nat) (done : bool) (r : list Z) : tstep :=
  if done then termination k r else transition k r.

Definition all_zero (l : list Z) : bool := forallb (Z.eqb 0) l.
Definition in01 (l : list Z) : bool := forallb (fun d => (0 <=? d) && (d <=? 1)) l.

(* the protocol predicates of C03 *)
Definition first_ok (k : nat) (t : tstep) : bool :=
  (st t =? FIRST) && list_eqb Z.eqb (reward t) (repeat 0 k) && list_eqb Z.eqb (discount t) (repeat 1 k).
(* trunc_ok: this LAST step is a documented truncation (LevelBasedForaging at its time limit) *)
Definition step_ok (k : nat) (trunc_ok : bool) (t : tstep) : bool :=
  ((st t =? MID) || (st t =? LAST)) && Nat.eqb (length (discount t)) k && Nat.eqb (length (reward t)) k
  && in01 (discount t)
  && (if st t =? MID then negb (all_zero (discount t)) else true)
  && (if st t =? LAST then all_zero (discount t) || trunc_ok else true).

Definition enc_ts (t : tstep) : list Z := st t :: reward t ++ discount t.

(* wire: k, is_first, trunc_ok, step_type, reward codes (k; only zero/non-zero matters), discounts (k) *)
Definition proto_check_io (l : list Z) : list Z :=
  let (k, l) := take1 l in let (isfirst, l) := take1 l in let (tr, l) := take1 l in
  let (ty, l) := take1 l in let (r, l) := taken k l in let (d, _) := taken k l in
  let t := mkTS ty r d in
  [b2z (if z2b isfirst then first_ok (Z.to_nat k) t else step_ok (Z.to_nat k) (z2b tr) t)].
(* @export proto_check_io *)

(* C11 bookkeeping: an episode's step types, its time limit T (0 = none) -> first LAST index ok? *)
(* types are those of steps 1..; alive_other[i] = 1 when step i+1 ended for a reason other than the limit *)
Fixpoint limit_ok (T : Z) (i : Z) (types : list Z) (other : list Z) : bool :=
  match types, other with
  | [], _ => true
  | ty :: r, o :: ro =>
      if ty =? LAST then (z2b o && (i <=? T)) || (i =? T)   (* ends at i: exactly the limit, or earlier for another cause *)
      else (i <? T) && limit_ok T (i + 1) r ro             (* still running at step i: only allowed before the limit *)
  | _, [] => false
  end.
Definition limit_check_io (l : list Z) : list Z :=
  let (T, l) := take1 l in let (n, l) := take1 l in
  let (types, l) := taken n l in let (other, _) := taken n l in
  [b2z (limit_ok T 1 types other)].
(* @export limit_check_io *)
