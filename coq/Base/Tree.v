(* Pytrees the way JAX sees them: a tree definition plus a flat list of leaves
   (jax.tree_util.tree_map flattens, maps leaf-wise and unflattens with the first
   tree's definition).  The definition is kept as an opaque serialisation (list Z):
   the only thing tree_map and dm-tree's map_structure do with it is compare it.
   Executable model only -- proofs are in Proofs/Tree_laws.v.                          *)
Require Import JV.Base.Prelude JV.Base.JaxIndex.

Inductive xnum := Fin (z : Z) | NaN.

Definition xnum_eqb (a b : xnum) : bool :=   (* IEEE ==  : NaN is not equal to itself *)
  match a, b with Fin x, Fin y => x =? y | _, _ => false end.
Definition xnum_ltb (a b : xnum) : bool :=   (* IEEE <   : false when either side is NaN *)
  match a, b with Fin x, Fin y => x <? y | _, _ => false end.
Definition xnum_same (a b : xnum) : bool :=  (* structural equality, NaN = NaN *)
  match a, b with Fin x, Fin y => x =? y | NaN, NaN => true | _, _ => false end.

Record tensor := mkT { t_dt : Z; t_shape : list Z; t_data : list xnum }.

Definition prodn (s : list Z) : nat := fold_right (fun d acc => (Z.to_nat d * acc)%nat) 1%nat s.
Definition shape_eqb (a b : list Z) : bool := list_eqb Z.eqb a b.
Definition wf_tensor (t : tensor) : Prop := length (t_data t) = prodn (t_shape t).
Definition wf_tensor_b (t : tensor) : bool := Nat.eqb (length (t_data t)) (prodn (t_shape t)).

Definition tensor_same (a b : tensor) : bool :=
  (t_dt a =? t_dt b) && shape_eqb (t_shape a) (t_shape b) && list_eqb xnum_same (t_data a) (t_data b).

Record ptree := mkP { p_def : list Z; p_leaves : list tensor }.

Definition def_eqb (a b : list Z) : bool := list_eqb Z.eqb a b.
Definition ptree_same (a b : ptree) : bool :=
  def_eqb (p_def a) (p_def b) && list_eqb tensor_same (p_leaves a) (p_leaves b).

(* ---- leaf operations ---- *)

(* jnp.stack(xs, axis=0) on leaves of one shape and dtype; None = raises / out of scope *)
Definition stack_leaves (ls : list tensor) : option tensor :=
  match ls with
  | [] => None
  | t0 :: _ =>
      if forallb (fun t => (t_dt t =? t_dt t0) && shape_eqb (t_shape t) (t_shape t0)) ls
      then Some (mkT (t_dt t0) (zlen ls :: t_shape t0) (concat (map t_data ls)))
      else None
  end.

(* x[i] for a static index -n <= i < n on a leaf of rank >= 1; None = IndexError *)
Definition slice_leaf (i : Z) (t : tensor) : option tensor :=
  match t_shape t with
  | [] => None
  | n :: rest =>
      let j := jnorm n i in
      if (0 <=? j) && (j <? n) then
        let sz := prodn rest in
        Some (mkT (t_dt t) rest (firstn sz (skipn (Z.to_nat j * sz) (t_data t))))
      else None
  end.

(* x.at[i].set(v) with v of the element shape and the same dtype; None = out of scope *)
Definition set_leaf (i : Z) (t e : tensor) : option tensor :=
  match t_shape t with
  | [] => None
  | n :: rest =>
      let j := jnorm n i in
      if (0 <=? j) && (j <? n) && shape_eqb (t_shape e) rest && (t_dt e =? t_dt t) then
        let sz := prodn rest in
        Some (mkT (t_dt t) (t_shape t)
                (firstn (Z.to_nat j * sz) (t_data t) ++ t_data e ++ skipn ((Z.to_nat j + 1) * sz) (t_data t)))
      else None
  end.

(* ---- option plumbing ---- *)
Fixpoint all_some {A} (l : list (option A)) : option (list A) :=
  match l with
  | [] => Some []
  | None :: _ => None
  | Some x :: t => match all_some t with Some t' => Some (x :: t') | None => None end
  end.

Fixpoint map2o {A B C} (f : A -> B -> option C) (a : list A) (b : list B) : option (list C) :=
  match a, b with
  | [], [] => Some []
  | x :: a', y :: b' =>
      match f x y, map2o f a' b' with Some z, Some r => Some (z :: r) | _, _ => None end
  | _, _ => None
  end.

(* ---- the three helpers of jumanji/tree_utils.py ---- *)
Definition dummy_tensor := mkT 0 [] [].

Definition transpose_with (t0 : ptree) (ts : list ptree) : option ptree :=
  if forallb (fun t => def_eqb (p_def t) (p_def t0)
                       && Nat.eqb (length (p_leaves t)) (length (p_leaves t0))) ts then
    match all_some (map (fun j => stack_leaves (map (fun t => nth j (p_leaves t) dummy_tensor) ts))
                        (seq 0 (length (p_leaves t0)))) with
    | Some ls => Some (mkP (p_def t0) ls)
    | None => None
    end
  else None.

Definition tree_transpose (ts : list ptree) : option ptree :=
  match ts with [] => None | t0 :: _ => transpose_with t0 ts end.

Definition tree_slice (t : ptree) (i : Z) : option ptree :=
  match all_some (map (slice_leaf i) (p_leaves t)) with
  | Some ls => Some (mkP (p_def t) ls)
  | None => None
  end.

Definition tree_add_element (t : ptree) (i : Z) (e : ptree) : option ptree :=
  if def_eqb (p_def t) (p_def e) then
    match map2o (set_leaf i) (p_leaves t) (p_leaves e) with
    | Some ls => Some (mkP (p_def t) ls)
    | None => None
    end
  else None.

(* ---- jumanji/testing/pytrees.py ---- *)
(* np.array_equal: equal shapes and all elements == (dtype is not compared) *)
Definition array_equal (a b : tensor) : bool :=
  shape_eqb (t_shape a) (t_shape b) && list_eqb xnum_eqb (t_data a) (t_data b).

(* is_equal_pytree: dm-tree map_structure raises on a structure mismatch (None) *)
Definition is_equal_pytree (a b : ptree) : option bool :=
  if def_eqb (p_def a) (p_def b) && Nat.eqb (length (p_leaves a)) (length (p_leaves b)) then
    Some (forallb (fun p => array_equal (fst p) (snd p)) (combine (p_leaves a) (p_leaves b)))
  else None.

(* assert_trees_are_different: Some true = the assertion FAILS (AssertionError) *)
Definition assert_different_fails (a b : ptree) : option bool := is_equal_pytree a b.
Definition assert_equal_fails (a b : ptree) : option bool := option_map negb (is_equal_pytree a b).
