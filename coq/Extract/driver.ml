(* Generic line driver: "<entry> i1 i2 ..."  ->  "o1 o2 ..."   (flat integer records).
   Only glue: integer <-> extracted Z conversion and table lookup. *)
open Models

let rec pos_of_int n =
  if n = 1 then XH
  else if n land 1 = 0 then XO (pos_of_int (n lsr 1))
  else XI (pos_of_int (n lsr 1))
let z_of_int n = if n = 0 then Z0 else if n > 0 then Zpos (pos_of_int n) else Zneg (pos_of_int (- n))
let rec int_of_pos = function XH -> 1 | XO p -> 2 * int_of_pos p | XI p -> 2 * int_of_pos p + 1
let int_of_z = function Z0 -> 0 | Zpos p -> int_of_pos p | Zneg p -> - (int_of_pos p)

let () =
  let buf = Buffer.create 65536 in
  (try
    while true do
      let line = input_line stdin in
      let toks = List.filter (fun s -> s <> "") (String.split_on_char ' ' (String.trim line)) in
      (match toks with
       | [] -> print_newline ()
       | name :: args ->
         (match List.assoc_opt name Table.table with
          | None -> print_string ("ERR unknown-entry " ^ name); print_newline ()
          | Some f ->
            let zs = List.rev (List.rev_map (fun s -> z_of_int (int_of_string s)) args) in
            let out = f zs in
            Buffer.clear buf;
            List.iter (fun z -> Buffer.add_string buf (string_of_int (int_of_z z)); Buffer.add_char buf ' ') out;
            print_string (Buffer.contents buf); print_newline ()))
    done
  with End_of_file -> ())
