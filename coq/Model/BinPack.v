(* Executable model of jumanji/environments/packing/bin_pack (env.py, space.py, types.py, reward.py, generator.py).
   Impl layer: mirrors the algorithm the code runs -- _pack_item, _update_ems (the six half-space intersections,
   the dominance filtering with its in-place dictionary updates, the scan of _add_ems with its argmin slot choice,
   slot 0 being OVERWRITTEN when the buffer is full), _get_set_of_largest_ems (stable argsort of -volume*mask),
   _get_action_mask, the reward functions and the splitting procedure of RandomGenerator over explicit draws.
   Numbers.  Item / container / EMS coordinates are int32 in the code: the model works over Z and is valid while
     every coordinate stays below 2^24 in absolute value (the code sends five of the six coordinates of a new EMS
     through float32 -- jnp.maximum(-inf, int32) -- which is the identity below 2^24; 20-ft container: 5870).
   Volumes are float32 products in the code: [vol32] = binary32 rounding (round to nearest even) of x*y, then of (x*y)*z;
     it decides the ORDER of the observed EMSs, so the model rounds exactly like the code.
   Rewards / normalised observations are ratios of integers: the model returns numerators and denominators (the exact
     integer volume for the theorems, the float32-rounded one for the bit-exact comparison with the code).
   No proofs here (see Proofs/BinPack*.v).                                                                            *)
Require Import JV.Base.Prelude JV.Base.JaxIndex JV.Base.Codec JV.Base.TimeStep.

Record space := mkSp { x1 : Z; x2 : Z; y1 : Z; y2 : Z; z1 : Z; z2 : Z }.
Record item := mkIt { xl : Z; yl : Z; zl : Z }.
Record loc := mkLoc { lx : Z; ly : Z; lz : Z }.
Definition sp0 := mkSp 0 0 0 0 0 0.
Definition it0 := mkIt 0 0 0.
Definition loc0 := mkLoc 0 0 0.

(* ---- space.py ---- *)
Definition sp_inter (a b : space) : space :=
  mkSp (Z.max (x1 a) (x1 b)) (Z.min (x2 a) (x2 b)) (Z.max (y1 a) (y1 b)) (Z.min (y2 a) (y2 b))
       (Z.max (z1 a) (z1 b)) (Z.min (z2 a) (z2 b)).
Definition sp_empty (a : space) : bool := (x2 a <=? x1 a) || (y2 a <=? y1 a) || (z2 a <=? z1 a).
Definition sp_intersect (a b : space) : bool := negb (sp_empty (sp_inter a b)).
(* a.is_included(b) *)
Definition sp_incl (a b : space) : bool :=
  (x1 b <=? x1 a) && (x2 a <=? x2 b) && (y1 b <=? y1 a) && (y2 a <=? y2 b) && (z1 b <=? z1 a) && (z2 a <=? z2 b).
Definition item_of (e : space) : item := mkIt (x2 e - x1 e) (y2 e - y1 e) (z2 e - z1 e).
Definition fits (i o : item) : bool := (xl i <=? xl o) && (yl i <=? yl o) && (zl i <=? zl o).
Definition item_space (i : item) (l : loc) : space :=
  mkSp (lx l) (lx l + xl i) (ly l) (ly l + yl i) (lz l) (lz l + zl i).

(* item_space.hyperplane(axis, direction).intersection(e): max(-inf, v) = v, min(inf, v) = v *)
Inductive dir := XL | XU | YL | YU | ZL | ZU.
Definition all_dirs := [XL; XU; YL; YU; ZL; ZU].      (* itertools.product(["x","y","z"], ["lower","upper"]) *)
Definition hyper (d : dir) (it e : space) : space :=
  match d with
  | XL => mkSp (x1 e) (Z.min (x1 it) (x2 e)) (y1 e) (y2 e) (z1 e) (z2 e)
  | XU => mkSp (Z.max (x2 it) (x1 e)) (x2 e) (y1 e) (y2 e) (z1 e) (z2 e)
  | YL => mkSp (x1 e) (x2 e) (y1 e) (Z.min (y1 it) (y2 e)) (z1 e) (z2 e)
  | YU => mkSp (x1 e) (x2 e) (Z.max (y2 it) (y1 e)) (y2 e) (z1 e) (z2 e)
  | ZL => mkSp (x1 e) (x2 e) (y1 e) (y2 e) (z1 e) (Z.min (z1 it) (z2 e))
  | ZU => mkSp (x1 e) (x2 e) (y1 e) (y2 e) (Z.max (z2 it) (z1 e)) (z2 e)
  end.

(* ---- float32 volumes ---- *)
Definition rne24_pos (m : Z) : Z :=
  if m <? 16777216 then m else
  let p := 2 ^ (Z.log2 m - 23) in
  let q := m / p in
  let r := m mod p in
  (if (p <? 2 * r) || ((2 * r =? p) && Z.odd q) then q + 1 else q) * p.
Definition rne24 (x : Z) : Z := if x <? 0 then - rne24_pos (- x) else rne24_pos x.
Definition ivol (i : item) : Z := xl i * yl i * zl i.                       (* exact volume *)
Definition ivol32 (i : item) : Z := rne24 (rne24 (xl i * yl i) * zl i).      (* x_len * y_len * z_len in float32 *)
Definition svol32 (e : space) : Z := ivol32 (item_of e).
Definition svol (e : space) : Z := ivol (item_of e).

Record state := mkS {
  container : space;
  ems : list space; ems_mask : list bool;
  items : list item; items_mask : list bool; items_placed : list bool; items_loc : list loc;
  action_mask : list (list bool);
  sorted_idx : list Z }.

(* ---- _get_set_of_largest_ems: jnp.argsort(-(volume * mask)) is stable ---- *)
Fixpoint keys_of (es : list space) (ms : list bool) : list Z :=
  match es, ms with e :: es', m :: ms' => (if m then svol32 e else 0) :: keys_of es' ms' | _, _ => [] end.
(* insert index i (larger than every index already present) after all entries whose key is >= key i *)
Fixpoint insert_desc (ks : list Z) (i : Z) (l : list Z) : list Z :=
  match l with
  | [] => [i]
  | j :: t => if znth 0 ks j <? znth 0 ks i then i :: j :: t else j :: insert_desc ks i t
  end.
Definition argsort_desc (ks : list Z) : list Z :=
  fold_left (fun acc i => insert_desc ks i acc) (zrange (zlen ks)) [].
Definition sorted_of (es : list space) (ms : list bool) : list Z := argsort_desc (keys_of es ms).

(* ---- _get_action_mask on the observed EMSs ---- *)
Fixpoint mask_row (e : space) (em : bool) (its : list item) (im pl : list bool) : list bool :=
  match its, im, pl with
  | i :: its', m :: im', p :: pl' => (negb p && m && em && fits i (item_of e)) :: mask_row e em its' im' pl'
  | _, _, _ => []
  end.
Definition obs_idx (obs : Z) (sorted : list Z) : list Z := firstn_z obs sorted.
Definition mask_of (obs : Z) (s : state) (sorted : list Z) : list (list bool) :=
  map (fun k => mask_row (jget sp0 (ems s) k) (jget false (ems_mask s) k) (items s) (items_mask s) (items_placed s))
      (obs_idx obs sorted).
(* _make_observation_and_extras: state.sorted_ems_indexes and state.action_mask are recomputed *)
Definition refresh (obs : Z) (s : state) : state :=
  let so := sorted_of (ems s) (ems_mask s) in
  mkS (container s) (ems s) (ems_mask s) (items s) (items_mask s) (items_placed s) (items_loc s) (mask_of obs s so) so.

(* ---- _update_ems ---- *)
Fixpoint after_mask (isp : space) (es : list space) (ms : list bool) : list bool :=
  match es, ms with e :: es', m :: ms' => (negb (sp_intersect isp e) && m) :: after_mask isp es' ms' | _, _ => [] end.
(* state.ems_mask & ~inter.is_empty() & ~(inter.is_included(state.ems) & ems_mask_after_intersect)   (elementwise) *)
Fixpoint cand_mask (d : dir) (isp : space) (es : list space) (ms af : list bool) : list bool :=
  match es, ms, af with
  | e :: es', m :: ms', a :: af' =>
      (m && negb (sp_empty (hyper d isp e)) && negb (sp_incl (hyper d isp e) e && a)) :: cand_mask d isp es' ms' af'
  | _, _, _ => []
  end.
Fixpoint index_from {A} (i : Z) (l : list A) : list (Z * A) :=
  match l with [] => [] | x :: t => (i, x) :: index_from (i + 1) t end.
Fixpoint zip {A B} (a : list A) (b : list B) : list (A * B) :=
  match a, b with x :: a', y :: b' => (x, y) :: zip a' b' | _, _ => [] end.
(* to_remove[i] = any_j ( incl(Ed[i],Ea[j]) & offdiag & Md[i] & Ma[j]  &  ~( incl(Ea[j],Ed[i]) & offdiag & Ma[j] & Md[i] ) ) *)
Definition to_remove (same : bool) (Ed : list space) (Md : list bool) (Ea : list space) (Ma : list bool) : list bool :=
  let alt := index_from 0 (zip Ea Ma) in
  map (fun p : Z * (space * bool) =>
         let '(i, (ci, mi)) := p in
         existsb (fun q : Z * (space * bool) =>
                    let '(j, (cj, mj)) := q in
                    let off := negb (same && (i =? j)) in
                    (sp_incl ci cj && off && mi && mj) && negb (sp_incl cj ci && off && mj && mi)) alt)
      (index_from 0 (zip Ed Md)).
Fixpoint and_not (m r : list bool) : list bool :=
  match m, r with a :: m', b :: r' => (a && negb b) :: and_not m' r' | _, _ => [] end.
Definition dir_eqb (a b : dir) : bool :=
  match a, b with XL, XL | XU, XU | YL, YL | YU, YU | ZL, ZL | ZU, ZU => true | _, _ => false end.
Definition dir_idx (d : dir) : nat := match d with XL => 0 | XU => 1 | YL => 2 | YU => 3 | ZL => 4 | ZU => 5 end%nat.
(* the double loop of _get_intersections_dict.  [ms] = the six masks (the dictionary, updated in place):
   for direction d the mask Md is the value bound when the outer iteration starts; the alternative mask is the CURRENT
   dictionary entry (already filtered for earlier directions, partially filtered for a = d). *)
Definition filter_dir (E : dir -> list space) (ms : list (list bool)) (d : dir) : list (list bool) :=
  let Md := nth (dir_idx d) ms [] in
  fold_left (fun (ms : list (list bool)) (a : dir) =>
               let rem := to_remove (dir_eqb d a) (E d) Md (E a) (nth (dir_idx a) ms []) in
               upd (dir_idx d) (and_not (nth (dir_idx d) ms []) rem) ms) all_dirs ms.
Definition filter_all (E : dir -> list space) (ms : list (list bool)) : list (list bool) :=
  fold_left (filter_dir E) all_dirs ms.

(* jnp.argmin(ems_mask) on booleans: the first False, 0 when every slot is taken *)
Fixpoint first_false (i : Z) (l : list bool) : Z :=
  match l with [] => 0 | b :: t => if b then first_false (i + 1) t else i end.
(* _add_ems: lax.scan over the candidates of one direction *)
Definition add_one (st : list space * list bool) (c : space * bool) : list space * list bool :=
  let '(es, ms) := st in
  let '(ce, cm) := c in
  if cm && negb (existsb (fun p : space * bool => sp_incl ce (fst p) && snd p) (zip es ms))
  then let k := first_false 0 ms in (jset es k ce, jset ms k true)
  else (es, ms).
Definition add_ems (cands : list (space * bool)) (st : list space * list bool) : list space * list bool :=
  fold_left add_one cands st.
Definition update_ems (es : list space) (ms : list bool) (isp : space) : list space * list bool :=
  let af := after_mask isp es ms in
  let E := fun d => map (hyper d isp) es in
  let m0 := map (fun d => cand_mask d isp es ms af) all_dirs in
  let mf := filter_all E m0 in
  fold_left (fun st d => add_ems (zip (E d) (nth (dir_idx d) mf [])) st) all_dirs (es, af).

(* ---- _pack_item (indices with JAX semantics: gathers clamp, scatters drop) ---- *)
Definition pack_item (s : state) (ems_id item_id : Z) : state :=
  let e := jget sp0 (ems s) ems_id in
  let locs := jset (items_loc s) item_id (mkLoc (x1 e) (y1 e) (z1 e)) in
  let placed := jset (items_placed s) item_id true in
  let isp := item_space (jget it0 (items s) item_id) (jget loc0 locs item_id) in
  let '(es, ms) := update_ems (ems s) (ems_mask s) isp in
  mkS (container s) es ms (items s) (items_mask s) placed locs (action_mask s) (sorted_idx s).

(* ---- reward.py: numerators over the container volume ---- *)
Fixpoint placed_vol (its : list item) (pl : list bool) : Z :=
  match its, pl with i :: its', p :: pl' => (if p then ivol i else 0) + placed_vol its' pl' | _, _ => 0 end.
Fixpoint placed_vols32 (its : list item) (pl : list bool) : list Z :=
  match its, pl with i :: its', p :: pl' => (if p then ivol32 i else 0) :: placed_vols32 its' pl' | _, _ => [] end.
Definition fsum32 (l : list Z) : Z := fold_left (fun acc v => rne24 (acc + v)) l 0.   (* sequential float32 sum *)
Definition pvol (s : state) : Z := placed_vol (items s) (items_placed s).
Definition reward_num (sparse : bool) (s : state) (item_id : Z) (s' : state) (valid done : bool) : Z :=
  if sparse then (if done then pvol s' else 0)
  else (if valid then ivol (jget it0 (items s) item_id) else 0).
Definition reward_num32 (sparse : bool) (s : state) (item_id : Z) (s' : state) (valid done : bool) : Z :=
  if sparse then (if done then fsum32 (placed_vols32 (items s') (items_placed s')) else 0)
  else (if valid then ivol32 (jget it0 (items s) item_id) else 0).

(* ---- step ---- *)
Definition any2 (m : list (list bool)) : bool := existsb (fun r => existsb (fun b => b) r) m.
Definition step_valid (s : state) (a0 a1 : Z) : bool := gget false (action_mask s) a0 a1.
Definition step_state (obs : Z) (s : state) (a0 a1 : Z) : state :=
  let ems_id := jget 0 (sorted_idx s) a0 in
  refresh obs (if step_valid s a0 a1 then pack_item s ems_id a1 else s).
Definition step_done (obs : Z) (s : state) (a0 a1 : Z) : bool :=
  negb (any2 (action_mask (step_state obs s a0 a1))) || negb (step_valid s a0 a1).
(* the reward code of the timestep is the EXACT numerator (utilisation = numerator / container volume) *)
Definition step (obs : Z) (sparse : bool) (s : state) (a0 a1 : Z) : state * tstep :=
  let s' := step_state obs s a0 a1 in
  let done := step_done obs s a0 a1 in
  (s', cond_done 1 done [reward_num sparse s a1 s' (step_valid s a0 a1) done]).

(* ---- reset: generator(key) then _make_observation_and_extras.  The instance (items, their mask) is the draw. ---- *)
Definition make_container (X Y Z0 : Z) : space := mkSp 0 X 0 Y 0 Z0.
Definition init_state (c : space) (max_ems : Z) (its : list item) (im : list bool) : state :=
  let n := length its in
  mkS c (c :: repeat sp0 (Z.to_nat max_ems - 1)) (true :: repeat false (Z.to_nat max_ems - 1))
      its im (repeat false n) (repeat loc0 n) [] (zrange max_ems).
Definition init (obs : Z) (c : space) (max_ems : Z) (its : list item) (im : list bool) : state * tstep :=
  (refresh obs (init_state c max_ems its im), restart 1).

(* ---- observation: the obs_num_ems first EMSs of the sorted order; numerators, the denominators are the container's ---- *)
Definition obs_ems (obs : Z) (s : state) : list space := map (fun k => jget sp0 (ems s) k) (obs_idx obs (sorted_idx s)).
Definition obs_ems_mask (obs : Z) (s : state) : list bool := map (fun k => jget false (ems_mask s) k) (obs_idx obs (sorted_idx s)).

(* ---- RandomGenerator._split_container_into_items_spaces over explicit draws ---- *)
Inductive axis := AX | AY | AZ.
Definition ax_lo (a : axis) (e : space) : Z := match a with AX => x1 e | AY => y1 e | AZ => z1 e end.
Definition ax_hi (a : axis) (e : space) : Z := match a with AX => x2 e | AY => y2 e | AZ => z2 e end.
Definition set_lo (a : axis) (e : space) (v : Z) : space :=
  match a with AX => mkSp v (x2 e) (y1 e) (y2 e) (z1 e) (z2 e) | AY => mkSp (x1 e) (x2 e) v (y2 e) (z1 e) (z2 e)
             | AZ => mkSp (x1 e) (x2 e) (y1 e) (y2 e) v (z2 e) end.
Definition set_hi (a : axis) (e : space) (v : Z) : space :=
  match a with AX => mkSp (x1 e) v (y1 e) (y2 e) (z1 e) (z2 e) | AY => mkSp (x1 e) (x2 e) (y1 e) v (z1 e) (z2 e)
             | AZ => mkSp (x1 e) (x2 e) (y1 e) (y2 e) (z1 e) v end.
(* one draw = (axis, item_id, once?, value): value = the split coordinate (once) or num_split (multiple) *)
Record draw := mkD { d_axis : axis; d_item : Z; d_once : bool; d_val : Z }.
(* coord.at[free].set(coord[item_id]) on every coordinate, then the two axis writes *)
Definition split_once (a : axis) (sps : list space) (ms : list bool) (id v : Z) : list space * list bool :=
  let free := first_false 0 ms in
  let sps1 := jset sps free (jget sp0 sps id) in
  let sps2 := jset sps1 id (set_hi a (jget sp0 sps1 id) v) in
  let sps3 := jset sps2 free (set_lo a (jget sp0 sps2 free) v) in
  (sps3, jset ms free true).
(* fori_loop(1, num_split): piece i = [lo + i*len/k, lo + (i+1)*len/k)  (truncating float division, exact here) *)
Fixpoint split_multi_loop (a : axis) (lo len k id : Z) (i : Z) (fuel : nat) (st : list space * list bool) : list space * list bool :=
  match fuel with
  | O => st
  | S f =>
      let '(sps, ms) := st in
      let free := first_false 0 ms in
      let sps1 := jset sps free (jget sp0 sps id) in
      let sps2 := jset sps1 free (set_lo a (jget sp0 sps1 free) (lo + i * len / k)) in
      let sps3 := jset sps2 free (set_hi a (jget sp0 sps2 free) (lo + (i + 1) * len / k)) in
      split_multi_loop a lo len k id (i + 1) f (sps3, jset ms free true)
  end.
Definition split_multi (a : axis) (sps : list space) (ms : list bool) (id k : Z) : list space * list bool :=
  let e := jget sp0 sps id in
  let lo := ax_lo a e in
  let len := ax_hi a e - lo in
  let sps1 := jset sps id (set_hi a (jget sp0 sps id) (lo + len / k)) in
  split_multi_loop a lo len k id 1 (Z.to_nat (k - 1)) (sps1, ms).
Fixpoint mask_nonempty (sps : list space) (ms : list bool) : list bool :=
  match sps, ms with e :: sps', m :: ms' => (m && negb (sp_empty e)) :: mask_nonempty sps' ms' | _, _ => [] end.
Definition split_step (st : list space * list bool) (d : draw) : list space * list bool :=
  let '(sps, ms) := st in
  let '(sps', ms') := if d_once d then split_once (d_axis d) sps ms (d_item d) (d_val d)
                      else split_multi (d_axis d) sps ms (d_item d) (d_val d) in
  (sps', mask_nonempty sps' ms').
Definition count_true (l : list bool) : Z := count_if (fun b => b) l.
(* while num_items < max_num_items - split_num_same_items + 1: one more split (one draw per iteration) *)
Fixpoint split_loop (n same : Z) (ds : list draw) (st : list space * list bool) : list space * list bool :=
  match ds with
  | [] => st
  | d :: ds' => if count_true (snd st) <? n - same + 1 then split_loop n same ds' (split_step st d) else st
  end.
Definition gen_spaces (n same : Z) (c : space) (ds : list draw) : list space * list bool :=
  split_loop n same ds (repeat c (Z.to_nat n), true :: repeat false (Z.to_nat n - 1)).
(* the draw is one the code can make: a masked item, a split point inside the item / 1 <= num_split <= same *)
Definition valid_draw (same : Z) (st : list space * list bool) (d : draw) : bool :=
  let '(sps, ms) := st in
  let e := znth sp0 sps (d_item d) in
  (0 <=? d_item d) && (d_item d <? zlen sps) && znth false ms (d_item d) && (ax_lo (d_axis d) e <? ax_hi (d_axis d) e)
  && (if d_once d then (ax_lo (d_axis d) e <=? d_val d) && (d_val d <=? ax_hi (d_axis d) e)
      else (1 <=? d_val d) && (d_val d <=? same)).

(* ---- declarative side ---- *)
Definition item_at (s : state) (i : Z) : item := znth it0 (items s) i.
Definition loc_at (s : state) (i : Z) : loc := znth loc0 (items_loc s) i.
Definition placed_at (s : state) (i : Z) : bool := znth false (items_placed s) i.
Definition imask_at (s : state) (i : Z) : bool := znth false (items_mask s) i.
Definition ems_at (s : state) (k : Z) : space := znth sp0 (ems s) k.
Definition emask_at (s : state) (k : Z) : bool := znth false (ems_mask s) k.
Definition ispace (s : state) (i : Z) : space := item_space (item_at s i) (loc_at s i).
(* the pair (observed EMS number e, item i) is legal: the EMS the agent sees at position e is active, the item is real and
   not placed yet, and it fits in that EMS *)
Definition legal (s : state) (e i : Z) : Prop :=
  let k := znth 0 (sorted_idx s) e in
  emask_at s k = true /\ imask_at s i = true /\ placed_at s i = false /\ fits (item_at s i) (item_of (ems_at s k)) = true.
Definition legal_b (s : state) (e i : Z) : bool :=
  let k := znth 0 (sorted_idx s) e in
  emask_at s k && imask_at s i && negb (placed_at s i) && fits (item_at s i) (item_of (ems_at s k)).
(* the stored mask / order are those of the current contents (what _make_observation_and_extras establishes) *)
Definition consistent (obs : Z) (s : state) : Prop :=
  sorted_idx s = sorted_of (ems s) (ems_mask s) /\ action_mask s = mask_of obs s (sorted_idx s).
Definition shape (n m : Z) (s : state) : Prop :=
  zlen (items s) = n /\ zlen (items_mask s) = n /\ zlen (items_placed s) = n /\ zlen (items_loc s) = n /\
  zlen (ems s) = m /\ zlen (ems_mask s) = m.
Definition shape_b (n m : Z) (s : state) : bool :=
  (zlen (items s) =? n) && (zlen (items_mask s) =? n) && (zlen (items_placed s) =? n) && (zlen (items_loc s) =? n)
  && (zlen (ems s) =? m) && (zlen (ems_mask s) =? m).
(* C06: the hard constraints, with the strengthening on the EMSs *)
Definition Packing (s : state) : Prop :=
  (forall i, placed_at s i = true -> sp_incl (ispace s i) (container s) = true) /\
  (forall i j, i <> j -> placed_at s i = true -> placed_at s j = true -> sp_intersect (ispace s i) (ispace s j) = false) /\
  (forall k, emask_at s k = true ->
     sp_incl (ems_at s k) (container s) = true /\ forall i, placed_at s i = true -> sp_intersect (ems_at s k) (ispace s i) = false).
Definition Packing_b (s : state) : bool :=
  let ns := zrange (zlen (items_placed s)) in
  forallb (fun i => negb (placed_at s i) || sp_incl (ispace s i) (container s)) ns
  && forallb (fun i => forallb (fun j => (i =? j) || negb (placed_at s i) || negb (placed_at s j)
                                         || negb (sp_intersect (ispace s i) (ispace s j))) ns) ns
  && forallb (fun k => negb (emask_at s k) ||
                       (sp_incl (ems_at s k) (container s)
                        && forallb (fun i => negb (placed_at s i) || negb (sp_intersect (ems_at s k) (ispace s i))) ns))
             (zrange (zlen (ems_mask s))).
(* C01: every coordinate kept in the EMS buffer (active or stale) and every item length lies in the declared box *)
Definition in_box (c e : space) : bool :=
  (x1 c <=? x1 e) && (x1 e <=? x2 c) && (x1 c <=? x2 e) && (x2 e <=? x2 c) &&
  (y1 c <=? y1 e) && (y1 e <=? y2 c) && (y1 c <=? y2 e) && (y2 e <=? y2 c) &&
  (z1 c <=? z1 e) && (z1 e <=? z2 c) && (z1 c <=? z2 e) && (z2 e <=? z2 c).
Definition item_in (c : space) (i : item) : bool :=
  (0 <=? xl i) && (xl i <=? x2 c - x1 c) && (0 <=? yl i) && (yl i <=? y2 c - y1 c) && (0 <=? zl i) && (zl i <=? z2 c - z1 c).
Definition ranges_b (s : state) : bool :=
  forallb (in_box (container s)) (ems s) && forallb (item_in (container s)) (items s).
Definition count_placed (s : state) : Z := count_true (items_placed s).
(* C12: the order shown to the agent: decreasing masked float32 volume, ties by increasing index *)
Definition before (ks : list Z) (i j : Z) : bool :=
  (znth 0 ks j <? znth 0 ks i) || ((znth 0 ks j =? znth 0 ks i) && (i <? j)).
Fixpoint sorted_b (ks : list Z) (l : list Z) : bool :=
  match l with
  | [] => true
  | i :: t => forallb (before ks i) t && sorted_b ks t
  end.
Definition perm_b (n : Z) (l : list Z) : bool :=
  (zlen l =? n) && forallb (fun i => count_if (Z.eqb i) l =? 1) (zrange n).
(* C10: the items of a solved instance tile the container: inside, pairwise disjoint, volumes add up *)
Fixpoint masked_vol (sps : list space) (ms : list bool) : Z :=
  match sps, ms with e :: sps', m :: ms' => (if m then svol e else 0) + masked_vol sps' ms' | _, _ => 0 end.
Definition tiling_b (c : space) (sps : list space) (ms : list bool) : bool :=
  let idx := index_from 0 (zip sps ms) in
  forallb (fun p : Z * (space * bool) => let '(i, (e, m)) := p in
     negb m || (sp_incl e c && negb (sp_empty e) &&
                forallb (fun q : Z * (space * bool) => let '(j, (f, mf)) := q in
                           (i =? j) || negb mf || negb (sp_intersect e f)) idx)) idx
  && (masked_vol sps ms =? svol c).
(* generate_solution: the state with every item placed at its own location is feasible *)
Definition solution_state (c : space) (sps : list space) (ms : list bool) : state :=
  mkS c [] [] (map item_of sps) ms ms (map (fun e => mkLoc (x1 e) (y1 e) (z1 e)) sps) [] [].

(* ---- wire format ---- *)
Definition dec_space (l : list Z) : space * list Z :=
  let (a, l) := take1 l in let (b, l) := take1 l in let (c, l) := take1 l in
  let (d, l) := take1 l in let (e, l) := take1 l in let (f, l) := take1 l in (mkSp a b c d e f, l).
Definition dec_item (l : list Z) : item * list Z :=
  let (a, l) := take1 l in let (b, l) := take1 l in let (c, l) := take1 l in (mkIt a b c, l).
Definition dec_loc (l : list Z) : loc * list Z :=
  let (a, l) := take1 l in let (b, l) := take1 l in let (c, l) := take1 l in (mkLoc a b c, l).
Definition enc_space (e : space) : list Z := [x1 e; x2 e; y1 e; y2 e; z1 e; z2 e].
Definition enc_loc (p : loc) : list Z := [lx p; ly p; lz p].
(* state: container(6), ems(m*6), ems_mask(m), items(n*3), items_mask(n), placed(n), loc(n*3), action_mask(r*n), sorted(m)
   where r = number of rows of the stored action mask *)
Definition dec_state (n m r : Z) (l : list Z) : state * list Z :=
  let (c, l) := dec_space l in
  let (es, l) := dec_many dec_space (Z.to_nat m) l in
  let (em, l) := taken m l in
  let (its, l) := dec_many dec_item (Z.to_nat n) l in
  let (im, l) := taken n l in
  let (pl, l) := taken n l in
  let (lc, l) := dec_many dec_loc (Z.to_nat n) l in
  let (am, l) := take_grid r n l in
  let (so, l) := taken m l in
  (mkS c es (bools em) its (bools im) (bools pl) lc (map bools am) so, l).
(* out: ems, ems_mask, placed, loc, action_mask, sorted, obs_ems (numerators), obs_ems_mask *)
Definition enc_out (obs : Z) (s : state) : list Z :=
  concat (map enc_space (ems s)) ++ unbools (ems_mask s) ++ unbools (items_placed s) ++ concat (map enc_loc (items_loc s))
  ++ concat (map unbools (action_mask s)) ++ sorted_idx s
  ++ concat (map enc_space (obs_ems obs s)) ++ unbools (obs_ems_mask obs s).

(* in: n, m, r, obs, sparse, state, a0, a1
   out: enc_out s', step_type, exact reward numerator, discount, float32 reward numerator, float32 container volume,
        exact container volume *)
Definition bin_pack_step_io (l : list Z) : list Z :=
  let (n, l) := take1 l in let (m, l) := take1 l in let (r, l) := take1 l in let (obs, l) := take1 l in
  let (sp, l) := take1 l in let (s, l) := dec_state n m r l in let (a0, l) := take1 l in let (a1, _) := take1 l in
  let (s', t) := step obs (z2b sp) s a0 a1 in
  enc_out obs s' ++ enc_ts t
  ++ [reward_num32 (z2b sp) s a1 s' (step_valid s a0 a1) (step_done obs s a0 a1); svol32 (container s); svol (container s)].
(* @export bin_pack_step_io *)

(* in: n, m, obs, container(6), items(n*3), items_mask(n) -> out: enc_out (reset state), timestep *)
Definition bin_pack_init_io (l : list Z) : list Z :=
  let (n, l) := take1 l in let (m, l) := take1 l in let (obs, l) := take1 l in
  let (c, l) := dec_space l in
  let (its, l) := dec_many dec_item (Z.to_nat n) l in
  let (im, _) := taken n l in
  let (s, t) := init obs c m its (bools im) in enc_out obs s ++ enc_ts t.
(* @export bin_pack_init_io *)

(* verified checkers on IMPLEMENTATION states.  in: n, m, r, obs, state
   out: [stored mask = legal_b everywhere; Packing_b; shape_b; ranges_b; sorted is a permutation; sorted is ordered
         (decreasing masked float32 volume, ties by index); stored order/mask = recomputed; number placed; exact placed volume;
         exact container volume; any mask entry true] *)
Definition bin_pack_check_io (l : list Z) : list Z :=
  let (n, l) := take1 l in let (m, l) := take1 l in let (r, l) := take1 l in let (obs, l) := take1 l in
  let (s, _) := dec_state n m r l in
  let ks := keys_of (ems s) (ems_mask s) in
  [ b2z (list_eqb (list_eqb Bool.eqb) (action_mask s) (map (fun e => map (legal_b s e) (zrange n)) (zrange r)));
    b2z (Packing_b s);
    b2z (shape_b n m s);
    b2z (ranges_b s);
    b2z (perm_b m (sorted_idx s));
    b2z (sorted_b ks (sorted_idx s));
    b2z (list_eqb Z.eqb (sorted_idx s) (sorted_of (ems s) (ems_mask s))
         && list_eqb (list_eqb Bool.eqb) (action_mask s) (mask_of obs s (sorted_idx s)));
    count_placed s; pvol s; svol (container s); b2z (any2 (action_mask s)) ].
(* @export bin_pack_check_io *)

(* generator.  in: n, same, container(6), ndraws, draws (axis, item, once, value)*
   out: spaces(n*6), mask(n), all draws valid, tiling_b, Packing_b of the solution state, number of draws consumed *)
Definition dec_draw (l : list Z) : draw * list Z :=
  let (a, l) := take1 l in let (i, l) := take1 l in let (o, l) := take1 l in let (v, l) := take1 l in
  (mkD (if a =? 0 then AX else if a =? 1 then AY else AZ) i (z2b o) v, l).
Fixpoint draws_valid (n same : Z) (ds : list draw) (st : list space * list bool) : bool * Z :=
  match ds with
  | [] => (true, 0)
  | d :: ds' => if count_true (snd st) <? n - same + 1
                then let (b, k) := draws_valid n same ds' (split_step st d) in (valid_draw same st d && b, k + 1)
                else (true, 0)
  end.
Definition bin_pack_gen_io (l : list Z) : list Z :=
  let (n, l) := take1 l in let (same, l) := take1 l in
  let (c, l) := dec_space l in let (k, l) := take1 l in
  let (ds, _) := dec_many dec_draw (Z.to_nat k) l in
  let st0 := (repeat c (Z.to_nat n), true :: repeat false (Z.to_nat n - 1)) in
  let '(sps, ms) := gen_spaces n same c ds in
  let (ok, used) := draws_valid n same ds st0 in
  concat (map enc_space sps) ++ unbools ms
  ++ [b2z ok; b2z (tiling_b c sps ms); b2z (Packing_b (solution_state c sps ms)); used].
(* @export bin_pack_gen_io *)

(* literal instances (ToyGenerator / CSVGenerator): in: n, container(6), spaces (n*6), mask(n) -> tiling_b, Packing_b solution *)
Definition bin_pack_tiling_io (l : list Z) : list Z :=
  let (n, l) := take1 l in let (c, l) := dec_space l in
  let (sps, l) := dec_many dec_space (Z.to_nat n) l in let (ms, _) := taken n l in
  [b2z (tiling_b c sps (bools ms)); b2z (Packing_b (solution_state c sps (bools ms)))].
(* @export bin_pack_tiling_io *)

(* float32 volume rounding, validated against numpy by the harness: in: (x, y, z)* -> ivol32 *)
Fixpoint vols_of (l : list Z) (fuel : nat) : list Z :=
  match fuel, l with
  | S f, a :: b :: c :: t => ivol32 (mkIt a b c) :: vols_of t f
  | _, _ => []
  end.
Definition bin_pack_vol32_io (l : list Z) : list Z := vols_of l (length l).
(* @export bin_pack_vol32_io *)

(* ToyGenerator: the literal solved instance of generator.py (items at their locations), 20-ft container.
   The harness checks that these are the spaces of the real ToyGenerator().generate_solution. *)
Definition toy_container : space := make_container 5870 2330 2200.
Definition toy_spaces : list space :=
  [mkSp 0 2445 0 1306 0 1022;
   mkSp 0 3083 0 1429 1022 1571;
   mkSp 3083 5033 0 1301 1022 1722;
   mkSp 2445 5870 0 321 0 1022;
   mkSp 0 3083 0 1165 1571 2200;
   mkSp 3083 5870 0 2330 1722 1922;
   mkSp 2445 5870 910 1201 0 1022;
   mkSp 3083 5870 0 1504 2043 2200;
   mkSp 3083 5870 1504 2330 2043 2200;
   mkSp 2445 5870 1864 2330 0 363;
   mkSp 0 3083 1429 2330 1022 1571;
   mkSp 3083 5870 1301 2330 1022 1722;
   mkSp 0 1295 1306 2330 0 1022;
   mkSp 3083 5870 0 2330 1922 2043;
   mkSp 0 3083 1165 2330 1571 2200;
   mkSp 2445 5870 1864 2330 363 1022;
   mkSp 2445 5870 1201 1864 0 1022;
   mkSp 5033 5870 0 1301 1022 1722;
   mkSp 1295 2445 1306 2330 0 1022;
   mkSp 2445 5870 321 910 0 1022].
Definition toy_mask : list bool := repeat true 20.
(* out: container(6), spaces(20*6) *)
Definition bin_pack_toy_io (l : list Z) : list Z := enc_space toy_container ++ concat (map enc_space toy_spaces).
(* @export bin_pack_toy_io *)

(* ---- CSVGenerator._generate_list_of_items: every row (x_len, y_len, z_len, quantity) gives `quantity` copies of its item, in
   file order (quantity * [Item]: a non-positive quantity gives none); items_mask is all True, the reset state is
   init_state on these items.  The example of the class docstring as a literal instance. ---- *)
Definition csv_items (rows : list (item * Z)) : list item :=
  flat_map (fun r : item * Z => repeat (fst r) (Z.to_nat (snd r))) rows.
Definition csv_doc_rows : list (item * Z) := [(mkIt 1080 760 300, 5); (mkIt 1100 430 250, 3)].
Definition dec_row (l : list Z) : (item * Z) * list Z :=
  let (i, l) := dec_item l in let (q, l) := take1 l in ((i, q), l).
(* in: nrows, (x_len, y_len, z_len, quantity)* -> out: number of items, items (n*3) *)
Definition bin_pack_csv_io (l : list Z) : list Z :=
  let (k, l) := take1 l in
  let (rows, _) := dec_many dec_row (Z.to_nat k) l in
  let its := csv_items rows in
  zlen its :: concat (map (fun i : item => [xl i; yl i; zl i]) its).
(* @export bin_pack_csv_io *)
(* the literal docstring instance: out: nrows, rows (x, y, z, quantity)*, then as bin_pack_csv_io on these rows *)
Definition bin_pack_csvdoc_io (l : list Z) : list Z :=
  let its := csv_items csv_doc_rows in
  zlen csv_doc_rows :: concat (map (fun r : item * Z => [xl (fst r); yl (fst r); zl (fst r); snd r]) csv_doc_rows)
  ++ zlen its :: concat (map (fun i : item => [xl i; yl i; zl i]) its).
(* @export bin_pack_csvdoc_io *)
