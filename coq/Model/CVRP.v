(* Executable model of jumanji/environments/routing/cvrp (env.py, reward.py, generator.py).
   Numbers.  Demands, capacity, position, trajectory, num_total_visits are int32 in the code: plain integers here.
   Coordinates are float32 and are only ever COPIED by reset/step/observe; the only float arithmetic is in the reward:
   Euclidean distances (sqrt) and their sums.  The distance is an ORACLE [dist : Z -> Z -> Z] between node indices
   (in the wire format: a table with the implementation's own float32 pairwise distances as exact scaled integers, read
   with the clamping gather semantics of coordinates[i]); [pen] is the code of the documented penalty 2*num_nodes*sqrt(2).
   A reward that is a single table entry (or the penalty) is therefore reproduced exactly.  The one float subtraction of
   the dense reward (closing step:  r - d(next, depot)) goes through an explicit rounding function [rnd]:
     - [rid]    exact arithmetic (the idealised rules over which the theorems are stated; under the invariant the
                subtracted term is d(depot,depot) = 0, Proofs/CVRP.v closing_term_zero)
     - [rne24]  IEEE binary32 round-to-nearest-even (bit-exact on scaled float32 values)
   The sparse reward (a float32 sum of 2*num_nodes terms in unspecified order) is modelled exactly and compared with a
   tolerance.  Mirrors the code's algorithm (Impl layer); the declarative side ([legal], [Inv], [step_rules],
   [route_len], [load]) is below.  No proofs here (see Proofs/CVRP*.v).                                            *)
Require Import JV.Base.Prelude JV.Base.JaxIndex JV.Base.Codec JV.Base.TimeStep.

(* n = num_nodes (customers); node 0 is the depot; arrays have n+1 entries, the trajectory 2n *)
Record state := mkS { demands : list Z; pos : Z; cap : Z; visited : list bool; traj : list Z; nvis : Z }.

(* IEEE-754 binary32 rounding (round to nearest, ties to even) of an integer, 24 significant bits *)
Definition rne24_pos (m : Z) : Z :=
  if m <? 16777216 then m else
  let p := 2 ^ (Z.log2 m - 23) in
  let q := m / p in
  let r := m mod p in
  (if (p <? 2 * r) || ((2 * r =? p) && Z.odd q) then q + 1 else q) * p.
Definition rne24 (x : Z) : Z := if x <? 0 then - rne24_pos (- x) else rne24_pos x.
Definition rid (x : Z) : Z := x.

Fixpoint map2 {A B C} (f : A -> B -> C) (a : list A) (b : list B) : list C :=
  match a, b with x :: a', y :: b' => f x y :: map2 f a' b' | _, _ => [] end.

(* is_valid = ~state.visited_mask[action] & (state.capacity >= state.demands[action])      (gathers clamp) *)
Definition valid (s : state) (a : Z) : bool :=
  negb (jget false (visited s) a) && (jget 0 (demands s) a <=? cap s).

(* _update_state: capacity = select(action == DEPOT, max_capacity, capacity - demands[action]);
   visited_mask.at[DEPOT].set(False).at[action].set(True); trajectory.at[num_total_visits].set(action)  (scatters drop) *)
Definition update (mc : Z) (s : state) (a : Z) : state :=
  mkS (demands s) a
      (if a =? 0 then mc else cap s - jget 0 (demands s) a)
      (jset (jset (visited s) 0 false) a true)
      (jset (traj s) (nvis s) a)
      (nvis s + 1).

Definition all_visited (s : state) : bool := forallb (fun b => b) (visited s).

(* _state_to_observation: action_mask = (~visited & (capacity >= demands)).at[DEPOT].set(position != DEPOT) *)
Definition mask (s : state) : list bool :=
  jset (map2 (fun (v : bool) d => negb v && (d <=? cap s)) (visited s) (demands s)) 0 (negb (pos s =? 0)).

(* jnp.roll(x, -1, axis=0) *)
Definition roll1 {A} (l : list A) : list A := match l with [] => [] | x :: t => t ++ [x] end.
(* compute_tour_length(coordinates, trajectory) = sum_i | c[traj[i]] - c[traj[i+1 mod 2n]] |  (the gather's clamping is in dist) *)
Definition tour_length (dist : Z -> Z -> Z) (tr : list Z) : Z := zsum (map2 dist tr (roll1 tr)).

(* reward.py: SparseReward (sparse = true) / DenseReward (sparse = false) *)
Definition reward_of (rnd : Z -> Z) (sparse : bool) (pen : Z) (dist : Z -> Z -> Z) (s s' : state) (is_valid : bool) : Z :=
  if sparse then
    let is_done := all_visited s' || negb is_valid in
    if is_done then (if is_valid then - tour_length dist (traj s') else - pen) else 0
  else
    let r := if is_valid then - dist (pos s) (pos s') else - pen in
    if all_visited s' then rnd (r - dist (pos s') 0) else r.

Definition step_r (rnd : Z -> Z) (sparse : bool) (mc pen : Z) (dist : Z -> Z -> Z) (s : state) (a : Z) : state * tstep :=
  let is_valid := valid s a in
  let s' := if is_valid then update mc s a else s in        (* lax.cond(is_valid, _update_state, identity) *)
  let r := reward_of rnd sparse pen dist s s' is_valid in
  let is_done := all_visited s' || negb is_valid in
  (s', cond_done 1 is_done [r]).
Definition step : bool -> Z -> Z -> (Z -> Z -> Z) -> state -> Z -> state * tstep := step_r rid.

(* observation: copies, the negated visited mask, the action mask; demands and capacity are shown divided by
   max_capacity (the model returns the numerators; the division is checked in the harness) *)
Definition observe (s : state) : list Z * list bool * Z * list Z * Z * list bool :=
  (demands s, map negb (visited s), pos s, traj s, cap s, mask s).

(* UniformGenerator.__call__ as a function of the explicit draw (the n+1 integer demands; coordinates are copied) *)
Definition init (n mc : Z) (draw : list Z) : state * tstep :=
  (mkS (jset draw 0 0) 0 mc (jset (repeat false (Z.to_nat (n + 1))) 0 true) (repeat 0 (Z.to_nat (2 * n))) 1, restart 1).
(* a draw: n+1 demands in [1, max_demand], 2(n+1) coordinates on the grid of scale sc: 0 <= x < sc *)
Definition valid_draw (n maxd sc : Z) (draw coords : list Z) : bool :=
  (zlen draw =? n + 1) && forallb (fun d => (1 <=? d) && (d <=? maxd)) draw
  && (zlen coords =? 2 * (n + 1)) && forallb (fun x => (0 <=? x) && (x <? sc)) coords.

(* ---- declarative side ---- *)
(* node a may be visited next: the depot iff the vehicle is not at the depot; a customer iff it has not been served and
   its demand does not exceed the remaining capacity (== included) *)
Definition legal (n : Z) (s : state) (a : Z) : Prop :=
  (a = 0 /\ pos s <> 0) \/ (1 <= a <= n /\ znth true (visited s) a = false /\ znth 0 (demands s) a <= cap s).
Definition legal_b (n : Z) (s : state) (a : Z) : bool :=
  ((a =? 0) && negb (pos s =? 0))
  || ((1 <=? a) && (a <=? n) && negb (znth true (visited s) a) && (znth 0 (demands s) a <=? cap s)).

(* the route so far as a ghost history h, MOST RECENT FIRST (the initial depot is not listed) *)
(* vehicle load: demands served since the last depot visit *)
Fixpoint load (dem : list Z) (h : list Z) : Z :=
  match h with [] => 0 | a :: r => if a =? 0 then 0 else znth 0 dem a + load dem r end.
(* distance travelled: every leg goes from the previous node (the depot at the start) to the chosen one *)
Fixpoint rlen (dist : Z -> Z -> Z) (h : list Z) : Z :=
  match h with [] => 0 | a :: r => dist (hd 0 r) a + rlen dist r end.
(* the documented objective: total route length including the return to the depot *)
Definition route_len (dist : Z -> Z -> Z) (h : list Z) : Z := rlen dist h + dist (hd 0 h) 0.
Definition customers (h : list Z) : list Z := filter (fun a => negb (a =? 0)) h.
Definition mem (l : list Z) (i : Z) : bool := existsb (Z.eqb i) l.
Fixpoint nodup_b (l : list Z) : bool := match l with [] => true | x :: t => negb (mem t x) && nodup_b t end.

(* how the 2n-slot trajectory array records the route: slot 0 is the initial depot, then the visits, then DEPOT padding;
   the (2n+1)-th visit does not fit: its write is dropped, and it is always a depot visit *)
Definition traj_ok (L : Z) (h t : list Z) : Prop :=
  (zlen h < L /\ t = (0 :: rev h) ++ repeat 0 (Z.to_nat (L - 1 - zlen h)))
  \/ (zlen h = L /\ hd 1 h = 0 /\ t = 0 :: rev (tl h)).
Definition traj_ok_b (L : Z) (h t : list Z) : bool :=
  ((zlen h <? L) && list_eqb Z.eqb t ((0 :: rev h) ++ repeat 0 (Z.to_nat (L - 1 - zlen h))))
  || ((zlen h =? L) && (hd 1 h =? 0) && list_eqb Z.eqb t (0 :: rev (tl h))).

(* hard constraints and consistency of a state with the route h that led to it *)
Definition Inv (n mc : Z) (s : state) (h : list Z) : Prop :=
  zlen (demands s) = n + 1 /\ zlen (visited s) = n + 1
  /\ znth 0 (demands s) 0 = 0
  /\ pos s = hd 0 h
  /\ Forall (fun a => 0 <= a <= n) h
  /\ cap s = mc - load (demands s) h /\ 0 <= cap s                      (* load = mc - cap <= mc *)
  /\ (forall i, 1 <= i <= n -> (znth false (visited s) i = true <-> In i h))
  /\ znth false (visited s) 0 = (pos s =? 0)
  /\ NoDup (customers h)                                                  (* no customer served twice *)
  /\ nvis s = 1 + zlen h
  /\ zlen h + (if pos s =? 0 then 0 else 1) <= 2 * zlen (customers h)     (* no two consecutive depot visits *)
  /\ traj_ok (2 * n) h (traj s).
Definition Inv_b (n mc : Z) (s : state) (h : list Z) : bool :=
  (zlen (demands s) =? n + 1) && (zlen (visited s) =? n + 1)
  && (znth 0 (demands s) 0 =? 0)
  && (pos s =? hd 0 h)
  && forallb (fun a => (0 <=? a) && (a <=? n)) h
  && (cap s =? mc - load (demands s) h) && (0 <=? cap s)
  && forallb (fun i => Bool.eqb (znth false (visited s) i) (mem h i)) (zrange_from 1 (Z.to_nat n))
  && Bool.eqb (znth false (visited s) 0) (pos s =? 0)
  && nodup_b (customers h)
  && (nvis s =? 1 + zlen h)
  && (zlen h + (if pos s =? 0 then 0 else 1) <=? 2 * zlen (customers h))
  && traj_ok_b (2 * n) h (traj s).
(* the route read back from the trajectory array of a state (most recent first) *)
Definition hist_of (n : Z) (s : state) : list Z :=
  if nvis s <=? 2 * n then rev (tl (firstn_z (nvis s) (traj s))) else 0 :: rev (tl (traj s)).
Definition Feasible_b (n mc : Z) (s : state) : bool := Inv_b n mc s (hist_of n s).
(* completion: every customer has been served and the vehicle is back at the depot *)
Definition complete_b (n : Z) (s : state) : bool :=
  forallb (fun i => znth false (visited s) i) (zrange_from 1 (Z.to_nat n)) && (pos s =? 0).

(* generated instance: demands[0] = 0, customers' demands in [1, maxd], maxd <= mc *)
Definition instance_b (n mc maxd : Z) (s : state) : bool :=
  (zlen (demands s) =? n + 1) && (znth 1 (demands s) 0 =? 0)
  && forallb (fun i => (1 <=? znth 0 (demands s) i) && (znth 0 (demands s) i <=? maxd)) (zrange_from 1 (Z.to_nat n))
  && (maxd <=? mc).
(* declared observation ranges: demands/mc and capacity/mc in [0,1], position in [0,n], trajectory in [0,n+1], shapes *)
Definition ranges_b (n mc : Z) (s : state) : bool :=
  (zlen (demands s) =? n + 1) && (zlen (visited s) =? n + 1) && (zlen (traj s) =? 2 * n)
  && forallb (fun d => (0 <=? d) && (d <=? mc)) (demands s)
  && (0 <=? cap s) && (cap s <=? mc) && (0 <=? pos s) && (pos s <=? n)
  && forallb (fun x => (0 <=? x) && (x <=? n + 1)) (traj s).

(* the documented penalty: p (scaled by sc) is within tol of 2*n*sqrt(2), i.e. (p-tol)^2 <= 8 n^2 sc^2 <= (p+tol)^2 *)
Definition penalty_b (n sc tol p : Z) : bool :=
  (0 <=? p - tol) && ((p - tol) * (p - tol) <=? 8 * n * n * sc * sc) && (8 * n * n * sc * sc <=? (p + tol) * (p + tol)).

(* the published rules, stated with plain in-range list operations (no JAX index semantics):
   a legal node is visited: the depot refills the vehicle, a customer is served and its demand leaves the capacity;
   the visit is recorded in the trajectory while there is a free slot; the episode ends when every customer is served
   and the vehicle is back at the depot (dense: minus the leg travelled; sparse: minus the tour length at the end);
   an illegal node ends the episode with the penalty and changes nothing *)
Definition visit (n mc : Z) (s : state) (a : Z) : state :=
  mkS (demands s) a
      (if a =? 0 then mc else cap s - znth 0 (demands s) a)
      (zupd a true (zupd 0 false (visited s)))
      (if nvis s <? 2 * n then zupd (nvis s) a (traj s) else traj s)
      (nvis s + 1).
Definition step_rules (sparse : bool) (n mc pen : Z) (dist : Z -> Z -> Z) (s : state) (a : Z) : state * tstep :=
  if legal_b n s a then
    let s' := visit n mc s a in
    if complete_b n s'
    then (s', termination 1 [if sparse then - tour_length dist (traj s') else - dist (pos s) a])
    else (s', transition 1 [if sparse then 0 else - dist (pos s) a])
  else (s, termination 1 [- pen]).

(* ---- wire format ---- *)
Definition dec_state (n : Z) (l : list Z) : state * list Z :=
  let (d, l) := taken (n + 1) l in
  let (p, l) := take1 l in
  let (c, l) := take1 l in
  let (v, l) := taken (n + 1) l in
  let (t, l) := taken (2 * n) l in
  let (k, l) := take1 l in
  (mkS d p c (bools v) t k, l).
Definition enc_state (s : state) : list Z := demands s ++ [pos s; cap s] ++ unbools (visited s) ++ traj s ++ [nvis s].
Definition enc_obs (s : state) : list Z :=
  match observe s with (d, u, p, t, c, m) => d ++ unbools u ++ [p] ++ t ++ [c] ++ unbools m end.
(* coordinates[i] - coordinates[j] : both gathers clamp *)
Definition table_dist (tab : list (list Z)) (i j : Z) : Z := gget 0 tab i j.
Definition enc_out (p : state * tstep) : list Z := enc_state (fst p) ++ enc_obs (fst p) ++ enc_ts (snd p).

(* in: n, float32 (1: round the closing dense difference like binary32, 0: exact), sparse, mc, pen, table((n+1)^2), state,
       k, k actions
   out: for each action: state', observation', step_type, reward, discount *)
Definition cvrp_step_io (l : list Z) : list Z :=
  let (n, l) := take1 l in let (fl, l) := take1 l in let (sp, l) := take1 l in
  let (mc, l) := take1 l in let (pen, l) := take1 l in
  let (tab, l) := take_grid (n + 1) (n + 1) l in
  let (s, l) := dec_state n l in let (k, l) := take1 l in let (acts, _) := taken k l in
  concat (map (fun a => enc_out (step_r (if z2b fl then rne24 else rid) (z2b sp) mc pen (table_dist tab) s a)) acts).
(* @export cvrp_step_io *)

(* the declarative rules, same wire format (without the rounding flag) *)
Definition cvrp_rules_io (l : list Z) : list Z :=
  let (n, l) := take1 l in let (sp, l) := take1 l in
  let (mc, l) := take1 l in let (pen, l) := take1 l in
  let (tab, l) := take_grid (n + 1) (n + 1) l in
  let (s, l) := dec_state n l in let (k, l) := take1 l in let (acts, _) := taken k l in
  concat (map (fun a => enc_out (step_rules (z2b sp) n mc pen (table_dist tab) s a)) acts).
(* @export cvrp_rules_io *)

(* in: n, mc, maxd, sc, demands draw (n+1), coordinates (2(n+1)) -> reset state, observation, timestep, valid_draw *)
Definition cvrp_init_io (l : list Z) : list Z :=
  let (n, l) := take1 l in let (mc, l) := take1 l in let (maxd, l) := take1 l in let (sc, l) := take1 l in
  let (d, l) := taken (n + 1) l in let (c, _) := taken (2 * (n + 1)) l in
  enc_out (init n mc d) ++ [b2z (valid_draw n maxd sc d c)].
(* @export cvrp_init_io *)

(* verified checkers on IMPLEMENTATION states.  in: n, mc, maxd, table((n+1)^2), state, observed mask(n+1)
   out: [mask = legal for every node; Feasible (Inv with the route read back from the trajectory); instance well-formed;
         declared ranges; complete; number of customers served; vehicle load since the last depot visit;
         distance travelled; route length incl. return to the depot; the code's tour_length of the trajectory;
         table diagonal is zero] *)
Definition cvrp_check_io (l : list Z) : list Z :=
  let (n, l) := take1 l in let (mc, l) := take1 l in let (maxd, l) := take1 l in
  let (tab, l) := take_grid (n + 1) (n + 1) l in
  let (s, l) := dec_state n l in let (m, _) := taken (n + 1) l in
  let h := hist_of n s in
  [ b2z (list_eqb Bool.eqb (bools m) (map (legal_b n s) (zrange (n + 1))));
    b2z (Feasible_b n mc s);
    b2z (instance_b n mc maxd s);
    b2z (ranges_b n mc s);
    b2z (complete_b n s);
    zlen (customers h);
    load (demands s) h;
    rlen (table_dist tab) h;
    route_len (table_dist tab) h;
    tour_length (table_dist tab) (traj s);
    b2z (forallb (fun i => table_dist tab i i =? 0) (zrange (n + 1))) ].
(* @export cvrp_check_io *)

(* in: n, sc, tol, p -> [penalty_b] ;  then the rounding function: xs -> rne24 xs *)
Definition cvrp_penalty_io (l : list Z) : list Z :=
  let (n, l) := take1 l in let (sc, l) := take1 l in let (tol, l) := take1 l in let (p, _) := take1 l in
  [b2z (penalty_b n sc tol p)].
(* @export cvrp_penalty_io *)
Definition cvrp_rne_io (l : list Z) : list Z := map rne24 l.
(* @export cvrp_rne_io *)
