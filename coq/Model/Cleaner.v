(* Executable model of jumanji/environments/routing/cleaner (env.py, generator.py, constants.py).
   Impl layer: [step], [compute_mask], [init] mirror the code's algorithm, with JAX's gather / scatter
   behaviour written out through jget / gget / gset.  Rules layer: [legal], [ref_step] are an independent,
   strict-accessor statement of the game's rules.  No proofs here (see Proofs/Cleaner.v).

   Reward code = 4 * (float reward); pen = 4 * penalty_per_timestep (exact for dyadic penalties).
   tlim = the EFFECTIVE limit, [eff_limit] models `time_limit or num_rows * num_cols` (None and 0 are falsy). *)
Require Import JV.Base.Prelude JV.Base.JaxIndex JV.Base.Codec JV.Base.TimeStep.

Definition DIRTY := 0. Definition CLEAN := 1. Definition WALL := 2.

Record cfg := mkC { rows : Z; cols : Z; nag : Z; tlim : Z; pen : Z }.
Definition eff_limit (tl r c : Z) : Z := if tl =? 0 then r * c else tl.

Record state := mkS { grid : list (list Z); locs : list (Z * Z); amask : list (list bool); cnt : Z }.

Fixpoint map2 {A B C} (f : A -> B -> C) (a : list A) (b : list B) : list C :=
  match a, b with x :: a', y :: b' => f x y :: map2 f a' b' | _, _ => [] end.

(* ---------- Impl layer ---------- *)
Definition moves : list (Z * Z) := [(-1, 0); (0, 1); (1, 0); (0, -1)].   (* constants.MOVES *)
Definition move_of (a : Z) : Z * Z := jget (0, 0) moves a.                (* MOVES[action] (gather) *)
Definition padd (p q : Z * Z) : Z * Z := (fst p + fst q, snd p + snd q).

(* is_move_valid: y, x = agent_location + move; bounds against num_cols / num_rows; grid[y, x] is a gather *)
Definition move_valid (R C : Z) (g : list (list Z)) (loc mv : Z * Z) : bool :=
  let y := fst loc + fst mv in let x := snd loc + snd mv in
  (0 <=? x) && (x <? C) && (0 <=? y) && (y <? R) && negb (gget 0 g y x =? WALL).

Definition compute_mask (R C : Z) (g : list (list Z)) (ls : list (Z * Z)) : list (list bool) :=
  map (fun loc => map (move_valid R C g loc) moves) ls.

(* action_mask[arange(num_agents), action] *)
Definition valids (m : list (list bool)) (acts : list Z) : list bool :=
  map2 (fun (row : list bool) (a : Z) => jget false row a) m acts.

(* prev_locations + where(valid[:, None], MOVES[action], 0) *)
Definition new_locs (ls : list (Z * Z)) (vs : list bool) (acts : list Z) : list (Z * Z) :=
  map2 (fun (loc : Z * Z) (va : bool * Z) => if fst va then padd loc (move_of (snd va)) else loc) ls (combine vs acts).

(* grid.at[locs[:, 0], locs[:, 1]].set(CLEAN) : scatter, out-of-range updates dropped *)
Definition clean_all (g : list (list Z)) (ls : list (Z * Z)) : list (list Z) :=
  fold_left (fun g p => gset g (fst p) (snd p) CLEAN) ls g.

(* jnp.sum(prev.grid != grid) *)
Definition count_changed (g g' : list (list Z)) : Z :=
  zsum (map2 (fun r r' => zsum (map2 (fun x y => b2z (negb (x =? y))) r r')) g g').
Definition any_dirty (g : list (list Z)) : bool := existsb (existsb (fun x => x =? DIRTY)) g.

Definition step (c : cfg) (s : state) (acts : list Z) : state * tstep :=
  let vs := valids (amask s) acts in
  let ls := new_locs (locs s) vs acts in
  let g := clean_all (grid s) ls in
  let n := cnt s + 1 in
  let rew := 4 * count_changed (grid s) g - pen c in
  let done := negb (forallb (fun b => b) vs) || negb (any_dirty g) || (tlim c <=? n) in
  (mkS g ls (compute_mask (rows c) (cols c) g ls) n, cond_done 1 done [rew]).

(* generator._adapt_values on a maze over {EMPTY=0, WALL=1}, then grid.at[0,0].set(CLEAN), agents at (0,0);
   reset computes the mask for agents at (0,0) *)
Definition adapt (v : Z) : Z := let v1 := if v =? 0 then DIRTY else v in if v1 =? 1 then WALL else v1.
Definition init (c : cfg) (maze : list (list Z)) : state * tstep :=
  let g := gset (map (map adapt) maze) 0 0 CLEAN in
  let ls := repeat (0, 0) (Z.to_nat (nag c)) in
  (mkS g ls (compute_mask (rows c) (cols c) g ls) 0, restart 1).

(* env.reset on the state returned by an ARBITRARY Generator subclass: the mask is computed from the generator's own
   agents_locations (before the fix "Cleaner reset computed the action mask for agents at (0,0)" it was computed for
   agents at (0,0); the shipped RandomGenerator puts agents at (0,0), so both agree there) *)
Definition reset_of (c : cfg) (g : list (list Z)) (ls : list (Z * Z)) : state * tstep :=
  (mkS g ls (compute_mask (rows c) (cols c) g ls) 0, restart 1).

(* _observation_from_state: plain copies *)
Definition observe (s : state) : list (list Z) * list (Z * Z) * list (list bool) * Z :=
  (grid s, locs s, amask s, cnt s).

(* ---------- Rules layer (independent statement, strict accessors only) ---------- *)
Definition dir (a : Z) : Z * Z :=
  if a =? 0 then (-1, 0) else if a =? 1 then (0, 1) else if a =? 2 then (1, 0) else if a =? 3 then (0, -1) else (0, 0).

(* action a (0 up, 1 right, 2 down, 3 left) is legal for an agent at loc: the target cell is on the grid and not a wall *)
Definition legal (R C : Z) (g : list (list Z)) (loc : Z * Z) (a : Z) : Prop :=
  0 <= a < 4 /\ 0 <= fst loc + fst (dir a) < R /\ 0 <= snd loc + snd (dir a) < C
  /\ gat 0 g (fst loc + fst (dir a)) (snd loc + snd (dir a)) <> WALL.
Definition legal_b (R C : Z) (g : list (list Z)) (loc : Z * Z) (a : Z) : bool :=
  inb 4 a && inb R (fst loc + fst (dir a)) && inb C (snd loc + snd (dir a))
  && negb (gat 0 g (fst loc + fst (dir a)) (snd loc + snd (dir a)) =? WALL).

Definition occupied (ls : list (Z * Z)) (r c : Z) : bool :=
  existsb (fun p => (fst p =? r) && (snd p =? c)) ls.
Definition count_dirty (g : list (list Z)) : Z :=
  zsum (map (fun r => zsum (map (fun x => b2z (x =? DIRTY)) r)) g).

(* reference step: every agent whose action is legal moves one cell, the others stay; every cell holding an
   agent becomes CLEAN; reward = tiles cleaned - penalty; the episode ends on an illegal action, when nothing
   is dirty, or at the time limit; the new mask lists the legal actions *)
Definition ref_step (c : cfg) (s : state) (acts : list Z) : state * tstep :=
  let R := rows c in let C := cols c in
  let ls := map2 (fun loc a => if legal_b R C (grid s) loc a then padd loc (dir a) else loc) (locs s) acts in
  let g := map (fun r => map (fun k => if occupied ls r k then CLEAN else gat 0 (grid s) r k) (zrange C)) (zrange R) in
  let illegal := existsb (fun b => negb b) (map2 (legal_b R C (grid s)) (locs s) acts) in
  let rew := 4 * (count_dirty (grid s) - count_dirty g) - pen c in
  let done := illegal || (count_dirty g =? 0) || (tlim c <=? cnt s + 1) in
  (mkS g ls (map (fun loc => map (legal_b R C g loc) (zrange 4)) ls) (cnt s + 1),
   mkTS (if done then LAST else MID) [rew] [if done then 0 else 1]).

(* ---------- state predicates (C07 / C01) with boolean twins ---------- *)
Definition dims (g : list (list Z)) (R C : Z) : Prop := zlen g = R /\ Forall (fun r => zlen r = C) g.
Definition dims_b (g : list (list Z)) (R C : Z) : bool := (zlen g =? R) && forallb (fun r => zlen r =? C) g.
Definition cell_ok (v : Z) : Prop := v = DIRTY \/ v = CLEAN \/ v = WALL.
Definition cell_ok_b (v : Z) : bool := (v =? DIRTY) || (v =? CLEAN) || (v =? WALL).
(* an agent is on the grid and stands on a CLEAN cell (so never on a wall) *)
Definition agent_ok (R C : Z) (g : list (list Z)) (p : Z * Z) : Prop :=
  0 <= fst p < R /\ 0 <= snd p < C /\ gat 0 g (fst p) (snd p) = CLEAN.
Definition agent_ok_b (R C : Z) (g : list (list Z)) (p : Z * Z) : bool :=
  inb R (fst p) && inb C (snd p) && (gat 0 g (fst p) (snd p) =? CLEAN).

Definition Physical (c : cfg) (s : state) : Prop :=
  dims (grid s) (rows c) (cols c) /\ Forall (Forall cell_ok) (grid s)
  /\ zlen (locs s) = nag c /\ Forall (agent_ok (rows c) (cols c) (grid s)) (locs s).
Definition Physical_b (c : cfg) (s : state) : bool :=
  dims_b (grid s) (rows c) (cols c) && forallb (forallb cell_ok_b) (grid s)
  && (zlen (locs s) =? nag c) && forallb (agent_ok_b (rows c) (cols c) (grid s)) (locs s).

Definition mask_eqb (a b : list (list bool)) : bool := list_eqb (list_eqb Bool.eqb) a b.
(* the stored mask is the table of legal actions of every agent *)
Definition mask_exact_b (c : cfg) (s : state) : bool :=
  mask_eqb (amask s) (map (fun loc => map (legal_b (rows c) (cols c) (grid s) loc) (zrange 4)) (locs s)).

Definition Inv (c : cfg) (s : state) : Prop :=
  Physical c s /\ amask s = compute_mask (rows c) (cols c) (grid s) (locs s) /\ 0 <= cnt s.
Definition Inv_b (c : cfg) (s : state) : bool :=
  Physical_b c s && mask_eqb (amask s) (compute_mask (rows c) (cols c) (grid s) (locs s)) && (0 <=? cnt s).

(* a cell either keeps its value or goes DIRTY -> CLEAN *)
Definition cell_step (x y : Z) : Prop := y = x \/ (x = DIRTY /\ y = CLEAN).
Definition cell_step_b (x y : Z) : bool := (y =? x) || ((x =? DIRTY) && (y =? CLEAN)).
Definition grid_step (g g' : list (list Z)) : Prop := Forall2 (Forall2 cell_step) g g'.
Fixpoint forallb2 {A B} (f : A -> B -> bool) (a : list A) (b : list B) : bool :=
  match a, b with
  | [], [] => true
  | x :: a', y :: b' => f x y && forallb2 f a' b'
  | _, _ => false
  end.
Definition grid_step_b (g g' : list (list Z)) : bool := forallb2 (forallb2 cell_step_b) g g'.

(* observation_spec: grid in [0,2], locations in [0,0]..[num_rows,num_cols], step_count in [0,time_limit] *)
Definition spec_ok_b (c : cfg) (s : state) : bool :=
  dims_b (grid s) (rows c) (cols c) && forallb (forallb (fun v => (0 <=? v) && (v <=? 2))) (grid s)
  && (zlen (locs s) =? nag c)
  && forallb (fun p => (0 <=? fst p) && (fst p <=? rows c) && (0 <=? snd p) && (snd p <=? cols c)) (locs s)
  && (zlen (amask s) =? nag c) && forallb (fun r => zlen r =? 4) (amask s)
  && (0 <=? cnt s) && (cnt s <=? tlim c).

(* generated instance (C10): upper-left cell CLEAN, every other cell DIRTY or WALL, agents at (0,0), step 0 *)
Definition fresh_b (c : cfg) (s : state) : bool :=
  (gat 0 (grid s) 0 0 =? CLEAN)
  && forallb (fun r => forallb (fun k => ((r =? 0) && (k =? 0)) || (gat 0 (grid s) r k =? DIRTY) || (gat 0 (grid s) r k =? WALL))
                               (zrange (cols c))) (zrange (rows c))
  && forallb (fun p => (fst p =? 0) && (snd p =? 0)) (locs s) && (cnt s =? 0).

(* every non-wall cell is reachable from (0,0) through non-wall cells: flood fill with explicit fuel.
   [reach] is a boolean R x C table; one sweep marks every free cell having a marked 4-neighbour. *)
Definition free (g : list (list Z)) (r k : Z) : bool := negb (gat 0 g r k =? WALL).
Definition sweep (R C : Z) (g : list (list Z)) (m : list (list bool)) : list (list bool) :=
  map (fun r => map (fun k => gat false m r k
      || (free g r k && (gat false m (r - 1) k || gat false m (r + 1) k || gat false m r (k - 1) || gat false m r (k + 1))))
      (zrange C)) (zrange R).
Fixpoint flood (fuel : nat) (R C : Z) (g : list (list Z)) (m : list (list bool)) : list (list bool) :=
  match fuel with O => m | S f => flood f R C g (sweep R C g m) end.
Definition seed (R C : Z) (g : list (list Z)) : list (list bool) :=
  map (fun r => map (fun k => (r =? 0) && (k =? 0) && free g 0 0) (zrange C)) (zrange R).
Definition connected_b (R C : Z) (g : list (list Z)) : bool :=
  let m := flood (Z.to_nat (R * C)) R C g (seed R C g) in
  forallb (fun r => forallb (fun k => negb (free g r k) || gat false m r k) (zrange C)) (zrange R).

(* ---------- wire format ---------- *)
Fixpoint pairs (l : list Z) : list (Z * Z) :=
  match l with x :: y :: t => (x, y) :: pairs t | _ => [] end.
Definition unpairs (l : list (Z * Z)) : list Z := concat (map (fun p => [fst p; snd p]) l).

Definition dec_cfg (l : list Z) : cfg * list Z :=
  let (r, l) := take1 l in let (k, l) := take1 l in let (a, l) := take1 l in
  let (t, l) := take1 l in let (p, l) := take1 l in (mkC r k a t p, l).
Definition dec_state (c : cfg) (l : list Z) : state * list Z :=
  let (g, l) := take_grid (rows c) (cols c) l in
  let (ls, l) := taken (2 * nag c) l in
  let (m, l) := take_grid (nag c) 4 l in
  let (n, l) := take1 l in
  (mkS g (pairs ls) (map bools m) n, l).
Definition enc_state (s : state) : list Z :=
  concat (grid s) ++ unpairs (locs s) ++ concat (map unbools (amask s)) ++ [cnt s].

(* in: cfg, state, actions -> out: state', step_type, reward*4, discount *)
Definition cleaner_step_io (l : list Z) : list Z :=
  let (c, l) := dec_cfg l in let (s, l) := dec_state c l in let (a, _) := taken (nag c) l in
  let (s', t) := step c s a in enc_state s' ++ enc_ts t.
(* @export cleaner_step_io *)

(* the reference (Rules) step on the same wire format *)
Definition cleaner_ref_io (l : list Z) : list Z :=
  let (c, l) := dec_cfg l in let (s, l) := dec_state c l in let (a, _) := taken (nag c) l in
  let (s', t) := ref_step c s a in enc_state s' ++ enc_ts t.
(* @export cleaner_ref_io *)

(* in: cfg, maze (rows x cols over {0,1}) -> reset state, timestep *)
Definition cleaner_init_io (l : list Z) : list Z :=
  let (c, l) := dec_cfg l in let (m, _) := take_grid (rows c) (cols c) l in
  let (s, t) := init c m in enc_state s ++ enc_ts t.
(* @export cleaner_init_io *)

(* in: cfg, generator grid, generator agents_locations -> reset state, timestep (custom Generator subclasses) *)
Definition cleaner_reset_io (l : list Z) : list Z :=
  let (c, l) := dec_cfg l in let (g, l) := take_grid (rows c) (cols c) l in
  let (ls, _) := taken (2 * nag c) l in
  let (s, t) := reset_of c g (pairs ls) in enc_state s ++ enc_ts t.
(* @export cleaner_reset_io *)

(* verified checkers on IMPLEMENTATION states:
   [Physical; mask = table of legal actions; Inv; observation spec bounds; fresh instance] *)
Definition cleaner_check_io (l : list Z) : list Z :=
  let (c, l) := dec_cfg l in let (s, _) := dec_state c l in
  [ b2z (Physical_b c s); b2z (mask_exact_b c s); b2z (Inv_b c s); b2z (spec_ok_b c s);
    b2z (fresh_b c s) ].
(* @export cleaner_check_io *)

(* in: rows, cols, grid -> [every non-wall cell is connected to (0,0)] *)
Definition cleaner_conn_io (l : list Z) : list Z :=
  let (r, l) := take1 l in let (k, l) := take1 l in let (g, _) := take_grid r k l in
  [ b2z (connected_b r k g) ].
(* @export cleaner_conn_io *)

(* monotonicity on an IMPLEMENTATION transition: in: cfg, state, state' -> [cells only go DIRTY -> CLEAN;
   tiles cleaned = dirty before - dirty after] *)
Definition cleaner_mono_io (l : list Z) : list Z :=
  let (c, l) := dec_cfg l in let (s, l) := dec_state c l in let (s', _) := dec_state c l in
  [ b2z (grid_step_b (grid s) (grid s')); count_dirty (grid s) - count_dirty (grid s') ].
(* @export cleaner_mono_io *)

Definition cleaner_limit_io (l : list Z) : list Z :=
  let (t, l) := take1 l in let (r, l) := take1 l in let (k, _) := take1 l in [eff_limit t r k].
(* @export cleaner_limit_io *)
