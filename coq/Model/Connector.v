(* Executable model of jumanji/environments/routing/connector (env.py, utils.py, reward.py, generator.py).
   Impl layer: [step_agent], [step_agents] (vmap over agents on the OLD grid, per-agent grids, max-join,
   collision correction), [action_mask], [step], the two generators over explicit draws.  JAX's gather / scatter
   behaviour is written out through gget / gset / jset; lax.switch clamps its index.
   Rules layer: [legal], [seq_agents] (agents processed one after the other from the HIGHEST id down, every
   agent judged on the current grid: "higher id wins, loser stays"), [ref_step], strict accessors only.
   No proofs here (see Proofs/Connector*.v).

   Reward code = 100 * (float reward): crew = 100 * connected_reward, trew = 100 * timestep_reward
   (defaults 100 and -3).  Cell codes: kind + 3 * agent_id with kind PATH = 1, POSITION = 2, TARGET = 3. *)
Require Import JV.Base.Prelude JV.Base.JaxIndex JV.Base.Codec JV.Base.TimeStep.

Definition EMPTY := 0.
Definition pathv (k : Z) : Z := 1 + 3 * k.
Definition posv (k : Z) : Z := 2 + 3 * k.
Definition tgtv (k : Z) : Z := 3 + 3 * k.

Record cfg := mkC { gsz : Z; nag : Z; tlim : Z; crew : Z; trew : Z }.
Record agent := mkA { aid : Z; astart : Z * Z; atarget : Z * Z; apos : Z * Z }.
Record state := mkS { grid : list (list Z); cnt : Z; agents : list agent }.

Fixpoint map2 {A B C} (f : A -> B -> C) (a : list A) (b : list B) : list C :=
  match a, b with x :: a', y :: b' => f x y :: map2 f a' b' | _, _ => [] end.

Definition tab {A} (n m : Z) (f : Z -> Z -> A) : list (list A) :=
  map (fun r => map (fun c => f r c) (zrange m)) (zrange n).

Definition pos_eqb (p q : Z * Z) : bool := (fst p =? fst q) && (snd p =? snd q).
(* Agent.connected: all(position == target) *)
Definition connected (a : agent) : bool := pos_eqb (apos a) (atarget a).

(* ---------- Impl layer ---------- *)
(* utils.move_position: lax.switch(action, [noop, up, right, down, left]) clamps the index into [0, 4] *)
Definition clamp_act (a : Z) : Z := Z.max 0 (Z.min 4 a).
Definition move_position (p : Z * Z) (a : Z) : Z * Z :=
  let k := clamp_act a in
  if k =? 1 then (fst p - 1, snd p) else if k =? 2 then (fst p, snd p + 1)
  else if k =? 3 then (fst p + 1, snd p) else if k =? 4 then (fst p, snd p - 1) else p.

(* utils.is_valid_position: grid[row, col] is a gather (clamps / wraps), evaluated even when out of bounds *)
Definition is_valid_position (G : Z) (g : list (list Z)) (ag : agent) (p : Z * Z) : bool :=
  let r := fst p in let c := snd p in
  (0 <=? r) && (r <? G) && (0 <=? c) && (c <? G)
  && ((gget 0 g r c =? EMPTY) || (gget 0 g r c =? tgtv (aid ag)))
  && negb (connected ag).

(* utils.move_agent: two scatters, new head first, then the old cell becomes PATH *)
Definition move_agent (ag : agent) (g : list (list Z)) (p : Z * Z) : agent * list (list Z) :=
  (mkA (aid ag) (astart ag) (atarget ag) p,
   gset (gset g (fst p) (snd p) (posv (aid ag))) (fst (apos ag)) (snd (apos ag)) (pathv (aid ag))).

(* env._step_agent *)
Definition step_agent (G : Z) (ag : agent) (g : list (list Z)) (a : Z) : agent * list (list Z) :=
  let p := move_position (apos ag) a in
  if is_valid_position G g ag p && negb (a =? 0) then move_agent ag g p else (ag, g).

(* utils.get_agent_grid applied to one cell: only the values of agent k survive *)
Definition keepv (k v : Z) : Z :=
  b2z (v =? posv k) * posv k + b2z (v =? tgtv k) * tgtv k + b2z (v =? pathv k) * pathv k.

(* jnp.max over the agent axis (every joined value is >= 0) *)
Definition maxl (l : list Z) : Z := fold_right Z.max 0 l.

(* env._step_agents: every agent steps on the OLD grid; per-agent grids are filtered with the agent's INDEX,
   joined by max; an agent whose POSITION value is absent from the join collided and is reverted:
   old agent record, its old cell (now PATH) is bumped by POSITION - PATH = 1. *)
Definition step_agents (G N : Z) (g : list (list Z)) (ags : list agent) (acts : list Z)
  : list agent * list (list Z) :=
  let res := map2 (fun ag a => step_agent G ag g a) ags acts in
  let ids := zrange N in
  let agrids := map2 (fun k (r : agent * list (list Z)) => map (map (keepv k)) (snd r)) ids res in
  let joined := tab G G (fun r c => maxl (map (fun ag_g => gat 0 ag_g r c) agrids)) in
  let coll := map (fun k => negb (existsb (existsb (Z.eqb (posv k))) joined)) ids in
  let corr := fun r c => zsum (map2 (fun k (cl : bool) => b2z (gat 0 g r c =? posv k) * 1 * b2z cl) ids coll) in
  let ags' := map2 (fun (cl : bool) (on : agent * agent) => if cl then fst on else snd on)
                   coll (combine ags (map fst res)) in
  (ags', tab G G (fun r c => gat 0 joined r c + corr r c)).

(* env._get_action_mask: ones(5).at[1..4].set(is_valid_position(move_position(pos, a))) *)
Definition action_mask (G : Z) (g : list (list Z)) (ag : agent) : list bool :=
  true :: map (fun a => is_valid_position G g ag (move_position (apos ag) a)) [1; 2; 3; 4].

(* utils.connected_or_blocked *)
Definition done_of (ag : agent) (m : list bool) : bool :=
  connected ag || negb (existsb (fun b => b) (tl m)).

(* reward.DenseRewardFn *)
Definition reward_of (c : cfg) (old new : agent) : Z :=
  crew c * b2z (negb (connected old) && connected new) + trew c * b2z (negb (connected old)).

Definition step (c : cfg) (s : state) (acts : list Z) : state * tstep * list (list bool) :=
  let G := gsz c in
  let (ags, g) := step_agents G (nag c) (grid s) (agents s) acts in
  let n := cnt s + 1 in
  let rew := map2 (reward_of c) (agents s) ags in
  let masks := map (action_mask G g) ags in
  let done := map2 done_of ags masks in
  let disc := map (fun d : bool => 1 - b2z d) done in
  let fin := forallb (fun d => d) done || (tlim c <=? n) in
  (mkS g n ags, if fin then termination (Z.to_nat (nag c)) rew else transition_d rew disc, masks).

(* env.reset on a generated state: mask per agent, restart timestep *)
Definition reset_of (c : cfg) (s : state) : state * tstep * list (list bool) :=
  (s, restart (Z.to_nat (nag c)), map (action_mask (gsz c) (grid s)) (agents s)).

(* Observation(grid = state.grid, action_mask, step_count): plain copies + the mask function *)
Definition observe (c : cfg) (s : state) : list (list Z) * list (list bool) * Z :=
  (grid s, map (action_mask (gsz c) (grid s)) (agents s), cnt s).

(* ---------- Rules layer (independent statement, strict accessors only) ---------- *)
Definition dir (a : Z) : Z * Z :=
  if a =? 1 then (-1, 0) else if a =? 2 then (0, 1) else if a =? 3 then (1, 0) else if a =? 4 then (0, -1) else (0, 0).
Definition padd (p q : Z * Z) : Z * Z := (fst p + fst q, snd p + snd q).
Definition cell (g : list (list Z)) (p : Z * Z) : Z := gat 0 g (fst p) (snd p).
Definition in_grid (G : Z) (p : Z * Z) : bool := inb G (fst p) && inb G (snd p).

(* action a (0 no-op, 1 up, 2 right, 3 down, 4 left) is legal for an agent: the no-op always; a move iff the
   target cell is on the grid, is EMPTY or the agent's own target, and the agent is not connected yet *)
Definition legal (G : Z) (g : list (list Z)) (ag : agent) (a : Z) : Prop :=
  a = 0 \/ (1 <= a <= 4 /\ 0 <= fst (padd (apos ag) (dir a)) < G /\ 0 <= snd (padd (apos ag) (dir a)) < G
            /\ (cell g (padd (apos ag) (dir a)) = EMPTY \/ cell g (padd (apos ag) (dir a)) = tgtv (aid ag))
            /\ apos ag <> atarget ag).
Definition legal_b (G : Z) (g : list (list Z)) (ag : agent) (a : Z) : bool :=
  (a =? 0) || ((1 <=? a) && (a <=? 4) && in_grid G (padd (apos ag) (dir a))
               && ((cell g (padd (apos ag) (dir a)) =? EMPTY) || (cell g (padd (apos ag) (dir a)) =? tgtv (aid ag)))
               && negb (pos_eqb (apos ag) (atarget ag))).

(* strict cell write *)
Definition gput (g : list (list Z)) (p : Z * Z) (v : Z) : list (list Z) :=
  zupd (fst p) (zupd (snd p) v (znth [] g (fst p))) g.

(* one agent of the sequential rule: a legal move (judged on the CURRENT grid) is carried out, anything else
   leaves agent and grid alone *)
Definition seq_one (G : Z) (ag : agent) (a : Z) (st : list agent * list (list Z)) : list agent * list (list Z) :=
  let g := snd st in
  if legal_b G g ag a && negb (a =? 0) then
    let p := padd (apos ag) (dir a) in
    (mkA (aid ag) (astart ag) (atarget ag) p :: fst st, gput (gput g p (posv (aid ag))) (apos ag) (pathv (aid ag)))
  else (ag :: fst st, g).
(* fold_right handles the LAST list element (highest id) first *)
Definition seq_agents (G : Z) (g : list (list Z)) (ags : list agent) (acts : list Z) : list agent * list (list Z) :=
  fold_right (fun (x : agent * Z) st => seq_one G (fst x) (snd x) st) ([], g) (combine ags acts).

Definition blocked (G : Z) (g : list (list Z)) (ag : agent) : bool :=
  negb (existsb (legal_b G g ag) [1; 2; 3; 4]).

(* reference step: sequential moves, +crew on connection, trew per agent unconnected before the step, per-agent
   discount 0 for connected or blocked agents, LAST when every agent is connected or blocked or at the limit *)
Definition ref_step (c : cfg) (s : state) (acts : list Z) : state * tstep * list (list bool) :=
  let G := gsz c in
  let (ags, g) := seq_agents G (grid s) (agents s) acts in
  let rew := map2 (fun o n => (if negb (connected o) && connected n then crew c else 0)
                              + (if connected o then 0 else trew c)) (agents s) ags in
  let dn := map (fun ag => connected ag || blocked G g ag) ags in
  let fin := forallb (fun d => d) dn || (tlim c <=? cnt s + 1) in
  (mkS g (cnt s + 1) ags,
   mkTS (if fin then LAST else MID) rew (map (fun d : bool => if fin then 0 else if d then 0 else 1) dn),
   map (fun ag => map (legal_b G g ag) (zrange 5)) ags).

(* ---------- state predicates (C06 / C07 / C01) with boolean twins ---------- *)
Definition dims_b (G : Z) (g : list (list Z)) : bool := (zlen g =? G) && forallb (fun r => zlen r =? G) g.
Definition dims (G : Z) (g : list (list Z)) : Prop := zlen g = G /\ Forall (fun r => zlen r = G) g.

(* agent number k of the list: id k, head and target on the grid, the grid shows its head at its position and
   (until connected) its target at its target *)
Definition agent_ok (G : Z) (g : list (list Z)) (k : Z) (ag : agent) : Prop :=
  aid ag = k /\ in_grid G (apos ag) = true /\ in_grid G (atarget ag) = true
  /\ cell g (apos ag) = posv k /\ (connected ag = true \/ cell g (atarget ag) = tgtv k).
Definition agent_ok_b (G : Z) (g : list (list Z)) (k : Z) (ag : agent) : bool :=
  (aid ag =? k) && in_grid G (apos ag) && in_grid G (atarget ag)
  && (cell g (apos ag) =? posv k) && (connected ag || (cell g (atarget ag) =? tgtv k)).

Definition dflt : agent := mkA 0 (0, 0) (0, 0) (0, 0).
(* a cell is EMPTY or carries a value of exactly one agent k < N; a POSITION value sits at that agent's stored
   position, a TARGET value at its stored target (so heads and targets are unique) *)
Definition cell_ok (N : Z) (ags : list agent) (p : Z * Z) (v : Z) : Prop :=
  v = EMPTY \/ exists k, 0 <= k < N /\
     (v = pathv k \/ (v = posv k /\ apos (znth dflt ags k) = p)
      \/ (v = tgtv k /\ atarget (znth dflt ags k) = p)).
Definition cell_ok_b (N : Z) (ags : list agent) (p : Z * Z) (v : Z) : bool :=
  (v =? EMPTY) ||
  ((1 <=? v) && (v <=? 3 * N) &&
   let k := (v - 1) / 3 in
   (v =? pathv k) || ((v =? posv k) && pos_eqb (apos (znth dflt ags k)) p)
   || ((v =? tgtv k) && pos_eqb (atarget (znth dflt ags k)) p)).

Definition Physical (c : cfg) (s : state) : Prop :=
  dims (gsz c) (grid s) /\ zlen (agents s) = nag c
  /\ (forall k, 0 <= k < nag c -> agent_ok (gsz c) (grid s) k (znth dflt (agents s) k))
  /\ (forall r k, 0 <= r < gsz c -> 0 <= k < gsz c -> cell_ok (nag c) (agents s) (r, k) (gat 0 (grid s) r k)).
Definition Physical_b (c : cfg) (s : state) : bool :=
  dims_b (gsz c) (grid s) && (zlen (agents s) =? nag c)
  && forallb (fun k => agent_ok_b (gsz c) (grid s) k (znth dflt (agents s) k)) (zrange (nag c))
  && forallb (fun r => forallb (fun k => cell_ok_b (nag c) (agents s) (r, k) (gat 0 (grid s) r k)) (zrange (gsz c)))
             (zrange (gsz c)).

(* occupancy: number of non-empty cells *)
Definition occupancy (g : list (list Z)) : Z := zsum (map (fun r => zsum (map (fun v => b2z (negb (v =? 0))) r)) g).

(* a cell changes only EMPTY / own TARGET -> POSITION of that agent, or POSITION -> PATH of the same agent *)
Definition cell_step_b (x y : Z) : bool :=
  (y =? x)
  || ((x =? EMPTY) && (1 <=? y) && ((y - 2) mod 3 =? 0))
  || ((1 <=? x) && ((x - 3) mod 3 =? 0) && (y =? x - 1))
  || ((1 <=? x) && ((x - 2) mod 3 =? 0) && (y =? x - 1)).
Fixpoint forallb2 {A B} (f : A -> B -> bool) (a : list A) (b : list B) : bool :=
  match a, b with
  | [], [] => true
  | x :: a', y :: b' => f x y && forallb2 f a' b'
  | _, _ => false
  end.
Definition grid_step_b (g g' : list (list Z)) : bool := forallb2 (forallb2 cell_step_b) g g'.

(* observation_spec: grid (G,G) in [0, 3N+1]; mask (N,5); step_count in [0, time_limit] *)
Definition spec_ok_b (c : cfg) (s : state) (m : list (list bool)) : bool :=
  dims_b (gsz c) (grid s) && forallb (forallb (fun v => (0 <=? v) && (v <=? 3 * nag c + 1))) (grid s)
  && (zlen m =? nag c) && forallb (fun r => zlen r =? 5) m && (0 <=? cnt s) && (cnt s <=? tlim c).

Definition mask_eqb (a b : list (list bool)) : bool := list_eqb (list_eqb Bool.eqb) a b.
Definition mask_exact_b (c : cfg) (s : state) (m : list (list bool)) : bool :=
  mask_eqb m (map (fun ag => map (legal_b (gsz c) (grid s) ag) (zrange 5)) (agents s)).

(* fresh instance (C10): step 0, every agent at its start, no PATH cell, heads and targets on distinct cells *)
Fixpoint nodup_b (l : list Z) : bool :=
  match l with [] => true | x :: t => negb (existsb (Z.eqb x) t) && nodup_b t end.
Definition flat (G : Z) (p : Z * Z) : Z := fst p * G + snd p.
Definition fresh_b (c : cfg) (s : state) : bool :=
  (cnt s =? 0) && forallb (fun ag => pos_eqb (apos ag) (astart ag)) (agents s)
  && forallb (forallb (fun v => (v =? 0) || negb ((v - 1) mod 3 =? 0))) (grid s)
  && nodup_b (map (fun ag => flat (gsz c) (apos ag)) (agents s) ++ map (fun ag => flat (gsz c) (atarget ag)) (agents s))
  && (occupancy (grid s) =? 2 * nag c).

(* ---------- generators over explicit draws ---------- *)
Definition unflat (G : Z) (x : Z) : Z * Z := (x / G, x mod G).   (* jnp.divmod: floor *)
Definition zeros (G : Z) : list (list Z) := tab G G (fun _ _ => 0).
(* grid.at[(rows, cols)].set(values): scatter, negative indices wrap, out-of-range updates are dropped *)
Definition scatter (g : list (list Z)) (ps : list (Z * Z)) (vs : list Z) : list (list Z) :=
  fold_left (fun g (pv : (Z * Z) * Z) => gset g (fst (fst pv)) (snd (fst pv)) (snd pv)) (combine ps vs) g.

(* UniformRandomGenerator: draws = choice(G*G, (2, N), replace=False) *)
Definition gen_uniform (G N : Z) (starts targets : list Z) : state :=
  let ss := map (unflat G) starts in let ts := map (unflat G) targets in
  let g := scatter (scatter (zeros G) ss (map posv (zrange N))) ts (map tgtv (zrange N)) in
  mkS g 0 (map2 (fun k (st : (Z * Z) * (Z * Z)) => mkA k (fst st) (snd st) (fst st)) (zrange N) (combine ss ts)).
Definition uniform_draw_ok (G N : Z) (starts targets : list Z) : bool :=
  (zlen starts =? N) && (zlen targets =? N) && forallb (inb (G * G)) (starts ++ targets) && nodup_b (starts ++ targets).

(* RandomWalkGenerator._adjacent_cells: [-G, +G, -1, +1], padded with -1 *)
Definition adjacent_cells (G cell : Z) : list Z :=
  map (fun d => let x := cell + d in
         if (0 <=? x) && (x <? G * G) && ((x / G =? cell / G) || (x mod G =? cell mod G)) then x else -1)
      [- G; G; -1; 1].
Definition gflat (G : Z) (g : list (list Z)) (x : Z) : Z := gget 0 g (x / G) (x mod G).  (* grid[divmod(x, G)] *)
Definition cell_free (G : Z) (g : list (list Z)) (x : Z) : bool := negb (x =? -1) && (gflat G g x =? 0).
Definition doubling_ok (G : Z) (g : list (list Z)) (wire x : Z) : bool :=
  zsum (map (fun y => b2z (negb (y =? -1) &&
                            let v := gflat G g y in (v =? 3 * wire + 2) || (v =? 3 * wire + 1) || (v =? 3 * wire + 3)))
            (adjacent_cells G x)) <=? 1.
Definition available_cells (G : Z) (g : list (list Z)) (cell : Z) : list Z :=
  let wire := (gflat G g cell - 1) / 3 in
  map (fun x => if cell_free G g x && doubling_ok G g wire x then x else -1) (adjacent_cells G cell).
Definition none_available (av : list Z) : bool := forallb (fun x => x =? -1) av.

Definition reshape (G : Z) (l : list Z) : list (list Z) := fst (take_grid G G l).
(* _initialize_starts_and_first_move for agent k on the flat grid, draws (start, first):
   flat.at[start].set(TARGET k); first is drawn among the available neighbours, and is -1 (the clamped result of
   choice with an all-zero p) when there is none; flat.at[first].set(POSITION k)  -- index -1 wraps to the LAST cell *)
Definition rw_init_one (G : Z) (fl : list Z) (k : Z) (d : Z * Z) : list Z :=
  jset (jset fl (fst d) (tgtv k)) (snd d) (posv k).
Definition rw_draw_ok_one (G : Z) (fl : list Z) (k : Z) (d : Z * Z) : bool :=
  inb (G * G) (fst d) && (znth 1 fl (fst d) =? 0)
  && let av := available_cells G (reshape G (jset fl (fst d) (tgtv k))) (fst d) in
     if none_available av then snd d =? -1 else negb (snd d =? -1) && existsb (Z.eqb (snd d)) av.
Fixpoint rw_init_scan (G : Z) (fl : list Z) (k : Z) (ds : list (Z * Z)) : list Z * bool :=
  match ds with
  | [] => (fl, true)
  | d :: r => let ok := rw_draw_ok_one G fl k d in
              let (fl', okr) := rw_init_scan G (rw_init_one G fl k d) (k + 1) r in (fl', ok && okr)
  end.
(* _initialize_agents: grid + agents (start = divmod(start), target = (-1,-1), position = divmod(first)) *)
Definition rw_init (G N : Z) (ds : list (Z * Z)) : list (list Z) * list agent * bool :=
  let (fl, ok) := rw_init_scan G (repeat 0 (Z.to_nat (G * G))) 0 ds in
  (reshape G fl, map2 (fun k (d : Z * Z) => mkA k (unflat G (fst d)) (-1, -1) (unflat G (snd d))) (zrange N) ds,
   ok && (zlen ds =? N)).

(* one iteration of the walk: _continue_stepping and the joint step with the selected actions *)
Definition rw_continue (G : Z) (g : list (list Z)) (ags : list agent) : bool :=
  negb (forallb (fun ag => none_available (available_cells G g (fst (apos ag) * G + snd (apos ag)))) ags).
(* _action_from_positions(cell, chosen): chosen = -1 when nothing is available *)
Definition action_from (G : Z) (c1 c2 : Z) : Z :=
  let d := (c2 / G - c1 / G, c2 mod G - c1 mod G) in
  b2z (pos_eqb d (-1, 0)) * 1 + b2z (pos_eqb d (1, 0)) * 3 + b2z (pos_eqb d (0, -1)) * 4 + b2z (pos_eqb d (0, 1)) * 2.
Definition rw_choice_ok (G : Z) (g : list (list Z)) (ag : agent) (chosen : Z) : bool :=
  let av := available_cells G g (fst (apos ag) * G + snd (apos ag)) in
  if none_available av then chosen =? -1 else negb (chosen =? -1) && existsb (Z.eqb chosen) av.
Definition rw_step (G N : Z) (g : list (list Z)) (ags : list agent) (chosen : list Z) : list agent * list (list Z) :=
  step_agents G N g ags (map2 (fun ag ch => action_from G (fst (apos ag) * G + snd (apos ag)) ch) ags chosen).

(* end of generate_board: solved board = walk grid with heads at the starts and targets at the final positions;
   agents: target := position, position := start; training board = zeros + heads + targets (scatters wrap) *)
Definition rw_finish (G N : Z) (g : list (list Z)) (ags : list agent) : list (list Z) * state :=
  let ss := map astart ags in let ts := map apos ags in
  let solved := scatter (scatter g ss (map posv (zrange N))) ts (map tgtv (zrange N)) in
  let ags' := map (fun ag => mkA (aid ag) (astart ag) (apos ag) (astart ag)) ags in
  (solved, mkS (scatter (scatter (zeros G) ss (map posv (zrange N))) ts (map tgtv (zrange N))) 0 ags').

(* ---------- solvability certificate (C10): read every agent's wire off the solved board, play all wires
   simultaneously in the model and test that every agent is connected at the end ---------- *)
Fixpoint wire_path (fuel : nat) (G : Z) (sg : list (list Z)) (k : Z) (cur prev tgt : Z * Z) : list Z :=
  match fuel with
  | O => []
  | S f =>
      if pos_eqb cur tgt then [] else
      match find (fun a => let nx := padd cur (dir a) in
                           in_grid G nx && negb (pos_eqb nx prev) && ((cell sg nx =? pathv k) || (cell sg nx =? tgtv k)))
                 [1; 2; 3; 4] with
      | Some a => a :: wire_path f G sg k (padd cur (dir a)) cur tgt
      | None => []
      end
  end.
Definition plan_of (G : Z) (sg : list (list Z)) (ags : list agent) : list (list Z) :=
  let paths := map (fun ag => wire_path (Z.to_nat (G * G)) G sg (aid ag) (apos ag) (-5, -5) (atarget ag)) ags in
  let len := fold_right Z.max 0 (map zlen paths) in
  map (fun t => map (fun p => znth 0 p t) paths) (zrange len).
Fixpoint run (c : cfg) (s : state) (plan : list (list Z)) : state :=
  match plan with [] => s | a :: r => run c (fst (fst (step c s a))) r end.
Definition all_connected (s : state) : bool := forallb connected (agents s).
Definition solves (c : cfg) (s : state) (plan : list (list Z)) : bool := all_connected (run c s plan).

(* ---------- wire format ---------- *)
Definition dec_cfg (l : list Z) : cfg * list Z :=
  let (g, l) := take1 l in let (n, l) := take1 l in let (t, l) := take1 l in
  let (cr, l) := take1 l in let (tr, l) := take1 l in (mkC g n t cr tr, l).
Definition dec_agent (l : list Z) : agent * list Z :=
  let (i, l) := take1 l in let (a, l) := take1 l in let (b, l) := take1 l in let (c, l) := take1 l in
  let (d, l) := take1 l in let (e, l) := take1 l in let (f, l) := take1 l in (mkA i (a, b) (c, d) (e, f), l).
Definition enc_agent (a : agent) : list Z :=
  [aid a; fst (astart a); snd (astart a); fst (atarget a); snd (atarget a); fst (apos a); snd (apos a)].
Definition dec_state (c : cfg) (l : list Z) : state * list Z :=
  let (g, l) := take_grid (gsz c) (gsz c) l in let (n, l) := take1 l in
  let (ags, l) := dec_many dec_agent (Z.to_nat (nag c)) l in (mkS g n ags, l).
Definition enc_state (s : state) : list Z := concat (grid s) ++ [cnt s] ++ concat (map enc_agent (agents s)).
Definition enc_out (r : state * tstep * list (list bool)) : list Z :=
  enc_state (fst (fst r)) ++ concat (map unbools (snd r)) ++ enc_ts (snd (fst r)).
Fixpoint pairs (l : list Z) : list (Z * Z) :=
  match l with x :: y :: t => (x, y) :: pairs t | _ => [] end.

(* in: cfg, state, actions -> out: state', masks, step_type, rewards*100, discounts *)
Definition connector_step_io (l : list Z) : list Z :=
  let (c, l) := dec_cfg l in let (s, l) := dec_state c l in let (a, _) := taken (nag c) l in enc_out (step c s a).
(* @export connector_step_io *)
Definition connector_ref_io (l : list Z) : list Z :=
  let (c, l) := dec_cfg l in let (s, l) := dec_state c l in let (a, _) := taken (nag c) l in enc_out (ref_step c s a).
(* @export connector_ref_io *)
(* in: cfg, generated state -> reset state, masks, timestep *)
Definition connector_reset_io (l : list Z) : list Z :=
  let (c, l) := dec_cfg l in let (s, _) := dec_state c l in enc_out (reset_of c s).
(* @export connector_reset_io *)

(* verified checkers on IMPLEMENTATION states; in: cfg, state, masks (N x 5) ->
   [Physical; mask = table of legal actions; observation spec bounds; fresh instance; occupancy] *)
Definition connector_check_io (l : list Z) : list Z :=
  let (c, l) := dec_cfg l in let (s, l) := dec_state c l in let (m, _) := take_grid (nag c) 5 l in
  let m := map bools m in
  [ b2z (Physical_b c s); b2z (mask_exact_b c s m); b2z (spec_ok_b c s m); b2z (fresh_b c s); occupancy (grid s) ].
(* @export connector_check_io *)
(* in: cfg, state, state' -> [cells change only EMPTY/own TARGET -> POSITION, POSITION -> PATH; occupancy delta] *)
Definition connector_mono_io (l : list Z) : list Z :=
  let (c, l) := dec_cfg l in let (s, l) := dec_state c l in let (s', _) := dec_state c l in
  [ b2z (grid_step_b (grid s) (grid s')); occupancy (grid s') - occupancy (grid s) ].
(* @export connector_mono_io *)

(* in: G, N, starts (N), targets (N) -> [draw ok], state *)
Definition connector_uniform_io (l : list Z) : list Z :=
  let (g, l) := take1 l in let (n, l) := take1 l in let (ss, l) := taken n l in let (ts, _) := taken n l in
  b2z (uniform_draw_ok g n ss ts) :: enc_state (gen_uniform g n ss ts).
(* @export connector_uniform_io *)
(* in: G, N, (start, first) x N -> [draws ok], grid, agents *)
Definition connector_rwinit_io (l : list Z) : list Z :=
  let (g, l) := take1 l in let (n, l) := take1 l in let (ds, _) := taken (2 * n) l in
  let '(gr, ags, ok) := rw_init g n (pairs ds) in
  b2z ok :: concat gr ++ concat (map enc_agent ags).
(* @export connector_rwinit_io *)
(* in: G, N, grid, agents, chosen cells (N) -> [continue; choices ok], agents', grid' *)
Definition connector_rwstep_io (l : list Z) : list Z :=
  let (g, l) := take1 l in let (n, l) := take1 l in let (gr, l) := take_grid g g l in
  let (ags, l) := dec_many dec_agent (Z.to_nat n) l in let (ch, _) := taken n l in
  let (ags', gr') := rw_step g n gr ags ch in
  b2z (rw_continue g gr ags) :: b2z (forallb (fun x => x) (map2 (rw_choice_ok g gr) ags ch))
  :: concat gr' ++ concat (map enc_agent ags').
(* @export connector_rwstep_io *)
(* in: G, N, walk grid, agents -> [continue], solved board, training state *)
Definition connector_rwfinish_io (l : list Z) : list Z :=
  let (g, l) := take1 l in let (n, l) := take1 l in let (gr, l) := take_grid g g l in
  let (ags, _) := dec_many dec_agent (Z.to_nat n) l in
  let (solved, s) := rw_finish g n gr ags in
  b2z (rw_continue g gr ags) :: concat solved ++ enc_state s.
(* @export connector_rwfinish_io *)
(* in: cfg, state, solved board -> [plan solves the board in the model; plan length], plan (row-major, len x N) *)
Definition connector_solve_io (l : list Z) : list Z :=
  let (c, l) := dec_cfg l in let (s, l) := dec_state c l in let (sg, _) := take_grid (gsz c) (gsz c) l in
  let plan := plan_of (gsz c) sg (agents s) in
  b2z (solves c s plan) :: zlen plan :: concat plan.
(* @export connector_solve_io *)
