(* Executable model of jumanji/environments/packing/flat_pack (env.py, utils.py, reward.py, generator.py).
   Impl layer: [rotate] (lax.switch over the four flip/transpose branches, index clamped), [expand]
   (dynamic_update_slice of the 3x3 block into a zero grid, start index normalised and clamped by
   [dyn_start]), [step] (mask lookup by clamped gathers, grid + expanded block, placed.at[b].set(True) as a
   dropping scatter), [make_mask] (all (block, rotation, row, col) of the action space; the test
   max((grid>0) + (expanded != 0)) <= 1 is evaluated on the 3x3 window where the expanded block can be
   non-zero -- [overlap_free_full] is the whole-grid formulation, proved equal in Proofs/FlatPack.v),
   the two dense reward functions (integer numerators; the denominators rows*cols / num_blocks are
   constants of the configuration), RandomFlatPackGenerator over explicit draws.
   Declarative layer: [legal], [Feasible], [tiling_ok], [tiles] with boolean twins.  No proofs here.  *)
Require Import JV.Base.Prelude JV.Base.JaxIndex JV.Base.Codec JV.Base.TimeStep.

Definition tab {A} (R C : Z) (f : Z -> Z -> A) : list (list A) :=
  map (fun i => map (fun j => f i j) (zrange C)) (zrange R).
Definition cell (g : list (list Z)) (i j : Z) : Z := gat 0 g i j.

(* ---------- utils.rotate_block ---------- *)
Definition transpose3 (b : list (list Z)) : list (list Z) := tab 3 3 (fun i j => cell b j i).
Definition flip0 (b : list (list Z)) : list (list Z) := rev b.
Definition flip1 (b : list (list Z)) : list (list Z) := map (@rev Z) b.
Definition rotate (b : list (list Z)) (k : Z) : list (list Z) :=
  let k' := Z.max 0 (Z.min 3 k) in           (* lax.switch clamps its index *)
  if k' =? 0 then b
  else if k' =? 1 then flip1 (transpose3 b)
  else if k' =? 2 then flip1 (flip0 b)
  else flip0 (transpose3 b).

(* ---------- env._expand_block_to_grid ---------- *)
Definition in_win (r0 c0 i j : Z) : bool := (r0 <=? i) && (i <? r0 + 3) && (c0 <=? j) && (j <? c0 + 3).
Definition expand (R C : Z) (blk : list (list Z)) (r c : Z) : list (list Z) :=
  let r0 := dyn_start R 3 r in let c0 := dyn_start C 3 c in
  tab R C (fun i j => if in_win r0 c0 i j then cell blk (i - r0) (j - c0) else 0).

Definition grid_add (R C : Z) (g e : list (list Z)) : list (list Z) := tab R C (fun i j => cell g i j + cell e i j).
Definition zeros (R C : Z) : list (list Z) := tab R C (fun _ _ => 0).

Record state := mkS { grid : list (list Z); blocks : list (list (list Z));
                      amask : list (list (list (list bool)));      (* [block][rotation][row][col] *)
                      placed : list bool; step_count : Z; num_blocks : Z }.
(* configuration: grid rows, grid cols, num_blocks (python int of the env), reward kind 0 = CellDense, 1 = BlockDense *)
Record cfg := mkC { cR : Z; cC : Z; cN : Z; cK : Z }.

Definition mask_get (m : list (list (list (list bool)))) (b k r c : Z) : bool :=
  jget false (jget [] (jget [] (jget [] m b) k) r) c.

(* max((grid > 0) + (expanded != 0)) <= 1, on the window of the expanded block *)
Definition overlap_free (g blk : list (list Z)) (r0 c0 : Z) : bool :=
  forallb (fun i => forallb (fun j => negb ((0 <? cell g (r0 + i) (c0 + j)) && negb (cell blk i j =? 0))) (zrange 3)) (zrange 3).
(* the same test as the code writes it: over the whole grid *)
Definition overlap_free_full (R C : Z) (g e : list (list Z)) : bool :=
  forallb (fun i => forallb (fun j => b2z (0 <? cell g i j) + b2z (negb (cell e i j =? 0)) <=? 1) (zrange C)) (zrange R).

(* env._is_legal_action for the action (b, k, r, c) *)
Definition is_legal (R C : Z) (g : list (list Z)) (bl : list (list (list Z))) (pl : list bool) (b k r c : Z) : bool :=
  negb (jget false pl b) && overlap_free g (rotate (jget [] bl b) k) (dyn_start R 3 r) (dyn_start C 3 c).

(* env._make_action_mask *)
Definition make_mask (R C N : Z) (g : list (list Z)) (bl : list (list (list Z))) (pl : list bool)
  : list (list (list (list bool))) :=
  map (fun b => map (fun k =>
        let blk := rotate (jget [] bl b) k in
        let p := jget false pl b in
        tab (R - 2) (C - 2) (fun r c =>
          if p then false else negb p && overlap_free g blk (dyn_start R 3 r) (dyn_start C 3 c)))
      (zrange 4)) (zrange N).

Definition count_nz (g : list (list Z)) : Z := zsum (map (fun row => count_if (fun v => negb (v =? 0)) row) g).
Definition count_true (l : list bool) : Z := count_if (fun b => b) l.

(* reward numerator: CellDense = non-zero cells of the placed block (/ rows*cols), BlockDense = 1 (/ num_blocks) *)
Definition reward_num (K : Z) (legal : bool) (gb : list (list Z)) : Z :=
  if legal then (if K =? 0 then count_nz gb else 1) else 0.

Definition step (cf : cfg) (s : state) (b k r c : Z) : state * tstep :=
  let R := cR cf in let C := cC cf in
  let chosen := rotate (jget [] (blocks s) b) k in
  let gb := expand R C chosen r c in
  let legal := mask_get (amask s) b k r c in
  let g' := if legal then grid_add R C (grid s) gb else grid s in
  let pl' := if legal then jset (placed s) b true else placed s in
  let m' := make_mask R C (cN cf) g' (blocks s) pl' in
  let sc' := step_count s + 1 in
  let done := num_blocks s <=? sc' in
  (mkS g' (blocks s) m' pl' sc' (num_blocks s), cond_done 1 done [reward_num (cK cf) legal gb]).

Definition all_true_mask (R C N : Z) : list (list (list (list bool))) :=
  map (fun _ => map (fun _ => tab (R - 2) (C - 2) (fun _ _ => true)) (zrange 4)) (zrange N).

(* the State every shipped generator returns for a block set *)
Definition init (cf : cfg) (bl : list (list (list Z))) : state * tstep :=
  (mkS (zeros (cR cf) (cC cf)) bl (all_true_mask (cR cf) (cC cf) (cN cf)) (repeat false (Z.to_nat (cN cf))) 0 (cN cf),
   restart 1).

(* observation = (grid, blocks, action_mask) copied from the state *)
Definition observe (s : state) := (grid s, blocks s, amask s).

Definition action := (Z * Z * Z * Z)%type.
Definition step_a (cf : cfg) (s : state) (a : action) : state * tstep :=
  let '(b, k, r, c) := a in step cf s b k r c.
Fixpoint run (cf : cfg) (s : state) (acts : list action) : state * list tstep :=
  match acts with
  | [] => (s, [])
  | a :: rest => let (s1, t) := step_a cf s a in let (s2, ts) := run cf s1 rest in (s2, t :: ts)
  end.

(* ---------- declarative side ---------- *)
(* one clockwise quarter turn of a 3x3 block, cell by cell *)
Definition qturn (b : list (list Z)) : list (list Z) := tab 3 3 (fun i j => cell b (2 - j) i).
Fixpoint qturns (n : nat) (b : list (list Z)) : list (list Z) :=
  match n with O => b | S n' => qturn (qturns n' b) end.

Definition in_space (cf : cfg) (a : action) : Prop :=
  let '(b, k, r, c) := a in 0 <= b < cN cf /\ 0 <= k < 4 /\ 0 <= r < cR cf - 2 /\ 0 <= c < cC cf - 2.
Definition in_space_b (cf : cfg) (a : action) : bool :=
  let '(b, k, r, c) := a in
  (0 <=? b) && (b <? cN cf) && (0 <=? k) && (k <? 4) && (0 <=? r) && (r <? cR cf - 2) && (0 <=? c) && (c <? cC cf - 2).

(* the rules: block b is unplaced and its footprint, turned k quarter turns and put with its 3x3 box at
   (r, c), lies on the grid and meets no filled cell *)
Definition legal (cf : cfg) (g : list (list Z)) (bl : list (list (list Z))) (pl : list bool) (a : action) : Prop :=
  let '(b, k, r, c) := a in
  in_space cf a /\ znth true pl b = false /\
  forall i j, 0 <= i < 3 -> 0 <= j < 3 ->
    cell (qturns (Z.to_nat k) (znth [] bl b)) i j <> 0 -> cell g (r + i) (c + j) = 0.
Definition legal_b (cf : cfg) (g : list (list Z)) (bl : list (list (list Z))) (pl : list bool) (a : action) : bool :=
  let '(b, k, r, c) := a in
  in_space_b cf a && negb (znth true pl b) &&
  forallb (fun i => forallb (fun j =>
     (cell (qturns (Z.to_nat k) (znth [] bl b)) i j =? 0) || (cell g (r + i) (c + j) =? 0)) (zrange 3)) (zrange 3).

(* well-formed instance: every block is 3x3, non-empty, all its non-zero cells carry one id in 1..N,
   ids pairwise distinct *)
Definition is3x3 (b : list (list Z)) : bool := (length b =? 3)%nat && forallb (fun row => (length row =? 3)%nat) b.
Definition block_id (b : list (list Z)) : Z := fold_left Z.max (concat b) 0.
Fixpoint nodup_b (l : list Z) : bool :=
  match l with [] => true | x :: t => negb (existsb (Z.eqb x) t) && nodup_b t end.
Definition inst_wf_b (N : Z) (bl : list (list (list Z))) : bool :=
  (zlen bl =? N) &&
  forallb (fun b => is3x3 b && (1 <=? block_id b) && (block_id b <=? N)
                    && forallb (fun v => (v =? 0) || (v =? block_id b)) (concat b)) bl &&
  nodup_b (map block_id bl).

(* cell (i, j) is covered by placement a = (b, k, r, c) *)
Definition pcell (bl : list (list (list Z))) (a : action) (i j : Z) : Z :=
  let '(b, k, r, c) := a in
  if in_win r c i j then cell (qturns (Z.to_nat k) (znth [] bl b)) (i - r) (j - c) else 0.
Definition blk_of (a : action) : Z := let '(b, _, _, _) := a in b.

(* the hard constraints of the packing, for a list of placements [ps] explaining the grid:
   placements are inside the grid (in the action space), one per placed block, never two on one cell, and
   every grid cell holds the value of the placement covering it (0 if none) *)
Definition Feasible (cf : cfg) (bl : list (list (list Z))) (pl : list bool) (g : list (list Z)) (ps : list action) : Prop :=
  (forall a, In a ps -> in_space cf a) /\
  NoDup (map blk_of ps) /\
  (forall b, 0 <= b < cN cf -> (znth false pl b = true <-> In b (map blk_of ps))) /\
  (forall i j, 0 <= i < cR cf -> 0 <= j < cC cf ->
     (forall a a', In a ps -> In a' ps -> pcell bl a i j <> 0 -> pcell bl a' i j <> 0 -> a = a') /\
     cell g i j = zsum (map (fun a => pcell bl a i j) ps)).
Definition Feasible_b (cf : cfg) (bl : list (list (list Z))) (pl : list bool) (g : list (list Z)) (ps : list action) : bool :=
  forallb (in_space_b cf) ps && nodup_b (map blk_of ps) &&
  forallb (fun b => Bool.eqb (znth false pl b) (existsb (Z.eqb b) (map blk_of ps))) (zrange (cN cf)) &&
  forallb (fun i => forallb (fun j =>
      (count_if (fun a => negb (pcell bl a i j =? 0)) ps <=? 1) &&
      (cell g i j =? zsum (map (fun a => pcell bl a i j) ps))) (zrange (cC cf))) (zrange (cR cf)).

(* recover an explaining placement list from a state alone (ids are distinct): for every placed block the
   first (k, r, c) whose footprint is exactly the set of cells carrying its id *)
Definition all_krc (cf : cfg) : list (Z * Z * Z) :=
  flat_map (fun k => flat_map (fun r => map (fun c => (k, r, c)) (zrange (cC cf - 2))) (zrange (cR cf - 2))) (zrange 4).
Definition fits (cf : cfg) (bl : list (list (list Z))) (g : list (list Z)) (b : Z) (krc : Z * Z * Z) : bool :=
  let '(k, r, c) := krc in
  let id := block_id (znth [] bl b) in
  forallb (fun i => forallb (fun j => (if cell g i j =? id then id else 0) =? pcell bl (b, k, r, c) i j)
                      (zrange (cC cf))) (zrange (cR cf)).
Definition recover (cf : cfg) (s : state) : list action :=
  flat_map (fun b => if znth false (placed s) b
                     then match find (fits cf (blocks s) (grid s) b) (all_krc cf) with
                          | Some (k, r, c) => [(b, k, r, c)] | None => [] end
                     else []) (zrange (cN cf)).
Definition state_feasible_b (cf : cfg) (s : state) : bool :=
  Feasible_b cf (blocks s) (placed s) (grid s) (recover cf s).

(* all cells of a grid within [lo, hi] and the shape is R x C *)
Definition shape_b (R C : Z) (g : list (list Z)) : bool := (zlen g =? R) && forallb (fun row => zlen row =? C) g.
Definition range_b (lo hi : Z) (g : list (list Z)) : bool := forallb (forallb (fun v => (lo <=? v) && (v <=? hi))) g.

(* the stored mask is the declarative legal set *)
Definition mask_exact_b (cf : cfg) (s : state) : bool :=
  forallb (fun b => forallb (fun k => forallb (fun r => forallb (fun c =>
     Bool.eqb (mask_get (amask s) b k r c) (legal_b cf (grid s) (blocks s) (placed s) (b, k, r, c)))
   (zrange (cC cf - 2))) (zrange (cR cf - 2))) (zrange 4)) (zrange (cN cf)).

(* ---------- complete solutions ---------- *)
Definition full_b (g : list (list Z)) : bool := forallb (forallb (fun v => negb (v =? 0))) g.
(* [sol] gives (k, r, c) for block 0, 1, 2, ... : an exact tiling of the R x C grid inside the action space *)
Definition sol_actions (sol : list (Z * Z * Z)) : list action :=
  map (fun '(b, (k, r, c)) => (b, k, r, c)) (combine (zrange (zlen sol)) sol).
Definition tiles (cf : cfg) (bl : list (list (list Z))) (sol : list (Z * Z * Z)) : Prop :=
  zlen sol = cN cf /\ (forall a, In a (sol_actions sol) -> in_space cf a) /\
  forall i j, 0 <= i < cR cf -> 0 <= j < cC cf ->
    exists a, In a (sol_actions sol) /\ pcell bl a i j <> 0 /\
              forall a', In a' (sol_actions sol) -> pcell bl a' i j <> 0 -> a' = a.
Definition tiles_b (cf : cfg) (bl : list (list (list Z))) (sol : list (Z * Z * Z)) : bool :=
  (zlen sol =? cN cf) && forallb (in_space_b cf) (sol_actions sol) &&
  forallb (fun i => forallb (fun j =>
     count_if (fun a => negb (pcell bl a i j =? 0)) (sol_actions sol) =? 1) (zrange (cC cf))) (zrange (cR cf)).
(* playing a solution through the model: every action accepted by the mask, final grid full *)
Definition plays_b (cf : cfg) (bl : list (list (list Z))) (acts : list action) : bool :=
  let s0 := fst (init cf bl) in
  (fix go (s : state) (l : list action) : bool :=
     match l with
     | [] => full_b (grid s)
     | (b, k, r, c) :: rest =>
         if in_space_b cf (b, k, r, c) && mask_get (amask s) b k r c then go (fst (step cf s b k r c)) rest else false
     end) s0 acts.

(* exhaustive search, blocks in index order: is there (k, r, c) for every remaining block, each legal on the
   grid built so far, leaving no empty cell? *)
Fixpoint search (cf : cfg) (bl : list (list (list Z))) (bs : list Z) (g : list (list Z)) : bool :=
  match bs with
  | [] => full_b g
  | b :: rest =>
      existsb (fun '(k, r, c) =>
         let blk := rotate (jget [] bl b) k in
         if overlap_free g blk r c
         then search cf bl rest (grid_add (cR cf) (cC cf) g (expand (cR cf) (cC cf) blk r c)) else false)
        (all_krc cf)
  end.
Definition solvable_b (cf : cfg) (bl : list (list (list Z))) : bool :=
  search cf bl (zrange (cN cf)) (zeros (cR cf) (cC cf)).

(* ---------- RandomFlatPackGenerator over explicit draws ---------- *)
(* get_significant_idxs(3n - (n-1)) = arange(2n+1)[::2][1:-1] = 2, 4, .., 2n-2 *)
Definition sig_idxs (n : Z) : list Z := removelast (tl (map (fun t => 2 * t) (zrange ((2 * n + 1 + 1) / 2)))).

Definition fill_cols (R C : Z) (ncb : Z) : list (list Z) :=
  fst (fold_left (fun (cy : list (list Z) * Z) v =>
         let (g, fv) := cy in let fv' := fv + 1 in let v0 := dyn_start C 3 v in
         (tab R C (fun i j => if (v0 <=? j) && (j <? v0 + 3) then fv' else cell g i j), fv'))
       (sig_idxs ncb) (tab R C (fun _ _ => 1), 1)).
Definition fill_rows (R C : Z) (nrb ncb : Z) (g0 : list (list Z)) : list (list Z) :=
  fst (fold_left (fun (cy : list (list Z) * Z) v =>
         let (g, sv) := cy in let v0 := dyn_start R 3 v in
         (tab R C (fun i j => if (v0 <=? i) && (i <? v0 + 3) then cell g i j + sv else cell g i j), sv + ncb))
       (sig_idxs nrb) (g0, ncb)).
(* _select_col_interlocks: column [col] of every row becomes its left (draw true: selector > 0.5) or right neighbour *)
Definition col_interlock (R C : Z) (g : list (list Z)) (col : Z) (d : list bool) : list (list Z) :=
  let c0 := dyn_start C 3 (col - 1) in
  tab R C (fun i j => if j =? c0 + 1 then (if znth false d i then cell g i c0 else cell g i (c0 + 2)) else cell g i j).
Definition row_interlock (R C : Z) (g : list (list Z)) (row : Z) (d : list bool) : list (list Z) :=
  let r0 := dyn_start R 3 (row - 1) in
  tab R C (fun i j => if i =? r0 + 1 then (if znth false d j then cell g r0 j else cell g (r0 + 2) j) else cell g i j).
Fixpoint fold2 {A B} (f : A -> Z -> B -> A) (a : A) (xs : list Z) (ys : list B) : A :=
  match xs, ys with x :: xs', y :: ys' => fold2 f (f a x y) xs' ys' | _, _ => a end.
Definition solved_grid (nrb ncb : Z) (cd rd : list (list bool)) : list (list Z) :=
  let R := 2 * nrb + 1 in let C := 2 * ncb + 1 in
  let g := fill_rows R C nrb ncb (fill_cols R C ncb) in
  let g := fold2 (col_interlock R C) g (sig_idxs ncb) cd in
  fold2 (row_interlock R C) g (sig_idxs nrb) rd.

(* _first_nonzero over the masked block: smallest row / column index holding label k (1000 if none) *)
Definition first_row (R C : Z) (g : list (list Z)) (k : Z) : Z :=
  fold_right (fun i acc => if existsb (fun j => cell g i j =? k) (zrange C) then i else acc) 1000 (zrange R).
Definition first_col (R C : Z) (g : list (list Z)) (k : Z) : Z :=
  fold_right (fun j acc => if existsb (fun i => cell g i j =? k) (zrange R) then j else acc) 1000 (zrange C).
(* _extract_block without the rotation: where(grid == k, grid, 0), rolled by (-row_roll, -col_roll), [:3, :3] *)
Definition crop_block (R C : Z) (g : list (list Z)) (k : Z) : list (list Z) :=
  let rr := first_row R C g k in let cr := first_col R C g k in
  tab 3 3 (fun i j => let v := cell g ((i + rr) mod R) ((j + cr) mod C) in if v =? k then v else 0).
Definition gen_blocks (nrb ncb : Z) (sg : list (list Z)) (rots perm : list Z) : list (list (list Z)) :=
  let R := 2 * nrb + 1 in let C := 2 * ncb + 1 in
  let bs := map (fun k => rotate (crop_block R C sg (k + 1)) (znth 0 rots k)) (zrange (nrb * ncb)) in
  map (fun p => jget [] bs p) perm.

Definition is_perm_b (n : Z) (p : list Z) : bool :=
  (zlen p =? n) && forallb (fun i => existsb (Z.eqb i) p) (zrange n).
Definition valid_draw (nrb ncb : Z) (cd rd : list (list bool)) (rots perm : list Z) : bool :=
  (zlen cd =? ncb - 1) && forallb (fun d => zlen d =? 2 * nrb + 1) cd &&
  (zlen rd =? nrb - 1) && forallb (fun d => zlen d =? 2 * ncb + 1) rd &&
  (zlen rots =? nrb * ncb) && forallb (fun k => (0 <=? k) && (k <? 4)) rots && is_perm_b (nrb * ncb) perm.

(* exact tiling advertised by the generator, on the solved grid: every cell carries a label k in 1..N and
   lies in the 3x3 window of block k = rb*ncb + cb + 1, i.e. rows 2rb..2rb+2, cols 2cb..2cb+2; the window's
   centre belongs to k; a corner cell of the window is joined to the centre through an edge cell of k.  *)
Definition tiling_ok_b (nrb ncb : Z) (g : list (list Z)) : bool :=
  let R := 2 * nrb + 1 in let C := 2 * ncb + 1 in
  shape_b R C g &&
  forallb (fun i => forallb (fun j =>
     let k := cell g i j in
     let ci := 2 * ((k - 1) / ncb) + 1 in let cj := 2 * ((k - 1) mod ncb) + 1 in
     (1 <=? k) && (k <=? nrb * ncb) && (Z.abs (i - ci) <=? 1) && (Z.abs (j - cj) <=? 1) &&
     (cell g ci cj =? k) &&
     ((i =? ci) || (j =? cj) || (cell g i cj =? k) || (cell g ci j =? k))) (zrange C)) (zrange R).

(* the toy generators' literal instances (generator.py) *)
Definition toy_solved : list (list Z) :=
  [[1;1;1;2;2]; [1;1;2;2;2]; [3;1;4;4;2]; [3;3;4;4;4]; [3;3;3;4;4]].
Definition toy_blocks_rot : list (list (list Z)) :=
  [ [[0;1;0];[0;1;1];[1;1;1]]; [[2;0;0];[2;2;2];[2;2;0]]; [[0;0;3];[0;3;3];[3;3;3]]; [[4;4;0];[4;4;4];[0;4;4]] ].
Definition toy_blocks_norot : list (list (list Z)) :=
  [ [[1;1;1];[1;1;0];[0;1;0]]; [[0;2;2];[2;2;2];[0;0;2]]; [[3;0;0];[3;3;0];[3;3;3]]; [[4;4;0];[4;4;4];[0;4;4]] ].

(* ---------- wire format ---------- *)
Definition dec_cfg (l : list Z) : cfg * list Z :=
  let (R, l) := take1 l in let (C, l) := take1 l in let (N, l) := take1 l in let (K, l) := take1 l in (mkC R C N K, l).
Definition dec_blocks (N : Z) (l : list Z) : list (list (list Z)) * list Z := dec_many (take_grid 3 3) (Z.to_nat N) l.
Definition dec_mask (cf : cfg) (l : list Z) : list (list (list (list bool))) * list Z :=
  let (m, l) := dec_many (dec_many (take_grid (cR cf - 2) (cC cf - 2)) 4) (Z.to_nat (cN cf)) l in
  (map (map (map bools)) m, l).
Definition dec_state (cf : cfg) (l : list Z) : state * list Z :=
  let (g, l) := take_grid (cR cf) (cC cf) l in
  let (bl, l) := dec_blocks (cN cf) l in
  let (m, l) := dec_mask cf l in
  let (p, l) := taken (cN cf) l in
  let (sc, l) := take1 l in let (nb, l) := take1 l in
  (mkS g bl m (bools p) sc nb, l).
Definition enc_grid (g : list (list Z)) : list Z := concat g.
Definition enc_blocks (bl : list (list (list Z))) : list Z := concat (map enc_grid bl).
Definition enc_mask (m : list (list (list (list bool)))) : list Z :=
  concat (map (fun x => concat (map (fun y => concat (map unbools y)) x)) m).
Definition enc_state (s : state) : list Z :=
  enc_grid (grid s) ++ enc_blocks (blocks s) ++ enc_mask (amask s) ++ unbools (placed s) ++ [step_count s; num_blocks s].

(* in: cfg, state, b k r c  ->  out: state', step_type, reward numerator, discount *)
Definition flat_pack_step_io (l : list Z) : list Z :=
  let (cf, l) := dec_cfg l in let (s, l) := dec_state cf l in
  let (b, l) := take1 l in let (k, l) := take1 l in let (r, l) := take1 l in let (c, _) := take1 l in
  let (s', t) := step cf s b k r c in enc_state s' ++ enc_ts t.
(* @export flat_pack_step_io *)

(* in: cfg, blocks -> reset state, timestep *)
Definition flat_pack_init_io (l : list Z) : list Z :=
  let (cf, l) := dec_cfg l in let (bl, _) := dec_blocks (cN cf) l in
  let (s, t) := init cf bl in enc_state s ++ enc_ts t.
(* @export flat_pack_init_io *)

(* verified checkers on an IMPLEMENTATION state:
   [mask = legal set; feasible packing (recovered placements); instance well-formed; grid shape and range 0..N;
    stored mask = make_mask of the state; count of filled cells; count of placed blocks] *)
Definition flat_pack_check_io (l : list Z) : list Z :=
  let (cf, l) := dec_cfg l in let (s, _) := dec_state cf l in
  [ b2z (mask_exact_b cf s);
    b2z (state_feasible_b cf s);
    b2z (inst_wf_b (cN cf) (blocks s));
    b2z (shape_b (cR cf) (cC cf) (grid s) && range_b 0 (cN cf) (grid s));
    b2z (list_eqb (list_eqb (list_eqb (list_eqb Bool.eqb))) (amask s) (make_mask (cR cf) (cC cf) (cN cf) (grid s) (blocks s) (placed s)));
    count_nz (grid s); count_true (placed s) ].
(* @export flat_pack_check_io *)

(* in: 9 cells, k -> rotate, and the k-fold quarter turn (k taken mod 4 by the caller when out of range) *)
Definition flat_pack_rotate_io (l : list Z) : list Z :=
  let (b, l) := take_grid 3 3 l in let (k, _) := take1 l in
  enc_grid (rotate b k) ++ enc_grid (qturns (Z.to_nat (Z.max 0 (Z.min 3 k))) b).
(* @export flat_pack_rotate_io *)

(* in: R C, block, r, c -> expanded grid *)
Definition flat_pack_expand_io (l : list Z) : list Z :=
  let (R, l) := take1 l in let (C, l) := take1 l in let (b, l) := take_grid 3 3 l in
  let (r, l) := take1 l in let (c, _) := take1 l in enc_grid (expand R C b r c).
(* @export flat_pack_expand_io *)

Definition dec_draws (nrb ncb : Z) (l : list Z) :=
  let (cd, l) := dec_many (taken (2 * nrb + 1)) (Z.to_nat (ncb - 1)) l in
  let (rd, l) := dec_many (taken (2 * ncb + 1)) (Z.to_nat (nrb - 1)) l in
  let (rots, l) := taken (nrb * ncb) l in
  let (perm, l) := taken (nrb * ncb) l in
  (map bools cd, map bools rd, rots, perm, l).

(* in: nrb ncb, col draws, row draws, rotations, permutation -> valid_draw, base grid, solved grid, tiling_ok, blocks *)
Definition flat_pack_gen_io (l : list Z) : list Z :=
  let (nrb, l) := take1 l in let (ncb, l) := take1 l in
  let '(cd, rd, rots, perm, _) := dec_draws nrb ncb l in
  let R := 2 * nrb + 1 in let C := 2 * ncb + 1 in
  let sg := solved_grid nrb ncb cd rd in
  [b2z (valid_draw nrb ncb cd rd rots perm)] ++ enc_grid (fill_rows R C nrb ncb (fill_cols R C ncb))
  ++ enc_grid sg ++ [b2z (tiling_ok_b nrb ncb sg)] ++ enc_blocks (gen_blocks nrb ncb sg rots perm).
(* @export flat_pack_gen_io *)

(* in: nrb ncb, an R x C grid -> tiling_ok_b (on the IMPLEMENTATION's solved grid) *)
Definition flat_pack_tiling_io (l : list Z) : list Z :=
  let (nrb, l) := take1 l in let (ncb, l) := take1 l in
  let (g, _) := take_grid (2 * nrb + 1) (2 * ncb + 1) l in [b2z (tiling_ok_b nrb ncb g)].
(* @export flat_pack_tiling_io *)

(* in: cfg, blocks, N triples (k r c) -> [tiles_b; plays_b] *)
Definition flat_pack_solution_io (l : list Z) : list Z :=
  let (cf, l) := dec_cfg l in let (bl, l) := dec_blocks (cN cf) l in
  let (sol, _) := dec_many (fun l => let (k, l) := take1 l in let (r, l) := take1 l in let (c, l) := take1 l in ((k, r, c), l))
                           (Z.to_nat (cN cf)) l in
  [b2z (tiles_b cf bl sol); b2z (plays_b cf bl (sol_actions sol))].
(* @export flat_pack_solution_io *)

(* in: cfg, blocks -> [solvable_b]  (exhaustive; small instances only) *)
Definition flat_pack_solvable_io (l : list Z) : list Z :=
  let (cf, l) := dec_cfg l in let (bl, _) := dec_blocks (cN cf) l in [b2z (solvable_b cf bl)].
(* @export flat_pack_solvable_io *)

(* the toy generators' literals: solved grid, rotated blocks, unrotated blocks *)
Definition flat_pack_toy_io (l : list Z) : list Z :=
  enc_grid toy_solved ++ enc_blocks toy_blocks_rot ++ enc_blocks toy_blocks_norot.
(* @export flat_pack_toy_io *)

(* ---------- the generator's own solution ---------- *)
(* emitted block q (label perm[q]+1) goes back to the top-left corner of its bounding box in the solved grid, its
   random rotation undone *)
Definition own_solution (nrb ncb : Z) (sg : list (list Z)) (rots perm : list Z) : list (Z * Z * Z) :=
  let R := 2 * nrb + 1 in let C := 2 * ncb + 1 in
  map (fun p => ((4 - znth 0 rots p) mod 4, first_row R C sg (p + 1), first_col R C sg (p + 1))) perm.
(* every block's bounding-box corner is a placement of the action space: row <= R-3 and col <= C-3 *)
Definition own_ok_b (nrb ncb : Z) (sg : list (list Z)) : bool :=
  let R := 2 * nrb + 1 in let C := 2 * ncb + 1 in
  forallb (fun k => (first_row R C sg (k + 1) <=? R - 3) && (first_col R C sg (k + 1) <=? C - 3)) (zrange (nrb * ncb)).

(* in: nrb ncb, draws (as flat_pack_gen_io) -> [own_ok_b; tiles_b; plays_b of the own solution on the model's blocks]
   ++ the own solution (k r c per emitted block) *)
Definition flat_pack_ownsol_io (l : list Z) : list Z :=
  let (nrb, l) := take1 l in let (ncb, l) := take1 l in
  let '(cd, rd, rots, perm, _) := dec_draws nrb ncb l in
  let sg := solved_grid nrb ncb cd rd in
  let cf := mkC (2 * nrb + 1) (2 * ncb + 1) (nrb * ncb) 0 in
  let bl := gen_blocks nrb ncb sg rots perm in
  let sol := own_solution nrb ncb sg rots perm in
  [b2z (own_ok_b nrb ncb sg); b2z (tiles_b cf bl sol); b2z (plays_b cf bl (sol_actions sol))]
  ++ concat (map (fun '(k, r, c) => [k; r; c]) sol).
(* @export flat_pack_ownsol_io *)
