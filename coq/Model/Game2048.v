(* Executable model of jumanji/environments/logic/game_2048 (env.py, utils.py).
   Impl layer: the two-index while_loops of [move_left_row] / [can_move_left_row] with explicit fuel
   (None = fuel exhausted; Proofs/Game2048_Row.v shows this never happens), [transform_board] as the index
   permutation each jnp primitive performs, [move], [_get_action_mask], [_add_random_cell] on an explicit
   draw (flat cell index, exponent), [step], [reset].
   Rules layer: [slide] ("drop zeros, merge equal neighbours left to right once, pad with zeros"),
   [row_reward], [legal], [spec_move], the conserved quantity [total], the potential [phi_total].
   The board holds exponents (0 = empty).  Rewards/scores are the integral float values.
   No proofs here (see Proofs/Game2048_*.v).                                                              *)
Require Import JV.Base.Prelude JV.Base.JaxIndex JV.Base.Codec JV.Base.TimeStep.

Definition nz (x : Z) : bool := negb (x =? 0).

(* ================= Impl: utils.py ================= *)

(* MoveCarry(row, reward, target_idx, origin_idx) *)
Record carry := mkC { c_row : list Z; c_rew : Z; c_t : Z; c_o : Z }.
Definition c_target (c : carry) : Z := jget 0 (c_row c) (c_t c).
Definition c_origin (c : carry) : Z := jget 0 (c_row c) (c_o c).

(* MoveCarry.update(MoveUpdate(target, origin, additional_reward, target_idx, origin_idx)) *)
Definition c_update (c : carry) (ut uo ur ti oi : Z) : carry :=
  mkC (jset (jset (c_row c) (c_t c) ut) (c_o c) uo) (c_rew c + ur) ti oi.

Definition no_op (c : carry) : carry :=
  let ti := c_t c + b2z (nz (c_origin c)) in
  let oi := if (c_origin c =? 0) || (ti =? c_o c) then c_o c + 1 else c_o c in
  c_update c (c_target c) (c_origin c) 0 ti oi.
Definition shift (c : carry) : carry :=
  c_update c (c_origin c) 0 0 (c_t c) (c_o c + 1).
Definition merge (c : carry) : carry :=
  c_update c (c_target c + 1) 0 (2 ^ (c_target c + 1)) (c_t c + 1) (c_o c + 1).

(* move_left_row_body: lax.switch(move_type, [no_op, shift, merge]) (the index is clamped) *)
Definition mlr_body (c : carry) : carry :=
  let can_shift := nz (c_origin c) && (c_target c =? 0) in
  let can_merge := nz (c_origin c) && (c_target c =? c_origin c) in
  let move_type := b2z can_shift + 2 * b2z can_merge in
  if move_type <=? 0 then no_op c else if move_type =? 1 then shift c else merge c.

(* lax.while_loop(move_left_row_cond, move_left_row_body, carry) *)
Fixpoint mlr_loop (fuel : nat) (c : carry) : option carry :=
  if c_o c <? zlen (c_row c) then
    match fuel with O => None | S f => mlr_loop f (mlr_body c) end
  else Some c.

Definition move_left_row (row : list Z) : option (list Z * Z) :=
  match mlr_loop (2 * length row) (mkC row 0 0 1) with
  | Some c => Some (c_row c, c_rew c)
  | None => None
  end.

(* CanMoveCarry(can_move, row, target_idx, origin_idx); the row never changes *)
Record ccarry := mkCC { cc_can : bool; cc_t : Z; cc_o : Z }.
Definition cml_body (row : list Z) (c : ccarry) : ccarry :=
  let target := jget 0 row (cc_t c) in
  let origin := jget 0 row (cc_o c) in
  let can := nz origin && ((target =? 0) || (target =? origin)) in
  let ti := cc_t c + b2z (nz origin) in
  let oi := if (origin =? 0) || (ti =? cc_o c) then cc_o c + 1 else cc_o c in
  mkCC can ti oi.
Fixpoint cml_loop (fuel : nat) (row : list Z) (c : ccarry) : option ccarry :=
  if negb (cc_can c) && (cc_o c <? zlen row) then
    match fuel with O => None | S f => cml_loop f row (cml_body row c) end
  else Some c.
Definition can_move_left_row (row : list Z) : option bool :=
  match cml_loop (2 * length row) row (mkCC false 0 1) with
  | Some c => Some (cc_can c)
  | None => None
  end.

(* all-or-nothing map (vmap of a loop that may run out of fuel) *)
Fixpoint omap {A B} (f : A -> option B) (l : list A) : option (list B) :=
  match l with
  | [] => Some []
  | x :: r => match f x, omap f r with Some y, Some ys => Some (y :: ys) | _, _ => None end
  end.

(* transform_board: entry (k,p) of the transformed board is entry [coords n a k p] of the board:
   0 transpose, 1 flip(axis 1), 2 flip(transpose) (both axes), 3 identity; lax.switch clamps a *)
Definition coords (n a k p : Z) : Z * Z :=
  if a <=? 0 then (p, k)
  else if a =? 1 then (k, n - 1 - p)
  else if a =? 2 then (n - 1 - p, n - 1 - k)
  else (k, p).
Definition line (n : Z) (b : list (list Z)) (a k : Z) : list Z :=
  map (fun p => gat 0 b (fst (coords n a k p)) (snd (coords n a k p))) (zrange n).
Definition transform (n : Z) (b : list (list Z)) (a : Z) : list (list Z) :=
  map (line n b a) (zrange n).

Definition move_left (b : list (list Z)) : option (list (list Z) * Z) :=
  match omap move_left_row b with
  | Some rs => Some (map fst rs, zsum (map snd rs))
  | None => None
  end.
Definition move (n : Z) (b : list (list Z)) (a : Z) : option (list (list Z) * Z) :=
  match move_left (transform n b a) with
  | Some (mb, r) => Some (transform n mb a, r)
  | None => None
  end.
Definition can_move_left (b : list (list Z)) : option bool :=
  match omap can_move_left_row b with Some cs => Some (existsb id cs) | None => None end.
Definition can_move (n : Z) (b : list (list Z)) (a : Z) : option bool := can_move_left (transform n b a).
(* _get_action_mask: vmap(can_move)(board, arange(4)) *)
Definition action_mask (n : Z) (b : list (list Z)) : option (list bool) := omap (can_move n b) [0; 1; 2; 3].

(* ================= Impl: env.py ================= *)
Record state := mkS { board : list (list Z); amask : list bool; score : Z; step_count : Z }.

(* _add_random_cell on the draw (tile_idx, cell_value): board.at[divmod(tile_idx, n)].set(cell_value) *)
Definition add_cell (n : Z) (b : list (list Z)) (idx v : Z) : list (list Z) := gset b (idx / n) (idx mod n) v.
Definition zeros_board (n : Z) : list (list Z) := repeat (repeat 0 (Z.to_nat n)) (Z.to_nat n).

Definition step (n : Z) (s : state) (a idx v : Z) : option (state * tstep) :=
  match move n (board s) a with
  | None => None
  | Some (mb, rew) =>
      let b' := if jget false (amask s) a then add_cell n mb idx v else mb in
      match action_mask n b' with
      | None => None
      | Some m' =>
          let done := negb (existsb id m') in
          Some (mkS b' m' (score s + rew) (step_count s + 1), cond_done 1 done [rew])
      end
  end.

Definition init (n idx v : Z) : option (state * tstep) :=
  let b := add_cell n (zeros_board n) idx v in
  match action_mask n b with
  | None => None
  | Some m => Some (mkS b m 0 0, restart 1)
  end.

(* the draw must be an empty cell of the board it is added to, and an exponent 1 or 2 *)
Definition valid_draw (n : Z) (mb : list (list Z)) (idx v : Z) : bool :=
  (0 <=? idx) && (idx <? n * n) && (gat 0 mb (idx / n) (idx mod n) =? 0) && ((v =? 1) || (v =? 2)).

(* ================= Rules ================= *)
Definition compress (l : list Z) : list Z := filter nz l.
(* merge equal neighbours, left to right, each tile at most once *)
Fixpoint merge_adj (l : list Z) : list Z :=
  match l with
  | [] => []
  | x :: r => match r with
              | [] => [x]
              | y :: r' => if x =? y then (x + 1) :: merge_adj r' else x :: merge_adj r
              end
  end.
(* sum of the values 2^(e+1) of the tiles created by those merges *)
Fixpoint merge_reward (l : list Z) : Z :=
  match l with
  | [] => 0
  | x :: r => match r with
              | [] => 0
              | y :: r' => if x =? y then 2 ^ (x + 1) + merge_reward r' else merge_reward r
              end
  end.
Definition slide (l : list Z) : list Z :=
  let m := merge_adj (compress l) in m ++ repeat 0 (length l - length m).
Definition row_reward (l : list Z) : Z := merge_reward (compress l).

Definition row_eqb (a b : list Z) : bool := list_eqb Z.eqb a b.
Definition board_eqb (a b : list (list Z)) : bool := list_eqb row_eqb a b.

(* sliding in direction a changes some line *)
Definition legal (n : Z) (b : list (list Z)) (a : Z) : Prop :=
  exists k, 0 <= k < n /\ slide (line n b a k) <> line n b a k.
Definition legal_b (n : Z) (b : list (list Z)) (a : Z) : bool :=
  existsb (fun k => negb (row_eqb (slide (line n b a k)) (line n b a k))) (zrange n).
Definition spec_move (n : Z) (b : list (list Z)) (a : Z) : list (list Z) :=
  transform n (map slide (transform n b a)) a.
Definition spec_reward (n : Z) (b : list (list Z)) (a : Z) : Z :=
  zsum (map (fun k => row_reward (line n b a k)) (zrange n)).

Definition wf (n : Z) (b : list (list Z)) : Prop :=
  length b = Z.to_nat n /\ Forall (fun r => length r = Z.to_nat n) b.
Definition wf_b (n : Z) (b : list (list Z)) : bool :=
  Nat.eqb (length b) (Z.to_nat n) && forallb (fun r => Nat.eqb (length r) (Z.to_nat n)) b.
Definition nonneg (b : list (list Z)) : Prop := Forall (Forall (fun e => 0 <= e)) b.
Definition nonneg_b (b : list (list Z)) : bool := forallb (forallb (fun e => 0 <=? e)) b.

(* conserved quantity: sum of the tile values; potential: sum of (e-1) 2^e *)
Definition w (e : Z) : Z := if e =? 0 then 0 else 2 ^ e.
Definition phi (e : Z) : Z := if e =? 0 then 0 else (e - 1) * 2 ^ e.
Definition tile_sum (l : list Z) : Z := zsum (map w l).
Definition total (b : list (list Z)) : Z := zsum (map tile_sum b).
Definition phi_sum (l : list Z) : Z := zsum (map phi l).
Definition phi_total (b : list (list Z)) : Z := zsum (map phi_sum b).
Definition count_tiles (b : list (list Z)) : Z := zsum (map (fun r => count_if nz r) b).

(* the documented transition, judged on (board, mask entry of the action, successor board):
   illegal: nothing changes; legal: the slid board plus exactly one tile 1/2 on a cell that was empty *)
Fixpoint diffs (i : Z) (a b : list Z) : list (Z * Z * Z) :=
  match a, b with
  | x :: a', y :: b' => (if x =? y then [] else [(i, x, y)]) ++ diffs (i + 1) a' b'
  | _, _ => []
  end.
Definition trans_ok_b (n : Z) (b : list (list Z)) (a : Z) (b' : list (list Z)) : bool :=
  if legal_b n b a then
    match diffs 0 (concat (spec_move n b a)) (concat b') with
    | [(_, x, y)] => wf_b n b' && (x =? 0) && ((y =? 1) || (y =? 2)) && (total b' =? total b + 2 ^ y)
    | _ => false
    end
  else board_eqb b' b.

(* the observation is a plain copy of two state fields: Observation(board, action_mask) *)
Definition observe (s : state) : list (list Z) * list bool := (board s, amask s).

(* Rules layer of a whole step: slide every line of the chosen direction; when that changes the board,
   put the drawn tile on the drawn cell; the mask of the new board is its set of legal directions;
   the reward is the sum of the tiles created by merging; the episode ends when no direction is legal *)
Definition rules_mask (n : Z) (b : list (list Z)) : list bool := map (legal_b n b) [0; 1; 2; 3].
Definition rules_step (n : Z) (s : state) (a idx v : Z) : state * tstep :=
  let b' := if legal_b n (board s) a then add_cell n (spec_move n (board s) a) idx v else board s in
  let r := if legal_b n (board s) a then spec_reward n (board s) a else 0 in
  let m' := rules_mask n b' in
  (mkS b' m' (score s + r) (step_count s + 1), cond_done 1 (negb (existsb id m')) [r]).
Definition rules_init (n idx v : Z) : state * tstep :=
  let b := add_cell n (zeros_board n) idx v in (mkS b (rules_mask n b) 0 0, restart 1).

(* ================= wire format ================= *)
Definition dec_state (n : Z) (l : list Z) : state * list Z :=
  let (b, l) := take_grid n n l in
  let (m, l) := taken 4 l in
  let (sc, l) := take1 l in
  let (k, l) := take1 l in
  (mkS b (bools m) sc k, l).
Definition enc_state (s : state) : list Z :=
  concat (board s) ++ unbools (amask s) ++ [score s; step_count s].

Definition enc_obs (o : list (list Z) * list bool) : list Z := concat (fst o) ++ unbools (snd o).

(* the draw is recovered from the successor board: first cell that differs from the moved board *)
Fixpoint first_diff (i : Z) (a b : list Z) : Z * Z :=
  match a, b with
  | x :: a', y :: b' => if x =? y then first_diff (i + 1) a' b' else (i, y)
  | _, _ => (0, 0)
  end.

(* in: n, state, action, successor board
   out: 1, board', mask', score', step_count', step_type, reward, discount, mask[a], valid_draw, idx, v,
        observed board, observed mask   (or 0 = out of fuel) *)
Definition game_2048_step_io (l : list Z) : list Z :=
  let (n, l) := take1 l in let (s, l) := dec_state n l in let (a, l) := take1 l in
  let (succ, _) := take_grid n n l in
  match move n (board s) a with
  | None => [0]
  | Some (mb, _) =>
      let (idx, v) := first_diff 0 (concat mb) (concat succ) in
      let lg := jget false (amask s) a in
      match step n s a idx v with
      | None => [0]
      | Some (s', t) => 1 :: enc_state s' ++ enc_ts t ++ [b2z lg; b2z (negb lg || valid_draw n mb idx v); idx; v]
                          ++ enc_obs (observe s')
      end
  end.
(* @export game_2048_step_io *)

(* the Rules layer on the same wire format: in n, state, action, successor board
   out: board', mask', score', step_count', step_type, reward, discount, legal_b, valid_draw, idx, v *)
Definition game_2048_rules_io (l : list Z) : list Z :=
  let (n, l) := take1 l in let (s, l) := dec_state n l in let (a, l) := take1 l in
  let (succ, _) := take_grid n n l in
  let mb := spec_move n (board s) a in
  let (idx, v) := first_diff 0 (concat mb) (concat succ) in
  let lg := legal_b n (board s) a in
  let (s', t) := rules_step n s a idx v in
  enc_state s' ++ enc_ts t ++ [b2z lg; b2z (negb lg || valid_draw n mb idx v); idx; v].
(* @export game_2048_rules_io *)

(* in: n, reset board -> 1, reset state, timestep, valid_draw, idx, v, observation *)
Definition game_2048_init_io (l : list Z) : list Z :=
  let (n, l) := take1 l in let (succ, _) := take_grid n n l in
  let (idx, v) := first_diff 0 (concat (zeros_board n)) (concat succ) in
  match init n idx v with
  | None => [0]
  | Some (s, t) => 1 :: enc_state s ++ enc_ts t ++ [b2z (valid_draw n (zeros_board n) idx v); idx; v] ++ enc_obs (observe s)
  end.
(* @export game_2048_init_io *)

(* verified checkers on an IMPLEMENTATION state: in n, board, mask ->
   [wf && nonneg; mask = legal_b for the 4 actions; mask[a] = (spec_move changes the board) for the 4 actions;
    total; phi_total; number of tiles] *)
Definition game_2048_check_io (l : list Z) : list Z :=
  let (n, l) := take1 l in let (b, l) := take_grid n n l in let (m, _) := taken 4 l in
  [ b2z (wf_b n b && nonneg_b b);
    b2z (list_eqb Bool.eqb (bools m) (map (legal_b n b) [0; 1; 2; 3]));
    b2z (list_eqb Bool.eqb (bools m) (map (fun a => negb (board_eqb (spec_move n b a) b)) [0; 1; 2; 3]));
    total b; phi_total b; count_tiles b ].
(* @export game_2048_check_io *)

(* verified transition checker on an IMPLEMENTATION transition: in n, board, action, successor board ->
   [trans_ok_b; legal_b; spec_reward] *)
Definition game_2048_trans_io (l : list Z) : list Z :=
  let (n, l) := take1 l in let (b, l) := take_grid n n l in let (a, l) := take1 l in
  let (b', _) := take_grid n n l in
  [ b2z (trans_ok_b n b a b'); b2z (legal_b n b a); spec_reward n b a ].
(* @export game_2048_trans_io *)

(* row sweep: in L, k, k rows of length L -> per row:
   ok, loop row (L), loop reward, can_ok, can, slide row (L), row_reward, slide-changes-the-row *)
Definition row_out (r : list Z) : list Z :=
  (match move_left_row r with
   | Some (r', x) => 1 :: r' ++ [x]
   | None => 0 :: r ++ [0]
   end)
  ++ (match can_move_left_row r with Some c => [1; b2z c] | None => [0; 0] end)
  ++ slide r ++ [row_reward r; b2z (negb (row_eqb (slide r) r))].
Definition game_2048_rows_io (l : list Z) : list Z :=
  let (len, l) := take1 l in let (k, l) := take1 l in
  let (rows, _) := take_grid k len l in
  concat (map row_out rows).
(* @export game_2048_rows_io *)
