(* Executable model of jumanji/environments/logic/graph_coloring (env.py, generator.py).
   Mirrors the code's algorithm (Impl layer); the declarative rules are the predicates
   [legal], [proper] below.  No proofs here (see Proofs/GraphColoring.v).                 *)
Require Import JV.Base.Prelude JV.Base.JaxIndex JV.Base.Codec JV.Base.TimeStep.

Record state := mkS { adj : list (list bool); colors : list Z; cur : Z; amask : list bool }.
(* reward code = the (integral) float reward *)

Fixpoint map2 {A B C} (f : A -> B -> C) (a : list A) (b : list B) : list C :=
  match a, b with x :: a', y :: b' => f x y :: map2 f a' b' | _, _ => [] end.

(* valid_actions.at[idxs].set(False) on an array of n+1 Trues (index -1 wraps to slot n) *)
Definition scatter_false (base : list bool) (idxs : list Z) : list bool :=
  fold_left (fun b i => jset b i false) idxs base.

(* _get_valid_actions(node, adj_matrix, colors) *)
Definition valid_actions (n node : Z) (adj : list (list bool)) (colors : list Z) : list bool :=
  let row := jget [] adj node in
  let idxs := map2 (fun (r : bool) c => if r then c else -1) row colors in
  removelast (scatter_false (repeat true (Z.to_nat (n + 1))) idxs).

(* number of distinct values >= 0 : count_nonzero(unique(colors, fill=-1) >= 0) *)
Fixpoint distinct_nonneg (seen : list Z) (l : list Z) : Z :=
  match l with
  | [] => 0
  | c :: r => if (0 <=? c) && negb (existsb (Z.eqb c) seen)
              then 1 + distinct_nonneg (c :: seen) r else distinct_nonneg seen r
  end.

Definition all_colored (colors : list Z) : bool := forallb (fun c => 0 <=? c) colors.

Definition step (n : Z) (s : state) (a : Z) : state * tstep :=
  let invalid := negb (jget false (amask s) a) in
  let colors' := jset (colors s) (cur s) a in
  let complete := all_colored colors' in
  let rew := if invalid then - n else if complete then - distinct_nonneg [] colors' else 0 in
  let done := complete || invalid in
  let cur' := (cur s + 1) mod n in
  (* the mask of the NEXT node is computed from the UPDATED colours *)
  let mask' := valid_actions n cur' (adj s) colors' in
  (mkS (adj s) colors' cur' mask', cond_done 1 done [rew]).

Definition init (n : Z) (adj0 : list (list bool)) : state * tstep :=
  (mkS adj0 (repeat (-1) (Z.to_nat n)) 0 (repeat true (Z.to_nat n)), restart 1).

(* generator: tril(p < prob, k=-1) + transpose, on an arbitrary boolean draw matrix *)
Definition gen_adj (n : Z) (draw : list (list bool)) : list (list bool) :=
  map (fun i => map (fun j =>
         (if j <? i then gat false draw i j else false) || (if i <? j then gat false draw j i else false))
       (zrange n)) (zrange n).

(* ---- declarative side ---- *)
Definition edge (adj : list (list bool)) (i j : Z) : bool := gat false adj i j.
Definition color_of (colors : list Z) (i : Z) : Z := znth (-1) colors i.
(* colour c is legal for node i: no neighbour already has it *)
Definition legal (n : Z) (adj : list (list bool)) (colors : list Z) (i c : Z) : Prop :=
  forall j, 0 <= j < n -> edge adj i j = true -> color_of colors j <> c.
Definition legal_b (n : Z) (adj : list (list bool)) (colors : list Z) (i c : Z) : bool :=
  forallb (fun j => negb (edge adj i j && (color_of colors j =? c))) (zrange n).
(* hard constraint: adjacent coloured nodes differ *)
Definition proper (n : Z) (adj : list (list bool)) (colors : list Z) : Prop :=
  forall i j, 0 <= i < n -> 0 <= j < n -> edge adj i j = true ->
              0 <= color_of colors i -> 0 <= color_of colors j -> color_of colors i <> color_of colors j.
Definition proper_b (n : Z) (adj : list (list bool)) (colors : list Z) : bool :=
  forallb (fun i => forallb (fun j =>
     negb (edge adj i j && (0 <=? color_of colors i) && (0 <=? color_of colors j)
           && (color_of colors i =? color_of colors j))) (zrange n)) (zrange n).
Definition sym_loopless_b (n : Z) (adj : list (list bool)) : bool :=
  forallb (fun i => negb (edge adj i i) && forallb (fun j => Bool.eqb (edge adj i j) (edge adj j i)) (zrange n)) (zrange n).

(* ---- wire format ---- *)
Definition dec_state (n : Z) (l : list Z) : state * list Z :=
  let (a, l) := take_grid n n l in
  let (c, l) := taken n l in
  let (k, l) := take1 l in
  let (m, l) := taken n l in
  (mkS (map bools a) c k (bools m), l).
Definition enc_state (s : state) : list Z := colors s ++ [cur s] ++ unbools (amask s).

(* in: n, state, action  ->  out: colors', cur', mask', step_type, reward, discount *)
Definition gc_step_io (l : list Z) : list Z :=
  let (n, l) := take1 l in let (s, l) := dec_state n l in let (a, _) := take1 l in
  let (s', t) := step n s a in enc_state s' ++ enc_ts t.
(* @export gc_step_io *)

(* in: n, adjacency  ->  reset state, timestep *)
Definition gc_init_io (l : list Z) : list Z :=
  let (n, l) := take1 l in let (a, _) := take_grid n n l in
  let (s, t) := init n (map bools a) in enc_state s ++ enc_ts t.
(* @export gc_init_io *)

(* verified checkers evaluated on IMPLEMENTATION states:
   [mask = legal for every colour; proper colouring; symmetric loop-free graph] *)
Definition gc_check_io (l : list Z) : list Z :=
  let (n, l) := take1 l in let (s, _) := dec_state n l in
  [ b2z (list_eqb Bool.eqb (amask s) (map (legal_b n (adj s) (colors s) (cur s)) (zrange n)));
    b2z (proper_b n (adj s) (colors s));
    b2z (sym_loopless_b n (adj s)) ].
(* @export gc_check_io *)

(* generator on an explicit draw matrix *)
Definition gc_gen_io (l : list Z) : list Z :=
  let (n, l) := take1 l in let (d, _) := take_grid n n l in
  concat (map unbools (gen_adj n (map bools d))).
(* @export gc_gen_io *)

(* ================= additions (declared specs, published rules, observation) ================= *)
(* ---- C01: the declared observation spec, as a boolean on a state (= the observed fields) ----
   adj_matrix (n,n) bool; colors (n,) in [-1, n-1]; current_node_index in [0, n-1]; action_mask (n,) bool *)
Definition ranges_b (n : Z) (s : state) : bool :=
  (zlen (adj s) =? n) && forallb (fun r : list bool => zlen r =? n) (adj s)
  && (zlen (colors s) =? n) && forallb (fun c => (-1 <=? c) && (c <=? n - 1)) (colors s)
  && (0 <=? cur s) && (cur s <=? n - 1) && (zlen (amask s) =? n).

(* ---- C12: the observation the code builds (step: from the OLD state's adjacency, the new colours, the
   next state's mask, the next node index; reset: from the locals) and the view of a state ---- *)
Definition observation : Type := (list (list bool) * list Z * Z * list bool)%type.
Definition observe (s : state) : observation := (adj s, colors s, cur s, amask s).
Definition obs_step (n : Z) (s : state) (a : Z) : observation :=
  let colors' := jset (colors s) (cur s) a in
  let cur' := (cur s + 1) mod n in
  (adj s, colors', cur', valid_actions n cur' (adj s) colors').
Definition obs_init (n : Z) (adj0 : list (list bool)) : observation :=
  (adj0, repeat (-1) (Z.to_nat n), 0, repeat true (Z.to_nat n)).
Definition enc_obs (o : observation) : list Z :=
  match o with (a, c, k, m) => concat (map unbools a) ++ c ++ [k] ++ unbools m end.

(* ---- C09: the published rules, stated without any array-indexing machinery ----
   colour the current node with the chosen colour; move to the next node (node 0 after the last one); the new mask is
   the set of colours no neighbour of the next node has; an illegal colour (some neighbour has it) ends the episode
   with reward -num_nodes; otherwise the episode ends when every node is coloured, with reward minus the number of
   colours in use; otherwise it continues with reward 0. *)
Definition colours_used (n : Z) (colors : list Z) : Z :=
  count_if (fun c => existsb (Z.eqb c) colors) (zrange n).
Definition paint (n : Z) (colors : list Z) (i a : Z) : list Z :=
  map (fun j => if j =? i then a else color_of colors j) (zrange n).
Definition next_node (n i : Z) : Z := if i + 1 <? n then i + 1 else 0.
Definition complete_b (n : Z) (colors : list Z) : bool := forallb (fun j => 0 <=? color_of colors j) (zrange n).
Definition rules_step (n : Z) (s : state) (a : Z) : state * tstep :=
  let colors' := paint n (colors s) (cur s) a in
  let nxt := next_node n (cur s) in
  let s' := mkS (adj s) colors' nxt (map (legal_b n (adj s) colors' nxt) (zrange n)) in
  if negb (legal_b n (adj s) (colors s) (cur s) a) then (s', termination 1 [- n])
  else if complete_b n colors' then (s', termination 1 [- colours_used n colors'])
  else (s', transition 1 [0]).

(* in: n, state, action  ->  same layout as gc_step_io, computed by the rules *)
Definition gc_rules_io (l : list Z) : list Z :=
  let (n, l) := take1 l in let (s, l) := dec_state n l in let (a, _) := take1 l in
  let (s', t) := rules_step n s a in enc_state s' ++ enc_ts t.
(* @export gc_rules_io *)

(* in: n, state, action  ->  the observation the step builds: adjacency, colours, node index, mask *)
Definition gc_obs_io (l : list Z) : list Z :=
  let (n, l) := take1 l in let (s, l) := dec_state n l in let (a, _) := take1 l in
  enc_obs (obs_step n s a).
(* @export gc_obs_io *)

(* verified checkers on IMPLEMENTATION states / observations:
   [inside the declared spec; colours in use (declarative); colours in use (code's unique/count); every node coloured] *)
Definition gc_spec_io (l : list Z) : list Z :=
  let (n, l) := take1 l in let (s, _) := dec_state n l in
  [ b2z (ranges_b n s); colours_used n (colors s); distinct_nonneg [] (colors s); b2z (complete_b n (colors s)) ].
(* @export gc_spec_io *)
