(* Executable model of jumanji/environments/packing/job_shop (env.py, generator.py).
   Impl layer: [step], [create_mask], [init], [gen] mirror the code's algorithm (arrays are rebuilt entry by entry,
   exactly as the vmapped / jnp.where code does).  The declarative rules are [legal], [Feasible], [inst_wf] ... below.
   No proofs here (see Proofs/JobShop*.v).                                                                        *)
Require Import JV.Base.Prelude JV.Base.JaxIndex JV.Base.Codec JV.Base.TimeStep.

(* num_jobs, num_machines, max_num_ops, max_op_duration *)
Record cfg := mkC { nj : Z; nm : Z; no : Z; nd : Z }.

Record state := mkS {
  omach : list (list Z);     (* ops_machine_ids   J x O, -1 = padding *)
  odur  : list (list Z);     (* ops_durations     J x O, -1 = padding *)
  omask : list (list bool);  (* ops_mask          J x O, true = still to be scheduled *)
  mjob  : list Z;            (* machines_job_ids  M, J = no-op *)
  mrem  : list Z;            (* machines_remaining_times M *)
  amask : list (list bool);  (* action_mask       M x (J+1) *)
  clock : Z;                 (* step_count *)
  sched : list (list Z) }.   (* scheduled_times   J x O, -1 = not scheduled *)

Definition tab {A} (n : Z) (f : Z -> A) : list A := map f (zrange n).
Definition tab2 {A} (r c : Z) (f : Z -> Z -> A) : list (list A) := tab r (fun i => tab c (f i)).

(* jnp.argmax(bool row): index of the first True, 0 when there is none *)
Fixpoint ftrue (l : list bool) : Z := match l with [] => 0 | b :: t => if b then 0 else 1 + ftrue t end.
Definition next_op (row : list bool) : Z := let k := ftrue row in if k <? zlen row then k else 0.

(* ~jnp.any((machines_job_ids == job_id) & (machines_remaining_times > 0)) *)
Definition job_busy (M : Z) (mj mr : list Z) (j : Z) : bool :=
  existsb (fun m => (znth 0 mj m =? j) && (0 <? znth 0 mr m)) (zrange M).

(* _is_action_valid(job j, its next op, machine m) *)
Definition valid_b (c : cfg) (mj mr : list Z) (om : list (list Z)) (ok : list (list bool)) (m j : Z) : bool :=
  let row := znth [] ok j in
  (znth 0 mr m =? 0) && (gat (-1) om j (next_op row) =? m) && negb (job_busy (nm c) mj mr j) && negb (forallb negb row).

(* _create_action_mask: vmap over machines of vmap over jobs, then a column of True for the no-op *)
Definition create_mask (c : cfg) (mj mr : list Z) (om : list (list Z)) (ok : list (list bool)) : list (list bool) :=
  tab (nm c) (fun m => tab (nj c) (valid_b c mj mr om ok m) ++ [true]).

Definition penalty (c : cfg) : Z := - (nj c * no c * nd c).

Definition act_at (act : list Z) (m : Z) : Z := znth 0 act m.
(* is_new_job[j] = any(action == j) *)
Definition newb (c : cfg) (act : list Z) (j : Z) : bool := existsb (fun m => act_at act m =? j) (zrange (nm c)).
Definition opid (s : state) (j : Z) : Z := next_op (znth [] (omask s) j).
Definition isnew (c : cfg) (s : state) (act : list Z) (j k : Z) : bool := newb c act j && (k =? opid s j).

(* _update_machines *)
Definition upd_job (c : cfg) (s : state) (act : list Z) (m : Z) : Z :=
  let a := act_at act m in
  if a =? nj c then (if znth 0 (mrem s) m =? 0 then a else znth 0 (mjob s) m) else a.
Definition upd_rem (c : cfg) (s : state) (act : list Z) (m : Z) : Z :=
  let a := act_at act m in
  let rt := if a =? nj c then znth 0 (mrem s) m
            else gget 0 (odur s) a (jget 0 (tab (nj c) (opid s)) a) in   (* ops_durations[action, op_ids[action]] : gathers *)
  if 0 <? rt then rt - 1 else 0.

Definition all_idle_b (c : cfg) (mj mr : list Z) : bool :=
  forallb (fun m => (znth 0 mj m =? nj c) && (znth 0 mr m =? 0)) (zrange (nm c)).
Definition none_pending_b (c : cfg) (ok : list (list bool)) : bool :=
  forallb (fun j => forallb (fun k => negb (gat false ok j k)) (zrange (no c))) (zrange (nj c)).
Definition all_free_b (c : cfg) (mr : list Z) : bool := forallb (fun m => znth 0 mr m =? 0) (zrange (nm c)).
Definition finished_b (c : cfg) (ok : list (list bool)) (mr : list Z) : bool := none_pending_b c ok && all_free_b c mr.

(* invalid = ~all(action_mask[arange(M), action])   (the column index is a gather: clamps / wraps) *)
Definition invalid_b (c : cfg) (s : state) (act : list Z) : bool :=
  negb (forallb (fun m => jget false (znth [] (amask s) m) (act_at act m)) (zrange (nm c))).

Definition step (c : cfg) (s : state) (act : list Z) : state * tstep :=
  let invalid := invalid_b c s act in
  let mjob' := tab (nm c) (upd_job c s act) in
  let mrem' := tab (nm c) (upd_rem c s act) in
  let sched' := tab2 (nj c) (no c) (fun j k => if isnew c s act j k then clock s else gat (-1) (sched s) j k) in
  let omask' := tab2 (nj c) (no c) (fun j k => gat false (omask s) j k && negb (isnew c s act j k)) in
  let amask' := create_mask c mjob' mrem' (omach s) omask' in
  let idle := all_idle_b c mjob' mrem' in
  let fin := finished_b c omask' mrem' in
  let done := invalid || idle || fin in
  let rew := if invalid || idle then penalty c else -1 in
  (mkS (omach s) (odur s) omask' mjob' mrem' amask' (clock s + 1) sched', cond_done 1 done [rew]).

(* reset: the generator's state + the action mask computed from it *)
Definition init (c : cfg) (om od : list (list Z)) : state * tstep :=
  let ok := tab2 (nj c) (no c) (fun j k => negb (gat (-1) om j k =? -1)) in
  let mj := tab (nm c) (fun _ => nj c) in
  let mr := tab (nm c) (fun _ => 0) in
  (mkS om od ok mj mr (create_mask c mj mr om ok) 0 (tab2 (nj c) (no c) (fun _ _ => -1)), restart 1).

(* RandomGenerator on explicit draws: machine ids dm, durations dd (J x O each), number of ops per job nops (J) *)
Definition gen (c : cfg) (dm dd : list (list Z)) (nops : list Z) : list (list Z) * list (list Z) :=
  (tab2 (nj c) (no c) (fun j k => if k <? znth 0 nops j then gat 0 dm j k else -1),
   tab2 (nj c) (no c) (fun j k => if k <? znth 0 nops j then gat 0 dd j k else -1)).
Definition valid_draw_b (c : cfg) (dm dd : list (list Z)) (nops : list Z) : bool :=
  forallb (fun j => (1 <=? znth 0 nops j) && (znth 0 nops j <=? no c) &&
     forallb (fun k => (0 <=? gat 0 dm j k) && (gat 0 dm j k <? nm c) && (1 <=? gat 0 dd j k) && (gat 0 dd j k <=? nd c))
             (zrange (no c))) (zrange (nj c)).

(* ToyGenerator: the literal instance *)
Definition toy_cfg : cfg := mkC 5 4 4 4.
Definition toy_mach : list (list Z) := [[2;3;1;2];[3;2;0;-1];[1;3;-1;-1];[0;3;0;0];[1;0;1;-1]].
Definition toy_dur  : list (list Z) := [[2;2;1;2];[2;4;1;-1];[2;3;-1;-1];[4;1;1;1];[3;1;2;-1]].

(* the observation is a plain copy of six state fields *)
Definition observe (s : state) := (omach s, odur s, omask s, mjob s, mrem s, amask s).

(* ------------------------------------------------------------------ declarative side *)
(* function views of the arrays *)
Definition mach (s : state) (j k : Z) : Z := gat (-1) (omach s) j k.
Definition dur (s : state) (j k : Z) : Z := gat (-1) (odur s) j k.
Definition pend (s : state) (j k : Z) : bool := gat false (omask s) j k.
Definition sch (s : state) (j k : Z) : Z := gat (-1) (sched s) j k.
Definition job (s : state) (m : Z) : Z := znth 0 (mjob s) m.
Definition rem (s : state) (m : Z) : Z := znth 0 (mrem s) m.

(* k is job j's next operation: the first one still to be scheduled *)
Definition is_next (c : cfg) (s : state) (j k : Z) : Prop :=
  0 <= k < no c /\ pend s j k = true /\ forall k', 0 <= k' < k -> pend s j k' = false.
(* scheduling job j on machine m is legal: j is unfinished and its next operation belongs to m, m is idle,
   j is not running anywhere *)
Definition legal (c : cfg) (s : state) (m j : Z) : Prop :=
  rem s m = 0 /\ (exists k, is_next c s j k /\ mach s j k = m)
  /\ (forall m', 0 <= m' < nm c -> ~ (job s m' = j /\ 0 < rem s m')).
Definition legal_b (c : cfg) (s : state) (m j : Z) : bool :=
  (rem s m =? 0)
  && existsb (fun k => pend s j k && forallb (fun k' => negb (pend s j k')) (zrange k) && (mach s j k =? m)) (zrange (no c))
  && forallb (fun m' => negb ((job s m' =? j) && (0 <? rem s m'))) (zrange (nm c)).
(* the whole mask a state should carry, from the rules *)
Definition legal_mask (c : cfg) (s : state) : list (list bool) :=
  tab (nm c) (fun m => tab (nj c) (legal_b c s m) ++ [true]).

(* real (non padding) operation / scheduled operation, start and end times *)
Definition real (s : state) (j k : Z) : Prop := mach s j k <> -1.
Definition real_b (s : state) (j k : Z) : bool := negb (mach s j k =? -1).
Definition scheduled (s : state) (j k : Z) : Prop := real s j k /\ pend s j k = false.
Definition scheduled_b (s : state) (j k : Z) : bool := real_b s j k && negb (pend s j k).
Definition fin (s : state) (j k : Z) : Z := sch s j k + dur s j k.

(* well-formed instance (what the generators promise): per job a non-empty prefix of real operations, whose machine
   ids and durations lie in the declared ranges *)
Definition inst_wf (c : cfg) (s : state) : Prop :=
  forall j, 0 <= j < nj c ->
    (exists k, 0 <= k < no c /\ real s j k) /\
    forall k, 0 <= k < no c -> real s j k ->
      0 <= mach s j k < nm c /\ 1 <= dur s j k <= nd c /\ forall k', 0 <= k' < k -> real s j k'.
Definition inst_wf_b (c : cfg) (s : state) : bool :=
  forallb (fun j => existsb (real_b s j) (zrange (no c)) &&
     forallb (fun k => negb (real_b s j k) ||
        ((0 <=? mach s j k) && (mach s j k <? nm c) && (1 <=? dur s j k) && (dur s j k <=? nd c)
         && forallb (real_b s j) (zrange k))) (zrange (no c))) (zrange (nj c)).
(* padding carries -1 in both arrays *)
Definition padding_ok_b (c : cfg) (s : state) : bool :=
  forallb (fun j => forallb (fun k => real_b s j k || (dur s j k =? -1)) (zrange (no c))) (zrange (nj c)).

(* the hard constraints of job-shop scheduling on the operations scheduled so far *)
Definition Feasible (c : cfg) (s : state) : Prop :=
  (* operations of a job are scheduled in order *)
  (forall j k k', 0 <= j < nj c -> 0 <= k < k' -> k' < no c -> scheduled s j k' -> scheduled s j k) /\
  (* ... each starts after the previous ones have ended (so operations of one job never overlap) *)
  (forall j k k', 0 <= j < nj c -> 0 <= k < k' -> k' < no c -> scheduled s j k -> scheduled s j k' -> fin s j k <= sch s j k') /\
  (* two different operations on the same machine never overlap in time *)
  (forall j k j' k', 0 <= j < nj c -> 0 <= k < no c -> 0 <= j' < nj c -> 0 <= k' < no c -> (j, k) <> (j', k') ->
     scheduled s j k -> scheduled s j' k' -> mach s j k = mach s j' k' -> fin s j k <= sch s j' k' \/ fin s j' k' <= sch s j k) /\
  (* start times are recorded exactly for the scheduled operations, and lie in the past *)
  (forall j k, 0 <= j < nj c -> 0 <= k < no c -> (scheduled s j k -> 0 <= sch s j k < clock s) /\ (~ scheduled s j k -> sch s j k = -1)).
Definition pairs (c : cfg) : list (Z * Z) := flat_map (fun j => map (fun k => (j, k)) (zrange (no c))) (zrange (nj c)).
Definition Feasible_b (c : cfg) (s : state) : bool :=
  forallb (fun p => let '(j, k) := p in
     (if scheduled_b s j k then (0 <=? sch s j k) && (sch s j k <? clock s) && forallb (scheduled_b s j) (zrange k)
      else sch s j k =? -1) &&
     forallb (fun q => let '(j', k') := q in
        negb (scheduled_b s j k && scheduled_b s j' k') ||
        ((if (j =? j') && (k <? k') then fin s j k <=? sch s j' k' else true) &&
         (if negb ((j =? j') && (k =? k')) && (mach s j k =? mach s j' k')
          then (fin s j k <=? sch s j' k') || (fin s j' k' <=? sch s j k) else true))) (pairs c)) (pairs c).

(* every real operation has been scheduled *)
Definition Complete (c : cfg) (s : state) : Prop :=
  forall j k, 0 <= j < nj c -> 0 <= k < no c -> real s j k -> scheduled s j k.
Definition Complete_b (c : cfg) (s : state) : bool :=
  forallb (fun p => let '(j, k) := p in negb (real_b s j k) || scheduled_b s j k) (pairs c).

(* makespan = latest end of a scheduled operation *)
Definition makespan (c : cfg) (s : state) : Z :=
  fold_right Z.max 0 (map (fun p => let '(j, k) := p in if scheduled_b s j k then fin s j k else 0) (pairs c)).

(* C11 potential: the work not yet done -- full duration of every pending operation, remaining part of every running one *)
Definition contrib (s : state) (j k : Z) : Z :=
  if pend s j k then dur s j k else if scheduled_b s j k then Z.max 0 (fin s j k - clock s) else 0.
Definition potential (c : cfg) (s : state) : Z :=
  zsum (map (fun j => zsum (map (contrib s j) (zrange (no c)))) (zrange (nj c))).

(* value ranges declared by observation_spec *)
Definition ranges_b (c : cfg) (s : state) : bool :=
  forallb (fun p => let '(j, k) := p in (-1 <=? mach s j k) && (mach s j k <=? nm c - 1) && (-1 <=? dur s j k) && (dur s j k <=? nd c)) (pairs c)
  && forallb (fun m => (0 <=? job s m) && (job s m <=? nj c) && (0 <=? rem s m) && (rem s m <=? nd c)) (zrange (nm c)).

(* shapes *)
Definition shape_b (c : cfg) (s : state) : bool :=
  let rows {A} (g : list (list A)) r w := (zlen g =? r) && forallb (fun row => zlen row =? w) g in
  rows (omach s) (nj c) (no c) && rows (odur s) (nj c) (no c) && rows (omask s) (nj c) (no c) && rows (sched s) (nj c) (no c)
  && rows (amask s) (nm c) (nj c + 1) && (zlen (mjob s) =? nm c) && (zlen (mrem s) =? nm c).

(* episodes: run the actions until the first LAST *)
Fixpoint run (c : cfg) (s : state) (acts : list (list Z)) : list (state * tstep) :=
  match acts with
  | [] => []
  | a :: r => let p := step c s a in p :: (if st (snd p) =? LAST then [] else run c (fst p) r)
  end.

(* ------------------------------------------------------------------ wire format *)
Definition dec_cfg (l : list Z) : cfg * list Z :=
  let (J, l) := take1 l in let (M, l) := take1 l in let (O, l) := take1 l in let (D, l) := take1 l in (mkC J M O D, l).
Definition dec_state (c : cfg) (l : list Z) : state * list Z :=
  let (om, l) := take_grid (nj c) (no c) l in
  let (od, l) := take_grid (nj c) (no c) l in
  let (ok, l) := take_grid (nj c) (no c) l in
  let (mj, l) := taken (nm c) l in
  let (mr, l) := taken (nm c) l in
  let (am, l) := take_grid (nm c) (nj c + 1) l in
  let (t, l) := take1 l in
  let (sc, l) := take_grid (nj c) (no c) l in
  (mkS om od (map bools ok) mj mr (map bools am) t sc, l).
Definition flat {A} (g : list (list A)) : list A := concat g.
Definition enc_dyn (s : state) : list Z :=
  flat (map unbools (omask s)) ++ mjob s ++ mrem s ++ flat (map unbools (amask s)) ++ [clock s] ++ flat (sched s).

(* in: cfg, state, action (M)  ->  out: ops_mask', machines_job_ids', remaining', action_mask', step_count', scheduled', timestep *)
Definition job_shop_step_io (l : list Z) : list Z :=
  let (c, l) := dec_cfg l in let (s, l) := dec_state c l in let (a, _) := taken (nm c) l in
  let (s', t) := step c s a in enc_dyn s' ++ enc_ts t.
(* @export job_shop_step_io *)

(* in: cfg, ops_machine_ids, ops_durations -> reset state (dynamic part), timestep *)
Definition job_shop_init_io (l : list Z) : list Z :=
  let (c, l) := dec_cfg l in
  let (om, l) := take_grid (nj c) (no c) l in let (od, _) := take_grid (nj c) (no c) l in
  let (s, t) := init c om od in enc_dyn s ++ enc_ts t.
(* @export job_shop_init_io *)

(* in: cfg, machine draws, duration draws (J x O each), num-ops draws (J) -> valid_draw, ops_machine_ids, ops_durations *)
Definition job_shop_gen_io (l : list Z) : list Z :=
  let (c, l) := dec_cfg l in
  let (dm, l) := take_grid (nj c) (no c) l in let (dd, l) := take_grid (nj c) (no c) l in let (n, _) := taken (nj c) l in
  let (om, od) := gen c dm dd n in b2z (valid_draw_b c dm dd n) :: flat om ++ flat od.
(* @export job_shop_gen_io *)

(* the ToyGenerator literal: cfg, ops_machine_ids, ops_durations *)
Definition job_shop_toy_io (_ : list Z) : list Z :=
  [nj toy_cfg; nm toy_cfg; no toy_cfg; nd toy_cfg] ++ flat toy_mach ++ flat toy_dur.
(* @export job_shop_toy_io *)

(* verified checkers evaluated on IMPLEMENTATION states:
   [shape; mask = legal for every machine and job; Feasible; Complete; instance well-formed; padding; ranges;
    makespan; potential; finished; all-idle] *)
Definition job_shop_check_io (l : list Z) : list Z :=
  let (c, l) := dec_cfg l in let (s, _) := dec_state c l in
  [ b2z (shape_b c s);
    b2z (list_eqb (list_eqb Bool.eqb) (amask s) (legal_mask c s));
    b2z (Feasible_b c s);
    b2z (Complete_b c s);
    b2z (inst_wf_b c s);
    b2z (padding_ok_b c s);
    b2z (ranges_b c s);
    makespan c s;
    potential c s;
    b2z (finished_b c (omask s) (mrem s));
    b2z (all_idle_b c (mjob s) (mrem s)) ].
(* @export job_shop_check_io *)
