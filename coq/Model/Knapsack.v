(* Executable model of jumanji/environments/packing/knapsack (env.py, reward.py, generator.py).
   Numbers: weights / values / budget are floats in the code; the model works over Z on a dyadic grid
   (value * 2^k encoded by the harness; + - <= are exact there).  Mirrors the code's algorithm (Impl layer);
   the declarative rules are [legal], [Feasible] below.  No proofs here (see Proofs/Knapsack.v).          *)
Require Import JV.Base.Prelude JV.Base.JaxIndex JV.Base.Codec JV.Base.TimeStep.

Record state := mkS { weights : list Z; values : list Z; packed : list bool; budget : Z }.

(* ~packed_items & (weights <= remaining_budget) *)
Fixpoint mask_of (b : Z) (p : list bool) (w : list Z) : list bool :=
  match p, w with
  | pi :: p', wi :: w' => (negb pi && (wi <=? b)) :: mask_of b p' w'
  | _, _ => []
  end.
Definition mask (s : state) : list bool := mask_of (budget s) (packed s) (weights s).

(* jnp.dot(packed_items, values) *)
Fixpoint dotb (p : list bool) (v : list Z) : Z :=
  match p, v with
  | pi :: p', vi :: v' => (if pi then vi else 0) + dotb p' v'
  | _, _ => 0
  end.

(* is_valid = (remaining_budget >= weights[action]) & ~packed_items[action]   (gathers clamp) *)
Definition valid (s : state) (a : Z) : bool :=
  (jget 0 (weights s) a <=? budget s) && negb (jget false (packed s) a).

(* _update_state *)
Definition update (s : state) (a : Z) : state :=
  mkS (weights s) (values s) (jset (packed s) a true) (budget s - jget 0 (weights s) a).

(* reward.py: SparseReward (sparse = true) / DenseReward (sparse = false) *)
Definition reward_of (sparse : bool) (s : state) (a : Z) (s' : state) (is_valid is_done : bool) : Z :=
  if sparse then (if is_done && is_valid then dotb (packed s') (values s') else 0)
  else (if is_valid then jget 0 (values s) a else 0).

Definition step (sparse : bool) (s : state) (a : Z) : state * tstep :=
  let is_valid := valid s a in
  let s' := if is_valid then update s a else s in          (* lax.cond(is_valid, _update_state, identity) *)
  let no_items := negb (existsb (fun b => b) (mask s')) in
  let is_done := no_items || negb is_valid in
  (s', cond_done 1 is_done [reward_of sparse s a s' is_valid is_done]).

(* generator as a function of the explicit draws (weights, values) : RandomGenerator.__call__ *)
Definition init (n total : Z) (w v : list Z) : state * tstep :=
  (mkS w v (repeat false (Z.to_nat n)) total, restart 1).
(* a draw of jax.random.uniform(minval=0,maxval=1) on the grid of scale sc: 0 <= x < sc *)
Definition valid_draw (n sc : Z) (w v : list Z) : bool :=
  (zlen w =? n) && (zlen v =? n) && forallb (fun x => (0 <=? x) && (x <? sc)) w && forallb (fun x => (0 <=? x) && (x <? sc)) v.

(* ---- declarative side ---- *)
(* item i may be packed: not packed yet and its weight does not exceed the remaining budget *)
Definition legal (s : state) (i : Z) : Prop :=
  znth true (packed s) i = false /\ znth 0 (weights s) i <= budget s.
Definition legal_b (s : state) (i : Z) : bool :=
  negb (znth true (packed s) i) && (znth 0 (weights s) i <=? budget s).
(* hard constraint: the packed items' weights plus what remains is the total budget; never over budget *)
Definition packed_weight (s : state) : Z := dotb (packed s) (weights s).
Definition packed_value (s : state) : Z := dotb (packed s) (values s).
Definition Feasible (total : Z) (s : state) : Prop :=
  packed_weight s + budget s = total /\ 0 <= budget s.
Definition Feasible_b (total : Z) (s : state) : bool :=
  (packed_weight s + budget s =? total) && (0 <=? budget s).
Definition shape_b (n : Z) (s : state) : bool :=
  (zlen (weights s) =? n) && (zlen (values s) =? n) && (zlen (packed s) =? n).
(* declared observation ranges (spec: weights, values in [0,1]) on the grid of scale sc *)
Definition ranges_b (sc : Z) (s : state) : bool :=
  forallb (fun x => (0 <=? x) && (x <=? sc)) (weights s) && forallb (fun x => (0 <=? x) && (x <=? sc)) (values s).
Definition unpacked (s : state) : Z := count_if negb (packed s).

(* ---- wire format ---- *)
Definition dec_state (n : Z) (l : list Z) : state * list Z :=
  let (w, l) := taken n l in
  let (v, l) := taken n l in
  let (p, l) := taken n l in
  let (b, l) := take1 l in
  (mkS w v (bools p) b, l).
Definition enc_out (s : state) : list Z := unbools (packed s) ++ [budget s] ++ unbools (mask s).

(* in: n, sparse, state(weights,values,packed,budget), action
   out: packed', budget', mask', step_type, reward, discount *)
Definition knapsack_step_io (l : list Z) : list Z :=
  let (n, l) := take1 l in let (sp, l) := take1 l in
  let (s, l) := dec_state n l in let (a, _) := take1 l in
  let (s', t) := step (z2b sp) s a in enc_out s' ++ enc_ts t.
(* @export knapsack_step_io *)

(* in: n, total, sc, weights draw, values draw -> reset state (packed, budget, mask), timestep, valid_draw *)
Definition knapsack_init_io (l : list Z) : list Z :=
  let (n, l) := take1 l in let (total, l) := take1 l in let (sc, l) := take1 l in
  let (w, l) := taken n l in let (v, _) := taken n l in
  let (s, t) := init n total w v in enc_out s ++ enc_ts t ++ [b2z (valid_draw n sc w v)].
(* @export knapsack_init_io *)

(* verified checkers on IMPLEMENTATION states.  in: n, total, sc, state, mask(n)
   out: [mask = legal for every item; Feasible; shapes; declared ranges; unpacked count] *)
Definition knapsack_check_io (l : list Z) : list Z :=
  let (n, l) := take1 l in let (total, l) := take1 l in let (sc, l) := take1 l in
  let (s, l) := dec_state n l in let (m, _) := taken n l in
  [ b2z (list_eqb Bool.eqb (bools m) (map (legal_b s) (zrange n)));
    b2z (Feasible_b total s);
    b2z (shape_b n s);
    b2z (ranges_b sc s);
    unpacked s;
    packed_value s ].
(* @export knapsack_check_io *)
