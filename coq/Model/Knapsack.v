(* Executable model of jumanji/environments/packing/knapsack (env.py, reward.py, generator.py).
   Numbers: weights / values / budget are float32 in the code.  Every float32 is dyadic, so the harness sends
   value * 2^k (an exact integer) and the model works over Z, where + - <= are exact.
   The ONLY float operation whose result can be inexact in [step] is  remaining_budget - weights[action];
   it is modelled by an explicit rounding function [rnd]:
     - [step]            = [step_r] with the identity: exact arithmetic (the idealised rules; exact on dyadic grids)
     - [step_r rne24]    = IEEE binary32 round-to-nearest-even of the difference (bit-exact on EVERY float32 state
                           whose values are multiples of 2^-k, k <= 126: no subnormals/overflow are involved)
   Mirrors the code's algorithm (Impl layer); the declarative rules are [legal], [Feasible], [step_rules] below.
   No proofs here (see Proofs/Knapsack.v).                                                                   *)
Require Import JV.Base.Prelude JV.Base.JaxIndex JV.Base.Codec JV.Base.TimeStep.

Record state := mkS { weights : list Z; values : list Z; packed : list bool; budget : Z }.

(* ~packed_items & (weights <= remaining_budget) *)
Fixpoint mask_of (b : Z) (p : list bool) (w : list Z) : list bool :=
  match p, w with
  | pi :: p', wi :: w' => (negb pi && (wi <=? b)) :: mask_of b p' w'
  | _, _ => []
  end.
Definition mask (s : state) : list bool := mask_of (budget s) (packed s) (weights s).

(* jnp.dot(packed_items, values) *)
Fixpoint dotb (p : list bool) (v : list Z) : Z :=
  match p, v with
  | pi :: p', vi :: v' => (if pi then vi else 0) + dotb p' v'
  | _, _ => 0
  end.

(* IEEE-754 binary32 rounding (round to nearest, ties to even) of an integer, 24 significant bits *)
Definition rne24_pos (m : Z) : Z :=
  if m <? 16777216 then m else
  let p := 2 ^ (Z.log2 m - 23) in
  let q := m / p in
  let r := m mod p in
  (if (p <? 2 * r) || ((2 * r =? p) && Z.odd q) then q + 1 else q) * p.
Definition rne24 (x : Z) : Z := if x <? 0 then - rne24_pos (- x) else rne24_pos x.

(* is_valid = (remaining_budget >= weights[action]) & ~packed_items[action]   (gathers clamp) *)
Definition valid (s : state) (a : Z) : bool :=
  (jget 0 (weights s) a <=? budget s) && negb (jget false (packed s) a).

(* _update_state : packed_items.at[action].set(True) (scatter drops), budget - weights[action] (gather clamps) *)
Definition update_r (rnd : Z -> Z) (s : state) (a : Z) : state :=
  mkS (weights s) (values s) (jset (packed s) a true) (rnd (budget s - jget 0 (weights s) a)).

(* reward.py: SparseReward (sparse = true) / DenseReward (sparse = false) *)
Definition reward_of (sparse : bool) (s : state) (a : Z) (s' : state) (is_valid is_done : bool) : Z :=
  if sparse then (if is_done && is_valid then dotb (packed s') (values s') else 0)
  else (if is_valid then jget 0 (values s) a else 0).

Definition step_r (rnd : Z -> Z) (sparse : bool) (s : state) (a : Z) : state * tstep :=
  let is_valid := valid s a in
  let s' := if is_valid then update_r rnd s a else s in     (* lax.cond(is_valid, _update_state, identity) *)
  let no_items := negb (existsb (fun b => b) (mask s')) in  (* ~jnp.any(observation.action_mask) *)
  let is_done := no_items || negb is_valid in
  (s', cond_done 1 is_done [reward_of sparse s a s' is_valid is_done]).

Definition rid (x : Z) : Z := x.
Definition step : bool -> state -> Z -> state * tstep := step_r rid.
Definition update : state -> Z -> state := update_r rid.

(* _state_to_observation: three copies and the mask *)
Definition observe (s : state) : list Z * list Z * list bool * list bool :=
  (weights s, values s, packed s, mask s).

(* generator as a function of the explicit draws (weights, values) : RandomGenerator.__call__ *)
Definition init (n total : Z) (w v : list Z) : state * tstep :=
  (mkS w v (repeat false (Z.to_nat n)) total, restart 1).
(* a draw of jax.random.uniform(minval=0,maxval=1) on the grid of scale sc: 0 <= x < sc *)
Definition valid_draw (n sc : Z) (w v : list Z) : bool :=
  (zlen w =? n) && (zlen v =? n) && forallb (fun x => (0 <=? x) && (x <? sc)) w && forallb (fun x => (0 <=? x) && (x <? sc)) v.

(* ---- declarative side ---- *)
(* item i may be packed: not packed yet and its weight does not exceed the remaining budget (== included) *)
Definition legal (s : state) (i : Z) : Prop :=
  znth true (packed s) i = false /\ znth 0 (weights s) i <= budget s.
Definition legal_b (s : state) (i : Z) : bool :=
  negb (znth true (packed s) i) && (znth 0 (weights s) i <=? budget s).
(* hard constraint: the packed items' weights plus what remains is the total budget; never over budget *)
Definition packed_weight (s : state) : Z := dotb (packed s) (weights s).
Definition packed_value (s : state) : Z := dotb (packed s) (values s).
Definition Feasible (total : Z) (s : state) : Prop :=
  packed_weight s + budget s = total /\ 0 <= budget s.
Definition Feasible_b (total : Z) (s : state) : bool :=
  (packed_weight s + budget s =? total) && (0 <=? budget s).
Definition shape (n : Z) (s : state) : Prop :=
  zlen (weights s) = n /\ zlen (values s) = n /\ zlen (packed s) = n.
Definition shape_b (n : Z) (s : state) : bool :=
  (zlen (weights s) =? n) && (zlen (values s) =? n) && (zlen (packed s) =? n).
(* declared observation ranges (spec: weights, values in [0,1]) on the grid of scale sc *)
Definition ranges_b (sc : Z) (s : state) : bool :=
  forallb (fun x => (0 <=? x) && (x <=? sc)) (weights s) && forallb (fun x => (0 <=? x) && (x <=? sc)) (values s).
Definition unpacked (s : state) : Z := count_if negb (packed s).
(* nothing more fits: the packing is maximal *)
Definition maximal_b (n : Z) (s : state) : bool := forallb (fun i => negb (legal_b s i)) (zrange n).

(* the published rules, stated with plain in-range list operations (no JAX index semantics):
   pack a legal item; an illegal choice ends the episode with reward 0 and changes nothing;
   the episode also ends when nothing more fits *)
Definition pack (s : state) (i : Z) : state :=
  mkS (weights s) (values s) (zupd i true (packed s)) (budget s - znth 0 (weights s) i).
Definition step_rules (n : Z) (sparse : bool) (s : state) (i : Z) : state * tstep :=
  if legal_b s i then
    let s' := pack s i in
    if maximal_b n s' then (s', termination 1 [if sparse then packed_value s' else znth 0 (values s) i])
    else (s', transition 1 [if sparse then 0 else znth 0 (values s) i])
  else (s, termination 1 [0]).

(* ---- wire format ---- *)
Definition dec_state (n : Z) (l : list Z) : state * list Z :=
  let (w, l) := taken n l in
  let (v, l) := taken n l in
  let (p, l) := taken n l in
  let (b, l) := take1 l in
  (mkS w v (bools p) b, l).
Definition enc_out (s : state) : list Z := unbools (packed s) ++ [budget s] ++ unbools (mask s).

(* in: n, float32 (1: round the budget like binary32, 0: exact), sparse, state(weights,values,packed,budget), action
   out: packed', budget', mask', step_type, reward, discount *)
Definition knapsack_step_io (l : list Z) : list Z :=
  let (n, l) := take1 l in let (fl, l) := take1 l in let (sp, l) := take1 l in
  let (s, l) := dec_state n l in let (a, _) := take1 l in
  let (s', t) := step_r (if z2b fl then rne24 else rid) (z2b sp) s a in enc_out s' ++ enc_ts t.
(* @export knapsack_step_io *)

(* the declarative rules, same wire format (without the rounding flag) *)
Definition knapsack_rules_io (l : list Z) : list Z :=
  let (n, l) := take1 l in let (sp, l) := take1 l in
  let (s, l) := dec_state n l in let (a, _) := take1 l in
  let (s', t) := step_rules n (z2b sp) s a in enc_out s' ++ enc_ts t.
(* @export knapsack_rules_io *)

(* in: n, total, sc, weights draw, values draw -> reset state (packed, budget, mask), timestep, valid_draw *)
Definition knapsack_init_io (l : list Z) : list Z :=
  let (n, l) := take1 l in let (total, l) := take1 l in let (sc, l) := take1 l in
  let (w, l) := taken n l in let (v, _) := taken n l in
  let (s, t) := init n total w v in enc_out s ++ enc_ts t ++ [b2z (valid_draw n sc w v)].
(* @export knapsack_init_io *)

(* verified checkers on IMPLEMENTATION states.  in: n, total, sc, state, mask(n)
   out: [mask = legal for every item; Feasible (exact); 0 <= budget; shapes; declared ranges;
         unpacked count; packed value; packed weight; nothing more fits] *)
Definition knapsack_check_io (l : list Z) : list Z :=
  let (n, l) := take1 l in let (total, l) := take1 l in let (sc, l) := take1 l in
  let (s, l) := dec_state n l in let (m, _) := taken n l in
  [ b2z (list_eqb Bool.eqb (bools m) (map (legal_b s) (zrange n)));
    b2z (Feasible_b total s);
    b2z (0 <=? budget s);
    b2z (shape_b n s);
    b2z (ranges_b sc s);
    unpacked s;
    packed_value s;
    packed_weight s;
    b2z (maximal_b n s) ].
(* @export knapsack_check_io *)

(* the rounding function alone: in: x -> rne24 x  (validated against numpy float32 by the harness) *)
Definition knapsack_rne_io (l : list Z) : list Z := map rne24 l.
(* @export knapsack_rne_io *)
