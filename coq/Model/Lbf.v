(* Executable model of jumanji/environments/routing/lbf (env.py, utils.py, observer.py, generator.py).
   Impl layer: [step], [mask_agent], [vector_view], [grid_view], [gen] mirror the code's algorithm (JAX gather /
   scatter behaviour written through jget / jset / jnorm / dyn_start).  Rules layer: [legal_b], [ref_step],
   [view_spec], [gview_spec] are an independent declarative statement.  No proofs here (see Proofs/Lbf*.v).

   Rewards are EXACT rationals (Q): the code computes them in float32, the harness compares with a tolerance
   (exactly when the value is representable).  [pen] is the penalty as a rational.  The shared [tstep] carries
   the reward CODE [Qnum q] (zero iff the reward is zero); [step_rewards] gives the rational rewards.
   Random draws of the generator are explicit arguments ([gen]); [valid_draws] is what a draw must satisfy. *)
From Coq Require Import QArith.
Require Import JV.Base.Prelude JV.Base.JaxIndex JV.Base.Codec JV.Base.TimeStep.
Open Scope Z_scope.

Record cfg := mkC { gsz : Z; nag : Z; nfood : Z; fov : Z; tlim : Z; norm : bool; pen : Q; gridobs : bool; maxlvl : Z }.
Record agent := mkA { aid : Z; ax : Z; ay : Z; alvl : Z; aload : bool }.
Record food := mkF { fid : Z; fx : Z; fy : Z; flvl : Z; featen : bool }.
Record state := mkS { agents : list agent; foods : list food; cnt : Z }.

Fixpoint map2 {A B C} (f : A -> B -> C) (a : list A) (b : list B) : list C :=
  match a, b with x :: a', y :: b' => f x y :: map2 f a' b' | _, _ => [] end.

Definition NOOP := 0. Definition LOAD := 5.
(* constants.MOVES : noop, up, down, left, right, load *)
Definition moves : list (Z * Z) := [(0, 0); (-1, 0); (1, 0); (0, -1); (0, 1); (0, 0)].
Definition move_of (a : Z) : Z * Z := jget (0, 0) moves a.          (* MOVES[action] : gather *)
Definition apos (a : agent) : Z * Z := (ax a, ay a).
Definition fpos (f : food) : Z * Z := (fx f, fy f).
Definition pos_eqb (p q : Z * Z) : bool := (fst p =? fst q) && (snd p =? snd q).

(* ---------- Impl layer: utils.py ---------- *)
Definition oob (g x y : Z) : bool := (x <? 0) || (g <=? x) || (y <? 0) || (g <=? y).
(* any(all(new == agents.position) & (agent.id != agents.id)) *)
Definition agent_at (ags : list agent) (me x y : Z) : bool :=
  existsb (fun b => (ax b =? x) && (ay b =? y) && negb (me =? aid b)) ags.
(* any(all(new == food.position) & ~food.eaten) *)
Definition food_at (fs : list food) (x y : Z) : bool :=
  existsb (fun f => (fx f =? x) && (fy f =? y) && negb (featen f)) fs.

(* simulate_agent_movement *)
Definition sim_move (g : Z) (ags : list agent) (fs : list food) (aa : agent * Z) : Z * Z :=
  let a := fst aa in
  let mv := move_of (snd aa) in
  let x := ax a + fst mv in let y := ay a + snd mv in
  if oob g x y || (agent_at ags (aid a) x y || food_at fs x y) then apos a else (x, y).

(* flag_duplicates: row i is flagged iff it does not occur exactly once *)
Definition dup (ps : list (Z * Z)) (p : Z * Z) : bool := negb (count_if (pos_eqb p) ps =? 1).

(* fix_collisions + loading flag, for one agent *)
Definition settle (moved : list (Z * Z)) (g : Z) (ags : list agent) (fs : list food) (aa : agent * Z) : agent :=
  let a := fst aa in
  let p := sim_move g ags fs aa in
  let p' := if dup moved p then apos a else p in
  mkA (aid a) (fst p') (snd p') (alvl a) (snd aa =? LOAD).

(* update_agent_positions (vmap over agents and actions) *)
Definition move_agents (g : Z) (ags : list agent) (fs : list food) (acts : list Z) : list agent :=
  let aa := combine ags acts in
  let moved := map (sim_move g ags fs) aa in
  map (settle moved g ags fs) aa.

Definition adjacent (x1 y1 x2 y2 : Z) : bool := Z.abs (x1 - x2) + Z.abs (y1 - y2) =? 1.
(* eat_food.get_adjacent_levels, all agents *)
Definition adj_levels (ags : list agent) (f : food) : list Z :=
  map (fun a => if adjacent (ax a) (ay a) (fx f) (fy f) && aload a && negb (featen f) then alvl a else 0) ags.
Definition eaten_now (ags : list agent) (f : food) : bool := flvl f <=? zsum (adj_levels ags f).
Definition eat (ags : list agent) (f : food) : food :=
  mkF (fid f) (fx f) (fy f) (flvl f) (eaten_now ags f || featen f).

(* ---------- env.get_reward ---------- *)
Definition zq (z : Z) : Q := inject_Z z.
Fixpoint qsum (l : list Q) : Q := match l with [] => 0%Q | x :: t => (x + qsum t)%Q end.
Definition vadd (u v : list Q) : list Q := map2 Qplus u v.
(* get_reward_per_food; x / 0 only ever occurs as 0 / 0 -> nan -> nan_to_num -> 0, which is Coq's Qdiv *)
Definition food_reward (c : cfg) (ltot : Z) (ags : list agent) (f : food) : list Q :=
  let adj := adj_levels ags f in
  let s := zsum adj in
  let p := if negb (s =? 0) && (s <? flvl f) then pen c else 0%Q in
  let e := b2z (eaten_now ags f) in
  map (fun l => let r := (zq (l * e * flvl f) - p)%Q in
                if norm c then (r / zq (s * ltot))%Q else r) adj.
(* sum over the food axis *)
Definition rewards (c : cfg) (ags : list agent) (fs : list food) : list Q :=
  let ltot := zsum (map flvl fs) in
  fold_right (fun f acc => vadd (food_reward c ltot ags f) acc) (repeat 0%Q (length ags)) fs.

(* ---------- observation ---------- *)
(* utils.compute_action_mask *)
Definition food_adjacent (fs : list food) (x y : Z) : bool :=
  0 <? zsum (map (fun f => b2z (adjacent (fx f) (fy f) x y && negb (featen f))) fs).
Definition mask_agent (g : Z) (s : state) (a : agent) : list bool :=
  let base := map (fun mv => let x := ax a + fst mv in let y := ay a + snd mv in
                 negb (food_at (foods s) x y || agent_at (agents s) (aid a) x y || oob g x y)) moves in
  if food_adjacent (foods s) (ax a) (ay a) then base else jset base (-1) false.
Definition mask_all (g : Z) (s : state) : list (list bool) := map (mask_agent g s) (agents s).

(* jnp.where(flags, size=k): indices of the True entries, padded with 0 / truncated to k *)
Fixpoint true_idx (i : Z) (flags : list bool) : list Z :=
  match flags with [] => [] | b :: t => if b then i :: true_idx (i + 1) t else true_idx (i + 1) t end.
Definition nonzero_size (k : nat) (flags : list bool) : list Z := firstn k (true_idx 0 flags ++ repeat 0 k).

Definition visible (fv x0 y0 x y : Z) : bool := (Z.abs (x0 - x) <=? fv) && (Z.abs (y0 - y) <=? fv).
(* transform_positions, then where(visible, ., -1/-1/0) *)
Definition info (fv : Z) (a : agent) (vis : bool) (x y l : Z) : list Z :=
  if vis then [x - ax a + Z.min fv (ax a); y - ay a + Z.min fv (ay a); l] else [-1; -1; 0].

(* VectorObserver.make_agents_view *)
Definition vector_view (c : cfg) (s : state) (a : agent) : list Z :=
  let fv := fov c in
  let finfo := map (fun f => info fv a (visible fv (ax a) (ay a) (fx f) (fy f) && negb (featen f)) (fx f) (fy f) (flvl f)) (foods s) in
  let ainfo := map (fun b => info fv a (visible fv (ax a) (ay a) (ax b) (ay b)) (ax b) (ay b) (alvl b)) (agents s) in
  let self_idx := nonzero_size 1 (map (fun b => aid a =? aid b) (agents s)) in
  let other_idx := nonzero_size (Z.to_nat (nag c - 1)) (map (fun b => negb (aid a =? aid b)) (agents s)) in
  concat finfo ++ concat (map (jget [-1; -1; 0] ainfo) self_idx) ++ concat (map (jget [-1; -1; 0] ainfo) other_idx).

(* GridObserver.make_agents_view: the padded boards, pointwise (scatter on a zero board: a negative index wraps
   once, out-of-range updates are dropped; the per-entity boards are summed) *)
Definition agent_board (G fv : Z) (ags : list agent) (r k : Z) : Z :=
  zsum (map (fun a => if (jnorm G (ax a + fv) =? r) && (jnorm G (ay a + fv) =? k) then alvl a else 0) ags).
Definition food_board (G fv : Z) (fs : list food) (r k : Z) : Z :=
  zsum (map (fun f => if (jnorm G (fx f + fv) =? r) && (jnorm G (fy f + fv) =? k) then flvl f * b2z (negb (featen f)) else 0) fs).
(* [:fov] and [-fov:] slices ([-0:] is the whole axis) *)
Definition edge (G fv r : Z) : bool := (r <? fv) || (if fv =? 0 then true else G - fv <=? r).
Definition access_board (G fv : Z) (s : state) (r k : Z) : Z :=
  b2z ((agent_board G fv (agents s) r k + food_board G fv (foods s) r k =? 0) && negb (edge G fv r) && negb (edge G fv k)).
Definition window (G fv : Z) (board : Z -> Z -> Z) (a : agent) : list Z :=
  let w := 2 * fv + 1 in
  let r0 := dyn_start G w (ax a) in let k0 := dyn_start G w (ay a) in
  concat (map (fun dr => map (fun dk => board (r0 + dr) (k0 + dk)) (zrange w)) (zrange w)).
Definition grid_view (c : cfg) (s : state) (a : agent) : list Z :=
  let fv := fov c in let G := gsz c + 2 * fv in
  window G fv (agent_board G fv (agents s)) a ++ window G fv (food_board G fv (foods s)) a
  ++ window G fv (access_board G fv s) a.

Definition view_agent (c : cfg) (s : state) (a : agent) : list Z :=
  if gridobs c then grid_view c s a else vector_view c s a.
Definition views (c : cfg) (s : state) : list (list Z) := map (view_agent c s) (agents s).

(* ---------- env.step ---------- *)
Definition step_agents (c : cfg) (s : state) (acts : list Z) : list agent :=
  move_agents (gsz c) (agents s) (foods s) acts.
Definition step_rewards (c : cfg) (s : state) (acts : list Z) : list Q :=
  rewards c (step_agents c s acts) (foods s).
Definition step (c : cfg) (s : state) (acts : list Z) : state * tstep :=
  let ags := step_agents c s acts in
  let fs := map (eat ags) (foods s) in
  let rw := map Qnum (step_rewards c s acts) in
  let n := cnt s + 1 in
  let terminate := forallb featen fs in
  let truncate := tlim c <=? n in
  let k := Z.to_nat (nag c) in
  (mkS ags fs n,
   if terminate then termination k rw else if truncate then truncation k rw else transition k rw).

(* ---------- generator.RandomGenerator over explicit draws (the repaired cell mask) ---------- *)
Definition interior (g q : Z) : bool :=
  (g <=? q) && (q <? g * g - g) && negb (q mod g =? 0) && negb (q mod g =? g - 1).
Definition food_mask0 (g : Z) : list bool := map (interior g) (zrange (g * g)).
(* take_positions: mask.at[[p, p+1, p-1, p+g, p-g]].set(False) *)
Definition block (g : Z) (m : list bool) (p : Z) : list bool :=
  fold_left (fun m i => jset m i false) [p; p + 1; p - 1; p + g; p - g] m.
(* a draw of jax.random.choice(p=mask) is an index of non-zero probability *)
Definition pickable (m : list bool) (p : Z) : bool := (0 <=? p) && (p <? zlen m) && znth false m p.
Fixpoint food_draws_ok (g : Z) (m : list bool) (ps : list Z) : bool :=
  match ps with [] => true | p :: t => pickable m p && food_draws_ok g (block g m p) t end.
Fixpoint nodup_z (l : list Z) : bool :=
  match l with [] => true | x :: t => negb (existsb (Z.eqb x) t) && nodup_z t end.
(* insertion sort : jnp.sort *)
Fixpoint insert (x : Z) (l : list Z) : list Z :=
  match l with [] => [x] | y :: t => if x <=? y then x :: l else y :: insert x t end.
Definition sort (l : list Z) : list Z := fold_right insert [] l.
Definition max_food_level (alv : list Z) : Z := zsum (firstn 3 (sort alv)).

Record draws := mkD { d_food : list Z; d_agent : list Z; d_alvl : list Z; d_flvl : list Z }.
(* mask for agents: every cell but the food cells (scatter at the unravelled food positions) *)
Definition agent_mask (g : Z) (fps : list Z) : list bool :=
  fold_left (fun m p => jset m p false) fps (repeat true (Z.to_nat (g * g))).
Definition valid_draws (c : cfg) (coop : bool) (d : draws) : bool :=
  let g := gsz c in
  (zlen (d_food d) =? nfood c) && (zlen (d_agent d) =? nag c) && (zlen (d_alvl d) =? nag c) && (zlen (d_flvl d) =? nfood c)
  && food_draws_ok g (food_mask0 g) (d_food d)
  && forallb (pickable (agent_mask g (d_food d))) (d_agent d) && nodup_z (d_agent d)
  && forallb (fun l => (1 <=? l) && (l <=? maxlvl c)) (d_alvl d)
  && (coop || forallb (fun l => (1 <=? l) && (l <=? max_food_level (d_alvl d))) (d_flvl d)).
Definition gen (c : cfg) (coop : bool) (d : draws) : state :=
  let g := gsz c in
  let mfl := max_food_level (d_alvl d) in
  mkS (map2 (fun i (pl : Z * Z) => mkA i (fst pl / g) (fst pl mod g) (snd pl) false) (zrange (nag c)) (combine (d_agent d) (d_alvl d)))
      (map2 (fun i (pl : Z * Z) => mkF i (fst pl / g) (fst pl mod g) (if coop then mfl else snd pl) false) (zrange (nfood c)) (combine (d_food d) (d_flvl d)))
      0.
Definition init (c : cfg) (coop : bool) (d : draws) : state * tstep := (gen c coop d, restart (Z.to_nat (nag c))).

(* ---------- Rules layer (independent statement; strict, declarative) ---------- *)
Definition dir (a : Z) : Z * Z :=
  if a =? 1 then (-1, 0) else if a =? 2 then (1, 0) else if a =? 3 then (0, -1) else if a =? 4 then (0, 1) else (0, 0).
Definition in_grid (g x y : Z) : bool := (0 <=? x) && (x <? g) && (0 <=? y) && (y <? g).
Definition is_move (k : Z) : bool := (1 <=? k) && (k <=? 4).
(* the cell holds no OTHER agent and no uneaten food *)
Definition cell_free (s : state) (a : agent) (x y : Z) : bool :=
  forallb (fun b => (aid b =? aid a) || negb (pos_eqb (apos b) (x, y))) (agents s)
  && forallb (fun f => featen f || negb (pos_eqb (fpos f) (x, y))) (foods s).
(* action k is legal for agent a: NOOP always; a move iff the target is on the grid and free; LOAD iff an uneaten
   food is 4-adjacent *)
Definition legal_b (g : Z) (s : state) (a : agent) (k : Z) : bool :=
  if k =? NOOP then true
  else if is_move k then in_grid g (ax a + fst (dir k)) (ay a + snd (dir k)) && cell_free s a (ax a + fst (dir k)) (ay a + snd (dir k))
  else if k =? LOAD then existsb (fun f => negb (featen f) && adjacent (ax a) (ay a) (fx f) (fy f)) (foods s)
  else false.
Definition legal (g : Z) (s : state) (a : agent) (k : Z) : Prop :=
  k = NOOP
  \/ (1 <= k <= 4 /\ 0 <= ax a + fst (dir k) < g /\ 0 <= ay a + snd (dir k) < g
      /\ (forall b, In b (agents s) -> aid b <> aid a -> apos b <> (ax a + fst (dir k), ay a + snd (dir k)))
      /\ (forall f, In f (foods s) -> featen f = false -> fpos f <> (ax a + fst (dir k), ay a + snd (dir k))))
  \/ (k = LOAD /\ exists f, In f (foods s) /\ featen f = false /\ Z.abs (ax a - fx f) + Z.abs (ay a - fy f) = 1).

(* reference step.  An agent WANTS a cell when it plays a legal move; it gets it unless another agent wants the same
   cell; everybody else stays.  A food is eaten when the levels of the adjacent agents that play LOAD reach its level;
   the food's level is then split among them proportionally to their level (normalised by the total food level);
   an attempted but insufficient load costs every agent the penalty. *)
Definition wants (g : Z) (s : state) (aa : agent * Z) : bool := is_move (snd aa) && legal_b g s (fst aa) (snd aa).
Definition target (aa : agent * Z) : Z * Z := (ax (fst aa) + fst (dir (snd aa)), ay (fst aa) + snd (dir (snd aa))).
Definition contested (g : Z) (s : state) (all : list (agent * Z)) (aa : agent * Z) : bool :=
  existsb (fun bb => negb (aid (fst bb) =? aid (fst aa)) && wants g s bb && pos_eqb (target bb) (target aa)) all.
Definition ref_agents (g : Z) (s : state) (acts : list Z) : list agent :=
  let all := combine (agents s) acts in
  map (fun aa => let a := fst aa in
         let p := if wants g s aa && negb (contested g s all aa) then target aa else apos a in
         mkA (aid a) (fst p) (snd p) (alvl a) (snd aa =? LOAD)) all.
Definition loaders (ags : list agent) (f : food) : list agent :=
  filter (fun a => aload a && adjacent (ax a) (ay a) (fx f) (fy f)) ags.
Definition ref_reward_food (c : cfg) (ltot : Z) (ags : list agent) (f : food) (a : agent) : Q :=
  let ld := loaders ags f in
  let s := zsum (map alvl ld) in
  if featen f || (s =? 0) then 0%Q
  else
    let scale := if norm c then zq (s * ltot) else 1%Q in
    if flvl f <=? s
    then (if aload a && adjacent (ax a) (ay a) (fx f) (fy f) then (zq (alvl a * flvl f) / scale)%Q else 0%Q)
    else (- pen c / scale)%Q.
Definition ref_step (c : cfg) (s : state) (acts : list Z) : state * tstep * list Q :=
  let ags := ref_agents (gsz c) s acts in
  let fs := map (fun f => mkF (fid f) (fx f) (fy f) (flvl f)
                   (featen f || (flvl f <=? zsum (map alvl (loaders ags f))))) (foods s) in
  let ltot := zsum (map flvl (foods s)) in
  let rw := map (fun a => qsum (map (fun f => ref_reward_food c ltot ags f a) (foods s))) ags in
  let n := cnt s + 1 in
  let k := Z.to_nat (nag c) in
  let all_eaten := forallb featen fs in
  (mkS ags fs n,
   mkTS (if all_eaten || (tlim c <=? n) then LAST else MID) (map Qnum rw) (repeat (if all_eaten then 0 else 1) k),
   rw).

(* declarative observations.  Vector: food triplets in food order, the observer, the others in list (= id) order;
   coordinates are relative to the corner of the observer's field of view clipped to the grid; (-1,-1,0) when outside
   the field of view or eaten. *)
Definition rel (fv : Z) (a : agent) (x y l : Z) : list Z := [x - Z.max 0 (ax a - fv); y - Z.max 0 (ay a - fv); l].
Definition in_fov (fv : Z) (a : agent) (x y : Z) : bool :=
  (ax a - fv <=? x) && (x <=? ax a + fv) && (ay a - fv <=? y) && (y <=? ay a + fv).
Definition hidden : list Z := [-1; -1; 0].
Definition view_spec (c : cfg) (s : state) (a : agent) : list Z :=
  concat (map (fun f => if in_fov (fov c) a (fx f) (fy f) && negb (featen f) then rel (fov c) a (fx f) (fy f) (flvl f) else hidden) (foods s))
  ++ rel (fov c) a (ax a) (ay a) (alvl a)
  ++ concat (map (fun b => if in_fov (fov c) a (ax b) (ay b) then rel (fov c) a (ax b) (ay b) (alvl b) else hidden)
                 (filter (fun b => negb (aid b =? aid a)) (agents s))).
(* Grid: cell (dr, dk) of the window shows grid cell (x - fov + dr, y - fov + dk) *)
Definition agent_level_at (s : state) (x y : Z) : Z :=
  match find (fun b => pos_eqb (apos b) (x, y)) (agents s) with Some b => alvl b | None => 0 end.
Definition food_level_at (s : state) (x y : Z) : Z :=
  match find (fun f => pos_eqb (fpos f) (x, y) && negb (featen f)) (foods s) with Some f => flvl f | None => 0 end.
Definition gview_spec (c : cfg) (s : state) (a : agent) : list Z :=
  let w := zrange (2 * fov c + 1) in
  let cells (h : Z -> Z -> Z) := concat (map (fun dr => map (fun dk => h (ax a - fov c + dr) (ay a - fov c + dk)) w) w) in
  cells (agent_level_at s) ++ cells (food_level_at s)
  ++ cells (fun x y => b2z (in_grid (gsz c) x y && (agent_level_at s x y =? 0) && (food_level_at s x y =? 0))).
Definition obs_spec (c : cfg) (s : state) (a : agent) : list Z :=
  if gridobs c then gview_spec c s a else view_spec c s a.

(* ---------- episodes (C08 / C11) ---------- *)
(* the timesteps up to and including the first LAST *)
Fixpoint episode (c : cfg) (s : state) (al : list (list Z)) : list tstep :=
  match al with
  | [] => []
  | a :: r => if st (snd (step c s a)) =? LAST then [snd (step c s a)] else snd (step c s a) :: episode c (fst (step c s a)) r
  end.
(* the only cause of a LAST step other than the time limit: every food is eaten *)
Definition other_cause (c : cfg) (s : state) (a : list Z) : bool := forallb featen (foods (fst (step c s a))).
Fixpoint no_other (c : cfg) (s : state) (al : list (list Z)) : bool :=
  match al with [] => true | a :: r => negb (other_cause c s a) && no_other c (fst (step c s a)) r end.
Fixpoint final (c : cfg) (s : state) (al : list (list Z)) : state :=
  match al with [] => s | a :: r => final c (fst (step c s a)) r end.
(* sum over steps and agents of the rewards *)
Fixpoint total_return (c : cfg) (s : state) (al : list (list Z)) : Q :=
  match al with [] => 0%Q | a :: r => (qsum (step_rewards c s a) + total_return c (fst (step c s a)) r)%Q end.
Inductive reachable (c : cfg) (s0 : state) : state -> Prop :=
| reach_init : reachable c s0 s0
| reach_step s acts : reachable c s0 s -> zlen acts = nag c -> reachable c s0 (fst (step c s acts)).

(* ---------- state predicates with boolean twins (C07 / C01 / C10) ---------- *)
Fixpoint nodup_pos (l : list (Z * Z)) : bool :=
  match l with [] => true | x :: t => negb (existsb (pos_eqb x) t) && nodup_pos t end.

Definition agent_ok (c : cfg) (s : state) (a : agent) : Prop :=
  0 <= ax a < gsz c /\ 0 <= ay a < gsz c /\ 1 <= alvl a <= maxlvl c /\ food_at (foods s) (ax a) (ay a) = false.
Definition agent_ok_b (c : cfg) (s : state) (a : agent) : bool :=
  in_grid (gsz c) (ax a) (ay a) && (1 <=? alvl a) && (alvl a <=? maxlvl c) && negb (food_at (foods s) (ax a) (ay a)).
Definition food_ok (c : cfg) (f : food) : Prop :=
  0 <= fx f < gsz c /\ 0 <= fy f < gsz c /\ 1 <= flvl f <= nag c * maxlvl c.
Definition food_ok_b (c : cfg) (f : food) : bool :=
  in_grid (gsz c) (fx f) (fy f) && (1 <=? flvl f) && (flvl f <=? nag c * maxlvl c).

(* one entity per cell, inside the grid, agents never on uneaten food, ids = positions in the list *)
Definition Inv (c : cfg) (s : state) : Prop :=
  zlen (agents s) = nag c /\ zlen (foods s) = nfood c
  /\ map aid (agents s) = zrange (nag c)
  /\ NoDup (map apos (agents s)) /\ NoDup (map fpos (foods s))
  /\ Forall (agent_ok c s) (agents s) /\ Forall (food_ok c) (foods s) /\ 0 <= cnt s.
Definition Inv_b (c : cfg) (s : state) : bool :=
  (zlen (agents s) =? nag c) && (zlen (foods s) =? nfood c)
  && list_eqb Z.eqb (map aid (agents s)) (zrange (nag c))
  && nodup_pos (map apos (agents s)) && nodup_pos (map fpos (foods s))
  && forallb (agent_ok_b c s) (agents s) && forallb (food_ok_b c) (foods s) && (0 <=? cnt s).

(* the mask shown is the table of legal actions *)
Definition mask_exact_b (c : cfg) (s : state) : bool :=
  list_eqb (list_eqb Bool.eqb) (mask_all (gsz c) s) (map (fun a => map (legal_b (gsz c) s a) (zrange 6)) (agents s)).
Definition view_exact_b (c : cfg) (s : state) : bool :=
  list_eqb (list_eqb Z.eqb) (views c s) (map (obs_spec c s) (agents s)).

(* observation_spec: view entries in [-1 | 0, max(max_food_level, max_agent_level, grid_size)], mask (num_agents, 6),
   step_count in [0, time_limit] *)
Definition max_ob (c : cfg) : Z := Z.max (nag c * maxlvl c) (Z.max (maxlvl c) (gsz c)).
Definition view_len (c : cfg) : Z :=
  if gridobs c then 3 * (2 * fov c + 1) * (2 * fov c + 1) else 3 * (nfood c + nag c).
Definition spec_ok_b (c : cfg) (s : state) : bool :=
  (zlen (views c s) =? nag c)
  && forallb (fun v => (zlen v =? view_len c)
                       && forallb (fun x => ((if gridobs c then 0 else -1) <=? x) && (x <=? max_ob c)) v) (views c s)
  && (zlen (mask_all (gsz c) s) =? nag c) && forallb (fun m => zlen m =? 6) (mask_all (gsz c) s)
  && (0 <=? cnt s) && (cnt s <=? tlim c).

(* what changes between two consecutive states: food never moves / changes level / comes back; agents keep id and level *)
Definition food_step_b (f f' : food) : bool :=
  (fid f =? fid f') && (fx f =? fx f') && (fy f =? fy f') && (flvl f =? flvl f') && (negb (featen f) || featen f').
Definition agent_step_b (a a' : agent) : bool :=
  (aid a =? aid a') && (alvl a =? alvl a') && (Z.abs (ax a - ax a') + Z.abs (ay a - ay a') <=? 1).
Fixpoint forallb2 {A B} (f : A -> B -> bool) (a : list A) (b : list B) : bool :=
  match a, b with
  | [], [] => true
  | x :: a', y :: b' => f x y && forallb2 f a' b'
  | _, _ => false
  end.
Definition mono_b (s s' : state) : bool :=
  forallb2 food_step_b (foods s) (foods s') && forallb2 agent_step_b (agents s) (agents s') && (cnt s' =? cnt s + 1).
(* total level of the eaten food: the quantity the normalised return measures *)
Definition eaten_mass (fs : list food) : Z := zsum (map (fun f => if featen f then flvl f else 0) fs).
Definition total_level (fs : list food) : Z := zsum (map flvl fs).

(* generated instance: as advertised by RandomGenerator *)
Definition gen_ok_b (c : cfg) (coop : bool) (s : state) : bool :=
  let g := gsz c in
  Inv_b c s && (cnt s =? 0)
  && forallb (fun a => negb (aload a)) (agents s)
  && forallb (fun f => negb (featen f) && (1 <=? fx f) && (fx f <=? g - 2) && (1 <=? fy f) && (fy f <=? g - 2)) (foods s)
  && forallb (fun f => forallb (fun f' => (fid f =? fid f') || negb (adjacent (fx f) (fy f) (fx f') (fy f'))) (foods s)) (foods s)
  && forallb (fun f => flvl f <=? max_food_level (map alvl (agents s))) (foods s)
  && (negb coop || forallb (fun f => flvl f =? max_food_level (map alvl (agents s))) (foods s)).

(* ---------- wire format ---------- *)
Definition dec_q (l : list Z) : Q * list Z :=
  let (n, l) := take1 l in let (d, l) := take1 l in (Qmake n (Z.to_pos d), l).
Definition enc_q (q : Q) : list Z := [Qnum q; Zpos (Qden q)].
Definition dec_cfg (l : list Z) : cfg * list Z :=
  let (g, l) := take1 l in let (a, l) := take1 l in let (f, l) := take1 l in let (v, l) := take1 l in
  let (t, l) := take1 l in let (nm, l) := take_bool l in let (p, l) := dec_q l in
  let (go, l) := take_bool l in let (ml, l) := take1 l in
  (mkC g a f v t nm p go ml, l).
Definition dec_agent (l : list Z) : agent * list Z :=
  let (i, l) := take1 l in let (x, l) := take1 l in let (y, l) := take1 l in
  let (lv, l) := take1 l in let (b, l) := take_bool l in (mkA i x y lv b, l).
Definition dec_food (l : list Z) : food * list Z :=
  let (i, l) := take1 l in let (x, l) := take1 l in let (y, l) := take1 l in
  let (lv, l) := take1 l in let (b, l) := take_bool l in (mkF i x y lv b, l).
Definition dec_state (c : cfg) (l : list Z) : state * list Z :=
  let (a, l) := dec_many dec_agent (Z.to_nat (nag c)) l in
  let (f, l) := dec_many dec_food (Z.to_nat (nfood c)) l in
  let (n, l) := take1 l in (mkS a f n, l).
Definition enc_agent (a : agent) : list Z := [aid a; ax a; ay a; alvl a; b2z (aload a)].
Definition enc_food (f : food) : list Z := [fid f; fx f; fy f; flvl f; b2z (featen f)].
Definition enc_state (s : state) : list Z :=
  concat (map enc_agent (agents s)) ++ concat (map enc_food (foods s)) ++ [cnt s].
Definition enc_obs (c : cfg) (s : state) : list Z :=
  concat (map unbools (mask_all (gsz c) s)) ++ concat (views c s).

(* in: cfg, state, actions -> out: state', mask', views', step_type, discounts, rewards as (num, den) pairs *)
Definition lbf_step_io (l : list Z) : list Z :=
  let (c, l) := dec_cfg l in let (s, l) := dec_state c l in let (a, _) := taken (nag c) l in
  let (s', t) := step c s a in
  enc_state s' ++ enc_obs c s' ++ [st t] ++ discount t ++ concat (map (fun q => enc_q (Qred q)) (step_rewards c s a)).
(* @export lbf_step_io *)

(* the reference (Rules) step: state', step_type, discounts, rewards *)
Definition lbf_ref_io (l : list Z) : list Z :=
  let (c, l) := dec_cfg l in let (s, l) := dec_state c l in let (a, _) := taken (nag c) l in
  let '(s', t, rw) := ref_step c s a in
  enc_state s' ++ [st t] ++ discount t ++ concat (map (fun q => enc_q (Qred q)) rw).
(* @export lbf_ref_io *)

(* in: cfg, state -> mask, views (the observation of any state, e.g. the reset state) *)
Definition lbf_obs_io (l : list Z) : list Z :=
  let (c, l) := dec_cfg l in let (s, _) := dec_state c l in enc_obs c s.
(* @export lbf_obs_io *)

(* verified checkers on IMPLEMENTATION states: [Inv; mask = legal table; views = declarative views; spec bounds] *)
Definition lbf_check_io (l : list Z) : list Z :=
  let (c, l) := dec_cfg l in let (s, _) := dec_state c l in
  [b2z (Inv_b c s); b2z (mask_exact_b c s); b2z (view_exact_b c s); b2z (spec_ok_b c s)].
(* @export lbf_check_io *)

(* in: cfg, s, s' -> [monotone; eaten mass before; after; total food level] *)
Definition lbf_mono_io (l : list Z) : list Z :=
  let (c, l) := dec_cfg l in let (s, l) := dec_state c l in let (s', _) := dec_state c l in
  [b2z (mono_b s s'); eaten_mass (foods s); eaten_mass (foods s'); total_level (foods s)].
(* @export lbf_mono_io *)

(* in: cfg, coop, food draws, agent draws, agent levels, food level draws -> valid?, generated state, reset timestep *)
Definition lbf_gen_io (l : list Z) : list Z :=
  let (c, l) := dec_cfg l in let (coop, l) := take_bool l in
  let (df, l) := taken (nfood c) l in let (da, l) := taken (nag c) l in
  let (la, l) := taken (nag c) l in let (lf, _) := taken (nfood c) l in
  let d := mkD df da la lf in
  let (s, t) := init c coop d in
  b2z (valid_draws c coop d) :: enc_state s ++ enc_ts t.
(* @export lbf_gen_io *)

(* in: cfg, coop, state -> [generated instance well formed] *)
Definition lbf_gencheck_io (l : list Z) : list Z :=
  let (c, l) := dec_cfg l in let (coop, l) := take_bool l in let (s, _) := dec_state c l in
  [b2z (gen_ok_b c coop s)].
(* @export lbf_gencheck_io *)

(* ---------- a concrete instance for the non-vacuity examples ---------- *)
Definition ex_cfg : cfg := mkC 5 2 2 1 3 true 0%Q false 2.
Definition ex_s0 : state :=
  mkS [mkA 0 1 0 1 false; mkA 1 2 2 2 false] [mkF 0 1 1 2 false; mkF 1 3 3 2 false] 0.
