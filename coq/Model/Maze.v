(* Executable model of jumanji/environments/routing/maze (env.py, generator.py, constants.py).
   Impl layer: [compute_mask], [step], [init], [gen_state] mirror the code;
   Rules layer: [free], [legal], [rule_step], [Physical], [reach].
   No proofs here (see Proofs/Maze.v).  The shared maze generator is in Model/MazeGen.v.     *)
Require Import JV.Base.Prelude JV.Base.JaxIndex JV.Base.Codec JV.Base.TimeStep JV.Model.MazeGen.

(* State: agent (row, col), target (row, col), walls[rows][cols], action_mask[4], step_count.
   The PRNG key carried by the state is never read by step. *)
Record state := mkS { ar : Z; ac : Z; tr : Z; tc : Z; walls : list (list bool); amask : list bool; sc : Z }.

(* constants.MOVES: Up, Right, Down, Left *)
Definition MOVES : list (Z * Z) := [(-1, 0); (0, 1); (1, 0); (0, -1)].

(* Maze.__init__ : self.time_limit = time_limit or num_rows * num_cols   (None / 0 are falsy; wire: 0) *)
Definition resolve_limit (rows cols opt : Z) : Z := if opt =? 0 then rows * cols else opt.

(* _compute_action_mask.is_move_valid : walls[row, col] is a gather (wraps a negative index once, clamps) *)
Definition move_valid (rows cols : Z) (w : list (list bool)) (r c : Z) (m : Z * Z) : bool :=
  let row := r + fst m in
  let col := c + snd m in
  (0 <=? row) && (row <? rows) && (0 <=? col) && (col <? cols) && negb (gget false w row col).

Definition compute_mask (rows cols : Z) (w : list (list bool)) (r c : Z) : list bool :=
  map (move_valid rows cols w r c) MOVES.

(* action = select(state.action_mask[action], action, 4); lax.switch clamps its index to [0, 4] *)
Definition effective_action (s : state) (a : Z) : Z :=
  let a' := if jget false (amask s) a then a else 4 in
  Z.max 0 (Z.min 4 a').

Definition move (r c k : Z) : Z * Z :=
  if k =? 0 then (r - 1, c) else if k =? 1 then (r, c + 1) else if k =? 2 then (r + 1, c)
  else if k =? 3 then (r, c - 1) else (r, c).

(* reward code = the float reward (0.0 / 1.0) *)
Definition step (rows cols T : Z) (s : state) (a : Z) : state * tstep :=
  let k := effective_action s a in
  let (r', c') := move (ar s) (ac s) k in
  let mask' := compute_mask rows cols (walls s) r' c' in
  let sc' := sc s + 1 in
  let no_actions := negb (existsb (fun b => b) mask') in
  let reached := (r' =? tr s) && (c' =? tc s) in
  let timeup := T <=? sc' in
  let done := no_actions || reached || timeup in
  (mkS r' c' (tr s) (tc s) (walls s) mask' sc', cond_done 1 done [b2z reached]).

(* reset: state from the generator, mask computed, restart timestep *)
Definition init (rows cols : Z) (w : list (list bool)) (r c tr0 tc0 : Z) : state * tstep :=
  (mkS r c tr0 tc0 w (compute_mask rows cols w r c) 0, restart 1).

(* RandomGenerator.__call__ over explicit draws: the two flat indices returned by
   jax.random.choice(..., (2,), replace=False, p=~walls.flatten()), then divmod by num_cols *)
Definition gen_positions (cols i1 i2 : Z) : (Z * Z) * (Z * Z) :=
  ((i1 / cols, i1 mod cols), (i2 / cols, i2 mod cols)).
Definition gen_init (rows cols : Z) (w : list (list bool)) (i1 i2 : Z) : state * tstep :=
  let '((r, c), (r2, c2)) := gen_positions cols i1 i2 in init rows cols w r c r2 c2.

(* ToyGenerator *)
Definition toy_walls : list (list bool) :=
  [[false; true; false; false; false]; [false; true; false; true; true]; [false; true; false; false; false];
   [false; false; false; true; true]; [false; false; false; false; false]].
Definition toy_init : state * tstep := init 5 5 toy_walls 0 0 0 4.

(* _observation_from_state: plain copies *)
Definition observe (s : state) : list Z :=
  [ar s; ac s; tr s; tc s] ++ concat (map unbools (walls s)) ++ [sc s] ++ unbools (amask s).

(* ---------------- declarative side (Rules) ---------------- *)
Definition dr (a : Z) : Z := if a =? 0 then -1 else if a =? 2 then 1 else 0.
Definition dc (a : Z) : Z := if a =? 1 then 1 else if a =? 3 then -1 else 0.

(* action a (0 Up, 1 Right, 2 Down, 3 Left) is legal: its destination cell is free *)
Definition legal (rows cols : Z) (w : list (list bool)) (r c a : Z) : Prop :=
  free rows cols w (r + dr a) (c + dc a).
Definition legal_b (rows cols : Z) (w : list (list bool)) (r c a : Z) : bool :=
  free_b rows cols w (r + dr a) (c + dc a).

(* C07: agent and target inside the grid and not on a wall; stored mask agrees with position + walls *)
Definition Physical (rows cols : Z) (s : state) : Prop :=
  wf_walls rows cols (walls s) /\ free rows cols (walls s) (ar s) (ac s)
  /\ free rows cols (walls s) (tr s) (tc s)
  /\ amask s = map (legal_b rows cols (walls s) (ar s) (ac s)) (zrange 4) /\ 0 <= sc s.
Definition Physical_b (rows cols : Z) (s : state) : bool :=
  wf_walls_b rows cols (walls s) && free_b rows cols (walls s) (ar s) (ac s)
  && free_b rows cols (walls s) (tr s) (tc s)
  && list_eqb Bool.eqb (amask s) (map (legal_b rows cols (walls s) (ar s) (ac s)) (zrange 4))
  && (0 <=? sc s).

(* the published rules: a legal move is taken, an illegal one is ignored; reward 1 on the target;
   the episode ends on the target, at the time limit, or when the agent is walled in *)
Definition rule_step (rows cols T : Z) (s : state) (a : Z) : state * tstep :=
  let ok := legal_b rows cols (walls s) (ar s) (ac s) a in
  let r' := if ok then ar s + dr a else ar s in
  let c' := if ok then ac s + dc a else ac s in
  let mask' := map (legal_b rows cols (walls s) r' c') (zrange 4) in
  let reached := (r' =? tr s) && (c' =? tc s) in
  let stuck := forallb (fun k => negb (legal_b rows cols (walls s) r' c' k)) (zrange 4) in
  let done := reached || (T <=? sc s + 1) || stuck in
  (mkS r' c' (tr s) (tc s) (walls s) mask' (sc s + 1),
   if done then termination 1 [b2z reached] else transition 1 [b2z reached]).

(* draws of the start/target choice: two distinct flat indices of free cells *)
Definition valid_draw (rows cols : Z) (w : list (list bool)) (i1 i2 : Z) : bool :=
  inb (rows * cols) i1 && inb (rows * cols) i2 && negb (i1 =? i2)
  && free_b rows cols w (i1 / cols) (i1 mod cols) && free_b rows cols w (i2 / cols) (i2 mod cols).

(* ---------------- wire format ---------------- *)
(* state := ar ac tr tc walls(rows*cols) mask(4) sc *)
Definition dec_state (rows cols : Z) (l : list Z) : state * list Z :=
  let (a, l) := take1 l in let (b, l) := take1 l in
  let (c, l) := take1 l in let (d, l) := take1 l in
  let (w, l) := take_grid rows cols l in
  let (m, l) := taken 4 l in
  let (k, l) := take1 l in
  (mkS a b c d (map bools w) (bools m) k, l).
(* out: ar ac tr tc mask(4) sc *)
Definition enc_state (s : state) : list Z := [ar s; ac s; tr s; tc s] ++ unbools (amask s) ++ [sc s].

(* in: rows cols time_limit_opt(0 = None) state action -> out: state', step_type, reward, discount, resolved limit *)
Definition maze_step_io (l : list Z) : list Z :=
  let (rows, l) := take1 l in let (cols, l) := take1 l in let (topt, l) := take1 l in
  let (s, l) := dec_state rows cols l in let (a, _) := take1 l in
  let T := resolve_limit rows cols topt in
  let (s', t) := step rows cols T s a in enc_state s' ++ enc_ts t ++ [T].
(* @export maze_step_io *)

(* the declarative rules on the same input (C09: compared with the implementation as well) *)
Definition maze_rule_io (l : list Z) : list Z :=
  let (rows, l) := take1 l in let (cols, l) := take1 l in let (topt, l) := take1 l in
  let (s, l) := dec_state rows cols l in let (a, _) := take1 l in
  let T := resolve_limit rows cols topt in
  let (s', t) := rule_step rows cols T s a in enc_state s' ++ enc_ts t ++ [T].
(* @export maze_rule_io *)

(* in: rows cols walls i1 i2 -> reset state, timestep, valid_draw *)
Definition maze_init_io (l : list Z) : list Z :=
  let (rows, l) := take1 l in let (cols, l) := take1 l in
  let (w, l) := take_grid rows cols l in
  let (i1, l) := take1 l in let (i2, _) := take1 l in
  let wb := map bools w in
  let (s, t) := gen_init rows cols wb i1 i2 in
  enc_state s ++ enc_ts t ++ [b2z (valid_draw rows cols wb i1 i2)].
(* @export maze_init_io *)

(* verified checkers on IMPLEMENTATION states:
   [Physical; mask == legal for the 4 actions; observation == observe(state) is compared in Python] *)
Definition maze_check_io (l : list Z) : list Z :=
  let (rows, l) := take1 l in let (cols, l) := take1 l in
  let (s, _) := dec_state rows cols l in
  [ b2z (Physical_b rows cols s);
    b2z (list_eqb Bool.eqb (amask s) (map (legal_b rows cols (walls s) (ar s) (ac s)) (zrange 4))) ]
  ++ observe s.
(* @export maze_check_io *)

(* toy generator: walls + positions *)
Definition maze_toy_io (l : list Z) : list Z :=
  let (s, t) := toy_init in concat (map unbools (walls s)) ++ enc_state s ++ enc_ts t.
(* @export maze_toy_io *)
