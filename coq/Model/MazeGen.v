(* Executable model of the shared recursive-division maze generator
   jumanji/environments/commons/maze_utils/{maze_generation.py, stack.py}, used by Maze and Cleaner.
   The generator is a function of explicit draws: one pair (wall offset, passage offset) per iteration of
   the while loop (the list of draws is the fuel).  The maze is modelled as a boolean grid
   (WALL = 1 = true, EMPTY = 0 = false; the callers do .astype(bool)), maze[height][width].
   Also here: the declarative notions shared by both environments ([free], [reach], [Connected]) and the
   verified connectivity checker [connected_b] (BFS with fuel).  No proofs here (see Proofs/MazeGen.v). *)
Require Import JV.Base.Prelude JV.Base.JaxIndex JV.Base.Codec.

(* ---------------- stack.py : fixed-capacity array + insertion index ---------------- *)
Record gstate := mkG { maze : list (list bool); sdata : list (list Z); sidx : Z }.

(* stack_push: data.at[insertion_index].set(element) (a scatter: dropped when out of range), index + 1 *)
Definition stack_push (data : list (list Z)) (idx : Z) (e : list Z) : list (list Z) * Z :=
  (jset data idx e, idx + 1).
(* stack_pop: element = data[insertion_index - 1] (a gather: clamped), index - 1 *)
Definition stack_top (data : list (list Z)) (idx : Z) : list Z := jget [0; 0; 0; 0] data (idx - 1).

(* create_chamber: pushed only when width > 1 and height > 1 *)
Definition create_chamber (st : list (list Z) * Z) (x y w h : Z) : list (list Z) * Z :=
  if (1 <? w) && (1 <? h) then stack_push (fst st) (snd st) [x; y; w; h] else st.

(* fori_loop(x, x + width, maze.at[y, i].set(WALL)) *)
Definition draw_hwall (m : list (list bool)) (x y width : Z) : list (list bool) :=
  fold_left (fun m i => gset m y i true) (zrange_from x (Z.to_nat width)) m.
Definition draw_vwall (m : list (list bool)) (x y height : Z) : list (list bool) :=
  fold_left (fun m i => gset m i x true) (zrange_from y (Z.to_nat height)) m.

(* split_next_chamber with the two random draws made explicit:
   wd = random_odd(wall_key, .), pd = random_even(passage_key, .) *)
Definition split_next (g : gstate) (wd pd : Z) : gstate :=
  let ch := stack_top (sdata g) (sidx g) in
  let st0 := (sdata g, sidx g - 1) in
  let x := znth 0 ch 0 in let y := znth 0 ch 1 in let w := znth 0 ch 2 in let h := znth 0 ch 3 in
  if h <=? w then
    (* split_horizontally: vertical wall at column x + wd, passage at row y + pd *)
    let wx := x + wd in
    let m1 := draw_vwall (maze g) wx y h in
    let st1 := create_chamber st0 x y wd h in
    let st2 := create_chamber st1 (wx + 1) y (w - wd - 1) h in
    mkG (gset m1 (y + pd) wx false) (fst st2) (snd st2)
  else
    (* split_vertically: horizontal wall at row y + wd, passage at column x + pd *)
    let wy := y + wd in
    let m1 := draw_hwall (maze g) x wy w in
    let st1 := create_chamber st0 x y w wd in
    let st2 := create_chamber st1 x (wy + 1) w (h - wd - 1) in
    mkG (gset m1 wy (x + pd) false) (fst st2) (snd st2).

(* create_empty_maze / create_chambers_stack *)
Definition gen_start (width height : Z) : gstate :=
  let data0 := repeat [0; 0; 0; 0] (Z.to_nat (width * height)) in
  let st := stack_push data0 0 [0; 0; width; height] in
  mkG (repeat (repeat false (Z.to_nat width)) (Z.to_nat height)) (fst st) (snd st).

(* while_loop(chambers_remaining, split_next_chamber): one draw pair per iteration *)
Fixpoint gen_loop (g : gstate) (draws : list (Z * Z)) : gstate * list (Z * Z) :=
  match draws with
  | [] => (g, [])
  | d :: r => if sidx g =? 0 then (g, draws) else gen_loop (split_next g (fst d) (snd d)) r
  end.
Definition generate_maze (width height : Z) (draws : list (Z * Z)) : gstate * list (Z * Z) :=
  gen_loop (gen_start width height) draws.

(* the chambers popped, in order (intermediate observable compared with the implementation) *)
Fixpoint gen_trace (g : gstate) (draws : list (Z * Z)) : list (list Z) :=
  match draws with
  | [] => []
  | d :: r => if sidx g =? 0 then [] else stack_top (sdata g) (sidx g) :: gen_trace (split_next g (fst d) (snd d)) r
  end.

(* random_odd(key, n) = randint(0, n // 2) * 2 + 1 ; random_even(key, n) = randint(0, (n + 1) // 2) * 2
   (randint over an empty range returns its lower bound) *)
Definition valid_odd (n d : Z) : bool := Z.odd d && (1 <=? d) && (d <=? Z.max 1 (2 * (n / 2) - 1)).
Definition valid_even (n d : Z) : bool := Z.even d && (0 <=? d) && (d <=? Z.max 0 (2 * ((n + 1) / 2) - 2)).
Definition valid_pair (ch : list Z) (d : Z * Z) : bool :=
  let w := znth 0 ch 2 in let h := znth 0 ch 3 in
  if h <=? w then valid_odd w (fst d) && valid_even h (snd d) else valid_odd h (fst d) && valid_even w (snd d).
Fixpoint draws_valid (g : gstate) (draws : list (Z * Z)) : bool :=
  match draws with
  | [] => true
  | d :: r => if sidx g =? 0 then true
              else valid_pair (stack_top (sdata g) (sidx g)) d && draws_valid (split_next g (fst d) (snd d)) r
  end.

(* the two pushes of an iteration fit in the fixed-capacity array (checked on every recorded run; the
   connectivity theorem of Proofs/MazeGenConn.v assumes it) *)
Fixpoint cap_ok (g : gstate) (draws : list (Z * Z)) : bool :=
  match draws with
  | [] => true
  | d :: r => if sidx g =? 0 then true
              else (sidx g + 1 <=? zlen (sdata g)) && cap_ok (split_next g (fst d) (snd d)) r
  end.

(* ---------------- declarative side ---------------- *)
(* a cell is free: on the grid and not a wall *)
Definition free (rows cols : Z) (w : list (list bool)) (r c : Z) : Prop :=
  0 <= r < rows /\ 0 <= c < cols /\ gat true w r c = false.
Definition free_b (rows cols : Z) (w : list (list bool)) (r c : Z) : bool :=
  inb rows r && inb cols c && negb (gat true w r c).

(* walls is a rows x cols array *)
Definition wf_walls (rows cols : Z) (w : list (list bool)) : Prop :=
  zlen w = rows /\ Forall (fun row => zlen row = cols) w.
Definition wf_walls_b (rows cols : Z) (w : list (list bool)) : bool :=
  (zlen w =? rows) && forallb (fun row => zlen row =? cols) w.

(* free cells p, q are connected by a path of 4-adjacent free cells *)
Definition adj4 (p q : Z * Z) : Prop :=
  (fst q = fst p /\ (snd q = snd p + 1 \/ snd q = snd p - 1)) \/
  (snd q = snd p /\ (fst q = fst p + 1 \/ fst q = fst p - 1)).
Inductive reach (rows cols : Z) (w : list (list bool)) : Z * Z -> Z * Z -> Prop :=
| reach_refl p : free rows cols w (fst p) (snd p) -> reach rows cols w p p
| reach_step p q t : free rows cols w (fst p) (snd p) -> adj4 p q -> reach rows cols w q t -> reach rows cols w p t.

(* every free cell is reachable from the origin *)
Definition Connected (rows cols : Z) (w : list (list bool)) : Prop :=
  free rows cols w 0 0 /\ forall r c, free rows cols w r c -> reach rows cols w (0, 0) (r, c).

(* --- verified connectivity checker: breadth-first search from (0,0) with fuel --- *)
Definition cell_eqb (p q : Z * Z) : bool := (fst p =? fst q) && (snd p =? snd q).
Definition cmem (p : Z * Z) (l : list (Z * Z)) : bool := existsb (cell_eqb p) l.
Definition nbrs (p : Z * Z) : list (Z * Z) :=
  [(fst p - 1, snd p); (fst p, snd p + 1); (fst p + 1, snd p); (fst p, snd p - 1)].
Fixpoint add_new (rows cols : Z) (w : list (list bool)) (cands : list (Z * Z)) (front vis : list (Z * Z))
  : list (Z * Z) * list (Z * Z) :=
  match cands with
  | [] => (front, vis)
  | q :: r => if free_b rows cols w (fst q) (snd q) && negb (cmem q vis)
              then add_new rows cols w r (front ++ [q]) (q :: vis)
              else add_new rows cols w r front vis
  end.
Fixpoint bfs (rows cols : Z) (w : list (list bool)) (fuel : nat) (front vis : list (Z * Z)) : list (Z * Z) :=
  match fuel with
  | O => vis
  | S f => match front with
           | [] => vis
           | p :: rest => let (front', vis') := add_new rows cols w (nbrs p) rest vis in
                          bfs rows cols w f front' vis'
           end
  end.
Definition all_cells (rows cols : Z) : list (Z * Z) :=
  concat (map (fun r => map (fun c => (r, c)) (zrange cols)) (zrange rows)).
Definition connected_b (rows cols : Z) (w : list (list bool)) : bool :=
  free_b rows cols w 0 0 &&
  let vis := bfs rows cols w (Z.to_nat (rows * cols + 1)) [(0, 0)] [(0, 0)] in
  forallb (fun p => negb (free_b rows cols w (fst p) (snd p)) || cmem p vis) (all_cells rows cols).


(* walls appear only on cells having an odd coordinate *)
Definition even_free_b (rows cols : Z) (w : list (list bool)) : bool :=
  forallb (fun p => negb (Z.even (fst p) && Z.even (snd p)) || free_b rows cols w (fst p) (snd p)) (all_cells rows cols).

(* ---------------- wire ---------------- *)
Fixpoint dec_pairs (n : nat) (l : list Z) : list (Z * Z) :=
  match n with O => [] | S n' => let (a, l) := take1 l in let (b, l) := take1 l in (a, b) :: dec_pairs n' l end.

(* in: width height ndraws (wd pd)*  ->
   out: finished(stack empty), leftover draws, draws valid, no stack overflow, maze (height*width), popped chambers (4 each) *)
Definition mazegen_gen_io (l : list Z) : list Z :=
  let (width, l) := take1 l in let (height, l) := take1 l in let (n, l) := take1 l in
  let draws := dec_pairs (Z.to_nat n) l in
  let g0 := gen_start width height in
  let (g, rest) := gen_loop g0 draws in
  [b2z (sidx g =? 0); zlen rest; b2z (draws_valid g0 draws); b2z (cap_ok g0 draws)]
  ++ concat (map unbools (maze g)) ++ concat (gen_trace g0 draws).
(* @export mazegen_gen_io *)

(* in: rows cols walls -> [connected_b; origin free; number of free cells] *)
Definition mazegen_connected_io (l : list Z) : list Z :=
  let (rows, l) := take1 l in let (cols, l) := take1 l in
  let (w, _) := take_grid rows cols l in
  let wb := map bools w in
  [ b2z (connected_b rows cols wb); b2z (free_b rows cols wb 0 0);
    count_if (fun p => free_b rows cols wb (fst p) (snd p)) (all_cells rows cols);
    b2z (even_free_b rows cols wb) ].
(* @export mazegen_connected_io *)

