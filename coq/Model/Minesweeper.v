(* Executable model of jumanji/environments/logic/minesweeper (env.py, utils.py, done.py, reward.py,
   generator.py).  Impl layer: mirrors the arrays the code builds (scatter of the flat mine locations,
   reshape, jnp.pad by PATCH_SIZE-1 = 2, two dynamic_slice_in_dim of size 3, minus the centre), with the
   JAX index semantics of Base/JaxIndex written out.  The declarative side ([is_mine], [adj_count],
   [legal], [rules_step], [Phys_b] ...) is below.  No proofs here (see Proofs/Minesweeper*.v).

   Sizes rows / cols / number of mines are arbitrary parameters.  The reward function is the shipped
   DefaultRewardFn with its three constants as integer codes (re = revealed empty square, rm = revealed
   mine, ri = invalid action; the environment's default is 1, 0, 0; the harness sends the float x 4 so that
   dyadic custom constants stay exact -- the model only ever SELECTS one of the three codes).          *)
Require Import JV.Base.Prelude JV.Base.JaxIndex JV.Base.Codec JV.Base.TimeStep.

Record state := mkS { board : list (list Z); step_count : Z; mines : list Z }.
Record rcfg := mkR { r_empty : Z; r_mine : Z; r_invalid : Z }.
Definition default_rcfg := mkR 1 0 0.

(* ---------- utils.py ---------- *)
(* get_mined_board: zeros(rows*cols).at[flat_mine_locations].set(IS_MINE) *)
Definition mined_flat (rows cols : Z) (ms : list Z) : list Z :=
  fold_left (fun b i => jset b i 1) ms (repeat 0 (Z.to_nat (rows * cols))).

(* .reshape(rows, cols), row-major *)
Definition reshape (rows cols : Z) (flat : list Z) : list (list Z) :=
  map (fun r => map (fun c => znth 0 flat (r * cols + c)) (zrange cols)) (zrange rows).

(* jnp.pad(g, pad_width=p) with zeros, g of shape rows x cols *)
Definition pad (p rows cols : Z) (g : list (list Z)) : list (list Z) :=
  map (fun i => map (fun j => if inb rows (i - p) && inb cols (j - p) then gat 0 g (i - p) (j - p) else 0)
                    (zrange (cols + 2 * p))) (zrange (rows + 2 * p)).

(* jax.lax.dynamic_slice_in_dim(l, start, size): the start is normalised then clamped to [0, n-size] *)
Definition dslice {A} (l : list A) (start size : Z) : list A :=
  firstn_z size (skipn_z (dyn_start (zlen l) size start) l).

Definition mined_grid (rows cols : Z) (ms : list Z) : list (list Z) := reshape rows cols (mined_flat rows cols ms).

(* count_adjacent_mines(state, action) *)
Definition count_adjacent (rows cols : Z) (ms : list Z) (r c : Z) : Z :=
  let mb := mined_grid rows cols ms in
  let pb := pad 2 rows cols mb in
  let sel := dslice pb (r + 1) 3 in
  zsum (map (fun row => zsum (dslice row (c + 1) 3)) sel) - gget 0 mb r c.

(* is_valid_action: state.board[tuple(action)] == UNEXPLORED_ID  (gather: clamps) *)
Definition is_valid_action (b : list (list Z)) (r c : Z) : bool := gget 0 b r c =? -1.
(* explored_mine: mined_board[col + row * num_cols] == IS_MINE *)
Definition explored_mine (rows cols : Z) (ms : list Z) (r c : Z) : bool :=
  jget 0 (mined_flat rows cols ms) (c + r * cols) =? 1.
(* is_solved: (board >= 0).sum() == rows*cols - num_mines *)
Definition num_explored (b : list (list Z)) : Z := zsum (map (count_if (fun v => 0 <=? v)) b).
Definition is_solved (rows cols : Z) (b : list (list Z)) (ms : list Z) : bool :=
  num_explored b =? rows * cols - zlen ms.

Definition reward_fn (rc : rcfg) (valid mine : bool) : Z :=
  if valid then (if mine then r_mine rc else r_empty rc) else r_invalid rc.

(* env.step *)
Definition step (rc : rcfg) (rows cols : Z) (s : state) (r c : Z) : state * tstep :=
  let board' := gset (board s) r c (count_adjacent rows cols (mines s) r c) in
  let s' := mkS board' (step_count s + 1) (mines s) in
  let valid := is_valid_action (board s) r c in
  let mine := explored_mine rows cols (mines s) r c in
  let done := negb valid || mine || is_solved rows cols board' (mines s) in
  (s', cond_done 1 done [reward_fn rc valid mine]).

(* _state_to_observation: board, board == -1, num_mines, step_count *)
Definition action_mask (b : list (list Z)) : list (list bool) := map (map (fun v => v =? -1)) b.

(* generator.__call__ on the explicit draw [locs] of create_flat_mine_locations (choice without replacement) *)
Definition init (rows cols : Z) (locs : list Z) : state * tstep :=
  (mkS (repeat (repeat (-1) (Z.to_nat cols)) (Z.to_nat rows)) 0 locs, restart 1).

(* the sampler's contract: num_mines DISTINCT flat locations inside the board *)
Fixpoint nodup_b (l : list Z) : bool :=
  match l with [] => true | x :: t => negb (existsb (Z.eqb x) t) && nodup_b t end.
Definition valid_draw (rows cols nm : Z) (locs : list Z) : bool :=
  (zlen locs =? nm) && forallb (fun i => inb (rows * cols) i) locs && nodup_b locs.

(* ---------- declarative side ---------- *)
(* square (r,c) of a rows x cols board carries a mine *)
Definition is_mine (rows cols : Z) (ms : list Z) (r c : Z) : bool :=
  inb rows r && inb cols c && existsb (Z.eqb (r * cols + c)) ms.
Definition offsets8 : list (Z * Z) := [(-1,-1); (-1,0); (-1,1); (0,-1); (0,1); (1,-1); (1,0); (1,1)].
(* the number of mined squares among the (at most) 8 neighbours *)
Definition adj_count (rows cols : Z) (ms : list Z) (r c : Z) : Z :=
  zsum (map (fun d => b2z (is_mine rows cols ms (r + fst d) (c + snd d))) offsets8).

Definition cell (b : list (list Z)) (r c : Z) : Z := gat 0 b r c.
Definition legal (b : list (list Z)) (r c : Z) : Prop := cell b r c = -1.
Definition legal_b (b : list (list Z)) (r c : Z) : bool := cell b r c =? -1.

(* sum over all squares *)
Definition sum_cells (rows cols : Z) (f : Z -> Z -> Z) : Z :=
  zsum (map (fun r => zsum (map (fun c => f r c) (zrange cols))) (zrange rows)).
Definition revealed (rows cols : Z) (b : list (list Z)) : Z :=
  sum_cells rows cols (fun r c => b2z (0 <=? cell b r c)).
(* the documented objective: safe (non-mined) squares revealed *)
Definition safe_revealed (rows cols : Z) (s : state) : Z :=
  sum_cells rows cols (fun r c => b2z ((0 <=? cell (board s) r c) && negb (is_mine rows cols (mines s) r c))).

Definition shape_b (rows cols : Z) (b : list (list Z)) : bool :=
  (zlen b =? rows) && forallb (fun row => zlen row =? cols) b.
(* physical consistency: shape, the mine set is a valid draw, every revealed square shows the true count *)
Definition Phys_b (rows cols nm : Z) (s : state) : bool :=
  shape_b rows cols (board s) && valid_draw rows cols nm (mines s)
  && forallb (fun r => forallb (fun c =>
        (cell (board s) r c =? -1) || (cell (board s) r c =? adj_count rows cols (mines s) r c)) (zrange cols)) (zrange rows).
(* non-terminal consistency: no revealed mine, the step counter counts the revealed squares, not yet solved *)
Definition Safe_b (rows cols : Z) (s : state) : bool :=
  forallb (fun r => forallb (fun c =>
        negb ((0 <=? cell (board s) r c) && is_mine rows cols (mines s) r c)) (zrange cols)) (zrange rows)
  && (step_count s =? revealed rows cols (board s))
  && (revealed rows cols (board s) <? rows * cols - zlen (mines s)).

(* the published rules, stated directly *)
Definition rules_step (rc : rcfg) (rows cols : Z) (s : state) (r c : Z) : state * tstep :=
  let b' := if legal_b (board s) r c then gset (board s) r c (adj_count rows cols (mines s) r c) else board s in
  let s' := mkS b' (step_count s + 1) (mines s) in
  if negb (legal_b (board s) r c) then (s', termination 1 [r_invalid rc])
  else if is_mine rows cols (mines s) r c then (s', termination 1 [r_mine rc])
  else if revealed rows cols b' =? rows * cols - zlen (mines s) then (s', termination 1 [r_empty rc])
  else (s', transition 1 [r_empty rc]).

(* revealed squares that carry a mine (0, or 1 in the terminal state of a lost game) *)
Definition mine_revealed (rows cols : Z) (s : state) : Z :=
  sum_cells rows cols (fun r c => b2z ((0 <=? cell (board s) r c) && is_mine rows cols (mines s) r c)).
(* number of mined squares of the board *)
Definition mined_squares (rows cols : Z) (ms : list Z) : Z :=
  sum_cells rows cols (fun r c => b2z (is_mine rows cols ms r c)).
(* the value ranges announced by observation_spec: board in [-1, 8], step_count in [0, rows*cols - num_mines] *)
Definition spec_ok_b (rows cols nm : Z) (s : state) : bool :=
  forallb (fun r => forallb (fun c => (-1 <=? cell (board s) r c) && (cell (board s) r c <=? 8)) (zrange cols)) (zrange rows)
  && (0 <=? step_count s) && (step_count s <=? rows * cols - nm).
Definition in_spec (rows cols : Z) (a : Z * Z) : bool := inb rows (fst a) && inb cols (snd a).

(* an episode: the steps up to and including the first LAST *)
Fixpoint run (rc : rcfg) (rows cols : Z) (s : state) (acts : list (Z * Z)) : list (state * tstep) :=
  match acts with
  | [] => []
  | a :: rest => let p := step rc rows cols s (fst a) (snd a) in
                 p :: (if st (snd p) =? LAST then [] else run rc rows cols (fst p) rest)
  end.
Definition ret (tr : list (state * tstep)) : Z := zsum (map (fun p => zsum (reward (snd p))) tr).
Definition final (s : state) (tr : list (state * tstep)) : state := fst (last tr (s, restart 1)).

(* ---------- wire format ---------- *)
Definition dec_state (rows cols nm : Z) (l : list Z) : state * list Z :=
  let (b, l) := take_grid rows cols l in
  let (k, l) := take1 l in
  let (m, l) := taken nm l in
  (mkS b k m, l).
Definition enc_state (s : state) : list Z := concat (board s) ++ [step_count s] ++ mines s.
Definition enc_obs (nm : Z) (s : state) : list Z :=
  concat (board s) ++ concat (map unbools (action_mask (board s))) ++ [nm; step_count s].

Definition dec_cfg (l : list Z) : (Z * Z * Z * rcfg) * list Z :=
  let (rows, l) := take1 l in let (cols, l) := take1 l in let (nm, l) := take1 l in
  let (a, l) := take1 l in let (b, l) := take1 l in let (c, l) := take1 l in
  ((rows, cols, nm, mkR a b c), l).

(* in: rows cols nm re rm ri, state, r, c -> board', step_count', step_type reward discount, observation *)
Definition minesweeper_step_io (l : list Z) : list Z :=
  let '((rows, cols, nm, rc), l) := dec_cfg l in
  let (s, l) := dec_state rows cols nm l in
  let (r, l) := take1 l in let (c, _) := take1 l in
  let (s', t) := step rc rows cols s r c in
  enc_state s' ++ enc_ts t ++ enc_obs nm s'.
(* @export minesweeper_step_io *)

(* the same transition through the declarative rules *)
Definition minesweeper_rules_io (l : list Z) : list Z :=
  let '((rows, cols, nm, rc), l) := dec_cfg l in
  let (s, l) := dec_state rows cols nm l in
  let (r, l) := take1 l in let (c, _) := take1 l in
  let (s', t) := rules_step rc rows cols s r c in
  enc_state s' ++ enc_ts t.
(* @export minesweeper_rules_io *)

(* in: cfg, drawn locations -> reset state, timestep, observation *)
Definition minesweeper_init_io (l : list Z) : list Z :=
  let '((rows, cols, nm, rc), l) := dec_cfg l in
  let (locs, _) := taken nm l in
  let (s, t) := init rows cols locs in
  enc_state s ++ enc_ts t ++ enc_obs nm s ++ [b2z (valid_draw rows cols nm locs)].
(* @export minesweeper_init_io *)

(* verified checkers on IMPLEMENTATION states:
   [Phys_b; Safe_b; safe_revealed; revealed; mask = legal_b everywhere; mine_revealed; mined_squares; spec_ok_b] *)
Definition minesweeper_check_io (l : list Z) : list Z :=
  let '((rows, cols, nm, rc), l) := dec_cfg l in
  let (s, _) := dec_state rows cols nm l in
  [ b2z (Phys_b rows cols nm s); b2z (Safe_b rows cols s); safe_revealed rows cols s; revealed rows cols (board s);
    b2z (list_eqb (list_eqb Bool.eqb) (action_mask (board s))
           (map (fun r => map (fun c => legal_b (board s) r c) (zrange cols)) (zrange rows)));
    mine_revealed rows cols s; mined_squares rows cols (mines s); b2z (spec_ok_b rows cols nm s) ].
(* @export minesweeper_check_io *)

Fixpoint dec_acts (n : nat) (l : list Z) : list (Z * Z) :=
  match n, l with S n', r :: c :: t => (r, c) :: dec_acts n' t | _, _ => [] end.
(* in: cfg, drawn locations, k, k actions (r c) -> the model's whole episode from reset:
   [number of steps until the first LAST (or k); return; last step type; safe_revealed, mine_revealed of the final state;
    final step_count; all actions in spec] *)
Definition minesweeper_episode_io (l : list Z) : list Z :=
  let '((rows, cols, nm, rc), l) := dec_cfg l in
  let (locs, l) := taken nm l in
  let (k, l) := take1 l in
  let acts := dec_acts (Z.to_nat k) l in
  let s0 := fst (init rows cols locs) in
  let tr := run rc rows cols s0 acts in
  let sf := final s0 tr in
  [ zlen tr; ret tr; st (snd (last tr (s0, restart 1))); safe_revealed rows cols sf; mine_revealed rows cols sf;
    step_count sf; b2z (forallb (in_spec rows cols) acts) ].
(* @export minesweeper_episode_io *)

(* in: cfg, mine locations -> for every square the number the code would reveal (count_adjacent, padded
   dynamic_slice) followed by the declarative adj_count of every square *)
Definition minesweeper_counts_io (l : list Z) : list Z :=
  let '((rows, cols, nm, rc), l) := dec_cfg l in
  let (ms, _) := taken nm l in
  concat (map (fun r => map (fun c => count_adjacent rows cols ms r c) (zrange cols)) (zrange rows))
  ++ concat (map (fun r => map (fun c => adj_count rows cols ms r c) (zrange cols)) (zrange rows)).
(* @export minesweeper_counts_io *)
