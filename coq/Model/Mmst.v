(* Executable model of jumanji/environments/routing/mmst (env.py, utils.py, generator.py, reward.py).
   Impl layer: [step] (tie-break loop over an explicit permutation draw, already-traversed relabelling,
   per-agent move, update_active_edges, make_action_mask (with the updated finished flags), DenseRewardFn,
   get_finished_agents, termination), [init] (SplitRandomGenerator.__call__ after the graph is built),
   [obs_types] (_state_to_observation), generator [gen_graph] over explicit draws.
   Declarative layer: [legal_move], [blocked], [Excl], [conn_from], [view] with boolean twins.
   No proofs here (see Proofs/Mmst*.v).                                                              *)
Require Import JV.Base.Prelude JV.Base.JaxIndex JV.Base.Codec JV.Base.TimeStep.

Definition tab {A} (n : Z) (f : Z -> A) : list A := map f (zrange n).

(* A agents, N nodes, K nodes per agent, M = generator max_step (row length of connected_nodes),
   T = env time_limit, reward codes (connected, time step, noop) *)
Record cfg := mkC { cA : Z; cN : Z; cK : Z; cM : Z; cT : Z; rc : Z; rt : Z; rn : Z }.

Record state := mkS {
  ntypes : list Z;              (* (N)  -1 utility, else owning agent *)
  adjm : list (list Z);         (* (N,N) 0/1 *)
  conn : list (list Z);         (* (A,M) route, -1 padded *)
  cidx : list (list Z);         (* (A,N) cidx[a][j] = j if a visited j else -1 *)
  ntc : list (list Z);          (* (A,K) nodes to connect *)
  edges : list (list (list Z)); (* (A,N,N) e[a][i][j] = j (active edge) or -1 *)
  pos : list Z;                 (* (A) *)
  pidx : list Z;                (* (A) *)
  amask : list (list bool);     (* (A,N) *)
  fin : list bool;              (* (A) *)
  sc : Z }.

Definition INVALID_CHOICE := -1.
Definition INVALID_TIE_BREAK := -2.
Definition INVALID_ALREADY_TRAVERSED := -3.
Definition DUMMY_NODE := -10.

(* ---------- _trim_duplicated_invalid_actions ---------- *)
(* nodes = vmap(node_edges[position, action]) : gathers clamp / wrap *)
Definition target (s : state) (acts : list Z) (a : Z) : Z :=
  gget (-1) (znth [] (edges s) a) (znth 0 (pos s) a) (znth 0 acts a).

(* one iteration of the while loop: agent_i = perm[index] *)
Definition tb_step (nodes acts : list Z) (st : list Z * list Z) (i : Z) : list Z * list Z :=
  let (added, newa) := st in
  let v := jget (-1) nodes i in
  let inval := v =? -1 in
  let notsel := negb (existsb (Z.eqb v) added) in
  match inval, notsel with
  | false, false => (jset added i INVALID_TIE_BREAK, jset newa i INVALID_TIE_BREAK)
  | false, true => (jset added i v, jset newa i (jget 0 acts i))
  | true, _ => (added, newa)
  end.

Definition tie_break (A : Z) (nodes acts perm : list Z) : list Z * list Z :=
  fold_left (tb_step nodes acts) perm (repeat DUMMY_NODE (Z.to_nat A), repeat INVALID_CHOICE (Z.to_nat A)).

(* mask_visited_nodes + finished masking:  final * ~finished - finished.
   node_visited = where(nodes[agent] == EMPTY_NODE, EMPTY_NODE, connected_nodes_index[agent, nodes[agent]])
   (fix 49322d14: an invalid choice no longer wraps to node N-1) *)
Definition final_act (s : state) (nodes newa : list Z) (a : Z) : Z :=
  if znth false (fin s) a then -1
  else if negb (znth (-1) nodes a =? -1) && negb (jget (-1) (znth [] (cidx s) a) (znth (-1) nodes a) =? -1)
       then INVALID_ALREADY_TRAVERSED
  else znth (-1) newa a.

(* step_agent_fn's is_valid *)
Definition moves (fa node : Z) : bool :=
  negb ((fa =? INVALID_CHOICE) || (fa =? INVALID_TIE_BREAK)) && negb (node =? -1).

(* ---------- utils.update_active_edges / make_action_mask ---------- *)
Definition blockers (A : Z) (nty pos' : list Z) (b : Z) : list Z :=
  map (fun a => znth 0 pos' a)
      (filter (fun a => negb (a =? b) && (jget 0 nty (znth 0 pos' a) =? -1)) (zrange A)).
Definition mask_edges (bl : list Z) (e : list (list Z)) : list (list Z) :=
  map (map (fun v => if existsb (Z.eqb v) bl then -1 else v)) e.
Definition update_active (A : Z) (nty pos' : list Z) (es : list (list (list Z))) : list (list (list Z)) :=
  tab A (fun b => mask_edges (blockers A nty pos' b) (znth [] es b)).
Definition make_mask (A : Z) (es : list (list (list Z))) (pos' : list Z) (finm : list bool) : list (list bool) :=
  tab A (fun a => map (fun v => negb (v =? -1) && negb (znth false finm a)) (jget [] (znth [] es a) (znth 0 pos' a))).

(* ---------- reward.DenseRewardFn (per agent, then summed) ---------- *)
Definition agent_reward (c : cfg) (ntc_a : list Z) (fa p : Z) (finished : bool) : Z :=
  if finished then 0
  else if existsb (Z.eqb p) ntc_a && (INVALID_CHOICE <? fa)
       then rc c - b2z (fa =? INVALID_TIE_BREAK) * rc c
       else rt c + b2z (fa =? INVALID_CHOICE) * rn c - b2z (fa =? INVALID_TIE_BREAK) * rt c.

(* get_finished_agents *)
Definition finished_agent (K : Z) (ntc_a conn_a : list Z) : bool :=
  count_if (fun k => existsb (Z.eqb k) conn_a) ntc_a =? K.

Definition all_true (l : list bool) : bool := forallb (fun b => b) l.

(* the resolved actions and target nodes of a step (draw = the agent permutation) *)
Definition nodes_of (c : cfg) (s : state) (acts : list Z) : list Z := tab (cA c) (target s acts).
Definition finals_of (c : cfg) (s : state) (acts perm : list Z) : list Z :=
  let nodes := nodes_of c s acts in
  let newa := snd (tie_break (cA c) nodes acts perm) in
  tab (cA c) (final_act s nodes newa).

Definition step (c : cfg) (s : state) (acts perm : list Z) : state * tstep :=
  let A := cA c in
  let nodes := nodes_of c s acts in
  let fas := finals_of c s acts perm in
  let mv a := moves (znth (-1) fas a) (znth (-1) nodes a) in
  let conn' := tab A (fun a => if mv a then jset (znth [] (conn s) a) (znth 0 (pidx s) a + 1) (znth (-1) nodes a)
                               else znth [] (conn s) a) in
  let cidx' := tab A (fun a => if mv a then jset (znth [] (cidx s) a) (znth (-1) nodes a) (znth (-1) nodes a)
                               else znth [] (cidx s) a) in
  let pos' := tab A (fun a => if mv a then znth (-1) nodes a else znth 0 (pos s) a) in
  let pidx' := tab A (fun a => if mv a then znth 0 (pidx s) a + 1 else znth 0 (pidx s) a) in
  let edges' := update_active A (ntypes s) pos' (edges s) in
  let rew := zsum (tab A (fun a => agent_reward c (znth [] (ntc s) a) (znth (-1) fas a) (znth 0 pos' a) (znth false (fin s) a))) in
  let fin' := tab A (fun a => finished_agent (cK c) (znth [] (ntc s) a) (znth [] conn' a)) in
  (* fix aa74bf17: _state_to_timestep rebuilds the mask with the UPDATED finished flags *)
  let amask' := make_mask A edges' pos' fin' in
  let sc' := sc s + 1 in
  let done := all_true fin' || (cT c <=? sc') in
  (mkS (ntypes s) (adjm s) conn' cidx' (ntc s) edges' pos' pidx' amask' fin' sc', cond_done 1 done [rew]).

(* ---------- SplitRandomGenerator.__call__ once the graph (base node_edges, adj) and the per-agent
   component choices [comps] (A rows of K distinct nodes of the agent's sub-graph) are drawn ---------- *)
Definition set_types (nty : list Z) (comps : list (list Z)) : list Z :=
  fst (fold_left (fun (st : list Z * Z) comp => let (t, a) := st in (fold_left (fun t k => jset t k a) comp t, a + 1))
                 comps (nty, 0)).
Definition init (c : cfg) (base : list (list Z)) (adj0 : list (list Z)) (comps : list (list Z)) : state * tstep :=
  let A := cA c in
  let nty := set_types (repeat (-1) (Z.to_nat (cN c))) comps in
  let start a := jget 0 (znth [] comps a) 0 in
  let pos0 := tab A start in
  let conn0 := tab A (fun a => jset (repeat (-1) (Z.to_nat (cM c))) 0 (start a)) in
  let cidx0 := tab A (fun a => jset (repeat (-1) (Z.to_nat (cN c))) (start a) (start a)) in
  let edges0 := update_active A nty pos0 (repeat base (Z.to_nat A)) in
  let fin0 := repeat false (Z.to_nat A) in
  (mkS nty adj0 conn0 cidx0 comps edges0 pos0 (repeat 0 (Z.to_nat A)) (make_mask A edges0 pos0 fin0) fin0 0, restart 1).

(* ---------- _state_to_observation : node_types view (agent_id = 0) ---------- *)
Definition obs_base (A t : Z) : Z := if t =? -1 then -1 else (t mod A) * 2 + 1.
Definition obs_types (c : cfg) (s : state) : list Z :=
  fold_left (fun (nt : list Z) a =>
               map (fun p : Z * Z => if negb (snd p =? -1) then 2 * (a mod cA c) else fst p) (combine nt (znth [] (cidx s) a)))
            (zrange (cA c)) (map (obs_base (cA c)) (ntypes s)).

(* ================= declarative side ================= *)
Definition base_adj (s : state) (i j : Z) : bool := gat 0 (adjm s) i j =? 1.
Definition visited (s : state) (a j : Z) : bool := negb (gat (-1) (cidx s) a j =? -1).
Definition utility (s : state) (j : Z) : bool := znth 0 (ntypes s) j =? -1.
(* j is a utility node already used by another agent *)
Definition blocked (A : Z) (s : state) (a j : Z) : bool :=
  utility s j && existsb (fun b => negb (b =? a) && visited s b j) (zrange A).
(* rules: agent a may move to j iff j is a neighbour of its position and not a utility node used by another agent *)
Definition legal_move (A : Z) (s : state) (a j : Z) : bool :=
  base_adj s (znth 0 (pos s) a) j && negb (blocked A s a j).
Definition eat (s : state) (a i j : Z) : Z := znth (-1) (znth [] (znth [] (edges s) a) i) j.

(* active edges = base graph minus edges into utility nodes used by others *)
Definition edges_ok_b (A N : Z) (s : state) : bool :=
  forallb (fun a => forallb (fun i => forallb (fun j =>
     eat s a i j =? (if base_adj s i j && negb (blocked A s a j) then j else -1)) (zrange N)) (zrange N)) (zrange A).
(* mask computed with finished flags [finm] *)
Definition mask_ok_b (A N : Z) (finm : list bool) (s : state) : bool :=
  forallb (fun a => forallb (fun j =>
     Bool.eqb (gat false (amask s) a j) (negb (znth false finm a) && legal_move A s a j)) (zrange N)) (zrange A).
(* C06: a utility node is used by at most one agent *)
Definition excl_b (A N : Z) (s : state) : bool :=
  forallb (fun j => negb (utility s j) ||
     forallb (fun a => forallb (fun b => (a =? b) || negb (visited s a j && visited s b j)) (zrange A)) (zrange A)) (zrange N).
Definition Excl (A N : Z) (s : state) : Prop :=
  forall j a b, 0 <= j < N -> 0 <= a < A -> 0 <= b < A -> utility s j = true ->
                visited s a j = true -> visited s b j = true -> a = b.

(* connectivity of a node set from a start inside the set *)
Inductive conn_from (adj : Z -> Z -> bool) (vis : Z -> bool) (st : Z) : Z -> Prop :=
| cf_start : vis st = true -> conn_from adj vis st st
| cf_step u v : conn_from adj vis st u -> vis v = true -> adj u v = true -> conn_from adj vis st v.

(* BFS closure with fuel: R := R + {v allowed | exists u in R, adj u v} *)
Definition bfs_round (N : Z) (adj : Z -> Z -> bool) (vis : Z -> bool) (R : list Z) : list Z :=
  R ++ filter (fun v => vis v && negb (existsb (Z.eqb v) R) && existsb (fun u => adj u v) R) (zrange N).
Fixpoint bfs (fuel : nat) (N : Z) (adj : Z -> Z -> bool) (vis : Z -> bool) (R : list Z) : list Z :=
  match fuel with O => R | S f => bfs f N adj vis (bfs_round N adj vis R) end.
Definition connected_b (N : Z) (adj : Z -> Z -> bool) (vis : Z -> bool) (st : Z) : bool :=
  vis st && (let R := bfs (Z.to_nat N) N adj vis [st] in
             forallb (fun v => negb (vis v) || existsb (Z.eqb v) R) (zrange N)).
(* the nodes an agent has connected form a connected set containing its start (= conn[a][0]) *)
Definition route_connected_b (A N : Z) (s : state) : bool :=
  forallb (fun a => connected_b N (base_adj s) (visited s a) (znth (-1) (znth [] (conn s) a) 0)) (zrange A).
(* every entry of the route array is a visited node, the position is visited *)
Definition route_ok_b (A : Z) (s : state) : bool :=
  forallb (fun a => visited s a (znth 0 (pos s) a)
                    && forallb (fun x => (x =? -1) || visited s a x) (znth [] (conn s) a)) (zrange A).

(* observation: declarative relabelling.  owner = the LAST agent that has the node in its route *)
Definition last_visitor (A : Z) (s : state) (j : Z) : option Z :=
  fold_left (fun o a => if visited s a j then Some a else o) (zrange A) None.
Definition view (A : Z) (s : state) (j : Z) : Z :=
  match last_visitor A s j with
  | Some a => 2 * a
  | None => let t := znth (-1) (ntypes s) j in if t =? -1 then -1 else 2 * t + 1
  end.

(* shapes and ranges *)
Definition len_is {X} (n : Z) (l : list X) : bool := zlen l =? n.
Definition shape_ok_b (c : cfg) (s : state) : bool :=
  let A := cA c in let N := cN c in
  len_is N (ntypes s) && len_is N (adjm s) && forallb (len_is N) (adjm s)
  && len_is A (conn s) && forallb (len_is (cM c)) (conn s)
  && len_is A (cidx s) && forallb (len_is N) (cidx s)
  && len_is A (ntc s) && forallb (len_is (cK c)) (ntc s)
  && len_is A (edges s) && forallb (fun e => len_is N e && forallb (len_is N) e) (edges s)
  && len_is A (pos s) && len_is A (pidx s) && len_is A (amask s) && forallb (len_is N) (amask s) && len_is A (fin s)
  && forallb (fun p => (0 <=? p) && (p <? N)) (pos s)
  && forallb (fun t => (-1 <=? t) && (t <? A)) (ntypes s)
  && forallb (forallb (fun k => (0 <=? k) && (k <? N))) (ntc s)
  && forallb (fun a => forallb (fun j => let v := gat (-1) (cidx s) a j in (v =? -1) || (v =? j)) (zrange N)) (zrange A).

(* generated instance (C10): symmetric loop-free 0/1 adjacency, node_edges = adjacency, each agent's required
   nodes lie in its own block [lo_a, hi_a) of array_split(arange N, A), and every block induces a connected graph *)
Definition split_lo (A N a : Z) : Z := a * (N / A) + Z.min a (N mod A).
Definition in_block (A N a v : Z) : bool := (split_lo A N a <=? v) && (v <? split_lo A N (a + 1)).
Definition sym_loopless_b (N : Z) (adj : list (list Z)) : bool :=
  forallb (fun i => (gat 0 adj i i =? 0) && forallb (fun j => let x := gat 0 adj i j in ((x =? 0) || (x =? 1)) && (x =? gat 0 adj j i)) (zrange N)) (zrange N).
Definition base_consistent_b (N : Z) (adj base : list (list Z)) : bool :=
  forallb (fun i => forallb (fun j => gat (-1) base i j =? (if gat 0 adj i j =? 1 then j else -1)) (zrange N)) (zrange N).
Definition degree (N : Z) (adj : list (list Z)) (i : Z) : Z := zsum (map (fun j => gat 0 adj i j) (zrange N)).
Definition max_degree_of (N : Z) (adj : list (list Z)) : Z := fold_left Z.max (map (degree N adj) (zrange N)) 0.
Definition num_edges_of (N : Z) (adj : list (list Z)) : Z := zsum (map (degree N adj) (zrange N)) / 2.
Definition blocks_connected_b (A N : Z) (adj : list (list Z)) : bool :=
  forallb (fun a => connected_b N (fun i j => gat 0 adj i j =? 1) (in_block A N a) (split_lo A N a)) (zrange A).
Definition nodup_b (l : list Z) : bool :=
  (fix go (l : list Z) := match l with [] => true | x :: r => negb (existsb (Z.eqb x) r) && go r end) l.
Definition comps_ok_b (A N K : Z) (comps : list (list Z)) : bool :=
  len_is A comps && forallb (fun a => let cp := znth [] comps a in
     len_is K cp && nodup_b cp && forallb (in_block A N a) cp) (zrange A).
Definition instance_ok_b (A N K : Z) (adj : list (list Z)) (comps : list (list Z)) : bool :=
  sym_loopless_b N adj && blocks_connected_b A N adj && comps_ok_b A N K comps.

(* valid draw of a step: a permutation of 0..A-1 *)
Definition valid_perm (A : Z) (perm : list Z) : bool :=
  len_is A perm && forallb (fun a => count_if (Z.eqb a) perm =? 1) (zrange A).

(* ================= generator over explicit draws (utils.multi_random_walk) ================= *)
Record graph := mkG { g_n : Z; g_edges : list (Z * Z); g_codes : list Z (* 2 x cantor code *);
                      g_deg : list Z; g_ne : list (list Z) }.
(* 2 * get_edge_code (kept integral): (a+b)(a+b+1) + 2b *)
Definition code2 (a b : Z) : Z := (a + b) * (a + b + 1) + 2 * b.
Definition init_graph (n : Z) : graph :=
  mkG n [] [] (repeat 0 (Z.to_nat n)) (repeat (repeat (-1) (Z.to_nat n)) (Z.to_nat n)).
(* add_edge: refused when the (ordered) pair's code is present or a degree is already > max_degree *)
Definition add_edge (maxd : Z) (g : graph) (a b : Z) : graph * bool :=
  if negb (existsb (Z.eqb (code2 a b)) (g_codes g)) && negb (maxd <? jget 0 (g_deg g) a) && negb (maxd <? jget 0 (g_deg g) b)
  then (mkG (g_n g) (g_edges g ++ [(a, b)]) (g_codes g ++ [code2 a b])
            (let d1 := jset (g_deg g) a (jget 0 (g_deg g) a + 1) in jset d1 b (jget 0 (g_deg g) b + 1))
            (gset (gset (g_ne g) a b b) b a a), true)
  else (g, false).
(* random_walk's first while loop: draws = successive neighbour choices; stops when every node is in the tree
   or the draws run out (fuel) *)
Fixpoint walk (maxd : Z) (draws : list Z) (intree : list bool) (g : graph) (cur : Z) : graph * list bool * list Z :=
  match draws with
  | [] => (g, intree, [])
  | nb :: rest =>
      if all_true intree then (g, intree, draws)
      else if negb (jget true intree nb)
           then let (g', ok) := add_edge maxd g (Z.min cur nb) (Z.max cur nb) in
                walk maxd rest (if ok then jset intree nb true else intree) g' nb
           else walk maxd rest intree g nb
  end.
(* add_random_edges: draws = successive (a,b) pairs; stops at the desired edge count *)
Fixpoint add_random (maxd total : Z) (draws : list (Z * Z)) (g : graph) : graph * list (Z * Z) :=
  match draws with
  | [] => (g, [])
  | (a, b) :: rest => if zlen (g_edges g) <? total then add_random maxd total rest (fst (add_edge maxd g a b))
                      else (g, draws)
  end.
Definition random_walk (n ne maxd start : Z) (wdraws : list Z) (edraws : list (Z * Z)) : graph :=
  let '(g, _, _) := walk maxd wdraws (jset (repeat false (Z.to_nat n)) start true) (init_graph n) start in
  fst (add_random maxd ne edraws g).
Definition offset_graph (off : Z) (g : graph) : graph :=
  mkG (g_n g) (map (fun e => (fst e + off, snd e + off)) (g_edges g))
      (map (fun e => code2 (fst e + off) (snd e + off)) (g_edges g)) (g_deg g)
      (map (map (fun v => if v =? -1 then -1 else v + off)) (g_ne g)).
Definition merge_init (ga gb : graph) : graph :=
  let na := g_n ga in let nb := g_n gb in
  mkG (na + nb) (g_edges ga ++ g_edges gb) (g_codes ga ++ g_codes gb) (g_deg ga ++ g_deg gb)
      (map (fun r => r ++ repeat (-1) (Z.to_nat nb)) (g_ne ga) ++ map (fun r => repeat (-1) (Z.to_nat na) ++ r) (g_ne gb)).
Definition merge_graphs (maxd total : Z) (ga gb : graph) (cross : Z * Z) (edraws : list (Z * Z)) : graph :=
  let g := fst (add_edge maxd (merge_init ga gb) (fst cross) (snd cross)) in
  fst (add_random maxd total edraws g).
Definition adj_of_edges (n : Z) (es : list (Z * Z)) : list (list Z) :=
  fold_left (fun m e => gset (gset m (fst e) (snd e) 1) (snd e) (fst e) 1) es (repeat (repeat 0 (Z.to_nat n)) (Z.to_nat n)).

(* ================= wire format ================= *)
Definition dec_cfg (l : list Z) : cfg * list Z :=
  let (a, l) := take1 l in let (n, l) := take1 l in let (k, l) := take1 l in let (m, l) := take1 l in
  let (t, l) := take1 l in let (r1, l) := take1 l in let (r2, l) := take1 l in let (r3, l) := take1 l in
  (mkC a n k m t r1 r2 r3, l).
Definition dec_state (c : cfg) (l : list Z) : state * list Z :=
  let A := cA c in let N := cN c in
  let (nt, l) := taken N l in
  let (ad, l) := take_grid N N l in
  let (cn, l) := take_grid A (cM c) l in
  let (ci, l) := take_grid A N l in
  let (tc, l) := take_grid A (cK c) l in
  let (es, l) := dec_many (take_grid N N) (Z.to_nat A) l in
  let (ps, l) := taken A l in
  let (pi, l) := taken A l in
  let (mk, l) := take_grid A N l in
  let (fn, l) := taken A l in
  let (k, l) := take1 l in
  (mkS nt ad cn ci tc es ps pi (map bools mk) (bools fn) k, l).
Definition enc_dyn (s : state) : list Z :=
  concat (conn s) ++ concat (cidx s) ++ concat (map (@concat Z) (edges s)) ++ pos s ++ pidx s
  ++ concat (map unbools (amask s)) ++ unbools (fin s) ++ [sc s].

(* in: cfg, state, actions(A), perm(A) -> dynamic fields', step_type, reward, discount, obs node_types, final actions *)
Definition mmst_step_io (l : list Z) : list Z :=
  let (c, l) := dec_cfg l in let (s, l) := dec_state c l in
  let (acts, l) := taken (cA c) l in let (perm, _) := taken (cA c) l in
  let (s', t) := step c s acts perm in
  enc_dyn s' ++ enc_ts t ++ obs_types c s' ++ finals_of c s acts perm.
(* @export mmst_step_io *)

(* in: cfg, base node_edges (N,N), adjacency (N,N), comps (A,K) -> ntypes, dynamic fields, timestep, obs node_types *)
Definition mmst_init_io (l : list Z) : list Z :=
  let (c, l) := dec_cfg l in
  let (base, l) := take_grid (cN c) (cN c) l in
  let (ad, l) := take_grid (cN c) (cN c) l in
  let (comps, _) := take_grid (cA c) (cK c) l in
  let (s, t) := init c base ad comps in
  ntypes s ++ enc_dyn s ++ enc_ts t ++ obs_types c s.
(* @export mmst_init_io *)

(* verified checkers on an IMPLEMENTATION state; in: cfg, state, finm(A) (finished flags the mask was built with)
   out: shape, edges_ok, mask_ok, excl, route_ok, route_connected, obs==view *)
Definition mmst_check_io (l : list Z) : list Z :=
  let (c, l) := dec_cfg l in let (s, l) := dec_state c l in let (fm, _) := taken (cA c) l in
  let A := cA c in let N := cN c in
  [ b2z (shape_ok_b c s); b2z (edges_ok_b A N s); b2z (mask_ok_b A N (bools fm) s); b2z (excl_b A N s);
    b2z (route_ok_b A s); b2z (route_connected_b A N s);
    b2z (list_eqb Z.eqb (obs_types c s) (map (view A s) (zrange N))) ].
(* @export mmst_check_io *)

(* in: A N K, adjacency, base node_edges, comps -> symmetric/loopless, node_edges consistent, blocks connected,
   comps ok, max degree, number of distinct edges *)
Definition mmst_instance_io (l : list Z) : list Z :=
  let (A, l) := take1 l in let (N, l) := take1 l in let (K, l) := take1 l in
  let (ad, l) := take_grid N N l in let (base, l) := take_grid N N l in let (comps, _) := take_grid A K l in
  [ b2z (sym_loopless_b N ad); b2z (base_consistent_b N ad base); b2z (blocks_connected_b A N ad);
    b2z (comps_ok_b A N K comps); max_degree_of N ad; num_edges_of N ad ].
(* @export mmst_instance_io *)

Definition dec_pairs (n : Z) (l : list Z) : list (Z * Z) * list Z :=
  dec_many (fun l => let (a, l) := take1 l in let (b, l) := take1 l in ((a, b), l)) (Z.to_nat n) l.
Definition enc_graph (g : graph) : list Z :=
  [zlen (g_edges g)] ++ concat (map (fun e => [fst e; snd e]) (g_edges g)) ++ g_deg g ++ concat (g_ne g).
Definition dec_graph (l : list Z) : graph * list Z :=
  let (n, l) := take1 l in let (m, l) := take1 l in
  let (es, l) := dec_pairs m l in let (dg, l) := taken n l in let (ne, l) := take_grid n n l in
  (mkG n es (map (fun e => code2 (fst e) (snd e)) es) dg ne, l).

(* in: n ne maxd start, #wdraws, wdraws, #edraws, edraws(pairs) -> #walk draws left unused, graph *)
Definition mmst_walk_io (l : list Z) : list Z :=
  let (n, l) := take1 l in let (ne, l) := take1 l in let (maxd, l) := take1 l in let (start, l) := take1 l in
  let (nw, l) := take1 l in let (wd, l) := taken nw l in
  let (nd, l) := take1 l in let (ed, _) := dec_pairs nd l in
  let '(_, _, rest) := walk maxd wd (jset (repeat false (Z.to_nat n)) start true) (init_graph n) start in
  zlen rest :: enc_graph (random_walk n ne maxd start wd ed).
(* @export mmst_walk_io *)

(* in: maxd total off, graph a, graph b (not yet offset), cross pair, #edraws, edraws -> merged graph, adjacency *)
Definition mmst_merge_io (l : list Z) : list Z :=
  let (maxd, l) := take1 l in let (total, l) := take1 l in let (off, l) := take1 l in
  let (ga, l) := dec_graph l in let (gb, l) := dec_graph l in
  let (c1, l) := take1 l in let (c2, l) := take1 l in
  let (nd, l) := take1 l in let (ed, _) := dec_pairs nd l in
  let g := merge_graphs maxd total ga (offset_graph off gb) (c1, c2) ed in
  enc_graph g ++ concat (adj_of_edges (g_n g) (g_edges g)).
(* @export mmst_merge_io *)
