(* Executable model of jumanji/environments/routing/multi_cvrp (env.py, utils.py, generator.py, reward.py).
   n = num_customers (node 0 is the depot, node arrays have n+1 entries), V = num_vehicles, mc = max_capacity.
   Numbers.  demands, capacities, positions, order, step_count, the mask are integers/booleans (int16 in the code) and are
   modelled and compared EXACTLY.  Actions are cast with jnp.int16 ([wrap16]).  All JAX index behaviour is explicit:
   demands[next_nodes] / coordinates[...] / windows[...] are gathers (negative wraps once, then CLAMP), demands.at[next].set(0)
   and order.at[:, step_count].set(next) are scatters (negative wraps once, out of range DROPPED).
   Floats.  The Euclidean distance (float32 sqrt) is an ORACLE [dist : Z -> Z -> Z] between node indices (wire: the
   implementation's own float32 pairwise distances as exact integers d * 2^46, read with the clamping gather).  Times,
   distances and windows are integer codes at scale 2^46, penalty coefficients at scale 2^50, penalties and rewards at scale
   2^96 ([cs] converts).  Every float32 operation of step goes through a rounding function [rnd]:
     [rid]   exact arithmetic (the idealised rules; the theorems are stated over it)
     [rne24] IEEE binary32 round-to-nearest-even on the integer codes (bit-exact reproduction of the float32 fields)
   The worst-case reward at the step limit (utils.worst_case_remaining_reward: a mean and sums in unspecified order) is
   modelled in exact arithmetic and compared with a tolerance.  No proofs here (see Proofs/MultiCvrp*.v).                  *)
Require Import JV.Base.Prelude JV.Base.JaxIndex JV.Base.Codec JV.Base.TimeStep.

(* instance data that step only reads: time windows (scale 2^46) and penalty coefficients (scale 2^50) *)
Record inst := mkI { wstart : list Z; wend : list Z; cearly : list Z; clate : list Z }.
Record state := mkS {
  demands : list Z; ins : inst;
  pos : list Z; cap : list Z; ltime : list Z; vdist : list Z; vpen : list Z;
  order : list (list Z); scount : Z; amask : list (list bool) }.

Definition cs : Z := 2 ^ 50.

(* IEEE-754 binary32 rounding (nearest, ties to even) of an integer code: 24 significant bits *)
Definition rne24_pos (m : Z) : Z :=
  if m <? 16777216 then m else
  let p := 2 ^ (Z.log2 m - 23) in
  let q := m / p in
  let r := m mod p in
  (if (p <? 2 * r) || ((2 * r =? p) && Z.odd q) then q + 1 else q) * p.
Definition rne24 (x : Z) : Z := if x <? 0 then - rne24_pos (- x) else rne24_pos x.
Definition rid (x : Z) : Z := x.

Fixpoint map2 {A B C} (f : A -> B -> C) (a : list A) (b : list B) : list C :=
  match a, b with x :: a', y :: b' => f x y :: map2 f a' b' | _, _ => [] end.

(* jnp.int16(action) *)
Definition wrap16 (a : Z) : Z := (a + 32768) mod 65536 - 32768.

(* next_nodes * (capacities >= demands[next_nodes]) * (demands[next_nodes] > 0)      (the gather clamps) *)
Definition san (dem : list Z) (c a : Z) : Z :=
  let d := jget 0 dem a in if (d <=? c) && (0 <? d) then a else 0.

Definition mem (l : list Z) (i : Z) : bool := existsb (Z.eqb i) l.
(* values, idx = jnp.unique(next, return_index=True, size=V); zeros.at[idx].set(values):
   an entry survives iff it is the FIRST occurrence of its value, every later duplicate becomes 0 (the depot);
   the padding of unique repeats (smallest value, its first index), i.e. rewrites an entry already written *)
Fixpoint dedup_from (seen l : list Z) : list Z :=
  match l with [] => [] | x :: t => (if mem seen x then 0 else x) :: dedup_from (x :: seen) t end.
Definition dedup (l : list Z) : list Z := dedup_from [] l.

Definition next_nodes (s : state) (acts : list Z) : list Z :=
  dedup (map2 (san (demands s)) (cap s) (map wrap16 acts)).

(* utils.create_action_mask: (capacity >= demands) & (demands > 0), depot column True *)
Definition create_mask (dem caps : list Z) : list (list bool) :=
  map (fun c => jset (map (fun d => (d <=? c) && (0 <? d)) dem) 0 true) caps.

(* utils.compute_time_penalties for one vehicle arriving at node x at local time lt (codes: 2^46 * 2^50 = 2^96) *)
Definition time_pen (rnd : Z -> Z) (I : inst) (lt x : Z) : Z :=
  let ws := jget 0 (wstart I) x in let we := jget 0 (wend I) x in
  let early := if lt <? ws then rnd (rnd (ws - lt) * jget 0 (cearly I) x) else 0 in
  let late := if we <? lt then rnd (rnd (lt - we) * jget 0 (clate I) x) else 0 in
  rnd (early + late).

(* a float32 sum, accumulated left to right *)
Definition fsum (rnd : Z -> Z) (l : list Z) : Z := fold_left (fun acc x => rnd (acc + x)) l 0.

(* _update_state *)
Definition update (rnd : Z -> Z) (mc : Z) (dist : Z -> Z -> Z) (s : state) (acts : list Z) : state :=
  let nn := next_nodes s acts in
  let ds := map2 dist (pos s) nn in
  let vd := map2 (fun x d => rnd (x + d)) (vdist s) ds in
  let lt := map2 (fun x d => rnd (x + d)) (ltime s) ds in
  let vp := map2 (fun p i => rnd (p + i)) (vpen s) (map2 (time_pen rnd (ins s)) lt nn) in
  let cp := map2 (fun c x => if x =? 0 then mc else c - jget 0 (demands s) x) (cap s) nn in
  let dm := fold_left (fun d x => jset d x 0) nn (demands s) in
  let od := map2 (fun row x => jset row (scount s) x) (order s) nn in
  mkS dm (ins s) nn cp lt vd vp od (scount s + 1) (create_mask dm cp).

(* utils.worst_case_remaining_reward, exact arithmetic, code at scale 2^96 (floor of the exact value):
   distance_penalty = 2 * sum_i d(0,i) [demand_i > 0];  current_time = mean(local_times) + distance_penalty;
   time_penalty = sum_i [demand_i > 0] * penalties(current_time, window_i, coeffs_i);  everything multiplied by V inside *)
Definition worst_case (dist : Z -> Z -> Z) (s : state) : Z :=
  let V := zlen (ltime s) in
  let N := zlen (demands s) in
  let has i := 0 <? znth 0 (demands s) i in
  let dp := 2 * zsum (map (fun i => if has i then dist 0 i else 0) (zrange N)) in
  let ctV := zsum (ltime s) + V * dp in
  let tp i :=
    if has i then
      (if ctV <? V * znth 0 (wstart (ins s)) i then (V * znth 0 (wstart (ins s)) i - ctV) * znth 0 (cearly (ins s)) i else 0)
      + (if V * znth 0 (wend (ins s)) i <? ctV then (ctV - V * znth 0 (wend (ins s)) i) * znth 0 (clate (ins s)) i else 0)
    else 0 in
  (- (V * dp * cs) - zsum (map tp (zrange N))) / V.

Definition at_limit (n : Z) (s' : state) : bool := 2 * n <? scount s'.
(* (demands.sum() == 0) & (positions == DEPOT).all()  |  step_count > 2 * num_customers *)
Definition complete (s' : state) : bool := (zsum (demands s') =? 0) && forallb (Z.eqb 0) (pos s').
Definition is_done (n : Z) (s' : state) : bool := complete s' || at_limit n s'.

(* reward.py: DenseReward (sparse = false) / SparseReward (sparse = true); code at scale 2^96 *)
Definition reward_of (rnd : Z -> Z) (sparse : bool) (n : Z) (dist : Z -> Z -> Z) (s s' : state) : Z :=
  if sparse then
    if is_done n s' then
      (if at_limit n s' then worst_case dist s' else rnd (- (fsum rnd (vdist s') * cs) - fsum rnd (vpen s')))
    else 0
  else
    if at_limit n s' then worst_case dist s'
    else rnd (rnd (fsum rnd (vdist s) - fsum rnd (vdist s')) * cs + rnd (fsum rnd (vpen s) - fsum rnd (vpen s'))).

Definition step_r (rnd : Z -> Z) (sparse : bool) (n mc : Z) (dist : Z -> Z -> Z) (s : state) (acts : list Z) : state * tstep :=
  let s' := update rnd mc dist s acts in
  (s', cond_done 1 (is_done n s') [reward_of rnd sparse n dist s s']).
Definition step : bool -> Z -> Z -> (Z -> Z -> Z) -> state -> list Z -> state * tstep := step_r rid.

(* _state_to_observation: copies; vehicle coordinates = coordinates[positions] (a clamping gather: the model gives the
   node index whose coordinates are shown) *)
Definition observe (s : state) : list Z * list Z * list Z * list Z * list (list bool) :=
  (demands s, map (jclamp (zlen (demands s))) (pos s), ltime s, cap s, amask s).

(* utils.generate_uniform_random_problem + UniformRandomGenerator.__call__ over explicit draws:
   r = the randint(0, customer_demand_max) draws (n+1), ws/ce/cl = the uniform draws of window starts and coefficients.
   demands = min(int16(r * (total_capacity / sum r)), customer_demand_max) with r[0] := 0       (exact integer floor) *)
Definition gen_demands (total maxd : Z) (r : list Z) : list Z :=
  let r0 := jset r 0 0 in
  let S := zsum r0 in
  map (fun d => Z.min (d * total / S) maxd) r0.
Definition init_r (rnd : Z -> Z) (n V mc maxd wl : Z) (r ws ce cl : list Z) : state * tstep :=
  let dm := gen_demands (mc * V) maxd r in
  let caps := repeat mc (Z.to_nat V) in
  let z := repeat 0 (Z.to_nat V) in
  (mkS dm (mkI ws (map (fun x => rnd (x + wl)) ws) (jset ce 0 0) (jset cl 0 0)) z caps z z z
       (repeat (repeat 0 (Z.to_nat (2 * n))) (Z.to_nat V)) 1 (create_mask dm caps), restart 1).
Definition init := init_r rid.
(* a draw: n+1 demand draws in [0, maxd); window starts in [0, msw); coefficients in [0, cmax] *)
Definition valid_draw (n maxd msw ce_max cl_max : Z) (r ws ce cl : list Z) : bool :=
  (zlen r =? n + 1) && forallb (fun d => (0 <=? d) && (d <? maxd)) r
  && (zlen ws =? n + 1) && forallb (fun x => (0 <=? x) && (x <? msw)) ws
  && (zlen ce =? n + 1) && forallb (fun x => (0 <=? x) && (x <=? ce_max)) ce
  && (zlen cl =? n + 1) && forallb (fun x => (0 <=? x) && (x <=? cl_max)) cl.

(* action_spec: BoundedArray(shape (V,), int16, minimum 0, maximum num_customers): an in-spec joint action names a node
   0..n for every vehicle *)
Definition action_spec_max (n : Z) : Z := n.
Definition in_spec (n V : Z) (acts : list Z) : Prop := zlen acts = V /\ Forall (fun a => 0 <= a <= action_spec_max n) acts.
Definition in_spec_b (n V : Z) (acts : list Z) : bool :=
  (zlen acts =? V) && forallb (fun a => (0 <=? a) && (a <=? action_spec_max n)) acts.

(* ---- declarative side ---- *)
(* vehicle v may go to node a: the depot always; a customer iff it still has demand and the demand fits the vehicle *)
Definition legal (n : Z) (s : state) (v a : Z) : Prop :=
  a = 0 \/ (1 <= a <= n /\ 0 < znth 0 (demands s) a /\ znth 0 (demands s) a <= znth 0 (cap s) v).
Definition legal_b (n : Z) (s : state) (v a : Z) : bool :=
  (a =? 0) || ((1 <=? a) && (a <=? n) && (0 <? znth 0 (demands s) a) && (znth 0 (demands s) a <=? znth 0 (cap s) v)).
Definition all_legal_b (n : Z) (s : state) (acts : list Z) : bool :=
  forallb (fun v => legal_b n s v (znth 0 acts v)) (zrange (zlen (cap s))).

(* ghost history H: the joint moves actually made (after sanitising and de-duplication), MOST RECENT FIRST *)
Definition route (H : list (list Z)) (v : Z) : list Z := map (fun row => znth 0 row v) H.
(* vehicle load: demands (of the ORIGINAL instance d0) collected since the last depot visit *)
Fixpoint load (d0 : list Z) (h : list Z) : Z :=
  match h with [] => 0 | a :: r => if a =? 0 then 0 else znth 0 d0 a + load d0 r end.
Definition customers (h : list Z) : list Z := filter (fun a => negb (a =? 0)) h.
Fixpoint nodup_b (l : list Z) : bool := match l with [] => true | x :: t => negb (mem t x) && nodup_b t end.
(* distance driven by one vehicle: every leg from the previous node (the depot at the start) to the next one *)
Fixpoint rlen (dist : Z -> Z -> Z) (h : list Z) : Z :=
  match h with [] => 0 | a :: r => dist (hd 0 r) a + rlen dist r end.

(* hard constraints + consistency of a state with the original demands d0 and the joint history H *)
Definition Inv (n V mc : Z) (d0 : list Z) (s : state) (H : list (list Z)) : Prop :=
  zlen d0 = n + 1 /\ zlen (demands s) = n + 1 /\ znth 0 d0 0 = 0
  /\ (forall i, 0 <= znth 0 d0 i)
  /\ (forall i, 0 <= i <= n -> znth 0 (demands s) i = if mem (concat H) i then 0 else znth 0 d0 i)   (* served <=> demand zeroed *)
  /\ zlen (cap s) = V /\ zlen (pos s) = V /\ Forall (fun row => zlen row = V) H
  /\ (forall v, 0 <= v < V -> znth 0 (cap s) v = mc - load d0 (route H v) /\ 0 <= znth 0 (cap s) v)   (* load = mc - cap <= mc *)
  /\ NoDup (customers (concat H))                                                                   (* no customer served twice *)
  /\ Forall (fun a => 0 <= a <= n) (concat H)
  /\ pos s = hd (repeat 0 (Z.to_nat V)) H
  /\ scount s = 1 + zlen H
  /\ amask s = create_mask (demands s) (cap s).
Definition Inv_b (n V mc : Z) (d0 : list Z) (s : state) (H : list (list Z)) : bool :=
  (zlen d0 =? n + 1) && (zlen (demands s) =? n + 1) && (znth 0 d0 0 =? 0)
  && forallb (fun d => 0 <=? d) d0
  && forallb (fun i => znth 0 (demands s) i =? (if mem (concat H) i then 0 else znth 0 d0 i)) (zrange (n + 1))
  && (zlen (cap s) =? V) && (zlen (pos s) =? V) && forallb (fun row => zlen row =? V) H
  && forallb (fun v => (znth 0 (cap s) v =? mc - load d0 (route H v)) && (0 <=? znth 0 (cap s) v)) (zrange V)
  && nodup_b (customers (concat H))
  && forallb (fun a => (0 <=? a) && (a <=? n)) (concat H)
  && list_eqb Z.eqb (pos s) (hd (repeat 0 (Z.to_nat V)) H)
  && (scount s =? 1 + zlen H)
  && list_eqb (list_eqb Bool.eqb) (amask s) (create_mask (demands s) (cap s)).

(* the history read back from the state: order[:, t] (t = 1 .. step_count-2) are the joint moves of steps 1.., the most
   recent one is [pos] (the order array has no column for the 2n-th move: that write is dropped) *)
Definition column (g : list (list Z)) (t : Z) : list Z := map (fun row => znth 0 row t) g.
Definition hist_of (s : state) : list (list Z) :=
  if scount s <=? 1 then [] else pos s :: rev (map (column (order s)) (zrange_from 1 (Z.to_nat (scount s - 2)))).
Definition Feasible_b (n V mc : Z) (d0 : list Z) (s : state) : bool := Inv_b n V mc d0 s (hist_of s).
(* the rendering array agrees with the positions: column step_count-1 holds the current positions while it exists *)
Definition order_ok_b (n : Z) (s : state) : bool :=
  if (2 <=? scount s) && (scount s - 1 <? 2 * n) then list_eqb Z.eqb (column (order s) (scount s - 1)) (pos s) else true.
(* completion: every customer with demand has been served and every vehicle is back at the depot *)
Definition complete_b (n : Z) (d0 : list Z) (s : state) (H : list (list Z)) : bool :=
  forallb (fun i => (znth 0 d0 i =? 0) || mem (concat H) i) (zrange_from 1 (Z.to_nat n)) && forallb (Z.eqb 0) (pos s).

(* generated instance: depot demand 0, 0 <= demand <= maxd <= mc, total demand <= V * mc *)
Definition instance_b (n V mc maxd : Z) (dem : list Z) : bool :=
  (zlen dem =? n + 1) && (znth 1 dem 0 =? 0) && forallb (fun d => (0 <=? d) && (d <=? maxd)) dem
  && (maxd <=? mc) && (zsum dem <=? V * mc).
(* windows well-formed: 0 <= start <= end <= max_end, end = start + length up to the float32 rounding tol of the sum;
   no penalties at the depot *)
Definition windows_b (wl mew tol : Z) (I : inst) : bool :=
  (zlen (wstart I) =? zlen (wend I))
  && forallb (fun p => (0 <=? fst p) && (fst p <=? snd p) && (snd p <=? mew) && (Z.abs (snd p - fst p - wl) <=? tol))
             (combine (wstart I) (wend I))
  && (znth 1 (cearly I) 0 =? 0) && (znth 1 (clate I) 0 =? 0).
(* declared observation ranges (integer fields): demands, capacities in [0, mc]; shapes; mask shape *)
Definition ranges_b (n V mc : Z) (s : state) : bool :=
  (zlen (demands s) =? n + 1) && forallb (fun d => (0 <=? d) && (d <=? mc)) (demands s)
  && (zlen (cap s) =? V) && forallb (fun c => (0 <=? c) && (c <=? mc)) (cap s)
  && (zlen (amask s) =? V) && forallb (fun row => zlen row =? n + 1) (amask s).

(* the published rules with plain in-range operations: every vehicle whose chosen node is not legal for it goes to the
   depot instead; of several vehicles choosing the same customer only the first (lowest index) serves it, the others
   go to the depot; a served customer's demand leaves the vehicle's capacity and becomes 0; the depot refills *)
Definition rules_next (n : Z) (s : state) (acts : list Z) : list Z :=
  dedup (map (fun v => if legal_b n s v (znth 0 acts v) then znth 0 acts v else 0) (zrange (zlen (cap s)))).

(* ---- wire format ---- *)
Definition split50 (x : Z) : list Z := [x / cs; x mod cs].
Fixpoint join50 (l : list Z) : list Z := match l with hi :: lo :: t => (hi * cs + lo) :: join50 t | _ => [] end.
Definition dec_state (n V : Z) (l : list Z) : state * list Z :=
  let N := n + 1 in
  let (d, l) := taken N l in
  let (ws, l) := taken N l in let (we, l) := taken N l in let (ce, l) := taken N l in let (cl, l) := taken N l in
  let (p, l) := taken V l in let (c, l) := taken V l in let (lt, l) := taken V l in let (vd, l) := taken V l in
  let (vp, l) := taken (2 * V) l in
  let (od, l) := take_grid V (2 * n) l in
  let (k, l) := take1 l in
  let (m, l) := take_grid V N l in
  (mkS d (mkI ws we ce cl) p c lt vd (join50 vp) od k (map bools m), l).
Definition enc_state (s : state) : list Z :=
  demands s ++ wstart (ins s) ++ wend (ins s) ++ cearly (ins s) ++ clate (ins s)
  ++ pos s ++ cap s ++ ltime s ++ vdist s ++ concat (map split50 (vpen s))
  ++ concat (order s) ++ [scount s] ++ concat (map unbools (amask s)).
Definition enc_obs (s : state) : list Z :=
  match observe s with (d, ix, lt, c, m) => ix end.
Definition table_dist (tab : list (list Z)) (i j : Z) : Z := gget 0 tab i j.
Definition enc_out (p : state * tstep) : list Z :=
  enc_state (fst p) ++ enc_obs (fst p)
  ++ [st (snd p)] ++ concat (map split50 (reward (snd p))) ++ discount (snd p).

Fixpoint chunks (k : nat) (V : Z) (l : list Z) : list (list Z) :=
  match k with O => [] | S k' => firstn_z V l :: chunks k' V (skipn_z V l) end.

(* in: n, V, float32 (1: every float op rounded like binary32, 0: exact), sparse, mc, table((n+1)^2), state, k, k*V actions
   out: for each joint action: state', observed vehicle node indices, step_type, reward (2 limbs), discount *)
Definition multi_cvrp_step_io (l : list Z) : list Z :=
  let (n, l) := take1 l in let (V, l) := take1 l in let (fl, l) := take1 l in let (sp, l) := take1 l in
  let (mc, l) := take1 l in
  let (tab, l) := take_grid (n + 1) (n + 1) l in
  let (s, l) := dec_state n V l in let (k, l) := take1 l in
  concat (map (fun a => enc_out (step_r (if z2b fl then rne24 else rid) (z2b sp) n mc (table_dist tab) s a))
              (chunks (Z.to_nat k) V l)).
(* @export multi_cvrp_step_io *)

(* the declarative rules: in: n, V, state, k, k*V actions -> for each joint action the V next nodes *)
Definition multi_cvrp_rules_io (l : list Z) : list Z :=
  let (n, l) := take1 l in let (V, l) := take1 l in
  let (s, l) := dec_state n V l in let (k, l) := take1 l in
  concat (map (fun a => rules_next n s a) (chunks (Z.to_nat k) V l)).
(* @export multi_cvrp_rules_io *)

(* in: n, V, float32, mc, maxd, wl, msw, ce_max, cl_max, r(n+1), ws(n+1), ce(n+1), cl(n+1)
   out: reset state, observed indices, timestep, valid_draw *)
Definition multi_cvrp_init_io (l : list Z) : list Z :=
  let (n, l) := take1 l in let (V, l) := take1 l in let (fl, l) := take1 l in
  let (mc, l) := take1 l in let (maxd, l) := take1 l in
  let (wl, l) := take1 l in let (msw, l) := take1 l in let (cem, l) := take1 l in let (clm, l) := take1 l in
  let N := n + 1 in
  let (r, l) := taken N l in let (ws, l) := taken N l in let (ce, l) := taken N l in let (cl, _) := taken N l in
  enc_out (init_r (if z2b fl then rne24 else rid) n V mc maxd wl r ws ce cl) ++ [b2z (valid_draw n maxd msw cem clm r ws ce cl)].
(* @export multi_cvrp_init_io *)

(* verified checkers on IMPLEMENTATION states.
   in: n, V, mc, maxd, wl, mew, tol, d0(n+1), state, table((n+1)^2)
   out: [mask == legal for every vehicle and node; Feasible (Inv with the history read back from order/pos); order_ok;
         instance_b(d0); windows_b; ranges_b; complete_b; customers served so far; max vehicle load;
         then per vehicle: load, route length of the history (sum of oracle distances; one entry each)] *)
Definition multi_cvrp_check_io (l : list Z) : list Z :=
  let (n, l) := take1 l in let (V, l) := take1 l in let (mc, l) := take1 l in let (maxd, l) := take1 l in
  let (wl, l) := take1 l in let (mew, l) := take1 l in let (tol, l) := take1 l in
  let (d0, l) := taken (n + 1) l in
  let (s, l) := dec_state n V l in
  let (tab, _) := take_grid (n + 1) (n + 1) l in
  let H := hist_of s in
  let loads := map (fun v => load d0 (route H v)) (zrange V) in
  [ b2z (list_eqb (list_eqb Bool.eqb) (amask s)
           (map (fun v => map (fun a => legal_b n s v a) (zrange (n + 1))) (zrange V)));
    b2z (Feasible_b n V mc d0 s);
    b2z (order_ok_b n s);
    b2z (instance_b n V mc maxd d0);
    b2z (windows_b wl mew tol (ins s));
    b2z (ranges_b n V mc s);
    b2z (complete_b n d0 s H);
    zlen (customers (concat H));
    fold_right Z.max 0 loads ]
  ++ loads ++ map (fun v => rlen (table_dist tab) (route H v)) (zrange V).
(* @export multi_cvrp_check_io *)

(* in: n, V, acts(V) -> [action_spec maximum; in_spec_b] *)
Definition multi_cvrp_spec_io (l : list Z) : list Z :=
  let (n, l) := take1 l in let (V, l) := take1 l in let (a, _) := taken V l in
  [action_spec_max n; b2z (in_spec_b n V a)].
(* @export multi_cvrp_spec_io *)

Definition multi_cvrp_rne_io (l : list Z) : list Z := map rne24 l.
(* @export multi_cvrp_rne_io *)
