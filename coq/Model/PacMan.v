(* Executable model of jumanji/environments/routing/pac_man (env.py, utils.py, generator.py, constants.py).
   Impl layer: [player_step], [check_wall], [compute_mask], [ghost_path], [ghost_col], [step], [gen_state] mirror the code;
   Rules layer: [free], [legal], [rule_player], [rule_step], [maze_ok_b], [Inv].
   Conventions of the code (kept here):  Position.x = ROW index (0..x_size-1), Position.y = COLUMN index
   (0..y_size-1); every position stored in an array (ghosts, pellets, power-ups, targets) is the pair [column; row].
   grid[row][col] = 1 on free cells, 0 on walls.  x_size = number of rows, y_size = number of columns.
   Randomness: the four ghost actions chosen by utils.ghost_move are explicit draws (recovered by the harness from
   the successor state's ghost_actions); [ghost_draw_ok] is the set of draws the code permits (a superset of the
   distance-argmin set the softmax can select: any non-backtracking free neighbour).
   No proofs here (see Proofs/PacMan*.v).                                                                      *)
Require Import JV.Base.Prelude JV.Base.JaxIndex JV.Base.Codec JV.Base.TimeStep JV.Gen.PacManConsts.

Definition pos := (Z * Z)%type.
Definition zp : pos := (0, 0).

Record state := mkS {
  grid : list (list Z);
  pellets : Z;
  fright : Z;                 (* frightened_state_time *)
  pellet_locs : list pos;     (* [col; row] *)
  pu_locs : list pos;         (* power_up_locations *)
  px : Z; py : Z;             (* player_locations.x (row), .y (column) *)
  ghosts : list pos;          (* ghost_locations *)
  init_ghosts : list pos;     (* initial_ghost_positions *)
  init_targets : list pos;    (* ghost_init_targets *)
  old_ghosts : list pos;      (* old_ghost_locations *)
  g_init_steps : list Z;
  g_actions : list Z;
  last_dir : Z;
  dead : bool;
  g_starts : list Z;
  scatter : list pos;
  sc : Z;                     (* step_count *)
  g_eaten : list bool;
  score : Z
}.
(* key, initial_player_locations and visited_index are never read or written by step; the harness checks that
   they are carried unchanged. *)

Definition gpos (l : list pos) (i : Z) : pos := znth zp l i.
Definition idx4 : list Z := [0; 1; 2; 3].

(* PacMan.__init__ : self.time_limit = time_limit or DEFAULT (None / 0 are falsy; wire: 0) *)
Definition resolve_limit (opt : Z) : Z := if opt =? 0 then DEFAULT_TIME_LIMIT else opt.

(* jax.lax.switch clamps its index into [0, 4] *)
Definition clamp04 (a : Z) : Z := Z.max 0 (Z.min 4 a).

(* utils.player_step: which size wraps which coordinate is read from the source (Gen/PacManConsts.v) *)
Definition xmod (xs ys : Z) : Z := if PLAYER_X_WRAP_SEL =? 0 then xs else ys.
Definition ymod (xs ys : Z) : Z := if PLAYER_Y_WRAP_SEL =? 0 then xs else ys.

(* the five branches return (new_pos_row, new_pos_col) = (y.., x..); result is (x', y') *)
Definition player_step (xs ys x y a steps : Z) : Z * Z :=
  let k := clamp04 a in
  let '(nr, nc) :=
    if k =? 0 then (y, x - steps) else if k =? 1 then (y - steps, x) else if k =? 2 then (y, x + steps)
    else if k =? 3 then (y + steps, x) else (y, x) in
  (nc mod xmod xs ys, nr mod ymod xs ys).

(* PacMan.check_wall_collisions: grid[new.x, new.y] is a clamping gather *)
Definition check_wall (g : list (list Z)) (x y nx ny : Z) : Z * Z :=
  if gget 0 g nx ny =? 1 then (nx, ny) else (x, y).

(* _compute_action_mask: y, x = [pos.y, pos.x] + move; grid[x][y] (no modulo here); last entry forced False *)
Definition move_valid (g : list (list Z)) (x y : Z) (m : list Z) : bool :=
  z2b (gget 0 g (x + znth 0 m 1) (y + znth 0 m 0)).
Definition MASK_KEEP : list bool := [true; true; true; true; false].
Definition compute_mask (g : list (list Z)) (x y : Z) : list bool :=
  map (fun mk => move_valid g x y (fst mk) && snd mk) (combine MOVES MASK_KEEP).

(* ---- ghosts (utils.ghost_move / check_ghost_wall_collisions) ---- *)
(* neighbours in the order of the ghost actions 0..3 (left, up, right, down) as (row, col); raw, not wrapped *)
Definition ghost_nbrs (c r : Z) : list pos := [(r, c - 1); (r - 1, c); (r, c + 1); (r + 1, c)].
Definition ghost_valids (g : list (list Z)) (c r : Z) : list Z :=
  map (fun p => gget 0 g (fst p) (snd p)) (ghost_nbrs c r).
(* valid_no_back = valids * any(ghost_p != old_ghost_location); old = [col; row] *)
Definition ghost_nb (g : list (list Z)) (c r oc orw : Z) : list Z :=
  map (fun p => gget 0 g (fst p) (snd p) * b2z (negb ((fst p =? orw) && (snd p =? oc)))) (ghost_nbrs c r).
Definition in_tunnel (v : list Z) : bool := list_eqb Z.eqb v [1; 0; 1; 0] || list_eqb Z.eqb v [0; 1; 0; 1].

(* the set of actions ghost_move can return for one ghost:
   waiting (ghost_start >= 0): 4;  corridor: the previous action;  otherwise jax.random.choice over the entries of
   minimal distance among the non-backtracking free neighbours (all four when there is none: min = inf) *)
Definition ghost_draw_ok (g : list (list Z)) (c r oc orw start ga d : Z) : bool :=
  if start <? 0 then
    if in_tunnel (ghost_valids g c r) then d =? ga
    else
      let nb := ghost_nb g c r oc orw in
      (0 <=? d) && (d <? 4) && ((znth 0 nb d =? 1) || forallb (fun v => negb (v =? 1)) nb)
  else d =? 4.

(* the switch over the chosen action, the teleporter modulo, and `cond(ghost_start <= 0, path, position)` *)
Definition ghost_target (xs ys c r d : Z) : pos :=
  let k := clamp04 d in
  let '(nr, nc) :=
    if k =? 0 then (r, c - 1) else if k =? 1 then (r - 1, c) else if k =? 2 then (r, c + 1)
    else if k =? 3 then (r + 1, c) else (r, c) in
  (nc mod ys, nr mod xs).
Definition ghost_path (xs ys c r start d : Z) : pos :=
  if start <=? 0 then ghost_target xs ys c r d else (c, r).

(* utils.check_ghost_collisions.check_collisions for one ghost:
   gp = new ghost position, og2 = state.old_ghost_locations[i], og = initial position, edible = ghost_eaten[i] *)
Definition ghost_cond (x y nx ny : Z) (gp og2 : pos) : bool :=
  ((snd gp =? nx) && (fst gp =? ny)) || ((snd gp =? x) && (fst gp =? y)) || ((snd og2 =? nx) && (fst og2 =? ny)).
Definition ghost_col (fr x y nx ny : Z) (gp og2 og : pos) (edible : bool) : pos * bool * Z * bool :=
  let cond := ghost_cond x y nx ny gp og2 in
  let reset := (0 <? fr) && cond in
  if cond then
    if reset then (og, false, 200 * b2z edible, false) else (gp, true, 0, edible)
  else (gp, false, 0, edible).

Definition hit (nx ny : Z) (p : pos) : bool := (fst p =? ny) && (snd p =? nx).
Definition wipe (nx ny : Z) (l : list pos) : list pos := map (fun p => if hit nx ny p then zp else p) l.

Definition PELLET_REWARD := 10. Definition POWER_UP_REWARD := 50. Definition FRIGHT_TIME := 30.

Definition step (xs ys T : Z) (s : state) (a : Z) (draws : list Z) : state * tstep :=
  let x := px s in let y := py s in
  let '(nx0, ny0) := player_step xs ys x y a 1 in
  let '(nx, ny) := check_wall (grid s) x y nx0 ny0 in
  let paths := map (fun i => ghost_path xs ys (fst (gpos (ghosts s) i)) (snd (gpos (ghosts s) i))
                                        (znth 0 (g_starts s) i) (znth 0 draws i)) idx4 in
  let cols := map (fun i => ghost_col (fright s) x y nx ny (gpos paths i) (gpos (old_ghosts s) i)
                                      (gpos (init_ghosts s) i) (znth false (g_eaten s) i)) idx4 in
  let ghosts' := map (fun q => fst (fst (fst q))) cols in
  let died := existsb (fun q => snd (fst (fst q))) cols in
  let ghost_rew := zsum (map (fun q => snd (fst q)) cols) in
  let eaten' := map (fun q => snd q) cols in
  let eat := existsb (hit nx ny) (pu_locs s) in
  let ate := existsb (hit nx ny) (pellet_locs s) in
  let reward := PELLET_REWARD * b2z ate + POWER_UP_REWARD * b2z eat + ghost_rew in
  let pellets' := pellets s - b2z ate in
  let sc' := sc s + 1 in
  let s' := mkS (grid s) pellets' (if eat then FRIGHT_TIME else fright s - 1)
                (wipe nx ny (pellet_locs s)) (wipe nx ny (pu_locs s)) nx ny ghosts'
                (init_ghosts s) (init_targets s) (ghosts s) (map (fun v => v - 1) (g_init_steps s))
                (map (fun i => znth 0 draws i) idx4) a died (map (fun v => v - 1) (g_starts s)) (scatter s) sc' eaten'
                (score s + reward) in
  let done := (T <=? sc') || died || (pellets' =? 0) in
  (s', cond_done 1 done [reward]).

Definition draws_ok (s : state) (draws : list Z) : list bool :=
  map (fun i => ghost_draw_ok (grid s) (fst (gpos (ghosts s) i)) (snd (gpos (ghosts s) i))
                              (fst (gpos (old_ghosts s) i)) (snd (gpos (old_ghosts s) i))
                              (znth 0 (g_starts s) i) (znth 0 (g_actions s) i) (znth 0 draws i)) idx4.
Definition valid_draw (s : state) (draws : list Z) : bool := forallb (fun b => b) (draws_ok s draws).

(* _observation_from_state: copies + the mask *)
Definition enc_pos (l : list pos) : list Z := concat (map (fun p => [fst p; snd p]) l).
Definition observe (s : state) : list Z :=
  concat (grid s) ++ [px s; py s] ++ enc_pos (ghosts s) ++ enc_pos (pu_locs s) ++ [fright s]
  ++ enc_pos (pellet_locs s) ++ unbools (compute_mask (grid s) (px s) (py s)) ++ [score s].

(* ---- generator.generate_maze_from_ascii / AsciiGenerator ---- *)
Definition chX := 88. Definition chG := 71. Definition chP := 80. Definition chO := 79. Definition chT := 84. Definition chS := 83.
(* all cells in row-major order as ((col, row), char) *)
Definition cells (maze : list (list Z)) : list (pos * Z) :=
  concat (map (fun xr => map (fun yc => ((fst yc, fst xr), snd yc)) (combine (zrange (zlen (snd xr))) (snd xr)))
              (combine (zrange (zlen maze)) maze)).
Definition sel (f : Z -> bool) (maze : list (list Z)) : list pos :=
  map fst (filter (fun pc => f (snd pc)) (cells maze)).
Definition numpy_maze (maze : list (list Z)) : list (list Z) := map (map (fun ch => if ch =? chX then 0 else 1)) maze.
Definition gen_state (maze : list (list Z)) : state :=
  let cookies := sel (fun ch => negb (ch =? chX)) maze in
  let spawns := sel (fun ch => ch =? chG) maze in
  let player := last (sel (fun ch => ch =? chP) maze) zp in     (* player_coords: the last 'P' *)
  mkS (numpy_maze maze) (zlen cookies) RESET_FRIGHTENED cookies (sel (fun ch => ch =? chO) maze)
      (snd player) (fst player) spawns spawns (sel (fun ch => ch =? chT) maze) spawns
      RESET_GHOST_INIT_STEPS RESET_GHOST_ACTIONS RESET_LAST_DIRECTION (z2b RESET_DEAD) RESET_GHOST_STARTS
      (sel (fun ch => ch =? chS) maze) RESET_STEP_COUNT (bools RESET_GHOST_EATEN) RESET_SCORE.
Definition init (maze : list (list Z)) : state * tstep := (gen_state maze, restart 1).
Definition MAZE : list (list Z) := numpy_maze DEFAULT_MAZE_ASCII.
Definition X_SIZE : Z := zlen DEFAULT_MAZE_ASCII.
Definition Y_SIZE : Z := zlen (hd [] DEFAULT_MAZE_ASCII).

(* ---------------- declarative side (Rules) ---------------- *)
Definition free_b (xs ys : Z) (g : list (list Z)) (r c : Z) : bool := inb xs r && inb ys c && (gat 0 g r c =? 1).
Definition free (xs ys : Z) (g : list (list Z)) (r c : Z) : Prop := 0 <= r < xs /\ 0 <= c < ys /\ gat 0 g r c = 1.

(* direction of the player actions: 0 = row-1, 1 = column-1, 2 = row+1, 3 = column+1 (4 and others: none) *)
Definition dx (a : Z) : Z := if a =? 0 then -1 else if a =? 2 then 1 else 0.
Definition dy (a : Z) : Z := if a =? 1 then -1 else if a =? 3 then 1 else 0.
(* a move is legal when its target cell -- wrapped around the grid like player_step does at the tunnel -- is free;
   the no-op (4) is never offered by the mask *)
Definition legal_b (xs ys : Z) (g : list (list Z)) (x y a : Z) : bool :=
  (0 <=? a) && (a <? 4) && free_b xs ys g ((x + dx a) mod xs) ((y + dy a) mod ys).
Definition legal (xs ys : Z) (g : list (list Z)) (x y a : Z) : Prop :=
  0 <= a < 4 /\ free xs ys g ((x + dx a) mod xs) ((y + dy a) mod ys).
Definition rule_player (xs ys : Z) (g : list (list Z)) (x y a : Z) : Z * Z :=
  if legal_b xs ys g x y a then ((x + dx a) mod xs, (y + dy a) mod ys) else (x, y).

Definition wf_grid_b (xs ys : Z) (g : list (list Z)) : bool :=
  (0 <? xs) && (0 <? ys) && (zlen g =? xs) && forallb (fun row => (zlen row =? ys) && forallb (fun v => (v =? 0) || (v =? 1)) row) g.

(* maze conditions (decidable, checked on the default maze by vm_compute) under which ghosts can never leave the
   free cells and the (modulo-free) mask agrees with the wrapped moves:
   at every free cell (row r, column c):
   M1 a ghost arriving in a corridor cell by action k can repeat k;  M2 at least two neighbours are free (no dead end);
   M3 a neighbour seen free through the clamping gather is free after the teleporter modulo;
   M4 the mask's gather agrees with the wrapped target cell of the player's move.          *)
Definition two_valid (v : list Z) : bool :=
  let a := znth 0 v 0 =? 1 in let b := znth 0 v 1 =? 1 in let c := znth 0 v 2 =? 1 in let d := znth 0 v 3 =? 1 in
  (a && b) || (a && c) || (a && d) || (b && c) || (b && d) || (c && d).
Definition ghost_free_b (xs ys : Z) (g : list (list Z)) (p : pos) : bool := free_b xs ys g (snd p) (fst p).
Definition corridor_ok_b (xs ys : Z) (g : list (list Z)) (p : pos) (k : Z) : bool :=
  negb (in_tunnel (ghost_valids g (fst p) (snd p))) || ghost_free_b xs ys g (ghost_target xs ys (fst p) (snd p) k).
Definition cell_ok_b (xs ys : Z) (g : list (list Z)) (r c : Z) : bool :=
  negb (free_b xs ys g r c) ||
  ( forallb (fun k => let q := ghost_target xs ys c r k in
                      negb (ghost_free_b xs ys g q) || corridor_ok_b xs ys g q k) [0; 1; 2; 3; 4]
    && two_valid (ghost_valids g c r)
    && forallb (fun k => negb (znth 0 (ghost_valids g c r) k =? 1) || ghost_free_b xs ys g (ghost_target xs ys c r k)) idx4
    && forallb (fun a => Bool.eqb (z2b (gget 0 g (r + dx a) (c + dy a))) (free_b xs ys g ((r + dx a) mod xs) ((c + dy a) mod ys))) idx4 ).
Definition maze_ok_b (xs ys : Z) (g : list (list Z)) : bool :=
  wf_grid_b xs ys g && negb (gat 0 g 0 0 =? 1)
  && forallb (fun r => forallb (fun c => cell_ok_b xs ys g r c) (zrange ys)) (zrange xs).

(* C07: the physical invariant *)
Definition ghost_ok_b (xs ys : Z) (g : list (list Z)) (p : pos) (ga : Z) : bool :=
  ghost_free_b xs ys g p && corridor_ok_b xs ys g p ga.
Definition spawn_ok_b (xs ys : Z) (g : list (list Z)) (p : pos) : bool :=
  ghost_free_b xs ys g p && negb (in_tunnel (ghost_valids g (fst p) (snd p))).
Definition len4 {A} (l : list A) : bool := Nat.eqb (length l) 4.
Definition Inv_rest_b (xs ys : Z) (s : state) : bool :=
  free_b xs ys (grid s) (px s) (py s)
  && len4 (ghosts s) && len4 (g_actions s) && len4 (init_ghosts s) && len4 (old_ghosts s) && len4 (g_starts s)
  && len4 (g_eaten s) && len4 (g_init_steps s)
  && forallb (fun i => ghost_ok_b xs ys (grid s) (gpos (ghosts s) i) (znth 0 (g_actions s) i)) idx4
  && forallb (spawn_ok_b xs ys (grid s)) (init_ghosts s).
Definition Inv_b (xs ys : Z) (s : state) : bool := maze_ok_b xs ys (grid s) && Inv_rest_b xs ys s.
Definition Inv (xs ys : Z) (s : state) : Prop := Inv_b xs ys s = true.

(* pellet bookkeeping: entries are wiped to [0;0] when eaten; the counter is the number of live entries *)
Definition is_zp (p : pos) : bool := (fst p =? 0) && (snd p =? 0).
Definition live (l : list pos) : list pos := filter (fun p => negb (is_zp p)) l.
Fixpoint nodup_b (l : list pos) : bool :=
  match l with [] => true | p :: t => negb (existsb (fun q => (fst p =? fst q) && (snd p =? snd q)) t) && nodup_b t end.
Definition pellets_ok_b (s : state) : bool := (pellets s =? zlen (live (pellet_locs s))) && nodup_b (live (pellet_locs s)).

(* the published rules for the player, the pellets, the power-ups and the score, given what happened to the ghosts
   (ghost_rew = 200 per edible ghost caught while frightened, died = caught while not frightened):
   a legal move is taken, anything else leaves the player where it is; the pellet / power-up on the cell the player
   is on after the move is collected (10 / 50 points, power-up: 30 frightened steps), the counter drops by one per
   pellet, the score accumulates the reward; the episode ends at the time limit, on death, or when no pellet is left *)
Definition rule_step (xs ys T : Z) (s : state) (a : Z) (ghost_rew : Z) (died : bool) : (Z * Z) * list pos * list pos * Z * Z * Z * Z * bool :=
  let '(nx, ny) := rule_player xs ys (grid s) (px s) (py s) a in
  let on_pellet := existsb (fun p => (fst p =? ny) && (snd p =? nx)) (pellet_locs s) in
  let on_pu := existsb (fun p => (fst p =? ny) && (snd p =? nx)) (pu_locs s) in
  let reward := (if on_pellet then 10 else 0) + (if on_pu then 50 else 0) + ghost_rew in
  let pellets' := if on_pellet then pellets s - 1 else pellets s in
  ((nx, ny), wipe nx ny (pellet_locs s), wipe nx ny (pu_locs s), pellets',
   (if on_pu then 30 else fright s - 1), reward, score s + reward,
   (T <=? sc s + 1) || died || (pellets' =? 0)).

(* ---------------- wire format ---------------- *)
Definition take_pos (l : list Z) : pos * list Z := let (a, l) := take1 l in let (b, l) := take1 l in ((a, b), l).
Definition take_poss (n : Z) (l : list Z) : list pos * list Z := dec_many take_pos (Z.to_nat n) l.

(* state := xs ys grid(xs*ys) pellets fright npel pellet_locs(2 npel) pu(8) px py ghosts(8) init_ghosts(8) init_targets(8)
            old_ghosts(8) init_steps(4) actions(4) last_dir dead starts(4) scatter(8) sc eaten(4) score *)
Definition dec_state (l : list Z) : (Z * Z * state) * list Z :=
  let (xs, l) := take1 l in let (ys, l) := take1 l in
  let (g, l) := take_grid xs ys l in
  let (pel, l) := take1 l in let (fr, l) := take1 l in
  let (np, l) := take1 l in let (pl, l) := take_poss np l in
  let (pu, l) := take_poss 4 l in
  let (x, l) := take1 l in let (y, l) := take1 l in
  let (gh, l) := take_poss 4 l in let (ig, l) := take_poss 4 l in let (it, l) := take_poss 4 l in
  let (og, l) := take_poss 4 l in
  let (gis, l) := taken 4 l in let (ga, l) := taken 4 l in
  let (ld, l) := take1 l in let (dd, l) := take1 l in
  let (gs, l) := taken 4 l in let (sct, l) := take_poss 4 l in
  let (k, l) := take1 l in let (ge, l) := taken 4 l in let (scr, l) := take1 l in
  ((xs, ys, mkS g pel fr pl pu x y gh ig it og gis ga ld (z2b dd) gs sct k (bools ge) scr), l).

(* out: pellets fright pellet_locs pu px py ghosts init_ghosts init_targets old_ghosts init_steps actions last_dir dead
        starts scatter sc eaten score *)
Definition enc_state (s : state) : list Z :=
  [pellets s; fright s] ++ enc_pos (pellet_locs s) ++ enc_pos (pu_locs s) ++ [px s; py s] ++ enc_pos (ghosts s)
  ++ enc_pos (init_ghosts s) ++ enc_pos (init_targets s) ++ enc_pos (old_ghosts s) ++ g_init_steps s ++ g_actions s
  ++ [last_dir s; b2z (dead s)] ++ g_starts s ++ enc_pos (scatter s) ++ [sc s] ++ unbools (g_eaten s) ++ [score s].

(* in: time_limit_opt(0 = None) state action draws(4)
   out: state' step_type reward discount T mask'(5) draws_ok(4) *)
Definition pacman_step_io (l : list Z) : list Z :=
  let (topt, l) := take1 l in
  let '((xs, ys, s), l) := dec_state l in
  let (a, l) := take1 l in let (d, _) := taken 4 l in
  let T := resolve_limit topt in
  let (s', t) := step xs ys T s a d in
  enc_state s' ++ enc_ts t ++ [T] ++ unbools (compute_mask (grid s') (px s') (py s')) ++ unbools (draws_ok s d).
(* @export pacman_step_io *)

(* the declarative rules on the same input; ghost outcome (reward, died) passed in by the harness from the
   implementation's own successor.  out: px py pellet_locs pu pellets fright reward score done *)
Definition pacman_rule_io (l : list Z) : list Z :=
  let (topt, l) := take1 l in
  let '((xs, ys, s), l) := dec_state l in
  let (a, l) := take1 l in let (gr, l) := take1 l in let (dd, _) := take1 l in
  let '(p, pl, pu, pel, fr, r, scr, done) := rule_step xs ys (resolve_limit topt) s a gr (z2b dd) in
  [fst p; snd p] ++ enc_pos pl ++ enc_pos pu ++ [pel; fr; r; scr; b2z done].
(* @export pacman_rule_io *)

(* verified checkers on IMPLEMENTATION states:
   [Inv_rest_b; pellets_ok_b; mask == legal for the 4 moves and no-op masked out] ++ observe(state)
   (Inv_b = maze_ok_b && Inv_rest_b; the grid never changes, so the harness evaluates maze_ok_b once per distinct
   grid through pacman_maze_io) *)
Definition pacman_check_io (l : list Z) : list Z :=
  let '((xs, ys, s), _) := dec_state l in
  [ b2z (Inv_rest_b xs ys s); b2z (pellets_ok_b s);
    b2z (list_eqb Bool.eqb (compute_mask (grid s) (px s) (py s))
                   (map (legal_b xs ys (grid s) (px s) (py s)) [0; 1; 2; 3; 4])) ]
  ++ observe s.
(* @export pacman_check_io *)

(* in: xs ys grid -> [maze_ok_b] *)
Definition pacman_maze_io (l : list Z) : list Z :=
  let (xs, l) := take1 l in let (ys, l) := take1 l in
  let (g, _) := take_grid xs ys l in [b2z (maze_ok_b xs ys g)].
(* @export pacman_maze_io *)

(* reset: in: rows cols ascii(rows*cols) -> out: x_size y_size grid state step_type reward discount *)
Definition pacman_reset_io (l : list Z) : list Z :=
  let (r, l) := take1 l in let (c, l) := take1 l in
  let (m, _) := take_grid r c l in
  let (s, t) := init m in
  [zlen m; zlen (hd [] m)] ++ concat (grid s) ++ enc_state s ++ enc_ts t.
(* @export pacman_reset_io *)

(* the constants the proofs speak about: default maze sizes, wrap selectors, default limit, maze_ok of the default maze *)
Definition pacman_consts_io (l : list Z) : list Z :=
  [X_SIZE; Y_SIZE; xmod X_SIZE Y_SIZE; ymod X_SIZE Y_SIZE; DEFAULT_TIME_LIMIT; b2z (maze_ok_b X_SIZE Y_SIZE MAZE)]
  ++ concat DEFAULT_MAZE_ASCII.
(* @export pacman_consts_io *)
