(* PacMan, the ghosts' choice set modelled EXACTLY (utils.ghost_move / check_ghost_wall_collisions).
   Model/PacMan.v treats the four ghost actions as draws constrained by [ghost_draw_ok], a superset (any non-backtracking
   neighbour seen free).  Here the set jax.random.choice really samples from is spelled out:
     waiting ghost (ghost_start >= 0): 4;   straight corridor (valids = 1010 / 0101): the previous action;
     otherwise: the neighbours k in 0..3 (left, up, right, down; raw (row, col), no wrap) whose masked distance equals the
     minimum, where masked distance = distance to the ghost's target when the neighbour is seen free by the clamping
     gather and is not old_ghost_locations[i], +inf otherwise (all four when none qualifies: inf == inf).
   The random part is only the choice inside this set: softmax of logits {1, -1e9} is uniform on the set and exactly 0
   elsewhere in float32, and weighted_actions[k] = k * 1 = k on the set.
   Targets, as the code computes them (state = the state with last_direction already replaced by the new action a):
     ghost_init_steps[i] > 0 : (row, col) = (init_target[1], init_target[0])
     frightened_state_time > 0 : (scatter_target[0], scatter_target[1])     (sic: read as (row, col) although stored (col, row))
     ghost 0: the player (px, py);   ghost 1: player_step(a, steps=4) = (X4, Y4) read as (row, col) = (Y4, X4) (sic);
     ghost 2: vector sum of the two previous direction vectors;   ghost 3: as ghost 0 when its squared distance to the player
     exceeds 64, else the scatter target.
   Distances: the code compares float32 norms sqrt(dr^2 + dc^2); the model compares the integers dr^2 + dc^2.  float32 sqrt
   is strictly increasing on integers below 2^22 (consecutive roots differ by more than one ulp), i.e. for every maze up
   to about 700 x 700; `> 8` is `squared > 64` exactly.
   No proofs here (see Proofs/PacMan_Ghost.v). *)
Require Import JV.Base.Prelude JV.Base.JaxIndex JV.Base.Codec JV.Base.TimeStep JV.Gen.PacManConsts JV.Model.PacMan.

Definition norm2 (a b : Z) : Z := a * a + b * b.
(* get_directions(Position(x=tx, y=ty), (row, col)) = [row - ty, col - tx] *)
Definition dir_to (ty tx : Z) (p : pos) : Z * Z := (fst p - ty, snd p - tx).
Definition dist_to (ty tx : Z) (p : pos) : Z := norm2 (fst (dir_to ty tx p)) (snd (dir_to ty tx p)).

(* the squared distance the code attaches to the neighbour p = (row, col) of ghost i standing on column c, row r *)
Definition ghost_dist (xs ys : Z) (s : state) (a i c r : Z) (p : pos) : Z :=
  let x := px s in let y := py s in
  let sct := gpos (scatter s) i in
  let it := gpos (init_targets s) i in
  let '(x4, y4) := player_step xs ys x y a 4 in
  let red := dist_to x y p in
  let scared := dist_to (fst sct) (snd sct) p in
  if 0 <? znth 0 (g_init_steps s) i then dist_to (snd it) (fst it) p
  else if 0 <? fright s then scared
  else if i <=? 0 then red
  else if i =? 1 then dist_to y4 x4 p
  else if i =? 2 then norm2 (fst (dir_to x y p) + fst (dir_to y4 x4 p)) (snd (dir_to x y p) + snd (dir_to y4 x4 p))
  else if 64 <? norm2 (c - y) (r - x) then red else scared.

(* valid_no_back == 1 *)
Definition nb_valid (g : list (list Z)) (oc orw : Z) (p : pos) : bool :=
  gget 0 g (fst p) (snd p) * b2z (negb ((fst p =? orw) && (snd p =? oc))) =? 1.

Fixpoint min_valid (valid : pos -> bool) (dist : pos -> Z) (l : list pos) : option Z :=
  match l with
  | [] => None
  | p :: t => let m := min_valid valid dist t in
              if valid p then Some (match m with Some v => Z.min (dist p) v | None => dist p end) else m
  end.
(* masked_dist == minimum_distance *)
Definition cands (valid : pos -> bool) (dist : pos -> Z) (l : list pos) : list bool :=
  match min_valid valid dist l with
  | None => map (fun _ => true) l
  | Some m => map (fun p => valid p && (dist p =? m)) l
  end.

Definition ghost_cands (xs ys : Z) (s : state) (a i : Z) : list bool :=
  let c := fst (gpos (ghosts s) i) in let r := snd (gpos (ghosts s) i) in
  cands (nb_valid (grid s) (fst (gpos (old_ghosts s) i)) (snd (gpos (old_ghosts s) i))) (ghost_dist xs ys s a i c r) (ghost_nbrs c r).

(* d is an action ghost_move can return for ghost i in state s when the player's action is a *)
Definition ghost_exact (xs ys : Z) (s : state) (a i d : Z) : bool :=
  let c := fst (gpos (ghosts s) i) in let r := snd (gpos (ghosts s) i) in
  if znth 0 (g_starts s) i <? 0 then
    if in_tunnel (ghost_valids (grid s) c r) then d =? znth 0 (g_actions s) i
    else (0 <=? d) && (d <? 4) && znth false (ghost_cands xs ys s a i) d
  else d =? 4.
Definition draws_exact (xs ys : Z) (s : state) (a : Z) (draws : list Z) : list bool :=
  map (fun i => ghost_exact xs ys s a i (znth 0 draws i)) idx4.
Definition exact_draw (xs ys : Z) (s : state) (a : Z) (draws : list Z) : bool :=
  forallb (fun b => b) (draws_exact xs ys s a draws).
(* the whole set per ghost, as flags for d = 0..4 *)
Definition ghost_set (xs ys : Z) (s : state) (a i : Z) : list bool := map (ghost_exact xs ys s a i) [0; 1; 2; 3; 4].

(* in: state action draws(4)   out: draws_exact(4) ghost_set(ghost 0)(5) .. ghost_set(ghost 3)(5) *)
Definition pacman_ghost_io (l : list Z) : list Z :=
  let '((xs, ys, s), l) := dec_state l in
  let (a, l) := take1 l in let (d, _) := taken 4 l in
  unbools (draws_exact xs ys s a d) ++ concat (map (fun i => unbools (ghost_set xs ys s a i)) idx4).
(* @export pacman_ghost_io *)
