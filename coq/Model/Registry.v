(* Model of jumanji/registration.py: ENV_NAME_RE / parse_env_id / get_env_id / register / make.
   Strings are lists of code points.  Scope: ASCII ids (Python's \w and \d also accept non-ASCII
   letters/digits; the harness samples those separately and the evidence says so).
   ENV_NAME_RE = ^(?:(?P<name>[\w:.-]+?))(?:-v(?P<version>\d+))?$  with fullmatch: the NON-GREEDY name
   makes the engine try the shortest non-empty name first; the rest must be empty or "-v" digits+.     *)
Require Import JV.Base.Prelude JV.Base.Codec.
From Coq Require Import Decimal DecimalN NArith.

Definition str := list Z.
Definition is_digit (c : Z) : bool := (48 <=? c) && (c <=? 57).
Definition is_word (c : Z) : bool :=
  is_digit c || ((65 <=? c) && (c <=? 90)) || ((97 <=? c) && (c <=? 122)) || (c =? 95).
Definition name_char (c : Z) : bool := is_word c || (c =? 58) || (c =? 46) || (c =? 45).   (* : . - *)

Definition all_digits (l : str) : bool := forallb is_digit l.
(* the tail after the name: Some None = empty (no version), Some (Some ds) = "-v" ds with ds digits+ *)
Definition suffix (rest : str) : option (option str) :=
  match rest with
  | [] => Some None
  | a :: b :: ds =>
      if (a =? 45) && (b =? 118) && negb (Nat.eqb (length ds) 0) && all_digits ds then Some (Some ds) else None
  | _ => None
  end.

Fixpoint uint_of (l : str) : uint :=
  match l with
  | [] => Nil
  | c :: r =>
      let u := uint_of r in
      if c =? 48 then D0 u else if c =? 49 then D1 u else if c =? 50 then D2 u else if c =? 51 then D3 u
      else if c =? 52 then D4 u else if c =? 53 then D5 u else if c =? 54 then D6 u else if c =? 55 then D7 u
      else if c =? 56 then D8 u else D9 u
  end.
Fixpoint digits (u : uint) : str :=
  match u with
  | Nil => []
  | D0 u => 48 :: digits u | D1 u => 49 :: digits u | D2 u => 50 :: digits u | D3 u => 51 :: digits u
  | D4 u => 52 :: digits u | D5 u => 53 :: digits u | D6 u => 54 :: digits u | D7 u => 55 :: digits u
  | D8 u => 56 :: digits u | D9 u => 57 :: digits u
  end.
Definition int_of (ds : str) : N := N.of_uint (uint_of ds).       (* int(version) *)
Definition str_of (v : N) : str := digits (N.to_uint v).           (* f"{version}" *)

Inductive parsed := Malformed | VersionMissing (name : str) | Parsed (name : str) (version : N).

(* pre = the name matched so far, reversed (non-empty); try the shortest name first *)
Fixpoint parse_from (pre : str) (rest : str) : parsed :=
  match suffix rest with
  | Some None => VersionMissing (List.rev pre)
  | Some (Some ds) => Parsed (List.rev pre) (int_of ds)
  | None =>
      match rest with
      | [] => Malformed
      | c :: r => if name_char c then parse_from (c :: pre) r else Malformed
      end
  end.

Definition parse_env_id (s : str) : parsed :=
  match s with
  | [] => Malformed
  | c :: r => if name_char c then parse_from [c] r else Malformed
  end.

Definition get_env_id (name : str) (v : N) : str := name ++ 45 :: 118 :: str_of v.

(* ---- the registry ---- *)
Definition str_eqb (a b : str) : bool := list_eqb Z.eqb a b.
Record env_spec := mkSpec { es_id : str; es_entry : str; es_kwargs : list (str * Z) }.   (* kwarg values: opaque codes *)
Definition registry := list (str * env_spec).

Fixpoint lookup (R : registry) (id : str) : option env_spec :=
  match R with [] => None | (k, v) :: r => if str_eqb k id then Some v else lookup r id end.

Inductive reg_result := RegOk (R : registry) | RegMalformed | RegVersionMissing | RegOverride.

Definition register (R : registry) (id entry : str) (kwargs : list (str * Z)) : reg_result :=
  match parse_env_id id with
  | Malformed => RegMalformed
  | VersionMissing _ => RegVersionMissing
  | Parsed name v =>
      let env_id := get_env_id name v in
      match lookup R env_id with
      | Some _ => RegOverride
      | None => RegOk (R ++ [(env_id, mkSpec env_id entry kwargs)])
      end
  end.

(* dict.copy(); update(kwargs): caller's values win, registered keys keep their order, new keys appended *)
Fixpoint override (base extra : list (str * Z)) : list (str * Z) :=
  match extra with
  | [] => base
  | (k, v) :: r =>
      override (if existsb (fun p => str_eqb (fst p) k) base
                then map (fun p => if str_eqb (fst p) k then (k, v) else p) base
                else base ++ [(k, v)]) r
  end.

Inductive make_result := MakeOk (entry : str) (kwargs : list (str * Z)) | MakeMalformed | MakeVersionMissing
                       | MakeUnregistered (registered : list str).

Definition make (R : registry) (id : str) (kwargs : list (str * Z)) : make_result :=
  match parse_env_id id with
  | Malformed => MakeMalformed
  | VersionMissing _ => MakeVersionMissing
  | Parsed name v =>
      match lookup R (get_env_id name v) with
      | None => MakeUnregistered (map fst R)
      | Some sp => MakeOk (es_entry sp) (override (es_kwargs sp) kwargs)
      end
  end.

(* ---- wire ---- *)
Definition enc_str (s : str) : list Z := zlen s :: s.
Definition dec_str (l : list Z) : str * list Z := let (n, l) := take1 l in taken n l.
Definition enc_parsed (p : parsed) : list Z :=
  match p with
  | Malformed => [0]
  | VersionMissing n => 1 :: enc_str n
  | Parsed n v => 2 :: Z.of_N v :: enc_str n
  end.
Definition registry_parse_io (l : list Z) : list Z := enc_parsed (parse_env_id l).
(* @export registry_parse_io *)
Definition registry_format_io (l : list Z) : list Z :=
  let (v, name) := take1 l in get_env_id name (Z.to_N v).
(* @export registry_format_io *)

(* ops: 0 = register id entry nkw kwargs ; 1 = make id nkw kwargs ; output one record per op *)
Definition dec_kwargs (l : list Z) : list (str * Z) * list Z :=
  let (n, l) := take1 l in
  dec_many (fun l => let (k, l) := dec_str l in let (v, l) := take1 l in ((k, v), l)) (Z.to_nat n) l.
Definition enc_kwargs (kw : list (str * Z)) : list Z :=
  zlen kw :: concat (map (fun p => enc_str (fst p) ++ [snd p]) kw).

Fixpoint run_ops (fuel : nat) (R : registry) (l : list Z) : list Z :=
  match fuel with
  | O => []
  | S f =>
      match l with
      | [] => []
      | 0 :: l =>
          let (id, l) := dec_str l in let (entry, l) := dec_str l in let (kw, l) := dec_kwargs l in
          match register R id entry kw with
          | RegOk R' => 10 :: run_ops f R' l
          | RegMalformed => 11 :: run_ops f R l
          | RegVersionMissing => 12 :: run_ops f R l
          | RegOverride => 13 :: run_ops f R l
          end
      | _ :: l =>
          let (id, l) := dec_str l in let (kw, l) := dec_kwargs l in
          match make R id kw with
          | MakeOk entry kws => (20 :: enc_str entry ++ enc_kwargs kws) ++ run_ops f R l
          | MakeMalformed => 21 :: run_ops f R l
          | MakeVersionMissing => 22 :: run_ops f R l
          | MakeUnregistered ids => (23 :: zlen ids :: concat (map enc_str ids)) ++ run_ops f R l
          end
      end
  end.
Definition registry_ops_io (l : list Z) : list Z := run_ops (length l) [] l.
(* @export registry_ops_io *)

(* ---- the shipped registry (Gen/RegistryData.v dumps jumanji.registration._REGISTRY by value) ---- *)
(* the regex the model implements, as the code points of ENV_NAME_RE.pattern *)
Definition modelled_pattern : str :=
  [94;40;63;58;40;63;80;60;110;97;109;101;62;91;92;119;58;46;45;93;43;63;41;41;40;63;58;45;118;40;63;80;60;118;101;114;115;105;111;110;62;92;100;43;41;41;63;36].

(* replaying `register(id, entry)` for every shipped id from the empty registry succeeds each time *)
Fixpoint register_all (R : registry) (l : list (str * str)) : option registry :=
  match l with
  | [] => Some R
  | (id, entry) :: r => match register R id entry [] with RegOk R' => register_all R' r | _ => None end
  end.
Definition canonical_b (id : str) : bool :=
  match parse_env_id id with Parsed n v => str_eqb (get_env_id n v) id | _ => false end.
Definition shipped_ok_b (pattern : str) (l : list (str * str)) : bool :=
  str_eqb pattern modelled_pattern
  && forallb (fun p => canonical_b (fst p)) l
  && match register_all [] l with Some R => list_eqb str_eqb (map fst R) (map fst l) | None => false end.
