(* Executable model of jumanji/environments/routing/robot_warehouse
   (env.py, utils.py, utils_agent.py, utils_shelf.py, utils_spawn.py, generator.py).
   Impl layer: [step] (get_valid_actions -> sequential scan over the agents -> collision test -> scan over
   the goals with the re-request draw), [compute_mask], [agent_obs] (the writer with dynamic_update_slice
   semantics over the padded sensor window), [gen] (RandomGenerator over explicit draws) mirror the code's
   algorithm; JAX gather / scatter behaviour is written through jget / jset / gget / gset / dyn_start.
   Rules layer: [legal_b], [Inv], [view_spec], [gen_wf] are an independent declarative statement over the
   agent / shelf TABLES.  No proofs here (see Proofs/RobotWarehouse*.v).

   Coordinates as in the code: position.x is the ROW (0 <= x < gh), position.y the COLUMN (0 <= y < gw);
   grid[_SHELVES] = [gsh], grid[_AGENTS] = [gag] hold id+1 (0 = empty).  The PRNG key is not modelled: the
   shelf id drawn for the request queue on a delivery is an explicit argument (one per goal), recovered by the
   harness from the successor state and required to satisfy [draws_ok].                                       *)
Require Import JV.Base.Prelude JV.Base.JaxIndex JV.Base.Codec JV.Base.TimeStep.

Record cfg := mkC { srows : Z; scols : Z; cheight : Z; nag : Z; srange : Z; qsz : Z; tlim : Z }.
Record agent := mkA { ax : Z; ay : Z; adir : Z; acar : bool }.
Record shelf := mkSh { sx : Z; sy : Z; sreq : bool }.
Record state := mkS { gsh : list (list Z); gag : list (list Z); agents : list agent; shelves : list shelf;
                      queue : list Z; cnt : Z; amask : list (list bool) }.
(* the part of the state threaded through the scan over the agents *)
Record world := mkW { w_gs : list (list Z); w_ga : list (list Z); w_ag : list agent; w_sh : list shelf }.

Definition dA := mkA 0 0 0 false.
Definition dSh := mkSh 0 0 false.

Fixpoint map2 {A B C} (f : A -> B -> C) (a : list A) (b : list B) : list C :=
  match a, b with x :: a', y :: b' => f x y :: map2 f a' b' | _, _ => [] end.

Definition NOOP := 0. Definition FORWARD := 1. Definition LEFT := 2. Definition RIGHT := 3. Definition TOGGLE := 4.

(* ---------- generator.py: the warehouse layout ---------- *)
Definition gh (c : cfg) : Z := (cheight c + 1) * srows c + 2.
Definition gw (c : cfg) : Z := 3 * scols c + 1.
Definition highway_b (c : cfg) (x y : Z) : bool :=
  (y mod 3 =? 0) || (x mod (cheight c + 1) =? 0) || (x =? gh c - 1)
  || ((gh c - (cheight c + 3) <? x) && ((y =? gw c / 2 - 1) || (y =? gw c / 2))).
Definition highways (c : cfg) : list (list bool) :=
  map (fun x => map (fun y => highway_b c x y) (zrange (gw c))) (zrange (gh c)).
(* jnp.argwhere(non_highways): row-major *)
Definition shelf_cells (c : cfg) : list (Z * Z) :=
  concat (map (fun x => map (fun y => (x, y)) (filter (fun y => negb (highway_b c x y)) (zrange (gw c)))) (zrange (gh c))).
Definition nshelves (c : cfg) : Z := zlen (shelf_cells c).
(* goals are stored as (y, x) *)
Definition goals (c : cfg) : list (Z * Z) := [(gw c / 2 - 1, gh c - 1); (gw c / 2, gh c - 1)].

(* ---------- utils_agent.py ---------- *)
(* get_new_position_after_forward: lax.switch clamps the branch index; moves are clamped to the grid *)
Definition fwd_pos (H W x y d : Z) : Z * Z :=
  let d' := Z.max 0 (Z.min 3 d) in
  if d' =? 0 then (Z.max 0 (x - 1), y)
  else if d' =? 1 then (x, Z.min (W - 1) (y + 1))
  else if d' =? 2 then (Z.min (H - 1) (x + 1), y)
  else (x, Z.max 0 (y - 1)).

(* utils.is_valid_action *)
Definition valid_action (H W : Z) (gs : list (list Z)) (a : agent) (act : Z) : bool :=
  let p := fwd_pos H W (ax a) (ay a) (adir a) in
  negb ((act =? FORWARD) && acar a && negb ((ax a =? fst p) && (ay a =? snd p))
        && negb (gget 0 gs (fst p) (snd p) =? 0)).
(* utils.compute_action_mask *)
Definition compute_mask (H W : Z) (gs : list (list Z)) (ags : list agent) : list (list bool) :=
  map (fun a => map (valid_action H W gs a) (zrange 5)) ags.

(* utils.get_valid_actions: action_mask[action] is a gather *)
Definition sanitize1 (row : list bool) (a : Z) : Z := if jget false row a then a else 0.
Definition sanitize (mask : list (list bool)) (acts : list Z) : list Z := map2 sanitize1 mask acts.

Definition set_carry (w : world) (i : Z) (a : agent) (b : bool) : world :=
  mkW (w_gs w) (w_ga w) (jset (w_ag w) i (mkA (ax a) (ay a) (adir a) b)) (w_sh w).

(* env._update_state for agent i (tree_slice = gather, tree_add_element = scatter) *)
Definition act_agent (H W : Z) (hw : list (list bool)) (w : world) (act i : Z) : world :=
  let a := jget dA (w_ag w) i in
  let ishw := gget false hw (ax a) (ay a) in
  if act =? FORWARD then
    (* set_new_position_after_forward *)
    let p := fwd_pos H W (ax a) (ay a) (adir a) in
    let ag' := jset (w_ag w) i (mkA (fst p) (snd p) (adir a) (acar a)) in
    let ga' := gset (gset (w_ga w) (ax a) (ay a) 0) (fst p) (snd p) (i + 1) in
    if acar a then
      (* set_new_shelf_position_if_carrying *)
      let sid := gget 0 (w_gs w) (ax a) (ay a) in
      let sh := jget dSh (w_sh w) (sid - 1) in
      mkW (gset (gset (w_gs w) (ax a) (ay a) 0) (fst p) (snd p) sid) ga' ag'
          (jset (w_sh w) (sid - 1) (mkSh (fst p) (snd p) (sreq sh)))
    else mkW (w_gs w) ga' ag' (w_sh w)
  else if (act =? LEFT) || (act =? RIGHT) then
    (* rotate_agent: [0, 0, -1, 1, 0][action], (direction + change) % 4 *)
    mkW (w_gs w) (w_ga w)
        (jset (w_ag w) i (mkA (ax a) (ay a) ((adir a + (if act =? LEFT then -1 else 1)) mod 4) (acar a))) (w_sh w)
  else if act =? TOGGLE then
    (* set_carrying_shelf_if_load_toggled_and_not_carrying *)
    if negb (acar a) then
      (if 0 <? gget 0 (w_gs w) (ax a) (ay a) then set_carry w i a true else w)
    else (if negb ishw then set_carry w i a false else w)
  else w.   (* NOOP and every other integer leave everything untouched *)

Fixpoint scan_agents (H W : Z) (hw : list (list bool)) (w : world) (acts : list Z) (i : Z) : world :=
  match acts with
  | [] => w
  | a :: r => scan_agents H W hw (act_agent H W hw w a i) r (i + 1)
  end.

(* utils.is_collision, any over the agents *)
Fixpoint collisions (ga : list (list Z)) (ags : list agent) (i : Z) : bool :=
  match ags with
  | [] => false
  | a :: r => negb (gget 0 ga (ax a) (ay a) =? i + 1) || collisions ga r (i + 1)
  end.

(* ---------- env._update_reward_and_request_queue ---------- *)
Fixpoint first_idx_from (v : Z) (l : list Z) (i : Z) : option Z :=
  match l with [] => None | x :: r => if x =? v then Some i else first_idx_from v r (i + 1) end.
(* jnp.argwhere(queue == v, size=1): first match, fill 0 *)
Definition first_idx (v : Z) (l : list Z) : Z := match first_idx_from v l 0 with Some i => i | None => 0 end.
(* utils_shelf.update_shelf(shelves, j, "is_requested", b) *)
Definition set_req (shs : list shelf) (j : Z) (b : bool) : list shelf :=
  let sh := jget dSh shs j in jset shs j (mkSh (sx sh) (sy sh) b).
Definition in_queue (q : list Z) (sid : Z) : bool := existsb (fun r => r + 1 =? sid) q.
Definition delivered (gs : list (list Z)) (q : list Z) (goal : Z * Z) : bool :=
  let sid := gget 0 gs (snd goal) (fst goal) in negb (sid =? 0) && in_queue q sid.

Definition goal_step (gs : list (list Z)) (st : list Z * list shelf * Z) (goal : Z * Z) (draw : Z) : list Z * list shelf * Z :=
  let '(q, shs, rew) := st in
  let sid := gget 0 gs (snd goal) (fst goal) in
  if delivered gs q goal then
    (jset q (first_idx (sid - 1) q) draw, set_req (set_req shs (sid - 1) false) draw true, rew + 1)
  else st.
Fixpoint goals_scan (gs : list (list Z)) (st : list Z * list shelf * Z) (gl : list (Z * Z)) (draws : list Z) :=
  match gl with
  | [] => st
  | g :: r => goals_scan gs (goal_step gs st g (hd 0 draws)) r (tl draws)
  end.
(* what the recovered draws must satisfy: jax.random.choice over setdiff1d(shelf_ids, request_queue) *)
Fixpoint draws_ok (m : Z) (gs : list (list Z)) (st : list Z * list shelf * Z) (gl : list (Z * Z)) (draws : list Z) : bool :=
  match gl with
  | [] => true
  | g :: r =>
      (if delivered gs (fst (fst st)) g
       then (0 <=? hd 0 draws) && (hd 0 draws <? m) && negb (existsb (Z.eqb (hd 0 draws)) (fst (fst st)))
       else true)
      && draws_ok m gs (goal_step gs st g (hd 0 draws)) r (tl draws)
  end.

(* ---------- env.step ---------- *)
Definition world_of (s : state) : world := mkW (gsh s) (gag s) (agents s) (shelves s).
Definition moved (c : cfg) (s : state) (acts : list Z) : world :=
  scan_agents (gh c) (gw c) (highways c) (world_of s) (sanitize (amask s) acts) 0.
Definition collided (c : cfg) (s : state) (acts : list Z) : bool :=
  let w := moved c s acts in collisions (w_ga w) (w_ag w) 0.

Definition step (c : cfg) (s : state) (acts draws : list Z) : state * tstep :=
  let w := moved c s acts in
  let coll := collisions (w_ga w) (w_ag w) 0 in
  let '(q, shs, rew) := goals_scan (w_gs w) (queue s, w_sh w, 0) (goals c) draws in
  let n := cnt s + 1 in
  let done := coll || (tlim c <=? n) in
  (mkS (w_gs w) (w_ga w) (w_ag w) shs q n (compute_mask (gh c) (gw c) (w_gs w) (w_ag w)),
   cond_done 1 done [rew]).

(* ---------- observation: utils.make_agent_observation ---------- *)
Definition nsens (r : Z) : Z := (1 + 2 * r) * (1 + 2 * r).
Definition nfeat (r : Z) : Z := 8 + (nsens r - 1) * 5 + nsens r * 2.
Definition one_hot4 (d : Z) : list Z := map (fun k => b2z (k =? d)) [0; 1; 2; 3].
(* write_to_observation: lax.dynamic_update_slice clamps the start so that the slice fits *)
Definition write (o : list Z * Z) (data : list Z) : list Z * Z :=
  let s := dyn_start (zlen (fst o)) (zlen data) (snd o) in
  (firstn_z s (fst o) ++ data ++ skipn_z (s + zlen data) (fst o), snd o + zlen data).
(* jnp.pad(layer, r) then lax.dynamic_slice at (x, y) of size (2r+1, 2r+1), flattened *)
Definition pad_get (g : list (list Z)) (H W r i j : Z) : Z :=
  if (r <=? i) && (i <? H + r) && (r <=? j) && (j <? W + r) then gat 0 g (i - r) (j - r) else 0.
Definition sensor (g : list (list Z)) (H W r x y : Z) : list Z :=
  let s1 := dyn_start (H + 2 * r) (2 * r + 1) x in
  let s2 := dyn_start (W + 2 * r) (2 * r + 1) y in
  concat (map (fun di => map (fun dj => pad_get g H W r (s1 + di) (s2 + dj)) (zrange (2 * r + 1))) (zrange (2 * r + 1))).

Definition agent_sensor_step (ags : list agent) (i : Z) (o : list Z * Z) (v : Z) : list Z * Z :=
  if (v =? 0) || (v =? i + 1) then (fst o, if v =? i + 1 then snd o else snd o + 5)
  else write (write o [1]) (one_hot4 (adir (jget dA ags (v - 1)))).
Definition shelf_sensor_step (shs : list shelf) (o : list Z * Z) (v : Z) : list Z * Z :=
  if v =? 0 then (fst o, snd o + 2) else write o [1; b2z (sreq (jget dSh shs (v - 1)))].

Definition agent_obs (c : cfg) (s : state) (i : Z) : list Z :=
  let a := jget dA (agents s) i in
  let r := srange c in
  let va := sensor (gag s) (gh c) (gw c) r (ax a) (ay a) in
  let vs := sensor (gsh s) (gh c) (gw c) r (ax a) (ay a) in
  let o := (repeat 0 (Z.to_nat (nfeat r)), 0) in
  let o := write o [ax a; ay a; b2z (acar a)] in
  let o := write o (one_hot4 (adir a)) in
  let o := write o [b2z (gget false (highways c) (ax a) (ay a))] in
  let o := fold_left (agent_sensor_step (agents s) i) va o in
  let o := fold_left (shelf_sensor_step (shelves s)) vs o in
  fst o.
Definition observe (c : cfg) (s : state) : list (list Z) := map (agent_obs c s) (zrange (nag c)).

(* ---------- generator: RandomGenerator over explicit draws ---------- *)
Fixpoint place (g : list (list Z)) (ps : list (Z * Z)) (i : Z) : list (list Z) :=
  match ps with [] => g | p :: r => place (gset g (fst p) (snd p) (i + 1)) r (i + 1) end.
Definition zero_grid (H W : Z) : list (list Z) := repeat (repeat 0 (Z.to_nat W)) (Z.to_nat H).
(* cells: num_agents distinct flat cell indices (choice without replacement, unravel_index);
   dirs: their directions; q: the request queue (choice without replacement among the shelf ids) *)
Definition gen (c : cfg) (cells dirs q : list Z) : state :=
  let H := gh c in let W := gw c in
  let ags := map2 (fun cell d => mkA (cell / W) (cell mod W) d false) cells dirs in
  let shs := map2 (fun p j => mkSh (fst p) (snd p) (existsb (Z.eqb j) q)) (shelf_cells c) (zrange (nshelves c)) in
  let ga := place (zero_grid H W) (map (fun a => (ax a, ay a)) ags) 0 in
  let gs := place (zero_grid H W) (shelf_cells c) 0 in
  mkS gs ga ags shs q 0 (compute_mask H W gs ags).
Definition init (c : cfg) (cells dirs q : list Z) : state * tstep := (gen c cells dirs q, restart 1).

Fixpoint nodup_b (l : list Z) : bool :=
  match l with [] => true | x :: r => negb (existsb (Z.eqb x) r) && nodup_b r end.
Definition valid_gen_draws (c : cfg) (cells dirs q : list Z) : bool :=
  (zlen cells =? nag c) && forallb (fun x => (0 <=? x) && (x <? gh c * gw c)) cells && nodup_b cells
  && (zlen dirs =? nag c) && forallb (fun d => (0 <=? d) && (d <=? 3)) dirs
  && (zlen q =? qsz c) && forallb (fun j => (0 <=? j) && (j <? nshelves c)) q && nodup_b q.

(* ================= declarative side (Rules) ================= *)
Definition dims (g : list (list Z)) (R C : Z) : Prop := zlen g = R /\ Forall (fun r => zlen r = C) g.
Definition dims_b (g : list (list Z)) (R C : Z) : bool := (zlen g =? R) && forallb (fun r => zlen r =? C) g.
Definition inside (c : cfg) (x y : Z) : Prop := 0 <= x < gh c /\ 0 <= y < gw c.
Definition inside_b (c : cfg) (x y : Z) : bool := (0 <=? x) && (x <? gh c) && (0 <=? y) && (y <? gw c).

(* the cell in front of an agent: up / right / down / left = x-1 / y+1 / x+1 / y-1 *)
Definition ahead (x y d : Z) : Z * Z :=
  if d =? 0 then (x - 1, y) else if d =? 1 then (x, y + 1) else if d =? 2 then (x + 1, y) else (x, y - 1).
Definition shelf_at (shs : list shelf) (x y : Z) : bool := existsb (fun sh => (sx sh =? x) && (sy sh =? y)) shs.
(* The rule, stated on the shelf TABLE: every action is legal except FORWARD by an agent that carries a shelf
   when the cell ahead is inside the grid and holds another shelf.  (FORWARD against the border is legal: it
   leaves the agent where it is.) *)
Definition legal_b (c : cfg) (shs : list shelf) (a : agent) (act : Z) : bool :=
  let p := ahead (ax a) (ay a) (adir a) in
  negb ((act =? FORWARD) && acar a && inside_b c (fst p) (snd p) && shelf_at shs (fst p) (snd p)).
Definition legal_mask (c : cfg) (s : state) : list (list bool) :=
  map (fun a => map (legal_b c (shelves s) a) (zrange 5)) (agents s).

Definition agent_ok (c : cfg) (a : agent) : Prop := inside c (ax a) (ay a) /\ 0 <= adir a <= 3.
Definition agent_ok_b (c : cfg) (a : agent) : bool := inside_b c (ax a) (ay a) && (0 <=? adir a) && (adir a <=? 3).
Definition shelf_ok (c : cfg) (sh : shelf) : Prop := inside c (sx sh) (sy sh).

(* the grid layers agree with the tables (a bijection between non-zero cells and table rows) *)
Definition layer_of_table (g : list (list Z)) (pos : Z -> Z * Z) (n : Z) : Prop :=
  forall i, 0 <= i < n -> gat 0 g (fst (pos i)) (snd (pos i)) = i + 1.
Definition table_of_layer (c : cfg) (g : list (list Z)) (pos : Z -> Z * Z) (n : Z) : Prop :=
  forall x y, inside c x y -> gat 0 g x y <> 0 -> 1 <= gat 0 g x y <= n /\ pos (gat 0 g x y - 1) = (x, y).
Definition apos (ags : list agent) (i : Z) : Z * Z := let a := znth dA ags i in (ax a, ay a).
Definition spos (shs : list shelf) (i : Z) : Z * Z := let a := znth dSh shs i in (sx a, sy a).

(* consistency of the part of the state touched by the agents' moves *)
Record WInv (c : cfg) (n m : Z) (w : world) : Prop := {
  wi_dgs : dims (w_gs w) (gh c) (gw c);
  wi_dga : dims (w_ga w) (gh c) (gw c);
  wi_nag : zlen (w_ag w) = n;
  wi_nsh : zlen (w_sh w) = m;
  wi_aok : Forall (agent_ok c) (w_ag w);
  wi_sok : Forall (shelf_ok c) (w_sh w);
  wi_a1 : layer_of_table (w_ga w) (apos (w_ag w)) n;          (* one agent per cell, marked on the layer *)
  wi_a2 : table_of_layer c (w_ga w) (apos (w_ag w)) n;        (* no stray marks *)
  wi_s1 : layer_of_table (w_gs w) (spos (w_sh w)) m;          (* one shelf per cell, marked on the layer *)
  wi_s2 : table_of_layer c (w_gs w) (spos (w_sh w)) m;
  wi_car : forall i, 0 <= i < n -> acar (znth dA (w_ag w) i) = true ->
           gat 0 (w_gs w) (fst (apos (w_ag w) i)) (snd (apos (w_ag w) i)) <> 0   (* a carried shelf is under its agent *)
}.
Definition queue_ok (m : Z) (shs : list shelf) (q : list Z) : Prop :=
  NoDup q /\ (forall j, In j q -> 0 <= j < m) /\ (forall j, 0 <= j < m -> (sreq (znth dSh shs j) = true <-> In j q)).
Record Inv (c : cfg) (s : state) : Prop := {
  inv_w : WInv c (nag c) (zlen (shelves s)) (world_of s);
  inv_q : queue_ok (zlen (shelves s)) (shelves s) (queue s) /\ zlen (queue s) = qsz c;
  inv_mask : amask s = compute_mask (gh c) (gw c) (gsh s) (agents s)
}.

(* boolean twins, run on the implementation's states *)
Definition layer_of_table_b (g : list (list Z)) (pos : Z -> Z * Z) (n : Z) : bool :=
  forallb (fun i => gat 0 g (fst (pos i)) (snd (pos i)) =? i + 1) (zrange n).
Definition table_of_layer_b (c : cfg) (g : list (list Z)) (pos : Z -> Z * Z) (n : Z) : bool :=
  forallb (fun x => forallb (fun y =>
     let v := gat 0 g x y in
     (v =? 0) || ((1 <=? v) && (v <=? n) && (fst (pos (v - 1)) =? x) && (snd (pos (v - 1)) =? y))) (zrange (gw c))) (zrange (gh c)).
Definition WInv_b (c : cfg) (n m : Z) (w : world) : bool :=
  dims_b (w_gs w) (gh c) (gw c) && dims_b (w_ga w) (gh c) (gw c)
  && (zlen (w_ag w) =? n) && (zlen (w_sh w) =? m)
  && forallb (agent_ok_b c) (w_ag w) && forallb (fun sh => inside_b c (sx sh) (sy sh)) (w_sh w)
  && layer_of_table_b (w_ga w) (apos (w_ag w)) n && table_of_layer_b c (w_ga w) (apos (w_ag w)) n
  && layer_of_table_b (w_gs w) (spos (w_sh w)) m && table_of_layer_b c (w_gs w) (spos (w_sh w)) m
  && forallb (fun i => negb (acar (znth dA (w_ag w) i))
                       || negb (gat 0 (w_gs w) (fst (apos (w_ag w) i)) (snd (apos (w_ag w) i)) =? 0)) (zrange n).
Definition queue_ok_b (m : Z) (shs : list shelf) (q : list Z) : bool :=
  nodup_b q && forallb (fun j => (0 <=? j) && (j <? m)) q
  && forallb (fun j => Bool.eqb (sreq (znth dSh shs j)) (existsb (Z.eqb j) q)) (zrange m).
Definition mask_eqb (a b : list (list bool)) : bool := list_eqb (list_eqb Bool.eqb) a b.
Definition Inv_b (c : cfg) (s : state) : bool :=
  WInv_b c (nag c) (zlen (shelves s)) (world_of s)
  && queue_ok_b (zlen (shelves s)) (shelves s) (queue s) && (zlen (queue s) =? qsz c)
  && mask_eqb (amask s) (compute_mask (gh c) (gw c) (gsh s) (agents s)).

(* number of non-empty cells of a layer (conservation of shelves) *)
Definition count_cells (g : list (list Z)) : Z := zsum (map (fun row => count_if (fun v => negb (v =? 0)) row) g).

(* ---------- the documented sensor observation, stated on the TABLES ---------- *)
Definition find_agent (ags : list agent) (x y : Z) : option agent := find (fun b => (ax b =? x) && (ay b =? y)) ags.
Definition find_shelf (shs : list shelf) (x y : Z) : option shelf := find (fun b => (sx b =? x) && (sy b =? y)) shs.
(* the (2r+1)^2 sensor cells around (x, y), row-major *)
Definition sensor_cells (r x y : Z) : list (Z * Z) :=
  concat (map (fun di => map (fun dj => (x - r + di, y - r + dj)) (zrange (2 * r + 1))) (zrange (2 * r + 1))).
Definition view_spec (c : cfg) (s : state) (i : Z) : list Z :=
  let a := znth dA (agents s) i in
  let cells := sensor_cells (srange c) (ax a) (ay a) in
  [ax a; ay a; b2z (acar a)] ++ one_hot4 (adir a) ++ [b2z (highway_b c (ax a) (ay a))]
  ++ concat (map (fun p => if (fst p =? ax a) && (snd p =? ay a) then []      (* the agent's own cell is skipped *)
                           else match find_agent (agents s) (fst p) (snd p) with
                                | Some b => 1 :: one_hot4 (adir b)
                                | None => [0; 0; 0; 0; 0]
                                end) cells)
  ++ concat (map (fun p => match find_shelf (shelves s) (fst p) (snd p) with
                           | Some sh => [1; b2z (sreq sh)]
                           | None => [0; 0]
                           end) cells).

(* ---------- generated instances (C10) ---------- *)
Definition gen_wf_b (c : cfg) (s : state) : bool :=
  Inv_b c s && (cnt s =? 0)
  && forallb (fun a => negb (acar a)) (agents s)
  && list_eqb (fun (p p' : Z * Z) => (fst p =? fst p') && (snd p =? snd p'))
              (map (fun sh => (sx sh, sy sh)) (shelves s)) (shelf_cells c)
  && forallb (fun sh => negb (highway_b c (sx sh) (sy sh))) (shelves s).

(* ---------- spec bounds (C01): agents_view has no declared bounds beyond int32; mask rows have 5 entries;
   step_count in [0, time_limit] ---------- *)
Definition spec_ok_b (c : cfg) (s : state) : bool :=
  (0 <=? cnt s) && (cnt s <=? tlim c) && (zlen (amask s) =? nag c) && forallb (fun r => zlen r =? 5) (amask s)
  && forallb (fun i => zlen (agent_obs c s i) =? nfeat (srange c)) (zrange (nag c)).

(* ================= wire format ================= *)
Definition dec_cfg (l : list Z) : cfg * list Z :=
  let (a, l) := take1 l in let (b, l) := take1 l in let (h, l) := take1 l in let (n, l) := take1 l in
  let (r, l) := take1 l in let (q, l) := take1 l in let (t, l) := take1 l in (mkC a b h n r q t, l).
Definition dec_agent (l : list Z) : agent * list Z :=
  let (x, l) := take1 l in let (y, l) := take1 l in let (d, l) := take1 l in let (k, l) := take1 l in (mkA x y d (z2b k), l).
Definition dec_shelf (l : list Z) : shelf * list Z :=
  let (x, l) := take1 l in let (y, l) := take1 l in let (k, l) := take1 l in (mkSh x y (z2b k), l).
(* state := m, shelves layer, agents layer, agents (x y dir carrying)*, shelves (x y requested)*, queue, step_count, mask *)
Definition dec_state (c : cfg) (l : list Z) : state * list Z :=
  let (m, l) := take1 l in
  let (gs, l) := take_grid (gh c) (gw c) l in
  let (ga, l) := take_grid (gh c) (gw c) l in
  let (ags, l) := dec_many dec_agent (Z.to_nat (nag c)) l in
  let (shs, l) := dec_many dec_shelf (Z.to_nat m) l in
  let (q, l) := taken (qsz c) l in
  let (k, l) := take1 l in
  let (mk, l) := take_grid (nag c) 5 l in
  (mkS gs ga ags shs q k (map bools mk), l).
Definition enc_agent (a : agent) : list Z := [ax a; ay a; adir a; b2z (acar a)].
Definition enc_shelf (a : shelf) : list Z := [sx a; sy a; b2z (sreq a)].
Definition enc_state (s : state) : list Z :=
  concat (gsh s) ++ concat (gag s) ++ concat (map enc_agent (agents s)) ++ concat (map enc_shelf (shelves s))
  ++ queue s ++ [cnt s] ++ concat (map unbools (amask s)).

(* in: cfg, state, actions (nag), draws (2)
   out: draws_ok, state', step_type, reward, discount, agents_view' *)
Definition rw_step_io (l : list Z) : list Z :=
  let (c, l) := dec_cfg l in let (s, l) := dec_state c l in
  let (acts, l) := taken (nag c) l in let (draws, _) := taken 2 l in
  let w := moved c s acts in
  let (s', t) := step c s acts draws in
  b2z (draws_ok (zlen (shelves s)) (w_gs w) (queue s, w_sh w, 0) (goals c) draws)
  :: enc_state s' ++ enc_ts t ++ concat (observe c s').
(* @export rw_step_io *)

(* in: cfg, state -> agents_view, recomputed mask *)
Definition rw_obs_io (l : list Z) : list Z :=
  let (c, l) := dec_cfg l in let (s, _) := dec_state c l in
  concat (observe c s) ++ concat (map unbools (compute_mask (gh c) (gw c) (gsh s) (agents s))).
(* @export rw_obs_io *)

(* verified checkers on IMPLEMENTATION states:
   [Inv; mask = table of legal moves; observation = documented view; spec bounds; shelves on the layer = table size] *)
Definition rw_check_io (l : list Z) : list Z :=
  let (c, l) := dec_cfg l in let (s, _) := dec_state c l in
  [ b2z (Inv_b c s);
    b2z (mask_eqb (amask s) (legal_mask c s));
    b2z (list_eqb (list_eqb Z.eqb) (observe c s) (map (view_spec c s) (zrange (nag c))));
    b2z (spec_ok_b c s);
    b2z (count_cells (gsh s) =? zlen (shelves s)) ].
(* @export rw_check_io *)

(* in: cfg, cells (nag), dirs (nag), queue (qsz) -> valid draws, generated state, timestep, gen_wf *)
Definition rw_gen_io (l : list Z) : list Z :=
  let (c, l) := dec_cfg l in
  let (cells, l) := taken (nag c) l in let (dirs, l) := taken (nag c) l in let (q, _) := taken (qsz c) l in
  let (s, t) := init c cells dirs q in
  b2z (valid_gen_draws c cells dirs q) :: enc_state s ++ enc_ts t ++ [b2z (gen_wf_b c s)].
(* @export rw_gen_io *)

(* in: cfg -> gh, gw, nshelves, highways, goals (y x), shelf cells (x y) : compared with the generator's constants *)
Definition rw_layout_io (l : list Z) : list Z :=
  let (c, _) := dec_cfg l in
  [gh c; gw c; nshelves c; nfeat (srange c)] ++ concat (map unbools (highways c))
  ++ concat (map (fun g => [fst g; snd g]) (goals c)) ++ concat (map (fun p => [fst p; snd p]) (shelf_cells c)).
(* @export rw_layout_io *)
