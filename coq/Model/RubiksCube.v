(* Executable model of jumanji/environments/logic/rubiks_cube (env.py, utils.py, generator.py, reward.py).
   Built ON TOP of Gen/RubikTables.v: the six index tables (turning face, adjacent faces, row / column
   tables as functions of the cube size n and the depth d), the enum orders and the order of the move
   generators are T1-translated from the source on every run.  Hand-modelled here (their text is pinned by
   the translator): do_rotation, rotate_cube (lax.switch), generate_all_moves' comprehension,
   flatten/unflatten_action, scramble_solved_cube, make_solved_cube, is_solved, and env.step / reset.
   Library functions modelled by their documented meaning: jnp.rot90, jnp.roll, jnp.repeat, advanced-index
   gather (clamps) / scatter (drops), lax.switch (clamps the index).
   int8 stickers / int32 counters are modelled as unbounded integers (no wrap-around: step_count <= 2^31).
   No proofs here (see Proofs/RubiksCube*.v).                                                          *)
Require Import JV.Base.Prelude JV.Base.JaxIndex JV.Base.Codec JV.Base.TimeStep JV.Gen.RubikTables.

Definition face := list (list Z).          (* n rows of n stickers, reading order *)
Definition cube := list face.              (* 6 faces *)
Definition pos := (Z * Z * Z)%type.        (* (face, row, column) *)

(* ---------------------------------------------------------------- utils.make_solved_cube *)
Definition solved_cube (n : Z) : cube :=
  map (fun f => repeat (repeat f (Z.to_nat n)) (Z.to_nat n)) rubik_faces.

(* ---------------------------------------------------------------- utils.is_solved
   max / min over the last two axes, then array_equal of the two length-6 vectors *)
Definition lmax (l : list Z) : Z := match l with [] => 0 | x :: t => fold_left Z.max t x end.
Definition lmin (l : list Z) : Z := match l with [] => 0 | x :: t => fold_left Z.min t x end.
Definition is_solved (c : cube) : bool :=
  list_eqb Z.eqb (map (fun g => lmax (concat g)) c) (map (fun g => lmin (concat g)) c).

(* ---------------------------------------------------------------- jnp.rot90 on a square face
   tab n f = the n x n array whose (i,j) entry is f i j *)
Definition tab (n : Z) (f : Z -> Z -> Z) : face := map (fun i => map (f i) (zrange n)) (zrange n).
Definition rot_cw (n : Z) (g : face) : face := tab n (fun i j => gat 0 g (n - 1 - j) i).
Definition rot_ccw (n : Z) (g : face) : face := tab n (fun i j => gat 0 g j (n - 1 - i)).
Definition rot_half (n : Z) (g : face) : face := tab n (fun i j => gat 0 g (n - 1 - i) (n - 1 - j)).
(* jnp.rot90(g, k): k quarter turns COUNTER-clockwise, k taken mod 4 *)
Definition rot90 (n k : Z) (g : face) : face :=
  let r := k mod 4 in
  if r =? 0 then g else if r =? 1 then rot_ccw n g else if r =? 2 then rot_half n g else rot_cw n g.

(* ---------------------------------------------------------------- advanced indexing cube[faces, rows, cols] *)
Definition cget (c : cube) (p : pos) : Z :=
  let '(f, r, k) := p in gget 0 (jget [] c f) r k.                       (* gather: every index clamps *)
Definition cset (c : cube) (p : pos) (v : Z) : cube :=                  (* scatter: dropped when out of range *)
  let '(f, r, k) := p in
  let jf := jnorm (zlen c) f in
  if inb (zlen c) jf then
    let g := znth [] c jf in
    let jr := jnorm (zlen g) r in
    if inb (zlen g) jr then
      let row := znth [] g jr in
      let jk := jnorm (zlen row) k in
      if inb (zlen row) jk then zupd jf (zupd jr (zupd jk v row) g) c else c
    else c
  else c.
Definition gather (P : list pos) (c : cube) : list Z := map (cget c) P.
Definition scatter (P : list pos) (vals : list Z) (c : cube) : cube :=
  fold_left (fun c pv => cset c (fst pv) (snd pv)) (combine P vals) c.

(* jnp.roll(v, shift): result[i] = v[(i - shift) mod len] *)
Definition roll (s : Z) (v : list Z) : list Z :=
  let k := Z.to_nat ((- s) mod zlen v) in skipn k v ++ firstn k v.

(* the 4n strip positions of a move: (jnp.repeat(adjacent_faces, n), adjacent_faces_rows, adjacent_faces_columns) *)
Definition strip (n d : Z) (t : rtable) : list pos :=
  combine (combine (flat_map (fun f => repeat f (Z.to_nat n)) (t_adj t)) (eval_cat n d (t_rows t)))
          (eval_cat n d (t_cols t)).

(* ---------------------------------------------------------------- utils.do_rotation *)
Definition do_rotation (n : Z) (t : rtable) (d amount : Z) (c : cube) : cube :=
  let c1 := if d =? 0 then jset c (t_face t) (rot90 n (- amount) (jget [] c (t_face t))) else c in
  let P := strip n d t in
  scatter P (roll (n * amount) (gather P c1)) c1.

(* ---------------------------------------------------------------- utils.generate_all_moves
   [f(amount, depth) for f in generators for depth in range(cube_size // 2) for amount in CubeMovementAmount] *)
Definition move := (rtable * Z * Z)%type.     (* table, depth, amount value *)
Definition all_moves (n : Z) : list move :=
  flat_map (fun t => flat_map (fun d => map (fun a => (t, d, a)) rubik_amounts) (zrange (n / 2))) rubik_tables.
Definition apply_move (n : Z) (m : move) (c : cube) : cube :=
  let '(t, d, a) := m in do_rotation n t d a c.
Definition id_move : move := (mkRT 0 [] [] [], 1, 0).

(* utils.rotate_cube: jax.lax.switch(flattened_action, all_moves, cube) -- the index is clamped into range *)
Definition switch_clamp (len i : Z) : Z := Z.max 0 (Z.min (len - 1) i).
Definition rotate_cube (n : Z) (c : cube) (a : Z) : cube :=
  let ms := all_moves n in
  apply_move n (nth (Z.to_nat (switch_clamp (zlen ms) a)) ms id_move) c.

(* ---------------------------------------------------------------- flatten / unflatten *)
Definition action := (Z * Z * Z)%type.        (* (face, depth, amount index) *)
Definition n_amounts : Z := zlen rubik_amounts.
Definition flatten_action (n : Z) (a : action) : Z :=
  let '(f, d, am) := a in f * n_amounts * (n / 2) + d * n_amounts + am.
Definition unflatten_action (n : Z) (a : Z) : action :=
  let fd := a / n_amounts in (fd / (n / 2), fd mod (n / 2), a mod n_amounts).
Definition num_actions (n : Z) : Z := zlen rubik_faces * (n / 2) * n_amounts.

(* ---------------------------------------------------------------- utils.scramble_solved_cube + generator
   the random draw (jax.random.randint over [0, num_actions)) is an explicit argument *)
Definition scramble (n : Z) (acts : list Z) : cube := fold_left (rotate_cube n) acts (solved_cube n).
Definition valid_draw (n k : Z) (acts : list Z) : bool :=
  (zlen acts =? k) && forallb (fun a => inb (num_actions n) a) acts.

(* ---------------------------------------------------------------- env.reset / env.step *)
Record state := mkS { cube_of : cube; count : Z }.
Definition observe (s : state) : cube * Z := (cube_of s, count s).     (* _state_to_observation *)

Definition init (n : Z) (acts : list Z) : state * tstep := (mkS (scramble n acts) 0, restart 1).

(* reward code = the (integral) float reward *)
Definition step (n T : Z) (s : state) (a : action) : state * tstep :=
  let c := rotate_cube n (cube_of s) (flatten_action n a) in
  let k := count s + 1 in
  let solved := is_solved c in
  let done := (T <=? k) || solved in
  (mkS c k, cond_done 1 done [b2z solved]).

(* ---------------------------------------------------------------- declarative side *)
Definition shape (n : Z) (c : cube) : Prop :=
  zlen c = 6 /\ Forall (fun g : face => zlen g = n /\ Forall (fun row : list Z => zlen row = n) g) c.
Definition shape_b (n : Z) (c : cube) : bool :=
  (zlen c =? 6) && forallb (fun g : face => (zlen g =? n) && forallb (fun row : list Z => zlen row =? n) g) c.

Definition stickers (c : cube) : list Z := concat (map (@concat Z) c).
(* all stickers of a face carry one colour *)
Definition Uniform (g : face) : Prop := exists v, forall x, In x (concat g) -> x = v.
Definition uniform_b (g : face) : bool :=
  match concat g with [] => true | x :: t => forallb (Z.eqb x) t end.
Definition Solved (c : cube) : Prop := forall g, In g c -> Uniform g.
Definition solved_b (c : cube) : bool := forallb uniform_b c.

Definition in_spec_b (c : cube) : bool := forallb (fun x => (0 <=? x) && (x <=? 5)) (stickers c).
(* every colour 0..5 occurs exactly n*n times (a consequence of multiset conservation from the solved cube) *)
Definition balanced_b (n : Z) (c : cube) : bool :=
  forallb (fun f => count_if (Z.eqb f) (stickers c) =? n * n) rubik_faces.

(* the inverse of a flat action: same face and depth, the amount whose value is opposite mod 4 *)
Definition inv_amount (am : Z) : Z :=
  let v := znth 0 rubik_amounts am in
  match filter (fun j => (v + znth 0 rubik_amounts j) mod 4 =? 0) (zrange n_amounts) with
  | j :: _ => j | [] => am end.
Definition inv_action (n : Z) (a : Z) : Z :=
  let '(f, d, am) := unflatten_action n (switch_clamp (num_actions n) a) in
  flatten_action n (f, d, inv_amount am).
(* a solution of scramble n acts *)
Definition solution (n : Z) (acts : list Z) : list Z := map (inv_action n) (rev acts).

(* ---------------------------------------------------------------- geometric reference (physical move)
   A sticker (face,row,col) of an n-cube sits at integer coordinates (x,y,z) with the doubled-coordinate
   convention u = 2*index - (n-1) in {-(n-1),..,n-1} inside the face and +-n on the face's normal axis.
   Axes: x to the RIGHT face, y to the UP face, z to the FRONT face; reading order per face as documented in
   utils.py ("UP: LEFT face on the left and BACK face pointing up", ...). *)
Definition vec3 := (Z * Z * Z)%type.
Definition embed (n : Z) (p : pos) : vec3 :=
  let '(f, r, k) := p in
  let u := 2 * k - (n - 1) in      (* left -> right on the face *)
  let w := 2 * r - (n - 1) in      (* top -> bottom on the face *)
  if f =? face_UP then (u, n, w)            (* left = LEFT(-x), up = BACK(-z) *)
  else if f =? face_FRONT then (u, - w, n)  (* left = LEFT, up = UP *)
  else if f =? face_RIGHT then (n, - w, - u)  (* left = FRONT(+z), up = UP *)
  else if f =? face_BACK then (- u, - w, - n) (* left = RIGHT(+x), up = UP *)
  else if f =? face_LEFT then (- n, - w, u)   (* left = BACK(-z), up = UP *)
  else (u, - n, - w).                          (* DOWN: left = LEFT, up = FRONT(+z) *)
(* outward normal of a face *)
Definition normal (f : Z) : vec3 :=
  if f =? face_UP then (0, 1, 0) else if f =? face_FRONT then (0, 0, 1) else if f =? face_RIGHT then (1, 0, 0)
  else if f =? face_BACK then (0, 0, -1) else if f =? face_LEFT then (-1, 0, 0) else (0, -1, 0).
Definition dot (a b : vec3) : Z :=
  let '(a1, a2, a3) := a in let '(b1, b2, b3) := b in a1 * b1 + a2 * b2 + a3 * b3.
Definition cross (a b : vec3) : vec3 :=
  let '(a1, a2, a3) := a in let '(b1, b2, b3) := b in (a2 * b3 - a3 * b2, a3 * b1 - a1 * b3, a1 * b2 - a2 * b1).
Definition vadd (a b : vec3) : vec3 :=
  let '(a1, a2, a3) := a in let '(b1, b2, b3) := b in (a1 + b1, a2 + b2, a3 + b3).
Definition vscale (s : Z) (a : vec3) : vec3 := let '(a1, a2, a3) := a in (s * a1, s * a2, s * a3).
(* quarter turn, CLOCKWISE when looking at the face with outward normal ax (i.e. -90 degrees about ax):
   v -> (v.ax) ax - ax x v   for a unit axis *)
Definition rotate3 (ax v : vec3) : vec3 := vadd (vscale (dot v ax) ax) (vscale (-1) (cross ax v)).
Fixpoint rotate3_pow (q : nat) (ax v : vec3) : vec3 :=
  match q with O => v | S q' => rotate3 ax (rotate3_pow q' ax v) end.
(* a sticker belongs to layer d of face f when its coordinate along the normal is in the slab of that layer
   (the face stickers themselves, at +-n, belong to layer 0) *)
Definition in_layer (n : Z) (f d : Z) (v : vec3) : bool :=
  let h := dot v (normal f) in
  if d =? 0 then (n - 1 - 2 * d - 1 <=? h) else (n - 1 - 2 * d - 1 <=? h) && (h <=? n - 1 - 2 * d + 1).
(* physical move on positions: where does the sticker at p go under (face f, depth d, q clockwise quarter turns) *)
Definition all_pos (n : Z) : list pos :=
  flat_map (fun f => flat_map (fun r => map (fun k => (f, r, k)) (zrange n)) (zrange n)) rubik_faces.
Definition vec3_eqb (a b : vec3) : bool :=
  let '(a1, a2, a3) := a in let '(b1, b2, b3) := b in (a1 =? b1) && (a2 =? b2) && (a3 =? b3).
(* id_cube: the distinct-sticker cube, sticker at p = code n p *)
Definition code (n : Z) (p : pos) : Z := let '(f, r, k) := p in (f * n + r) * n + k.
Definition id_cube (n : Z) : cube :=
  map (fun f => tab n (fun r k => code n (f, r, k))) rubik_faces.
(* candidate position of a coordinate vector (validated by [embed] where it is used, so it need not be trusted) *)
Definition unembed (n : Z) (v : vec3) : pos :=
  let '(x, y, z) := v in
  let ix u := (u + (n - 1)) / 2 in
  if y =? n then (face_UP, ix z, ix x)
  else if z =? n then (face_FRONT, ix (- y), ix x)
  else if x =? n then (face_RIGHT, ix (- y), ix (- z))
  else if z =? - n then (face_BACK, ix (- y), ix (- x))
  else if x =? - n then (face_LEFT, ix (- y), ix z)
  else (face_DOWN, ix (- z), ix x).
(* check of one move on the distinct-sticker cube against the geometry: the sticker that sat at position p is
   found, after the move, at the position p' whose coordinates are the rotated coordinates of p *)
Definition physical_b (n : Z) (m : move) : bool :=
  let '(t, d, a) := m in
  let c := apply_move n m (id_cube n) in
  let q := Z.to_nat (a mod 4) in
  forallb (fun p =>
    let v := embed n p in
    let target := if in_layer n (t_face t) d v then rotate3_pow q (normal (t_face t)) v else v in
    let p' := unembed n target in
    vec3_eqb (embed n p') target && (cget c p' =? code n p)) (all_pos n).

(* ---------------------------------------------------------------- wire format *)
Definition dec_cube (n : Z) (l : list Z) : cube * list Z := dec_many (take_grid n n) 6 l.
Definition enc_cube (c : cube) : list Z := stickers c.
Definition dec_state (n : Z) (l : list Z) : state * list Z :=
  let (c, l) := dec_cube n l in let (k, l) := take1 l in (mkS c k, l).
Definition enc_state (s : state) : list Z := enc_cube (cube_of s) ++ [count s].
Definition enc_obs (o : cube * Z) : list Z := enc_cube (fst o) ++ [snd o].

(* in: n, T, cube, count, face, depth, amount -> cube', count', step_type, reward, discount, obs.cube, obs.step_count *)
Definition rubiks_step_io (l : list Z) : list Z :=
  let (n, l) := take1 l in let (T, l) := take1 l in let (s, l) := dec_state n l in
  let (f, l) := take1 l in let (d, l) := take1 l in let (am, _) := take1 l in
  let (s', t) := step n T s (f, d, am) in enc_state s' ++ enc_ts t ++ enc_obs (observe s').
(* @export rubiks_step_io *)

(* in: n, k, scramble actions (k) -> [valid_draw], reset cube, count, timestep, observation *)
Definition rubiks_init_io (l : list Z) : list Z :=
  let (n, l) := take1 l in let (k, l) := take1 l in let (acts, _) := taken k l in
  let (s, t) := init n acts in b2z (valid_draw n k acts) :: enc_state s ++ enc_ts t ++ enc_obs (observe s).
(* @export rubiks_init_io *)

(* in: n, cube, k, flat actions (k) -> the cube after applying them in order (rotate_cube) *)
Definition rubiks_moves_io (l : list Z) : list Z :=
  let (n, l) := take1 l in let (c, l) := dec_cube n l in let (k, l) := take1 l in let (acts, _) := taken k l in
  enc_cube (fold_left (rotate_cube n) acts c).
(* @export rubiks_moves_io *)

(* in: n, first flat action a0, count k: all pairs (a0 + i, b) for i < k, b < num_actions on the distinct-sticker
   cube -> concatenated results (keeps the pair sweep to a few model calls) *)
Definition rubiks_pairs_io (l : list Z) : list Z :=
  let (n, l) := take1 l in let (a0, l) := take1 l in let (k, _) := take1 l in
  let c := id_cube n in
  concat (map (fun i => let c1 := rotate_cube n c (a0 + i) in
                        concat (map (fun b => enc_cube (rotate_cube n c1 b)) (zrange (num_actions n)))) (zrange k)).
(* @export rubiks_pairs_io *)

(* verified checkers on IMPLEMENTATION states: shape, stickers in 0..5, every colour n*n times,
   declarative Solved, the modelled is_solved, 0 <= count <= T *)
Definition rubiks_check_io (l : list Z) : list Z :=
  let (n, l) := take1 l in let (T, l) := take1 l in let (s, _) := dec_state n l in
  let c := cube_of s in
  [ b2z (shape_b n c); b2z (in_spec_b c); b2z (balanced_b n c); b2z (solved_b c); b2z (is_solved c);
    b2z ((0 <=? count s) && (count s <=? T)) ].
(* @export rubiks_check_io *)

(* in: n, k, then k triples (face, depth, amount) -> k flat actions *)
Definition rubiks_flatten_io (l : list Z) : list Z :=
  let (n, l) := take1 l in let (k, l) := take1 l in
  let (ts, _) := dec_many (fun l => let (f, l) := take1 l in let (d, l) := take1 l in let (am, l) := take1 l in ((f, d, am), l))
                          (Z.to_nat k) l in
  map (flatten_action n) ts.
(* @export rubiks_flatten_io *)

(* in: n, k, k flat actions -> 3k numbers (face, depth, amount) *)
Definition rubiks_unflatten_io (l : list Z) : list Z :=
  let (n, l) := take1 l in let (k, l) := take1 l in let (acts, _) := taken k l in
  flat_map (fun a => let '(f, d, am) := unflatten_action n a in [f; d; am]) acts.
(* @export rubiks_unflatten_io *)

(* in: n, k, scramble actions -> the verified solution (flat actions) of the scrambled cube *)
Definition rubiks_solution_io (l : list Z) : list Z :=
  let (n, l) := take1 l in let (k, l) := take1 l in let (acts, _) := taken k l in
  solution n acts.
(* @export rubiks_solution_io *)

(* in: n -> for every move of all_moves n: does it equal the physical layer rotation (geometric reference)? *)
Definition rubiks_physical_io (l : list Z) : list Z :=
  let (n, _) := take1 l in map (fun m => b2z (physical_b n m)) (all_moves n).
(* @export rubiks_physical_io *)
