(* Executable model of jumanji/environments/logic/sliding_tile_puzzle (env.py, generator.py, reward.py,
   constants.py).  Impl layer: mirrors the code's algorithm, JAX index behaviour explicit (gather clamps,
   scatter drops).  The declarative rules are [legal], [neighbour], [transp] and the checkers at the end.
   No proofs here (see Proofs/SlidingTile.v for the board / moves / generator, Proofs/SlidingTile_Episode.v for
   step / reset / episodes).  Reviewed against env.py, generator.py, reward.py, constants.py of the pinned tree:
   MOVES order (up, right, down, left), gather-then-two-scatters in _move_empty_tile, lax.cond on is_valid_move,
   done = array_equal(updated, solved), termination at step_count + 1 >= time_limit, reward computed from the OLD and
   the NEW puzzle, generator = fold of _swap_tiles over draws from the solved board with the blank at (n-1, n-1).
   Entry points (harness/envs/sliding_tile_puzzle.py): stp_step_io, stp_reset_io, stp_goal_io, stp_gen_io, stp_check_io,
   stp_cert_io, stp_solve_io, stp_sweep_io.                                                                       *)
Require Import JV.Base.Prelude JV.Base.JaxIndex JV.Base.Codec JV.Base.TimeStep.

Definition board := list (list Z).
Definition cellp := (Z * Z)%type.

(* constants.py: MOVES = [UP, RIGHT, DOWN, LEFT] *)
Definition MOVES : list cellp := [(-1, 0); (0, 1); (1, 0); (0, -1)].
Definition padd (p d : cellp) : cellp := (fst p + fst d, snd p + snd d).
Definition in_grid (n : Z) (p : cellp) : bool := inb n (fst p) && inb n (snd p).

(* puzzle[tuple(p)] : per-dimension gather (clamps);  puzzle.at[tuple(p)].set(v) : scatter (dropped when out of range) *)
Definition pget (g : board) (p : cellp) : Z := gget 0 g (fst p) (snd p).
Definition pset (g : board) (p : cellp) (v : Z) : board := gset g (fst p) (snd p) v.

(* Generator.make_solved_puzzle: arange(1, n^2+1).at[-1].set(EMPTY_TILE).reshape(n, n) *)
Fixpoint chunk (rows : nat) (cols : nat) (l : list Z) : list (list Z) :=
  match rows with O => [] | S r => firstn cols l :: chunk r cols (skipn cols l) end.
Definition goal_flat (n : Z) : list Z := jset (map (fun i => i + 1) (zrange (n * n))) (-1) 0.
Definition goal (n : Z) : board := chunk (Z.to_nat n) (Z.to_nat n) (goal_flat n).
Definition goal_blank (n : Z) : cellp := (n - 1, n - 1).

(* env._move_empty_tile *)
Definition move_empty (n : Z) (g : board) (e : cellp) (a : Z) : board * cellp :=
  let ne := padd e (jget (0, 0) MOVES a) in
  let valid := in_grid n ne in
  let up := pset g e (pget g ne) in
  let up := pset up ne 0 in
  if valid then (up, ne) else (g, e).

(* env._get_valid_actions *)
Definition valid_actions (n : Z) (e : cellp) : list bool := map (fun d => in_grid n (padd e d)) MOVES.

(* reward.py, on the flattened arrays (element-wise ops + sum) *)
Fixpoint count3 (f : Z -> Z -> Z -> bool) (a b c : list Z) : Z :=
  match a, b, c with
  | x :: a', y :: b', z :: c' => b2z (f x y z) + count3 f a' b' c'
  | _, _, _ => 0
  end.
Definition dense_reward (cur nxt gl : board) : Z :=
  count3 (fun c x g => (x =? g) && negb (c =? g)) (concat cur) (concat nxt) (concat gl)
  - count3 (fun c x g => negb (x =? g) && (c =? g)) (concat cur) (concat nxt) (concat gl).
Definition grid_eqb : board -> board -> bool := list_eqb (list_eqb Z.eqb).   (* jnp.array_equal *)
Definition sparse_reward (nxt gl : board) : Z := b2z (grid_eqb nxt gl).
(* rw = 0 : DenseRewardFn (default), otherwise SparseRewardFn *)
Definition reward_of (rw : Z) (cur nxt gl : board) : Z :=
  if rw =? 0 then dense_reward cur nxt gl else sparse_reward nxt gl.

Record state := mkS { puz : board; blank : cellp; steps : Z; skey : list Z }.
Record obs := mkO { o_puz : board; o_blank : cellp; o_mask : list bool; o_steps : Z }.

(* the faithful view of a state *)
Definition observe (n : Z) (s : state) : obs := mkO (puz s) (blank s) (valid_actions n (blank s)) (steps s).

(* env.step;  T = time_limit *)
Definition step (n T rw : Z) (s : state) (a : Z) : state * tstep * obs :=
  let m := move_empty n (puz s) (blank s) a in
  let done := grid_eqb (fst m) (goal n) in
  let mask := valid_actions n (snd m) in
  let s' := mkS (fst m) (snd m) (steps s + 1) (skey s) in
  let o := mkO (fst m) (snd m) mask (steps s') in
  let r := reward_of rw (puz s) (fst m) (goal n) in
  (s', cond_done 1 (done || (T <=? steps s')) [r], o).

(* env.reset on the generator's output *)
Definition reset (n : Z) (s0 : state) : state * tstep * obs := (s0, restart 1, observe n s0).

(* generator.py RandomWalkGenerator: the draw is the index chosen by jax.random.choice(key, MOVES, p=mask) *)
Definition swap_tiles (g : board) (p1 p2 : cellp) : board :=
  let temp := pget g p1 in
  let g := pset g p1 (pget g p2) in
  pset g p2 temp.
Definition random_move (b : board * cellp) (d : Z) : board * cellp :=
  let ne := padd (snd b) (jget (0, 0) MOVES d) in (swap_tiles (fst b) (snd b) ne, ne).
Definition gen_start (n : Z) : board * cellp := (goal n, goal_blank n).
Definition generate (n : Z) (draws : list Z) : board * cellp := fold_left random_move draws (gen_start n).
(* oracle contract of choice(p = mask): the index is in range and has non-zero weight *)
Definition valid_draw (n : Z) (e : cellp) (d : Z) : bool := inb 4 d && jget false (valid_actions n e) d.
Fixpoint valid_draws (n : Z) (b : board * cellp) (draws : list Z) : bool :=
  match draws with
  | [] => true
  | d :: r => valid_draw n (snd b) d && valid_draws n (random_move b d) r
  end.
Definition gen_state (n : Z) (draws key : list Z) : state :=
  let b := generate n draws in mkS (fst b) (snd b) 0 key.

(* ---- declarative side ---- *)
(* the blank's neighbour in direction a (0 up, 1 right, 2 down, 3 left) is on the board *)
Definition legal (n : Z) (e : cellp) (a : Z) : Prop :=
  (a = 0 /\ 0 < fst e) \/ (a = 1 /\ snd e < n - 1) \/ (a = 2 /\ fst e < n - 1) \/ (a = 3 /\ 0 < snd e).
Definition legal_b (n : Z) (e : cellp) (a : Z) : bool :=
  ((a =? 0) && (0 <? fst e)) || ((a =? 1) && (snd e <? n - 1)) || ((a =? 2) && (fst e <? n - 1)) || ((a =? 3) && (0 <? snd e)).
Definition neighbour (e : cellp) (a : Z) : cellp :=
  if a =? 0 then (fst e - 1, snd e) else if a =? 1 then (fst e, snd e + 1)
  else if a =? 2 then (fst e + 1, snd e) else (fst e, snd e - 1).
Definition opp (a : Z) : Z := (a + 2) mod 4.
Definition peqb (p q : cellp) : bool := (fst p =? fst q) && (snd p =? snd q).
(* the transposition of two cells *)
Definition transp (p q x : cellp) : cellp := if peqb x p then q else if peqb x q then p else x.
Definition cell (g : board) (p : cellp) : Z := gat 0 g (fst p) (snd p).
Definition wf_b (n : Z) (g : board) : bool := (zlen g =? n) && forallb (fun row => zlen row =? n) g.
(* tiles are a permutation of 0..n^2-1: n^2 cells and every value occurs *)
Definition perm_b (n : Z) (g : board) : bool :=
  (zlen (concat g) =? n * n) && forallb (fun v => existsb (Z.eqb v) (concat g)) (zrange (n * n)).
Definition blank_ok_b (n : Z) (g : board) (e : cellp) : bool := in_grid n e && (cell g e =? 0).
Definition inv_b (n : Z) (g : board) (e : cellp) : bool := wf_b n g && perm_b n g && blank_ok_b n g e.
(* number of cells that agree with the goal (the blank's cell included, as in the code) *)
Fixpoint agree (a b : list Z) : Z :=
  match a, b with x :: a', y :: b' => b2z (x =? y) + agree a' b' | _, _ => 0 end.
Definition correct (n : Z) (g : board) : Z := agree (concat g) (concat (goal n)).
Definition run_moves (n : Z) (b : board * cellp) (acts : list Z) : board * cellp :=
  fold_left (fun b a => move_empty n (fst b) (snd b) a) acts b.

(* ---- wire format ---- *)
Definition take_cell (l : list Z) : cellp * list Z :=
  let (r, l) := take1 l in let (c, l) := take1 l in ((r, c), l).
Definition dec_board (n : Z) (l : list Z) : (board * cellp) * list Z :=
  let (g, l) := take_grid n n l in let (e, l) := take_cell l in ((g, e), l).
Definition dec_state (n : Z) (l : list Z) : state * list Z :=
  let (b, l) := dec_board n l in
  let (k, l) := take1 l in
  let (ky, l) := taken 2 l in
  (mkS (fst b) (snd b) k ky, l).
Definition enc_cell (p : cellp) : list Z := [fst p; snd p].
Definition enc_board (b : board * cellp) : list Z := concat (fst b) ++ enc_cell (snd b).
Definition enc_state (s : state) : list Z := concat (puz s) ++ enc_cell (blank s) ++ [steps s] ++ skey s.
Definition enc_obs (o : obs) : list Z := concat (o_puz o) ++ enc_cell (o_blank o) ++ unbools (o_mask o) ++ [o_steps o].

(* in: n, T, rw, state, action -> state', obs', step_type, reward, discount *)
Definition stp_step_io (l : list Z) : list Z :=
  let (n, l) := take1 l in let (T, l) := take1 l in let (rw, l) := take1 l in
  let (s, l) := dec_state n l in let (a, _) := take1 l in
  let '(s', t, o) := step n T rw s a in enc_state s' ++ enc_obs o ++ enc_ts t.
(* @export stp_step_io *)

(* in: n, generator state -> reset state, obs, timestep *)
Definition stp_reset_io (l : list Z) : list Z :=
  let (n, l) := take1 l in let (s, _) := dec_state n l in
  let '(s', t, o) := reset n s in enc_state s' ++ enc_obs o ++ enc_ts t.
(* @export stp_reset_io *)

(* in: n -> solved puzzle *)
Definition stp_goal_io (l : list Z) : list Z :=
  let (n, _) := take1 l in enc_board (gen_start n).
(* @export stp_goal_io *)

(* in: n, k, draws(k) -> generated board, blank, [all draws valid] *)
Definition stp_gen_io (l : list Z) : list Z :=
  let (n, l) := take1 l in let (k, l) := take1 l in let (d, _) := taken k l in
  enc_board (generate n d) ++ [b2z (valid_draws n (gen_start n) d)].
(* @export stp_gen_io *)

(* verified checkers on IMPLEMENTATION states.  in: n, board, blank, mask(4) ->
   [mask = legal for every action; well-shaped; tiles are a permutation of 0..n^2-1; blank position consistent;
    legal_b for a = 0..3 (4 flags); number of cells that agree with the goal; solved test] *)
Definition stp_check_io (l : list Z) : list Z :=
  let (n, l) := take1 l in let (b, l) := dec_board n l in let (m, _) := taken 4 l in
  [ b2z (list_eqb Bool.eqb (bools m) (map (legal_b n (snd b)) (zrange 4)));
    b2z (wf_b n (fst b)); b2z (perm_b n (fst b)); b2z (blank_ok_b n (fst b) (snd b)) ]
  ++ map (fun a => b2z (legal_b n (snd b) a)) (zrange 4)
  ++ [ correct n (fst b); b2z (grid_eqb (fst b) (goal n)) ].
(* @export stp_check_io *)

(* reachability certificate: in: n, board, blank, k, actions(k) -> [run_moves from the goal along the actions gives exactly this board] *)
Definition stp_cert_io (l : list Z) : list Z :=
  let (n, l) := take1 l in let (b, l) := dec_board n l in let (k, l) := take1 l in let (acts, _) := taken k l in
  let r := run_moves n (gen_start n) acts in
  [ b2z (grid_eqb (fst r) (fst b) && peqb (snd r) (snd b)) ].
(* @export stp_cert_io *)

(* solution certificate: in: n, board, blank, k, actions(k) -> final board, blank, [final = goal; every action was legal] *)
Fixpoint legal_run_b (n : Z) (b : board * cellp) (acts : list Z) : bool :=
  match acts with
  | [] => true
  | a :: r => legal_b n (snd b) a && legal_run_b n (move_empty n (fst b) (snd b) a) r
  end.
Definition stp_solve_io (l : list Z) : list Z :=
  let (n, l) := take1 l in let (b, l) := dec_board n l in let (k, l) := take1 l in let (acts, _) := taken k l in
  let r := run_moves n b acts in
  enc_board r ++ [ b2z (grid_eqb (fst r) (goal n) && peqb (snd r) (goal_blank n)); b2z (legal_run_b n b acts) ].
(* @export stp_solve_io *)

(* C17 sweep.  in: n, count, count x (board, blank) ->
   per state and per action a in 0..3: successor board, blank, and the law flags
   [dense reward; sparse reward;
    opposite move restores the state and the state changed (when a was legal) / state unchanged (when illegal);
    inv_b of the successor; solved test of the successor] *)
Definition sweep_one (n : Z) (b : board * cellp) : list Z :=
  concat (map (fun a =>
    let b' := move_empty n (fst b) (snd b) a in
    let back := move_empty n (fst b') (snd b') (opp a) in
    let same x y := grid_eqb (fst x) (fst y) && peqb (snd x) (snd y) in
    enc_board b' ++
    [ dense_reward (fst b) (fst b') (goal n); sparse_reward (fst b') (goal n);
      b2z (if legal_b n (snd b) a then same back b && negb (same b' b) else same b' b);
      b2z (inv_b n (fst b') (snd b'));
      b2z (grid_eqb (fst b') (goal n)) ]) (zrange 4)).
Definition stp_sweep_io (l : list Z) : list Z :=
  let (n, l) := take1 l in let (k, l) := take1 l in
  let (bs, _) := dec_many (dec_board n) (Z.to_nat k) l in
  concat (map (sweep_one n) bs).
(* @export stp_sweep_io *)
