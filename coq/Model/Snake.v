(* Executable model of jumanji/environments/routing/snake/env.py (Impl layer) + the declarative
   rules of the game (predicates [legal], [Phys], [valid_draw] with boolean twins).
   No proofs here (see Proofs/Snake.v).

   Randomness: the head/fruit positions drawn by reset and the fruit re-drawn when one is eaten are
   explicit [draw] arguments; the harness recovers them from the implementation's successor state
   and requires [valid_draw] (an in-grid cell that is not on the body).
   Reward code = the (integral) float reward.  The fifth observation plane is a float
   body_state / max(1, max body_state): the model returns numerators and the common denominator. *)
Require Import JV.Base.Prelude JV.Base.JaxIndex JV.Base.Codec JV.Base.TimeStep.

Definition cell := (Z * Z)%type.

Record state := mkS {
  body : grid bool;      (* body_state > 0 *)
  bstate : grid Z;       (* body_state: 0 off the snake, 1 = tail ... length = head *)
  head : cell;
  tail : grid bool;      (* body_state == 1 *)
  fruit : cell;
  len : Z;
  steps : Z;
  amask : list bool }.

(* MOVES = [[-1,0],[0,1],[1,0],[0,-1]] : Up, Right, Down, Left *)
Definition moves : list cell := [(-1, 0); (0, 1); (1, 0); (0, -1)].
Definition move_of (a : Z) : cell := jget (0, 0) moves a.          (* self.MOVES[action] (gather) *)
Definition padd (p q : cell) : cell := (fst p + fst q, snd p + snd q).
Definition cell_eqb (p q : cell) : bool := (fst p =? fst q) && (snd p =? snd q).

Definition gmap {A B} (f : A -> B) (g : grid A) : grid B := map (map f) g.
Definition dec1 (x : Z) : Z := Z.max 0 (x - 1).                    (* jnp.clip(x - 1, 0) *)
Definition pos (x : Z) : bool := x >? 0.
Definition is1 (x : Z) : bool := x =? 1.
Definition gconst {A} (R C : Z) (v : A) : grid A := repeat (repeat v (Z.to_nat C)) (Z.to_nat R).

(* _get_action_mask.is_valid(move) *)
Definition is_valid_move (R C : Z) (hd : cell) (bs : grid Z) (m : cell) : bool :=
  let p := padd hd m in
  let outside := (fst p <? 0) || (fst p >=? R) || (snd p <? 0) || (snd p >=? C) in
  let bump := gget 0 (gmap dec1 bs) (fst p) (snd p) >? 0 in
  negb outside && negb bump.
Definition action_mask (R C : Z) (hd : cell) (bs : grid Z) : list bool := map (is_valid_move R C hd bs) moves.

Definition all_true (g : grid bool) : bool := forallb (forallb (fun b : bool => b)) g.

(* step(state, action) with the re-drawn fruit position [d] (only used when a fruit is eaten) *)
Definition step (R C T : Z) (s : state) (a : Z) (d : cell) : state * tstep :=
  let valid := jget false (amask s) a in
  let hd := padd (head s) (move_of a) in
  let eaten := cell_eqb hd (fruit s) in
  let len' := len s + b2z eaten in
  let bs0 := if eaten then bstate s else gmap dec1 (bstate s) in
  let bs' := gset bs0 (fst hd) (snd hd) len' in
  let body' := gmap pos bs' in
  let tail' := gmap is1 bs' in
  let fruit' := if eaten then d else fruit s in
  let steps' := steps s + 1 in
  let completed := all_true body' in
  let done := negb valid || completed || (steps' >=? T) in
  (mkS body' bs' hd tail' fruit' len' steps' (action_mask R C hd bs'), cond_done 1 done [b2z eaten]).

(* reset(key) over the two draws: head cell, fruit cell *)
Definition init (R C : Z) (hd fr : cell) : state * tstep :=
  let body0 := gset (gconst R C false) (fst hd) (snd hd) true in
  let bs := gmap b2z body0 in
  (mkS body0 bs hd body0 fr 1 0 (action_mask R C hd bs), restart 1).

(* _state_to_observation: planes body, head, tail, fruit (0/1) and the numerators of the fifth
   plane with their common denominator max(1, body_state.max()) *)
Definition lmax (l : list Z) : Z := match l with [] => 0 | x :: t => fold_left Z.max t x end.
Definition gmax (g : grid Z) : Z := lmax (concat g).
Record obs := mkO { o_body : grid bool; o_head : grid bool; o_tail : grid bool; o_fruit : grid bool;
                    o_num : grid Z; o_den : Z; o_steps : Z; o_mask : list bool }.
Definition observe (s : state) : obs :=
  let z := gmap (fun _ : bool => false) (body s) in                 (* zeros_like(body) *)
  mkO (body s) (gset z (fst (head s)) (snd (head s)) true) (tail s)
      (gset z (fst (fruit s)) (snd (fruit s)) true)
      (bstate s) (Z.max 1 (gmax (bstate s))) (steps s) (amask s).

(* ---------------- declarative side ---------------- *)
Definition bs_at (s : state) (p : cell) : Z := gat 0 (bstate s) (fst p) (snd p).
Definition in_grid (R C : Z) (p : cell) : Prop := 0 <= fst p < R /\ 0 <= snd p < C.
Definition in_grid_b (R C : Z) (p : cell) : bool := inb R (fst p) && inb C (snd p).
Definition adjacent (p q : cell) : Prop := Z.abs (fst p - fst q) + Z.abs (snd p - snd q) = 1.
Definition adjacent_b (p q : cell) : bool := Z.abs (fst p - fst q) + Z.abs (snd p - snd q) =? 1.
Definition cells (R C : Z) : list cell := flat_map (fun r => map (fun c => (r, c)) (zrange C)) (zrange R).
Definition shape {A} (R C : Z) (g : grid A) : Prop := zlen g = R /\ Forall (fun row => zlen row = C) g.
Definition shape_b {A} (R C : Z) (g : grid A) : bool := (zlen g =? R) && forallb (fun row => zlen row =? C) g.

(* a move is legal: the target cell is inside the board and is not on the body, except for the
   tail cell (value 1), which the tail vacates during the move *)
Definition target (s : state) (a : Z) : cell := padd (head s) (move_of a).
Definition legal (R C : Z) (s : state) (a : Z) : Prop :=
  in_grid R C (target s a) /\ (bs_at s (target s a) = 0 \/ bs_at s (target s a) = 1).
Definition legal_b (R C : Z) (s : state) (a : Z) : bool :=
  in_grid_b R C (target s a) && ((bs_at s (target s a) =? 0) || (bs_at s (target s a) =? 1)).

(* a re-drawn fruit: an in-grid cell off the (new) body *)
Definition valid_draw (R C : Z) (bd : grid bool) (d : cell) : bool :=
  in_grid_b R C d && negb (gat true bd (fst d) (snd d)).

(* physical consistency: the body is a chain numbered 1..len from tail to head *)
Record Phys (R C : Z) (s : state) : Prop := {
  ph_shape : shape R C (bstate s);
  ph_len : 1 <= len s;
  ph_range : forall p, in_grid R C p -> 0 <= bs_at s p <= len s;
  ph_exists : forall k, 1 <= k <= len s -> exists p, in_grid R C p /\ bs_at s p = k;
  ph_unique : forall p q, in_grid R C p -> in_grid R C q -> 0 < bs_at s p -> bs_at s p = bs_at s q -> p = q;
  ph_adj : forall p q, in_grid R C p -> in_grid R C q -> 1 <= bs_at s p -> bs_at s q = bs_at s p + 1 -> adjacent p q;
  ph_head : in_grid R C (head s) /\ bs_at s (head s) = len s;
  ph_fruit : in_grid R C (fruit s) /\ bs_at s (fruit s) = 0;
  ph_body : body s = gmap pos (bstate s);
  ph_tail : tail s = gmap is1 (bstate s) }.

Definition grid_eqb {A} (e : A -> A -> bool) (a b : grid A) : bool := list_eqb (list_eqb e) a b.

Definition Phys_b (R C : Z) (s : state) : bool :=
  let cs := cells R C in
  shape_b R C (bstate s) && (1 <=? len s)
  && forallb (fun p => (0 <=? bs_at s p) && (bs_at s p <=? len s)) cs
  && forallb (fun k => existsb (fun p => bs_at s p =? k) cs) (map (Z.add 1) (zrange (len s)))
  && forallb (fun p => forallb (fun q =>
        (if (0 <? bs_at s p) && (bs_at s p =? bs_at s q) then cell_eqb p q else true)
        && (if (1 <=? bs_at s p) && (bs_at s q =? bs_at s p + 1) then adjacent_b p q else true)) cs) cs
  && in_grid_b R C (head s) && (bs_at s (head s) =? len s)
  && in_grid_b R C (fruit s) && (bs_at s (fruit s) =? 0)
  && grid_eqb Bool.eqb (body s) (gmap pos (bstate s))
  && grid_eqb Bool.eqb (tail s) (gmap is1 (bstate s)).

Definition mask_ok_b (R C : Z) (s : state) : bool :=
  list_eqb Bool.eqb (amask s) (map (legal_b R C s) (zrange 4)).

(* number of body cells, recomputed from the raw grid *)
Definition count_pos (g : grid Z) : Z := zsum (map (fun row => count_if pos row) g).

(* ---------------- wire format ---------------- *)
Definition take_cell (l : list Z) : cell * list Z :=
  let (r, l) := take1 l in let (c, l) := take1 l in ((r, c), l).
Definition dec_state (R C : Z) (l : list Z) : state * list Z :=
  let (bd, l) := take_grid R C l in
  let (bs, l) := take_grid R C l in
  let (hd, l) := take_cell l in
  let (tl, l) := take_grid R C l in
  let (fr, l) := take_cell l in
  let (n, l) := take1 l in
  let (k, l) := take1 l in
  let (m, l) := taken 4 l in
  (mkS (map bools bd) bs hd (map bools tl) fr n k (bools m), l).
Definition enc_cell (p : cell) : list Z := [fst p; snd p].
Definition enc_bgrid (g : grid bool) : list Z := concat (map unbools g).
Definition enc_state (s : state) : list Z :=
  enc_bgrid (body s) ++ concat (bstate s) ++ enc_cell (head s) ++ enc_bgrid (tail s) ++ enc_cell (fruit s)
  ++ [len s; steps s] ++ unbools (amask s).
Definition enc_obs (o : obs) : list Z :=
  enc_bgrid (o_body o) ++ enc_bgrid (o_head o) ++ enc_bgrid (o_tail o) ++ enc_bgrid (o_fruit o)
  ++ concat (o_num o) ++ [o_den o; o_steps o] ++ unbools (o_mask o).

(* in: R C T, state, action, draw(2) -> successor state, timestep, observation *)
Definition snake_step_io (l : list Z) : list Z :=
  let (R, l) := take1 l in let (C, l) := take1 l in let (T, l) := take1 l in
  let (s, l) := dec_state R C l in let (a, l) := take1 l in let (d, _) := take_cell l in
  let (s', t) := step R C T s a d in enc_state s' ++ enc_ts t ++ enc_obs (observe s').
(* @export snake_step_io *)

(* in: R C, head draw(2), fruit draw(2) -> reset state, timestep, observation *)
Definition snake_init_io (l : list Z) : list Z :=
  let (R, l) := take1 l in let (C, l) := take1 l in
  let (hd, l) := take_cell l in let (fr, _) := take_cell l in
  let (s, t) := init R C hd fr in enc_state s ++ enc_ts t ++ enc_obs (observe s).
(* @export snake_init_io *)

(* verified checkers evaluated on IMPLEMENTATION states:
   [Phys; mask = legal for the 4 actions; fruit is a valid draw w.r.t. the body; steps < T;
    count of body cells = length] *)
Definition snake_check_io (l : list Z) : list Z :=
  let (R, l) := take1 l in let (C, l) := take1 l in let (T, l) := take1 l in
  let (s, _) := dec_state R C l in
  [ b2z (Phys_b R C s); b2z (mask_ok_b R C s); b2z (valid_draw R C (body s) (fruit s));
    b2z ((0 <=? steps s) && (steps s <? T)); b2z (count_pos (bstate s) =? len s) ].
(* @export snake_check_io *)

(* in: R C, body grid, draw(2) -> valid_draw *)
Definition snake_draw_io (l : list Z) : list Z :=
  let (R, l) := take1 l in let (C, l) := take1 l in
  let (bd, l) := take_grid R C l in let (d, _) := take_cell l in
  [ b2z (valid_draw R C (map bools bd) d) ].
(* @export snake_draw_io *)
