(* Executable model of jumanji/environments/routing/sokoban (env.py, reward.py, generator.py, constants.py).
   Impl layer : [detect_noop], [move_agent], [count_targets], [step], [observe], the generators over an explicit
                draw ([convert_level], [find_agent], [gen_toy], [gen_simple]) mirror the code, JAX gather / scatter
                semantics written out with gget / gset.
   Rules layer: [legal], [rule_step], [Physical], [WellFormed], [Enclosed] state the published rules.
   The model is parametric in the grid size G (constants.GRID_SIZE = 10 in the code, used by `in_grid`);
   N_BOXES = 4 as in constants.py.  Rewards are integers in TENTHS (-0.1 -> -1, +1 -> 10, +10 -> 100).
   No proofs here (see Proofs/Sokoban*.v).                                                                    *)
Require Import JV.Base.Prelude JV.Base.JaxIndex JV.Base.Codec JV.Base.TimeStep.

(* constants.py *)
Definition EMPTY := 0. Definition WALL := 1. Definition TARGET := 2. Definition AGENT := 3. Definition BOX := 4.
Definition NOOP := -1.
Definition N_BOXES := 4.
Definition MOVES : list (Z * Z) := [(-1, 0); (0, 1); (1, 0); (0, -1)].   (* Up, Right, Down, Left *)

(* State (the PRNG key is carried but never read by step) *)
Record state := mkS { fixed : list (list Z); var : list (list Z); ar : Z; ac : Z; sc : Z }.

(* MOVES[action] : a gather (negative index wraps once, then clamped) *)
Definition move_of (a : Z) : Z * Z := jget (0, 0) MOVES a.

(* in_grid: jnp.all((0 <= coordinates) & (coordinates < GRID_SIZE)) *)
Definition in_grid (G r c : Z) : bool := (0 <=? r) && (r <? G) && (0 <=? c) && (c <? G).

(* check_space: grid[tuple(location)] == value   (gather) *)
Definition check_space (g : list (list Z)) (r c v : Z) : bool := gget 0 g r c =? v.

(* update_box_push_action *)
Definition box_push_action (G : Z) (fx vr : list (list Z)) (nr nc a : Z) : Z :=
  let (dr, dc) := move_of a in
  let br := nr + dr in let bc := nc + dc in
  if check_space vr br bc BOX || negb (in_grid G br bc) then NOOP
  else if check_space fx br bc WALL then NOOP else a.

(* detect_noop_action *)
Definition detect_noop (G : Z) (vr fx : list (list Z)) (a r c : Z) : Z :=
  let (dr, dc) := move_of a in
  let nr := r + dr in let nc := c + dc in
  if check_space fx nr nc WALL || negb (in_grid G nr nc) then NOOP
  else if check_space vr nr nc BOX then box_push_action G fx vr nr nc a else a.

(* move_agent: scatters (out-of-range updates dropped, negative indices wrap) *)
Definition move_agent (vr : list (list Z)) (a r c : Z) : list (list Z) * (Z * Z) :=
  let (dr, dc) := move_of a in
  let nr := r + dr in let nc := c + dc in
  let br := nr + dr in let bc := nc + dc in
  let g1 := gset vr r c EMPTY in
  let g2 := if check_space vr nr nc BOX then gset (gset g1 nr nc AGENT) br bc BOX else gset g1 nr nc AGENT in
  (g2, (nr, nc)).

(* reward.count_targets: jnp.sum((variable == BOX) & (fixed == TARGET)) -- elementwise over the two arrays *)
Fixpoint row_targets (v f : list Z) : Z :=
  match v, f with
  | x :: v', y :: f' => b2z ((x =? BOX) && (y =? TARGET)) + row_targets v' f'
  | _, _ => 0
  end.
Fixpoint count_targets (vr fx : list (list Z)) : Z :=
  match vr, fx with
  | v :: vr', f :: fx' => row_targets v f + count_targets vr' fx'
  | _, _ => 0
  end.

(* reward functions, in tenths.  dense = true: DenseReward, false: SparseReward *)
Definition reward10 (dense : bool) (cnt cnt' : Z) : Z :=
  let completed := b2z (cnt' =? N_BOXES) in
  if dense then 10 * (cnt' - cnt) + 100 * completed - 1 else 100 * completed.

Definition step (G T : Z) (dense : bool) (s : state) (a : Z) : state * tstep :=
  let a' := detect_noop G (var s) (fixed s) a (ar s) (ac s) in
  let '(vr', (r', c')) := if a' =? NOOP then (var s, (ar s, ac s)) else move_agent (var s) a' (ar s) (ac s) in
  let s' := mkS (fixed s) vr' r' c' (sc s + 1) in
  let cnt := count_targets (var s) (fixed s) in
  let cnt' := count_targets vr' (fixed s) in
  let done := (cnt' =? N_BOXES) || (T <=? sc s + 1) in
  (s', cond_done 1 done [reward10 dense cnt cnt']).

(* _state_to_observation: jnp.stack([variable_grid, fixed_grid], axis=-1), step_count *)
Fixpoint zip_row (v f : list Z) : list (Z * Z) :=
  match v, f with x :: v', y :: f' => (x, y) :: zip_row v' f' | _, _ => [] end.
Fixpoint obs_grid (vr fx : list (list Z)) : list (list (Z * Z)) :=
  match vr, fx with v :: vr', f :: fx' => zip_row v f :: obs_grid vr' fx' | _, _ => [] end.
Definition flat_pairs (g : list (list (Z * Z))) : list Z :=
  concat (map (fun row => concat (map (fun p => [fst p; snd p]) row)) g).
Definition observe (s : state) : list Z := flat_pairs (obs_grid (var s) (fixed s)) ++ [sc s].

(* _get_extras: number of boxes on targets (prop_correct_boxes = cnt / 4), solved *)
Definition extras (s : state) : list Z :=
  let cnt := count_targets (var s) (fixed s) in [cnt; b2z (cnt =? 4)].

(* ---------------- generators over explicit draws ---------------- *)
(* convert_level_to_array: '#' (1,0)  '.' (2,0)  '@' (0,3)  '$' (0,4)  ' ' (0,0); characters as ASCII codes *)
Definition ch_fixed (ch : Z) : Z := if ch =? 35 then 1 else if ch =? 46 then 2 else 0.
Definition ch_var (ch : Z) : Z := if ch =? 64 then 3 else if ch =? 36 then 4 else 0.
Definition ch_known (ch : Z) : bool := (ch =? 35) || (ch =? 46) || (ch =? 64) || (ch =? 36) || (ch =? 32).
Definition convert_level (lv : list (list Z)) : list (list Z) * list (list Z) :=
  (map (map ch_fixed) lv, map (map ch_var) lv).

(* get_agent_coordinates: jnp.where(grid == AGENT, size=1): first match in row-major order, (0,0) when none *)
Fixpoint find_in_row (x : Z) (row : list Z) (c : Z) : option Z :=
  match row with [] => None | y :: t => if y =? x then Some c else find_in_row x t (c + 1) end.
Fixpoint find_from (x : Z) (g : list (list Z)) (r : Z) : Z * Z :=
  match g with
  | [] => (0, 0)
  | row :: t => match find_in_row x row 0 with Some c => (r, c) | None => find_from x t (r + 1) end
  end.
Definition find_agent (vr : list (list Z)) : Z * Z := find_from AGENT vr 0.

Definition gen_level (lv : list (list Z)) : state * tstep :=
  let (fx, vr) := convert_level lv in
  let (r, c) := find_agent vr in
  (mkS fx vr r c 0, restart 1).

(* '#' ' ' '.' '@' '$' *)
Definition cH := 35. Definition cO := 32. Definition cT := 46. Definition cG := 64. Definition cB := 36.
(* ToyGenerator level1 / level2, SimpleSolveGenerator level1 (the literal strings of generator.py) *)
Definition toy_level1 : list (list Z) :=
  [[cH;cH;cH;cH;cH;cH;cH;cH;cH;cH];
   [cH;cO;cG;cO;cO;cO;cO;cO;cO;cH];
   [cH;cO;cB;cO;cO;cO;cO;cT;cO;cH];
   [cH;cO;cO;cB;cH;cO;cT;cO;cO;cH];
   [cH;cO;cO;cT;cH;cB;cO;cO;cH;cO];
   [cH;cO;cT;cO;cH;cO;cB;cO;cH;cO];
   [cH;cO;cO;cO;cO;cO;cO;cO;cO;cH];
   [cH;cH;cH;cH;cH;cH;cH;cH;cH;cH];
   [cH;cH;cH;cH;cH;cH;cH;cH;cH;cH];
   [cH;cH;cH;cH;cH;cH;cH;cH;cH;cH]].
Definition toy_level2 : list (list Z) :=
  [[cH;cH;cH;cH;cH;cH;cH;cH;cH;cH];
   [cH;cO;cO;cO;cO;cO;cO;cO;cO;cH];
   [cH;cB;cO;cH;cO;cO;cO;cT;cO;cH];
   [cH;cO;cH;cO;cB;cO;cH;cO;cT;cH];
   [cH;cO;cO;cT;cH;cO;cB;cO;cO;cH];
   [cH;cO;cG;cO;cH;cO;cT;cO;cB;cH];
   [cH;cO;cO;cO;cO;cO;cO;cO;cO;cH];
   [cH;cH;cH;cH;cH;cH;cH;cH;cH;cH];
   [cH;cH;cH;cH;cH;cH;cH;cH;cH;cH];
   [cH;cH;cH;cH;cH;cH;cH;cH;cH;cH]].
Definition simple_level : list (list Z) :=
  [[cH;cH;cH;cH;cH;cH;cH;cH;cH;cH];
   [cH;cO;cO;cO;cO;cO;cO;cO;cH;cH];
   [cH;cO;cT;cT;cT;cT;cO;cO;cO;cH];
   [cH;cO;cB;cB;cB;cB;cO;cO;cH;cH];
   [cH;cO;cG;cO;cO;cO;cO;cH;cO;cH];
   [cH;cO;cO;cO;cH;cO;cO;cO;cH;cO];
   [cH;cO;cO;cO;cO;cO;cO;cO;cO;cH];
   [cH;cH;cH;cH;cH;cH;cH;cH;cH;cH];
   [cH;cH;cH;cH;cH;cH;cH;cH;cH;cH];
   [cH;cH;cH;cH;cH;cH;cH;cH;cH;cH]].

(* ToyGenerator: game_index = randint(idx_key, 0, 2) is the explicit draw; games[game_index] is a gather *)
Definition gen_toy (i : Z) : state * tstep := gen_level (jget [] [toy_level1; toy_level2] i).
Definition valid_draw (i : Z) : bool := (0 <=? i) && (i <? 2).
Definition gen_simple : state * tstep := gen_level simple_level.

(* ---------------- declarative side (Rules) ---------------- *)
Definition dr (a : Z) : Z := if a =? 0 then -1 else if a =? 2 then 1 else 0.
Definition dc (a : Z) : Z := if a =? 1 then 1 else if a =? 3 then -1 else 0.

(* strict functional update of one cell *)
Definition gput (gr : list (list Z)) (r c v : Z) : list (list Z) := zupd r (zupd c v (znth [] gr r)) gr.

(* a cell an entity may stand on: inside the grid and not a wall *)
Definition floor_b (G : Z) (fx : list (list Z)) (r c : Z) : bool := inb G r && inb G c && negb (gat 0 fx r c =? WALL).
Definition floor (G : Z) (fx : list (list Z)) (r c : Z) : Prop := 0 <= r < G /\ 0 <= c < G /\ gat 0 fx r c <> WALL.

(* action a (0 Up, 1 Right, 2 Down, 3 Left): the destination is floor and holds no box, or it holds a box and the
   cell behind it is floor without a box (no chained pushes, nothing leaves the grid) *)
Definition legal_b (G : Z) (s : state) (a : Z) : bool :=
  let r1 := ar s + dr a in let c1 := ac s + dc a in
  let r2 := r1 + dr a in let c2 := c1 + dc a in
  floor_b G (fixed s) r1 c1
  && (negb (gat 0 (var s) r1 c1 =? BOX) || (floor_b G (fixed s) r2 c2 && negb (gat 0 (var s) r2 c2 =? BOX))).
Definition legal (G : Z) (s : state) (a : Z) : Prop :=
  let r1 := ar s + dr a in let c1 := ac s + dc a in
  let r2 := r1 + dr a in let c2 := c1 + dc a in
  floor G (fixed s) r1 c1
  /\ (gat 0 (var s) r1 c1 <> BOX \/ (floor G (fixed s) r2 c2 /\ gat 0 (var s) r2 c2 <> BOX)).

(* number of cells of the G x G grid satisfying p *)
Definition gsum (G : Z) (f : Z -> Z -> Z) : Z := zsum (map (fun r => zsum (map (fun c => f r c) (zrange G))) (zrange G)).
Definition gcount (G : Z) (gr : list (list Z)) (v : Z) : Z := gsum G (fun r c => b2z (gat 0 gr r c =? v)).
Definition on_target (G : Z) (vr fx : list (list Z)) : Z :=
  gsum G (fun r c => b2z ((gat 0 vr r c =? BOX) && (gat 0 fx r c =? TARGET))).

(* the published rules: a legal move is executed (the agent walks, or walks and pushes one box one cell), an illegal
   one is ignored; -0.1 per step, +1 / -1 per box moved on / off a target, +10 when all four boxes are on targets;
   the episode ends when solved or at the time limit *)
Definition rule_step (G T : Z) (dense : bool) (s : state) (a : Z) : state * tstep :=
  let r1 := ar s + dr a in let c1 := ac s + dc a in
  let r2 := r1 + dr a in let c2 := c1 + dc a in
  let s' :=
    if legal_b G s a then
      let g1 := gput (gput (var s) (ar s) (ac s) EMPTY) r1 c1 AGENT in
      let g2 := if gat 0 (var s) r1 c1 =? BOX then gput g1 r2 c2 BOX else g1 in
      mkS (fixed s) g2 r1 c1 (sc s + 1)
    else mkS (fixed s) (var s) (ar s) (ac s) (sc s + 1) in
  let cnt := on_target G (var s) (fixed s) in
  let cnt' := on_target G (var s') (fixed s') in
  let solved := cnt' =? N_BOXES in
  let r := if dense then 10 * (cnt' - cnt) + 100 * b2z solved - 1 else 100 * b2z solved in
  (s', if solved || (T <=? sc s + 1) then termination 1 [r] else transition 1 [r]).

(* shapes *)
Definition wf_grid (G : Z) (gr : list (list Z)) : Prop := zlen gr = G /\ Forall (fun row => zlen row = G) gr.
Definition wf_grid_b (G : Z) (gr : list (list Z)) : bool := (zlen gr =? G) && forallb (fun row => zlen row =? G) gr.
Definition cells_b (G : Z) (p : Z -> Z -> bool) : bool := forallb (fun r => forallb (fun c => p r c) (zrange G)) (zrange G).

(* C07: both grids are G x G; fixed cells are EMPTY/WALL/TARGET, variable cells EMPTY/AGENT/BOX; the AGENT-coded cells
   are exactly {agent_location} (exactly one agent, stored position agrees with the grid); the agent is inside the
   grid; nothing movable stands on a wall; counter >= 0 *)
Definition Physical (G : Z) (s : state) : Prop :=
  wf_grid G (fixed s) /\ wf_grid G (var s)
  /\ 0 <= ar s < G /\ 0 <= ac s < G
  /\ (forall r c, 0 <= r < G -> 0 <= c < G ->
        (gat 0 (fixed s) r c = EMPTY \/ gat 0 (fixed s) r c = WALL \/ gat 0 (fixed s) r c = TARGET)
        /\ (gat 0 (var s) r c = EMPTY \/ gat 0 (var s) r c = AGENT \/ gat 0 (var s) r c = BOX)
        /\ (gat 0 (var s) r c = AGENT <-> (r = ar s /\ c = ac s))
        /\ (gat 0 (var s) r c <> EMPTY -> gat 0 (fixed s) r c <> WALL))
  /\ 0 <= sc s.
Definition Physical_b (G : Z) (s : state) : bool :=
  wf_grid_b G (fixed s) && wf_grid_b G (var s)
  && inb G (ar s) && inb G (ac s)
  && cells_b G (fun r c =>
       let f := gat 0 (fixed s) r c in let v := gat 0 (var s) r c in
       ((f =? EMPTY) || (f =? WALL) || (f =? TARGET))
       && ((v =? EMPTY) || (v =? AGENT) || (v =? BOX))
       && Bool.eqb (v =? AGENT) ((r =? ar s) && (c =? ac s))
       && ((v =? EMPTY) || negb (f =? WALL)))
  && (0 <=? sc s).

(* C10: a level is well-formed: Physical at step 0, exactly one agent, N_BOXES boxes and N_BOXES targets, not already
   solved *)
Definition WellFormed (G : Z) (s : state) : Prop :=
  Physical G s /\ sc s = 0 /\ gcount G (var s) AGENT = 1 /\ gcount G (var s) BOX = N_BOXES
  /\ gcount G (fixed s) TARGET = N_BOXES /\ on_target G (var s) (fixed s) < N_BOXES.
Definition WellFormed_b (G : Z) (s : state) : bool :=
  Physical_b G s && (sc s =? 0) && (gcount G (var s) AGENT =? 1) && (gcount G (var s) BOX =? N_BOXES)
  && (gcount G (fixed s) TARGET =? N_BOXES) && (on_target G (var s) (fixed s) <? N_BOXES).

(* "walls around": a region R (boolean grid) containing the agent and every box, closed under stepping to a
   non-wall neighbour, that does not touch the border of the grid.  The agent and the boxes can never leave it. *)
Definition region := list (list bool).
Definition rin (R : region) (r c : Z) : bool := gat false R r c.
Definition closed_b (G : Z) (fx : list (list Z)) (R : region) : bool :=
  cells_b G (fun r c =>
    negb (rin R r c)
    || ((0 <? r) && (r <? G - 1) && (0 <? c) && (c <? G - 1) && negb (gat 0 fx r c =? WALL)
        && forallb (fun a => (gat 0 fx (r + dr a) (c + dc a) =? WALL) || rin R (r + dr a) (c + dc a)) (zrange 4))).
Definition inside_b (G : Z) (s : state) (R : region) : bool :=
  cells_b G (fun r c => (gat 0 (var s) r c =? EMPTY) || rin R r c).
Definition Enclosed_b (G : Z) (s : state) (R : region) : bool := closed_b G (fixed s) R && inside_b G s R.

(* flood fill from the movable entities over non-wall cells (fuel rounds), used to COMPUTE a region certificate *)
Definition grow (G : Z) (fx : list (list Z)) (R : region) : region :=
  map (fun r => map (fun c =>
     rin R r c || (negb (gat 0 fx r c =? WALL)
                   && existsb (fun a => rin R (r + dr a) (c + dc a) && negb (gat 0 fx (r + dr a) (c + dc a) =? WALL)) (zrange 4)))
     (zrange G)) (zrange G).
Fixpoint grow_n (n : nat) (G : Z) (fx : list (list Z)) (R : region) : region :=
  match n with O => R | S n' => grow_n n' G fx (grow G fx R) end.
Definition flood (G : Z) (s : state) : region :=
  grow_n (Z.to_nat (G * G)) G (fixed s)
    (map (fun r => map (fun c => negb (gat 0 (var s) r c =? EMPTY)) (zrange G)) (zrange G)).

(* runs *)
Fixpoint run (G T : Z) (dense : bool) (s : state) (acts : list Z) : state :=
  match acts with [] => s | a :: r => run G T dense (fst (step G T dense s a)) r end.
Fixpoint rewards (G T : Z) (dense : bool) (s : state) (acts : list Z) : list Z :=
  match acts with
  | [] => []
  | a :: r => znth 0 (reward (snd (step G T dense s a))) 0 :: rewards G T dense (fst (step G T dense s a)) r
  end.

(* ---------------- wire format ---------------- *)
(* state := fixed(G*G) var(G*G) ar ac sc *)
Definition dec_state (G : Z) (l : list Z) : state * list Z :=
  let (f, l) := take_grid G G l in
  let (v, l) := take_grid G G l in
  let (r, l) := take1 l in let (c, l) := take1 l in let (k, l) := take1 l in
  (mkS f v r c k, l).
Definition enc_state (s : state) : list Z := concat (fixed s) ++ concat (var s) ++ [ar s; ac s; sc s].

(* in: G T dense state action -> out: state', step_type reward10 discount, observation(2*G*G + 1), extras(2) *)
Definition sokoban_step_io (l : list Z) : list Z :=
  let (G, l) := take1 l in let (T, l) := take1 l in let (d, l) := take1 l in
  let (s, l) := dec_state G l in let (a, _) := take1 l in
  let (s', ts) := step G T (z2b d) s a in enc_state s' ++ enc_ts ts ++ observe s' ++ extras s'.
(* @export sokoban_step_io *)

(* the declarative rules on the same input; also: legal_b *)
Definition sokoban_rule_io (l : list Z) : list Z :=
  let (G, l) := take1 l in let (T, l) := take1 l in let (d, l) := take1 l in
  let (s, l) := dec_state G l in let (a, _) := take1 l in
  let (s', ts) := rule_step G T (z2b d) s a in enc_state s' ++ enc_ts ts ++ [b2z (legal_b G s a)].
(* @export sokoban_rule_io *)

(* verified checkers on IMPLEMENTATION states:
   [Physical_b; #agents; #boxes; #targets; boxes on targets (declarative); count_targets (code);
    Enclosed_b with the flood-fill region] ++ observe ++ extras *)
Definition sokoban_check_io (l : list Z) : list Z :=
  let (G, l) := take1 l in let (s, _) := dec_state G l in
  [ b2z (Physical_b G s); gcount G (var s) AGENT; gcount G (var s) BOX; gcount G (fixed s) TARGET;
    on_target G (var s) (fixed s); count_targets (var s) (fixed s); b2z (Enclosed_b G s (flood G s)) ]
  ++ observe s ++ extras s.
(* @export sokoban_check_io *)

(* generators: which (0 toy, 1 simple), draw -> state, timestep, valid_draw, WellFormed_b, Enclosed_b *)
Definition sokoban_gen_io (l : list Z) : list Z :=
  let (which, l) := take1 l in let (i, _) := take1 l in
  let (s, ts) := if which =? 0 then gen_toy i else gen_simple in
  enc_state s ++ enc_ts ts ++ [b2z (if which =? 0 then valid_draw i else true); b2z (WellFormed_b 10 s);
                               b2z (Enclosed_b 10 s (flood 10 s))].
(* @export sokoban_gen_io *)

(* convert_level_to_array + get_agent_coordinates on an arbitrary level text: rows cols chars -> fixed var r c known *)
Definition sokoban_convert_io (l : list Z) : list Z :=
  let (rows, l) := take1 l in let (cols, l) := take1 l in
  let (lv, _) := take_grid rows cols l in
  let (fx, vr) := convert_level lv in
  let (r, c) := find_agent vr in
  concat fx ++ concat vr ++ [r; c; b2z (forallb (forallb ch_known) lv)].
(* @export sokoban_convert_io *)

(* the literal level texts of the shipped generators (compared with the source of generator.py) *)
Definition sokoban_levels_io (l : list Z) : list Z := concat toy_level1 ++ concat toy_level2 ++ concat simple_level.
(* @export sokoban_levels_io *)
