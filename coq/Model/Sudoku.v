(* Executable model of jumanji/environments/logic/sudoku (env.py, utils.py, reward.py, generator.py).
   The implementation is NOT size-generic: BOARD_WIDTH = 9 and the literal table BOX_IDX are constants of
   the code, so the model (and every theorem) is for the 9x9 board with 3x3 boxes.
   Impl layer: get_action_mask is written as the code computes it (cell-empty mask repeated over digits,
   one_hot(...).any masks of rows / columns / BOX_IDX-gathered boxes, gather by BOX_IDX, multiply, scatter
   back by BOX_IDX, and-ing of the row / column masks); is_puzzle_solved sorts every row / column / box and
   compares with arange(9).  Declarative side: [legal], [conflict_free], [full] ... No proofs here.      *)
Require Import JV.Base.Prelude JV.Base.JaxIndex JV.Base.Codec JV.Base.TimeStep.

Definition W : Z := 9.
Definition box_idx : list (list Z) :=
  [ [0; 1; 2; 9; 10; 11; 18; 19; 20];
    [27; 28; 29; 36; 37; 38; 45; 46; 47];
    [54; 55; 56; 63; 64; 65; 72; 73; 74];
    [3; 4; 5; 12; 13; 14; 21; 22; 23];
    [30; 31; 32; 39; 40; 41; 48; 49; 50];
    [57; 58; 59; 66; 67; 68; 75; 76; 77];
    [6; 7; 8; 15; 16; 17; 24; 25; 26];
    [33; 34; 35; 42; 43; 44; 51; 52; 53];
    [60; 61; 62; 69; 70; 71; 78; 79; 80] ].

Record state := mkS { board : list (list Z); amask : list (list (list bool)) }.

Fixpoint map2 {A B C} (f : A -> B -> C) (a : list A) (b : list B) : list C :=
  match a, b with x :: a', y :: b' => f x y :: map2 f a' b' | _, _ => [] end.

Definition digits : list Z := zrange W.
(* ~jax.nn.one_hot(l, 9).any(axis=0)[d] : digit d does not occur in l (one_hot of -1 is the zero vector) *)
Definition absent (l : list Z) (d : Z) : bool := negb (existsb (Z.eqb d) l).
Definition absent_mask (l : list Z) : list bool := map (absent l) digits.
Definition transpose (g : list (list Z)) : list (list Z) :=
  map (fun c => map (fun r => gat (-1) g r c) (zrange W)) (zrange W).
(* flat.take(BOX_IDX) *)
Definition boxes_of (flat : list Z) : list (list Z) := map (map (fun i => jget (-1) flat i)) box_idx.

(* x.at[idxs].set(vals) for index / value lists of equal length *)
Fixpoint scatter {A} (base : list A) (idxs : list Z) (vals : list A) : list A :=
  match idxs, vals with
  | i :: idxs', v :: vals' => scatter (jset base i v) idxs' vals'
  | _, _ => base
  end.

(* utils.get_action_mask *)
Definition get_action_mask (b : list (list Z)) : list (list (list bool)) :=
  let flat := concat b in
  let am0 := map (fun v => repeat (v =? -1) (Z.to_nat W)) flat in                     (* (81, 9) *)
  let row_mask := map absent_mask b in                                                (* (9, 9)  *)
  let col_mask := map absent_mask (transpose b) in
  let box_mask := map absent_mask (boxes_of flat) in
  let bam := map2 (fun idxs bm => map (fun i => map2 andb (jget [] am0 i) bm) idxs) box_idx box_mask in
  let am1 := scatter am0 (concat box_idx) (concat bam) in
  map (fun r => map (fun c =>
        map2 andb (map2 andb (znth [] am1 (r * W + c)) (znth [] row_mask r)) (znth [] col_mask c))
      (zrange W)) (zrange W).

(* insertion sort = jnp.sort on integers *)
Fixpoint insert (x : Z) (l : list Z) : list Z :=
  match l with [] => [x] | y :: t => if x <=? y then x :: l else y :: insert x t end.
Fixpoint isort (l : list Z) : list Z := match l with [] => [] | x :: t => insert x (isort t) end.
Definition validate_row (l : list Z) : bool := list_eqb Z.eqb (isort l) (zrange W).
(* utils.is_puzzle_solved *)
Definition is_puzzle_solved (b : list (list Z)) : bool :=
  forallb validate_row b && forallb validate_row (transpose b) && forallb validate_row (boxes_of (concat b)).

Definition mask_at (m : list (list (list bool))) (r c d : Z) : bool := jget false (jget [] (jget [] m r) c) d.
Definition any_mask (m : list (list (list bool))) : bool := existsb (existsb (existsb (fun x => x))) m.

(* env.step: the board is written even when the action is invalid *)
Definition step (s : state) (r c d : Z) : state * tstep :=
  let invalid := negb (mask_at (amask s) r c d) in
  let b' := gset (board s) r c d in
  let m' := get_action_mask b' in
  let done := invalid || negb (any_mask m') in
  (mkS b' m', cond_done 1 done [b2z (is_puzzle_solved b')]).

(* DatabaseGenerator / DummyGenerator: database entry (0 = empty, 1..9) minus one; the draw is the entry *)
Definition init (puzzle : list (list Z)) : state * tstep :=
  let b := map (map (fun v => v - 1)) puzzle in
  (mkS b (get_action_mask b), restart 1).

(* ---------- declarative side ---------- *)
Definition cell (b : list (list Z)) (r c : Z) : Z := gat (-1) b r c.
Definition same_box (r c r' c' : Z) : bool := (r / 3 =? r' / 3) && (c / 3 =? c' / 3).
(* digit d may be written at (r,c): the cell is empty and d occurs nowhere in its row, column, 3x3 box *)
Definition legal (b : list (list Z)) (r c d : Z) : Prop :=
  cell b r c = -1 /\
  (forall c', 0 <= c' < W -> cell b r c' <> d) /\
  (forall r', 0 <= r' < W -> cell b r' c <> d) /\
  (forall r' c', 0 <= r' < W -> 0 <= c' < W -> same_box r c r' c' = true -> cell b r' c' <> d).
Definition legal_b (b : list (list Z)) (r c d : Z) : bool :=
  (cell b r c =? -1)
  && forallb (fun c' => negb (cell b r c' =? d)) (zrange W)
  && forallb (fun r' => negb (cell b r' c =? d)) (zrange W)
  && forallb (fun r' => forallb (fun c' => negb (same_box r c r' c' && (cell b r' c' =? d))) (zrange W)) (zrange W).

(* two distinct cells see each other *)
Definition peers (r c r' c' : Z) : bool :=
  negb ((r =? r') && (c =? c')) && ((r =? r') || (c =? c') || same_box r c r' c').
(* hard constraint: no digit twice in a row, a column or a box *)
Definition conflict_free (b : list (list Z)) : Prop :=
  forall r c r' c', 0 <= r < W -> 0 <= c < W -> 0 <= r' < W -> 0 <= c' < W ->
    peers r c r' c' = true -> 0 <= cell b r c -> cell b r c <> cell b r' c'.
Definition conflict_free_b (b : list (list Z)) : bool :=
  forallb (fun r => forallb (fun c => forallb (fun r' => forallb (fun c' =>
     negb (peers r c r' c' && (0 <=? cell b r c) && (cell b r c =? cell b r' c')))
     (zrange W)) (zrange W)) (zrange W)) (zrange W).
Definition shape_b (b : list (list Z)) : bool :=
  (zlen b =? W) && forallb (fun row => (zlen row =? W) && forallb (fun v => (-1 <=? v) && (v <? W)) row) b.
Definition empties (b : list (list Z)) : Z :=
  zsum (map (fun r => zsum (map (fun c => b2z (cell b r c =? -1)) (zrange W))) (zrange W)).
Definition full (b : list (list Z)) : Prop := forall r c, 0 <= r < W -> 0 <= c < W -> 0 <= cell b r c.
Definition full_b (b : list (list Z)) : bool :=
  forallb (fun r => forallb (fun c => 0 <=? cell b r c) (zrange W)) (zrange W).
(* a well-formed database entry: 9x9, values 0..9, conflict-free after the -1 shift *)
Definition puzzle_ok_b (p : list (list Z)) : bool :=
  let b := map (map (fun v => v - 1)) p in shape_b b && conflict_free_b b.

(* published rules *)
Definition rules_step (s : state) (r c d : Z) : state * tstep :=
  let b' := gset (board s) r c d in
  let m' := map (fun r => map (fun c => map (fun d => legal_b b' r c d) (zrange W)) (zrange W)) (zrange W) in
  let solved := full_b b' && conflict_free_b b' in
  if negb (legal_b (board s) r c d) then (mkS b' m', termination 1 [b2z solved])
  else if forallb (fun r => forallb (fun c => forallb (fun d => negb (legal_b b' r c d)) (zrange W)) (zrange W)) (zrange W)
       then (mkS b' m', termination 1 [b2z solved])
       else (mkS b' m', transition 1 [0]).

(* ---------- wire format ---------- *)
Definition dec_mask (l : list Z) : list (list (list bool)) * list Z :=
  let (g, l) := take_grid (W * W) W l in
  (map (fun r => map (fun c => bools (znth [] g (r * W + c))) (zrange W)) (zrange W), l).
Definition enc_mask (m : list (list (list bool))) : list Z := concat (map (fun row => concat (map unbools row)) m).
Definition dec_state (l : list Z) : state * list Z :=
  let (b, l) := take_grid W W l in let (m, l) := dec_mask l in (mkS b m, l).
Definition enc_state (s : state) : list Z := concat (board s) ++ enc_mask (amask s).

(* in: board(81) mask(729) r c d -> board' mask' step_type reward discount *)
Definition sudoku_step_io (l : list Z) : list Z :=
  let (s, l) := dec_state l in
  let (r, l) := take1 l in let (c, l) := take1 l in let (d, _) := take1 l in
  let (s', t) := step s r c d in enc_state s' ++ enc_ts t.
(* @export sudoku_step_io *)

Definition sudoku_rules_io (l : list Z) : list Z :=
  let (s, l) := dec_state l in
  let (r, l) := take1 l in let (c, l) := take1 l in let (d, _) := take1 l in
  let (s', t) := rules_step s r c d in enc_state s' ++ enc_ts t.
(* @export sudoku_rules_io *)

(* in: database entry (81 values 0..9) -> reset state, timestep *)
Definition sudoku_init_io (l : list Z) : list Z :=
  let (p, _) := take_grid W W l in
  let (s, t) := init p in enc_state s ++ enc_ts t.
(* @export sudoku_init_io *)

(* verified checkers on an IMPLEMENTATION state:
   [shape; conflict-free; mask == legal_b everywhere; number of empty cells; is_puzzle_solved == full && conflict-free] *)
Definition sudoku_check_io (l : list Z) : list Z :=
  let (s, _) := dec_state l in
  [ b2z (shape_b (board s)); b2z (conflict_free_b (board s));
    b2z (list_eqb (list_eqb (list_eqb Bool.eqb)) (amask s)
           (map (fun r => map (fun c => map (fun d => legal_b (board s) r c d) (zrange W)) (zrange W)) (zrange W)));
    empties (board s);
    b2z (Bool.eqb (is_puzzle_solved (board s)) (full_b (board s) && conflict_free_b (board s))) ].
(* @export sudoku_check_io *)

(* every action of the action space from one state, in row-major (r, c, d) order:
   step_type, reward, number of True entries of the successor mask *)
Definition count_mask (m : list (list (list bool))) : Z :=
  zsum (map (fun row => zsum (map (fun cellm => zsum (map b2z cellm)) row)) m).
Definition sudoku_allact_io (l : list Z) : list Z :=
  let (s, _) := dec_state l in
  concat (map (fun r => concat (map (fun c => concat (map (fun d =>
    let (s', t) := step s r c d in [st t; hd 0 (reward t); count_mask (amask s')])
    (zrange W))) (zrange W))) (zrange W)).
(* @export sudoku_allact_io *)

(* DatabaseGenerator over an explicit draw: the index sampled by jax.random.randint(0, len(database)) *)
Definition valid_draw (db : list (list (list Z))) (idx : Z) : bool := (0 <=? idx) && (idx <? zlen db).
Definition gen_db (db : list (list (list Z))) (idx : Z) : state * tstep := init (znth [] db idx).
(* in: k, idx, k database entries -> valid_draw, reset state, timestep *)
Definition sudoku_gen_io (l : list Z) : list Z :=
  let (k, l) := take1 l in let (idx, l) := take1 l in
  let (db, _) := dec_many (take_grid W W) (Z.to_nat k) l in
  let (s, t) := gen_db db idx in b2z (valid_draw db idx) :: enc_state s ++ enc_ts t.
(* @export sudoku_gen_io *)

(* C10: k database entries (81 values each) -> number of entries that are NOT well-formed, then the index of
   the first bad one (or -1), then the minimum and the maximum number of empty cells over the batch *)
Fixpoint puzzles_scan (k : nat) (i : Z) (l : list Z) (bad first minempty maxempty : Z) : list Z :=
  match k with
  | O => [bad; first; minempty; maxempty]
  | S k' =>
      let (p, l') := take_grid W W l in
      let ok := puzzle_ok_b p in
      let e := empties (map (map (fun v => v - 1)) p) in
      puzzles_scan k' (i + 1) l' (if ok then bad else bad + 1)
                   (if ok || (0 <=? first) then first else i) (Z.min minempty e) (Z.max maxempty e)
  end.
Definition sudoku_puzzles_io (l : list Z) : list Z :=
  let (k, l) := take1 l in puzzles_scan (Z.to_nat k) 0 l 0 (-1) 81 0.
(* @export sudoku_puzzles_io *)
