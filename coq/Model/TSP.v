(* Executable model of jumanji/environments/routing/tsp (env.py, reward.py, generator.py).
   Numbers.  Coordinates are float32 and are only ever COPIED by reset/step/observe (sent as exact scaled integers).
   The only float arithmetic is in the reward: Euclidean distances (sqrt) and their sums.  The distance is an ORACLE
   [dist : Z -> Z -> Z] between city indices (in the wire format: a table with the implementation's own float32
   pairwise distances as exact scaled integers), [pen] is the code of the documented penalty num_cities*sqrt(2).
   A reward that is a single table entry (or the penalty) is therefore reproduced exactly.  The one float addition of
   the dense reward (closing step:  -d(prev,next) - d(next,first)) goes through an explicit rounding function [rnd]:
     - [rid]    exact arithmetic (the idealised rules over which the telescoping theorems are stated)
     - [rne24]  IEEE binary32 round-to-nearest-even (bit-exact on scaled float32 values)
   The sparse reward (a float32 sum of num_cities terms in unspecified order) is modelled exactly and compared with a
   tolerance.  Mirrors the code's algorithm (Impl layer); the declarative side ([legal], [view], [Inv], [step_rules],
   [closed_len]) is below.  No proofs here (see Proofs/TSP*.v).                                                  *)
Require Import JV.Base.Prelude JV.Base.JaxIndex JV.Base.Codec JV.Base.TimeStep.

(* coords: the (num_cities,2) array, row-major *)
Record state := mkS { coords : list Z; position : Z; visited : list bool; traj : list Z; nvis : Z }.

(* IEEE-754 binary32 rounding (round to nearest, ties to even) of an integer, 24 significant bits *)
Definition rne24_pos (m : Z) : Z :=
  if m <? 16777216 then m else
  let p := 2 ^ (Z.log2 m - 23) in
  let q := m / p in
  let r := m mod p in
  (if (p <? 2 * r) || ((2 * r =? p) && Z.odd q) then q + 1 else q) * p.
Definition rne24 (x : Z) : Z := if x <? 0 then - rne24_pos (- x) else rne24_pos x.
Definition rid (x : Z) : Z := x.

Fixpoint map2 {A B C} (f : A -> B -> C) (a : list A) (b : list B) : list C :=
  match a, b with x :: a', y :: b' => f x y :: map2 f a' b' | _, _ => [] end.

(* is_valid = ~state.visited_mask[action]        (gather clamps) *)
Definition valid (s : state) (a : Z) : bool := negb (jget false (visited s) a).

(* _update_state: position=action, visited_mask.at[action].set(True), trajectory.at[num_visited].set(action)  (scatters drop) *)
Definition update (s : state) (a : Z) : state :=
  mkS (coords s) a (jset (visited s) a true) (jset (traj s) (nvis s) a) (nvis s + 1).

(* coordinates[i] : the row actually read by the gather *)
Definition city (n i : Z) : Z := jclamp n i.

(* jnp.roll(x, -1, axis=0) *)
Definition roll1 {A} (l : list A) : list A := match l with [] => [] | x :: t => t ++ [x] end.

(* compute_tour_length(coordinates, trajectory) = sum_i | c[traj[i]] - c[traj[i+1 mod n]] | *)
Definition tour_length (n : Z) (dist : Z -> Z -> Z) (tr : list Z) : Z :=
  let idx := map (city n) tr in zsum (map2 dist idx (roll1 idx)).

Definition all_true (l : list bool) : bool := forallb (fun b => b) l.

(* reward.py: SparseReward (sparse = true) / DenseReward (sparse = false); n = len(state.visited_mask) *)
Definition reward_of (rnd : Z -> Z) (sparse : bool) (n pen : Z) (dist : Z -> Z -> Z)
                     (s s' : state) (is_valid : bool) : Z :=
  if sparse then
    let is_done := (nvis s' =? n) || negb is_valid in
    if is_done then (if is_valid then - tour_length n dist (traj s') else - pen) else 0
  else
    let prev := city n (position s) in
    let next := city n (position s') in
    let r := if is_valid then - dist prev next else - pen in
    let r := if nvis s =? 0 then 0 else r in
    let first := city n (jget (-1) (traj s) 0) in           (* state.coordinates[state.trajectory[0]]: the OLD trajectory *)
    if all_true (visited s') then rnd (r - dist next first) else r.

Definition step_r (rnd : Z -> Z) (sparse : bool) (n pen : Z) (dist : Z -> Z -> Z) (s : state) (a : Z) : state * tstep :=
  let is_valid := valid s a in
  let s' := if is_valid then update s a else s in           (* lax.cond(is_valid, _update_state, identity) *)
  let r := reward_of rnd sparse n pen dist s s' is_valid in
  let is_done := (nvis s' =? n) || negb is_valid in
  (s', cond_done 1 is_done [r]).
Definition step : bool -> Z -> Z -> (Z -> Z -> Z) -> state -> Z -> state * tstep := step_r rid.

(* _state_to_observation: three copies and the negated visited mask *)
Definition mask (s : state) : list bool := map negb (visited s).
Definition observe (s : state) : list Z * Z * list Z * list bool := (coords s, position s, traj s, mask s).

(* UniformGenerator.__call__ as a function of the explicit draw (the 2n coordinates) *)
Definition init (n : Z) (c : list Z) : state * tstep :=
  (mkS c (-1) (repeat false (Z.to_nat n)) (repeat (-1) (Z.to_nat n)) 0, restart 1).
(* a draw of jax.random.uniform(minval=0,maxval=1) of shape (n,2) on the grid of scale sc: 0 <= x < sc *)
Definition valid_draw (n sc : Z) (c : list Z) : bool :=
  (zlen c =? 2 * n) && forallb (fun x => (0 <=? x) && (x <? sc)) c.

(* ---- declarative side ---- *)
(* city i may be visited next: it has not been visited yet *)
Definition legal (s : state) (i : Z) : Prop := znth true (visited s) i = false.
Definition legal_b (s : state) (i : Z) : bool := negb (znth true (visited s) i).

Definition mem (l : list Z) (i : Z) : bool := existsb (Z.eqb i) l.
Fixpoint nodup_b (l : list Z) : bool := match l with [] => true | x :: t => negb (mem t x) && nodup_b t end.

(* a partial tour: distinct cities of [0,n) in visiting order *)
Definition good (n : Z) (tour : list Z) : Prop := NoDup tour /\ Forall (fun c => 0 <= c < n) tour.
Definition good_b (n : Z) (tour : list Z) : bool := nodup_b tour && forallb (fun c => (0 <=? c) && (c <? n)) tour.

(* the state that encodes a partial tour: last city, membership mask, tour padded with -1, its length *)
Definition view (n : Z) (c : list Z) (tour : list Z) : state :=
  mkS c (last tour (-1)) (map (mem tour) (zrange n)) (tour ++ repeat (-1) (Z.to_nat n - length tour)) (zlen tour).
Definition tour_of (s : state) : list Z := firstn_z (nvis s) (traj s).

(* hard constraints / consistency of the state: it IS the encoding of a partial tour without repeated city *)
Definition Inv (n : Z) (s : state) : Prop := exists tour, good n tour /\ s = view n (coords s) tour.
Definition state_eqb (a b : state) : bool :=
  list_eqb Z.eqb (coords a) (coords b) && (position a =? position b) && list_eqb Bool.eqb (visited a) (visited b)
  && list_eqb Z.eqb (traj a) (traj b) && (nvis a =? nvis b).
Definition Inv_b (n : Z) (s : state) : bool :=
  (0 <=? nvis s) && good_b n (tour_of s) && state_eqb s (view n (coords s) (tour_of s)).

(* complete solution: the trajectory is a permutation of all the cities *)
Definition perm_b (n : Z) (l : list Z) : bool :=
  (zlen l =? n) && nodup_b l && forallb (fun c => (0 <=? c) && (c <? n)) l && forallb (mem l) (zrange n).

(* declared observation ranges: coordinates in [0,1] (scale sc), position and trajectory entries in [-1, n-1] *)
Definition ranges_b (n sc : Z) (s : state) : bool :=
  forallb (fun x => (0 <=? x) && (x <=? sc)) (coords s) && (zlen (coords s) =? 2 * n)
  && (-1 <=? position s) && (position s <=? n - 1)
  && forallb (fun x => (-1 <=? x) && (x <=? n - 1)) (traj s) && (zlen (traj s) =? n) && (zlen (visited s) =? n).

(* length of the open path / of the closed tour through the cities of l, for ANY distance function *)
Fixpoint path_len (dist : Z -> Z -> Z) (l : list Z) : Z :=
  match l with
  | x :: t => match t with y :: _ => dist x y + path_len dist t | [] => 0 end
  | [] => 0
  end.
Definition closed_len (dist : Z -> Z -> Z) (l : list Z) : Z :=
  match l with [] => 0 | x :: _ => path_len dist l + dist (last l x) x end.
(* the edge travelled when city a is appended to a partial tour (nothing for the first city) *)
Definition edge (dist : Z -> Z -> Z) (tour : list Z) (a : Z) : Z :=
  match tour with [] => 0 | _ => dist (last tour a) a end.

(* the published rules, stated with plain in-range list operations (no JAX index semantics):
   visiting an unvisited city appends it to the tour; the episode ends when every city is visited
   (dense: minus the edge, plus minus the closing edge on the last step; sparse: minus the closed tour length at the end);
   visiting a visited city ends the episode with the penalty and changes nothing *)
Definition visit (s : state) (a : Z) : state :=
  mkS (coords s) a (zupd a true (visited s)) (zupd (nvis s) a (traj s)) (nvis s + 1).
Definition step_rules (sparse : bool) (n pen : Z) (dist : Z -> Z -> Z) (s : state) (a : Z) : state * tstep :=
  if legal_b s a then
    let tour := tour_of s in
    let tour' := tour ++ [a] in
    if nvis s + 1 =? n
    then (visit s a, termination 1 [if sparse then - closed_len dist tour' else - edge dist tour a - dist a (hd a tour')])
    else (visit s a, transition 1 [if sparse then 0 else - edge dist tour a])
  else (s, termination 1 [- pen]).

(* ---- wire format ---- *)
Definition dec_state (n : Z) (l : list Z) : state * list Z :=
  let (c, l) := taken (2 * n) l in
  let (p, l) := take1 l in
  let (v, l) := taken n l in
  let (t, l) := taken n l in
  let (k, l) := take1 l in
  (mkS c p (bools v) t k, l).
Definition enc_state (s : state) : list Z := coords s ++ [position s] ++ unbools (visited s) ++ traj s ++ [nvis s].
Definition enc_obs (s : state) : list Z :=
  match observe s with (c, p, t, m) => c ++ [p] ++ t ++ unbools m end.
Definition table_dist (tab : list (list Z)) (i j : Z) : Z := gat 0 tab i j.

Definition enc_out (p : state * tstep) : list Z := enc_state (fst p) ++ enc_obs (fst p) ++ enc_ts (snd p).

(* in: n, float32 (1: round the closing dense sum like binary32, 0: exact), sparse, pen, table(n*n), state, k, k actions
   out: for each action: state', observation', step_type, reward, discount *)
Definition tsp_step_io (l : list Z) : list Z :=
  let (n, l) := take1 l in let (fl, l) := take1 l in let (sp, l) := take1 l in let (pen, l) := take1 l in
  let (tab, l) := take_grid n n l in
  let (s, l) := dec_state n l in let (k, l) := take1 l in let (acts, _) := taken k l in
  concat (map (fun a => enc_out (step_r (if z2b fl then rne24 else rid) (z2b sp) n pen (table_dist tab) s a)) acts).
(* @export tsp_step_io *)

(* the declarative rules, same wire format (without the rounding flag) *)
Definition tsp_rules_io (l : list Z) : list Z :=
  let (n, l) := take1 l in let (sp, l) := take1 l in let (pen, l) := take1 l in
  let (tab, l) := take_grid n n l in
  let (s, l) := dec_state n l in let (k, l) := take1 l in let (acts, _) := taken k l in
  concat (map (fun a => enc_out (step_rules (z2b sp) n pen (table_dist tab) s a)) acts).
(* @export tsp_rules_io *)

(* in: n, sc, coordinates draw (2n) -> reset state, observation, timestep, valid_draw *)
Definition tsp_init_io (l : list Z) : list Z :=
  let (n, l) := take1 l in let (sc, l) := take1 l in let (c, _) := taken (2 * n) l in
  enc_out (init n c) ++ [b2z (valid_draw n sc c)].
(* @export tsp_init_io *)

(* verified checkers on IMPLEMENTATION states.  in: n, sc, table(n*n), state, observed mask(n)
   out: [mask = legal for every city; Inv (no city twice, visited = set of the trajectory, position = last city);
         declared ranges; trajectory is a permutation of all cities; number of visited cities;
         open path length of the partial tour; closed tour length of the partial tour; code's tour_length of the trajectory] *)
Definition tsp_check_io (l : list Z) : list Z :=
  let (n, l) := take1 l in let (sc, l) := take1 l in
  let (tab, l) := take_grid n n l in
  let (s, l) := dec_state n l in let (m, _) := taken n l in
  [ b2z (list_eqb Bool.eqb (bools m) (map (legal_b s) (zrange n)));
    b2z (Inv_b n s);
    b2z (ranges_b n sc s);
    b2z (perm_b n (traj s));
    zlen (tour_of s);
    path_len (table_dist tab) (tour_of s);
    closed_len (table_dist tab) (tour_of s);
    tour_length n (table_dist tab) (traj s) ].
(* @export tsp_check_io *)

(* the rounding function alone: in: x -> rne24 x  (validated against numpy float32 by the harness) *)
Definition tsp_rne_io (l : list Z) : list Z := map rne24 l.
(* @export tsp_rne_io *)
