(* Executable model of jumanji/environments/packing/tetris (env.py, utils.py, constants.py).
   Impl layer: mirrors the code's algorithm -- dynamic_slice / dynamic_update_slice with JAX's
   start normalisation + clamping ([dyn_start]), argmin(possible_positions) - 1, the `.at[-3:]` padding
   masks, clean_lines through a STABLE argsort + take_along_axis + zeroing loop.
   Rules layer: the declarative predicates [legal], [can_place], [rest_row], [stamp], [clear], [Physical].
   The tetromino / reward tables come BY VALUE from constants.py (Gen/TetrisConsts.v).
   Randomness: the index of the next tetromino is an explicit draw [d].   No proofs here.          *)
Require Import JV.Base.Prelude JV.Base.JaxIndex JV.Base.Codec JV.Base.TimeStep JV.Gen.TetrisConsts.

Definition zgrid := list (list Z).

Definition tab {A} (h w : Z) (f : Z -> Z -> A) : list (list A) :=
  map (fun i => map (fun j => f i j) (zrange w)) (zrange h).

Fixpoint map2 {A B C} (f : A -> B -> C) (a : list A) (b : list B) : list C :=
  match a, b with x :: a', y :: b' => f x y :: map2 f a' b' | _, _ => [] end.

Definition height (g : zgrid) : Z := zlen g.                 (* shape[0] *)
Definition width (g : zgrid) : Z := zlen (znth [] g 0).      (* shape[1] *)
Definition cell (t : zgrid) (i j : Z) : Z := gat 0 t i j.

Definition all4 (f : Z -> bool) : bool := forallb f (zrange 4).
Definition all44 (f : Z -> Z -> bool) : bool := all4 (fun i => all4 (fun j => f i j)).

(* jnp.clip(g, a_max=1) *)
Definition clip1 (g : zgrid) : zgrid := map (map (Z.min 1)) g.

(* grid.max() *)
Definition lmax (l : list Z) : Z := match l with [] => 0 | x :: t => fold_left Z.max t x end.
Definition gmax (g : zgrid) : Z := lmax (concat g).

(* utils.check_valid_tetromino_placement: crop = dynamic_slice(grid, (y, x), (4, 4)); ~any(crop + tet >= 2) *)
Definition check_valid (g tet : zgrid) (y x : Z) : bool :=
  let ys := dyn_start (height g) 4 y in
  let xs := dyn_start (width g) 4 x in
  all44 (fun i j => negb (2 <=? gat 0 g (ys + i) (xs + j) + cell tet i j)).

(* l.at[-3:].set(l[-3:] & ~flip(padd[1:]))   (n >= 3) : entry n-3 is and-ed with ~padd[3], n-2 with ~padd[2], n-1 with ~padd[1] *)
Definition pad_last3 (l : list bool) (padd : Z -> bool) : list bool :=
  let n := zlen l in
  map (fun k => let b := znth false l k in if n - 3 <=? k then b && negb (padd (n - k)) else b) (zrange n).

Definition col_nonempty (t : zgrid) (j : Z) : bool := 0 <? zsum (map (fun r => znth 0 r j) t).  (* tetromino.sum(axis=0) > 0 *)
Definition row_nonempty (t : zgrid) (i : Z) : bool := 0 <? zsum (znth [] t i).                   (* tetromino.sum(axis=1) > 0 *)

(* tetromino.at[1].set(t[1]+t[2]); .at[0].set(t[0] + that[1]); clip(a_max=1) *)
Definition tetromino_mask (t : zgrid) : zgrid :=
  let r1 := map2 Z.add (znth [] t 1) (znth [] t 2) in
  let r0 := map2 Z.add (znth [] t 0) r1 in
  clip1 [r0; r1; znth [] t 2; znth [] t 3].

(* utils.tetromino_action_mask *)
Definition tetromino_action_mask (g t : zgrid) : list bool :=
  let m := tetromino_mask t in
  let ncols := width g - 3 in
  pad_last3 (map (fun x => check_valid g m 0 x) (zrange ncols)) (col_nonempty t).

(* env._calculate_action_mask *)
Definition calc_mask (g : zgrid) (idx : Z) : list (list bool) :=
  map (tetromino_action_mask g) (jget [] TETROMINOES_LIST idx).

(* env._rotate : TETROMINOES_LIST[tetromino_index, rotation_index] (gather clamps) *)
Definition piece (idx rot : Z) : zgrid := jget [] (jget [] TETROMINOES_LIST idx) rot.

Definition possible_positions (g t : zgrid) (x : Z) : list bool :=
  let nrows := height g - 3 in
  let cg := clip1 g in
  pad_last3 (map (fun y => check_valid cg t y x) (zrange nrows)) (row_nonempty t).

(* jax.lax.dynamic_update_slice(g, blk (4x4), (y, x)) *)
Definition dyn_update (g blk : zgrid) (y x : Z) : zgrid :=
  let h := height g in let w := width g in
  let ys := dyn_start h 4 y in let xs := dyn_start w 4 x in
  tab h w (fun i j => if (ys <=? i) && (i <? ys + 4) && (xs <=? j) && (j <? xs + 4)
                      then cell blk (i - ys) (j - xs) else gat 0 g i j).

Definition scale (c : Z) (t : zgrid) : zgrid := map (map (Z.mul c)) t.
Definition emax (a b : zgrid) : zgrid := tab (height a) (width a) (fun i j => Z.max (gat 0 a i j) (gat 0 b i j)).

(* utils.place_tetromino (the lax.cond result is overwritten by the next statement in the code) *)
Definition place_tetromino (g t : zgrid) (x : Z) : zgrid * Z :=
  let pp := possible_positions g t x in
  let y := argmin (map b2z pp) - 1 in
  let color := gmax g + 1 in
  let new := dyn_update g (scale color t) y x in
  (emax g new, y).

Definition is_full (nc : Z) (r : list Z) : bool := forallb (fun v => negb (v =? 0)) (firstn_z nc r).
Definition full_lines (g : zgrid) (nc : Z) : list bool := map (is_full nc) g.

(* stable argsort (jnp.argsort): insertion from the right, ties keep the original order *)
Fixpoint insert_key (k i : Z) (l : list (Z * Z)) : list (Z * Z) :=
  match l with
  | [] => [(k, i)]
  | (k', i') :: t => if k <=? k' then (k, i) :: l else (k', i') :: insert_key k i t
  end.
Definition argsort (keys : list Z) : list Z :=
  map snd (fold_right (fun ki acc => insert_key (fst ki) (snd ki) acc) [] (combine keys (zrange (zlen keys)))).

(* utils.clean_lines *)
Definition clean_lines (g : zgrid) (fl : list bool) : zgrid :=
  let idx := argsort (map (fun b => b2z (negb b)) fl) in
  let g1 := map (fun i => jget [] g i) idx in                    (* take_along_axis *)
  let k := zsum (map b2z fl) in
  let zero := repeat 0 (Z.to_nat (width g)) in
  fold_left (fun acc i => jset acc i zero) (zrange k) g1.      (* fori_loop: grid.at[i].set(0) *)

Record state := mkS { grid : zgrid; grid_old : zgrid; tidx : Z; old_tet : zgrid; new_tet : zgrid;
                      xpos : Z; ypos : Z; amask : list (list bool); flines : list bool;
                      score : Z; rew : Z; is_reset : bool; step_count : Z }.
Record obs := mkO { o_grid : zgrid; o_tet : zgrid; o_mask : list (list bool); o_step : Z }.

Definition mask_any (m : list (list bool)) : bool := existsb (existsb (fun b => b)) m.

(* env.step, configuration (num_rows, num_cols, time_limit), action (rot, x), draw d = index of the next tetromino *)
Definition step (nr nc tl : Z) (s : state) (rot x d : Z) : state * tstep * obs :=
  let t := piece (tidx s) rot in
  let (g1, y) := place_tetromino (grid s) t x in
  let fl := full_lines g1 nc in
  let n := zsum (map b2z fl) in
  let g2 := clean_lines g1 fl in
  let nt := piece d 0 in
  let cg := clip1 g2 in
  let m := calc_mask cg d in
  let color := Z.max 1 (gmax g2) in
  let valid := gget false (amask s) rot x in
  let r := jget 0 REWARD_LIST n * b2z valid in
  let sc := step_count s + 1 in
  let done := negb (mask_any m) || negb valid || (tl <=? sc) in
  (mkS g2 (grid s) d (scale color t) nt x y m fl (score s + r) r false sc,
   cond_done 1 done [r],
   mkO (map (firstn_z nc) (firstn_z nr cg)) nt m sc).

(* env.reset on the draw d *)
Definition init (nr nc : Z) (d : Z) : state * tstep * obs :=
  let g := tab (nr + 3) (nc + 3) (fun _ _ => 0) in
  let t := piece d 0 in
  let m := calc_mask g d in
  (mkS g g d t t 0 0 m (repeat false (Z.to_nat (nr + 3))) 0 0 true 0,
   restart 1,
   mkO (map (firstn_z nc) (firstn_z nr g)) t m 0).

Definition valid_draw (d : Z) : bool := (0 <=? d) && (d <? zlen TETROMINOES_LIST).

(* a run over (rot, x, draw) triples; collects the timesteps *)
Fixpoint run (nr nc tl : Z) (s : state) (l : list (Z * Z * Z)) : state * list tstep :=
  match l with
  | [] => (s, [])
  | (rot, x, d) :: r =>
      let '(s1, t1, _) := step nr nc tl s rot x d in
      let (s2, ts) := run nr nc tl s1 r in (s2, t1 :: ts)
  end.

(* ================= declarative side ================= *)

(* the rotated piece t, put in the spawn rows (y = 0) at column x: every cell lies left of num_cols, and the cell
   and everything above it in its column is free (the piece enters from above) *)
Definition legal (nc : Z) (g t : zgrid) (x : Z) : Prop :=
  forall i j, 0 <= i < 4 -> 0 <= j < 4 -> cell t i j = 1 ->
    x + j < nc /\ forall i', 0 <= i' <= i -> gat 0 g i' (x + j) = 0.
Definition legal_b (nc : Z) (g t : zgrid) (x : Z) : bool :=
  all44 (fun i j => implb (cell t i j =? 1)
     ((x + j <? nc) && forallb (fun i' => gat 0 g i' (x + j) =? 0) (zrange (i + 1)))).

(* the piece fits with its box at (y, x): every cell is above the floor and on a free square *)
Definition can_place (nr : Z) (g t : zgrid) (y x : Z) : Prop :=
  forall i j, 0 <= i < 4 -> 0 <= j < 4 -> cell t i j = 1 -> y + i < nr /\ gat 0 g (y + i) (x + j) = 0.
Definition can_place_b (nr : Z) (g t : zgrid) (y x : Z) : bool :=
  all44 (fun i j => implb (cell t i j =? 1) ((y + i <? nr) && (gat 0 g (y + i) (x + j) =? 0))).
(* y is where a piece dropped from the top comes to rest: it can pass through 0..y and cannot go to y+1 *)
Definition rest_row (nr : Z) (g t : zgrid) (x y : Z) : Prop :=
  0 <= y /\ (forall y', 0 <= y' <= y -> can_place nr g t y' x) /\ ~ can_place nr g t (y + 1) x.
Definition rest_row_b (nr : Z) (g t : zgrid) (x y : Z) : bool :=
  (0 <=? y) && forallb (fun y' => can_place_b nr g t y' x) (zrange (y + 1)) && negb (can_place_b nr g t (y + 1) x).

Definition covers (t : zgrid) (y x i j : Z) : bool :=
  (y <=? i) && (i <? y + 4) && (x <=? j) && (j <? x + 4) && (cell t (i - y) (j - x) =? 1).
Definition stamp (g t : zgrid) (y x c : Z) : zgrid :=
  tab (height g) (width g) (fun i j => if covers t y x i j then c else gat 0 g i j).
(* delete the full rows, push as many empty rows on top *)
Definition clear (nc : Z) (g : zgrid) : zgrid :=
  repeat (repeat 0 (Z.to_nat (width g))) (length (filter (is_full nc) g)) ++ filter (fun r => negb (is_full nc r)) g.

Definition nonzero (v : Z) : bool := negb (v =? 0).
Definition row_count (r : list Z) : Z := count_if nonzero r.
Definition cells (g : zgrid) : Z := zsum (map row_count g).

Definition row_ok_b (nc : Z) (r : list Z) : bool :=
  (zlen r =? nc + 3) && forallb (fun v => 0 <=? v) r && forallb (fun j => znth 0 r j =? 0) (zrange_from nc 3).
(* (num_rows+3) x (num_cols+3), no negative cell, the 3 padding columns and the 3 padding rows empty, no full row left *)
Definition grid_ok_b (nr nc : Z) (g : zgrid) : bool :=
  (zlen g =? nr + 3) && forallb (row_ok_b nc) g
  && forallb (fun i => forallb (fun j => gat 0 g i j =? 0) (zrange (nc + 3))) (zrange_from nr 3)
  && forallb (fun r => negb (is_full nc r)) g.
(* weak shape invariant (kept by ANY action) *)
Definition shape_b (nr nc : Z) (g : zgrid) : bool :=
  (zlen g =? nr + 3) && forallb (fun r => (zlen r =? nc + 3) && forallb (fun v => 0 <=? v) r) g.
Definition mask_eqb (a b : list (list bool)) : bool := list_eqb (list_eqb Bool.eqb) a b.
Definition Physical_b (nr nc : Z) (s : state) : bool :=
  grid_ok_b nr nc (grid s) && valid_draw (tidx s) && (0 <=? step_count s)
  && mask_eqb (amask s) (calc_mask (clip1 (grid s)) (tidx s)).

(* declarative view (C12) *)
Definition view (nr nc : Z) (s : state) : obs :=
  mkO (tab nr nc (fun i j => if gat 0 (grid s) i j =? 0 then 0 else 1)) (piece (tidx s) 0) (amask s) (step_count s).
Definition legal_mask (nc : Z) (g : zgrid) (idx : Z) : list (list bool) :=
  tab NUM_ROTATIONS nc (fun r x => legal_b nc g (piece idx r) x).

(* ================= wire format ================= *)
Definition enc_grid (g : zgrid) : list Z := concat g.
Definition enc_bgrid (g : list (list bool)) : list Z := concat (map unbools g).

(* nr nc tl | grid (nr+3)x(nc+3), tidx, mask 4 x nc, score, step_count *)
Definition dec_cfg (l : list Z) : Z * Z * Z * list Z :=
  let (nr, l) := take1 l in let (nc, l) := take1 l in let (tl, l) := take1 l in (nr, nc, tl, l).
Definition dec_state (nr nc : Z) (l : list Z) : state * list Z :=
  let (g, l) := take_grid (nr + 3) (nc + 3) l in
  let (ti, l) := take1 l in
  let (m, l) := take_grid NUM_ROTATIONS nc l in
  let (sc, l) := take1 l in
  let (k, l) := take1 l in
  (mkS g g ti [] [] 0 0 (map bools m) [] sc 0 false k, l).
Definition enc_state (s : state) : list Z :=
  enc_grid (grid s) ++ enc_grid (grid_old s) ++ [tidx s] ++ enc_grid (old_tet s) ++ enc_grid (new_tet s)
  ++ [xpos s; ypos s] ++ enc_bgrid (amask s) ++ unbools (flines s) ++ [score s; rew s; b2z (is_reset s); step_count s].
Definition enc_obs (o : obs) : list Z := enc_grid (o_grid o) ++ enc_grid (o_tet o) ++ enc_bgrid (o_mask o) ++ [o_step o].

(* in: cfg, state, rot, x, draw -> successor state, timestep, observation *)
Definition tetris_step_io (l : list Z) : list Z :=
  let '(nr, nc, tl, l) := dec_cfg l in
  let (s, l) := dec_state nr nc l in
  let (rot, l) := take1 l in let (x, l) := take1 l in let (d, _) := take1 l in
  let '(s', t, o) := step nr nc tl s rot x d in
  enc_state s' ++ enc_ts t ++ enc_obs o.
(* @export tetris_step_io *)

(* in: nr nc draw -> reset state, timestep, observation *)
Definition tetris_init_io (l : list Z) : list Z :=
  let (nr, l) := take1 l in let (nc, l) := take1 l in let (d, _) := take1 l in
  let '(s, t, o) := init nr nc d in
  enc_state s ++ enc_ts t ++ enc_obs o.
(* @export tetris_init_io *)

(* verified checkers on an IMPLEMENTATION state:
   [Physical; mask = legal_mask (declarative rules); observation-view grid is 0/1; valid_draw tidx; number of cells] *)
Definition tetris_check_io (l : list Z) : list Z :=
  let '(nr, nc, tl, l) := dec_cfg l in
  let (s, _) := dec_state nr nc l in
  [ b2z (Physical_b nr nc s);
    b2z (mask_eqb (amask s) (legal_mask nc (grid s) (tidx s)));
    b2z (valid_draw (tidx s));
    b2z ((0 <=? step_count s) && (step_count s <=? tl));
    cells (grid s) ].
(* @export tetris_check_io *)

(* verified checkers on an IMPLEMENTATION transition with a mask-true action:
   in: cfg, state, rot, x, y_position', grid'  ->
   [ rest_row of the clamped y ; grid' = clear (stamp ..) ; cells' = cells + 4 - nc * lines ; lines ] *)
Definition tetris_trans_io (l : list Z) : list Z :=
  let '(nr, nc, tl, l) := dec_cfg l in
  let (s, l) := dec_state nr nc l in
  let (rot, l) := take1 l in let (x, l) := take1 l in let (y, l) := take1 l in
  let (g', _) := take_grid (nr + 3) (nc + 3) l in
  let t := piece (tidx s) rot in
  let ye := dyn_start (nr + 3) 4 y in
  let st := stamp (grid s) t ye x (gmax (grid s) + 1) in
  let k := zlen (filter (is_full nc) st) in
  [ b2z (rest_row_b nr (grid s) t x ye);
    b2z (list_eqb (list_eqb Z.eqb) g' (clear nc st));
    b2z (cells g' =? cells (grid s) + 4 - nc * k);
    k ].
(* @export tetris_trans_io *)

(* declarative observation (C12) of an IMPLEMENTATION state: in cfg, state -> view *)
Definition tetris_view_io (l : list Z) : list Z :=
  let '(nr, nc, tl, l) := dec_cfg l in
  let (s, _) := dec_state nr nc l in
  enc_obs (view nr nc s).
(* @export tetris_view_io *)
