(* Model of jumanji/wrappers.py over an ABSTRACT environment (any state / observation / action types, any reset and
   step): AutoResetWrapper, VmapWrapper, VmapAutoResetWrapper, MultiToSingleWrapper, JumanjiToGymWrapper,
   JumanjiToDMEnvWrapper.  Being parametric in the environment is how "every environment, not only the test fake" is
   reached.  PRNG keys are the free algebra of jax.random.split: split k = (KL k, KR k).
   For the correspondence the abstract environment is instantiated with finite TABLES of the real environment's
   behaviour (states / observations / keys named by integer ids), see the io section at the end.
   No proofs here (Proofs/Wrappers.v).                                                                              *)
Require Import JV.Base.Prelude JV.Base.Codec JV.Base.TimeStep.

Inductive key := KRoot (n : Z) | KL (k : key) | KR (k : key).
Fixpoint key_eqb (a b : key) : bool :=
  match a, b with
  | KRoot x, KRoot y => x =? y | KL x, KL y => key_eqb x y | KR x, KR y => key_eqb x y | _, _ => false
  end.
Fixpoint kdepth (k : key) : nat := match k with KRoot _ => O | KL k | KR k => S (kdepth k) end.
(* k' is k or was derived from k by splits *)
Fixpoint kdesc (k k' : key) : bool :=
  key_eqb k k' || match k' with KRoot _ => false | KL p | KR p => kdesc k p end.

Section Wrappers.
  Variables St Obs Act Rw : Type.

  (* jumanji.types.TimeStep; extras = the environment's own extras (opaque) + the optional "next_obs" entry *)
  Record wts := mkW { w_ty : Z; w_obs : Obs; w_rew : Rw; w_disc : Rw; w_ext : Z; w_next : option Obs }.

  Variable reset : key -> St * wts.
  Variable step : St -> Act -> St * wts.
  Variable skey : St -> key.                 (* state.key *)

  Definition set_obs (t : wts) (o : Obs) : wts := mkW (w_ty t) o (w_rew t) (w_disc t) (w_ext t) (w_next t).
  (* add_obs_to_extras / the no-op, chosen by next_obs_in_extras *)
  Definition maybe_add (nx : bool) (t : wts) : wts :=
    if nx then mkW (w_ty t) (w_obs t) (w_rew t) (w_disc t) (w_ext t) (Some (w_obs t)) else t.

  (* ---- AutoResetWrapper ---- *)
  Definition auto_reset (nx : bool) (s : St) (t : wts) : St * wts :=
    let (s0, t0) := reset (KL (skey s)) in          (* key, _ = jax.random.split(state.key) *)
    (s0, set_obs (maybe_add nx t) (w_obs t0)).
  Definition maybe_reset (nx : bool) (st : St * wts) : St * wts :=
    let (s, t) := st in
    if w_ty t =? LAST then auto_reset nx s t else (s, maybe_add nx t).
  Definition ar_reset (nx : bool) (k : key) : St * wts := let (s, t) := reset k in (s, maybe_add nx t).
  Definition ar_step (nx : bool) (s : St) (a : Act) : St * wts := maybe_reset nx (step s a).

  (* several episodes through the wrapper: the states visited and the keys handed to reset *)
  Fixpoint ar_run (nx : bool) (s : St) (acts : list Act) : list (St * wts) :=
    match acts with [] => [] | a :: r => let x := ar_step nx s a in x :: ar_run nx (fst x) r end.
  Fixpoint ar_reset_keys (s : St) (acts : list Act) : list key :=
    match acts with
    | [] => []
    | a :: r =>
        let (s', t) := step s a in
        if w_ty t =? LAST then KL (skey s') :: ar_reset_keys (fst (reset (KL (skey s')))) r
        else ar_reset_keys s' r
    end.

  (* ---- VmapWrapper / VmapAutoResetWrapper: a batch is a list ---- *)
  Fixpoint map2 {A B C} (f : A -> B -> C) (a : list A) (b : list B) : list C :=
    match a, b with x :: a', y :: b' => f x y :: map2 f a' b' | _, _ => [] end.
  Definition vmap_reset (ks : list key) : list (St * wts) := map reset ks.
  Definition vmap_step (ss : list St) (acts : list Act) : list (St * wts) := map2 step ss acts.
  (* jax.vmap(env.step) then jax.lax.map(_maybe_reset) *)
  Definition var_reset (nx : bool) (ks : list key) : list (St * wts) :=
    map (fun st => (fst st, maybe_add nx (snd st))) (map reset ks).
  Definition var_step (nx : bool) (ss : list St) (acts : list Act) : list (St * wts) :=
    map (maybe_reset nx) (map2 step ss acts).
  (* VmapWrapper(AutoResetWrapper(env)) *)
  Definition vmap_ar_reset (nx : bool) (ks : list key) : list (St * wts) := map (ar_reset nx) ks.
  Definition vmap_ar_step (nx : bool) (ss : list St) (acts : list Act) : list (St * wts) := map2 (ar_step nx) ss acts.
  (* render: tree_slice(state, 0) handed to the inner render *)
  Definition render_arg (ss : list St) : option St := match ss with [] => None | s :: _ => Some s end.

  (* ---- MultiToSingleWrapper ---- *)
  Variables agg_r agg_d : Rw -> Rw.
  Definition aggregate (t : wts) : wts := mkW (w_ty t) (w_obs t) (agg_r (w_rew t)) (agg_d (w_disc t)) (w_ext t) (w_next t).
  Definition m2s_reset (k : key) : St * wts := let (s, t) := reset k in (s, aggregate t).
  Definition m2s_step (s : St) (a : Act) : St * wts := let (s', t) := step s a in (s', aggregate t).

  (* ---- JumanjiToGymWrapper / JumanjiToDMEnvWrapper: the only stateful objects ---- *)
  Record adapter := mkA { a_key : key; a_state : option St }.
  Inductive op := OSeed (n : Z) | OReset | OResetSeed (n : Z) | OStep (a : Act).
  Variable disc_zero : Rw -> bool.           (* ~discount.astype(bool) *)
  (* gym outputs: reset -> (obs, extras); step -> (obs, reward, terminated, truncated, extras); None = nothing returned *)
  Inductive gout := GNone | GReset (o : Obs) (e : Z) | GStep (o : Obs) (r : Rw) (term trunc : bool) (e : Z) | GErr.
  Definition gym_init (seed : Z) : adapter := mkA (KRoot seed) None.
  Definition gym_do (ad : adapter) (o : op) : adapter * gout :=
    match o with
    | OSeed n => (mkA (KRoot n) (a_state ad), GNone)
    | OReset => let (s, t) := reset (KL (a_key ad)) in (mkA (KR (a_key ad)) (Some s), GReset (w_obs t) (w_ext t))
    | OResetSeed n => let (s, t) := reset (KL (KRoot n)) in (mkA (KR (KRoot n)) (Some s), GReset (w_obs t) (w_ext t))
    | OStep a =>
        match a_state ad with
        | None => (ad, GErr)
        | Some s => let (s', t) := step s a in
                    (mkA (a_key ad) (Some s'), GStep (w_obs t) (w_rew t) (disc_zero (w_disc t)) (w_ty t =? LAST) (w_ext t))
        end
    end.
  Fixpoint gym_run (ad : adapter) (ops : list op) : list gout :=
    match ops with [] => [] | o :: r => let (ad', g) := gym_do ad o in g :: gym_run ad' r end.
  Fixpoint gym_final (ad : adapter) (ops : list op) : adapter :=
    match ops with [] => ad | o :: r => gym_final (fst (gym_do ad o)) r end.

  (* dm_env: reset -> restart(observation) (reward None, discount None); step -> the native timestep *)
  Inductive dout := DFirst (o : Obs) | DStep (ty : Z) (o : Obs) (r d : Rw) | DErr.
  Definition dm_do (ad : adapter) (o : op) : adapter * dout :=
    match o with
    | OReset => let (s, t) := reset (KL (a_key ad)) in (mkA (KR (a_key ad)) (Some s), DFirst (w_obs t))
    | OStep a =>
        match a_state ad with
        | None => (ad, DErr)
        | Some s => let (s', t) := step s a in (mkA (a_key ad) (Some s'), DStep (w_ty t) (w_obs t) (w_rew t) (w_disc t))
        end
    | _ => (ad, DErr)
    end.
  Fixpoint dm_run (ad : adapter) (ops : list op) : list dout :=
    match ops with [] => [] | o :: r => let (ad', g) := dm_do ad o in g :: dm_run ad' r end.

  (* the NATIVE episode the adapters must relay: the documented key schedule (seed, then one split per reset) *)
  Fixpoint native_run (k : key) (cur : option St) (ops : list op) : list gout :=
    match ops with
    | [] => []
    | OSeed n :: r => GNone :: native_run (KRoot n) cur r
    | OReset :: r => let (s, t) := reset (KL k) in GReset (w_obs t) (w_ext t) :: native_run (KR k) (Some s) r
    | OResetSeed n :: r => let (s, t) := reset (KL (KRoot n)) in GReset (w_obs t) (w_ext t) :: native_run (KR (KRoot n)) (Some s) r
    | OStep a :: r =>
        match cur with
        | None => GErr :: native_run k cur r
        | Some s => let (s', t) := step s a in
                    GStep (w_obs t) (w_rew t) (disc_zero (w_disc t)) (w_ty t =? LAST) (w_ext t) :: native_run k (Some s') r
        end
    end.
End Wrappers.

(* ================= table instantiation for the correspondence =================
   The harness runs the REAL environment natively, names every state / observation / key / reward / discount it meets
   by an integer id and sends the graph of reset, step, state.key and split-left as tables; the model then predicts the
   ids of what the REAL wrapper must return.  A lookup that misses the table yields id -1 (reported as a mismatch). *)
Definition tab := list (list Z).
Fixpoint lookup1 (t : tab) (k : Z) : list Z :=
  match t with [] => [] | row :: r => match row with k0 :: v => if k0 =? k then v else lookup1 r k | [] => lookup1 r k end end.
Fixpoint lookup2 (t : tab) (k1 k2 : Z) : list Z :=
  match t with
  | [] => []
  | row :: r => match row with k0 :: k0' :: v => if (k0 =? k1) && (k0' =? k2) then v else lookup2 r k1 k2 | _ => lookup2 r k1 k2 end
  end.
Definition zwts := wts Z Z.
Definition wts_of (v : list Z) : Z * zwts :=       (* sid, ty, obs, rew, disc, ext *)
  match v with
  | [s; ty; o; r; d; e] => (s, mkW Z Z ty o r d e None)
  | _ => (-1, mkW Z Z (-1) (-1) (-1) (-1) (-1) None)
  end.
(* keys are ids too: KRoot id; the table `lefts` maps a key id to the id of split(key)[0], `rights` to split(key)[1] *)
Record tables := mkTab { t_reset : tab; t_step : tab; t_skey : tab; t_left : tab; t_right : tab; t_seed : tab }.
Definition kid (T : tables) : key -> Z :=
  fix go k := match k with
              | KRoot n => n
              | KL p => match lookup1 (t_left T) (go p) with [x] => x | _ => -1 end
              | KR p => match lookup1 (t_right T) (go p) with [x] => x | _ => -1 end
              end.
Definition T_reset (T : tables) (k : key) : Z * zwts := wts_of (lookup1 (t_reset T) (kid T k)).
Definition T_step (T : tables) (s a : Z) : Z * zwts := wts_of (lookup2 (t_step T) s a).
Definition T_skey (T : tables) (s : Z) : key := KRoot (match lookup1 (t_skey T) s with [x] => x | _ => -1 end).
Definition T_seed (T : tables) (n : Z) : Z := match lookup1 (t_seed T) n with [x] => x | _ => -1 end.

Definition dec_tab (l : list Z) : tab * list Z :=
  let (n, l) := take1 l in let (w, l) := take1 l in dec_many (taken w) (Z.to_nat n) l.
Definition dec_tables (l : list Z) : tables * list Z :=
  let (a, l) := dec_tab l in let (b, l) := dec_tab l in let (c, l) := dec_tab l in
  let (d, l) := dec_tab l in let (e, l) := dec_tab l in let (f, l) := dec_tab l in (mkTab a b c d e f, l).
Definition enc_wts (st : Z * zwts) : list Z :=
  let (s, t) := st in [s; w_ty _ _ t; w_obs _ _ t; w_rew _ _ t; w_disc _ _ t; w_ext _ _ t; match w_next _ _ t with Some o => o | None => -2 end].

(* in: tables, nx, start state id, n, actions  ->  per step: the wrapper's (state, ty, obs, rew, disc, ext, next_obs) *)
Definition wrappers_ar_io (l : list Z) : list Z :=
  let (T, l) := dec_tables l in let (nx, l) := take1 l in let (s0, l) := take1 l in let (n, l) := take1 l in
  let (acts, _) := taken n l in
  concat (map enc_wts (ar_run Z Z Z Z (T_reset T) (T_step T) (T_skey T) (z2b nx) s0 acts)).
(* @export wrappers_ar_io *)

(* in: tables, nx, which (0 = VmapAutoReset, 1 = Vmap(AutoReset), 2 = Vmap), B, states, actions -> B records *)
Definition wrappers_batch_io (l : list Z) : list Z :=
  let (T, l) := dec_tables l in let (nx, l) := take1 l in let (which, l) := take1 l in let (B, l) := take1 l in
  let (ss, l) := taken B l in let (acts, _) := taken B l in
  let f := if which =? 0 then var_step Z Z Z Z (T_reset T) (T_step T) (T_skey T) (z2b nx)
           else if which =? 1 then vmap_ar_step Z Z Z Z (T_reset T) (T_step T) (T_skey T) (z2b nx)
           else vmap_step Z Z Z Z (T_step T) in
  concat (map enc_wts (f ss acts)).
(* @export wrappers_batch_io *)

(* adapter op stream: 0 n = seed n ; 1 = reset ; 2 n = reset(seed=n) ; 3 a = step a.
   Seeds are mapped to root key ids through the t_seed table (PRNGKey(n)). *)
Fixpoint dec_ops (T : tables) (fuel : nat) (l : list Z) : list (op Z) :=
  match fuel with
  | O => []
  | S f =>
      match l with
      | 0 :: n :: r => OSeed Z (T_seed T n) :: dec_ops T f r
      | 1 :: r => OReset Z :: dec_ops T f r
      | 2 :: n :: r => OResetSeed Z (T_seed T n) :: dec_ops T f r
      | 3 :: a :: r => OStep Z a :: dec_ops T f r
      | _ => []
      end
  end.
Definition enc_gout (g : gout Z Z) : list Z :=
  match g with
  | GNone _ _ => [0]
  | GReset _ _ o e => [1; o; e]
  | GStep _ _ o r te tr e => [2; o; r; b2z te; b2z tr; e]
  | GErr _ _ => [9]
  end.
Definition enc_dout (g : dout Z Z) : list Z :=
  match g with DFirst _ _ o => [1; o] | DStep _ _ ty o r d => [2; ty; o; r; d] | DErr _ _ => [9] end.
(* in: tables, zero-discount ids (n, ids), initial seed, ops -> gym outputs *)
Definition wrappers_gym_io (l : list Z) : list Z :=
  let (T, l) := dec_tables l in let (nz, l) := take1 l in let (zs, l) := taken nz l in let (seed, l) := take1 l in
  let ops := dec_ops T (length l) l in
  concat (map enc_gout (gym_run Z Z Z Z (T_reset T) (T_step T) (fun d => existsb (Z.eqb d) zs) (gym_init Z (T_seed T seed)) ops)).
(* @export wrappers_gym_io *)
Definition wrappers_dm_io (l : list Z) : list Z :=
  let (T, l) := dec_tables l in let (k0, l) := take1 l in
  let ops := dec_ops T (length l) l in
  concat (map enc_dout (dm_run Z Z Z Z (T_reset T) (T_step T) (mkA Z (KRoot k0) None) ops)).
(* @export wrappers_dm_io *)
