(* BinPack: the step theorems (C03, C04, C05, C06, C08, C11). *)
Require Import JV.Base.Prelude JV.Base.JaxIndex JV.Base.Codec JV.Base.TimeStep JV.Model.BinPack JV.Proofs.BinPack_lib.

(* ---------- refresh / consistency ---------- *)
Lemma refresh_consistent obs s : consistent obs (refresh obs s).
Proof. split; reflexivity. Qed.

Lemma refresh_id obs s : consistent obs s -> refresh obs s = s.
Proof. destruct s. unfold consistent, refresh. cbn. intros [-> ->]. reflexivity. Qed.

Lemma refresh_shape n m obs s : shape n m s -> shape n m (refresh obs s).
Proof. exact (fun H => H). Qed.

Lemma step_state_consistent obs s a0 a1 : consistent obs (step_state obs s a0 a1).
Proof. apply refresh_consistent. Qed.

(* ---------- the sorted order: a list of in-range indices of length m ---------- *)
Lemma insert_desc_In ks i : forall l x, In x (insert_desc ks i l) <-> i = x \/ In x l.
Proof.
  induction l as [|j t IH]; intro x; cbn [insert_desc In]; [tauto|].
  destruct (_ <? _); cbn [In]; [tauto|]. rewrite IH. tauto.
Qed.

Lemma insert_desc_length ks i : forall l, length (insert_desc ks i l) = S (length l).
Proof. induction l as [|j t IH]; cbn [insert_desc length]; [reflexivity|]. destruct (_ <? _); cbn [length]; lia. Qed.

Lemma fold_insert_In ks : forall r acc x, In x (fold_left (fun acc i => insert_desc ks i acc) r acc) <-> In x r \/ In x acc.
Proof.
  induction r as [|i r IH]; intros acc x; cbn [fold_left In]; [tauto|].
  rewrite IH, insert_desc_In. tauto.
Qed.

Lemma fold_insert_length ks : forall r acc, length (fold_left (fun acc i => insert_desc ks i acc) r acc) = (length r + length acc)%nat.
Proof.
  induction r as [|i r IH]; intro acc; cbn [fold_left length]; [reflexivity|].
  rewrite IH, insert_desc_length. lia.
Qed.

Lemma argsort_In ks x : In x (argsort_desc ks) <-> 0 <= x < zlen ks.
Proof. unfold argsort_desc. rewrite fold_insert_In, in_zrange. cbn [In]. tauto. Qed.

Lemma argsort_length ks : zlen (argsort_desc ks) = zlen ks.
Proof.
  unfold argsort_desc, zlen at 1. rewrite fold_insert_length. unfold zrange. rewrite zrange_from_length. cbn [length].
  pose proof (zlen_nonneg ks). lia.
Qed.

Lemma keys_of_length : forall es ms, length es = length ms -> zlen (keys_of es ms) = zlen es.
Proof.
  induction es as [|e es IH]; intros [|m ms] H; cbn [keys_of length] in *; try lia; [reflexivity|].
  rewrite !zlen_cons. rewrite IH by lia. reflexivity.
Qed.

Lemma sorted_of_range n m s k e :
  shape n m s -> 0 <= e < m -> k = znth 0 (sorted_of (ems s) (ems_mask s)) e -> 0 <= k < m.
Proof.
  intros (_ & _ & _ & _ & He & Hm) Hr ->. unfold sorted_of.
  assert (HL : length (ems s) = length (ems_mask s)) by (unfold zlen in *; lia).
  pose proof (keys_of_length _ _ HL) as HK.
  rewrite <- He, <- HK. apply argsort_In. rewrite znth_nonneg by lia. apply nth_In.
  pose proof (argsort_length (keys_of (ems s) (ems_mask s))) as HA. unfold zlen in *. lia.
Qed.

(* ---------- the mask ---------- *)
Lemma mask_row_length e em : forall its im pl, length its = length im -> length its = length pl ->
  length (mask_row e em its im pl) = length its.
Proof.
  induction its as [|i its IH]; intros [|m im] [|p pl] H1 H2; cbn [mask_row length] in *; try lia.
  rewrite IH; lia.
Qed.

Lemma mask_row_nth e em : forall its im pl i, length its = length im -> length its = length pl -> (i < length its)%nat ->
  nth i (mask_row e em its im pl) false = negb (nth i pl false) && nth i im false && em && fits (nth i its it0) (item_of e).
Proof.
  induction its as [|x its IH]; intros [|m im] [|p pl] [|i] H1 H2 H3; cbn [mask_row length nth] in *; try lia; [reflexivity|].
  apply IH; lia.
Qed.

Lemma nth_firstn_lt {A} (d : A) : forall n l i, (i < n)%nat -> nth i (firstn n l) d = nth i l d.
Proof. induction n as [|n IH]; intros [|x l] [|i] H; cbn [firstn nth]; try lia; auto. apply IH. lia. Qed.

Lemma mask_lookup n m obs s e i :
  shape n m s -> consistent obs s -> 0 <= e < obs -> obs <= m -> 0 <= i < n ->
  gget false (action_mask s) e i = legal_b s e i.
Proof.
  intros Hs [Hso Ham] He Hobs Hi.
  pose proof Hs as (L1 & L2 & L3 & L4 & L5 & L6).
  assert (Hsl : zlen (sorted_idx s) = m).
  { rewrite Hso. unfold sorted_of. rewrite argsort_length, keys_of_length; [exact L5|unfold zlen in *; lia]. }
  assert (Hk : 0 <= znth 0 (sorted_idx s) e < m).
  { eapply sorted_of_range; [exact Hs| |rewrite Hso; reflexivity]. lia. }
  unfold gget. rewrite Ham. unfold mask_of, obs_idx, firstn_z.
  assert (Hfl : length (firstn (Z.to_nat obs) (sorted_idx s)) = Z.to_nat obs).
  { rewrite firstn_length. unfold zlen in Hsl. lia. }
  rewrite (jget_znth [] _ e) by (unfold zlen; rewrite map_length, Hfl; lia).
  rewrite (znth_nonneg [] _ e) by lia.
  rewrite (nth_map_in _ _ _ 0) by lia.
  rewrite nth_firstn_lt by lia.
  rewrite <- (znth_nonneg 0 (sorted_idx s) e) by lia.
  set (k := znth 0 (sorted_idx s) e) in *.
  rewrite jget_znth by (unfold zlen; rewrite mask_row_length; unfold zlen in *; lia).
  rewrite znth_nonneg by lia.
  rewrite mask_row_nth by (unfold zlen in *; lia).
  rewrite !jget_znth by lia.
  unfold legal_b, emask_at, imask_at, placed_at, item_at, ems_at. fold k.
  rewrite <- !znth_nonneg by lia.
  destruct (znth false (ems_mask s) k), (znth false (items_mask s) i), (znth false (items_placed s) i),
    (fits (znth it0 (items s) i) (item_of (znth sp0 (ems s) k))); reflexivity.
Qed.

Lemma legal_b_spec s e i : legal_b s e i = true <-> legal s e i.
Proof.
  unfold legal_b, legal. cbv zeta. rewrite !andb_true_iff, negb_true_iff. tauto.
Qed.

(* ---------- pack_item ---------- *)
Definition corner (e : space) : loc := mkLoc (x1 e) (y1 e) (z1 e).
Definition new_item_space (s : state) (k a : Z) : space := item_space (item_at s a) (corner (ems_at s k)).

Lemma pack_item_fields n m s k a :
  shape n m s -> 0 <= a < n -> 0 <= k < m ->
  let s' := pack_item s k a in
  container s' = container s /\ items s' = items s /\ items_mask s' = items_mask s /\
  items_placed s' = jset (items_placed s) a true /\
  items_loc s' = jset (items_loc s) a (corner (ems_at s k)) /\
  ems s' = fst (update_ems (ems s) (ems_mask s) (new_item_space s k a)) /\
  ems_mask s' = snd (update_ems (ems s) (ems_mask s) (new_item_space s k a)).
Proof.
  intros (L1 & L2 & L3 & L4 & L5 & L6) Ha Hk. unfold pack_item.
  rewrite (jget_znth sp0 (ems s) k) by lia.
  rewrite (jget_znth it0 (items s) a) by lia.
  rewrite (jget_znth loc0) by (rewrite zlen_jset; lia).
  rewrite znth_jset by lia. rewrite Z.eqb_refl.
  fold (ems_at s k). fold (item_at s a). fold (corner (ems_at s k)). fold (new_item_space s k a).
  destruct (update_ems (ems s) (ems_mask s) (new_item_space s k a)) as [es ms]. cbn. repeat split; reflexivity.
Qed.

Lemma pack_item_shape n m s k a : shape n m s -> 0 <= a < n -> 0 <= k < m -> shape n m (pack_item s k a).
Proof.
  intros Hs Ha Hk. destruct (pack_item_fields n m s k a Hs Ha Hk) as (_ & E2 & E3 & E4 & E5 & E6 & E7).
  destruct Hs as (L1 & L2 & L3 & L4 & L5 & L6).
  unfold shape. rewrite E2, E3, E4, E5, E6, E7. rewrite !zlen_jset.
  destruct (update_ems_length (ems s) (ems_mask s) (new_item_space s k a)) as [A B]; [unfold zlen in *; lia|].
  unfold zlen in *. rewrite A, B. repeat split; lia.
Qed.

Lemma EInv_of_Z (Q : space -> Prop) es ms : length es = length ms ->
  (forall k, znth false ms k = true -> Q (znth sp0 es k)) -> EInv Q es ms.
Proof. intros HL H. split; [exact HL|]. intros k Hk. rewrite <- znth_nat. apply H. rewrite znth_nat. exact Hk. Qed.

Lemma EInv_to_Z (Q : space -> Prop) es ms : EInv Q es ms -> forall k, znth false ms k = true -> Q (znth sp0 es k).
Proof.
  intros [_ H] k Hk. destruct (Z_lt_dec k 0) as [Hn|Hn]; [rewrite znth_neg in Hk by lia; discriminate|].
  rewrite znth_nonneg in Hk by lia. rewrite znth_nonneg by lia. apply H. exact Hk.
Qed.

(* C06, the key step: packing a legal item keeps the hard constraints and the EMS invariant *)
Theorem pack_item_Packing n m s k a :
  shape n m s -> 0 <= a < n -> 0 <= k < m ->
  emask_at s k = true -> placed_at s a = false -> fits (item_at s a) (item_of (ems_at s k)) = true ->
  Packing s -> Packing (pack_item s k a).
Proof.
  intros Hs Ha Hk Hem Hpl Hfit (P1 & P2 & P3).
  destruct (pack_item_fields n m s k a Hs Ha Hk) as (E1 & E2 & E3 & E4 & E5 & E6 & E7).
  pose proof Hs as (L1 & L2 & L3 & L4 & L5 & L6).
  set (s' := pack_item s k a) in *. set (isp := new_item_space s k a) in *.
  assert (Hpl' : forall i, placed_at s' i = if i =? a then true else placed_at s i).
  { intro i. unfold placed_at. rewrite E4. apply znth_jset. lia. }
  assert (Hsp' : forall i, ispace s' i = if i =? a then isp else ispace s i).
  { intro i. unfold ispace, item_at, loc_at. rewrite E2, E5, znth_jset by lia. destruct (i =? a) eqn:E; [|reflexivity].
    assert (i = a) by lia. subst. reflexivity. }
  destruct (P3 k Hem) as [Hke Hkd].
  assert (Hin : sp_incl isp (ems_at s k) = true) by (apply corner_incl; exact Hfit).
  assert (Hold : forall j, placed_at s j = true -> sp_intersect isp (ispace s j) = false).
  { intros j Hj. eapply disjoint_mono; [exact Hin|]. apply Hkd. exact Hj. }
  split; [|split].
  - intros i Hi. rewrite Hpl' in Hi. rewrite Hsp', E1. destruct (i =? a) eqn:E.
    + eapply incl_trans; eassumption.
    + apply P1. exact Hi.
  - intros i j Hij Hi Hj. rewrite Hpl' in Hi, Hj. rewrite !Hsp'.
    destruct (i =? a) eqn:Ei, (j =? a) eqn:Ej; try lia.
    + apply Hold. exact Hj.
    + rewrite intersect_sym. apply Hold. exact Hi.
    + apply P2; assumption.
  - set (Qold := fun e => sp_incl e (container s) = true /\ forall i, placed_at s i = true -> sp_intersect e (ispace s i) = false).
    set (Qnew := fun e => sp_incl e (container s') = true /\ forall i, placed_at s' i = true -> sp_intersect e (ispace s' i) = false).
    assert (HE : EInv Qnew (ems s') (ems_mask s')).
    { rewrite E6, E7. apply (update_ems_EInv Qold Qnew).
      - apply EInv_of_Z; [unfold zlen in *; lia|]. intros k0 Hk0. apply (P3 k0 Hk0).
      - intros e [Q1 Q2] Hd. split; [rewrite E1; exact Q1|]. intros i Hi. rewrite Hpl' in Hi. rewrite Hsp'.
        destruct (i =? a); [rewrite intersect_sym; exact Hd|apply Q2; exact Hi].
      - intros e d [Q1 Q2]. split.
        + rewrite E1. eapply incl_trans; [apply hyper_incl|exact Q1].
        + intros i Hi. rewrite Hpl' in Hi. rewrite Hsp'. destruct (i =? a).
          * apply hyper_disjoint.
          * eapply disjoint_mono; [apply hyper_incl|apply Q2; exact Hi]. }
    intros k0 Hk0. apply (EInv_to_Z Qnew _ _ HE k0 Hk0).
Qed.

(* ---------- step ---------- *)
Definition inspec (obs n : Z) (a0 a1 : Z) : Prop := 0 <= a0 < obs /\ 0 <= a1 < n.

Lemma valid_legal n m obs s a0 a1 :
  shape n m s -> consistent obs s -> obs <= m -> inspec obs n a0 a1 ->
  step_valid s a0 a1 = legal_b s a0 a1.
Proof. intros Hs Hc Ho [H0 H1]. unfold step_valid. eapply mask_lookup; eauto. Qed.

Lemma sorted_jget n m obs s a0 :
  shape n m s -> consistent obs s -> obs <= m -> 0 <= a0 < obs ->
  jget 0 (sorted_idx s) a0 = znth 0 (sorted_idx s) a0 /\ 0 <= znth 0 (sorted_idx s) a0 < m.
Proof.
  intros Hs [Hso _] Ho Ha. pose proof Hs as (L1 & L2 & L3 & L4 & L5 & L6).
  assert (Hsl : zlen (sorted_idx s) = m).
  { rewrite Hso. unfold sorted_of. rewrite argsort_length, keys_of_length; [exact L5|unfold zlen in *; lia]. }
  split; [apply jget_znth; lia|]. eapply sorted_of_range; [exact Hs| |rewrite Hso; reflexivity]. lia.
Qed.

Theorem step_shape n m obs s a0 a1 :
  shape n m s -> consistent obs s -> obs <= m -> inspec obs n a0 a1 -> shape n m (step_state obs s a0 a1).
Proof.
  intros Hs Hc Ho Hi. unfold step_state. apply refresh_shape. destruct (step_valid s a0 a1); [|exact Hs].
  destruct Hi as [H0 H1]. destruct (sorted_jget n m obs s a0 Hs Hc Ho H0) as [-> Hr]. apply pack_item_shape; assumption.
Qed.

Lemma refresh_Packing obs s : Packing s -> Packing (refresh obs s).
Proof. exact (fun H => H). Qed.

(* C06: every in-spec step (legal or not) from a consistent state keeps the hard constraints *)
Theorem step_Packing n m obs s a0 a1 :
  shape n m s -> consistent obs s -> obs <= m -> inspec obs n a0 a1 -> Packing s -> Packing (step_state obs s a0 a1).
Proof.
  intros Hs Hc Ho Hi HP. unfold step_state. apply refresh_Packing.
  destruct (step_valid s a0 a1) eqn:V; [|exact HP].
  rewrite (valid_legal n m obs s a0 a1 Hs Hc Ho Hi) in V. apply legal_b_spec in V. destruct V as (V1 & V2 & V3 & V4).
  destruct Hi as [H0 H1]. destruct (sorted_jget n m obs s a0 Hs Hc Ho H0) as [-> Hr].
  eapply pack_item_Packing; eauto.
Qed.

(* the reset state *)
Lemma nth_repeat_d {A} (d y : A) : forall n j, (j < n)%nat -> nth j (repeat y n) d = y.
Proof. induction n as [|n IH]; intros [|j] H; cbn [repeat nth]; try lia; auto. apply IH. lia. Qed.

Lemma znth_cons_repeat {A} (d x y : A) k n : znth d (x :: repeat y n) k = if k =? 0 then x else if (0 <? k) && (k <=? Z.of_nat n) then y else d.
Proof.
  destruct (Z_lt_dec k 0) as [Hn|Hn]; [rewrite znth_neg by lia; destruct (k =? 0) eqn:E; [lia|]; destruct ((0 <? k) && (k <=? Z.of_nat n)) eqn:E2; [lia|reflexivity]|].
  rewrite znth_nonneg by lia. destruct (k =? 0) eqn:E.
  - replace k with 0 by lia. reflexivity.
  - destruct (Z.to_nat k) as [|j] eqn:Ej; [lia|]. cbn [nth].
    destruct ((0 <? k) && (k <=? Z.of_nat n)) eqn:E2.
    + apply nth_repeat_d. lia.
    + apply nth_overflow. rewrite repeat_length. lia.
Qed.

Theorem init_Packing obs c max_ems its im : 0 < max_ems -> Packing (fst (init obs c max_ems its im)).
Proof.
  intro Hm. unfold init. cbn [fst]. apply refresh_Packing. unfold init_state, Packing.
  assert (Hnp : forall i, placed_at (init_state c max_ems its im) i = false).
  { intro i. unfold placed_at, init_state. cbn [items_placed]. unfold znth. destruct (i <? 0); [reflexivity|].
    generalize (Z.to_nat i) as k. generalize (length its) as n. induction n; intros [|k]; cbn; auto. }
  fold (init_state c max_ems its im).
  split; [|split].
  - intros i Hi. rewrite Hnp in Hi. discriminate.
  - intros i j _ Hi. rewrite Hnp in Hi. discriminate.
  - intros k Hk. unfold emask_at, ems_at, init_state in *. cbn [ems ems_mask container] in *.
    rewrite znth_cons_repeat in Hk. rewrite znth_cons_repeat.
    destruct (k =? 0); [|destruct (_ && _); discriminate].
    split; [apply incl_refl|]. intros i Hi. fold (init_state c max_ems its im) in Hi. rewrite Hnp in Hi. discriminate.
Qed.

(* ---------- C05 ---------- *)
Theorem invalid_step obs sparse s a0 a1 :
  step_valid s a0 a1 = false ->
  let (s', t) := step obs sparse s a0 a1 in
  st t = LAST /\ discount t = [0] /\ reward t = [if sparse then pvol s else 0] /\
  container s' = container s /\ ems s' = ems s /\ ems_mask s' = ems_mask s /\ items s' = items s /\
  items_mask s' = items_mask s /\ items_placed s' = items_placed s /\ items_loc s' = items_loc s /\
  (consistent obs s -> s' = s).
Proof.
  intro V. unfold step, step_done, step_state. rewrite V. cbn [negb]. rewrite orb_true_r.
  unfold cond_done, termination, reward_num. cbn [st discount reward repeat].
  repeat split; try reflexivity; try (destruct sparse; reflexivity).
  apply refresh_id; assumption.
Qed.

(* ---------- C03 ---------- *)
Theorem step_protocol obs sparse s a0 a1 : step_ok 1 false (snd (step obs sparse s a0 a1)) = true.
Proof. unfold step. cbn [snd]. unfold cond_done. destruct (step_done obs s a0 a1); reflexivity. Qed.

Theorem init_protocol obs c max_ems its im : first_ok 1 (snd (init obs c max_ems its im)) = true.
Proof. reflexivity. Qed.

(* ---------- counting: C11 and C08 ---------- *)
Lemma count_true_cons b l : count_true (b :: l) = (if b then 1 else 0) + count_true l.
Proof. unfold count_true, count_if. cbn [filter]. destruct b; [rewrite zlen_cons|]; lia. Qed.

Lemma count_true_upd : forall l k, (k < length l)%nat -> nth k l false = false -> count_true (upd k true l) = count_true l + 1.
Proof.
  induction l as [|b l IH]; intros [|k] Hk Hn; cbn [length upd nth] in *; try lia.
  - subst. rewrite !count_true_cons. lia.
  - rewrite !count_true_cons. rewrite IH by (try lia; exact Hn). lia.
Qed.

Lemma count_true_le l : 0 <= count_true l <= zlen l.
Proof. induction l as [|b l IH]; [unfold count_true, count_if, zlen; cbn; lia|]. rewrite count_true_cons, zlen_cons. destruct b; lia. Qed.

Lemma placed_vol_upd : forall its pl k, length its = length pl -> (k < length its)%nat -> nth k pl false = false ->
  placed_vol its (upd k true pl) = placed_vol its pl + ivol (nth k its it0).
Proof.
  induction its as [|i its IH]; intros [|p pl] [|k] HL Hk Hn; cbn [length upd nth placed_vol] in *; try lia.
  - subst. lia.
  - rewrite IH by (try lia; exact Hn). lia.
Qed.

Lemma mask_row_any e em : forall its im pl, existsb (fun b => b) (mask_row e em its im pl) = true -> count_true pl < zlen pl.
Proof.
  induction its as [|i its IH]; intros [|m im] [|p pl] H; cbn [mask_row existsb] in *; try discriminate.
  rewrite count_true_cons, zlen_cons. apply orb_true_iff in H as [H|H].
  - destruct p; [discriminate|]. pose proof (count_true_le pl). lia.
  - apply IH in H. destruct p; lia.
Qed.

Lemma any2_mask_of obs s so : any2 (mask_of obs s so) = true -> count_placed s < zlen (items_placed s).
Proof.
  unfold any2, mask_of. rewrite existsb_exists. intros (r & Hin & Hr). apply in_map_iff in Hin as (k & <- & _).
  apply mask_row_any in Hr. exact Hr.
Qed.

(* a legal in-spec step places exactly one more item and adds exactly its volume *)
Theorem valid_step_counts n m obs s a0 a1 :
  shape n m s -> consistent obs s -> obs <= m -> inspec obs n a0 a1 -> step_valid s a0 a1 = true ->
  let s' := step_state obs s a0 a1 in
  count_placed s' = count_placed s + 1 /\ pvol s' = pvol s + ivol (item_at s a1) /\ placed_at s' a1 = true.
Proof.
  intros Hs Hc Ho Hi V. pose proof V as V'. rewrite (valid_legal n m obs s a0 a1 Hs Hc Ho Hi) in V'.
  apply legal_b_spec in V'. destruct V' as (V1 & V2 & V3 & V4).
  destruct Hi as [H0 H1]. destruct (sorted_jget n m obs s a0 Hs Hc Ho H0) as [Ej Hr].
  unfold step_state. rewrite V, Ej. cbv zeta.
  destruct (pack_item_fields n m s (znth 0 (sorted_idx s) a0) a1 Hs H1 Hr) as (E1 & E2 & E3 & E4 & E5 & E6 & E7).
  pose proof Hs as (L1 & L2 & L3 & L4 & L5 & L6).
  unfold count_placed, pvol, placed_at, refresh. cbn [items items_placed]. rewrite E2, E4.
  unfold placed_at in V3. rewrite znth_nonneg in V3 by lia.
  rewrite jset_in_range by lia.
  repeat split.
  - apply count_true_upd; [unfold zlen in *; lia|exact V3].
  - unfold item_at. rewrite znth_nonneg by lia. apply placed_vol_upd; [unfold zlen in *; lia|unfold zlen in *; lia|exact V3].
  - rewrite znth_nonneg by lia. apply nth_upd_same. unfold zlen in *. lia.
Qed.

(* C11: a step that does not end the episode has placed one more item, and an item is still unplaced *)
Theorem mid_step_progress n m obs sparse s a0 a1 :
  shape n m s -> consistent obs s -> obs <= m -> inspec obs n a0 a1 ->
  st (snd (step obs sparse s a0 a1)) = MID ->
  count_placed (fst (step obs sparse s a0 a1)) = count_placed s + 1 /\ count_placed (fst (step obs sparse s a0 a1)) < n.
Proof.
  intros Hs Hc Ho Hi Hm. unfold step in *. cbn [fst snd] in *. unfold cond_done in Hm.
  destruct (step_done obs s a0 a1) eqn:D; [discriminate|].
  unfold step_done in D. apply orb_false_iff in D as [D1 D2]. apply negb_false_iff in D1, D2.
  destruct (valid_step_counts n m obs s a0 a1 Hs Hc Ho Hi D2) as (C1 & _). split; [exact C1|].
  pose proof (step_shape n m obs s a0 a1 Hs Hc Ho Hi) as (_ & _ & L3 & _).
  rewrite <- L3. destruct (step_state_consistent obs s a0 a1) as [_ Ham]. rewrite Ham in D1.
  apply any2_mask_of in D1. exact D1.
Qed.

(* episodes *)
Fixpoint all_mid (obs : Z) (sparse : bool) (s : state) (acts : list (Z * Z)) : Prop :=
  match acts with
  | [] => True
  | (a0, a1) :: r => st (snd (step obs sparse s a0 a1)) = MID /\ all_mid obs sparse (fst (step obs sparse s a0 a1)) r
  end.

Theorem horizon n m obs sparse : obs <= m -> forall acts s,
  shape n m s -> consistent obs s -> Forall (fun a => inspec obs n (fst a) (snd a)) acts ->
  all_mid obs sparse s acts -> count_placed s + zlen acts < n \/ acts = [].
Proof.
  intro Ho. induction acts as [|[a0 a1] r IH]; intros s Hs Hc F HM; [right; reflexivity|left].
  inversion F as [|x l Hi Fr]; subst. cbn [fst snd] in Hi. destruct HM as [M1 M2].
  destruct (mid_step_progress n m obs sparse s a0 a1 Hs Hc Ho Hi M1) as [C1 C2].
  rewrite zlen_cons.
  destruct (IH (fst (step obs sparse s a0 a1))) as [H|H]; try assumption.
  - unfold step; cbn [fst]. apply step_shape; assumption.
  - unfold step; cbn [fst]. apply step_state_consistent.
  - lia.
  - subst. unfold zlen. cbn [length]. lia.
Qed.

(* C08: returns *)
Definition rew1 (t : tstep) : Z := hd 0 (reward t).
Fixpoint episode (obs : Z) (sparse : bool) (s : state) (acts : list (Z * Z)) : state * Z * bool :=
  match acts with
  | [] => (s, 0, false)
  | (a0, a1) :: r =>
      let (s', t) := step obs sparse s a0 a1 in
      if st t =? LAST then (s', rew1 t, true)
      else let '(sf, R, e) := episode obs sparse s' r in (sf, rew1 t + R, e)
  end.

Lemma dense_step_reward n m obs s a0 a1 :
  shape n m s -> consistent obs s -> obs <= m -> inspec obs n a0 a1 ->
  pvol (fst (step obs false s a0 a1)) = pvol s + rew1 (snd (step obs false s a0 a1)).
Proof.
  intros Hs Hc Ho Hi. unfold step. cbn [fst snd]. unfold cond_done, rew1.
  assert (R : forall d : bool, hd 0 (reward (if d then termination 1 [reward_num false s a1 (step_state obs s a0 a1) (step_valid s a0 a1) d]
                                      else transition 1 [reward_num false s a1 (step_state obs s a0 a1) (step_valid s a0 a1) d]))
                        = if step_valid s a0 a1 then ivol (jget it0 (items s) a1) else 0).
  { intros []; reflexivity. }
  rewrite R. destruct (step_valid s a0 a1) eqn:V.
  - destruct (valid_step_counts n m obs s a0 a1 Hs Hc Ho Hi V) as (_ & C2 & _). rewrite C2.
    destruct Hi as [_ H1]. destruct Hs as (L1 & _). rewrite jget_znth by lia. reflexivity.
  - unfold step_state. rewrite V. unfold pvol, refresh. cbn [items items_placed]. lia.
Qed.

Lemma sparse_step_reward obs s a0 a1 :
  rew1 (snd (step obs true s a0 a1)) =
  if st (snd (step obs true s a0 a1)) =? LAST then pvol (fst (step obs true s a0 a1)) else 0.
Proof. unfold step. cbn [fst snd]. unfold cond_done. destruct (step_done obs s a0 a1); reflexivity. Qed.

Lemma step_sparse_indep obs s a0 a1 :
  fst (step obs true s a0 a1) = fst (step obs false s a0 a1) /\ st (snd (step obs true s a0 a1)) = st (snd (step obs false s a0 a1)).
Proof. unfold step. cbn [fst snd]. unfold cond_done. destruct (step_done obs s a0 a1); split; reflexivity. Qed.

Theorem dense_return n m obs : obs <= m -> forall acts s,
  shape n m s -> consistent obs s -> Forall (fun a => inspec obs n (fst a) (snd a)) acts ->
  let '(sf, R, _) := episode obs false s acts in R = pvol sf - pvol s.
Proof.
  intro Ho. induction acts as [|[a0 a1] r IH]; intros s Hs Hc F; cbn [episode]; [lia|].
  inversion F as [|x l Hi Fr]; subst. cbn [fst snd] in Hi.
  pose proof (dense_step_reward n m obs s a0 a1 Hs Hc Ho Hi) as D.
  pose proof (step_shape n m obs s a0 a1 Hs Hc Ho Hi) as Hs'.
  pose proof (step_state_consistent obs s a0 a1) as Hc'.
  destruct (step obs false s a0 a1) as [s' t] eqn:E. cbn [fst snd] in D.
  assert (Es : s' = step_state obs s a0 a1) by (unfold step in E; inversion E; reflexivity). rewrite <- Es in *.
  destruct (st t =? LAST); [lia|].
  specialize (IH s' Hs' Hc' Fr). destruct (episode obs false s' r) as [[sf R] e]. lia.
Qed.

Theorem sparse_return obs : forall acts s,
  let '(sf, R, e) := episode obs true s acts in R = if e then pvol sf else 0.
Proof.
  induction acts as [|[a0 a1] r IH]; intro s; cbn [episode]; [reflexivity|].
  pose proof (sparse_step_reward obs s a0 a1) as D.
  destruct (step obs true s a0 a1) as [s' t] eqn:E. cbn [fst snd] in D.
  destruct (st t =? LAST) eqn:L; [exact D|].
  specialize (IH s'). destruct (episode obs true s' r) as [[sf R] e]. lia.
Qed.

Theorem episodes_same_states obs : forall acts s,
  fst (fst (episode obs true s acts)) = fst (fst (episode obs false s acts)) /\
  snd (episode obs true s acts) = snd (episode obs false s acts).
Proof.
  induction acts as [|[a0 a1] r IH]; intro s; cbn [episode]; [split; reflexivity|].
  destruct (step_sparse_indep obs s a0 a1) as [A B].
  destruct (step obs true s a0 a1) as [s1 t1], (step obs false s a0 a1) as [s2 t2]. cbn [fst snd] in A, B. subst s2. rewrite B.
  destruct (st t2 =? LAST); [split; reflexivity|].
  specialize (IH s1). destruct (episode obs true s1 r) as [[sf R] e], (episode obs false s1 r) as [[sf' R'] e'].
  cbn [fst snd] in *. exact IH.
Qed.

(* dense and sparse returns agree on a finished episode that started with nothing placed *)
Theorem dense_sparse_agree n m obs acts s :
  obs <= m -> shape n m s -> consistent obs s -> Forall (fun a => inspec obs n (fst a) (snd a)) acts -> pvol s = 0 ->
  snd (episode obs false s acts) = true ->
  snd (fst (episode obs true s acts)) = snd (fst (episode obs false s acts)) /\
  snd (fst (episode obs false s acts)) = pvol (fst (fst (episode obs false s acts))).
Proof.
  intros Ho Hs Hc F H0 He.
  pose proof (dense_return n m obs Ho acts s Hs Hc F) as D.
  pose proof (sparse_return obs acts s) as S.
  destruct (episodes_same_states obs acts s) as [A B].
  destruct (episode obs false s acts) as [[sf R] e], (episode obs true s acts) as [[sf' R'] e']. cbn [fst snd] in *.
  subst. split; lia.
Qed.

(* ---------- checkers ---------- *)
Lemma forallb_zrange (f : Z -> bool) n : forallb f (zrange n) = true <-> forall i, 0 <= i < n -> f i = true.
Proof. rewrite forallb_forall. split; intros H i Hi; apply H; apply in_zrange; exact Hi. Qed.

Lemma placed_at_range s i : placed_at s i = true -> 0 <= i < zlen (items_placed s).
Proof.
  unfold placed_at. intro H. destruct (Z_lt_dec i 0) as [Hn|Hn]; [rewrite znth_neg in H by lia; discriminate|].
  rewrite znth_nonneg in H by lia. destruct (Z_lt_dec i (zlen (items_placed s))); [lia|].
  rewrite nth_overflow in H by (unfold zlen in *; lia). discriminate.
Qed.

Lemma emask_at_range s k : emask_at s k = true -> 0 <= k < zlen (ems_mask s).
Proof.
  unfold emask_at. intro H. destruct (Z_lt_dec k 0) as [Hn|Hn]; [rewrite znth_neg in H by lia; discriminate|].
  rewrite znth_nonneg in H by lia. destruct (Z_lt_dec k (zlen (ems_mask s))); [lia|].
  rewrite nth_overflow in H by (unfold zlen in *; lia). discriminate.
Qed.

Theorem Packing_b_sound s : Packing_b s = true -> Packing s.
Proof.
  unfold Packing_b. rewrite !andb_true_iff. intros [[H1 H2] H3].
  rewrite forallb_zrange in H1, H2, H3.
  split; [|split].
  - intros i Hi. specialize (H1 i (placed_at_range s i Hi)). rewrite Hi in H1. exact H1.
  - intros i j Hij Hi Hj. specialize (H2 i (placed_at_range s i Hi)). rewrite forallb_zrange in H2.
    specialize (H2 j (placed_at_range s j Hj)). rewrite Hi, Hj in H2. cbn [negb orb] in H2.
    destruct (i =? j) eqn:E; [lia|]. cbn [orb] in H2. apply negb_true_iff in H2. exact H2.
  - intros k Hk. specialize (H3 k (emask_at_range s k Hk)). rewrite Hk in H3. cbn [negb orb] in H3.
    apply andb_true_iff in H3 as [A B]. split; [exact A|]. intros i Hi. rewrite forallb_zrange in B.
    specialize (B i (placed_at_range s i Hi)). rewrite Hi in B. cbn [negb orb] in B. apply negb_true_iff in B. exact B.
Qed.
