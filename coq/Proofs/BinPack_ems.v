(* BinPack, _update_ems: provenance of every active EMS of the new buffer.  Each one is either an old active EMS that does not
   intersect the placed item (kept unchanged), or a non-empty cut  hyper d item e  of an old active EMS e that DOES intersect the
   item, i.e. (pointwise) the part of e lying strictly on the outer side of one face of the item. *)
Require Import JV.Base.Prelude JV.Base.JaxIndex JV.Base.Codec JV.Base.TimeStep JV.Model.BinPack JV.Proofs.BinPack_lib JV.Proofs.BinPack.

(* integer points *)
Definition inside (px py pz : Z) (e : space) : Prop :=
  x1 e <= px < x2 e /\ y1 e <= py < y2 e /\ z1 e <= pz < z2 e.
(* the open half-space on the outer side of face d of the item *)
Definition outer_side (d : dir) (it : space) (px py pz : Z) : Prop :=
  match d with
  | XL => px < x1 it | XU => x2 it <= px
  | YL => py < y1 it | YU => y2 it <= py
  | ZL => pz < z1 it | ZU => z2 it <= pz
  end.

Theorem hyper_is_halfspace_cut d it e px py pz :
  inside px py pz (hyper d it e) <-> inside px py pz e /\ outer_side d it px py pz.
Proof.
  destruct it as [a1 a2 b1 b2 c1 c2], e as [e1 e2 f1 f2 g1 g2].
  destruct d; unfold inside, outer_side, hyper; cbn [x1 x2 y1 y2 z1 z2]; lia.
Qed.

Lemma outer_side_not_inside d it px py pz : outer_side d it px py pz -> ~ inside px py pz it.
Proof. destruct it as [a1 a2 b1 b2 c1 c2]. destruct d; unfold inside, outer_side; cbn [x1 x2 y1 y2 z1 z2]; lia. Qed.

Lemma cand_mask_after_spec d isp : forall es ms k,
  nth k (cand_mask d isp es ms (after_mask isp es ms)) false = true ->
  nth k ms false = true /\ (k < length es)%nat /\
  sp_empty (hyper d isp (nth k es sp0)) = false /\ sp_intersect isp (nth k es sp0) = true.
Proof.
  induction es as [|e es IH]; intros [|m ms] [|k] H; cbn [cand_mask after_mask nth length] in *; try discriminate.
  - rewrite hyper_incl in H. destruct m, (sp_empty (hyper d isp e)), (sp_intersect isp e); cbn in H; try discriminate.
    repeat split; lia.
  - destruct (IH _ _ H) as [A [B C]]. repeat split; try tauto. lia.
Qed.

(* where an active EMS of the new buffer comes from *)
Definition origin (es : list space) (ms : list bool) (isp e' : space) : Prop :=
  (exists j, nth j ms false = true /\ e' = nth j es sp0 /\ sp_intersect isp e' = false) \/
  (exists j d, nth j ms false = true /\ sp_intersect isp (nth j es sp0) = true /\
               e' = hyper d isp (nth j es sp0) /\ sp_empty e' = false).

Theorem update_ems_origin es ms isp : length es = length ms ->
  EInv (origin es ms isp) (fst (update_ems es ms isp)) (snd (update_ems es ms isp)).
Proof.
  intros HL. unfold update_ems.
  set (af := after_mask isp es ms).
  set (E := fun d => map (hyper d isp) es).
  set (m0 := map (fun d => cand_mask d isp es ms af) all_dirs).
  set (mf := filter_all E m0).
  assert (H0 : EInv (origin es ms isp) (fst (es, af)) (snd (es, af))).
  { cbn [fst snd]. split.
    - unfold af. rewrite after_mask_length; auto.
    - intros k Hk. destruct (after_mask_spec _ _ _ _ Hk) as [A B]. left. exists k. auto. }
  assert (HC : forall d, Forall (fun c : space * bool => snd c = true -> origin es ms isp (fst c)) (zip (E d) (nth (dir_idx d) mf []))).
  { intro d. apply zip_Forall. intros i Hi Hl.
    pose proof (filter_all_le E m0 (dir_idx d) i Hi) as H1. unfold m0 in H1. rewrite nth_m0 in H1.
    destruct (cand_mask_after_spec _ _ _ _ _ H1) as [A [B [C D]]].
    unfold E. rewrite (nth_map_in _ _ _ sp0) by exact B. right. exists i, d. auto. }
  generalize dependent (es, af). generalize all_dirs as ds.
  induction ds as [|d ds IH]; intros st Hst; cbn [fold_left]; [exact Hst|].
  apply IH. apply add_ems_EInv; [exact Hst|apply HC].
Qed.

(* readable form: every active EMS after the update *)
Corollary update_ems_active_origin es ms isp k : length es = length ms ->
  nth k (snd (update_ems es ms isp)) false = true ->
  let e' := nth k (fst (update_ems es ms isp)) sp0 in
  (exists j, nth j ms false = true /\ e' = nth j es sp0 /\ sp_intersect isp e' = false) \/
  (exists j d, nth j ms false = true /\ sp_intersect isp (nth j es sp0) = true /\ sp_empty e' = false /\
     sp_incl e' (nth j es sp0) = true /\ sp_intersect e' isp = false /\
     forall px py pz, inside px py pz e' <-> inside px py pz (nth j es sp0) /\ outer_side d isp px py pz).
Proof.
  intros HL Hk e'. destruct (update_ems_origin es ms isp HL) as [_ H]. specialize (H k Hk). fold e' in H.
  destruct H as [H|[j [d [A [B [C D]]]]]]; [left; exact H|right].
  exists j, d. rewrite C. split; [exact A|]. split; [exact B|]. split; [rewrite <- C; exact D|].
  split; [apply hyper_incl|]. split; [apply hyper_disjoint|].
  intros px py pz. apply hyper_is_halfspace_cut.
Qed.

(* state level: after a legal step (pack_item), every ACTIVE EMS is an old active EMS untouched by the new item, or a non-empty
   half-space cut of an old active EMS that the new item intersects *)
Theorem pack_item_ems_origin n m s k a j :
  shape n m s -> 0 <= a < n -> 0 <= k < m ->
  emask_at (pack_item s k a) j = true ->
  origin (ems s) (ems_mask s) (new_item_space s k a) (ems_at (pack_item s k a) j).
Proof.
  intros Hs Ha Hk Hj. destruct (pack_item_fields n m s k a Hs Ha Hk) as [_ [_ [_ [_ [_ [He Hm]]]]]].
  unfold emask_at, ems_at in *. rewrite He. rewrite Hm in Hj.
  refine (EInv_to_Z _ _ _ _ j Hj). apply update_ems_origin.
  destruct Hs as [_ [_ [_ [_ [A B]]]]]. unfold zlen in *. lia.
Qed.
