(* BinPack, C10: the splitting procedure of RandomGenerator (split_once / split_multi / split_loop over explicit draws) keeps an
   EXACT TILING of the container for ALL valid draws and any number of splits; generate_solution is a feasible complete packing. *)
Require Import JV.Base.Prelude JV.Base.JaxIndex JV.Base.Codec JV.Base.TimeStep JV.Model.BinPack JV.Proofs.BinPack_lib JV.Proofs.BinPack JV.Proofs.BinPack_obs.

(* ---------- lists ---------- *)
Lemma znth_oob {A} (d : A) l i : zlen l <= i -> znth d l i = d.
Proof.
  intro H. pose proof (zlen_nonneg l). rewrite znth_nonneg by lia. apply nth_overflow. unfold zlen in *. lia.
Qed.

Lemma mtrue_range (ms : list bool) i : znth false ms i = true -> 0 <= i < zlen ms.
Proof.
  intro H. destruct (Z_lt_dec i 0); [rewrite znth_neg in H by lia; discriminate|].
  destruct (Z_lt_dec i (zlen ms)); [lia|]. rewrite znth_oob in H by lia. discriminate.
Qed.

Lemma list_ext {A} (d : A) : forall a b : list A, length a = length b ->
  (forall i, (i < length a)%nat -> nth i a d = nth i b d) -> a = b.
Proof.
  induction a as [|x a IH]; intros [|y b] HL H; cbn [length] in *; try lia; [reflexivity|].
  f_equal; [apply (H 0%nat); lia|]. apply IH; [lia|]. intros i Hi. apply (H (S i)). lia.
Qed.

Lemma list_extZ {A} (d : A) (a b : list A) : zlen a = zlen b ->
  (forall i, 0 <= i < zlen a -> znth d a i = znth d b i) -> a = b.
Proof.
  intros HL H. apply (list_ext d); [unfold zlen in HL; lia|]. intros i Hi.
  specialize (H (Z.of_nat i)). rewrite !znth_nat in H. apply H. unfold zlen. lia.
Qed.

Lemma upd_upd_same {A} (a b : A) : forall l n, upd n b (upd n a l) = upd n b l.
Proof. induction l as [|h t IH]; intros [|n]; cbn [upd]; auto. rewrite IH. reflexivity. Qed.

Lemma jset_same {A} (l : list A) k a b : jset (jset l k a) k b = jset l k b.
Proof.
  unfold jset at 1. rewrite zlen_jset. unfold jset.
  destruct ((0 <=? jnorm (zlen l) k) && (jnorm (zlen l) k <? zlen l)); [|reflexivity].
  unfold zupd. destruct (jnorm (zlen l) k <? 0); [reflexivity|]. apply upd_upd_same.
Qed.

Lemma jset_comm {A} (l : list A) i j a b : 0 <= i < zlen l -> 0 <= j < zlen l -> i <> j ->
  jset (jset l i a) j b = jset (jset l j b) i a.
Proof.
  intros Hi Hj Hne. apply (list_extZ a); [rewrite !zlen_jset; reflexivity|]. intros k Hk. rewrite !zlen_jset in Hk.
  rewrite !znth_jset by (rewrite ?zlen_jset; lia).
  destruct (k =? j) eqn:E1, (k =? i) eqn:E2; try reflexivity. lia.
Qed.

Lemma jget_jset_same {A} (d : A) l k v : 0 <= k < zlen l -> jget d (jset l k v) k = v.
Proof. intro H. rewrite jget_znth by (rewrite zlen_jset; lia). rewrite znth_jset by lia. rewrite Z.eqb_refl. reflexivity. Qed.

Lemma jget_jset_other {A} (d : A) l k v i : 0 <= k < zlen l -> 0 <= i < zlen l -> i <> k -> jget d (jset l k v) i = znth d l i.
Proof.
  intros Hk Hi Hne. rewrite jget_znth by (rewrite zlen_jset; lia). rewrite znth_jset by lia.
  destruct (i =? k) eqn:E; [lia|reflexivity].
Qed.

(* ---------- first_false, count_true ---------- *)
Lemma first_false_spec : forall l i, count_true l < zlen l ->
  i <= first_false i l < i + zlen l /\ znth false l (first_false i l - i) = false.
Proof.
  induction l as [|b l IH]; intros i H.
  - unfold count_true, count_if, zlen in H. cbn in H. lia.
  - rewrite count_true_cons, zlen_cons in H. cbn [first_false]. destruct b.
    + destruct (IH (i + 1)) as [A B]; [lia|]. rewrite zlen_cons. split; [lia|].
      rewrite znth_nonneg by lia. rewrite znth_nonneg in B by lia.
      replace (Z.to_nat (first_false (i + 1) l - i)) with (S (Z.to_nat (first_false (i + 1) l - (i + 1)))) by lia.
      exact B.
    + rewrite zlen_cons. pose proof (zlen_nonneg l). split; [lia|]. rewrite Z.sub_diag. reflexivity.
Qed.

Lemma first_false0 l : count_true l < zlen l ->
  0 <= first_false 0 l < zlen l /\ znth false l (first_false 0 l) = false.
Proof. intro H. destruct (first_false_spec l 0 H) as [A B]. rewrite Z.sub_0_r in B. split; [lia|exact B]. Qed.

Lemma count_true_jset l k : 0 <= k < zlen l -> znth false l k = false -> count_true (jset l k true) = count_true l + 1.
Proof.
  intros Hk Hn. rewrite jset_in_range by lia. apply count_true_upd; [unfold zlen in Hk; lia|].
  rewrite znth_nonneg in Hn by lia. exact Hn.
Qed.

Lemma mask_nonempty_length : forall sps ms, length sps = length ms -> length (mask_nonempty sps ms) = length ms.
Proof. induction sps as [|e sps IH]; intros [|m ms] H; cbn [mask_nonempty length] in *; try lia. rewrite IH; lia. Qed.

Lemma mask_nonempty_nth : forall sps ms k, length sps = length ms ->
  nth k (mask_nonempty sps ms) false = nth k ms false && negb (sp_empty (nth k sps sp0)).
Proof.
  induction sps as [|e sps IH]; intros [|m ms] [|k] H; cbn [mask_nonempty nth length] in *; try lia; try reflexivity.
  apply IH. lia.
Qed.

Lemma mask_nonempty_znth sps ms k : zlen sps = zlen ms ->
  znth false (mask_nonempty sps ms) k = znth false ms k && negb (sp_empty (znth sp0 sps k)).
Proof.
  intro H. destruct (Z_lt_dec k 0); [rewrite !znth_neg by lia; reflexivity|].
  rewrite !znth_nonneg by lia. apply mask_nonempty_nth. unfold zlen in H. lia.
Qed.

Lemma mask_nonempty_count : forall sps ms, count_true (mask_nonempty sps ms) <= count_true ms.
Proof.
  induction sps as [|e sps IH]; intros ms.
  - cbn [mask_nonempty]. pose proof (count_true_le ms). unfold count_true at 1, count_if, zlen. cbn. lia.
  - destruct ms as [|m ms]; cbn [mask_nonempty]; [lia|].
    rewrite !count_true_cons. specialize (IH ms). destruct m, (sp_empty e); cbn [andb negb]; lia.
Qed.

(* ---------- volumes ---------- *)
Definition contrib (sps : list space) (ms : list bool) (k : Z) : Z := if znth false ms k then svol (znth sp0 sps k) else 0.

Lemma masked_vol_upd : forall sps ms k e b, length sps = length ms -> (k < length sps)%nat ->
  masked_vol (upd k e sps) (upd k b ms) =
  masked_vol sps ms - (if nth k ms false then svol (nth k sps sp0) else 0) + (if b then svol e else 0).
Proof.
  induction sps as [|x sps IH]; intros [|m ms] [|k] e b HL Hk; cbn [length upd nth masked_vol] in *; try lia.
  rewrite IH by lia. lia.
Qed.

Lemma upd_nth_id {A} (d : A) : forall l k, upd k (nth k l d) l = l.
Proof. induction l as [|x l IH]; intros [|k]; cbn [upd nth]; try reflexivity. rewrite IH. reflexivity. Qed.

Lemma masked_vol_jset2 sps ms k e b : zlen sps = zlen ms -> 0 <= k < zlen sps ->
  masked_vol (jset sps k e) (jset ms k b) = masked_vol sps ms - contrib sps ms k + (if b then svol e else 0).
Proof.
  intros HL Hk. rewrite !jset_in_range by lia. unfold contrib. rewrite !znth_nonneg by lia.
  apply masked_vol_upd; unfold zlen in *; lia.
Qed.

Lemma masked_vol_jset1 sps ms k e : zlen sps = zlen ms -> 0 <= k < zlen sps ->
  masked_vol (jset sps k e) ms = masked_vol sps ms - contrib sps ms k + (if znth false ms k then svol e else 0).
Proof.
  intros HL Hk. rewrite <- (masked_vol_jset2 sps ms k e (znth false ms k)) by lia. f_equal.
  rewrite jset_in_range by lia. rewrite znth_nonneg by lia. symmetry. apply upd_nth_id.
Qed.

Lemma masked_vol_nonempty : forall sps ms,
  (forall k, nth k ms false = true -> sp_empty (nth k sps sp0) = true -> svol (nth k sps sp0) = 0) ->
  masked_vol sps (mask_nonempty sps ms) = masked_vol sps ms.
Proof.
  induction sps as [|e sps IH]; intros [|m ms] H; cbn [mask_nonempty masked_vol]; try reflexivity.
  rewrite IH by (intros k; apply (H (S k))). specialize (H 0%nat). cbn [nth] in H.
  destruct m, (sp_empty e) eqn:E; cbn [andb negb]; try lia; try (rewrite H by reflexivity; lia).
Qed.

(* ---------- geometry of cuts along one axis ---------- *)
Definition sp_wf (e : space) : Prop := x1 e <= x2 e /\ y1 e <= y2 e /\ z1 e <= z2 e.
Definition slice (a : axis) (e : space) (u w : Z) : space := set_hi a (set_lo a e u) w.

Ltac geo2 := repeat match goal with x : space |- _ => destruct x end;
  unfold slice, set_lo, set_hi, ax_lo, ax_hi, svol, ivol, item_of, sp_wf, sp_intersect, sp_empty, sp_inter, sp_incl in *;
  cbn [x1 x2 y1 y2 z1 z2 xl yl zl] in *.

Lemma slice_of_shortened a e x u w : set_hi a (set_lo a (set_hi a e x) u) w = slice a e u w.
Proof. destruct a, e; reflexivity. Qed.

Lemma slice_to_hi a e u : slice a e u (ax_hi a e) = set_lo a e u.
Proof. destruct a, e; reflexivity. Qed.

Lemma wf_of_nonempty e : sp_empty e = false -> sp_wf e.
Proof. geo2. lia. Qed.

Lemma empty_vol0 e : sp_wf e -> sp_empty e = true -> svol e = 0.
Proof.
  geo2. intros [A [B C]] H.
  assert (D : x2 = x1 \/ y2 = y1 \/ z2 = z1) by lia. destruct D as [D|[D|D]]; subst; ring.
Qed.

Lemma shorten_wf a e v : sp_wf e -> ax_lo a e <= v -> sp_wf (set_hi a e v).
Proof. destruct a; geo2; lia. Qed.
Lemma shorten_incl a e v : v <= ax_hi a e -> sp_incl (set_hi a e v) e = true.
Proof. destruct a; geo2; lia. Qed.
Lemma rest_incl a e v : ax_lo a e <= v -> sp_incl (set_lo a e v) e = true.
Proof. destruct a; geo2; lia. Qed.
Lemma shorten_rest_disjoint a e v : sp_intersect (set_hi a e v) (set_lo a e v) = false.
Proof. destruct a; geo2; lia. Qed.
Lemma shorten_rest_vol a e v : svol (set_hi a e v) + svol (set_lo a e v) = svol e.
Proof. destruct a; geo2; ring. Qed.

Lemma slice_wf a e u w : sp_wf e -> u <= w -> sp_wf (slice a e u w).
Proof. destruct a; geo2; lia. Qed.
Lemma slice_incl a e u w : w <= ax_hi a e -> sp_incl (slice a e u w) (set_lo a e u) = true.
Proof. destruct a; geo2; lia. Qed.
Lemma rest_rest_incl a e u w : u <= w -> sp_incl (set_lo a e w) (set_lo a e u) = true.
Proof. destruct a; geo2; lia. Qed.
Lemma slice_rest_disjoint a e u w : sp_intersect (slice a e u w) (set_lo a e w) = false.
Proof. destruct a; geo2; lia. Qed.
Lemma slice_rest_vol a e u w : svol (slice a e u w) + svol (set_lo a e w) = svol (set_lo a e u).
Proof. destruct a; geo2; ring. Qed.
Lemma rest_hi_vol0 a e : svol (set_lo a e (ax_hi a e)) = 0.
Proof. destruct a; geo2; ring. Qed.

(* cut points of the equal split *)
Lemma q_nonneg len k i : 0 <= len -> 0 < k -> 0 <= i -> 0 <= i * len / k.
Proof. intros. apply Z.div_pos; nia. Qed.
Lemma q_mono len k i : 0 <= len -> 0 < k -> i * len / k <= (i + 1) * len / k.
Proof. intros. apply Z.div_le_mono; nia. Qed.
Lemma q_k len k : 0 < k -> k * len / k = len.
Proof. intros. rewrite Z.mul_comm. apply Z.div_mul. lia. Qed.
Lemma q_le len k i : 0 <= len -> 0 < k -> i <= k -> i * len / k <= len.
Proof. intros. rewrite <- (q_k len k) at 2 by lia. apply Z.div_le_mono; nia. Qed.

(* ---------- the invariants ---------- *)
Definition m_at (ms : list bool) (i : Z) : bool := znth false ms i.
Definition s_at (sps : list space) (i : Z) : space := znth sp0 sps i.

(* exact tiling of c by the masked spaces (empty spaces allowed) *)
Record WT (c : space) (sps : list space) (ms : list bool) : Prop := mkWT {
  wt_len : zlen sps = zlen ms;
  wt_wf : forall i, m_at ms i = true -> sp_wf (s_at sps i);
  wt_in : forall i, m_at ms i = true -> sp_incl (s_at sps i) c = true;
  wt_dis : forall i j, i <> j -> m_at ms i = true -> m_at ms j = true -> sp_intersect (s_at sps i) (s_at sps j) = false;
  wt_vol : masked_vol sps ms = svol c }.

(* partial tiling: the masked spaces tile c minus the region R still to be distributed *)
Record PT (c R : space) (sps : list space) (ms : list bool) : Prop := mkPT {
  pt_len : zlen sps = zlen ms;
  pt_wf : forall i, m_at ms i = true -> sp_wf (s_at sps i);
  pt_in : forall i, m_at ms i = true -> sp_incl (s_at sps i) c = true;
  pt_dis : forall i j, i <> j -> m_at ms i = true -> m_at ms j = true -> sp_intersect (s_at sps i) (s_at sps j) = false;
  pt_R : forall i, m_at ms i = true -> sp_intersect (s_at sps i) R = false;
  pt_Rin : sp_incl R c = true;
  pt_vol : masked_vol sps ms + svol R = svol c }.

Lemma PT_finish c R sps ms : PT c R sps ms -> svol R = 0 -> WT c sps ms.
Proof. intros [A B C D E F G] H. constructor; auto. lia. Qed.

Lemma m_at_jset ms f b i : 0 <= f < zlen ms -> m_at (jset ms f b) i = if i =? f then b else m_at ms i.
Proof. intro H. unfold m_at. apply znth_jset. exact H. Qed.
Lemma s_at_jset sps f e i : 0 <= f < zlen sps -> s_at (jset sps f e) i = if i =? f then e else s_at sps i.
Proof. intro H. unfold s_at. apply znth_jset. exact H. Qed.

Lemma PT_shorten c sps ms a id v :
  WT c sps ms -> m_at ms id = true -> ax_lo a (s_at sps id) <= v <= ax_hi a (s_at sps id) ->
  PT c (set_lo a (s_at sps id) v) (jset sps id (set_hi a (s_at sps id) v)) ms.
Proof.
  intros [HL Hwf Hin Hdis Hvol] Hid Hv. set (E := s_at sps id) in *.
  assert (Hr : 0 <= id < zlen sps) by (rewrite HL; apply mtrue_range; exact Hid).
  assert (HS : forall i, s_at (jset sps id (set_hi a E v)) i = if i =? id then set_hi a E v else s_at sps i)
    by (intro i; apply s_at_jset; exact Hr).
  constructor.
  - rewrite zlen_jset. exact HL.
  - intros i Hi. rewrite HS. destruct (i =? id) eqn:Ei; [|auto]. apply shorten_wf; [apply Hwf; exact Hid|lia].
  - intros i Hi. rewrite HS. destruct (i =? id) eqn:Ei; [|auto].
    eapply incl_trans; [apply shorten_incl; lia|apply Hin; exact Hid].
  - intros i j Hij Hi Hj. rewrite !HS. destruct (i =? id) eqn:Ei, (j =? id) eqn:Ej; try lia.
    + assert (i = id) by lia; subst i. eapply disjoint_mono; [apply shorten_incl; lia|]. apply Hdis; auto.
    + assert (j = id) by lia; subst j. rewrite intersect_sym. eapply disjoint_mono; [apply shorten_incl; lia|]. apply Hdis; auto.
    + apply Hdis; auto.
  - intros i Hi. rewrite HS. destruct (i =? id) eqn:Ei; [apply shorten_rest_disjoint|].
    rewrite intersect_sym. eapply disjoint_mono; [apply rest_incl; lia|]. apply Hdis; auto. lia.
  - eapply incl_trans; [apply rest_incl; lia|apply Hin; exact Hid].
  - rewrite masked_vol_jset1 by lia. unfold contrib. fold (m_at ms id). rewrite Hid. fold (s_at sps id). fold E.
    pose proof (shorten_rest_vol a E v). lia.
Qed.

Lemma PT_add_piece c R R' P sps ms f :
  PT c R sps ms -> 0 <= f < zlen ms -> m_at ms f = false ->
  sp_wf P -> sp_incl P R = true -> sp_incl R' R = true -> sp_intersect P R' = false -> svol P + svol R' = svol R ->
  PT c R' (jset sps f P) (jset ms f true).
Proof.
  intros [HL Hwf Hin Hdis HR HRin Hvol] Hf Hmf HP HPR HR'R HPR' HV.
  assert (HS : forall i, s_at (jset sps f P) i = if i =? f then P else s_at sps i) by (intro i; apply s_at_jset; lia).
  assert (HM : forall i, m_at (jset ms f true) i = if i =? f then true else m_at ms i) by (intro i; apply m_at_jset; lia).
  constructor.
  - rewrite !zlen_jset. exact HL.
  - intros i Hi. rewrite HM in Hi. rewrite HS. destruct (i =? f); auto.
  - intros i Hi. rewrite HM in Hi. rewrite HS. destruct (i =? f); auto. eapply incl_trans; eauto.
  - intros i j Hij Hi Hj. rewrite HM in Hi, Hj. rewrite !HS. destruct (i =? f) eqn:Ei, (j =? f) eqn:Ej; try lia.
    + eapply disjoint_mono; [exact HPR|]. rewrite intersect_sym. apply HR. exact Hj.
    + rewrite intersect_sym. eapply disjoint_mono; [exact HPR|]. rewrite intersect_sym. apply HR. exact Hi.
    + apply Hdis; auto.
  - intros i Hi. rewrite HM in Hi. rewrite HS. destruct (i =? f); [exact HPR'|].
    rewrite intersect_sym. eapply disjoint_mono; [exact HR'R|]. rewrite intersect_sym. apply HR. exact Hi.
  - eapply incl_trans; eauto.
  - rewrite masked_vol_jset2 by lia. unfold contrib. fold (m_at ms f). rewrite Hmf. lia.
Qed.

(* ---------- _split_item_once ---------- *)
Lemma split_once_eq a sps ms id v : zlen sps = zlen ms -> count_true ms < zlen ms -> m_at ms id = true ->
  let f := first_false 0 ms in
  split_once a sps ms id v =
  (jset (jset sps id (set_hi a (s_at sps id) v)) f (set_lo a (s_at sps id) v), jset ms f true).
Proof.
  intros HL Hc Hid f. destruct (first_false0 ms Hc) as [Hf Hmf]. fold f in Hf, Hmf.
  pose proof (mtrue_range ms id Hid) as Hr.
  assert (Hne : f <> id) by (intro; subst id; unfold m_at in Hid; congruence).
  unfold split_once. fold f. f_equal.
  rewrite (jget_znth sp0 sps id) by lia. fold (s_at sps id). set (e := s_at sps id).
  rewrite (jget_jset_other sp0 sps f e id) by lia. fold (s_at sps id). fold e.
  rewrite (jget_jset_other sp0 (jset sps f e) id) by (rewrite ?zlen_jset; lia).
  rewrite znth_jset by lia. rewrite Z.eqb_refl.
  rewrite (jset_comm sps f id) by lia. apply jset_same.
Qed.

Lemma split_once_WT c a sps ms id v :
  WT c sps ms -> count_true ms < zlen ms -> m_at ms id = true ->
  ax_lo a (s_at sps id) <= v <= ax_hi a (s_at sps id) ->
  WT c (fst (split_once a sps ms id v)) (snd (split_once a sps ms id v)) /\
  count_true (snd (split_once a sps ms id v)) = count_true ms + 1 /\
  zlen (fst (split_once a sps ms id v)) = zlen sps.
Proof.
  intros HW Hc Hid Hv. pose proof (wt_len _ _ _ HW) as HL.
  rewrite split_once_eq by assumption. cbn [fst snd].
  destruct (first_false0 ms Hc) as [Hf Hmf]. set (f := first_false 0 ms) in *.
  split; [|split; [apply count_true_jset; assumption|rewrite !zlen_jset; reflexivity]].
  set (E := s_at sps id) in *.
  apply (PT_finish c (set_lo a E (ax_hi a E))); [|apply rest_hi_vol0].
  apply (PT_add_piece c (set_lo a E v)).
  - apply PT_shorten; assumption.
  - exact Hf.
  - exact Hmf.
  - rewrite <- slice_to_hi. apply slice_wf; [apply (wt_wf _ _ _ HW); exact Hid|lia].
  - apply incl_refl.
  - apply rest_rest_incl. lia.
  - rewrite <- (slice_to_hi a E v). apply slice_rest_disjoint.
  - rewrite <- (slice_to_hi a E v) at 1. apply slice_rest_vol.
Qed.

(* ---------- _split_item_multiple_times ---------- *)
Lemma split_multi_loop_PT c a E x k id : forall fuel i sps ms,
  let lo := ax_lo a E in let len := ax_hi a E - lo in
  PT c (set_lo a E (lo + i * len / k)) sps ms ->
  sp_wf E -> 0 <= len -> 0 <= i -> i + Z.of_nat fuel = k ->
  m_at ms id = true -> s_at sps id = set_hi a E x ->
  count_true ms + Z.of_nat fuel <= zlen ms ->
  let st := split_multi_loop a lo len k id i fuel (sps, ms) in
  PT c (set_lo a E (lo + k * len / k)) (fst st) (snd st) /\ count_true (snd st) = count_true ms + Z.of_nat fuel /\
  zlen (fst st) = zlen sps.
Proof.
  induction fuel as [|fuel IH]; intros i sps ms lo len HP HE Hlen Hi Hk Hid Hsid Hc.
  - cbn [split_multi_loop fst snd]. assert (Hki : k = i) by lia. clear Hk. subst k. split; [exact HP|split; [lia|reflexivity]].
  - cbn [split_multi_loop]. cbv zeta.
    pose proof (pt_len _ _ _ _ HP) as HL.
    assert (Hc' : count_true ms < zlen ms) by lia.
    destruct (first_false0 ms Hc') as [Hf Hmf]. set (f := first_false 0 ms) in *.
    pose proof (mtrue_range ms id Hid) as Hr.
    assert (Hne : f <> id) by (intro; subst id; unfold m_at in Hid; congruence).
    rewrite (jget_znth sp0 sps id) by lia. fold (s_at sps id). rewrite Hsid.
    rewrite !jget_jset_same by (rewrite ?zlen_jset; lia). rewrite !jset_same.
    rewrite slice_of_shortened.
    set (u := lo + i * len / k). set (w := lo + (i + 1) * len / k).
    assert (Hk0 : 0 < k) by lia.
    assert (Huw : u <= w) by (unfold u, w; pose proof (q_mono len k i Hlen Hk0); lia).
    assert (Hw : w <= ax_hi a E) by (unfold w; pose proof (q_le len k (i + 1) Hlen Hk0); fold lo; lia).
    assert (HP' : PT c (set_lo a E w) (jset sps f (slice a E u w)) (jset ms f true)).
    { apply (PT_add_piece c (set_lo a E u)); try assumption.
      - apply slice_wf; assumption.
      - apply slice_incl. exact Hw.
      - apply rest_rest_incl. exact Huw.
      - apply slice_rest_disjoint.
      - apply slice_rest_vol. }
    destruct (IH (i + 1) (jset sps f (slice a E u w)) (jset ms f true)) as [A [B C]]; try assumption; try lia.
    + rewrite m_at_jset by lia. destruct (id =? f) eqn:Ef; [reflexivity|exact Hid].
    + rewrite s_at_jset by lia. destruct (id =? f) eqn:Ef; [lia|exact Hsid].
    + rewrite zlen_jset. rewrite count_true_jset by assumption. lia.
    + fold lo in A, B, C. fold len in A, B, C. split; [exact A|]. split; [|rewrite C; apply zlen_jset].
      rewrite B. rewrite count_true_jset by assumption. lia.
Qed.

Lemma split_multi_WT c a sps ms id k :
  WT c sps ms -> m_at ms id = true -> ax_lo a (s_at sps id) <= ax_hi a (s_at sps id) -> 1 <= k ->
  count_true ms + (k - 1) <= zlen ms ->
  WT c (fst (split_multi a sps ms id k)) (snd (split_multi a sps ms id k)) /\
  count_true (snd (split_multi a sps ms id k)) = count_true ms + (k - 1) /\
  zlen (fst (split_multi a sps ms id k)) = zlen sps.
Proof.
  intros HW Hid Hlh Hk Hc. pose proof (wt_len _ _ _ HW) as HL. pose proof (mtrue_range ms id Hid) as Hr.
  unfold split_multi. rewrite (jget_znth sp0 sps id) by lia. fold (s_at sps id). set (E := s_at sps id) in *.
  set (lo := ax_lo a E). set (len := ax_hi a E - lo).
  assert (Hlen : 0 <= len) by (unfold len, lo; lia). assert (Hk0 : 0 < k) by lia.
  destruct (split_multi_loop_PT c a E (lo + len / k) k id (Z.to_nat (k - 1)) 1
              (jset sps id (set_hi a E (lo + len / k))) ms) as [A [B C]].
  - fold lo. fold len. rewrite Z.mul_1_l. apply PT_shorten; [exact HW|exact Hid|]. fold E. fold lo.
    pose proof (q_nonneg len k 1 Hlen Hk0). pose proof (q_le len k 1 Hlen Hk0). rewrite Z.mul_1_l in *. unfold len in *. lia.
  - apply (wt_wf _ _ _ HW). exact Hid.
  - exact Hlen.
  - lia.
  - lia.
  - exact Hid.
  - rewrite s_at_jset by lia. rewrite Z.eqb_refl. reflexivity.
  - lia.
  - fold lo in A, B, C. fold len in A, B, C. split; [|split; [rewrite B; lia|rewrite C; apply zlen_jset]].
    eapply PT_finish; [exact A|]. rewrite q_k by lia. unfold len, lo. replace (ax_lo a E + (ax_hi a E - ax_lo a E)) with (ax_hi a E) by lia.
    apply rest_hi_vol0.
Qed.

(* ---------- one iteration of the while loop ---------- *)
Definition Tiling (c : space) (sps : list space) (ms : list bool) : Prop :=
  WT c sps ms /\ forall i, m_at ms i = true -> sp_empty (s_at sps i) = false.

Lemma WT_mask_nonempty c sps ms : WT c sps ms -> Tiling c sps (mask_nonempty sps ms).
Proof.
  intros [HL Hwf Hin Hdis Hvol].
  assert (HM : forall i, m_at (mask_nonempty sps ms) i = m_at ms i && negb (sp_empty (s_at sps i)))
    by (intro i; apply mask_nonempty_znth; exact HL).
  split; [constructor|].
  - unfold zlen in *. rewrite mask_nonempty_length; lia.
  - intros i Hi. rewrite HM in Hi. apply andb_true_iff in Hi as [Hi _]. auto.
  - intros i Hi. rewrite HM in Hi. apply andb_true_iff in Hi as [Hi _]. auto.
  - intros i j Hij Hi Hj. rewrite HM in Hi, Hj. apply andb_true_iff in Hi as [Hi _]. apply andb_true_iff in Hj as [Hj _]. auto.
  - rewrite masked_vol_nonempty; [exact Hvol|]. intros k Hk He. apply empty_vol0; [|exact He].
    rewrite <- (znth_nat sp0). apply Hwf. unfold m_at. rewrite znth_nat. exact Hk.
  - intros i Hi. rewrite HM in Hi. apply andb_true_iff in Hi as [_ Hi]. apply negb_true_iff in Hi. exact Hi.
Qed.

Lemma split_step_Tiling c same sps ms d :
  WT c sps ms -> 1 <= same -> count_true ms + same <= zlen ms -> valid_draw same (sps, ms) d = true ->
  Tiling c (fst (split_step (sps, ms) d)) (snd (split_step (sps, ms) d)) /\
  zlen (fst (split_step (sps, ms) d)) = zlen sps.
Proof.
  intros HW Hs Hc Hv. unfold valid_draw in Hv. rewrite !andb_true_iff in Hv.
  destruct Hv as [[[[H1 H2] H3] H4] H5]. fold (m_at ms (d_item d)) in H3. fold (s_at sps (d_item d)) in H4, H5.
  unfold split_step. destruct (d_once d).
  - apply andb_true_iff in H5 as [H5 H6].
    destruct (split_once_WT c (d_axis d) sps ms (d_item d) (d_val d)) as [A [B C]]; try assumption; try lia.
    destruct (split_once (d_axis d) sps ms (d_item d) (d_val d)) as [sps' ms']. cbn [fst snd] in *.
    split; [apply WT_mask_nonempty; exact A|exact C].
  - apply andb_true_iff in H5 as [H5 H6].
    destruct (split_multi_WT c (d_axis d) sps ms (d_item d) (d_val d)) as [A [B C]]; try assumption; try lia.
    destruct (split_multi (d_axis d) sps ms (d_item d) (d_val d)) as [sps' ms']. cbn [fst snd] in *.
    split; [apply WT_mask_nonempty; exact A|exact C].
Qed.

(* ---------- the while loop: any number of splits, all valid draws ---------- *)
Theorem split_loop_Tiling c n same : 1 <= same -> forall ds st,
  Tiling c (fst st) (snd st) -> zlen (fst st) = n -> fst (draws_valid n same ds st) = true ->
  Tiling c (fst (split_loop n same ds st)) (snd (split_loop n same ds st)) /\ zlen (fst (split_loop n same ds st)) = n.
Proof.
  intros Hs. induction ds as [|d ds IH]; intros [sps ms] HT Hn Hv; cbn [split_loop draws_valid fst snd] in *; [auto|].
  destruct (count_true ms <? n - same + 1) eqn:Ec; [|auto].
  destruct (draws_valid n same ds (split_step (sps, ms) d)) as [b k] eqn:Ed. cbn [fst] in Hv.
  apply andb_true_iff in Hv as [Hv Hb]. subst b.
  pose proof (wt_len _ _ _ (proj1 HT)) as HL.
  destruct (split_step_Tiling c same sps ms d) as [A B]; try assumption; [exact (proj1 HT)|lia|].
  apply IH; [exact A|lia|rewrite Ed; reflexivity].
Qed.

Lemma masked_vol_repeat_false e : forall m, masked_vol (repeat e m) (repeat false m) = 0.
Proof. induction m as [|m IH]; cbn [repeat masked_vol]; [reflexivity|]. rewrite IH. reflexivity. Qed.

Lemma init_Tiling c n : 1 <= n -> sp_empty c = false ->
  Tiling c (repeat c (Z.to_nat n)) (true :: repeat false (Z.to_nat n - 1)).
Proof.
  intros Hn Hc. replace (Z.to_nat n) with (S (Z.to_nat n - 1)) at 1 by lia. cbn [repeat].
  set (m := (Z.to_nat n - 1)%nat).
  assert (HM : forall i, m_at (true :: repeat false m) i = true -> i = 0).
  { intros i Hi. unfold m_at in Hi. rewrite znth_cons_repeat in Hi. destruct (i =? 0) eqn:E; [lia|].
    destruct ((0 <? i) && (i <=? Z.of_nat m)); discriminate. }
  assert (HS : s_at (c :: repeat c m) 0 = c) by reflexivity.
  split; [constructor|].
  - unfold zlen. cbn [length]. rewrite !repeat_length. reflexivity.
  - intros i Hi. rewrite (HM i Hi), HS. apply wf_of_nonempty. exact Hc.
  - intros i Hi. rewrite (HM i Hi), HS. apply incl_refl.
  - intros i j Hij Hi Hj. rewrite (HM i Hi), (HM j Hj) in Hij. lia.
  - cbn [masked_vol]. rewrite masked_vol_repeat_false. lia.
  - intros i Hi. rewrite (HM i Hi), HS. exact Hc.
Qed.

(* RandomGenerator: for ALL valid draws and any number of splits the items are an exact tiling of the container *)
Theorem gen_spaces_Tiling n same c ds :
  1 <= n -> 1 <= same -> sp_empty c = false ->
  fst (draws_valid n same ds (repeat c (Z.to_nat n), true :: repeat false (Z.to_nat n - 1))) = true ->
  Tiling c (fst (gen_spaces n same c ds)) (snd (gen_spaces n same c ds)) /\ zlen (fst (gen_spaces n same c ds)) = n.
Proof.
  intros Hn Hs Hc Hv. unfold gen_spaces. apply split_loop_Tiling; [exact Hs| |cbn [fst]; unfold zlen; rewrite repeat_length; lia|exact Hv].
  cbn [fst snd]. apply init_Tiling; assumption.
Qed.

(* ---------- generate_solution: every item at its generated position ---------- *)
Lemma placed_vol_items : forall sps ms, placed_vol (map item_of sps) ms = masked_vol sps ms.
Proof. induction sps as [|e sps IH]; intros [|m ms]; cbn [map placed_vol masked_vol]; try reflexivity. rewrite IH. reflexivity. Qed.

Theorem solution_complete c sps ms : Tiling c sps ms ->
  Packing (solution_state c sps ms) /\
  items_placed (solution_state c sps ms) = items_mask (solution_state c sps ms) /\
  pvol (solution_state c sps ms) = svol (container (solution_state c sps ms)).
Proof.
  intros [[HL Hwf Hin Hdis Hvol] Hne].
  assert (HP : forall i, placed_at (solution_state c sps ms) i = m_at ms i) by reflexivity.
  assert (HS : forall i, m_at ms i = true -> ispace (solution_state c sps ms) i = s_at sps i).
  { intros i Hi. apply solution_spaces. rewrite HL. apply mtrue_range. exact Hi. }
  split; [split; [|split]|split].
  - intros i Hi. rewrite HP in Hi. rewrite (HS i Hi). apply Hin. exact Hi.
  - intros i j Hij Hi Hj. rewrite HP in Hi, Hj. rewrite (HS i Hi), (HS j Hj). apply Hdis; assumption.
  - intros k Hk. unfold emask_at, solution_state in Hk. cbn [ems_mask] in Hk.
    destruct (Z_lt_dec k 0); [rewrite znth_neg in Hk by lia|rewrite znth_oob in Hk by (unfold zlen; cbn; lia)]; discriminate.
  - reflexivity.
  - unfold pvol, solution_state. cbn [items items_placed container]. rewrite placed_vol_items. exact Hvol.
Qed.

(* ---------- the boolean checker tiling_b decides Tiling ---------- *)
Lemma In_index_from {A} (d : A) : forall (l : list A) s i x, In (i, x) (index_from s l) <-> s <= i < s + zlen l /\ x = znth d l (i - s).
Proof.
  induction l as [|y l IH]; intros s i x; cbn [index_from In].
  - unfold zlen; cbn [length]. split; [tauto|lia].
  - rewrite IH. rewrite zlen_cons. pose proof (zlen_nonneg l). split.
    + intros [H0|[H1 H2]].
      * inversion H0; subst. split; [lia|]. rewrite Z.sub_diag. reflexivity.
      * split; [lia|]. subst x. rewrite !znth_nonneg by lia. replace (Z.to_nat (i - s)) with (S (Z.to_nat (i - (s + 1)))) by lia. reflexivity.
    + intros [H1 H2]. destruct (Z.eq_dec i s) as [->|Hne].
      * left. subst x. rewrite Z.sub_diag. reflexivity.
      * right. split; [lia|]. subst x. rewrite !znth_nonneg by lia. replace (Z.to_nat (i - s)) with (S (Z.to_nat (i - (s + 1)))) by lia. reflexivity.
Qed.

Lemma zip_length {A B} : forall (a : list A) (b : list B), length a = length b -> length (zip a b) = length a.
Proof. induction a as [|x a IH]; intros [|y b] H; cbn [zip length] in *; try lia. rewrite IH; lia. Qed.

Lemma zip_nth {A B} (da : A) (db : B) : forall (a : list A) (b : list B) k, length a = length b ->
  nth k (zip a b) (da, db) = (nth k a da, nth k b db).
Proof. induction a as [|x a IH]; intros [|y b] [|k] H; cbn [zip nth length] in *; try lia; try reflexivity. apply IH. lia. Qed.

Lemma In_idx sps ms i e m : zlen sps = zlen ms ->
  (In (i, (e, m)) (index_from 0 (zip sps ms)) <-> 0 <= i < zlen sps /\ e = s_at sps i /\ m = m_at ms i).
Proof.
  intro HL. rewrite (In_index_from (sp0, false)). rewrite Z.sub_0_r.
  assert (HZ : zlen (zip sps ms) = zlen sps) by (unfold zlen in *; rewrite zip_length; lia). rewrite HZ.
  split; intros [H1 H2]; (split; [lia|]).
  - rewrite znth_nonneg in H2 by lia. rewrite zip_nth in H2 by (unfold zlen in *; lia). inversion H2.
    unfold s_at, m_at. rewrite !znth_nonneg by lia. auto.
  - destruct H2 as [-> ->]. rewrite znth_nonneg by lia. rewrite zip_nth by (unfold zlen in *; lia).
    unfold s_at, m_at. rewrite !znth_nonneg by lia. reflexivity.
Qed.

Theorem tiling_b_complete c sps ms : Tiling c sps ms -> tiling_b c sps ms = true.
Proof.
  intros [[HL Hwf Hin Hdis Hvol] Hne]. unfold tiling_b. apply andb_true_iff. split; [|lia].
  apply forallb_forall. intros [i [e m]] Hi. apply (In_idx sps ms i e m HL) in Hi as [Hi [-> ->]].
  destruct (m_at ms i) eqn:Em; [|reflexivity]. cbn [negb orb]. rewrite (Hin i Em), (Hne i Em). cbn [negb andb].
  apply forallb_forall. intros [j [f mf]] Hj. apply (In_idx sps ms j f mf HL) in Hj as [Hj [-> ->]].
  destruct (i =? j) eqn:Eij; [reflexivity|]. destruct (m_at ms j) eqn:Emj; [|reflexivity]. cbn [negb orb].
  rewrite Hdis by (try assumption; lia). reflexivity.
Qed.

Theorem tiling_b_sound c sps ms : zlen sps = zlen ms -> tiling_b c sps ms = true -> Tiling c sps ms.
Proof.
  intros HL H. unfold tiling_b in H. apply andb_true_iff in H as [H Hvol]. rewrite forallb_forall in H.
  assert (HA : forall i, m_at ms i = true ->
     sp_incl (s_at sps i) c = true /\ sp_empty (s_at sps i) = false /\
     forall j, i <> j -> m_at ms j = true -> sp_intersect (s_at sps i) (s_at sps j) = false).
  { intros i Hi. pose proof (mtrue_range ms i Hi) as Hr.
    specialize (H (i, (s_at sps i, m_at ms i))). cbv beta iota in H. rewrite Hi in H. cbn [negb orb] in H.
    assert (HI : In (i, (s_at sps i, true)) (index_from 0 (zip sps ms))) by (apply In_idx; [exact HL|]; split; [lia|split; [reflexivity|symmetry; exact Hi]]).
    specialize (H HI). rewrite !andb_true_iff in H. destruct H as [[H1 H2] H3]. apply negb_true_iff in H2.
    split; [exact H1|split; [exact H2|]]. intros j Hij Hj. pose proof (mtrue_range ms j Hj) as Hrj.
    rewrite forallb_forall in H3. specialize (H3 (j, (s_at sps j, m_at ms j))). cbv beta iota in H3.
    rewrite Hj in H3. cbn [negb orb] in H3. destruct (i =? j) eqn:E; [lia|]. cbn [orb] in H3.
    apply negb_true_iff. apply H3. apply In_idx; [exact HL|]. split; [lia|split; [reflexivity|symmetry; exact Hj]]. }
  split; [constructor|].
  - exact HL.
  - intros i Hi. apply wf_of_nonempty. apply (HA i Hi).
  - intros i Hi. apply (HA i Hi).
  - intros i j Hij Hi Hj. apply (HA i Hi); assumption.
  - lia.
  - intros i Hi. apply (HA i Hi).
Qed.

(* what the harness evaluates on every generated instance is TRUE for all valid draws *)
Corollary gen_spaces_checkers n same c ds :
  1 <= n -> 1 <= same -> sp_empty c = false ->
  fst (draws_valid n same ds (repeat c (Z.to_nat n), true :: repeat false (Z.to_nat n - 1))) = true ->
  let sps := fst (gen_spaces n same c ds) in let ms := snd (gen_spaces n same c ds) in
  tiling_b c sps ms = true /\ Packing (solution_state c sps ms) /\ pvol (solution_state c sps ms) = svol c /\
  zlen sps = n /\ zlen ms = n.
Proof.
  intros Hn Hs Hc Hv sps ms. destruct (gen_spaces_Tiling n same c ds Hn Hs Hc Hv) as [HT HZ]. fold sps in HT, HZ. fold ms in HT.
  destruct (solution_complete c sps ms HT) as [A [_ B]].
  split; [apply tiling_b_complete; exact HT|]. split; [exact A|]. split; [exact B|]. split; [exact HZ|].
  rewrite <- (wt_len _ _ _ (proj1 HT)). exact HZ.
Qed.

(* ToyGenerator: the literal instance *)
Theorem toy_Tiling : Tiling toy_container toy_spaces toy_mask.
Proof. apply tiling_b_sound; vm_compute; reflexivity. Qed.

(* ---------- statements in the vocabulary of Model/BinPack.v only (used by Props/C10_BinPack.v) ---------- *)
Definition exact_tiling (c : space) (sps : list space) (ms : list bool) : Prop :=
  zlen sps = zlen ms /\
  (forall i, znth false ms i = true -> sp_incl (znth sp0 sps i) c = true /\ sp_empty (znth sp0 sps i) = false) /\
  (forall i j, i <> j -> znth false ms i = true -> znth false ms j = true ->
               sp_intersect (znth sp0 sps i) (znth sp0 sps j) = false) /\
  masked_vol sps ms = svol c.

Lemma Tiling_exact c sps ms : Tiling c sps ms <-> exact_tiling c sps ms.
Proof.
  split.
  - intros [[HL Hwf Hin Hdis Hvol] Hne]. repeat split; auto.
  - intros [HL [H1 [H2 H3]]]. split; [constructor|]; auto.
    + intros i Hi. apply wf_of_nonempty. apply (H1 i Hi).
    + intros i Hi. apply (H1 i Hi).
    + intros i Hi. apply (H1 i Hi).
Qed.

Definition gen_st0 (n : Z) (c : space) : list space * list bool := (repeat c (Z.to_nat n), true :: repeat false (Z.to_nat n - 1)).

Theorem random_generator_exact_tiling n same c ds :
  1 <= n -> 1 <= same -> sp_empty c = false -> fst (draws_valid n same ds (gen_st0 n c)) = true ->
  let sps := fst (gen_spaces n same c ds) in let ms := snd (gen_spaces n same c ds) in
  zlen sps = n /\ exact_tiling c sps ms.
Proof.
  intros Hn Hs Hc Hv sps ms. destruct (gen_spaces_Tiling n same c ds Hn Hs Hc Hv) as [HT HZ].
  split; [exact HZ|]. apply Tiling_exact. exact HT.
Qed.

Theorem exact_tiling_solution c sps ms : exact_tiling c sps ms ->
  Packing (solution_state c sps ms) /\
  items_placed (solution_state c sps ms) = items_mask (solution_state c sps ms) /\
  pvol (solution_state c sps ms) = svol (container (solution_state c sps ms)).
Proof. intro H. apply solution_complete. apply Tiling_exact. exact H. Qed.

Theorem random_generator_solution n same c ds :
  1 <= n -> 1 <= same -> sp_empty c = false -> fst (draws_valid n same ds (gen_st0 n c)) = true ->
  let s := solution_state c (fst (gen_spaces n same c ds)) (snd (gen_spaces n same c ds)) in
  Packing s /\ items_placed s = items_mask s /\ pvol s = svol (container s).
Proof.
  intros Hn Hs Hc Hv. apply exact_tiling_solution. apply (random_generator_exact_tiling n same c ds Hn Hs Hc Hv).
Qed.

Theorem tiling_b_iff c sps ms : zlen sps = zlen ms -> (tiling_b c sps ms = true <-> exact_tiling c sps ms).
Proof.
  intro HL. rewrite <- Tiling_exact. split; [apply tiling_b_sound; exact HL|apply tiling_b_complete].
Qed.

Theorem random_generator_tiling_b n same c ds :
  1 <= n -> 1 <= same -> sp_empty c = false -> fst (draws_valid n same ds (gen_st0 n c)) = true ->
  tiling_b c (fst (gen_spaces n same c ds)) (snd (gen_spaces n same c ds)) = true.
Proof.
  intros Hn Hs Hc Hv. apply tiling_b_complete. apply (gen_spaces_Tiling n same c ds Hn Hs Hc Hv).
Qed.

Theorem toy_exact_tiling : exact_tiling toy_container toy_spaces toy_mask.
Proof. apply Tiling_exact. exact toy_Tiling. Qed.

(* the reset instance of a generator that hands out the items of a tiling: every item fits in the container on its own *)
Lemma exact_tiling_items_fit c sps ms i : exact_tiling c sps ms -> znth false ms i = true ->
  fits (item_of (znth sp0 sps i)) (item_of c) = true.
Proof.
  intros [_ [H _]] Hi. destruct (H i Hi) as [A B]. clear H. revert A B.
  generalize (znth sp0 sps i) as e. intros e. geo. lia.
Qed.

(* ---------- CSVGenerator: rows with quantities ---------- *)
Lemma csv_items_length : forall rows, zlen (csv_items rows) = zsum (map (fun r : item * Z => Z.max 0 (snd r)) rows).
Proof.
  induction rows as [|r rows IH]; [reflexivity|]. unfold csv_items in *. cbn [flat_map map zsum].
  rewrite zlen_app, IH. unfold zlen at 1. rewrite repeat_length. lia.
Qed.

Lemma csv_items_In i rows : In i (csv_items rows) <-> exists q, In (i, q) rows /\ 0 < q.
Proof.
  unfold csv_items. rewrite in_flat_map. split.
  - intros [[j q] [H1 H2]]. cbn [fst snd] in H2. pose proof (repeat_spec _ _ _ H2). subst j.
    exists q. split; [exact H1|]. destruct (Z.to_nat q) eqn:E; [destruct H2|lia].
  - intros [q [H1 H2]]. exists (i, q). split; [exact H1|]. cbn [fst snd].
    replace (Z.to_nat q) with (S (Z.to_nat q - 1)) by lia. left. reflexivity.
Qed.

(* the reset state of any CSV instance is a feasible empty packing whose mask says exactly which items fit the container *)
Theorem csv_reset_Packing obs c max_ems rows : 0 < max_ems ->
  Packing (fst (init obs c max_ems (csv_items rows) (repeat true (length (csv_items rows))))).
Proof. intro H. apply init_Packing. exact H. Qed.
