(* BinPack: list / index lemmas, box geometry, and the invariant-preservation theorem of _update_ems. *)
Require Import JV.Base.Prelude JV.Base.JaxIndex JV.Base.Codec JV.Base.TimeStep JV.Model.BinPack.

(* ---------- znth / jget / jset ---------- *)
Lemma znth_nat {A} (d : A) l (k : nat) : znth d l (Z.of_nat k) = nth k l d.
Proof. unfold znth. destruct (Z.of_nat k <? 0) eqn:E; [lia|]. rewrite Nat2Z.id. reflexivity. Qed.

Lemma znth_nonneg {A} (d : A) l i : 0 <= i -> znth d l i = nth (Z.to_nat i) l d.
Proof. intro H. unfold znth. destruct (i <? 0) eqn:E; [lia|reflexivity]. Qed.

Lemma znth_neg {A} (d : A) l i : i < 0 -> znth d l i = d.
Proof. intro H. unfold znth. destruct (i <? 0) eqn:E; [reflexivity|lia]. Qed.

Lemma jget_znth {A} (d : A) l i : 0 <= i < zlen l -> jget d l i = znth d l i.
Proof. intro H. rewrite jget_in_range by lia. rewrite znth_nonneg by lia. reflexivity. Qed.

Lemma znth_jset {A} (d : A) l a v i :
  0 <= a < zlen l -> znth d (jset l a v) i = if i =? a then v else znth d l i.
Proof.
  intro H. rewrite jset_in_range by lia.
  destruct (i =? a) eqn:E.
  - assert (i = a) by lia. subst. rewrite znth_nonneg by lia. apply nth_upd_same. unfold zlen in H. lia.
  - destruct (Z_lt_dec i 0) as [Hn|Hn].
    + rewrite !znth_neg by lia. reflexivity.
    + rewrite !znth_nonneg by lia. apply nth_upd_other. lia.
Qed.

Lemma zlen_jset {A} (l : list A) i v : zlen (jset l i v) = zlen l.
Proof. unfold zlen. rewrite jset_length. reflexivity. Qed.

(* ---------- geometry ---------- *)
Ltac geo := repeat match goal with x : space |- _ => destruct x end;
            repeat match goal with x : item |- _ => destruct x end;
            repeat match goal with x : loc |- _ => destruct x end;
            unfold sp_intersect, sp_empty, sp_inter, sp_incl, item_space, item_of, fits, hyper, in_box, item_in in *;
            cbn [x1 x2 y1 y2 z1 z2 xl yl zl lx ly lz] in *.

Lemma incl_refl a : sp_incl a a = true.
Proof. geo. lia. Qed.

Lemma incl_trans a b c : sp_incl a b = true -> sp_incl b c = true -> sp_incl a c = true.
Proof. geo. lia. Qed.

Lemma intersect_sym a b : sp_intersect a b = sp_intersect b a.
Proof. geo. lia. Qed.

Lemma disjoint_mono a b c : sp_incl a b = true -> sp_intersect b c = false -> sp_intersect a c = false.
Proof. geo. lia. Qed.

Lemma hyper_incl d it e : sp_incl (hyper d it e) e = true.
Proof. destruct d; geo; lia. Qed.

Lemma hyper_disjoint d it e : sp_intersect (hyper d it e) it = false.
Proof. destruct d; geo; lia. Qed.

(* an item that fits in an EMS, put at its min corner, lies inside the EMS *)
Lemma corner_incl i e :
  fits i (item_of e) = true -> sp_incl (item_space i (mkLoc (x1 e) (y1 e) (z1 e))) e = true.
Proof. geo. lia. Qed.

Lemma hyper_in_box c it e d : in_box c it = true -> in_box c e = true -> in_box c (hyper d it e) = true.
Proof. destruct d; geo; lia. Qed.

Lemma corner_in_box c i e :
  item_in c i = true -> in_box c e = true -> fits i (item_of e) = true ->
  in_box c (item_space i (mkLoc (x1 e) (y1 e) (z1 e))) = true.
Proof. geo. lia. Qed.

(* ---------- the EMS buffer invariant: equal lengths, every ACTIVE slot satisfies Q ---------- *)
Definition EInv (Q : space -> Prop) (es : list space) (ms : list bool) : Prop :=
  length es = length ms /\ forall k, nth k ms false = true -> Q (nth k es sp0).

Lemma EInv_jset Q es ms i c : EInv Q es ms -> Q c -> EInv Q (jset es i c) (jset ms i true).
Proof.
  intros [HL HQ] Hc. split.
  - rewrite !jset_length. exact HL.
  - intros k Hk. unfold jset in *. assert (HZ : zlen es = zlen ms) by (unfold zlen; lia). rewrite HZ in *.
    destruct ((0 <=? jnorm (zlen ms) i) && (jnorm (zlen ms) i <? zlen ms)) eqn:E; [|auto].
    unfold zupd in *. destruct (jnorm (zlen ms) i <? 0) eqn:E2; [lia|].
    destruct (Nat.eq_dec (Z.to_nat (jnorm (zlen ms) i)) k) as [Heq|Hne].
    + rewrite <- Heq. rewrite nth_upd_same; [exact Hc|]. unfold zlen in *. lia.
    + rewrite nth_upd_other by exact Hne. rewrite nth_upd_other in Hk by exact Hne. auto.
Qed.

Lemma add_one_EInv Q st c : EInv Q (fst st) (snd st) -> (snd c = true -> Q (fst c)) ->
  EInv Q (fst (add_one st c)) (snd (add_one st c)).
Proof.
  destruct st as [es ms], c as [ce cm]. cbn [fst snd add_one]. intros H Hc.
  destruct (cm && _) eqn:E; cbn [fst snd]; [|exact H].
  apply EInv_jset; [exact H|]. apply Hc. destruct cm; [reflexivity|discriminate].
Qed.

Lemma add_ems_EInv Q cands : forall st, EInv Q (fst st) (snd st) ->
  Forall (fun c : space * bool => snd c = true -> Q (fst c)) cands ->
  EInv Q (fst (add_ems cands st)) (snd (add_ems cands st)).
Proof.
  unfold add_ems. induction cands as [|c r IH]; intros st H F; cbn [fold_left]; [exact H|].
  inversion F; subst. apply IH; [apply add_one_EInv; assumption|assumption].
Qed.

Lemma add_one_length st c : length (fst (add_one st c)) = length (fst st) /\ length (snd (add_one st c)) = length (snd st).
Proof.
  destruct st as [es ms], c as [ce cm]. cbn [fst snd add_one].
  destruct (cm && _); cbn [fst snd]; rewrite ?jset_length; auto.
Qed.

Lemma add_ems_length cands : forall st,
  length (fst (add_ems cands st)) = length (fst st) /\ length (snd (add_ems cands st)) = length (snd st).
Proof.
  unfold add_ems. induction cands as [|c r IH]; intro st; cbn [fold_left]; [auto|].
  destruct (IH (add_one st c)) as [A B]. destruct (add_one_length st c) as [C D]. split; congruence.
Qed.

(* all slots (active or stale) *)
Lemma Forall_jset {A} (P : A -> Prop) l i v : Forall P l -> P v -> Forall P (jset l i v).
Proof.
  intros F Hv. unfold jset. destruct (_ && _); [|exact F]. unfold zupd. destruct (_ <? 0); [exact F|].
  generalize (Z.to_nat (jnorm (zlen l) i)) as n. induction F as [|x l Hx F IH]; intros [|n]; cbn [upd]; auto.
Qed.

Lemma add_ems_Forall (P : space -> Prop) cands : forall st, Forall P (fst st) ->
  Forall (fun c : space * bool => P (fst c)) cands -> Forall P (fst (add_ems cands st)).
Proof.
  unfold add_ems. induction cands as [|c r IH]; intros st H F; cbn [fold_left]; [exact H|].
  inversion F; subst. apply IH; [|assumption].
  destruct st as [es ms], c as [ce cm]. cbn [fst snd add_one] in *.
  destruct (cm && _); cbn [fst]; [apply Forall_jset; assumption|assumption].
Qed.

(* ---------- the masks ---------- *)
Lemma after_mask_spec isp : forall es ms k, nth k (after_mask isp es ms) false = true ->
  nth k ms false = true /\ sp_intersect isp (nth k es sp0) = false.
Proof.
  induction es as [|e es IH]; intros [|m ms] [|k] H; cbn [after_mask nth] in *; try discriminate.
  - destruct (sp_intersect isp e), m; cbn in H; try discriminate; auto.
  - apply IH. exact H.
Qed.

Lemma after_mask_length isp : forall es ms, length es = length ms -> length (after_mask isp es ms) = length es.
Proof. induction es as [|e es IH]; intros [|m ms] H; cbn in *; try lia. rewrite IH; lia. Qed.

Lemma cand_mask_spec d isp : forall es ms af k, nth k (cand_mask d isp es ms af) false = true ->
  nth k ms false = true /\ (k < length es)%nat.
Proof.
  induction es as [|e es IH]; intros [|m ms] [|a af] [|k] H; cbn [cand_mask nth length] in *; try discriminate.
  - destruct m; cbn in H; try discriminate. split; [reflexivity|lia].
  - destruct (IH _ _ _ H). split; [assumption|lia].
Qed.

Definition le_mask (m' m : list bool) : Prop := forall i, nth i m' false = true -> nth i m false = true.
Definition le_masks (ms' ms : list (list bool)) : Prop := forall d, le_mask (nth d ms' []) (nth d ms []).

Lemma and_not_le : forall m r, le_mask (and_not m r) m.
Proof.
  induction m as [|a m IH]; intros [|b r] [|i] H; cbn [and_not nth] in *; try discriminate.
  - destruct a; [reflexivity|discriminate].
  - apply (IH r i H).
Qed.

Lemma nth_nil_false i : nth i (@nil bool) false = false.
Proof. destruct i; reflexivity. Qed.

Lemma upd_le_masks d m' ms : le_mask m' (nth d ms []) -> le_masks (upd d m' ms) ms.
Proof.
  intros H d' i Hi. destruct (Nat.eq_dec d d') as [<-|Hne].
  - destruct (Nat.lt_ge_cases d (length ms)) as [Hl|Hl].
    + rewrite nth_upd_same in Hi by exact Hl. apply H. exact Hi.
    + rewrite (nth_overflow (upd d m' ms) []) in Hi by (rewrite upd_length; exact Hl). rewrite nth_nil_false in Hi. discriminate.
  - rewrite nth_upd_other in Hi by exact Hne. exact Hi.
Qed.

Lemma le_masks_trans a b c : le_masks a b -> le_masks b c -> le_masks a c.
Proof. intros H1 H2 d i Hi. apply H2, H1, Hi. Qed.

Lemma le_masks_refl a : le_masks a a.
Proof. intros d i Hi. exact Hi. Qed.

Lemma fold_le_masks {B} (f : list (list bool) -> B -> list (list bool)) :
  (forall ms b, le_masks (f ms b) ms) -> forall l ms, le_masks (fold_left f l ms) ms.
Proof.
  intros Hf. induction l as [|b l IH]; intro ms; cbn [fold_left]; [apply le_masks_refl|].
  eapply le_masks_trans; [apply IH|apply Hf].
Qed.

Lemma filter_all_le E ms : le_masks (filter_all E ms) ms.
Proof.
  unfold filter_all. apply fold_le_masks. intros ms0 d. unfold filter_dir.
  apply fold_le_masks. intros ms1 a. apply upd_le_masks. apply and_not_le.
Qed.

Lemma nth_m0 (f : dir -> list bool) d : nth (dir_idx d) (map f all_dirs) [] = f d.
Proof. destruct d; reflexivity. Qed.

Lemma zip_Forall (P : space -> Prop) : forall (E : list space) (M : list bool),
  (forall i, nth i M false = true -> (i < length E)%nat -> P (nth i E sp0)) ->
  Forall (fun c : space * bool => snd c = true -> P (fst c)) (zip E M).
Proof.
  induction E as [|e E IH]; intros [|m M] H; cbn [zip]; try constructor.
  - cbn [fst snd]. intro Hm. subst. apply (H 0%nat); cbn; [reflexivity|lia].
  - apply IH. intros i Hi Hl. apply (H (S i)); cbn; [exact Hi|lia].
Qed.

Lemma zip_Forall_all (P : space -> Prop) : forall (E : list space) (M : list bool),
  Forall P E -> Forall (fun c : space * bool => P (fst c)) (zip E M).
Proof.
  induction E as [|e E IH]; intros [|m M] H; cbn [zip]; try constructor; inversion H; subst; auto.
Qed.

Lemma nth_map_in {A B} (f : A -> B) l i da db : (i < length l)%nat -> nth i (map f l) db = f (nth i l da).
Proof. intro H. rewrite (nth_indep _ db (f da)) by (rewrite map_length; exact H). apply map_nth. Qed.

(* ---------- _update_ems preserves the invariant ---------- *)
Theorem update_ems_EInv (Qold Qnew : space -> Prop) es ms isp :
  EInv Qold es ms ->
  (forall e, Qold e -> sp_intersect isp e = false -> Qnew e) ->
  (forall e d, Qold e -> Qnew (hyper d isp e)) ->
  EInv Qnew (fst (update_ems es ms isp)) (snd (update_ems es ms isp)).
Proof.
  intros [HL HQ] Hkeep Hnew. unfold update_ems.
  set (af := after_mask isp es ms).
  set (E := fun d => map (hyper d isp) es).
  set (m0 := map (fun d => cand_mask d isp es ms af) all_dirs).
  set (mf := filter_all E m0).
  assert (H0 : EInv Qnew (fst (es, af)) (snd (es, af))).
  { cbn [fst snd]. split.
    - unfold af. rewrite after_mask_length; auto.
    - intros k Hk. destruct (after_mask_spec _ _ _ _ Hk) as [A B]. apply Hkeep; auto. }
  assert (HC : forall d, Forall (fun c : space * bool => snd c = true -> Qnew (fst c)) (zip (E d) (nth (dir_idx d) mf []))).
  { intro d. apply zip_Forall. intros i Hi Hl.
    pose proof (filter_all_le E m0 (dir_idx d) i Hi) as H1. unfold m0 in H1. rewrite nth_m0 in H1.
    destruct (cand_mask_spec _ _ _ _ _ _ H1) as [A B].
    unfold E. rewrite (nth_map_in _ _ _ sp0) by exact B. apply Hnew. apply HQ. exact A. }
  generalize dependent (es, af). generalize all_dirs as ds.
  induction ds as [|d ds IH]; intros st Hst; cbn [fold_left]; [exact Hst|].
  apply IH. apply add_ems_EInv; [exact Hst|apply HC].
Qed.

Lemma fold_add_length (cs : dir -> list (space * bool)) : forall ds st,
  length (fst (fold_left (fun st d => add_ems (cs d) st) ds st)) = length (fst st) /\
  length (snd (fold_left (fun st d => add_ems (cs d) st) ds st)) = length (snd st).
Proof.
  induction ds as [|d ds IH]; intro st; cbn [fold_left]; [auto|].
  destruct (IH (add_ems (cs d) st)) as [A B]. destruct (add_ems_length (cs d) st) as [C D]. split; congruence.
Qed.

Theorem update_ems_length es ms isp : length es = length ms ->
  length (fst (update_ems es ms isp)) = length es /\ length (snd (update_ems es ms isp)) = length es.
Proof.
  intro HL. unfold update_ems.
  match goal with |- context [fold_left ?f all_dirs ?st] =>
    destruct (fold_add_length (fun d => zip (map (hyper d isp) es) (nth (dir_idx d) (filter_all (fun d0 => map (hyper d0 isp) es)
             (map (fun d0 => cand_mask d0 isp es ms (after_mask isp es ms)) all_dirs)) [])) all_dirs st) as [A B] end.
  cbn [fst snd] in A, B. split; [exact A|]. rewrite B. apply after_mask_length. exact HL.
Qed.

(* every slot (active or stale) keeps a property that the half-space cuts preserve *)
Theorem update_ems_Forall (P : space -> Prop) es ms isp :
  Forall P es -> (forall e d, P e -> P (hyper d isp e)) -> Forall P (fst (update_ems es ms isp)).
Proof.
  intros F Hh. unfold update_ems.
  set (af := after_mask isp es ms).
  set (mf := filter_all _ _).
  assert (H0 : Forall P (fst (es, af))) by exact F.
  generalize dependent (es, af). generalize all_dirs as ds.
  induction ds as [|d ds IH]; intros st Hst; cbn [fold_left]; [exact Hst|].
  apply IH. apply add_ems_Forall; [exact Hst|]. apply zip_Forall_all.
  clear - F Hh. induction F; cbn [map]; constructor; auto.
Qed.
