(* BinPack: the observed order of the EMSs (C12) and the declared value ranges (C01). *)
Require Import JV.Base.Prelude JV.Base.JaxIndex JV.Base.Codec JV.Base.TimeStep JV.Model.BinPack JV.Proofs.BinPack_lib JV.Proofs.BinPack.

(* ---------- C12: stable argsort by decreasing key ---------- *)
Lemma insert_sorted ks i : forall l, sorted_b ks l = true -> (forall j, In j l -> j < i) ->
  sorted_b ks (insert_desc ks i l) = true.
Proof.
  induction l as [|j t IH]; intros H Hlt; [reflexivity|].
  cbn [sorted_b] in H. apply andb_true_iff in H as [H1 H2]. cbn [insert_desc].
  destruct (znth 0 ks j <? znth 0 ks i) eqn:E.
  - cbn [sorted_b forallb]. rewrite H1, H2. rewrite !andb_true_r. apply andb_true_iff. split.
    + unfold before. lia.
    + rewrite forallb_forall in *. intros x Hx. specialize (H1 x Hx). unfold before in *. lia.
  - cbn [sorted_b]. apply andb_true_iff. split.
    + rewrite forallb_forall in *. intros x Hx. apply insert_desc_In in Hx as [<-|Hx].
      * specialize (Hlt j (or_introl eq_refl)). unfold before. lia.
      * apply H1. exact Hx.
    + apply IH; [exact H2|]. intros x Hx. apply Hlt. right. exact Hx.
Qed.

Lemma insert_NoDup ks i : forall l, NoDup l -> ~ In i l -> NoDup (insert_desc ks i l).
Proof.
  induction l as [|j t IH]; intros H Hn; cbn [insert_desc]; [constructor; [exact Hn|constructor]|].
  destruct (_ <? _); [constructor; assumption|].
  inversion H; subst. constructor.
  - rewrite insert_desc_In. intros [->|Hx]; [apply Hn; left; reflexivity|contradiction].
  - apply IH; [assumption|]. intro Hx. apply Hn. right. exact Hx.
Qed.

Lemma fold_insert_sorted ks : forall k s acc,
  sorted_b ks acc = true -> NoDup acc -> (forall j, In j acc -> j < s) ->
  sorted_b ks (fold_left (fun acc i => insert_desc ks i acc) (zrange_from s k) acc) = true /\
  NoDup (fold_left (fun acc i => insert_desc ks i acc) (zrange_from s k) acc).
Proof.
  induction k as [|k IH]; intros s acc H ND Hlt; cbn [zrange_from fold_left]; [auto|].
  apply IH.
  - apply insert_sorted; assumption.
  - apply insert_NoDup; [assumption|]. intro Hx. specialize (Hlt s Hx). lia.
  - intros j Hj. apply insert_desc_In in Hj as [<-|Hj]; [lia|]. specialize (Hlt j Hj). lia.
Qed.

(* the order of the observation: a duplicate-free list of all m buffer indices, by decreasing (masked, float32) volume,
   equal volumes by increasing index *)
Theorem argsort_spec ks :
  sorted_b ks (argsort_desc ks) = true /\ NoDup (argsort_desc ks) /\
  (forall x, In x (argsort_desc ks) <-> 0 <= x < zlen ks) /\ zlen (argsort_desc ks) = zlen ks.
Proof.
  unfold argsort_desc, zrange.
  destruct (fold_insert_sorted ks (Z.to_nat (zlen ks)) 0 []) as [A B]; [reflexivity|constructor|intros j []|].
  split; [exact A|]. split; [exact B|]. split; [intro x; apply (argsort_In ks x)|apply argsort_length].
Qed.

Lemma sorted_b_spec ks : forall l, sorted_b ks l = true ->
  forall a b, (a < b < length l)%nat -> before ks (nth a l 0) (nth b l 0) = true.
Proof.
  induction l as [|i t IH]; intros H a b Hab; cbn [length] in *; [lia|].
  cbn [sorted_b] in H. apply andb_true_iff in H as [H1 H2].
  destruct a as [|a], b as [|b]; try lia; cbn [nth].
  - rewrite forallb_forall in H1. apply H1. apply nth_In. lia.
  - apply IH; [exact H2|lia].
Qed.

(* what the agent sees: position e of the observation is buffer slot sorted[e] *)
Theorem observation_view n m obs s e :
  shape n m s -> consistent obs s -> obs <= m -> 0 <= e < obs ->
  let k := znth 0 (sorted_idx s) e in
  0 <= k < m /\
  znth sp0 (obs_ems obs s) e = ems_at s k /\ znth false (obs_ems_mask obs s) e = emask_at s k /\
  jget 0 (sorted_idx s) e = k.
Proof.
  intros Hs Hc Ho He k.
  destruct (sorted_jget n m obs s e Hs Hc Ho He) as [Ej Hr]. fold k in Ej, Hr.
  pose proof Hs as (L1 & L2 & L3 & L4 & L5 & L6).
  assert (Hsl : zlen (sorted_idx s) = m).
  { destruct Hc as [Hso _]. rewrite Hso. unfold sorted_of. rewrite argsort_length, keys_of_length; [exact L5|unfold zlen in *; lia]. }
  assert (Hfl : length (firstn (Z.to_nat obs) (sorted_idx s)) = Z.to_nat obs).
  { rewrite firstn_length. unfold zlen in Hsl. lia. }
  repeat split; try lia; try exact Ej.
  - unfold obs_ems, obs_idx, firstn_z. rewrite znth_nonneg by lia.
    rewrite (nth_map_in _ _ _ 0) by lia. rewrite nth_firstn_lt by lia.
    rewrite <- (znth_nonneg 0 (sorted_idx s) e) by lia. fold k. apply jget_znth. lia.
  - unfold obs_ems_mask, obs_idx, firstn_z. rewrite znth_nonneg by lia.
    rewrite (nth_map_in _ _ _ 0) by lia. rewrite nth_firstn_lt by lia.
    rewrite <- (znth_nonneg 0 (sorted_idx s) e) by lia. fold k. apply jget_znth. lia.
Qed.

(* ---------- C01: declared ranges ---------- *)
Theorem step_ranges n m obs s a0 a1 :
  shape n m s -> consistent obs s -> obs <= m -> inspec obs n a0 a1 ->
  ranges_b s = true -> ranges_b (step_state obs s a0 a1) = true.
Proof.
  intros Hs Hc Ho Hi HR. unfold step_state.
  destruct (step_valid s a0 a1) eqn:V; [|exact HR].
  rewrite (valid_legal n m obs s a0 a1 Hs Hc Ho Hi) in V. apply legal_b_spec in V. destruct V as (V1 & V2 & V3 & V4).
  destruct Hi as [H0 H1]. destruct (sorted_jget n m obs s a0 Hs Hc Ho H0) as [-> Hr].
  set (k := znth 0 (sorted_idx s) a0) in *.
  destruct (pack_item_fields n m s k a1 Hs H1 Hr) as (E1 & E2 & E3 & E4 & E5 & E6 & E7).
  pose proof Hs as (L1 & L2 & L3 & L4 & L5 & L6).
  unfold ranges_b in *. apply andb_true_iff in HR as [R1 R2].
  unfold refresh. cbn [container ems items]. rewrite E1, E2, E6, R2, andb_true_r.
  rewrite forallb_forall in R1, R2.
  assert (Hek : in_box (container s) (ems_at s k) = true).
  { apply R1. unfold ems_at. rewrite znth_nonneg by lia. apply nth_In. unfold zlen in *. lia. }
  assert (Hit : item_in (container s) (item_at s a1) = true).
  { apply R2. unfold item_at. rewrite znth_nonneg by lia. apply nth_In. unfold zlen in *. lia. }
  assert (Hisp : in_box (container s) (new_item_space s k a1) = true).
  { unfold new_item_space, corner. apply corner_in_box; assumption. }
  apply forallb_forall. apply Forall_forall.
  apply (update_ems_Forall (fun e => in_box (container s) e = true)).
  - apply Forall_forall. exact R1.
  - intros e d He. apply hyper_in_box; assumption.
Qed.

Theorem init_ranges obs c max_ems its im :
  in_box c c = true -> in_box c sp0 = true -> forallb (item_in c) its = true ->
  ranges_b (fst (init obs c max_ems its im)) = true.
Proof.
  intros Hc H0 Hi. unfold init, ranges_b, refresh, init_state. cbn [fst container ems items].
  rewrite Hi, andb_true_r. cbn [forallb]. rewrite Hc. cbn [andb].
  apply forallb_forall. intros x Hx. apply repeat_spec in Hx. subst. exact H0.
Qed.

(* ---------- small corollaries used by the property files ---------- *)
Theorem mask_iff_legal n m obs s e i :
  shape n m s -> consistent obs s -> 0 <= e < obs -> obs <= m -> 0 <= i < n ->
  (gget false (action_mask s) e i = true <-> legal s e i).
Proof. intros Hs Hc He Ho Hi. rewrite (mask_lookup n m obs s e i Hs Hc He Ho Hi). exact (legal_b_spec s e i). Qed.

Theorem illegal_is_invalid n m obs s a0 a1 :
  shape n m s -> consistent obs s -> obs <= m -> inspec obs n a0 a1 -> ~ legal s a0 a1 -> step_valid s a0 a1 = false.
Proof.
  intros Hs Hc Ho Hi Hn. rewrite (valid_legal n m obs s a0 a1 Hs Hc Ho Hi).
  destruct (legal_b s a0 a1) eqn:E; [|reflexivity]. exfalso. apply Hn. apply legal_b_spec. exact E.
Qed.

Lemma jget_In_or_default {A} (d : A) l i : jget d l i = d \/ In (jget d l i) l.
Proof.
  unfold jget, znth. destruct (_ <? 0); [left; reflexivity|].
  destruct (nth_in_or_default (Z.to_nat (jclamp (zlen l) i)) l d) as [H|H]; [right; exact H|left; exact H].
Qed.

Lemma any2_false_gget am e i : any2 am = false -> gget false am e i = false.
Proof.
  intro H. unfold gget. destruct (jget_In_or_default [] am e) as [Hr|Hr].
  - rewrite Hr. destruct (jget_In_or_default false (@nil bool) i) as [Hb|[]]. exact Hb.
  - destruct (jget_In_or_default false (jget [] am e) i) as [Hb|Hb]; [exact Hb|].
    destruct (jget false (jget [] am e) i) eqn:E; [|reflexivity].
    exfalso. unfold any2 in H. apply Bool.not_true_iff_false in H. apply H.
    apply existsb_exists. exists (jget [] am e). split; [exact Hr|]. apply existsb_exists. exists true. split; [exact Hb|reflexivity].
Qed.

(* completion: when a LEGAL action ends the episode, no (observed EMS, item) pair is legal any more *)
Theorem completion_maximal n m obs sparse s a0 a1 e i :
  shape n m s -> consistent obs s -> obs <= m -> inspec obs n a0 a1 -> step_valid s a0 a1 = true ->
  st (snd (step obs sparse s a0 a1)) = LAST -> 0 <= e < obs -> 0 <= i < n -> ~ legal (fst (step obs sparse s a0 a1)) e i.
Proof.
  intros Hs Hc Ho Hi V HL He Hi2 Hleg. unfold step in *. cbn [fst snd] in *. unfold cond_done in HL.
  destruct (step_done obs s a0 a1) eqn:D; [|discriminate]. unfold step_done in D. rewrite V in D. cbn [negb] in D.
  rewrite orb_false_r in D. apply negb_true_iff in D.
  pose proof (step_shape n m obs s a0 a1 Hs Hc Ho Hi) as Hs'.
  pose proof (step_state_consistent obs s a0 a1) as Hc'.
  apply legal_b_spec in Hleg. rewrite <- (mask_lookup n m obs _ e i Hs' Hc' He Ho Hi2) in Hleg.
  rewrite (any2_false_gget _ e i D) in Hleg. discriminate.
Qed.

(* ---------- generate_solution: the solution state places every item space at its own corner ---------- *)
Lemma item_space_of e : item_space (item_of e) (mkLoc (x1 e) (y1 e) (z1 e)) = e.
Proof. destruct e. unfold item_space, item_of. cbn. f_equal; lia. Qed.

Theorem solution_spaces c sps ms i :
  0 <= i < zlen sps -> ispace (solution_state c sps ms) i = znth sp0 sps i.
Proof.
  intro Hi. unfold ispace, item_at, loc_at, solution_state. cbn [items items_loc].
  rewrite !znth_nonneg by lia. rewrite (nth_map_in _ _ _ sp0) by (unfold zlen in Hi; lia).
  rewrite (nth_map_in _ _ _ sp0) by (unfold zlen in Hi; lia). apply item_space_of.
Qed.
