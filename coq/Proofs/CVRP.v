(* Proofs about the CVRP model (coq/Model/CVRP.v).  Everything is for ALL sizes n >= 1, states, actions and for an
   ABSTRACT distance oracle [dist] (only [dist 0 0 = 0] is ever assumed, and only where stated). *)
Require Import JV.Base.Prelude JV.Base.JaxIndex JV.Base.Codec JV.Base.TimeStep JV.Model.CVRP.

(* ---------- list / index helpers ---------- *)
Lemma znth_nth {A} (d : A) l i : 0 <= i -> znth d l i = nth (Z.to_nat i) l d.
Proof. intro H. unfold znth. destruct (i <? 0) eqn:E; [lia|reflexivity]. Qed.

Lemma znth_indep {A} (d d' : A) l i : 0 <= i < zlen l -> znth d l i = znth d' l i.
Proof. intro H. rewrite !znth_nth by lia. apply nth_indep. unfold zlen in H. lia. Qed.

Lemma jget_znth {A} (d : A) l i : 0 <= i < zlen l -> jget d l i = znth d l i.
Proof. intro H. unfold jget. rewrite jclamp_id by lia. reflexivity. Qed.

Lemma jset_zupd {A} (l : list A) i v : 0 <= i < zlen l -> jset l i v = zupd i v l.
Proof.
  intro H. unfold jset, jnorm. destruct (i <? 0) eqn:E; [lia|].
  replace ((0 <=? i) && (i <? zlen l)) with true by lia. reflexivity.
Qed.

Lemma zlen_jset {A} (l : list A) i v : zlen (jset l i v) = zlen l.
Proof. unfold zlen. rewrite jset_length. reflexivity. Qed.

Lemma zlen_zupd {A} (l : list A) i v : zlen (zupd i v l) = zlen l.
Proof. unfold zlen. rewrite zupd_length. reflexivity. Qed.

Lemma znth_zupd_same {A} (d : A) l i v : 0 <= i < zlen l -> znth d (zupd i v l) i = v.
Proof.
  intro H. rewrite znth_nth by lia. unfold zupd. destruct (i <? 0) eqn:E; [lia|].
  apply nth_upd_same. unfold zlen in H. lia.
Qed.

Lemma znth_zupd_other {A} (d : A) l i j v : i <> j -> 0 <= j -> znth d (zupd i v l) j = znth d l j.
Proof.
  intros N H. rewrite !znth_nth by lia. unfold zupd. destruct (i <? 0) eqn:E; [reflexivity|].
  apply nth_upd_other. lia.
Qed.

Lemma zlen_repeat {A} (x : A) k : zlen (repeat x k) = Z.of_nat k.
Proof. unfold zlen. rewrite repeat_length. reflexivity. Qed.

Lemma zlen_rev {A} (l : list A) : zlen (rev l) = zlen l.
Proof. unfold zlen. rewrite rev_length. reflexivity. Qed.

Lemma nth_repeat_any {A} (d x : A) k i : (i < k)%nat -> nth i (repeat x k) d = x.
Proof. revert i; induction k as [|k IH]; intros [|i] H; cbn [repeat nth]; try lia; auto. apply IH; lia. Qed.

Lemma znth_repeat {A} (d x : A) k i : 0 <= i < Z.of_nat k -> znth d (repeat x k) i = x.
Proof. intro H. rewrite znth_nth by lia. apply nth_repeat_any. lia. Qed.

Lemma map2_length {A B C} (f : A -> B -> C) a b : length a = length b -> length (map2 f a b) = length a.
Proof. revert b; induction a as [|x a IH]; intros [|y b] H; cbn in *; try lia. rewrite IH; lia. Qed.

Lemma nth_map2 {A B C} (f : A -> B -> C) a b i da db dc :
  (i < length a)%nat -> length a = length b -> nth i (map2 f a b) dc = f (nth i a da) (nth i b db).
Proof.
  revert b i; induction a as [|x a IH]; intros [|y b] [|i] H E; cbn in *; try lia; auto. apply IH; lia.
Qed.

(* ---------- C04 / C12: the mask ---------- *)
Definition shape (n : Z) (s : state) : Prop := zlen (demands s) = n + 1 /\ zlen (visited s) = n + 1.
(* the depot flag mirrors the position, the depot has no demand, capacity is not negative *)
Definition wf0 (s : state) : Prop :=
  znth false (visited s) 0 = (pos s =? 0) /\ znth 0 (demands s) 0 = 0 /\ 0 <= cap s.

Lemma mask_len n s : shape n s -> zlen (mask s) = n + 1.
Proof.
  intros [Hd Hv]. unfold mask. rewrite zlen_jset. unfold zlen in *. rewrite map2_length; lia.
Qed.

Lemma legal_b_spec n s a : legal_b n s a = true <-> legal n s a.
Proof.
  unfold legal_b, legal. split.
  - intro H. apply orb_true_iff in H as [H|H].
    + left. apply andb_true_iff in H as [H1 H2]. split; [lia|]. destruct (pos s =? 0) eqn:E; [discriminate|lia].
    + right. repeat (apply andb_true_iff in H as [H ?]).
      destruct (znth true (visited s) a); [discriminate|]. repeat split; lia.
  - intros [[H1 H2]|[H1 [H2 H3]]].
    + apply orb_true_iff. left. apply andb_true_iff. split; [lia|]. destruct (pos s =? 0) eqn:E; [lia|reflexivity].
    + apply orb_true_iff. right. rewrite H2. cbn [negb]. rewrite !andb_true_iff. repeat split; lia.
Qed.

Theorem mask_legal_b n s a : shape n s -> 0 <= a <= n -> jget false (mask s) a = legal_b n s a.
Proof.
  intros Sh Ha. pose proof (mask_len n s Sh) as ML. destruct Sh as [Hd Hv].
  rewrite jget_znth by lia. unfold mask.
  assert (LM : zlen (map2 (fun (v : bool) d => negb v && (d <=? cap s)) (visited s) (demands s)) = n + 1).
  { unfold zlen in *. rewrite map2_length; lia. }
  rewrite jset_zupd by lia. unfold legal_b.
  destruct (a =? 0) eqn:E.
  - assert (a = 0) by lia. subst a. rewrite znth_zupd_same by lia.
    cbn [andb]. replace (1 <=? 0) with false by reflexivity. cbn [andb orb]. rewrite orb_false_r. reflexivity.
  - rewrite znth_zupd_other by lia. cbn [andb orb].
    replace (1 <=? a) with true by lia. replace (a <=? n) with true by lia. cbn [andb].
    rewrite znth_nth by lia.
    rewrite (nth_map2 _ _ _ _ true 0) by (unfold zlen in *; lia).
    rewrite <- !znth_nth by lia. reflexivity.
Qed.

Theorem C04_mask_iff_legal n s a : shape n s -> 0 <= a <= n -> (jget false (mask s) a = true <-> legal n s a).
Proof. intros Sh Ha. rewrite (mask_legal_b n s a Sh Ha). apply legal_b_spec. Qed.

Theorem valid_legal_b n s a : shape n s -> wf0 s -> 0 <= a <= n -> valid s a = legal_b n s a.
Proof.
  intros [Hd Hv] (W1 & W2 & W3) Ha. unfold valid, legal_b.
  rewrite !jget_znth by lia.
  destruct (a =? 0) eqn:E.
  - assert (a = 0) by lia. subst a. rewrite W1, W2. cbn [andb].
    replace (1 <=? 0) with false by reflexivity. cbn [andb orb]. rewrite orb_false_r.
    replace (0 <=? cap s) with true by lia. rewrite andb_true_r. reflexivity.
  - cbn [andb orb]. replace (1 <=? a) with true by lia. replace (a <=? n) with true by lia. cbn [andb].
    rewrite (znth_indep false true) by lia. reflexivity.
Qed.

(* the mask entry is the environment's own validity test: a masked-in node is never refused, no accepted node is hidden *)
Theorem C04_mask_iff_accepts n s a : shape n s -> wf0 s -> 0 <= a <= n -> jget false (mask s) a = valid s a.
Proof. intros Sh W Ha. rewrite (mask_legal_b n s a Sh Ha), (valid_legal_b n s a Sh W Ha). reflexivity. Qed.

(* ---------- the route invariant ---------- *)
Lemma in_customers h i : In i (customers h) <-> In i h /\ i <> 0.
Proof.
  unfold customers. rewrite filter_In. split; intros [H1 H2]; (split; [exact H1 | lia]).
Qed.

Lemma customers_cons a h : customers (a :: h) = if a =? 0 then customers h else a :: customers h.
Proof. unfold customers. cbn [filter]. destruct (a =? 0); reflexivity. Qed.

Lemma cust_incl n h : Forall (fun a => 0 <= a <= n) h -> incl (customers h) (zrange_from 1 (Z.to_nat n)).
Proof.
  intros F i Hi. apply in_customers in Hi as [Hi Hz]. rewrite Forall_forall in F. specialize (F i Hi).
  apply in_zrange_from. lia.
Qed.

Lemma cust_le n h : 0 <= n -> Forall (fun a => 0 <= a <= n) h -> NoDup (customers h) -> zlen (customers h) <= n.
Proof.
  intros Hn F ND. pose proof (NoDup_incl_length ND (cust_incl n h F)) as L.
  rewrite zrange_from_length in L. unfold zlen. lia.
Qed.

Lemma cust_full n h i : 0 <= n -> Forall (fun a => 0 <= a <= n) h -> NoDup (customers h) ->
  zlen (customers h) = n -> 1 <= i <= n -> In i h.
Proof.
  intros Hn F ND L Hi.
  assert (I : incl (zrange_from 1 (Z.to_nat n)) (customers h)).
  { apply NoDup_length_incl; [exact ND| |apply cust_incl; exact F]. rewrite zrange_from_length. unfold zlen in L. lia. }
  apply (in_customers h i). apply I. apply in_zrange_from. lia.
Qed.

Lemma all_true_znth (l : list bool) : forallb (fun b => b) l = true <-> (forall i, 0 <= i < zlen l -> znth false l i = true).
Proof.
  rewrite forallb_forall. split.
  - intros H i Hi. rewrite znth_nth by lia. apply H. apply nth_In. unfold zlen in Hi. lia.
  - intros H x Hx. destruct (In_nth l x false Hx) as (k & Hk & E).
    specialize (H (Z.of_nat k)). rewrite znth_nth in H by lia. rewrite Nat2Z.id in H. rewrite <- E. apply H. unfold zlen. lia.
Qed.

Lemma traj_ok_len L h t : traj_ok L h t -> zlen t = L.
Proof.
  intros [[H1 H2]|[H1 [H2 H3]]]; subst t.
  - rewrite zlen_app, zlen_cons, zlen_rev, zlen_repeat. pose proof (zlen_nonneg h). lia.
  - destruct h as [|x h]; [cbn in H2; lia|]. cbn [tl]. rewrite zlen_cons in *. rewrite zlen_rev. lia.
Qed.

Lemma upd_app_len {A} (p q : list A) x v : upd (length p) v (p ++ x :: q) = p ++ v :: q.
Proof. induction p as [|y p IH]; cbn [length upd app]; [reflexivity|]. rewrite IH. reflexivity. Qed.

Lemma traj_step L h t a : traj_ok L h t -> zlen h < L -> (zlen h + 1 = L -> a = 0) ->
  traj_ok L (a :: h) (jset t (1 + zlen h) a).
Proof.
  intros T Hl Ha. pose proof (traj_ok_len L h t T) as TL. pose proof (zlen_nonneg h) as Hn.
  destruct T as [[H1 H2]|[H1 _]]; [|lia].
  destruct (Z.eq_dec (zlen h + 1) L) as [E|E].
  - specialize (Ha E). subst a. right. rewrite zlen_cons. cbn [hd tl]. repeat split; try lia.
    rewrite jset_oob by lia. subst t. replace (L - 1 - zlen h) with 0 by lia. cbn [Z.to_nat repeat]. apply app_nil_r.
  - left. rewrite zlen_cons. split; [lia|].
    rewrite jset_zupd by lia. unfold zupd. replace (1 + zlen h <? 0) with false by lia.
    subst t. replace (Z.to_nat (L - 1 - zlen h)) with (S (Z.to_nat (L - 1 - (1 + zlen h)))) by lia.
    cbn [repeat]. replace (Z.to_nat (1 + zlen h)) with (length (0 :: rev h)).
    2:{ cbn [length]. rewrite rev_length. unfold zlen. lia. }
    rewrite upd_app_len. cbn [rev]. rewrite <- !app_comm_cons. rewrite <- app_assoc. reflexivity.
Qed.

Lemma inv_shape n mc s h : Inv n mc s h -> shape n s /\ wf0 s.
Proof. intros (I1 & I2 & I3 & I4 & I5 & I6 & I7 & I8 & I9 & I10 & I11 & I12 & I13). repeat split; assumption. Qed.

(* a state whose route already has 2n entries is complete: every customer served, vehicle at the depot *)
Lemma inv_full n mc s h : 0 <= n -> Inv n mc s h -> 2 * n <= zlen h ->
  pos s = 0 /\ zlen (customers h) = n.
Proof.
  intros Hn (I1 & I2 & I3 & I4 & I5 & I6 & I7 & I8 & I9 & I10 & I11 & I12 & I13) L.
  pose proof (cust_le n h Hn I5 I10). destruct (pos s =? 0) eqn:E; lia.
Qed.

Lemma inv_complete_all_visited n mc s h : 0 <= n -> Inv n mc s h -> pos s = 0 -> zlen (customers h) = n -> all_visited s = true.
Proof.
  intros Hn (I1 & I2 & I3 & I4 & I5 & I6 & I7 & I8 & I9 & I10 & I11 & I12 & I13) P C.
  unfold all_visited. apply all_true_znth. intros i Hi. rewrite I2 in Hi.
  destruct (Z.eq_dec i 0) as [->|N0].
  - rewrite I9, P. reflexivity.
  - apply I8; [lia|]. apply (cust_full n h i); auto; lia.
Qed.

Lemma all_visited_invalid n s a : shape n s -> 0 <= a <= n -> all_visited s = true -> valid s a = false.
Proof.
  intros [Hd Hv] Ha AV. unfold valid. rewrite jget_znth by lia.
  unfold all_visited in AV. rewrite all_true_znth in AV. rewrite AV by lia. reflexivity.
Qed.

Theorem step_valid_Inv n mc s h a : 1 <= n -> 0 <= mc -> Inv n mc s h -> 0 <= a <= n -> valid s a = true ->
  Inv n mc (update mc s a) (a :: h).
Proof.
  intros Hn Hmc I Ha V.
  assert (Hlt : zlen h < 2 * n).
  { destruct (Z_lt_ge_dec (zlen h) (2 * n)) as [L|L]; [exact L|exfalso].
    destruct (inv_full n mc s h ltac:(lia) I ltac:(lia)) as [P C].
    pose proof (inv_complete_all_visited n mc s h ltac:(lia) I P C) as AV.
    rewrite (all_visited_invalid n s a (proj1 (inv_shape n mc s h I)) Ha AV) in V. discriminate. }
  destruct I as (I1 & I2 & I3 & I4 & I5 & I6 & I7 & I8 & I9 & I10 & I11 & I12 & I13).
  unfold valid in V. rewrite !jget_znth in V by lia. apply andb_true_iff in V as [V1 V2].
  assert (Va : znth false (visited s) a = false) by (destruct (znth false (visited s) a); [discriminate|reflexivity]).
  clear V1.
  assert (F' : Forall (fun a => 0 <= a <= n) (a :: h)) by (constructor; [lia|exact I5]).
  assert (ND' : NoDup (customers (a :: h))).
  { rewrite customers_cons. destruct (a =? 0) eqn:E; [exact I10|]. constructor; [|exact I10].
    intro Hin. apply in_customers in Hin as [Hin _]. apply I8 in Hin; [congruence|lia]. }
  pose proof (cust_le n (a :: h) ltac:(lia) F' ND') as CL.
  assert (P0 : a = 0 -> pos s <> 0).
  { intros -> P. rewrite I9, P in Va. discriminate. }
  assert (CNT : zlen (a :: h) + (if a =? 0 then 0 else 1) <= 2 * zlen (customers (a :: h))).
  { rewrite customers_cons, zlen_cons. destruct (a =? 0) eqn:E.
    - assert (a = 0) by lia. specialize (P0 H). destruct (pos s =? 0) eqn:E2; lia.
    - rewrite zlen_cons. destruct (pos s =? 0); lia. }
  unfold Inv, update. cbn [demands visited pos cap traj nvis].
  repeat split.
  - exact I1.
  - rewrite !zlen_jset. exact I2.
  - exact I3.
  - exact F'.
  - cbn [load]. rewrite jget_znth by lia. destruct (a =? 0); lia.
  - rewrite jget_znth by lia. destruct (a =? 0); lia.
  - intro Hvis. assert (L0 : zlen (jset (visited s) 0 false) = n + 1) by (rewrite zlen_jset; exact I2).
    rewrite jset_zupd in Hvis by lia.
    destruct (Z.eq_dec i a) as [->|N]; [left; reflexivity|right].
    rewrite znth_zupd_other in Hvis by lia. rewrite jset_zupd in Hvis by lia. rewrite znth_zupd_other in Hvis by lia.
    apply I8; [lia|exact Hvis].
  - intro Hin. assert (L0 : zlen (jset (visited s) 0 false) = n + 1) by (rewrite zlen_jset; exact I2).
    rewrite jset_zupd by lia.
    destruct (Z.eq_dec i a) as [->|N]; [apply znth_zupd_same; lia|].
    rewrite znth_zupd_other by lia. rewrite jset_zupd by lia. rewrite znth_zupd_other by lia.
    destruct Hin as [Hin|Hin]; [congruence|]. apply I8; [lia|exact Hin].
  - assert (L0 : zlen (jset (visited s) 0 false) = n + 1) by (rewrite zlen_jset; exact I2).
    rewrite jset_zupd by lia.
    destruct (a =? 0) eqn:E.
    + assert (a = 0) by lia. subst a. apply znth_zupd_same. lia.
    + rewrite znth_zupd_other by lia. rewrite jset_zupd by lia. apply znth_zupd_same. lia.
  - exact ND'.
  - rewrite zlen_cons. lia.
  - exact CNT.
  - rewrite I11. apply traj_step; [exact I13|exact Hlt|].
    intro E. destruct (a =? 0) eqn:E0; [lia|]. rewrite zlen_cons in CNT. lia.
Qed.

(* ---------- C10: the generator ---------- *)
Theorem init_Inv n mc draw : 1 <= n -> 0 <= mc -> zlen draw = n + 1 -> Inv n mc (fst (init n mc draw)) [].
Proof.
  intros Hn Hmc L. unfold init, Inv. cbn [fst demands visited pos cap traj nvis hd load customers filter].
  assert (LR : zlen (repeat false (Z.to_nat (n + 1))) = n + 1) by (rewrite zlen_repeat; lia).
  repeat split.
  - rewrite zlen_jset. exact L.
  - rewrite zlen_jset. exact LR.
  - rewrite jset_zupd by lia. apply znth_zupd_same. lia.
  - constructor.
  - lia.
  - exact Hmc.
  - intro Hvis. rewrite jset_zupd in Hvis by lia. rewrite znth_zupd_other in Hvis by lia.
    rewrite znth_repeat in Hvis by lia. discriminate.
  - intros [].
  - rewrite jset_zupd by lia. rewrite znth_zupd_same by lia. reflexivity.
  - constructor.
  - cbn. lia.
  - left. split; [unfold zlen; cbn [length]; lia|]. cbn [rev app].
    replace (Z.to_nat (2 * n)) with (S (Z.to_nat (2 * n - 1 - zlen (@nil Z)))) by (unfold zlen; cbn [length]; lia).
    reflexivity.
Qed.

(* ---------- the step, for an abstract distance oracle ---------- *)
Section Oracle.
Variable dist : Z -> Z -> Z.

Lemma step_fst rnd sp mc pen s a : fst (step_r rnd sp mc pen dist s a) = if valid s a then update mc s a else s.
Proof. reflexivity. Qed.

Lemma step_st rnd sp mc pen s a :
  st (snd (step_r rnd sp mc pen dist s a)) =
  if all_visited (fst (step_r rnd sp mc pen dist s a)) || negb (valid s a) then LAST else MID.
Proof.
  unfold step_r. cbn [fst snd].
  destruct (all_visited (if valid s a then update mc s a else s) || negb (valid s a)); reflexivity.
Qed.

(* C03 *)
Theorem C03_step_protocol rnd sp mc pen s a : step_ok 1 false (snd (step_r rnd sp mc pen dist s a)) = true.
Proof.
  unfold step_r. cbn [snd].
  destruct (all_visited (if valid s a then update mc s a else s) || negb (valid s a)); reflexivity.
Qed.
Theorem C03_init_protocol n mc draw : first_ok 1 (snd (init n mc draw)) = true.
Proof. reflexivity. Qed.

(* C05, for EVERY state (no invariant needed): a refused node leaves the whole state untouched and ends the episode;
   the sparse reward is exactly the penalty, and so is the dense one unless everything is already visited *)
Theorem C05_refused_any_state rnd sp mc pen s a : valid s a = false ->
  let p := step_r rnd sp mc pen dist s a in
  fst p = s /\ st (snd p) = LAST /\ discount (snd p) = [0]
  /\ (sp = true \/ all_visited s = false -> reward (snd p) = [- pen]).
Proof.
  intro V. unfold step_r, reward_of. rewrite V. cbn [negb]. rewrite orb_true_r.
  cbn [fst snd cond_done termination st discount reward repeat]. repeat split.
  intros [->|AV]; [reflexivity|]. rewrite AV. destruct sp; reflexivity.
Qed.

Hypothesis dist00 : dist 0 0 = 0.

(* C05 on states that satisfy the invariant, in-spec illegal node: LAST, exactly the penalty, nothing changes *)
Theorem C05_illegal_node n mc s h sp pen a : Inv n mc s h -> 0 <= a <= n -> ~ legal n s a ->
  step sp mc pen dist s a = (s, termination 1 [- pen]).
Proof.
  intros I Ha NL. destruct (inv_shape n mc s h I) as [Sh W].
  assert (V : valid s a = false).
  { rewrite (valid_legal_b n s a Sh W Ha). destruct (legal_b n s a) eqn:E; [|reflexivity].
    apply legal_b_spec in E. contradiction. }
  unfold step, step_r, reward_of. rewrite V. cbn [negb]. rewrite orb_true_r. cbn [cond_done].
  destruct sp; [reflexivity|].
  destruct (all_visited s) eqn:AV; [|reflexivity].
  destruct I as (I1 & I2 & I3 & I4 & I5 & I6 & I7 & I8 & I9 & I10 & I11 & I12 & I13).
  unfold all_visited in AV. rewrite all_true_znth in AV. rewrite AV in I9 by lia.
  assert (pos s = 0) by lia. rewrite H, dist00. unfold rid. do 3 f_equal. lia.
Qed.

(* a legal node is visited; the closing term of the dense reward vanishes (the completing move goes to the depot) *)
Lemma step_legal n mc s h sp pen a : 1 <= n -> 0 <= mc -> Inv n mc s h -> 0 <= a <= n -> legal n s a ->
  let s' := update mc s a in
  valid s a = true /\ Inv n mc s' (a :: h)
  /\ step sp mc pen dist s a =
     (s', cond_done 1 (all_visited s')
            [if sp then (if all_visited s' then - tour_length dist (traj s') else 0) else - dist (pos s) a])
  /\ (all_visited s' = true -> a = 0).
Proof.
  intros Hn Hmc I Ha Lg s'. destruct (inv_shape n mc s h I) as [Sh W].
  assert (V : valid s a = true).
  { rewrite (valid_legal_b n s a Sh W Ha). apply legal_b_spec. exact Lg. }
  pose proof (step_valid_Inv n mc s h a Hn Hmc I Ha V) as I'. fold s' in I'.
  assert (A0 : all_visited s' = true -> a = 0).
  { intro AV. destruct I' as (J1 & J2 & J3 & J4 & J5 & J6 & J7 & J8 & J9 & J10 & J11 & J12 & J13).
    unfold all_visited in AV. rewrite all_true_znth in AV. rewrite AV in J9 by lia.
    cbn [hd] in J4. lia. }
  split; [exact V|]. split; [exact I'|]. split; [|exact A0].
  unfold step, step_r, reward_of. rewrite V. fold s'. cbn [negb]. rewrite orb_false_r.
  destruct sp; [reflexivity|].
  destruct (all_visited s') eqn:AV; [|reflexivity].
  specialize (A0 eq_refl). subst a. change (pos s') with 0. rewrite dist00. unfold rid.
  do 3 f_equal. lia.
Qed.

(* ---------- episodes ---------- *)
(* run stops at the first LAST *)
Fixpoint run (sp : bool) (mc pen : Z) (s : state) (acts : list Z) : list (state * tstep) :=
  match acts with
  | [] => []
  | a :: r => let p := step sp mc pen dist s a in p :: (if st (snd p) =? LAST then [] else run sp mc pen (fst p) r)
  end.
Definition ret (tr : list (state * tstep)) : Z := zsum (map (fun p => zsum (reward (snd p))) tr).
Definition dummy : state * tstep := (mkS [] 0 0 [] [] 0, mkTS MID [] []).
Definition final (tr : list (state * tstep)) : state := fst (last tr dummy).
Definition ended (tr : list (state * tstep)) : Prop := st (snd (last tr dummy)) = LAST.
(* mask-respecting play: every chosen node is in-spec and legal; nothing is played after the completing move *)
Fixpoint legal_run (n mc : Z) (s : state) (acts : list Z) : Prop :=
  match acts with
  | [] => True
  | a :: r => 0 <= a <= n /\ legal n s a /\ (if all_visited (update mc s a) then r = [] else legal_run n mc (update mc s a) r)
  end.
(* ... and the last move completes the tour *)
Fixpoint complete_run (n mc : Z) (s : state) (acts : list Z) : Prop :=
  match acts with
  | [] => False
  | a :: r => 0 <= a <= n /\ legal n s a /\ (if all_visited (update mc s a) then r = [] else complete_run n mc (update mc s a) r)
  end.

Lemma complete_legal_run n mc acts : forall s, complete_run n mc s acts -> legal_run n mc s acts.
Proof.
  induction acts as [|a r IH]; intros s H; cbn [complete_run legal_run] in *; [contradiction|].
  destruct H as (H1 & H2 & H3). split; [exact H1|]. split; [exact H2|].
  destruct (all_visited (update mc s a)); [exact H3|apply IH; exact H3].
Qed.

Lemma ended_cons_mid p tr : st (snd p) <> LAST -> ended (p :: tr) -> ended tr.
Proof. intros N E. destruct tr as [|q tr]; [contradiction|exact E]. Qed.
Lemma ended_cons tr p : ended tr -> ended (p :: tr).
Proof. intro E. destruct tr as [|q tr]; [discriminate E|exact E]. Qed.

(* C06 along whole episodes, for ANY in-spec actions (an illegal node changes nothing and ends the episode) *)
Theorem step_Inv_any n mc s h sp pen a : 1 <= n -> 0 <= mc -> Inv n mc s h -> 0 <= a <= n ->
  exists h', Inv n mc (fst (step sp mc pen dist s a)) h' /\ (h' = h \/ (h' = a :: h /\ legal n s a)).
Proof.
  intros Hn Hmc I Ha. unfold step. rewrite step_fst. destruct (valid s a) eqn:V.
  - exists (a :: h). split; [apply step_valid_Inv; auto|]. right. split; [reflexivity|].
    destruct (inv_shape n mc s h I) as [Sh W]. apply legal_b_spec. rewrite <- (valid_legal_b n s a Sh W Ha). exact V.
  - exists h. split; [exact I|left; reflexivity].
Qed.

Theorem C06_run_Inv n mc sp pen acts : forall s h, 1 <= n -> 0 <= mc -> Inv n mc s h -> Forall (fun a => 0 <= a <= n) acts ->
  Forall (fun p => exists h', Inv n mc (fst p) h') (run sp mc pen s acts).
Proof.
  induction acts as [|a r IH]; intros s h Hn Hmc I F; cbn [run]; [constructor|].
  inversion F as [|x l Fa Fr]; subst.
  destruct (step_Inv_any n mc s h sp pen a Hn Hmc I Fa) as (h' & I' & _).
  constructor; [exists h'; exact I'|].
  destruct (st (snd (step sp mc pen dist s a)) =? LAST); [constructor|].
  apply (IH _ h'); auto.
Qed.

(* what the invariant says about the load: it never exceeds the capacity of the vehicle *)
Theorem C06_load_within_capacity n mc s h : Inv n mc s h ->
  load (demands s) h = mc - cap s /\ load (demands s) h <= mc /\ 0 <= cap s.
Proof. intros (I1 & I2 & I3 & I4 & I5 & I6 & I7 & _). lia. Qed.

Theorem C06_no_customer_twice n mc s h : Inv n mc s h ->
  NoDup (customers h) /\ (forall i, 1 <= i <= n -> (znth false (visited s) i = true <-> In i h)).
Proof. intros (I1 & I2 & I3 & I4 & I5 & I6 & I7 & I8 & I9 & I10 & _). split; assumption. Qed.

(* completion: when a legal node ends the episode every customer is on the route and the vehicle is at the depot *)
Theorem C06_completion n mc s h sp pen a : 1 <= n -> 0 <= mc -> Inv n mc s h -> 0 <= a <= n -> legal n s a ->
  st (snd (step sp mc pen dist s a)) = LAST ->
  a = 0 /\ pos (fst (step sp mc pen dist s a)) = 0 /\ (forall i, 1 <= i <= n -> In i h)
  /\ complete_b n (fst (step sp mc pen dist s a)) = true.
Proof.
  intros Hn Hmc I Ha Lg E.
  destruct (step_legal n mc s h sp pen a Hn Hmc I Ha Lg) as (V & I' & ST & A0).
  rewrite ST in *. cbn [fst snd] in *.
  destruct (all_visited (update mc s a)) eqn:AV; [|discriminate E].
  specialize (A0 eq_refl). subst a.
  destruct I' as (J1 & J2 & J3 & J4 & J5 & J6 & J7 & J8 & J9 & J10 & J11 & J12 & J13).
  unfold all_visited in AV. rewrite all_true_znth in AV.
  assert (C : forall i, 1 <= i <= n -> In i h).
  { intros i Hi. specialize (AV i ltac:(lia)). apply J8 in AV; [|lia]. destruct AV as [AV|AV]; [lia|exact AV]. }
  repeat split; auto.
  unfold complete_b. apply andb_true_iff. split; [|reflexivity].
  apply forallb_forall. intros i Hi. apply in_zrange_from in Hi. apply AV. lia.
Qed.

(* ---------- C11: structural horizon 2n ---------- *)
Theorem C11_horizon n mc sp pen acts : forall s h, 1 <= n -> 0 <= mc -> Inv n mc s h -> zlen h < 2 * n ->
  Forall (fun a => 0 <= a <= n) acts ->
  zlen (run sp mc pen s acts) <= 2 * n - zlen h
  /\ (2 * n - zlen h <= zlen acts -> ended (run sp mc pen s acts)).
Proof.
  induction acts as [|a r IH]; intros s h Hn Hmc I L F; cbn [run].
  - unfold zlen in *. cbn [length]. split; [lia|intro X; exfalso; lia].
  - inversion F as [|x l Fa Fr]; subst. rewrite !zlen_cons.
    destruct (st (snd (step sp mc pen dist s a)) =? LAST) eqn:E.
    + unfold zlen at 1. cbn [length]. split; [lia|]. intros _. unfold ended. cbn [last]. lia.
    + assert (E' : st (snd (step sp mc pen dist s a)) <> LAST) by lia.
      unfold step in E'. rewrite step_st in E'. fold (step sp mc pen dist s a) in E'.
      destruct (all_visited (fst (step sp mc pen dist s a))) eqn:AV; [cbn [orb] in E'; congruence|].
      destruct (valid s a) eqn:V; [|cbn in E'; congruence].
      pose proof (step_valid_Inv n mc s h a Hn Hmc I Fa V) as I'.
      assert (FS : fst (step sp mc pen dist s a) = update mc s a) by (unfold step; rewrite step_fst, V; reflexivity).
      rewrite FS in *.
      assert (L' : zlen (a :: h) < 2 * n).
      { destruct (Z_lt_ge_dec (zlen (a :: h)) (2 * n)) as [X|X]; [exact X|exfalso].
        destruct (inv_full n mc _ _ ltac:(lia) I' ltac:(lia)) as [P C].
        rewrite (inv_complete_all_visited n mc _ _ ltac:(lia) I' P C) in AV. discriminate. }
      destruct (IH (update mc s a) (a :: h) Hn Hmc I' L' Fr) as [B1 B2]. rewrite zlen_cons in *.
      split; [lia|]. intro X. apply ended_cons. apply B2. lia.
Qed.

(* ---------- C08: telescoping over the abstract distance ---------- *)
(* forward reading of the route: consecutive legs of a list of nodes *)
Fixpoint path_len (l : list Z) : Z :=
  match l with
  | x :: t => match t with y :: _ => dist x y + path_len t | [] => 0 end
  | [] => 0
  end.
Fixpoint lastx (x : Z) (l : list Z) : Z := match l with [] => x | y :: t => lastx y t end.

Lemma path_len_cons2 x y t : path_len (x :: y :: t) = dist x y + path_len (y :: t).
Proof. reflexivity. Qed.

Lemma path_len_snoc l : forall x a, path_len (x :: l ++ [a]) = path_len (x :: l) + dist (lastx x l) a.
Proof.
  induction l as [|y l IH]; intros x a.
  - cbn [app lastx]. rewrite path_len_cons2. cbn [path_len]. lia.
  - cbn [app lastx]. rewrite !path_len_cons2. rewrite IH. lia.
Qed.

Lemma lastx_snoc l : forall x a, lastx x (l ++ [a]) = a.
Proof. induction l as [|y l IH]; intros x a; cbn [app lastx]; auto. Qed.

Lemma lastx_rev h : lastx 0 (rev h) = hd 0 h.
Proof. destruct h as [|a h]; [reflexivity|]. cbn [rev hd]. apply lastx_snoc. Qed.

Lemma rlen_path h : rlen dist h = path_len (0 :: rev h).
Proof.
  induction h as [|a h IH]; [reflexivity|].
  cbn [rlen rev]. rewrite path_len_snoc, lastx_rev, IH. lia.
Qed.

Lemma path_len_zeros k : forall x l,
  path_len (x :: l ++ repeat 0 k) = path_len (x :: l) + match k with O => 0 | S _ => dist (lastx x l) 0 end.
Proof.
  induction k as [|k IH]; intros x l.
  - cbn [repeat]. rewrite app_nil_r. lia.
  - cbn [repeat]. replace (l ++ 0 :: repeat 0 k) with ((l ++ [0]) ++ repeat 0 k) by (rewrite <- app_assoc; reflexivity).
    rewrite IH, path_len_snoc, lastx_snoc. destruct k; [lia|rewrite dist00; lia].
Qed.

Lemma lastx_zeros k : forall x l, lastx x (l ++ repeat 0 (S k)) = 0.
Proof.
  induction k as [|k IH]; intros x l.
  - cbn [repeat]. apply lastx_snoc.
  - change (repeat 0 (S (S k))) with (0 :: repeat 0 (S k)).
    replace (l ++ 0 :: repeat 0 (S k)) with ((l ++ [0]) ++ repeat 0 (S k)) by (rewrite <- app_assoc; reflexivity).
    apply IH.
Qed.

Lemma zsum_roll r : forall x y, zsum (map2 dist (x :: r) (r ++ [y])) = path_len (x :: r) + dist (lastx x r) y.
Proof.
  induction r as [|z r IH]; intros x y.
  - cbn [app map2 zsum lastx path_len]. lia.
  - cbn [app lastx]. rewrite path_len_cons2.
    change (map2 dist (x :: z :: r) (z :: r ++ [y])) with (dist x z :: map2 dist (z :: r) (r ++ [y])).
    cbn [zsum]. rewrite IH. lia.
Qed.

(* the code's tour_length of the 2n-slot trajectory array IS the length of the route driven, return leg included;
   this covers the (2n+1)-th visit whose write is dropped *)
Theorem tour_length_route L h t : traj_ok L h t -> tour_length dist t = route_len dist h.
Proof.
  unfold route_len. intros [[H1 H2]|[H1 [H2 H3]]]; subst t.
  - unfold tour_length. rewrite <- app_comm_cons. unfold roll1. rewrite zsum_roll.
    destruct (Z.to_nat (L - 1 - zlen h)) as [|k].
    + cbn [repeat]. rewrite app_nil_r. rewrite lastx_rev, <- rlen_path. reflexivity.
    + rewrite path_len_zeros, lastx_zeros, lastx_rev, <- rlen_path, dist00. lia.
  - destruct h as [|x h]; [cbn in H2; lia|]. cbn [hd] in H2. subst x. cbn [tl].
    unfold tour_length, roll1. rewrite zsum_roll. rewrite lastx_rev, <- rlen_path.
    cbn [rlen hd]. rewrite dist00. lia.
Qed.

Lemma ret_cons p tr : ret (p :: tr) = zsum (reward (snd p)) + ret tr.
Proof. reflexivity. Qed.

(* dense rewards telescope along ANY mask-respecting play (complete or not) *)
Theorem C08_dense_partial n mc pen acts : forall s h, 1 <= n -> 0 <= mc -> Inv n mc s h -> legal_run n mc s acts ->
  ret (run false mc pen s acts) = rlen dist h - rlen dist (rev acts ++ h).
Proof.
  induction acts as [|a r IH]; intros s h Hn Hmc I LR.
  - cbn [run rev app]. unfold ret. cbn [map zsum]. lia.
  - cbn [legal_run] in LR. destruct LR as (Ha & Lg & K).
    destruct (step_legal n mc s h false pen a Hn Hmc I Ha Lg) as (V & I' & ST & A0).
    cbn [run]. rewrite ST. cbn [fst snd]. rewrite ret_cons. cbn [snd].
    destruct I as (I1 & I2 & I3 & I4 & _).
    destruct (all_visited (update mc s a)) eqn:AV.
    + subst r. cbn [cond_done termination st reward]. replace (LAST =? LAST) with true by reflexivity.
      cbn [rev app rlen zsum]. unfold ret. cbn [map zsum]. rewrite I4. lia.
    + cbn [cond_done transition st reward]. replace (MID =? LAST) with false by reflexivity.
      rewrite (IH _ (a :: h) Hn Hmc I' K). cbn [rev]. rewrite <- app_assoc. cbn [app rlen zsum]. rewrite I4. lia.
Qed.

(* on a mask-respecting play that completes the tour, the dense return, the sparse return and minus the documented
   objective (route length including the return to the depot) coincide *)
Theorem C08_complete n mc pen acts : forall s h, 1 <= n -> 0 <= mc -> Inv n mc s h -> complete_run n mc s acts ->
  ret (run false mc pen s acts) = rlen dist h - route_len dist (rev acts ++ h)
  /\ ret (run true mc pen s acts) = - route_len dist (rev acts ++ h)
  /\ ended (run false mc pen s acts) /\ ended (run true mc pen s acts)
  /\ hd 0 (rev acts ++ h) = 0.
Proof.
  induction acts as [|a r IH]; intros s h Hn Hmc I CR; [contradiction|].
  cbn [complete_run] in CR. destruct CR as (Ha & Lg & K).
  destruct (step_legal n mc s h false pen a Hn Hmc I Ha Lg) as (V & I' & STd & A0).
  destruct (step_legal n mc s h true pen a Hn Hmc I Ha Lg) as (_ & _ & STs & _).
  cbn [run]. rewrite STd, STs. cbn [fst snd]. rewrite !ret_cons. cbn [snd].
  pose proof I as (I1 & I2 & I3 & I4 & _).
  destruct (all_visited (update mc s a)) eqn:AV.
  - subst r. specialize (A0 eq_refl). subst a.
    cbn [cond_done termination st reward]. replace (LAST =? LAST) with true by reflexivity.
    assert (T : traj_ok (2 * n) (0 :: h) (traj (update mc s 0))) by apply I'.
    rewrite (tour_length_route _ _ _ T).
    cbn [rev app]. unfold route_len. cbn [rlen hd zsum]. unfold ret. cbn [map zsum]. rewrite I4, dist00.
    repeat split; try lia; reflexivity.
  - cbn [cond_done transition st reward]. replace (MID =? LAST) with false by reflexivity.
    destruct (IH _ (a :: h) Hn Hmc I' K) as (D & S & E1 & E2 & H0).
    cbn [rev]. rewrite <- app_assoc. cbn [app]. rewrite D, S. cbn [rlen zsum]. rewrite I4.
    repeat split; try lia; try (apply ended_cons; assumption); try exact H0.
Qed.

(* ---------- C09: the model of the code computes the published rules ---------- *)
Lemma all_visited_complete n mc s h : 0 <= n -> Inv n mc s h -> all_visited s = complete_b n s.
Proof.
  intros Hn (I1 & I2 & I3 & I4 & I5 & I6 & I7 & I8 & I9 & _).
  apply Bool.eq_iff_eq_true. unfold all_visited, complete_b.
  rewrite all_true_znth, andb_true_iff, forallb_forall. split.
  - intro H. split.
    + intros i Hi. apply in_zrange_from in Hi. apply H. lia.
    + rewrite <- I9. apply H. lia.
  - intros [H1 H2] i Hi. destruct (Z.eq_dec i 0) as [->|N].
    + rewrite I9. exact H2.
    + apply H1. apply in_zrange_from. lia.
Qed.

Lemma update_visit n mc s h a : Inv n mc s h -> 0 <= a <= n -> update mc s a = visit n mc s a.
Proof.
  intros (I1 & I2 & I3 & I4 & I5 & I6 & I7 & I8 & I9 & I10 & I11 & I12 & I13) Ha.
  pose proof (traj_ok_len _ _ _ I13) as TL. pose proof (zlen_nonneg h) as Hh.
  unfold update, visit. f_equal.
  - rewrite jget_znth by lia. reflexivity.
  - assert (L0 : zlen (jset (visited s) 0 false) = n + 1) by (rewrite zlen_jset; exact I2).
    rewrite jset_zupd by lia. rewrite jset_zupd by lia. reflexivity.
  - destruct (nvis s <? 2 * n) eqn:E.
    + apply jset_zupd. lia.
    + apply jset_oob. lia.
Qed.

Theorem C09_step_is_rules n mc s h sp pen a : 1 <= n -> 0 <= mc -> Inv n mc s h -> 0 <= a <= n ->
  step sp mc pen dist s a = step_rules sp n mc pen dist s a.
Proof.
  intros Hn Hmc I Ha. unfold step_rules. destruct (legal_b n s a) eqn:LB.
  - apply legal_b_spec in LB.
    destruct (step_legal n mc s h sp pen a Hn Hmc I Ha LB) as (V & I' & ST & A0).
    rewrite ST. rewrite <- (update_visit n mc s h a I Ha).
    rewrite <- (all_visited_complete n mc _ _ ltac:(lia) I').
    destruct (all_visited (update mc s a)); destruct sp; reflexivity.
  - apply (C05_illegal_node n mc s h sp pen a I Ha).
    intro L. apply legal_b_spec in L. congruence.
Qed.

(* ---------- C12 ---------- *)
Theorem C12_observation n s : shape n s ->
  observe s = (demands s, map negb (visited s), pos s, traj s, cap s, mask s)
  /\ zlen (mask s) = n + 1 /\ (forall a, 0 <= a <= n -> jget false (mask s) a = legal_b n s a).
Proof.
  intro Sh. split; [reflexivity|]. split; [apply (mask_len n s Sh)|]. intros a Ha. apply (mask_legal_b n s a Sh Ha).
Qed.

(* ---------- C01: declared ranges ---------- *)
Lemma znth_Forall (P : Z -> Prop) d l i : P d -> Forall P l -> P (znth d l i).
Proof.
  intros Pd F. unfold znth. destruct (i <? 0); [exact Pd|].
  destruct (Nat.lt_ge_cases (Z.to_nat i) (length l)) as [L|L].
  - rewrite Forall_forall in F. apply F. apply nth_In. exact L.
  - rewrite nth_overflow by exact L. exact Pd.
Qed.

Lemma load_nonneg dem h : Forall (fun d => 0 <= d) dem -> 0 <= load dem h.
Proof.
  intro F. induction h as [|a h IH]; cbn [load]; [lia|].
  destruct (a =? 0); [lia|]. pose proof (znth_Forall (fun d => 0 <= d) 0 dem a (Z.le_refl 0) F) as H. cbn beta in H. lia.
Qed.

Theorem C01_ranges n mc s h : 1 <= n -> Inv n mc s h -> Forall (fun d => 0 <= d <= mc) (demands s) ->
  ranges_b n mc s = true.
Proof.
  intros Hn (I1 & I2 & I3 & I4 & I5 & I6 & I7 & I8 & I9 & I10 & I11 & I12 & I13) FD.
  pose proof (traj_ok_len _ _ _ I13) as TL.
  assert (LN : 0 <= load (demands s) h).
  { apply load_nonneg. eapply Forall_impl; [|exact FD]. cbn beta. intros; lia. }
  assert (PR : 0 <= pos s <= n).
  { rewrite I4. destruct h as [|x h]; cbn [hd]; [lia|]. inversion I5; subst. lia. }
  assert (FR : Forall (fun x => 0 <= x <= n + 1) (rev h)).
  { apply Forall_rev. eapply Forall_impl; [|exact I5]. cbn beta. intros; lia. }
  assert (FT : Forall (fun x => 0 <= x <= n + 1) (traj s)).
  { destruct I13 as [[H1 H2]|[H1 [H2 H3]]].
    - rewrite H2. apply Forall_app. split; [constructor; [lia|exact FR]|].
      apply Forall_forall. intros x Hx. apply repeat_spec in Hx. lia.
    - rewrite H3. constructor; [lia|]. apply Forall_rev. destruct h as [|x h]; cbn [tl]; [constructor|].
      inversion I5; subst. eapply Forall_impl; [|eassumption]. cbn beta. intros; lia. }
  unfold ranges_b. rewrite !andb_true_iff. repeat split; try lia.
  - apply forallb_forall. rewrite Forall_forall in FD. intros x Hx. specialize (FD x Hx). lia.
  - apply forallb_forall. rewrite Forall_forall in FT. intros x Hx. specialize (FT x Hx). lia.
Qed.

Lemma step_demands rnd sp mc pen s a : demands (fst (step_r rnd sp mc pen dist s a)) = demands s.
Proof. rewrite step_fst. destruct (valid s a); reflexivity. Qed.

End Oracle.

(* ---------- C10: every draw of the generator gives a well-formed instance ---------- *)
Theorem C10_init_wf n mc maxd sc draw coords : 1 <= n -> 0 <= mc -> maxd <= mc ->
  valid_draw n maxd sc draw coords = true ->
  let s0 := fst (init n mc draw) in
  Inv n mc s0 [] /\ znth 0 (demands s0) 0 = 0
  /\ (forall i, 1 <= i <= n -> 1 <= znth 0 (demands s0) i <= maxd /\ znth 0 (demands s0) i <= mc)
  /\ cap s0 = mc /\ pos s0 = 0 /\ nvis s0 = 1 /\ traj s0 = repeat 0 (Z.to_nat (2 * n))
  /\ (forall x, In x coords -> 0 <= x < sc) /\ zlen coords = 2 * (n + 1)
  /\ snd (init n mc draw) = restart 1.
Proof.
  intros Hn Hmc Hd VD s0. unfold valid_draw in VD. rewrite !andb_true_iff in VD.
  destruct VD as [[[V1 V2] V3] V4]. assert (L : zlen draw = n + 1) by lia.
  pose proof (init_Inv n mc draw Hn Hmc L) as I. fold s0 in I.
  split; [exact I|]. split; [apply I|].
  split.
  { intros i Hi. unfold s0, init. cbn [fst demands]. rewrite jset_zupd by lia. rewrite znth_zupd_other by lia.
    rewrite forallb_forall in V2. rewrite znth_nth by lia.
    assert (X : In (nth (Z.to_nat i) draw 0) draw) by (apply nth_In; unfold zlen in L; lia).
    specialize (V2 _ X). lia. }
  repeat split; try reflexivity; try lia.
  - rewrite forallb_forall in V4. specialize (V4 x H). lia.
  - rewrite forallb_forall in V4. specialize (V4 x H). lia.
Qed.

(* ---------- soundness of the boolean checker run on implementation states ---------- *)
Lemma mem_In l i : mem l i = true <-> In i l.
Proof.
  unfold mem. rewrite existsb_exists. split.
  - intros (x & Hx & E). assert (i = x) by lia. subst. exact Hx.
  - intro H. exists i. split; [exact H|lia].
Qed.

Lemma nodup_b_NoDup l : nodup_b l = true -> NoDup l.
Proof.
  induction l as [|x l IH]; intro H; [constructor|].
  cbn [nodup_b] in H. apply andb_true_iff in H as [H1 H2]. constructor; [|apply IH; exact H2].
  intro Hin. apply mem_In in Hin. rewrite Hin in H1. discriminate.
Qed.

Lemma traj_ok_b_sound L h t : traj_ok_b L h t = true -> traj_ok L h t.
Proof.
  unfold traj_ok_b, traj_ok. intro H. apply orb_true_iff in H as [H|H].
  - left. apply andb_true_iff in H as [H1 H2]. split; [lia|]. apply (list_eqb_eq Z.eqb Z.eqb_eq). exact H2.
  - right. apply andb_true_iff in H as [H H3]. apply andb_true_iff in H as [H1 H2].
    repeat split; try lia. apply (list_eqb_eq Z.eqb Z.eqb_eq). exact H3.
Qed.

Theorem Inv_b_sound n mc s h : Inv_b n mc s h = true -> Inv n mc s h.
Proof.
  unfold Inv_b, Inv. rewrite !andb_true_iff.
  intros ((((((((((((B1 & B2) & B3) & B4) & B5) & B6) & B7) & B8) & B9) & B10) & B11) & B12) & B13).
  repeat split; try lia.
  - apply Forall_forall. rewrite forallb_forall in B5. intros x Hx. specialize (B5 x Hx). lia.
  - intro Hv. rewrite forallb_forall in B8. assert (Hi : In i (zrange_from 1 (Z.to_nat n))) by (apply in_zrange_from; lia).
    specialize (B8 i Hi). apply Bool.eqb_prop in B8. rewrite Hv in B8. apply mem_In. symmetry. exact B8.
  - intro Hin. rewrite forallb_forall in B8. assert (Hi : In i (zrange_from 1 (Z.to_nat n))) by (apply in_zrange_from; lia).
    specialize (B8 i Hi). apply Bool.eqb_prop in B8. rewrite B8. apply mem_In. exact Hin.
  - apply Bool.eqb_prop. exact B9.
  - apply nodup_b_NoDup. exact B10.
  - apply traj_ok_b_sound. exact B13.
Qed.

(* what a green Feasible_b on an implementation state means *)
Theorem Feasible_b_sound n mc s : Feasible_b n mc s = true -> Inv n mc s (hist_of n s).
Proof. apply Inv_b_sound. Qed.
