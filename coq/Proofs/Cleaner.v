(* Cleaner: list / grid library, JAX scatter-gather facts, the mask is the table of legal moves (C04),
   the invariant Inv is preserved by every step (C07), Impl step = Rules reference step (C09),
   illegal moves (C05), return telescoping (C08), time limit (C11), generator adapter (C10),
   spec bounds (C01), protocol (C03), observation (C12).                                               *)
Require Import JV.Base.Prelude JV.Base.JaxIndex JV.Base.Codec JV.Base.TimeStep JV.Model.Cleaner.

(* ---------- list facts ---------- *)
Lemma znth_nth {A} (d : A) l i : 0 <= i -> znth d l i = nth (Z.to_nat i) l d.
Proof. intro H. unfold znth. destruct (i <? 0) eqn:E; [lia|reflexivity]. Qed.

Lemma znth_of_nat {A} (d : A) l n : znth d l (Z.of_nat n) = nth n l d.
Proof. rewrite znth_nth by lia. rewrite Nat2Z.id. reflexivity. Qed.

Lemma znth_oob {A} (d : A) l i : zlen l <= i -> znth d l i = d.
Proof.
  intro H. pose proof (zlen_nonneg l). rewrite znth_nth by lia. apply nth_overflow. unfold zlen in *. lia.
Qed.

Lemma znth_neg {A} (d : A) l i : i < 0 -> znth d l i = d.
Proof. intro H. unfold znth. destruct (i <? 0) eqn:E; [reflexivity|lia]. Qed.

Lemma znth_In {A} (d : A) l i : 0 <= i < zlen l -> In (znth d l i) l.
Proof. intro H. rewrite znth_nth by lia. apply nth_In. unfold zlen in *. lia. Qed.

Lemma znth_map {A B} (f : A -> B) (d : A) (d' : B) l i :
  0 <= i < zlen l -> znth d' (map f l) i = f (znth d l i).
Proof.
  intro H. rewrite !znth_nth by lia.
  rewrite (nth_indep _ d' (f d)) by (rewrite map_length; unfold zlen in *; lia).
  apply map_nth.
Qed.

Lemma zlen_map {A B} (f : A -> B) l : zlen (map f l) = zlen l.
Proof. unfold zlen. rewrite map_length. reflexivity. Qed.

Lemma zlen_zrange n : 0 <= n -> zlen (zrange n) = n.
Proof. intro H. unfold zlen, zrange. rewrite zrange_from_length. lia. Qed.

Lemma znth_zrange n i : 0 <= i < n -> znth 0 (zrange n) i = i.
Proof.
  intro H. rewrite znth_nth by lia. unfold zrange. rewrite zrange_from_nth by lia. lia.
Qed.

Lemma Forall_znth {A} (P : A -> Prop) d l i : Forall P l -> 0 <= i < zlen l -> P (znth d l i).
Proof. intros F H. rewrite Forall_forall in F. apply F. apply znth_In. exact H. Qed.

Lemma Forall_upd {A} (P : A -> Prop) n v l : Forall P l -> P v -> Forall P (upd n v l).
Proof.
  intros F Pv. revert n. induction F as [|x l Px F IH]; intros [|n]; cbn [upd]; auto.
Qed.

Lemma Forall_zupd {A} (P : A -> Prop) i v l : Forall P l -> P v -> Forall P (zupd i v l).
Proof. intros F Pv. unfold zupd. destruct (i <? 0); auto using Forall_upd. Qed.

Lemma zlen_zupd {A} i (v : A) l : zlen (zupd i v l) = zlen l.
Proof. unfold zlen. rewrite zupd_length. reflexivity. Qed.

Lemma znth_zupd {A} (d : A) i j v l :
  0 <= i < zlen l -> 0 <= j -> znth d (zupd i v l) j = if j =? i then v else znth d l j.
Proof.
  intros Hi Hj. rewrite !znth_nth by lia. unfold zupd. destruct (i <? 0) eqn:E; [lia|].
  destruct (j =? i) eqn:E2.
  - assert (j = i) by lia. subst j. apply nth_upd_same. unfold zlen in *. lia.
  - apply nth_upd_other. lia.
Qed.

(* tabulation: a list is the table of its own entries *)
Lemma nth_map_zrange {A} (f : Z -> A) d N n : (n < Z.to_nat N)%nat -> nth n (map f (zrange N)) d = f (Z.of_nat n).
Proof.
  intro H. rewrite (nth_indep (map f (zrange N)) d (f 0)).
  2:{ rewrite map_length. unfold zrange. rewrite zrange_from_length. lia. }
  rewrite (map_nth f). unfold zrange. rewrite zrange_from_nth by lia. reflexivity.
Qed.

Lemma list_tabulate {A} (d : A) l : l = map (fun i => znth d l i) (zrange (zlen l)).
Proof.
  apply (nth_ext _ _ d d).
  - rewrite map_length. unfold zrange. rewrite zrange_from_length. unfold zlen. lia.
  - intros n Hn. rewrite nth_map_zrange by (unfold zlen; lia). rewrite znth_of_nat. reflexivity.
Qed.

Lemma znth_tab {A} (f : Z -> A) d n i : 0 <= i < n -> znth d (map f (zrange n)) i = f i.
Proof.
  intro H. rewrite (znth_map f 0) by (rewrite zlen_zrange; lia). rewrite znth_zrange by lia. reflexivity.
Qed.

Lemma Forall2_nth_intro {A B} (P : A -> B -> Prop) da db (a : list A) (b : list B) :
  length a = length b -> (forall i, (i < length a)%nat -> P (nth i a da) (nth i b db)) -> Forall2 P a b.
Proof.
  revert b; induction a as [|x a IH]; intros [|y b] L H; cbn in L; try lia; constructor.
  - apply (H 0%nat). cbn. lia.
  - apply IH; [lia|]. intros i Hi. apply (H (S i)). cbn. lia.
Qed.

(* ---------- map2 ---------- *)
Lemma map2_length {A B C} (f : A -> B -> C) a b : length a = length b -> length (map2 f a b) = length a.
Proof. revert b; induction a as [|x a IH]; intros [|y b] L; cbn in *; try lia. rewrite IH; lia. Qed.

Lemma zlen_map2 {A B C} (f : A -> B -> C) a b : zlen a = zlen b -> zlen (map2 f a b) = zlen a.
Proof. unfold zlen. intro H. rewrite map2_length; lia. Qed.

Lemma map2_map_l {A A' B C} (f : A' -> B -> C) (h : A -> A') a b :
  map2 f (map h a) b = map2 (fun x y => f (h x) y) a b.
Proof. revert b; induction a as [|x a IH]; intros [|y b]; cbn; auto. rewrite IH. reflexivity. Qed.

Lemma map2_ext_r {A B C} (P : B -> Prop) (f g : A -> B -> C) a b :
  Forall P b -> (forall x y, P y -> f x y = g x y) -> map2 f a b = map2 g a b.
Proof.
  intros F H. revert a. induction F as [|y b Py F IH]; intros [|x a]; cbn; auto.
  rewrite H by exact Py. rewrite IH. reflexivity.
Qed.

Lemma map2_ext {A B C} (f g : A -> B -> C) a b : (forall x y, f x y = g x y) -> map2 f a b = map2 g a b.
Proof. intro H. revert b; induction a as [|x a IH]; intros [|y b]; cbn; auto. rewrite H, IH. reflexivity. Qed.

Lemma nth_map2 {A B C} (f : A -> B -> C) da db dc a b i :
  (i < length a)%nat -> length a = length b -> nth i (map2 f a b) dc = f (nth i a da) (nth i b db).
Proof.
  revert b i; induction a as [|x a IH]; intros [|y b] [|i] Hi L; cbn in *; try lia; auto.
  apply IH; lia.
Qed.

Lemma znth_map2 {A B C} (f : A -> B -> C) da db dc a b i :
  0 <= i < zlen a -> zlen a = zlen b -> znth dc (map2 f a b) i = f (znth da a i) (znth db b i).
Proof.
  intros Hi L. rewrite !znth_nth by lia. apply nth_map2; unfold zlen in *; lia.
Qed.

Lemma Forall_map2 {A B C} (P : A -> Prop) (Q : C -> Prop) (f : A -> B -> C) a b :
  Forall P a -> (forall x y, P x -> Q (f x y)) -> Forall Q (map2 f a b).
Proof.
  intros F H. revert b. induction F as [|x a Px F IH]; intros [|y b]; cbn; auto.
Qed.

(* ---------- grids ---------- *)
Lemma dims_row g R C r : dims g R C -> 0 <= r < R -> zlen (znth [] g r) = C.
Proof. intros [L F] H. apply (Forall_znth (fun row => zlen row = C)); [exact F|lia]. Qed.

Lemma gget_gat {A} (d : A) g R C r c :
  zlen g = R -> zlen (znth [] g r) = C -> 0 <= r < R -> 0 <= c < C -> gget d g r c = gat d g r c.
Proof.
  intros L Lr Hr Hc. unfold gget, gat.
  rewrite (jget_in_range [] g r) by lia. rewrite <- (znth_nth [] g r) by lia.
  rewrite jget_in_range by lia. rewrite <- znth_nth by lia. reflexivity.
Qed.

Lemma gat_Forall {A} (P : A -> Prop) d (g : list (list A)) r c :
  Forall (Forall P) g -> 0 <= r < zlen g -> 0 <= c < zlen (znth [] g r) -> P (gat d g r c).
Proof.
  intros F Hr Hc. unfold gat. apply Forall_znth; [|exact Hc].
  apply (Forall_znth (Forall P)); assumption.
Qed.

Lemma gset_in_range g R C r c v :
  dims g R C -> 0 <= r < R -> 0 <= c < C -> gset g r c v = zupd r (zupd c v (znth [] g r)) g.
Proof.
  intros D Hr Hc. pose proof (dims_row g R C r D Hr) as Lr. destruct D as [L F].
  unfold gset, jnorm. rewrite L.
  destruct (r <? 0) eqn:E; [lia|].
  replace ((0 <=? r) && (r <? R)) with true by lia. cbv zeta. rewrite Lr.
  destruct (c <? 0) eqn:E2; [lia|].
  replace ((0 <=? c) && (c <? C)) with true by lia. reflexivity.
Qed.

Lemma gset_values (P : Z -> Prop) g r c v : Forall (Forall P) g -> P v -> Forall (Forall P) (gset g r c v).
Proof.
  intros F Pv. unfold gset.
  destruct ((0 <=? jnorm (zlen g) r) && (jnorm (zlen g) r <? zlen g)) eqn:E1; [|exact F].
  cbv zeta.
  match goal with |- context [if ?b then _ else _] => destruct b eqn:E2 end; [|exact F].
  apply Forall_zupd; [exact F|]. apply Forall_zupd; [|exact Pv].
  apply (Forall_znth (Forall P)); [exact F|lia].
Qed.

Lemma dims_gset g R C r c v : dims g R C -> 0 <= r < R -> 0 <= c < C -> dims (gset g r c v) R C.
Proof.
  intros D Hr Hc. rewrite (gset_in_range g R C) by assumption.
  pose proof (dims_row g R C r D Hr) as Lr. destruct D as [L F]. split.
  - rewrite zlen_zupd. exact L.
  - apply Forall_zupd; [exact F|]. rewrite zlen_zupd. exact Lr.
Qed.

Lemma gat_gset g R C r c v r' c' :
  dims g R C -> 0 <= r < R -> 0 <= c < C -> 0 <= r' < R -> 0 <= c' < C ->
  gat 0 (gset g r c v) r' c' = if (r' =? r) && (c' =? c) then v else gat 0 g r' c'.
Proof.
  intros D Hr Hc Hr' Hc'. rewrite (gset_in_range g R C) by assumption.
  pose proof (dims_row g R C r D Hr) as Lr. destruct D as [L F].
  unfold gat. rewrite znth_zupd by lia.
  destruct (r' =? r) eqn:E1; cbn [andb]; [|reflexivity].
  rewrite znth_zupd by lia. assert (r' = r) by lia. subst r'.
  destruct (c' =? c); reflexivity.
Qed.

(* a tabulated grid *)
Definition tab {A} (R C : Z) (f : Z -> Z -> A) : list (list A) :=
  map (fun r => map (fun k => f r k) (zrange C)) (zrange R).

Lemma gat_tab {A} (d : A) R C f r k : 0 <= r < R -> 0 <= k < C -> gat d (tab R C f) r k = f r k.
Proof.
  intros Hr Hk. unfold gat, tab. rewrite (znth_tab _ [] R r) by lia. rewrite znth_tab by lia. reflexivity.
Qed.

Lemma grid_tabulate g R C : dims g R C -> g = tab R C (fun r k => gat 0 g r k).
Proof.
  intros [L F]. unfold tab. rewrite (list_tabulate [] g) at 1. rewrite L.
  apply map_ext_in. intros r Hr. apply in_zrange in Hr.
  rewrite (list_tabulate 0 (znth [] g r)) at 1.
  replace (zlen (znth [] g r)) with C.
  2:{ symmetry. apply (Forall_znth (fun row => zlen row = C)); [exact F|lia]. }
  reflexivity.
Qed.

Lemma grid_ext g g' R C :
  dims g R C -> dims g' R C ->
  (forall r k, 0 <= r < R -> 0 <= k < C -> gat 0 g r k = gat 0 g' r k) -> g = g'.
Proof.
  intros D D' H. rewrite (grid_tabulate g R C D), (grid_tabulate g' R C D'). unfold tab.
  apply map_ext_in. intros r Hr. apply in_zrange in Hr.
  apply map_ext_in. intros k Hk. apply in_zrange in Hk. apply H; lia.
Qed.

Lemma grid_Forall2 (P : Z -> Z -> Prop) g g' R C :
  dims g R C -> dims g' R C ->
  (forall r k, 0 <= r < R -> 0 <= k < C -> P (gat 0 g r k) (gat 0 g' r k)) -> Forall2 (Forall2 P) g g'.
Proof.
  intros D D' H. pose proof D as [L F]. pose proof D' as [L' F'].
  apply (Forall2_nth_intro _ [] []); [unfold zlen in *; lia|].
  intros i Hi.
  assert (Hr : 0 <= Z.of_nat i < R) by (unfold zlen in *; lia).
  pose proof (dims_row g R C _ D Hr) as Lr. pose proof (dims_row g' R C _ D' Hr) as Lr'.
  rewrite znth_of_nat in Lr, Lr'.
  apply (Forall2_nth_intro _ 0 0); [unfold zlen in *; lia|].
  intros j Hj.
  assert (Hk : 0 <= Z.of_nat j < C) by (unfold zlen in *; lia).
  specialize (H _ _ Hr Hk). unfold gat in H. rewrite !znth_of_nat in H. exact H.
Qed.

(* ---------- scatter of CLEAN over the agents' cells ---------- *)
Definition in_grid (R C : Z) (p : Z * Z) : Prop := 0 <= fst p < R /\ 0 <= snd p < C.

Lemma clean_all_cons g p ls : clean_all g (p :: ls) = clean_all (gset g (fst p) (snd p) CLEAN) ls.
Proof. reflexivity. Qed.

Lemma clean_all_spec R C ls : forall g,
  dims g R C -> Forall (in_grid R C) ls ->
  dims (clean_all g ls) R C /\
  forall r k, 0 <= r < R -> 0 <= k < C ->
    gat 0 (clean_all g ls) r k = if occupied ls r k then CLEAN else gat 0 g r k.
Proof.
  induction ls as [|p ls IH]; intros g D F.
  - split; [exact D|]. intros; reflexivity.
  - inversion F as [|p' ls' [Hr Hc] F']; subst. rewrite clean_all_cons.
    destruct (IH (gset g (fst p) (snd p) CLEAN) (dims_gset g R C _ _ _ D Hr Hc) F') as [D' G'].
    split; [exact D'|]. intros r k Hr' Hk'. rewrite G' by assumption.
    unfold occupied. cbn [existsb]. fold (occupied ls r k).
    rewrite (gat_gset g R C) by assumption.
    destruct (occupied ls r k); [rewrite orb_true_r; reflexivity|]. rewrite orb_false_r.
    rewrite (Z.eqb_sym (fst p) r), (Z.eqb_sym (snd p) k). reflexivity.
Qed.

Lemma clean_all_values (P : Z -> Prop) ls : forall g, Forall (Forall P) g -> P CLEAN -> Forall (Forall P) (clean_all g ls).
Proof.
  induction ls as [|p ls IH]; intros g F Pc; [exact F|]. rewrite clean_all_cons.
  apply IH; [|exact Pc]. apply gset_values; assumption.
Qed.

Lemma occupied_In ls p : In p ls -> occupied ls (fst p) (snd p) = true.
Proof.
  intro H. unfold occupied. apply existsb_exists. exists p. split; [exact H|]. lia.
Qed.

Lemma occupied_ex ls r k : occupied ls r k = true -> exists p, In p ls /\ fst p = r /\ snd p = k.
Proof.
  unfold occupied. intro H. apply existsb_exists in H as [p [I E]]. exists p. split; [exact I|]. lia.
Qed.

(* ---------- the mask function ---------- *)
Lemma jget_map_moves (h : Z * Z -> bool) a : jget false (map h moves) a = h (move_of a).
Proof.
  unfold jget, move_of, jget. rewrite zlen_map.
  replace (zlen moves) with 4 by reflexivity.
  pose proof (jclamp_range 4 a ltac:(lia)) as H. set (k := jclamp 4 a) in *.
  assert (E : k = 0 \/ k = 1 \/ k = 2 \/ k = 3) by lia.
  destruct E as [E|[E|[E|E]]]; rewrite E; reflexivity.
Qed.

Lemma move_of_dir a : 0 <= a < 4 -> move_of a = dir a.
Proof.
  intro H. assert (E : a = 0 \/ a = 1 \/ a = 2 \/ a = 3) by lia.
  destruct E as [E|[E|[E|E]]]; rewrite E; reflexivity.
Qed.

Lemma legal_b_spec R C g loc a : legal_b R C g loc a = true <-> legal R C g loc a.
Proof.
  unfold legal_b, legal, inb. rewrite !andb_true_iff, negb_true_iff, Z.eqb_neq. lia.
Qed.

Lemma legal_b_false R C g loc a : legal_b R C g loc a = false <-> ~ legal R C g loc a.
Proof. rewrite <- legal_b_spec. destruct (legal_b R C g loc a); split; congruence. Qed.

Lemma move_valid_legal R C g loc a :
  dims g R C -> 0 <= a < 4 -> move_valid R C g loc (move_of a) = legal_b R C g loc a.
Proof.
  intros D Ha. rewrite (move_of_dir a Ha). unfold move_valid, legal_b, inb. cbv zeta.
  set (y := fst loc + fst (dir a)). set (x := snd loc + snd (dir a)).
  destruct ((0 <=? y) && (y <? R) && ((0 <=? x) && (x <? C))) eqn:E.
  - assert (Hy : 0 <= y < R) by lia. assert (Hx : 0 <= x < C) by lia.
    rewrite (gget_gat 0 g R C) by (try apply (dims_row g R C y D Hy); try apply D; lia).
    destruct (gat 0 g y x =? WALL); lia.
  - destruct (gget 0 g y x =? WALL); destruct (gat 0 g y x =? WALL); lia.
Qed.

Lemma mask_row_legal R C g loc :
  dims g R C -> map (move_valid R C g loc) moves = map (legal_b R C g loc) (zrange 4).
Proof.
  intro D. change (zrange 4) with [0; 1; 2; 3]. unfold moves. cbn [map].
  change (-1, 0) with (move_of 0). change (0, 1) with (move_of 1) at 1.
  change (1, 0) with (move_of 2). change (0, -1) with (move_of 3).
  rewrite !(move_valid_legal R C g loc) by (assumption || lia). reflexivity.
Qed.

Lemma compute_mask_legal R C g ls :
  dims g R C -> compute_mask R C g ls = map (fun loc => map (legal_b R C g loc) (zrange 4)) ls.
Proof. intro D. unfold compute_mask. apply map_ext. intro loc. apply mask_row_legal. exact D. Qed.

(* ---------- the step under the invariant, in canonical form ---------- *)
Definition mv (R C : Z) (g : list (list Z)) (loc : Z * Z) (a : Z) : bool := move_valid R C g loc (move_of a).
Definition nl (R C : Z) (g : list (list Z)) (ls : list (Z * Z)) (acts : list Z) : list (Z * Z) :=
  map2 (fun loc a => if mv R C g loc a then padd loc (move_of a) else loc) ls acts.

Lemma valids_mask R C g ls acts : valids (compute_mask R C g ls) acts = map2 (mv R C g) ls acts.
Proof.
  unfold valids, compute_mask. rewrite map2_map_l. apply map2_ext. intros loc a.
  apply jget_map_moves.
Qed.

Lemma new_locs_nl (v : Z * Z -> Z -> bool) ls acts :
  new_locs ls (map2 v ls acts) acts = map2 (fun loc a => if v loc a then padd loc (move_of a) else loc) ls acts.
Proof.
  unfold new_locs. revert acts; induction ls as [|l ls IH]; intros [|a acts]; cbn [map2 combine]; auto.
  cbn [fst snd]. rewrite IH. reflexivity.
Qed.

Lemma step_canon c s acts :
  amask s = compute_mask (rows c) (cols c) (grid s) (locs s) ->
  step c s acts =
  let ls := nl (rows c) (cols c) (grid s) (locs s) acts in
  let g := clean_all (grid s) ls in
  (mkS g ls (compute_mask (rows c) (cols c) g ls) (cnt s + 1),
   cond_done 1 (negb (forallb (fun b => b) (map2 (mv (rows c) (cols c) (grid s)) (locs s) acts))
                || negb (any_dirty g) || (tlim c <=? cnt s + 1))
             [4 * count_changed (grid s) g - pen c]).
Proof.
  intro M. unfold step. rewrite M, valids_mask, new_locs_nl. reflexivity.
Qed.

Lemma mv_true R C g loc a :
  dims g R C -> mv R C g loc a = true ->
  in_grid R C (padd loc (move_of a)) /\ gat 0 g (fst (padd loc (move_of a))) (snd (padd loc (move_of a))) <> WALL.
Proof.
  intros D H. unfold mv, move_valid in H. cbv zeta in H. unfold padd, in_grid. cbn [fst snd].
  set (y := fst loc + fst (move_of a)) in *. set (x := snd loc + snd (move_of a)) in *.
  rewrite !andb_true_iff, negb_true_iff, Z.eqb_neq in H.
  assert (Hy : 0 <= y < R) by lia. assert (Hx : 0 <= x < C) by lia.
  rewrite (gget_gat 0 g R C) in H by (try apply (dims_row g R C y D Hy); try apply D; lia).
  split; [lia|tauto].
Qed.

(* where the agents end up: on the grid, on a cell that was not a wall *)
Definition lands (R C : Z) (g : list (list Z)) (p : Z * Z) : Prop :=
  in_grid R C p /\ gat 0 g (fst p) (snd p) <> WALL.

Lemma nl_lands R C g ls acts :
  dims g R C -> Forall (agent_ok R C g) ls -> Forall (lands R C g) (nl R C g ls acts).
Proof.
  intros D F. unfold nl. apply (Forall_map2 (agent_ok R C g)); [exact F|].
  intros loc a [Hr [Hc Hv]]. destruct (mv R C g loc a) eqn:E.
  - apply mv_true; assumption.
  - split; [split; assumption|]. rewrite Hv. unfold CLEAN, WALL. lia.
Qed.

Lemma lands_in_grid R C g ls : Forall (lands R C g) ls -> Forall (in_grid R C) ls.
Proof. intro F. eapply Forall_impl; [|exact F]. intros p [H _]. exact H. Qed.

(* ---------- C07: the invariant is preserved by EVERY joint action ---------- *)
Lemma cell_ok_clean : cell_ok CLEAN. Proof. unfold cell_ok. auto. Qed.

Theorem step_preserves_Inv c s acts :
  Inv c s -> zlen acts = nag c -> Inv c (fst (step c s acts)).
Proof.
  intros [[D [V [LA AG]]] [M N]] LAc. rewrite (step_canon c s acts M). cbv zeta.
  unfold Inv, Physical. cbn [fst grid locs amask cnt].
  set (R := rows c) in *. set (C := cols c) in *.
  pose proof (nl_lands R C (grid s) (locs s) acts D AG) as LD.
  pose proof (lands_in_grid _ _ _ _ LD) as IG.
  destruct (clean_all_spec R C _ (grid s) D IG) as [D' G'].
  split; [|split]; [|reflexivity|lia].
  split; [exact D'|]. split; [apply clean_all_values; [exact V|exact cell_ok_clean]|].
  split; [unfold nl; rewrite zlen_map2; lia|].
  apply Forall_forall. intros p Hp. rewrite Forall_forall in IG. destruct (IG p Hp) as [Hr Hc].
  split; [exact Hr|]. split; [exact Hc|]. rewrite G' by assumption. rewrite (occupied_In _ p Hp). reflexivity.
Qed.

(* ---------- C04: the stored mask is exactly the table of legal moves ---------- *)
Theorem C04_mask_iff_legal c s i a :
  Inv c s -> 0 <= i < nag c -> 0 <= a < 4 ->
  (jget false (znth [] (amask s) i) a = true <-> legal (rows c) (cols c) (grid s) (znth (0, 0) (locs s) i) a).
Proof.
  intros [[D [V [LA AG]]] [M N]] Hi Ha. rewrite M. unfold compute_mask.
  rewrite (znth_map _ (0, 0)) by lia. rewrite jget_map_moves.
  rewrite (move_valid_legal (rows c) (cols c)) by assumption. apply legal_b_spec.
Qed.

Lemma list_eqb_refl {A} (eqb : A -> A -> bool) : (forall x, eqb x x = true) -> forall l, list_eqb eqb l l = true.
Proof. intros H l; induction l as [|x l IH]; cbn; auto. rewrite H, IH. reflexivity. Qed.

Lemma mask_eqb_eq a b : mask_eqb a b = true <-> a = b.
Proof.
  unfold mask_eqb. apply list_eqb_eq. intros x y. apply list_eqb_eq. intros p q.
  destruct p, q; cbn; split; congruence.
Qed.

Theorem C04_mask_table c s : Inv c s -> mask_exact_b c s = true.
Proof.
  intros [[D _] [M _]]. unfold mask_exact_b. apply mask_eqb_eq. rewrite M. apply compute_mask_legal. exact D.
Qed.

(* the environment's own reaction: the joint action is treated as valid iff every agent's action is legal *)
Lemma forallb_map2_mv R C g ls acts :
  dims g R C -> zlen ls = zlen acts -> Forall (fun a => 0 <= a < 4) acts ->
  (forallb (fun b => b) (map2 (mv R C g) ls acts) = true <->
   forall i, 0 <= i < zlen ls -> legal R C g (znth (0, 0) ls i) (znth 0 acts i)).
Proof.
  intros D L F. revert ls L. induction F as [|a acts Ha F IH]; intros [|l ls] L; cbn [map2 forallb].
  - split; auto. intros _ i Hi. unfold zlen in Hi. cbn in Hi. lia.
  - exfalso. unfold zlen in L. cbn [length] in L. lia.
  - exfalso. unfold zlen in L. cbn [length] in L. lia.
  - rewrite !zlen_cons in L. rewrite andb_true_iff, IH by lia. unfold mv at 1.
    rewrite (move_valid_legal R C) by assumption. rewrite legal_b_spec. rewrite zlen_cons. split.
    + intros [H0 H] i Hi. destruct (Z.eq_dec i 0) as [->|Ne]; [exact H0|].
      rewrite !znth_nth by lia. replace (Z.to_nat i) with (S (Z.to_nat (i - 1))) by lia. cbn [nth].
      rewrite <- !znth_nth by lia. apply H. lia.
    + intro H. pose proof (zlen_nonneg ls) as NN. split; [apply (H 0); lia|]. intros i Hi. specialize (H (i + 1) ltac:(lia)).
      rewrite !znth_nth in H by lia. replace (Z.to_nat (i + 1)) with (S (Z.to_nat i)) in H by lia. cbn [nth] in H.
      rewrite !znth_nth by lia. exact H.
Qed.

(* ---------- monotone cells and counting ---------- *)
Lemma cell_step_count x y : cell_step x y -> b2z (negb (x =? y)) = b2z (x =? DIRTY) - b2z (y =? DIRTY).
Proof.
  unfold cell_step, DIRTY, CLEAN, b2z. intros [H|[H1 H2]].
  - rewrite H, Z.eqb_refl. cbn [negb]. lia.
  - rewrite H1, H2. reflexivity.
Qed.

Lemma row_step_count r r' :
  Forall2 cell_step r r' ->
  zsum (map2 (fun x y => b2z (negb (x =? y))) r r')
  = zsum (map (fun x => b2z (x =? DIRTY)) r) - zsum (map (fun x => b2z (x =? DIRTY)) r').
Proof.
  induction 1 as [|x y r r' H F IH]; cbn [map2 map zsum]; [reflexivity|].
  rewrite IH, (cell_step_count x y H). lia.
Qed.

Lemma grid_step_count g g' : grid_step g g' -> count_changed g g' = count_dirty g - count_dirty g'.
Proof.
  unfold grid_step, count_changed, count_dirty.
  induction 1 as [|r r' g g' H F IH]; cbn [map2 map zsum]; [reflexivity|].
  rewrite IH, (row_step_count r r' H). lia.
Qed.

Lemma row_dirty_count r :
  0 <= zsum (map (fun x => b2z (x =? DIRTY)) r) /\
  existsb (fun x => x =? DIRTY) r = (0 <? zsum (map (fun x => b2z (x =? DIRTY)) r)).
Proof.
  induction r as [|x r [IH1 IH2]]; cbn [map zsum existsb]; [split; [lia|reflexivity]|].
  rewrite IH2. set (z := zsum (map (fun x => b2z (x =? DIRTY)) r)) in *. unfold b2z. destruct (x =? DIRTY); split; lia.
Qed.

Lemma count_dirty_nonneg g : 0 <= count_dirty g.
Proof.
  unfold count_dirty. induction g as [|r g IH]; cbn [map zsum]; [lia|].
  pose proof (row_dirty_count r). lia.
Qed.

Lemma any_dirty_count g : any_dirty g = (0 <? count_dirty g).
Proof.
  unfold any_dirty. induction g as [|r g IH]; [reflexivity|].
  cbn [existsb]. rewrite IH. pose proof (count_dirty_nonneg g) as N. unfold count_dirty in *. cbn [map zsum].
  destruct (row_dirty_count r) as [H1 H2]. rewrite H2. lia.
Qed.

Lemma grid_step_pointwise R C g ls :
  dims g R C -> Forall (Forall cell_ok) g -> Forall (lands R C g) ls ->
  forall r k, 0 <= r < R -> 0 <= k < C -> cell_step (gat 0 g r k) (gat 0 (clean_all g ls) r k).
Proof.
  intros D V LD r k Hr Hk.
  destruct (clean_all_spec R C ls g D (lands_in_grid _ _ _ _ LD)) as [D' G']. rewrite G' by assumption.
  destruct (occupied ls r k) eqn:O; [|left; reflexivity].
  apply occupied_ex in O as [p [I [E1 E2]]]. rewrite Forall_forall in LD. destruct (LD p I) as [_ NW].
  rewrite E1, E2 in NW.
  assert (OK : cell_ok (gat 0 g r k)).
  { apply gat_Forall; [exact V|destruct D; lia|rewrite (dims_row g R C r D Hr); lia]. }
  unfold cell_ok, cell_step in *. destruct OK as [E|[E|E]]; [right; auto|left; auto|contradiction].
Qed.

Lemma clean_all_grid_step R C g ls :
  dims g R C -> Forall (Forall cell_ok) g -> Forall (lands R C g) ls -> grid_step g (clean_all g ls).
Proof.
  intros D V LD. unfold grid_step.
  destruct (clean_all_spec R C ls g D (lands_in_grid _ _ _ _ LD)) as [D' _].
  apply (grid_Forall2 _ g _ R C D D'). apply grid_step_pointwise; assumption.
Qed.

(* C07: under any joint action cells only go DIRTY -> CLEAN *)
Theorem step_grid_step c s acts : Inv c s -> grid_step (grid s) (grid (fst (step c s acts))).
Proof.
  intros [[D [V [LA AG]]] [M N]]. rewrite (step_canon c s acts M). cbv zeta. cbn [fst grid].
  apply (clean_all_grid_step (rows c) (cols c)); [exact D|exact V|]. apply nl_lands; assumption.
Qed.

Theorem step_cells c s acts r k :
  Inv c s -> 0 <= r < rows c -> 0 <= k < cols c ->
  cell_step (gat 0 (grid s) r k) (gat 0 (grid (fst (step c s acts))) r k).
Proof.
  intros [[D [V [LA AG]]] [M N]] Hr Hk. rewrite (step_canon c s acts M). cbv zeta. cbn [fst grid].
  apply (grid_step_pointwise (rows c) (cols c)); try assumption. apply nl_lands; assumption.
Qed.

Corollary step_walls c s acts r k :
  Inv c s -> 0 <= r < rows c -> 0 <= k < cols c ->
  (gat 0 (grid (fst (step c s acts))) r k = WALL <-> gat 0 (grid s) r k = WALL).
Proof.
  intros I Hr Hk. pose proof (step_cells c s acts r k I Hr Hk) as H. unfold cell_step, DIRTY, CLEAN, WALL in *. lia.
Qed.

(* the step reward: tiles cleaned minus the penalty *)
Theorem step_reward c s acts :
  Inv c s ->
  reward (snd (step c s acts)) = [4 * (count_dirty (grid s) - count_dirty (grid (fst (step c s acts)))) - pen c].
Proof.
  intro I. pose proof (step_grid_step c s acts I) as GS. apply grid_step_count in GS.
  unfold step in *. cbv zeta in *. cbn [fst snd grid] in *. rewrite <- GS.
  unfold cond_done. match goal with |- context [if ?b then _ else _] => destruct b end; reflexivity.
Qed.

(* ---------- C09: the Impl step equals the Rules reference step ---------- *)
Definition in_spec (acts : list Z) : Prop := Forall (fun a => 0 <= a < 4) acts.

Lemma nl_ref R C g ls acts :
  dims g R C -> in_spec acts ->
  nl R C g ls acts = map2 (fun loc a => if legal_b R C g loc a then padd loc (dir a) else loc) ls acts.
Proof.
  intros D F. unfold nl. apply (map2_ext_r (fun a => 0 <= a < 4)); [exact F|].
  intros loc a Ha. unfold mv. rewrite (move_valid_legal R C g loc a D Ha), (move_of_dir a Ha). reflexivity.
Qed.

Lemma mv_ref R C g ls acts :
  dims g R C -> in_spec acts -> map2 (mv R C g) ls acts = map2 (legal_b R C g) ls acts.
Proof.
  intros D F. apply (map2_ext_r (fun a => 0 <= a < 4)); [exact F|].
  intros loc a Ha. unfold mv. apply move_valid_legal; assumption.
Qed.

Lemma negb_forallb_id l : negb (forallb (fun b : bool => b) l) = existsb (fun b => negb b) l.
Proof. induction l as [|b l IH]; cbn; auto. destruct b; cbn; auto. Qed.

Theorem C09_step_eq_ref c s acts :
  Inv c s -> zlen acts = nag c -> in_spec acts -> step c s acts = ref_step c s acts.
Proof.
  intros I LAc F. pose proof I as [[D [V [LA AG]]] [M N]].
  rewrite (step_canon c s acts M). cbv zeta. unfold ref_step. cbv zeta.
  set (R := rows c) in *. set (C := cols c) in *.
  pose proof (nl_lands R C (grid s) (locs s) acts D AG) as LD.
  destruct (clean_all_spec R C _ (grid s) D (lands_in_grid _ _ _ _ LD)) as [D' G'].
  pose proof (grid_step_count _ _ (clean_all_grid_step R C (grid s) _ D V LD)) as GS.
  rewrite (mv_ref R C (grid s) (locs s) acts D F) in *.
  rewrite (nl_ref R C (grid s) (locs s) acts D F) in *.
  set (ls := map2 (fun loc a => if legal_b R C (grid s) loc a then padd loc (dir a) else loc) (locs s) acts) in *.
  assert (EG : clean_all (grid s) ls = tab R C (fun r k => if occupied ls r k then CLEAN else gat 0 (grid s) r k)).
  { rewrite (grid_tabulate _ R C D') at 1. unfold tab.
    apply map_ext_in. intros r Hr. apply in_zrange in Hr.
    apply map_ext_in. intros k Hk. apply in_zrange in Hk. apply G'; lia. }
  unfold tab in EG. rewrite EG in *. clear EG.
  set (g' := map (fun r => map (fun k => if occupied ls r k then CLEAN else gat 0 (grid s) r k) (zrange C)) (zrange R)) in *.
  rewrite (compute_mask_legal R C g' ls D').
  rewrite negb_forallb_id, any_dirty_count, GS.
  pose proof (count_dirty_nonneg g') as NN.
  replace (negb (0 <? count_dirty g')) with (count_dirty g' =? 0) by lia.
  f_equal.
  unfold cond_done.
  match goal with |- context [if ?b then _ else _] => destruct b end; reflexivity.
Qed.

(* ---------- C05: illegal moves ---------- *)
Lemma existsb_znth {A} (f : A -> bool) d l i : 0 <= i < zlen l -> f (znth d l i) = true -> existsb f l = true.
Proof. intros Hi H. apply existsb_exists. exists (znth d l i). split; [apply znth_In; exact Hi|exact H]. Qed.

Theorem C05_illegal c s acts i :
  Inv c s -> zlen acts = nag c -> in_spec acts -> 0 <= i < nag c ->
  ~ legal (rows c) (cols c) (grid s) (znth (0, 0) (locs s) i) (znth 0 acts i) ->
  let r := step c s acts in
  st (snd r) = LAST /\ discount (snd r) = [0]
  /\ znth (0, 0) (locs (fst r)) i = znth (0, 0) (locs s) i
  /\ reward (snd r) = [4 * (count_dirty (grid s) - count_dirty (grid (fst r))) - pen c].
Proof.
  intros I LAc F Hi NL. cbv zeta. pose proof (step_reward c s acts I) as RW.
  rewrite (C09_step_eq_ref c s acts I LAc F) in *. pose proof I as [[D [V [LA AG]]] [M N]].
  apply legal_b_false in NL.
  assert (ILL : existsb (fun b => negb b) (map2 (legal_b (rows c) (cols c) (grid s)) (locs s) acts) = true).
  { apply (existsb_znth _ true _ i); [rewrite zlen_map2; lia|].
    rewrite (znth_map2 _ (0, 0) 0) by lia. rewrite NL. reflexivity. }
  unfold ref_step in *. cbv zeta in *. cbn [fst snd st discount locs reward grid] in *. rewrite ILL. cbn [orb].
  split; [reflexivity|]. split; [reflexivity|]. split; [|exact RW].
  rewrite (znth_map2 _ (0, 0) 0) by lia. rewrite NL. reflexivity.
Qed.

Lemma all_illegal_stay R C g ls acts :
  zlen ls = zlen acts -> (forall i, 0 <= i < zlen ls -> legal_b R C g (znth (0, 0) ls i) (znth 0 acts i) = false) ->
  map2 (fun loc a => if legal_b R C g loc a then padd loc (dir a) else loc) ls acts = ls.
Proof.
  revert acts; induction ls as [|l ls IH]; intros [|a acts] L H; cbn [map2]; auto.
  - exfalso. unfold zlen in L. cbn [length] in L. lia.
  - rewrite !zlen_cons in *. pose proof (zlen_nonneg ls) as NN. pose proof (H 0 ltac:(lia)) as H0.
    cbn in H0. rewrite H0. f_equal. apply IH; [lia|]. intros i Hi. specialize (H (i + 1) ltac:(lia)).
    rewrite !znth_nth in H by lia. replace (Z.to_nat (i + 1)) with (S (Z.to_nat i)) in H by lia. cbn [nth] in H.
    rewrite !znth_nth by lia. exact H.
Qed.

(* when every agent's action is illegal the problem state (grid and positions) is untouched *)
Theorem C05_all_illegal_untouched c s acts :
  Inv c s -> zlen acts = nag c -> in_spec acts ->
  (forall i, 0 <= i < nag c -> ~ legal (rows c) (cols c) (grid s) (znth (0, 0) (locs s) i) (znth 0 acts i)) ->
  grid (fst (step c s acts)) = grid s /\ locs (fst (step c s acts)) = locs s.
Proof.
  intros I LAc F NL. pose proof I as [[D [V [LA AG]]] [M N]].
  rewrite (step_canon c s acts M). cbv zeta. cbn [fst grid locs].
  rewrite (nl_ref _ _ _ _ _ D F). rewrite all_illegal_stay.
  2:{ lia. } 2:{ intros i Hi. apply legal_b_false. apply NL. lia. }
  split; [|reflexivity].
  assert (IG : Forall (in_grid (rows c) (cols c)) (locs s)).
  { eapply Forall_impl; [|exact AG]. intros p [H1 [H2 _]]. split; assumption. }
  destruct (clean_all_spec (rows c) (cols c) (locs s) (grid s) D IG) as [D' G'].
  apply (grid_ext _ _ (rows c) (cols c) D' D). intros r k Hr Hk. rewrite G' by assumption.
  destruct (occupied (locs s) r k) eqn:O; [|reflexivity].
  apply occupied_ex in O as [p [IP [E1 E2]]]. rewrite Forall_forall in AG. destruct (AG p IP) as [_ [_ CL]].
  rewrite E1, E2 in CL. symmetry. exact CL.
Qed.

(* ---------- C08: the return telescopes to tiles cleaned minus step penalties ---------- *)
Fixpoint run (c : cfg) (s : state) (al : list (list Z)) : list tstep * state :=
  match al with
  | [] => ([], s)
  | a :: r => let s' := fst (step c s a) in let t := snd (step c s a) in
              (t :: fst (run c s' r), snd (run c s' r))
  end.
Definition ret (ts : list tstep) : Z := zsum (map (fun t => zsum (reward t)) ts).

Theorem C08_return c al : forall s,
  Inv c s -> Forall (fun a => zlen a = nag c) al ->
  Inv c (snd (run c s al)) /\
  ret (fst (run c s al)) = 4 * (count_dirty (grid s) - count_dirty (grid (snd (run c s al)))) - zlen al * pen c.
Proof.
  induction al as [|a al IH]; intros s I F; cbn [run fst snd].
  - split; [exact I|]. unfold ret. cbn [map zsum]. change (zlen (@nil (list Z))) with 0. lia.
  - inversion F as [|a' al' La F']; subst.
    destruct (IH (fst (step c s a)) (step_preserves_Inv c s a I La) F') as [I' E].
    split; [exact I'|]. unfold ret in *. cbn [map zsum]. rewrite E, (step_reward c s a I), zlen_cons.
    cbn [zsum]. lia.
Qed.

(* ---------- C11: the time limit ---------- *)
Lemma step_cnt c s acts : cnt (fst (step c s acts)) = cnt s + 1.
Proof. reflexivity. Qed.

Definition other_cause (c : cfg) (s : state) (acts : list Z) : bool :=
  negb (forallb (fun b => b) (valids (amask s) acts)) || negb (any_dirty (grid (fst (step c s acts)))).

Lemma step_type c s acts :
  st (snd (step c s acts)) = if other_cause c s acts || (tlim c <=? cnt s + 1) then LAST else MID.
Proof.
  unfold other_cause, step. cbv zeta. cbn [fst snd grid]. unfold cond_done.
  match goal with |- context [if ?b then termination _ _ else _] => destruct b end; reflexivity.
Qed.

Theorem C11_at_limit_last c s acts : tlim c <= cnt s + 1 -> st (snd (step c s acts)) = LAST.
Proof. intro H. rewrite step_type. replace (tlim c <=? cnt s + 1) with true by lia. rewrite orb_true_r. reflexivity. Qed.

Theorem C11_last_cause c s acts :
  st (snd (step c s acts)) = LAST -> tlim c <= cnt s + 1 \/ other_cause c s acts = true.
Proof.
  rewrite step_type. destruct (other_cause c s acts); [auto|]. cbn [orb].
  destruct (tlim c <=? cnt s + 1) eqn:E; [left; lia|]. unfold LAST, MID. lia.
Qed.

(* an episode: play the joint actions until the first LAST *)
Fixpoint episode (c : cfg) (s : state) (al : list (list Z)) : list tstep :=
  match al with
  | [] => []
  | a :: r => let t := snd (step c s a) in
              if st t =? LAST then [t] else t :: episode c (fst (step c s a)) r
  end.
(* no step of the trajectory ends for a cause other than the limit *)
Fixpoint no_other (c : cfg) (s : state) (al : list (list Z)) : bool :=
  match al with
  | [] => true
  | a :: r => negb (other_cause c s a) && no_other c (fst (step c s a)) r
  end.

Theorem C11_never_later c al : forall s, cnt s < tlim c -> zlen (episode c s al) <= tlim c - cnt s.
Proof.
  induction al as [|a al IH]; intros s H; cbn [episode].
  - change (zlen []) with 0. lia.
  - destruct (st (snd (step c s a)) =? LAST) eqn:E.
    + change (zlen [snd (step c s a)]) with 1. lia.
    + rewrite zlen_cons. destruct (Z_lt_dec (cnt s + 1) (tlim c)) as [Lt|Ge].
      * specialize (IH (fst (step c s a))). rewrite step_cnt in IH. specialize (IH Lt). lia.
      * rewrite (C11_at_limit_last c s a) in E by lia. unfold LAST in E. lia.
Qed.

Theorem C11_exact c al : forall s,
  cnt s < tlim c -> tlim c - cnt s <= zlen al -> no_other c s al = true ->
  zlen (episode c s al) = tlim c - cnt s /\ st (last (episode c s al) (restart 1)) = LAST.
Proof.
  induction al as [|a al IH]; intros s H L NO.
  - change (zlen []) with 0 in L. lia.
  - cbn [no_other] in NO. apply andb_true_iff in NO as [NO1 NO2]. apply negb_true_iff in NO1.
    cbn [episode]. rewrite zlen_cons in L. pose proof (step_type c s a) as ST. rewrite NO1 in ST. cbn [orb] in ST.
    destruct (tlim c <=? cnt s + 1) eqn:E; rewrite ST.
    + change (LAST =? LAST) with true. cbv iota. change (zlen [snd (step c s a)]) with 1.
      split; [lia|]. cbn [last]. exact ST.
    + change (MID =? LAST) with false. cbv iota.
      specialize (IH (fst (step c s a))). rewrite step_cnt in IH.
      destruct (IH ltac:(lia) ltac:(lia) NO2) as [E1 E2]. rewrite zlen_cons. split; [lia|].
      destruct (episode c (fst (step c s a)) al) eqn:EP.
      * change (zlen []) with 0 in E1. lia.
      * cbn [last] in *. exact E2.
Qed.

Lemma eff_limit_none r k : eff_limit 0 r k = r * k.
Proof. reflexivity. Qed.
Lemma eff_limit_some t r k : t <> 0 -> eff_limit t r k = t.
Proof. intro H. unfold eff_limit. destruct (t =? 0) eqn:E; [lia|reflexivity]. Qed.

(* ---------- C10: the generator adapter and reset ---------- *)
Definition maze_ok (v : Z) : Prop := v = 0 \/ v = 1.

Lemma dims_map_map (f : Z -> Z) g R C : dims g R C -> dims (map (map f) g) R C.
Proof.
  intros [L F]. split; [rewrite zlen_map; exact L|].
  apply Forall_forall. intros r Hr. apply in_map_iff in Hr as [r0 [E I]]. subst r. rewrite zlen_map.
  rewrite Forall_forall in F. apply F. exact I.
Qed.

Lemma gat_map_map (f : Z -> Z) g R C r k :
  dims g R C -> 0 <= r < R -> 0 <= k < C -> gat 0 (map (map f) g) r k = f (gat 0 g r k).
Proof.
  intros D Hr Hk. pose proof (dims_row g R C r D Hr) as Lr. destruct D as [L F]. unfold gat.
  rewrite (znth_map (map f) []) by lia. rewrite (znth_map f 0) by lia. reflexivity.
Qed.

Lemma Forall_repeat {A} (P : A -> Prop) x n : P x -> Forall P (repeat x n).
Proof. intro H. induction n; cbn; auto. Qed.

(* cell by cell: the upper-left cell is CLEAN, maze walls become WALL, everything else is DIRTY *)
Theorem C10_init_cells c maze r k :
  dims maze (rows c) (cols c) -> Forall (Forall maze_ok) maze -> 0 <= r < rows c -> 0 <= k < cols c ->
  gat 0 (grid (fst (init c maze))) r k
  = if (r =? 0) && (k =? 0) then CLEAN else if gat 0 maze r k =? 1 then WALL else DIRTY.
Proof.
  intros D V Hr Hk. unfold init. cbv zeta. cbn [fst grid].
  pose proof (dims_map_map adapt maze _ _ D) as D1.
  rewrite (gat_gset _ (rows c) (cols c)) by (assumption || lia).
  destruct ((r =? 0) && (k =? 0)); [reflexivity|].
  rewrite (gat_map_map adapt maze (rows c) (cols c)) by assumption.
  assert (OK : maze_ok (gat 0 maze r k)).
  { apply gat_Forall; [exact V|destruct D; lia|rewrite (dims_row maze _ _ r D Hr); lia]. }
  unfold adapt, DIRTY, WALL. destruct OK as [E|E]; rewrite E; reflexivity.
Qed.

Theorem C10_init_Inv c maze :
  0 < rows c -> 0 < cols c -> 0 <= nag c ->
  dims maze (rows c) (cols c) -> Forall (Forall maze_ok) maze ->
  Inv c (fst (init c maze)) /\ locs (fst (init c maze)) = repeat (0, 0) (Z.to_nat (nag c))
  /\ cnt (fst (init c maze)) = 0 /\ gat 0 (grid (fst (init c maze))) 0 0 = CLEAN.
Proof.
  intros HR HC HA D V.
  pose proof (C10_init_cells c maze 0 0 D V ltac:(lia) ltac:(lia)) as C00. cbn [Z.eqb andb] in C00.
  split; [|split; [reflexivity|split; [reflexivity|exact C00]]].
  unfold init in *. cbv zeta in *. unfold Inv, Physical. cbn [fst grid locs amask cnt] in *.
  pose proof (dims_map_map adapt maze _ _ D) as D1.
  split; [|split; [reflexivity|lia]].
  split; [apply dims_gset; (assumption || lia)|].
  split.
  { apply gset_values; [|exact cell_ok_clean].
    apply Forall_forall. intros row Hrow. apply in_map_iff in Hrow as [r0 [E I]]. subst row.
    apply Forall_forall. intros v Hv. apply in_map_iff in Hv as [v0 [E I0]]. subst v.
    rewrite Forall_forall in V. specialize (V r0 I). rewrite Forall_forall in V. specialize (V v0 I0).
    unfold adapt, cell_ok, DIRTY, CLEAN, WALL. destruct V as [E|E]; rewrite E; cbn; auto. }
  split; [unfold zlen; rewrite repeat_length; lia|].
  apply Forall_repeat. split; [cbn [fst]; lia|]. split; [cbn [snd]; lia|]. exact C00.
Qed.

(* ---------- C01: observation spec bounds ---------- *)
Lemma forallb_Forall {A} (f : A -> bool) (P : A -> Prop) l :
  (forall x, P x -> f x = true) -> Forall P l -> forallb f l = true.
Proof. intros H F. apply forallb_forall. rewrite Forall_forall in F. auto. Qed.

Theorem C01_spec_ok c s : Inv c s -> cnt s <= tlim c -> spec_ok_b c s = true.
Proof.
  intros [[D [V [LA AG]]] [M N]] HT. unfold spec_ok_b. rewrite M.
  destruct D as [L F]. unfold dims_b, compute_mask. rewrite zlen_map.
  repeat (apply andb_true_iff; split); try lia.
  - apply (forallb_Forall _ (fun r => zlen r = cols c)); [|exact F]. intros; lia.
  - apply (forallb_Forall _ (Forall cell_ok)); [|exact V]. intros r Hr.
    apply (forallb_Forall _ cell_ok); [|exact Hr]. unfold cell_ok, DIRTY, CLEAN, WALL. intros; lia.
  - apply (forallb_Forall _ (agent_ok (rows c) (cols c) (grid s))); [|exact AG]. intros p [H1 [H2 _]]. lia.
  - apply forallb_forall. intros r Hr. apply in_map_iff in Hr as [p [E _]]. subst r. reflexivity.
Qed.

Theorem C01_step_conforms c s acts :
  Inv c s -> zlen acts = nag c -> cnt s < tlim c -> spec_ok_b c (fst (step c s acts)) = true.
Proof.
  intros I LA H. apply C01_spec_ok; [apply step_preserves_Inv; assumption|]. rewrite step_cnt. lia.
Qed.

Theorem C01_mid_below_limit c s acts : st (snd (step c s acts)) = MID -> cnt (fst (step c s acts)) < tlim c.
Proof.
  rewrite step_type, step_cnt. destruct (other_cause c s acts); cbn [orb]; [unfold LAST, MID; lia|].
  destruct (tlim c <=? cnt s + 1) eqn:E; [unfold LAST, MID; lia|lia].
Qed.

(* ---------- C03: protocol ---------- *)
Theorem C03_first c maze : first_ok 1 (snd (init c maze)) = true.
Proof. reflexivity. Qed.

Theorem C03_step c s acts : step_ok 1 false (snd (step c s acts)) = true.
Proof.
  unfold step. cbv zeta. cbn [snd]. unfold cond_done.
  match goal with |- context [if ?b then termination _ _ else _] => destruct b end; reflexivity.
Qed.

(* ---------- C12: the observation is a copy of the state, its mask the legal moves in the observed grid ---------- *)
Theorem C12_observe c s :
  Inv c s ->
  let '(g, ls, m, n) := observe s in
  g = grid s /\ ls = locs s /\ m = amask s /\ n = cnt s /\
  forall i a, 0 <= i < nag c -> 0 <= a < 4 ->
    (jget false (znth [] m i) a = true <-> legal (rows c) (cols c) g (znth (0, 0) ls i) a).
Proof.
  intro I. unfold observe. repeat (split; [reflexivity|]). intros i a Hi Ha. apply C04_mask_iff_legal; assumption.
Qed.

(* ---------- boolean twins decide the declarative predicates ---------- *)
Lemma forallb_Forall_iff {A} (f : A -> bool) (P : A -> Prop) l :
  (forall x, f x = true <-> P x) -> (forallb f l = true <-> Forall P l).
Proof.
  intro H. rewrite forallb_forall, Forall_forall. split; intros G x Hx; apply H; auto.
Qed.

Lemma Physical_b_spec c s : Physical_b c s = true <-> Physical c s.
Proof.
  unfold Physical_b, Physical, dims_b, dims. rewrite !andb_true_iff.
  rewrite (forallb_Forall_iff _ (fun r => zlen r = cols c)) by (intros; lia).
  rewrite (forallb_Forall_iff _ (Forall cell_ok)).
  2:{ intro r. apply forallb_Forall_iff. intro v. unfold cell_ok_b, cell_ok. lia. }
  rewrite (forallb_Forall_iff _ (agent_ok (rows c) (cols c) (grid s))).
  2:{ intro p. unfold agent_ok_b, agent_ok, inb. lia. }
  rewrite !Z.eqb_eq. tauto.
Qed.

Lemma Inv_b_spec c s : Inv_b c s = true <-> Inv c s.
Proof.
  unfold Inv_b, Inv. rewrite !andb_true_iff, Physical_b_spec, mask_eqb_eq, Z.leb_le. tauto.
Qed.

Lemma forallb2_Forall2 {A B} (f : A -> B -> bool) (P : A -> B -> Prop) :
  (forall x y, f x y = true <-> P x y) -> forall a b, forallb2 f a b = true <-> Forall2 P a b.
Proof.
  intros H a; induction a as [|x a IH]; intros [|y b]; cbn [forallb2]; split; intro G;
    try discriminate; try constructor; try (inversion G; fail).
  - apply H. apply andb_true_iff in G. tauto.
  - apply IH. apply andb_true_iff in G. tauto.
  - inversion G; subst. apply andb_true_iff. split; [apply H|apply IH]; assumption.
Qed.

Lemma grid_step_b_spec g g' : grid_step_b g g' = true <-> grid_step g g'.
Proof.
  unfold grid_step_b, grid_step. apply forallb2_Forall2. intros r r'. apply forallb2_Forall2.
  intros x y. unfold cell_step_b, cell_step. lia.
Qed.

(* the environment's own reaction (C04): a step is MID exactly when every agent's action is legal, something is
   still dirty afterwards and the limit is not reached *)
Theorem C04_reaction c s acts :
  Inv c s -> zlen acts = nag c -> in_spec acts ->
  (st (snd (step c s acts)) = MID <->
   (forall i, 0 <= i < nag c -> legal (rows c) (cols c) (grid s) (znth (0, 0) (locs s) i) (znth 0 acts i))
   /\ any_dirty (grid (fst (step c s acts))) = true /\ cnt s + 1 < tlim c).
Proof.
  intros [[D [V [LA AG]]] [M N]] LAc F. rewrite step_type. unfold other_cause. rewrite M, valids_mask.
  pose proof (forallb_map2_mv (rows c) (cols c) (grid s) (locs s) acts D ltac:(lia) F) as H. rewrite LA in H.
  rewrite <- H.
  destruct (forallb (fun b => b) (map2 (mv (rows c) (cols c) (grid s)) (locs s) acts)); cbn [negb orb].
  2:{ unfold LAST, MID. split; [lia|]. intros [X _]. discriminate. }
  destruct (any_dirty (grid (fst (step c s acts)))); cbn [negb orb].
  2:{ unfold LAST, MID. split; [lia|]. intros [_ [X _]]. discriminate. }
  destruct (tlim c <=? cnt s + 1) eqn:E; unfold LAST, MID; split.
  - lia.
  - intros [_ [_ X]]. lia.
  - intros _. repeat split. lia.
  - reflexivity.
Qed.

(* ---------- C10: the verified connectivity checker (flood fill) is sound ---------- *)
(* reach: cells that can be reached from (0,0) by a sequence of LEGAL moves *)
Inductive reach (R C : Z) (g : list (list Z)) : Z * Z -> Prop :=
| reach_start : 0 < R -> 0 < C -> free g 0 0 = true -> reach R C g (0, 0)
| reach_move p a : reach R C g p -> legal R C g p a -> reach R C g (padd p (dir a)).

Lemma zlen_zrange_max n : zlen (zrange n) = Z.max 0 n.
Proof. unfold zlen, zrange. rewrite zrange_from_length. lia. Qed.

Lemma znth_nil {A} (d : A) i : znth d [] i = d.
Proof. unfold znth. destruct (i <? 0); [reflexivity|]. destruct (Z.to_nat i); reflexivity. Qed.

Lemma gat_tab_true R C (f : Z -> Z -> bool) r k :
  gat false (tab R C f) r k = true -> 0 <= r < R /\ 0 <= k < C /\ f r k = true.
Proof.
  intro H. unfold gat in H.
  assert (Hr : 0 <= r < R).
  { destruct (Z_lt_dec r 0) as [N|N]; [rewrite (znth_neg [] _ r), znth_nil in H by lia; discriminate|].
    destruct (Z_lt_dec r R) as [N2|N2]; [lia|].
    rewrite (znth_oob [] _ r), znth_nil in H; [discriminate|]. unfold tab. rewrite zlen_map, zlen_zrange_max. lia. }
  unfold tab in H. rewrite (znth_tab _ [] R r Hr) in H.
  assert (Hk : 0 <= k < C).
  { destruct (Z_lt_dec k 0) as [N|N]; [rewrite znth_neg in H by lia; discriminate|].
    destruct (Z_lt_dec k C) as [N2|N2]; [lia|].
    rewrite znth_oob in H; [discriminate|]. rewrite zlen_map, zlen_zrange_max. lia. }
  rewrite znth_tab in H by lia. auto.
Qed.

Definition Minv (R C : Z) (g : list (list Z)) (m : list (list bool)) : Prop :=
  forall r k, gat false m r k = true -> 0 <= r < R /\ 0 <= k < C /\ reach R C g (r, k).

Lemma reach_nbr R C g r k r0 k0 a :
  reach R C g (r0, k0) -> 0 <= a < 4 -> padd (r0, k0) (dir a) = (r, k) ->
  0 <= r < R -> 0 <= k < C -> free g r k = true -> reach R C g (r, k).
Proof.
  intros Rc Ha E Hr Hk Fr. rewrite <- E. apply reach_move; [exact Rc|].
  unfold padd in E. cbn [fst snd] in E. inversion E as [[E1 E2]].
  unfold legal. cbn [fst snd]. rewrite E1, E2. unfold free in Fr.
  apply negb_true_iff, Z.eqb_neq in Fr. auto.
Qed.

Lemma seed_Minv R C g : Minv R C g (seed R C g).
Proof.
  intros r k H. change (seed R C g) with (tab R C (fun r k => (r =? 0) && (k =? 0) && free g 0 0)) in H.
  apply gat_tab_true in H as [Hr [Hk H]]. split; [exact Hr|]. split; [exact Hk|].
  apply andb_true_iff in H as [H Fr]. apply andb_true_iff in H as [E1 E2].
  assert (r = 0) by lia. assert (k = 0) by lia. subst. apply reach_start; (lia || exact Fr).
Qed.

Lemma sweep_Minv R C g m : Minv R C g m -> Minv R C g (sweep R C g m).
Proof.
  intros MI r k H.
  change (sweep R C g m) with (tab R C (fun r k => gat false m r k
      || (free g r k && (gat false m (r - 1) k || gat false m (r + 1) k || gat false m r (k - 1) || gat false m r (k + 1))))) in H.
  apply gat_tab_true in H as [Hr [Hk H]]. split; [exact Hr|]. split; [exact Hk|].
  apply orb_true_iff in H as [H|H]; [apply MI; exact H|].
  apply andb_true_iff in H as [Fr H]. rewrite !orb_true_iff in H.
  destruct H as [[[H|H]|H]|H]; apply MI in H as [_ [_ Rc]].
  - apply (reach_nbr R C g r k _ _ 2 Rc); try assumption; [lia|]. unfold padd. cbn. f_equal; lia.
  - apply (reach_nbr R C g r k _ _ 0 Rc); try assumption; [lia|]. unfold padd. cbn. f_equal; lia.
  - apply (reach_nbr R C g r k _ _ 1 Rc); try assumption; [lia|]. unfold padd. cbn. f_equal; lia.
  - apply (reach_nbr R C g r k _ _ 3 Rc); try assumption; [lia|]. unfold padd. cbn. f_equal; lia.
Qed.

Lemma flood_Minv R C g fuel : forall m, Minv R C g m -> Minv R C g (flood fuel R C g m).
Proof. induction fuel as [|f IH]; intros m H; cbn [flood]; [exact H|]. apply IH. apply sweep_Minv. exact H. Qed.

Theorem C10_connected_b_sound R C g :
  connected_b R C g = true ->
  forall r k, 0 <= r < R -> 0 <= k < C -> gat 0 g r k <> WALL -> reach R C g (r, k).
Proof.
  unfold connected_b. cbv zeta. intros H r k Hr Hk NW.
  rewrite forallb_forall in H. specialize (H r ltac:(apply in_zrange; lia)).
  rewrite forallb_forall in H. specialize (H k ltac:(apply in_zrange; lia)).
  assert (Fr : free g r k = true) by (unfold free; apply negb_true_iff, Z.eqb_neq; exact NW).
  rewrite Fr in H. cbn [negb orb] in H.
  apply (flood_Minv R C g _ _ (seed_Minv R C g)) in H. tauto.
Qed.

(* ---------- non-vacuity: a 2 x 3 (NON-SQUARE) instance, two agents ---------- *)
Definition ex_cfg := mkC 2 3 2 6 2.
Definition ex_maze := [[0; 0; 0]; [1; 1; 0]].
Definition ex_s0 := fst (init ex_cfg ex_maze).

Example nonvacuous :
  Inv_b ex_cfg ex_s0 = true
  /\ amask ex_s0 = [[false; true; false; false]; [false; true; false; false]]
  /\ connected_b 2 3 (grid ex_s0) = true
  /\ (let r := step ex_cfg ex_s0 [1; 1] in
      st (snd r) = MID /\ reward (snd r) = [4 * 1 - 2] /\ grid (fst r) = [[1; 1; 0]; [2; 2; 0]]
      /\ locs (fst r) = [(0, 1); (0, 1)] /\ Inv_b ex_cfg (fst r) = true)
  /\ (let r := step ex_cfg ex_s0 [1; 2] in      (* agent 1 walks into the wall below it *)
      st (snd r) = LAST /\ reward (snd r) = [4 * 1 - 2] /\ locs (fst r) = [(0, 1); (0, 0)]
      /\ Inv_b ex_cfg (fst r) = true)
  /\ (let r := step ex_cfg ex_s0 [0; 3] in      (* both leave the grid: nothing changes *)
      st (snd r) = LAST /\ reward (snd r) = [- 2] /\ grid (fst r) = grid ex_s0 /\ locs (fst r) = locs ex_s0)
  /\ step ex_cfg ex_s0 [1; 2] = ref_step ex_cfg ex_s0 [1; 2].
Proof. vm_compute. repeat split; reflexivity. Qed.

Example nonvacuous_limit :
  let c := mkC 2 3 1 (eff_limit 0 2 3) 2 in
  let s0 := fst (init c ex_maze) in
  tlim c = 6 /\ map st (episode c s0 [[1]; [3]; [1]; [3]; [1]; [3]; [1]]) = [MID; MID; MID; MID; MID; LAST]
  /\ no_other c s0 [[1]; [3]; [1]; [3]; [1]; [3]; [1]] = true.
Proof. vm_compute. repeat split; reflexivity. Qed.

(* ---------- reset with a custom Generator whose agents do not start at (0,0) ---------- *)
Lemma init_is_reset_of c maze :
  init c maze = reset_of c (gset (map (map adapt) maze) 0 0 CLEAN) (repeat (0, 0) (Z.to_nat (nag c))).
Proof. reflexivity. Qed.

(* whatever physically consistent state a Generator returns, the mask produced by reset is the table of legal moves at
   the generator's own agent locations (this was FALSE before the fix: the mask was that of cell (0,0)) *)
Theorem reset_custom_generator_Inv c g ls :
  Physical c (mkS g ls [] 0) -> Inv c (fst (reset_of c g ls)).
Proof.
  intros P. unfold reset_of. cbn [fst]. unfold Inv. cbn [grid locs amask cnt]. repeat split; try apply P; lia.
Qed.
Theorem reset_custom_generator_mask_exact c g ls :
  Physical c (mkS g ls [] 0) -> mask_exact_b c (fst (reset_of c g ls)) = true.
Proof. intro P. apply C04_mask_table. apply reset_custom_generator_Inv. exact P. Qed.
Example reset_custom_generator_example :
  let c := mkC 3 3 1 9 2 in let g := [[0; 2; 0]; [0; 1; 0]; [0; 0; 0]] in
  Physical_b c (fst (reset_of c g [(1, 1)])) = true
  /\ amask (fst (reset_of c g [(1, 1)])) = [[false; true; true; true]].
Proof. vm_compute. split; reflexivity. Qed.

(* ---------- closure: every state reachable from a reset by joint actions of the right length satisfies Inv ---------- *)
Inductive reachable (c : cfg) : state -> Prop :=
| reach_init maze : dims maze (rows c) (cols c) -> Forall (Forall maze_ok) maze -> reachable c (fst (init c maze))
| reach_stepped s acts : reachable c s -> zlen acts = nag c -> reachable c (fst (step c s acts)).

Theorem reachable_Inv c s : 0 < rows c -> 0 < cols c -> 0 <= nag c -> reachable c s -> Inv c s.
Proof.
  intros HR HC HA H. induction H as [maze D V|s acts H IH LA].
  - apply C10_init_Inv; assumption.
  - apply step_preserves_Inv; assumption.
Qed.
