(* Cleaner AS TRANSLATED FROM THE SOURCE (Gen/CleanerSrc.v: the whole multi-agent step, the mask, reward, termination test, reset)
   equals the hand model Model/Cleaner.v on every grid, agent list, joint action and configuration. *)
Require Import JV.Base.Prelude JV.Base.JaxIndex JV.Base.Codec JV.Base.TimeStep JV.Gen.TimeStepSrc JV.Gen.CleanerSrc.
Require JV.Model.Cleaner.
Require Import Btauto.
Module M := JV.Model.Cleaner.

Definition conv (s : State) : M.state := M.mkS (s_grid s) (s_agents_locations s) (s_action_mask s) (s_step_count s).

Lemma zip_src {A B C} (f : A -> B -> C) a b : zip_with f a b = M.map2 f a b.
Proof. revert b. induction a as [|x a IH]; intros [|y b]; cbn [zip_with M.map2]; try reflexivity; try (rewrite IH; reflexivity). Qed.

Lemma valid_src acts m : is_action_valid acts m = M.valids m acts.
Proof. unfold is_action_valid, M.valids. apply zip_src. Qed.

Lemma locs_src ls acts vs : update_agents_locations ls acts vs = M.new_locs ls vs acts.
Proof.
  unfold update_agents_locations, M.new_locs, M.move_of, M.padd. change MOVES with M.moves.
  revert vs acts. induction ls as [|l ls IH]; intros [|v vs] [|a acts]; cbn [map zip_with M.map2 combine]; try reflexivity.
  rewrite IH. destruct v; cbn [fst snd]; [reflexivity|]. destruct l as [r c]. cbn [fst snd]. rewrite !Z.add_0_r. reflexivity.
Qed.

Lemma clean_src g ls : clean_tiles_containing_agents g ls = M.clean_all g ls.
Proof. reflexivity. Qed.

Lemma mask_src R C g ls : compute_action_mask R C g ls = M.compute_mask R C g ls.
Proof.
  unfold compute_action_mask, M.compute_mask. cbv zeta. apply map_ext. intros loc. change MOVES with M.moves. apply map_ext. intros mv.
  unfold M.move_valid. cbv beta iota zeta. rewrite ?Z.geb_leb. unfold WALL, M.WALL.
  (* the conjunction of the four bounds tests and the wall test, up to the order of the conjuncts *)
  first [reflexivity | btauto].
Qed.

Lemma changed_src g g' : m_sum (m_cmp (fun x_ y_ => negb (x_ =? y_)) g g') = M.count_changed g g'.
Proof.
  unfold m_sum, m_cmp, M.count_changed. revert g'. induction g as [|r g IH]; intros [|r' g']; cbn [zip_with concat map M.map2 zsum]; try reflexivity.
  rewrite map_app. assert (Z1 : forall a b, zsum (a ++ b) = zsum a + zsum b) by (induction a as [|x a IHa]; intros b; cbn [app zsum]; [lia | rewrite IHa; lia]).
  rewrite Z1, IH. f_equal. clear. revert r'. induction r as [|x r IH]; intros [|y r']; cbn [zip_with map M.map2 zsum]; try reflexivity. rewrite IH. reflexivity.
Qed.

Lemma dirty_src g : existsb (existsb (fun b : bool => b)) (m_map (fun x_ : Z => x_ =? DIRTY) g) = M.any_dirty g.
Proof.
  unfold M.any_dirty, m_map. induction g as [|r g IH]; cbn [map existsb]; [reflexivity|]. rewrite IH. f_equal.
  induction r as [|x r IHr]; cbn [map existsb]; [reflexivity|]. rewrite IHr. reflexivity.
Qed.

Theorem step_src R C N T pen s acts :
  let r := step R C T pen s acts in
  conv (fst r) = fst (M.step (M.mkC R C N T pen) (conv s) acts) /\ snd r = snd (M.step (M.mkC R C N T pen) (conv s) acts).
Proof.
  cbv zeta. unfold step, M.step, compute_reward, should_terminate. cbn [conv M.amask M.locs M.grid M.cnt M.rows M.cols M.tlim M.pen].
  rewrite valid_src, locs_src, clean_src, mask_src.
  cbn [fst snd conv s_grid s_agents_locations s_action_mask s_step_count].
  rewrite changed_src, dirty_src, Z.geb_leb. split; [reflexivity|].
  unfold cond_done, termination_src, transition_src, termination, transition, StepType_LAST, StepType_MID, LAST, MID.
  destruct (negb (forallb (fun b : bool => b) (M.valids (s_action_mask s) acts)) || _ || _); reflexivity.
Qed.

Theorem reset_src R C N T pen s : s_step_count s = 0 ->
  conv (fst (reset_from R C s)) = fst (M.reset_of (M.mkC R C N T pen) (s_grid s) (s_agents_locations s))
  /\ snd (reset_from R C s) = snd (M.reset_of (M.mkC R C N T pen) (s_grid s) (s_agents_locations s)).
Proof. intros H. unfold reset_from, M.reset_of. cbn [fst snd conv s_grid s_agents_locations s_action_mask s_step_count M.rows M.cols]. rewrite mask_src, H. split; reflexivity. Qed.

(* ---- the Cleaner theorems, transferred to the translated source ---- *)
Require Import JV.Proofs.Cleaner.
Section Transfer.
  Variables R C N T pen : Z.
  Local Notation c := (M.mkC R C N T pen).
  Lemma src_step_follows_rules s acts : M.Inv c (conv s) -> zlen acts = N -> in_spec acts ->
    let r := step R C T pen s acts in (conv (fst r), snd r) = M.ref_step c (conv s) acts.
  Proof.
    intros I L Sp. cbv zeta. destruct (step_src R C N T pen s acts) as [E1 E2]. rewrite E1, E2.
    rewrite <- (C09_step_eq_ref c (conv s) acts I L Sp). destruct (M.step c (conv s) acts); reflexivity.
  Qed.
  Lemma src_step_inv s acts : M.Inv c (conv s) -> zlen acts = N -> M.Inv c (conv (fst (step R C T pen s acts))).
  Proof. intros I L. destruct (step_src R C N T pen s acts) as [E1 _]. rewrite E1. exact (step_preserves_Inv c (conv s) acts I L). Qed.
  Lemma src_mask_iff_legal s acts i a : M.Inv c (conv s) -> zlen acts = N -> 0 <= i < N -> 0 <= a < 4 ->
    let s' := fst (step R C T pen s acts) in
    (jget false (znth [] (s_action_mask s') i) a = true <-> M.legal R C (s_grid s') (znth (0, 0) (s_agents_locations s') i) a).
  Proof. intros I L Hi Ha. cbv zeta. exact (C04_mask_iff_legal c (conv (fst (step R C T pen s acts))) i a (src_step_inv s acts I L) Hi Ha). Qed.
End Transfer.

(* C03 on the translated step: never FIRST, MID with discount 1 or LAST with discount 0 (no truncation) -- any state, any action *)
Lemma src_step_protocol (R C N T pen : Z) s acts : step_ok 1 false (snd (step R C T pen s acts)) = true.
Proof. destruct (step_src R C N T pen s acts) as [_ E]. rewrite E. apply C03_step. Qed.

(* C11 on the translated step: LAST from the limit on; an earlier LAST has another cause *)
Lemma src_at_limit_last (R C N T pen : Z) s acts : T <= s_step_count s + 1 -> st (snd (step R C T pen s acts)) = LAST.
Proof. intros H. destruct (step_src R C N T pen s acts) as [_ E]. rewrite E. apply C11_at_limit_last. exact H. Qed.
Lemma src_last_cause (R C N T pen : Z) s acts :
  st (snd (step R C T pen s acts)) = LAST -> T <= s_step_count s + 1 \/ other_cause (M.mkC R C N T pen) (conv s) acts = true.
Proof. intros H. destruct (step_src R C N T pen s acts) as [_ E]. rewrite E in H. exact (C11_last_cause (M.mkC R C N T pen) (conv s) acts H). Qed.
(* C08: the reward of the translated step is 4 quarters per tile cleaned by it minus the per-step penalty *)
Lemma src_step_reward (R C N T pen : Z) s acts : M.Inv (M.mkC R C N T pen) (conv s) ->
  reward (snd (step R C T pen s acts))
  = [4 * (M.count_dirty (s_grid s) - M.count_dirty (s_grid (fst (step R C T pen s acts)))) - pen].
Proof.
  intros I. destruct (step_src R C N T pen s acts) as [E1 E2]. rewrite E2.
  rewrite (step_reward (M.mkC R C N T pen) (conv s) acts I). rewrite <- E1. reflexivity.
Qed.
