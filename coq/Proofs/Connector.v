(* Proofs about the Connector model: protocol (C03), mask = legal moves (C04), illegal move = no-op (C05),
   time limit (C11), observation (C12), reward / return (C08), spec bounds (C01), generators (C10).
   The max-join / collision analysis is in Proofs/Connector_Join.v. *)
Require Import JV.Base.Prelude JV.Base.JaxIndex JV.Base.Codec JV.Base.TimeStep JV.Model.Connector.

(* ---------- lists ---------- *)
Lemma map2_length {A B C} (f : A -> B -> C) a b : length (map2 f a b) = Nat.min (length a) (length b).
Proof. revert b; induction a as [|x a IH]; intros [|y b]; cbn [map2 length]; auto. rewrite IH. reflexivity. Qed.

Lemma zlen_map2 {A B C} (f : A -> B -> C) a b : zlen (map2 f a b) = Z.min (zlen a) (zlen b).
Proof. unfold zlen. rewrite map2_length. lia. Qed.

Lemma zlen_map {A B} (f : A -> B) l : zlen (map f l) = zlen l.
Proof. unfold zlen. rewrite map_length. reflexivity. Qed.

Lemma zlen_combine {A B} (a : list A) (b : list B) : zlen (combine a b) = Z.min (zlen a) (zlen b).
Proof. unfold zlen. rewrite combine_length. lia. Qed.

Lemma zlen_zrange n : 0 <= n -> zlen (zrange n) = n.
Proof. intro H. unfold zlen, zrange. rewrite zrange_from_length. lia. Qed.

Lemma zlen_repeat {A} (x : A) n : zlen (repeat x n) = Z.of_nat n.
Proof. unfold zlen. rewrite repeat_length. reflexivity. Qed.

Lemma map2_ext_in {A B C} (f g : A -> B -> C) a b :
  (forall x y, In (x, y) (combine a b) -> f x y = g x y) -> map2 f a b = map2 g a b.
Proof.
  revert b; induction a as [|x a IH]; intros [|y b] H; cbn [map2]; auto.
  f_equal. - apply H. left. reflexivity. - apply IH. intros. apply H. right. assumption.
Qed.

Lemma map2_map_r {A B B' C} (f : A -> B' -> C) (h : B -> B') a b : map2 f a (map h b) = map2 (fun x y => f x (h y)) a b.
Proof. revert b; induction a as [|x a IH]; intros [|y b]; cbn [map2 map]; auto. f_equal. apply IH. Qed.

Lemma znth_map2 {A B C} (f : A -> B -> C) a b da db dc k :
  0 <= k < zlen a -> 0 <= k < zlen b -> znth dc (map2 f a b) k = f (znth da a k) (znth db b k).
Proof.
  unfold znth, zlen. intros Ha Hb. destruct (k <? 0) eqn:E; [lia|].
  assert (Hn : (Z.to_nat k < length a)%nat /\ (Z.to_nat k < length b)%nat) by lia. clear Ha Hb E.
  destruct Hn as [Ha Hb]. revert b Ha Hb. generalize (Z.to_nat k) as n.
  induction a as [|x a IH]; intros n [|y b] Ha Hb; cbn [length] in *; try lia.
  destruct n; cbn [map2 nth]; auto. apply IH; lia.
Qed.

Lemma forallb_repeat {A} (f : A -> bool) x n : f x = true -> forallb f (repeat x n) = true.
Proof. intro H. induction n; cbn [repeat forallb]; auto. rewrite H, IHn. reflexivity. Qed.

(* ---------- shapes of a step ---------- *)
Definition wf (c : cfg) (s : state) (acts : list Z) : Prop :=
  0 <= nag c /\ zlen (agents s) = nag c /\ zlen acts = nag c.

Lemma step_agents_len G N g ags acts :
  0 <= N -> zlen ags = N -> zlen acts = N -> zlen (fst (step_agents G N g ags acts)) = N.
Proof.
  intros HN Ha Hc. unfold step_agents. cbn [fst].
  rewrite zlen_map2, zlen_map, zlen_zrange, zlen_combine, zlen_map, zlen_map2 by lia. lia.
Qed.

Definition next (c : cfg) (s : state) (acts : list Z) : state := fst (fst (step c s acts)).
Definition tsof (c : cfg) (s : state) (acts : list Z) : tstep := snd (fst (step c s acts)).
Definition maskof (c : cfg) (s : state) (acts : list Z) : list (list bool) := snd (step c s acts).

Definition dones (c : cfg) (s : state) (acts : list Z) : list bool :=
  map2 done_of (agents (next c s acts)) (maskof c s acts).
Definition fin (c : cfg) (s : state) (acts : list Z) : bool :=
  forallb (fun d => d) (dones c s acts) || (tlim c <=? cnt s + 1).

Lemma step_eq c s acts :
  step c s acts =
  (let r := step_agents (gsz c) (nag c) (grid s) (agents s) acts in
   let masks := map (action_mask (gsz c) (snd r)) (fst r) in
   let done := map2 done_of (fst r) masks in
   let rew := map2 (reward_of c) (agents s) (fst r) in
   (mkS (snd r) (cnt s + 1) (fst r),
    if forallb (fun d => d) done || (tlim c <=? cnt s + 1) then termination (Z.to_nat (nag c)) rew
    else transition_d rew (map (fun d : bool => 1 - b2z d) done), masks)).
Proof. unfold step. destruct (step_agents _ _ _ _ _) as [ags g]. reflexivity. Qed.

Lemma next_agents c s acts : agents (next c s acts) = fst (step_agents (gsz c) (nag c) (grid s) (agents s) acts).
Proof. unfold next. rewrite step_eq. reflexivity. Qed.
Lemma next_grid c s acts : grid (next c s acts) = snd (step_agents (gsz c) (nag c) (grid s) (agents s) acts).
Proof. unfold next. rewrite step_eq. reflexivity. Qed.
Lemma next_cnt c s acts : cnt (next c s acts) = cnt s + 1.
Proof. unfold next. rewrite step_eq. reflexivity. Qed.
Lemma maskof_eq c s acts : maskof c s acts = map (action_mask (gsz c) (grid (next c s acts))) (agents (next c s acts)).
Proof. unfold maskof, next. rewrite step_eq. reflexivity. Qed.
Lemma next_len c s acts : wf c s acts -> zlen (agents (next c s acts)) = nag c.
Proof. intros (H0 & H1 & H2). rewrite next_agents. apply step_agents_len; assumption. Qed.

Lemma ts_eq c s acts :
  tsof c s acts =
  if fin c s acts then termination (Z.to_nat (nag c)) (map2 (reward_of c) (agents s) (agents (next c s acts)))
  else transition_d (map2 (reward_of c) (agents s) (agents (next c s acts)))
                    (map (fun d : bool => 1 - b2z d) (dones c s acts)).
Proof. unfold tsof, fin, dones, maskof, next. rewrite step_eq. reflexivity. Qed.

Lemma step_type c s acts : st (tsof c s acts) = if fin c s acts then LAST else MID.
Proof. rewrite ts_eq. destruct (fin c s acts); reflexivity. Qed.

Lemma reward_eq c s acts : reward (tsof c s acts) = map2 (reward_of c) (agents s) (agents (next c s acts)).
Proof. rewrite ts_eq. destruct (fin c s acts); reflexivity. Qed.

Lemma dones_len c s acts : wf c s acts -> zlen (dones c s acts) = nag c.
Proof.
  intro W. unfold dones. rewrite zlen_map2, maskof_eq, zlen_map, (next_len _ _ _ W). lia.
Qed.

(* ---------- C03 ---------- *)
Lemma all_zero_repeat n : all_zero (repeat 0 n) = true.
Proof. unfold all_zero. apply forallb_repeat. reflexivity. Qed.
Lemma in01_repeat0 n : in01 (repeat 0 n) = true.
Proof. unfold in01. apply forallb_repeat. reflexivity. Qed.

Lemma disc_in01 (l : list bool) : in01 (map (fun d : bool => 1 - b2z d) l) = true.
Proof. unfold in01. induction l as [|[|] l IH]; cbn [map forallb b2z]; auto. Qed.

Lemma disc_not_all_zero (l : list bool) :
  forallb (fun d => d) l = false -> all_zero (map (fun d : bool => 1 - b2z d) l) = false.
Proof. unfold all_zero. induction l as [|[|] l IH]; cbn [map forallb b2z]; intro H; try discriminate; auto. Qed.

Theorem C03_step c s acts : wf c s acts -> step_ok (Z.to_nat (nag c)) false (tsof c s acts) = true.
Proof.
  intro W. pose proof W as (H0 & H1 & H2). rewrite ts_eq. unfold step_ok.
  assert (LR : length (map2 (reward_of c) (agents s) (agents (next c s acts))) = Z.to_nat (nag c)).
  { pose proof (zlen_map2 (reward_of c) (agents s) (agents (next c s acts))) as L.
    rewrite (next_len _ _ _ W), H1 in L. unfold zlen in L. lia. }
  destruct (fin c s acts) eqn:F.
  - unfold termination. cbn [st discount reward]. rewrite repeat_length, LR, Nat.eqb_refl, in01_repeat0, all_zero_repeat.
    reflexivity.
  - unfold transition_d. cbn [st discount reward].
    assert (LD : length (map (fun d : bool => 1 - b2z d) (dones c s acts)) = Z.to_nat (nag c)).
    { rewrite map_length. pose proof (dones_len _ _ _ W) as L. unfold zlen in L. lia. }
    rewrite LD, LR, Nat.eqb_refl, disc_in01. unfold fin in F. apply orb_false_iff in F as [F1 F2].
    rewrite (disc_not_all_zero _ F1). reflexivity.
Qed.

Theorem C03_first c s : first_ok (Z.to_nat (nag c)) (snd (fst (reset_of c s))) = true.
Proof.
  unfold reset_of, first_ok, restart. cbn [fst snd st reward discount].
  assert (E : forall l, list_eqb Z.eqb l l = true).
  { induction l as [|x l IH]; cbn [list_eqb]; auto. rewrite Z.eqb_refl, IH. reflexivity. }
  rewrite !E. reflexivity.
Qed.

(* a MID step leaves some agent neither connected nor blocked, and exactly those agents keep discount 1 *)
Theorem C03_mid_some_agent_alive c s acts :
  st (tsof c s acts) = MID -> existsb negb (dones c s acts) = true
  /\ discount (tsof c s acts) = map (fun d : bool => 1 - b2z d) (dones c s acts).
Proof.
  rewrite step_type, ts_eq. destruct (fin c s acts) eqn:F; [unfold LAST, MID; discriminate|]. intros _.
  split; [|reflexivity]. unfold fin in F. apply orb_false_iff in F as [F1 _].
  induction (dones c s acts) as [|[|] l IH]; cbn [forallb existsb negb] in *; try discriminate; auto.
Qed.

(* ---------- C11 ---------- *)
Theorem C11_at_limit_last c s acts : tlim c <= cnt s + 1 -> st (tsof c s acts) = LAST.
Proof. intro H. rewrite step_type. unfold fin. replace (tlim c <=? cnt s + 1) with true by lia. rewrite orb_true_r. reflexivity. Qed.

Definition all_done (c : cfg) (s : state) (acts : list Z) : bool := forallb (fun d => d) (dones c s acts).

Theorem C11_last_cause c s acts : st (tsof c s acts) = LAST -> tlim c <= cnt s + 1 \/ all_done c s acts = true.
Proof.
  rewrite step_type. unfold fin, all_done. destruct (forallb _ _); [auto|]. cbn [orb].
  destruct (tlim c <=? cnt s + 1) eqn:E; [left; lia|unfold LAST, MID; discriminate].
Qed.

Theorem C11_mid_below_limit c s acts : st (tsof c s acts) = MID -> cnt (next c s acts) < tlim c.
Proof.
  rewrite step_type, next_cnt. unfold fin. destruct (tlim c <=? cnt s + 1) eqn:E; [rewrite orb_true_r; unfold LAST, MID; discriminate|lia].
Qed.

(* an episode: play the joint actions until the first LAST *)
Fixpoint episode (c : cfg) (s : state) (al : list (list Z)) : list tstep :=
  match al with
  | [] => []
  | a :: r => let t := tsof c s a in if st t =? LAST then [t] else t :: episode c (next c s a) r
  end.
Fixpoint no_other (c : cfg) (s : state) (al : list (list Z)) : bool :=
  match al with
  | [] => true
  | a :: r => negb (all_done c s a) && no_other c (next c s a) r
  end.

Theorem C11_never_later c al : forall s, cnt s < tlim c -> zlen (episode c s al) <= tlim c - cnt s.
Proof.
  induction al as [|a al IH]; intros s H; cbn [episode].
  - unfold zlen; cbn [length]; lia.
  - destruct (st (tsof c s a) =? LAST) eqn:E.
    + unfold zlen; cbn [length]; lia.
    + rewrite zlen_cons. assert (M : st (tsof c s a) = MID).
      { rewrite step_type in *. destruct (fin c s a); [unfold LAST in E; cbn in E; discriminate|reflexivity]. }
      pose proof (C11_mid_below_limit _ _ _ M) as B. specialize (IH (next c s a) B). rewrite next_cnt in *. lia.
Qed.

Theorem C11_exact c al : forall s,
  cnt s < tlim c -> tlim c - cnt s <= zlen al -> no_other c s al = true ->
  zlen (episode c s al) = tlim c - cnt s /\ st (last (episode c s al) (restart 1)) = LAST.
Proof.
  induction al as [|a al IH]; intros s H L NO.
  - unfold zlen in L; cbn [length] in L; lia.
  - cbn [no_other] in NO. apply andb_true_iff in NO as [NO1 NO2]. apply negb_true_iff in NO1.
    cbn [episode]. rewrite zlen_cons in L. pose proof (step_type c s a) as ST. unfold fin in ST.
    unfold all_done in NO1. rewrite NO1 in ST. cbn [orb] in ST.
    destruct (tlim c <=? cnt s + 1) eqn:E.
    + rewrite ST. cbn [Z.eqb LAST Pos.eqb last]. split; [unfold zlen; cbn [length]; lia|assumption].
    + rewrite ST. cbn [Z.eqb MID LAST Pos.eqb].
      assert (B : cnt (next c s a) < tlim c) by (rewrite next_cnt; lia).
      assert (L2 : tlim c - cnt (next c s a) <= zlen al) by (rewrite next_cnt; lia).
      destruct (IH _ B L2 NO2) as [I1 I2]. rewrite zlen_cons, I1, next_cnt. split; [lia|].
      destruct (episode c (next c s a) al) eqn:EP.
      * unfold zlen in I1; cbn [length] in I1. rewrite next_cnt in I1. lia.
      * exact I2.
Qed.

(* ---------- C12 ---------- *)
Theorem C12_observation c s acts :
  observe c (next c s acts) = (grid (next c s acts), maskof c s acts, cnt s + 1).
Proof. unfold observe. rewrite maskof_eq, next_cnt. reflexivity. Qed.

(* ---------- grids: strict and JAX accessors agree in range ---------- *)
Lemma znth_nth {A} (d : A) l i : 0 <= i -> znth d l i = nth (Z.to_nat i) l d.
Proof. intro H. unfold znth. destruct (i <? 0) eqn:E; [lia|reflexivity]. Qed.

Lemma jget_znth {A} (d : A) l i : 0 <= i < zlen l -> jget d l i = znth d l i.
Proof. intro H. rewrite jget_in_range by assumption. rewrite znth_nth by lia. reflexivity. Qed.

Lemma dims_row G g r : dims G g -> 0 <= r < G -> zlen (znth [] g r) = G.
Proof.
  intros [L F] H. rewrite znth_nth by lia. rewrite Forall_forall in F. apply F. apply nth_In. unfold zlen in L. lia.
Qed.

Lemma gget_gat {A} (d : A) G (g : list (list A)) r k :
  zlen g = G -> zlen (znth [] g r) = G -> 0 <= r < G -> 0 <= k < G -> gget d g r k = gat d g r k.
Proof.
  intros L LR Hr Hk. unfold gget, gat. rewrite (jget_znth [] g r) by lia. rewrite jget_znth by lia. reflexivity.
Qed.

(* ---------- C04 ---------- *)
Lemma move_position_dir p a : 0 <= a <= 4 -> move_position p a = padd p (dir a).
Proof.
  intro H. unfold move_position, clamp_act, padd, dir. replace (Z.max 0 (Z.min 4 a)) with a by lia.
  assert (C : a = 0 \/ a = 1 \/ a = 2 \/ a = 3 \/ a = 4) by lia. destruct p as [x y].
  destruct C as [->|[->|[->|[->| ->]]]]; cbn [Z.eqb Pos.eqb fst snd]; f_equal; lia.
Qed.

Lemma pos_eqb_eq p q : pos_eqb p q = true <-> p = q.
Proof.
  unfold pos_eqb. destruct p as [a b], q as [a' b']. cbn [fst snd]. rewrite andb_true_iff, !Z.eqb_eq.
  split; [intros [-> ->]; reflexivity|intro E; inversion E; auto].
Qed.

Lemma valid_legal_b G g ag a :
  dims G g -> 1 <= a <= 4 -> is_valid_position G g ag (move_position (apos ag) a) = legal_b G g ag a.
Proof.
  intros D H. rewrite move_position_dir by lia. unfold is_valid_position, legal_b, in_grid, inb, cell, connected.
  set (p := padd (apos ag) (dir a)).
  replace (a =? 0) with false by lia. replace (1 <=? a) with true by lia. replace (a <=? 4) with true by lia. cbn [orb andb].
  destruct ((0 <=? fst p) && (fst p <? G) && (0 <=? snd p) && (snd p <? G)) eqn:B.
  - assert (R : 0 <= fst p < G /\ 0 <= snd p < G) by lia. destruct R as [R1 R2].
    rewrite (gget_gat 0 G g (fst p) (snd p)); try lia; [|apply D|apply dims_row; assumption].
    replace ((0 <=? fst p) && (fst p <? G) && ((0 <=? snd p) && (snd p <? G))) with true by lia. reflexivity.
  - replace ((0 <=? fst p) && (fst p <? G) && ((0 <=? snd p) && (snd p <? G))) with false by lia. reflexivity.
Qed.

Lemma legal_b_spec G g ag a : legal_b G g ag a = true <-> legal G g ag a.
Proof.
  unfold legal_b, legal, in_grid, inb. set (p := padd (apos ag) (dir a)).
  rewrite orb_true_iff, !andb_true_iff, orb_true_iff, negb_true_iff, !Z.eqb_eq.
  split.
  - intros [E|[[[[H1 H2] H3] H4] H5]]; [left; exact E|right].
    split; [lia|]. split; [lia|]. split; [lia|]. split; [exact H4|]. intro E. apply pos_eqb_eq in E. congruence.
  - intros [E|(H1 & H2 & H3 & H4 & H5)]; [left; exact E|right].
    split; [split; [split; [split; lia|split; split; lia]|exact H4]|]. destruct (pos_eqb (apos ag) (atarget ag)) eqn:E; [|reflexivity].
    apply pos_eqb_eq in E. contradiction.
Qed.

(* the mask row the environment emits is the table of legal actions *)
Theorem C04_mask_table G g ag : dims G g -> action_mask G g ag = map (legal_b G g ag) (zrange 5).
Proof.
  intro D. unfold action_mask. change (zrange 5) with [0; 1; 2; 3; 4]. cbn [map].
  rewrite !valid_legal_b by (assumption || lia). f_equal.
Qed.

Theorem C04_mask_iff_legal G g ag a :
  dims G g -> 0 <= a <= 4 -> (znth false (action_mask G g ag) a = true <-> legal G g ag a).
Proof.
  intros D H. rewrite C04_mask_table by assumption. rewrite <- legal_b_spec.
  change (zrange 5) with [0; 1; 2; 3; 4]. cbn [map].
  assert (C : a = 0 \/ a = 1 \/ a = 2 \/ a = 3 \/ a = 4) by lia.
  destruct C as [->|[->|[->|[->| ->]]]]; reflexivity.
Qed.

(* ---------- C05: an illegal move is exactly a no-op ---------- *)
Lemma step_agent_noop G ag g : step_agent G ag g 0 = (ag, g).
Proof. unfold step_agent. cbn [Z.eqb negb]. rewrite andb_false_r. reflexivity. Qed.

Lemma step_agent_illegal G ag g a :
  dims G g -> 0 <= a <= 4 -> legal_b G g ag a = false -> step_agent G ag g a = step_agent G ag g 0.
Proof.
  intros D H L. rewrite step_agent_noop. unfold step_agent.
  assert (a <> 0) by (intros ->; unfold legal_b in L; cbn in L; discriminate).
  rewrite valid_legal_b by (assumption || lia). rewrite L. reflexivity.
Qed.

(* the joint action with every illegal move replaced by the no-op *)
Definition sanitise (G : Z) (g : list (list Z)) (ags : list agent) (acts : list Z) : list Z :=
  map2 (fun ag a => if legal_b G g ag a then a else 0) ags acts.

Lemma res_sanitise G g ags acts :
  dims G g -> Forall (fun a => 0 <= a <= 4) acts ->
  map2 (fun ag a => step_agent G ag g a) ags (sanitise G g ags acts) = map2 (fun ag a => step_agent G ag g a) ags acts.
Proof.
  intros D. unfold sanitise. revert acts. induction ags as [|ag ags IH]; intros [|a acts] F; cbn [map2]; auto.
  inversion F as [|? ? Fa Fr]; subst. f_equal; [|apply IH; assumption].
  destruct (legal_b G g ag a) eqn:L; [reflexivity|]. symmetry. apply step_agent_illegal; assumption.
Qed.

Theorem C05_illegal_is_noop c s acts :
  dims (gsz c) (grid s) -> Forall (fun a => 0 <= a <= 4) acts ->
  step c s (sanitise (gsz c) (grid s) (agents s) acts) = step c s acts.
Proof.
  intros D F. rewrite !step_eq. unfold step_agents. rewrite (res_sanitise _ _ _ _ D F). reflexivity.
Qed.

(* ---------- agents of a step: either the old record or the moved one; connected agents never move ---------- *)
Lemma step_agent_fst G ag g a :
  fst (step_agent G ag g a) = ag
  \/ (fst (step_agent G ag g a) = mkA (aid ag) (astart ag) (atarget ag) (move_position (apos ag) a)
      /\ is_valid_position G g ag (move_position (apos ag) a) = true /\ a <> 0).
Proof.
  unfold step_agent. destruct (is_valid_position G g ag (move_position (apos ag) a)) eqn:V; [|left; reflexivity].
  destruct (a =? 0) eqn:E; cbn [negb andb]; [left; reflexivity|right]. cbn [move_agent fst]. repeat split. lia.
Qed.

Lemma valid_not_connected G g ag p : is_valid_position G g ag p = true -> connected ag = false.
Proof. unfold is_valid_position. rewrite !andb_true_iff, negb_true_iff. tauto. Qed.

(* per index k: the new agent k is the old one, or the old one moved by a valid move *)
Lemma step_agents_nth G N g ags acts k :
  0 <= N -> zlen ags = N -> zlen acts = N -> 0 <= k < N ->
  let o := znth dflt ags k in let n := znth dflt (fst (step_agents G N g ags acts)) k in
  n = o \/ (n = mkA (aid o) (astart o) (atarget o) (move_position (apos o) (znth 0 acts k))
            /\ is_valid_position G g o (move_position (apos o) (znth 0 acts k)) = true /\ znth 0 acts k <> 0).
Proof.
  intros HN La Lc Hk. cbv zeta. unfold step_agents. cbn [fst].
  set (res := map2 (fun ag a => step_agent G ag g a) ags acts).
  assert (Lr : zlen res = N) by (unfold res; rewrite zlen_map2; lia).
  rewrite (znth_map2 _ _ _ false (dflt, dflt) dflt); [| rewrite zlen_map, zlen_zrange; lia | rewrite zlen_combine, zlen_map; lia].
  assert (E : znth (dflt, dflt) (combine ags (map fst res)) k = (znth dflt ags k, fst (step_agent G (znth dflt ags k) g (znth 0 acts k)))).
  { unfold res. clear Lr res. rewrite !znth_nth by lia. revert La Lc Hk. unfold zlen. intros La Lc Hk.
    assert (Hn : (Z.to_nat k < length ags)%nat /\ (Z.to_nat k < length acts)%nat) by lia. destruct Hn as [H1 H2].
    clear La Lc Hk. revert acts H1 H2. generalize (Z.to_nat k) as n.
    induction ags as [|x ags IH]; intros n [|y acts] H1 H2; cbn [length] in *; try lia.
    destruct n; cbn [map2 map combine nth]; auto. apply IH; lia. }
  rewrite E. cbn [fst snd]. destruct (znth false _ k); [left; reflexivity|]. apply step_agent_fst.
Qed.

Lemma connected_absorbing G N g ags acts k :
  0 <= N -> zlen ags = N -> zlen acts = N -> 0 <= k < N ->
  connected (znth dflt ags k) = true -> znth dflt (fst (step_agents G N g ags acts)) k = znth dflt ags k.
Proof.
  intros HN La Lc Hk C. destruct (step_agents_nth G N g ags acts k HN La Lc Hk) as [E|(E & V & _)]; [exact E|].
  apply valid_not_connected in V. congruence.
Qed.

(* ---------- C08: rewards and returns ---------- *)
Definition conn (s : state) (k : Z) : bool := connected (znth dflt (agents s) k).

Lemma reward_k c s acts k :
  wf c s acts -> 0 <= k < nag c ->
  znth 0 (reward (tsof c s acts)) k =
  crew c * b2z (negb (conn s k) && conn (next c s acts) k) + trew c * b2z (negb (conn s k)).
Proof.
  intros W Hk. pose proof W as (H0 & H1 & H2). rewrite reward_eq.
  rewrite (znth_map2 _ _ _ dflt dflt 0); [reflexivity | lia | rewrite (next_len _ _ _ W); lia].
Qed.

Lemma conn_monotone c s acts k : wf c s acts -> 0 <= k < nag c -> conn s k = true -> conn (next c s acts) k = true.
Proof.
  intros (H0 & H1 & H2) Hk C. unfold conn in *. rewrite next_agents, connected_absorbing; auto.
Qed.

(* documented dense reward: +crew in the step in which the agent connects, trew for every step it starts unconnected *)
Theorem C08_reward_formula c s acts k :
  wf c s acts -> 0 <= k < nag c ->
  znth 0 (reward (tsof c s acts)) k =
  crew c * (b2z (conn (next c s acts) k) - b2z (conn s k)) + trew c * (1 - b2z (conn s k)).
Proof.
  intros W Hk. rewrite reward_k by assumption. pose proof (conn_monotone c s acts k W Hk) as M.
  destruct (conn s k); [rewrite M by reflexivity|]; destruct (conn (next c s acts) k); cbn [negb andb b2z]; lia.
Qed.

Fixpoint ret (c : cfg) (s : state) (plan : list (list Z)) (k : Z) : Z :=
  match plan with [] => 0 | a :: r => znth 0 (reward (tsof c s a)) k + ret c (next c s a) r k end.
Fixpoint unconnected_steps (c : cfg) (s : state) (plan : list (list Z)) (k : Z) : Z :=
  match plan with [] => 0 | a :: r => (1 - b2z (conn s k)) + unconnected_steps c (next c s a) r k end.

Lemma run_cons c s a r : run c s (a :: r) = run c (next c s a) r.
Proof. reflexivity. Qed.

(* the return of agent k over any sequence of joint actions, recomputed from the first and the last state *)
Theorem C08_return c plan : forall s k,
  0 <= nag c -> zlen (agents s) = nag c -> Forall (fun a => zlen a = nag c) plan -> 0 <= k < nag c ->
  ret c s plan k = crew c * (b2z (conn (run c s plan) k) - b2z (conn s k)) + trew c * unconnected_steps c s plan k.
Proof.
  induction plan as [|a plan IH]; intros s k H0 H1 F Hk.
  - cbn [ret run unconnected_steps]. lia.
  - inversion F as [|? ? Fa Fr]; subst. assert (W : wf c s a) by (repeat split; assumption).
    cbn [ret unconnected_steps]. rewrite run_cons, C08_reward_formula by assumption.
    rewrite (IH (next c s a) k H0 (next_len _ _ _ W) Fr Hk). lia.
Qed.

(* ---------- the solvability certificate (C10) ---------- *)
Theorem solve_sound c s sg :
  solves c s (plan_of (gsz c) sg (agents s)) = true ->
  exists plan, all_connected (run c s plan) = true.
Proof. intro H. exists (plan_of (gsz c) sg (agents s)). exact H. Qed.

(* once every agent is connected the step is LAST (given well-shaped lists): the certificate's end state terminates *)
(* ---------- examples ---------- *)
Definition ex_cfg : cfg := mkC 3 2 5 100 (-3).
(* agent 0: head (0,0), target (0,2); agent 1: head (1,1), target (2,2) *)
Definition ex_s0 : state :=
  mkS [[2; 0; 3]; [0; 5; 0]; [0; 0; 6]] 0 [mkA 0 (0, 0) (0, 2) (0, 0); mkA 1 (1, 1) (2, 2) (1, 1)].

(* ---------- heads stay on the grid; an agent whose target is off the grid is never connected ---------- *)
Lemma valid_in_grid G g ag p : is_valid_position G g ag p = true -> in_grid G p = true.
Proof.
  unfold is_valid_position, in_grid, inb. intro H. rewrite !andb_true_iff in H.
  destruct H as [[[[[A B] C] D] _] _]. rewrite A, B, C, D. reflexivity.
Qed.

(* C06/C07 at the level of the agent records: after a step with in-spec actions agent k is unchanged, or it made a move
   that was valid on the OLD grid: its new cell is on the grid and held EMPTY or its own TARGET, and it was not connected *)
Theorem agent_step_cases c s acts k :
  wf c s acts -> 0 <= k < nag c -> dims (gsz c) (grid s) -> 0 <= znth 0 acts k <= 4 ->
  let o := znth dflt (agents s) k in let n := znth dflt (agents (next c s acts)) k in
  n = o \/ (aid n = aid o /\ astart n = astart o /\ atarget n = atarget o /\ 1 <= znth 0 acts k
            /\ apos n = padd (apos o) (dir (znth 0 acts k)) /\ in_grid (gsz c) (apos n) = true
            /\ (cell (grid s) (apos n) = EMPTY \/ cell (grid s) (apos n) = tgtv (aid o)) /\ connected o = false).
Proof.
  intros (H0 & H1 & H2) Hk D IS. cbv zeta. rewrite next_agents.
  destruct (step_agents_nth (gsz c) (nag c) (grid s) (agents s) acts k H0 H1 H2 Hk) as [E|(E & V & NZ)]; [left; exact E|right].
  rewrite E. cbn [aid astart atarget apos]. set (o := znth dflt (agents s) k) in *. set (a := znth 0 acts k) in *.
  rewrite move_position_dir in * by lia.
  pose proof (valid_in_grid _ _ _ _ V) as IG. pose proof (valid_not_connected _ _ _ _ V) as NC.
  split; [reflexivity|]. split; [reflexivity|]. split; [reflexivity|]. split; [lia|]. split; [reflexivity|].
  split; [exact IG|]. split; [|exact NC].
  unfold is_valid_position in V. rewrite !andb_true_iff, orb_true_iff, !Z.eqb_eq in V.
  destruct V as [[[[[A B] C'] D'] O] _]. unfold cell.
  rewrite (gget_gat 0 (gsz c)) in O.
  - exact O.
  - apply (proj1 D).
  - apply dims_row; [assumption|lia].
  - lia.
  - lia.
Qed.

(* an agent whose head is on the grid and whose target is not can never be connected, whatever is played *)
Theorem never_connected c plan : forall s k,
  0 <= nag c -> zlen (agents s) = nag c -> Forall (fun a => zlen a = nag c) plan -> 0 <= k < nag c ->
  in_grid (gsz c) (apos (znth dflt (agents s) k)) = true -> in_grid (gsz c) (atarget (znth dflt (agents s) k)) = false ->
  conn (run c s plan) k = false.
Proof.
  induction plan as [|a plan IH]; intros s k H0 H1 F Hk IP IT.
  - cbn [run]. unfold conn, connected. destruct (pos_eqb _ _) eqn:E; [|reflexivity].
    apply pos_eqb_eq in E. rewrite E in IP. congruence.
  - inversion F as [|? ? Fa Fr]; subst. assert (W : wf c s a) by (repeat split; assumption).
    rewrite run_cons. apply IH; auto; [apply next_len; assumption| |]; rewrite next_agents;
    destruct (step_agents_nth (gsz c) (nag c) (grid s) (agents s) a k H0 H1 Fa Hk) as [E|(E & V & _)]; rewrite E; auto.
    cbn [apos]. eapply valid_in_grid. exact V.
Qed.

(* ---------- C10: RandomWalkGenerator, a model-level witness.  3 x 3 board, 3 agents.  Valid draws: agent 0 starts on
   cell 1 and first moves to 2, agent 1 starts on 3 and moves to 6, agent 2 draws the EMPTY cell 0 whose two neighbours
   are taken: no cell is available, the first move is -1 and is written to the wrapped last cell.  One walk iteration
   (valid choices 5, 7, -1) ends the walk. ---------- *)
Definition wit_init := rw_init 3 3 [(1, 2); (3, 6); (0, -1)].
Definition wit_walk := rw_step 3 3 (fst (fst wit_init)) (snd (fst wit_init)) [5; 7; -1].
Definition wit_state : state := snd (rw_finish 3 3 (snd wit_walk) (fst wit_walk)).
Definition wit_cfg : cfg := mkC 3 3 50 100 (-3).

Lemma wit_facts :
  snd wit_init = true
  /\ forallb (fun x => x) (map2 (rw_choice_ok 3 (fst (fst wit_init))) (snd (fst wit_init)) [5; 7; -1]) = true
  /\ rw_continue 3 (fst (fst wit_init)) (snd (fst wit_init)) = true
  /\ rw_continue 3 (snd wit_walk) (fst wit_walk) = false
  /\ wit_state = mkS [[8; 2; 0]; [5; 0; 3]; [0; 6; 9]] 0
                     [mkA 0 (0, 1) (1, 2) (0, 1); mkA 1 (1, 0) (2, 1) (1, 0); mkA 2 (0, 0) (-1, 2) (0, 0)]
  /\ Physical_b wit_cfg wit_state = false.
Proof. vm_compute. repeat split; reflexivity. Qed.

Lemma run_len c plan : forall s,
  0 <= nag c -> zlen (agents s) = nag c -> Forall (fun a => zlen a = nag c) plan -> zlen (agents (run c s plan)) = nag c.
Proof.
  induction plan as [|a plan IH]; intros s H0 H1 F; [exact H1|].
  inversion F as [|? ? Fa Fr]; subst. rewrite run_cons. apply IH; auto. apply next_len. repeat split; assumption.
Qed.

Lemma forallb_znth_false {A} (f : A -> bool) d l k : 0 <= k < zlen l -> f (znth d l k) = false -> forallb f l = false.
Proof.
  intros Hk Hf. destruct (forallb f l) eqn:E; [|reflexivity]. rewrite forallb_forall in E.
  rewrite <- Hf. symmetry. apply E. rewrite znth_nth by lia. apply nth_In. unfold zlen in Hk. lia.
Qed.

(* the generated instance can never be solved: agent 2's target is off the grid *)
Theorem C10_randomwalk_refuted :
  snd wit_init = true
  /\ forallb (fun x => x) (map2 (rw_choice_ok 3 (fst (fst wit_init))) (snd (fst wit_init)) [5; 7; -1]) = true
  /\ rw_continue 3 (snd wit_walk) (fst wit_walk) = false
  /\ forall T plan, Forall (fun a => zlen a = 3) plan -> all_connected (run (mkC 3 3 T 100 (-3)) wit_state plan) = false.
Proof.
  destruct wit_facts as (A & B & _ & C' & E & _).
  split; [exact A|]. split; [exact B|]. split; [exact C'|].
  intros T plan F. rewrite E. unfold all_connected. set (c := mkC 3 3 T 100 (-3)).
  set (s0 := mkS [[8; 2; 0]; [5; 0; 3]; [0; 6; 9]] 0
                 [mkA 0 (0, 1) (1, 2) (0, 1); mkA 1 (1, 0) (2, 1) (1, 0); mkA 2 (0, 0) (-1, 2) (0, 0)]).
  assert (H0 : 0 <= nag c) by (cbn; lia). assert (H1 : zlen (agents s0) = nag c) by reflexivity.
  apply (forallb_znth_false connected dflt _ 2).
  - rewrite (run_len c plan s0 H0 H1 F). cbn. lia.
  - apply (never_connected c plan s0 2 H0 H1 F); [cbn; lia|reflexivity|reflexivity].
Qed.

Example ex_step :
  let r := step ex_cfg ex_s0 [2; 4] in
  grid (fst (fst r)) = [[1; 2; 3]; [5; 4; 0]; [0; 0; 6]] /\ enc_ts (snd (fst r)) = [MID; -3; -3; 1; 1]
  /\ snd r = [[true; false; true; false; false]; [true; false; false; true; false]].
Proof. vm_compute. repeat split; reflexivity. Qed.

(* three agents contest the centre cell of a 3 x 3 board: the highest id wins, both losers stay (Impl = Rules) *)
Definition ex_s3 : state :=
  mkS [[0; 2; 0]; [5; 0; 8]; [3; 6; 9]] 0 [mkA 0 (0, 1) (2, 0) (0, 1); mkA 1 (1, 0) (2, 1) (1, 0); mkA 2 (1, 2) (2, 2) (1, 2)].
Example ex_contest :
  let c := mkC 3 3 9 100 (-3) in
  step c ex_s3 [3; 2; 4] = ref_step c ex_s3 [3; 2; 4]
  /\ grid (fst (fst (step c ex_s3 [3; 2; 4]))) = [[0; 2; 0]; [5; 8; 7]; [3; 6; 9]]
  /\ map apos (agents (fst (fst (step c ex_s3 [3; 2; 4])))) = [(0, 1); (1, 0); (1, 1)]
  /\ Physical_b c ex_s3 = true /\ Physical_b c (fst (fst (step c ex_s3 [3; 2; 4]))) = true.
Proof. vm_compute. repeat split; reflexivity. Qed.

(* ---------- C01 (shape part): the successor grid is G x G, the mask is N x 5, step_count stays within [0, limit] ---------- *)
Lemma tab_dims {A} G (f : Z -> Z -> A) : 0 <= G -> zlen (tab G G f) = G /\ Forall (fun r => zlen r = G) (tab G G f).
Proof.
  intro H. unfold tab. split; [rewrite zlen_map, zlen_zrange; lia|].
  rewrite Forall_forall. intros r Hr. apply in_map_iff in Hr as (x & <- & _). rewrite zlen_map, zlen_zrange; lia.
Qed.

Lemma next_dims c s acts : 0 <= gsz c -> dims (gsz c) (grid (next c s acts)).
Proof. intro H. rewrite next_grid. unfold step_agents. cbn [snd]. apply tab_dims. exact H. Qed.

Theorem C01_shape c s acts :
  0 <= gsz c -> wf c s acts -> 0 <= cnt s < tlim c ->
  dims_b (gsz c) (grid (next c s acts)) = true
  /\ zlen (maskof c s acts) = nag c /\ forallb (fun r => zlen r =? 5) (maskof c s acts) = true
  /\ 0 <= cnt (next c s acts) <= tlim c.
Proof.
  intros HG W HC. pose proof (next_dims c s acts HG) as [D1 D2]. split.
  - unfold dims_b. rewrite D1, Z.eqb_refl. cbn [andb]. rewrite forallb_forall. rewrite Forall_forall in D2.
    intros r Hr. rewrite (D2 r Hr). apply Z.eqb_refl.
  - rewrite maskof_eq, zlen_map, (next_len _ _ _ W), next_cnt. split; [reflexivity|]. split; [|lia].
    rewrite forallb_forall. intros r Hr. apply in_map_iff in Hr as (ag & <- & _). reflexivity.
Qed.

(* ---------- the boolean checkers run on implementation states decide the declarative predicates ---------- *)
Lemma dims_b_spec G g : dims_b G g = true <-> dims G g.
Proof.
  unfold dims_b, dims. rewrite andb_true_iff, Z.eqb_eq, forallb_forall, Forall_forall.
  split; intros [A B]; split; auto; intros r Hr; specialize (B r Hr); lia.
Qed.

Lemma forallb_zrange (f : Z -> bool) n : forallb f (zrange n) = true <-> (forall k, 0 <= k < n -> f k = true).
Proof. rewrite forallb_forall. split; intros H k Hk; apply H; apply in_zrange; assumption. Qed.

Lemma agent_ok_b_spec G g k ag : agent_ok_b G g k ag = true <-> agent_ok G g k ag.
Proof.
  unfold agent_ok_b, agent_ok. rewrite !andb_true_iff, orb_true_iff, !Z.eqb_eq. tauto.
Qed.

Lemma cell_ok_b_spec N ags p v : cell_ok_b N ags p v = true <-> cell_ok N ags p v.
Proof.
  unfold cell_ok_b, cell_ok, EMPTY, pathv, posv, tgtv. rewrite orb_true_iff, Z.eqb_eq. split.
  - intros [E|H]; [left; exact E|right]. rewrite !andb_true_iff in H. destruct H as [[H1 H2] H3].
    exists ((v - 1) / 3). split; [lia|]. rewrite !orb_true_iff, !andb_true_iff, !Z.eqb_eq, !pos_eqb_eq in H3.
    destruct H3 as [[E|[E Q]]|[E Q]]; [left; exact E|right; left; split; assumption|right; right; split; assumption].
  - intros [E|(k & Hk & H)]; [left; exact E|right]. rewrite !andb_true_iff.
    assert (K : (v - 1) / 3 = k) by (destruct H as [E|[[E _]|[E _]]]; lia).
    split; [split; destruct H as [E|[[E _]|[E _]]]; lia|].
    rewrite K. rewrite !orb_true_iff, !andb_true_iff, !Z.eqb_eq, !pos_eqb_eq.
    destruct H as [E|[[E Q]|[E Q]]]; [left; left; exact E|left; right; split; assumption|right; split; assumption].
Qed.

Theorem Physical_b_spec c s : Physical_b c s = true <-> Physical c s.
Proof.
  unfold Physical_b, Physical. rewrite !andb_true_iff, dims_b_spec, Z.eqb_eq, !forallb_zrange.
  split.
  - intros [[[A B] C] D]. split; [exact A|]. split; [exact B|]. split.
    + intros k Hk. apply agent_ok_b_spec. apply C. exact Hk.
    + intros r k Hr Hk. apply cell_ok_b_spec. specialize (D r Hr). rewrite forallb_zrange in D. apply D. exact Hk.
  - intros (A & B & C & D). split; [split; [split; [exact A|exact B]|]|].
    + intros k Hk. apply agent_ok_b_spec. apply C. exact Hk.
    + intros r Hr. rewrite forallb_zrange. intros k Hk. apply cell_ok_b_spec. apply D; assumption.
Qed.

(* in a Physical state heads are unique: a POSITION code of agent k sits at agent k's stored position and nowhere else,
   and two agents never share a head cell *)
Theorem Physical_heads_unique c s r k j :
  Physical c s -> 0 <= r < gsz c -> 0 <= k < gsz c -> 0 <= j < nag c ->
  (gat 0 (grid s) r k = posv j <-> apos (znth dflt (agents s) j) = (r, k)).
Proof.
  intros (D & L & A & C) Hr Hk Hj. split.
  - intro E. destruct (C r k Hr Hk) as [Z0|(i & Hi & H)]; [unfold EMPTY, posv in *; lia|].
    rewrite E in H. unfold pathv, posv, tgtv in H.
    destruct H as [Q|[[Q P]|[Q _]]]; try lia. assert (i = j) by lia. subst i. exact P.
  - intro E. destruct (A j Hj) as (_ & _ & _ & H & _). unfold cell in H. rewrite E in H. exact H.
Qed.
