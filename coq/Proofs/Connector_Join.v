(* Connector: the max-join collision theorem.  The code's simultaneous step ([step_agents]: every agent steps on the OLD
   grid, per-agent grids filtered and joined by max, an agent whose POSITION value vanished from the join is reverted and
   its old cell bumped back) equals the sequential reference rule ([seq_agents]: highest id first, every agent judged on
   the current grid, the loser stays) on every Physical state, for any number of agents contending for a cell.
   Both are shown to produce the same closed description: agent k WINS iff its move is legal on the old grid and no
   higher id proposes the same cell; the new grid is the old one with, for every winner, POSITION at its destination and
   PATH at its old head ([GridSpec]). *)
Require Import JV.Base.Prelude JV.Base.JaxIndex JV.Base.Codec JV.Base.TimeStep JV.Model.Connector JV.Proofs.Connector
  JV.Proofs.Connector_Lists.

Ltac vals := unfold EMPTY, posv, tgtv, pathv in *; lia.

Lemma keepv_zero k : keepv k 0 = 0.
Proof. unfold keepv, posv, tgtv, pathv. destruct (0 =? 2 + 3 * k) eqn:A, (0 =? 3 + 3 * k) eqn:B, (0 =? 1 + 3 * k) eqn:C'; cbn [b2z]; lia. Qed.

Lemma keepv_cases k v : keepv k v = if (v =? posv k) || (v =? tgtv k) || (v =? pathv k) then v else 0.
Proof.
  unfold keepv, posv, tgtv, pathv. destruct (v =? 2 + 3 * k) eqn:A, (v =? 3 + 3 * k) eqn:B, (v =? 1 + 3 * k) eqn:C'; cbn [b2z orb]; lia.
Qed.

Lemma legal_b_move G g ag a :
  1 <= a <= 4 ->
  legal_b G g ag a = in_grid G (padd (apos ag) (dir a))
                     && ((cell g (padd (apos ag) (dir a)) =? EMPTY) || (cell g (padd (apos ag) (dir a)) =? tgtv (aid ag)))
                     && negb (pos_eqb (apos ag) (atarget ag)).
Proof.
  intro H. unfold legal_b. replace (a =? 0) with false by lia. replace (1 <=? a) with true by lia.
  replace (a <=? 4) with true by lia. reflexivity.
Qed.

Lemma dir_nonzero a : 1 <= a <= 4 -> dir a <> (0, 0).
Proof.
  intro H. unfold dir. assert (C : a = 1 \/ a = 2 \/ a = 3 \/ a = 4) by lia.
  destruct C as [->|[->|[->| ->]]]; cbn [Z.eqb Pos.eqb]; intro E; inversion E.
Qed.

Lemma skipn_nth_cons {A} (d : A) l : forall n, (n < length l)%nat -> skipn n l = nth n l d :: skipn (S n) l.
Proof.
  induction l as [|x l IH]; intros n H; cbn [length] in H; [lia|].
  destruct n; [reflexivity|]. cbn [skipn nth]. rewrite IH by lia. reflexivity.
Qed.

Lemma map_ext_zrange_sum (f h : Z -> Z) n : (forall k, 0 <= k < n -> f k = h k) -> zsum (map f (zrange n)) = zsum (map h (zrange n)).
Proof. intro H. f_equal. apply map_ext_zrange. exact H. Qed.

Section Join.
Variables (G N : Z) (g : list (list Z)) (ags : list agent) (acts : list Z).
Hypothesis HD : dims G g.
Hypothesis HN : 0 <= N.
Hypothesis La : zlen ags = N.
Hypothesis Lc : zlen acts = N.
Hypothesis Hact : forall k, 0 <= k < N -> 0 <= znth 0 acts k <= 4.
Hypothesis HA : forall k, 0 <= k < N -> agent_ok G g k (znth dflt ags k).
Hypothesis HC : forall r c, 0 <= r < G -> 0 <= c < G -> cell_ok N ags (r, c) (gat 0 g r c).

Definition ag (k : Z) : agent := znth dflt ags k.
Definition ac (k : Z) : Z := znth 0 acts k.
Definition dest (k : Z) : Z * Z := padd (apos (ag k)) (dir (ac k)).
(* agent k proposes a move: legal on the OLD grid and not the no-op *)
Definition prop (k : Z) : bool := legal_b G g (ag k) (ac k) && negb (ac k =? 0).
(* it wins when no higher id proposes the same cell *)
Definition win (k : Z) : bool :=
  prop k && negb (existsb (fun j => (k <? j) && prop j && pos_eqb (dest j) (dest k)) (zrange N)).
Definition moved (k : Z) : agent := mkA (aid (ag k)) (astart (ag k)) (atarget (ag k)) (dest k).
Definition newag (k : Z) : agent := if win k then moved k else ag k.

(* ---------- facts about the old state ---------- *)
Lemma cell_okp p : in_grid G p = true -> cell_ok N ags p (cell g p).
Proof. intro I. apply in_grid_range in I. destruct p as [r c]. cbn [fst snd] in I. unfold cell. cbn [fst snd]. apply HC; lia. Qed.

Lemma head k : 0 <= k < N -> in_grid G (apos (ag k)) = true /\ cell g (apos (ag k)) = posv k /\ aid (ag k) = k.
Proof. intro Hk. destruct (HA k Hk) as (A & B & _ & D & _). unfold ag. auto. Qed.

Lemma head_inj p k : in_grid G p = true -> 0 <= k < N -> cell g p = posv k -> apos (ag k) = p.
Proof.
  intros I Hk E. destruct (cell_okp p I) as [Z0|(i & Hi & H)]; [vals|]. rewrite E in H.
  destruct H as [Q|[[Q P]|[Q _]]]; try vals. assert (i = k) by vals. subst i. exact P.
Qed.

Lemma cell_cases p : in_grid G p = true ->
  cell g p = 0 \/ exists k, 0 <= k < N /\ (cell g p = pathv k \/ cell g p = posv k \/ cell g p = tgtv k).
Proof.
  intro I. destruct (cell_okp p I) as [Z0|(i & Hi & H)]; [left; exact Z0|right]. exists i. split; [exact Hi|]. tauto.
Qed.

Lemma prop_inv k : 0 <= k < N -> prop k = true ->
  in_grid G (dest k) = true /\ (cell g (dest k) = 0 \/ cell g (dest k) = tgtv k) /\ connected (ag k) = false /\ 1 <= ac k <= 4.
Proof.
  intros Hk P. unfold prop in P. apply andb_true_iff in P as [L NZ]. pose proof (Hact k Hk) as R. fold (ac k) in R.
  assert (R' : 1 <= ac k <= 4) by lia. rewrite legal_b_move in L by exact R'. fold (dest k) in L.
  destruct (head k Hk) as (_ & _ & I). rewrite I in L. unfold connected.
  apply andb_true_iff in L as [L1 L3]. apply andb_true_iff in L1 as [L1 L2]. apply negb_true_iff in L3.
  split; [exact L1|]. split; [unfold EMPTY in L2; lia|]. split; [exact L3|exact R'].
Qed.

Lemma prop_intro k : 0 <= k < N -> 1 <= ac k <= 4 -> in_grid G (dest k) = true ->
  (cell g (dest k) = 0 \/ cell g (dest k) = tgtv k) -> connected (ag k) = false -> prop k = true.
Proof.
  intros Hk R I C NC. unfold prop. rewrite legal_b_move by exact R. fold (dest k). destruct (head k Hk) as (_ & _ & Ia). rewrite Ia.
  unfold connected in NC. rewrite I, NC. unfold EMPTY. replace (ac k =? 0) with false by lia. cbn [andb negb]. lia.
Qed.

Lemma win_prop k : win k = true -> prop k = true.
Proof. unfold win. intro H. apply andb_true_iff in H as [H _]. exact H. Qed.

Lemma win_no_higher k j : 0 <= k -> win k = true -> k < j < N -> prop j = true -> dest j <> dest k.
Proof.
  unfold win. intros H0 H Hj P E. apply andb_true_iff in H as [_ H]. apply negb_true_iff in H.
  rewrite existsb_zrange_false in H. specialize (H j ltac:(lia)). rewrite P in H.
  assert (Q : pos_eqb (dest j) (dest k) = true) by (apply pos_eqb_eq; exact E). rewrite Q in H.
  replace (k <? j) with true in H by lia. discriminate.
Qed.

Lemma win_intro k : prop k = true -> (forall j, k < j < N -> prop j = true -> dest j <> dest k) -> win k = true.
Proof.
  intros P H. unfold win. rewrite P. cbn [andb]. apply negb_true_iff. apply existsb_zrange_false. intros j Hj.
  destruct (k <? j) eqn:E1; [|reflexivity]. destruct (prop j) eqn:E2; [|reflexivity]. cbn [andb].
  destruct (pos_eqb (dest j) (dest k)) eqn:E3; [|reflexivity]. apply pos_eqb_eq in E3. exfalso. apply (H j); [lia|exact E2|exact E3].
Qed.

(* among the proposers of a cell with id >= lo the highest one wins *)
Lemma max_proposer lo p : 0 <= lo ->
  (exists j, lo <= j < N /\ prop j = true /\ dest j = p) -> exists k, lo <= k < N /\ win k = true /\ dest k = p.
Proof.
  intros Hlo (j & Hj & Pj & Dj).
  destruct (bounded_last_Z (fun i => prop i && pos_eqb (dest i) p) lo N) as [(k & Hk & Pk & Hl)|Hn].
  - apply andb_true_iff in Pk as [Pk Dk]. apply pos_eqb_eq in Dk. exists k. split; [exact Hk|]. split; [|exact Dk].
    apply win_intro; [exact Pk|]. intros i Hi Pi Di. specialize (Hl i ltac:(lia)). rewrite Pi in Hl. cbn [andb] in Hl.
    assert (Q : pos_eqb (dest i) p = true) by (apply pos_eqb_eq; congruence). congruence.
  - specialize (Hn j Hj). rewrite Pj in Hn. cbn [andb] in Hn.
    assert (Q : pos_eqb (dest j) p = true) by (apply pos_eqb_eq; exact Dj). congruence.
Qed.

(* a destination is never a head cell of the old grid *)
Lemma dest_not_head k j : 0 <= k < N -> 0 <= j < N -> prop k = true -> dest k <> apos (ag j).
Proof.
  intros Hk Hj P E. destruct (prop_inv k Hk P) as (_ & C & _). destruct (head j Hj) as (_ & H & _). rewrite E in C. vals.
Qed.

Lemma heads_distinct k j : 0 <= k < N -> 0 <= j < N -> apos (ag k) = apos (ag j) -> k = j.
Proof.
  intros Hk Hj E. destruct (head k Hk) as (_ & A & _). destruct (head j Hj) as (_ & B & _). rewrite E in A. vals.
Qed.

(* every cell is the destination of a winner, or nobody proposes it and it is / is not the head of a proposer *)
Lemma tri p :
  (exists k, 0 <= k < N /\ win k = true /\ dest k = p)
  \/ ((forall k, 0 <= k < N -> prop k = true -> dest k <> p)
      /\ ((exists k, 0 <= k < N /\ prop k = true /\ apos (ag k) = p)
          \/ (forall k, 0 <= k < N -> prop k = true -> apos (ag k) <> p))).
Proof.
  destruct (bounded_last_Z (fun i => prop i && pos_eqb (dest i) p) 0 N) as [(k & Hk & Pk & _)|Hn].
  - left. apply andb_true_iff in Pk as [Pk Dk]. apply pos_eqb_eq in Dk. apply (max_proposer 0 p); [lia|]. exists k. auto.
  - right. split.
    + intros k Hk Pk Dk. specialize (Hn k Hk). rewrite Pk in Hn. cbn [andb] in Hn.
      assert (Q : pos_eqb (dest k) p = true) by (apply pos_eqb_eq; exact Dk). congruence.
    + destruct (bounded_last_Z (fun i => prop i && pos_eqb (apos (ag i)) p) 0 N) as [(k & Hk & Pk & _)|Hm].
      * left. apply andb_true_iff in Pk as [Pk Dk]. apply pos_eqb_eq in Dk. exists k. auto.
      * right. intros k Hk Pk Dk. specialize (Hm k Hk). rewrite Pk in Hm. cbn [andb] in Hm.
        assert (Q : pos_eqb (apos (ag k)) p = true) by (apply pos_eqb_eq; exact Dk). congruence.
Qed.

(* ---------- the closed description of the new grid ---------- *)
Definition GridSpec (m : Z) (F : list (list Z)) : Prop :=
  dims G F /\ forall p, in_grid G p = true ->
    (forall k, m <= k < N -> win k = true -> dest k = p -> cell F p = posv k)
    /\ (forall k, m <= k < N -> win k = true -> apos (ag k) = p -> cell F p = pathv k)
    /\ ((forall k, m <= k < N -> win k = true -> dest k <> p /\ apos (ag k) <> p) -> cell F p = cell g p).

Lemma GridSpec_unique m F1 F2 : GridSpec m F1 -> GridSpec m F2 -> F1 = F2.
Proof.
  intros [D1 S1] [D2 S2]. apply (grid_ext G); [exact D1|exact D2|]. intros r c Hr Hc.
  assert (I : in_grid G (r, c) = true) by (apply in_grid_range; cbn [fst snd]; lia).
  destruct (S1 _ I) as (A1 & B1 & C1). destruct (S2 _ I) as (A2 & B2 & C2). change (cell F1 (r, c) = cell F2 (r, c)).
  destruct (bounded_last_Z (fun i => win i && pos_eqb (dest i) (r, c)) m N) as [(k & Hk & Pk & _)|Hn].
  - apply andb_true_iff in Pk as [Pk Dk]. apply pos_eqb_eq in Dk. rewrite (A1 k Hk Pk Dk), (A2 k Hk Pk Dk). reflexivity.
  - destruct (bounded_last_Z (fun i => win i && pos_eqb (apos (ag i)) (r, c)) m N) as [(k & Hk & Pk & _)|Hm].
    + apply andb_true_iff in Pk as [Pk Dk]. apply pos_eqb_eq in Dk. rewrite (B1 k Hk Pk Dk), (B2 k Hk Pk Dk). reflexivity.
    + assert (X : forall k, m <= k < N -> win k = true -> dest k <> (r, c) /\ apos (ag k) <> (r, c)).
      { intros k Hk Wk. specialize (Hn k Hk). specialize (Hm k Hk). rewrite Wk in Hn, Hm. cbn [andb] in Hn, Hm.
        split; intro E; apply pos_eqb_eq in E; congruence. }
      rewrite (C1 X), (C2 X). reflexivity.
Qed.

(* ---------- Rules side: the sequential pass, highest id first ---------- *)
Lemma spec_lose m F : 0 <= m < N -> win m = false -> GridSpec (m + 1) F -> GridSpec m F.
Proof.
  intros Hm W [D S]. split; [exact D|]. intros p I. destruct (S p I) as (A & B & C'). split; [|split].
  - intros k Hk Wk E. apply A; [|exact Wk|exact E]. assert (k <> m) by congruence. lia.
  - intros k Hk Wk E. apply B; [|exact Wk|exact E]. assert (k <> m) by congruence. lia.
  - intros H. apply C'. intros k Hk Wk. apply H; [lia|exact Wk].
Qed.

Lemma spec_win m F : 0 <= m < N -> win m = true -> GridSpec (m + 1) F ->
  GridSpec m (gput (gput F (dest m) (posv (aid (ag m)))) (apos (ag m)) (pathv (aid (ag m)))).
Proof.
  intros Hm W [D S]. pose proof (win_prop m W) as P. destruct (prop_inv m Hm P) as (Id & Cd & _ & _).
  destruct (head m Hm) as (Ih & Ch & Ia). rewrite Ia.
  rewrite (gput_gset G F) by assumption.
  assert (D1 : dims G (gset F (fst (dest m)) (snd (dest m)) (posv m))).
  { apply in_grid_range in Id. apply gset_dims; (assumption || lia). }
  rewrite (gput_gset G _ (apos (ag m))) by assumption.
  split. { apply in_grid_range in Ih. apply gset_dims; (assumption || lia). }
  intros p I. rewrite (cell_gset G) by assumption. rewrite (cell_gset G) by assumption.
  assert (NE : dest m <> apos (ag m)) by (apply dest_not_head; assumption).
  destruct (S p I) as (A & B & C'). split; [|split].
  - intros k Hk Wk E. destruct (Z.eq_dec k m) as [->|NK].
    + destruct (pos_eqb p (apos (ag m))) eqn:E1; [apply pos_eqb_eq in E1; congruence|].
      destruct (pos_eqb p (dest m)) eqn:E2; [reflexivity|]. assert (X : pos_eqb p (dest m) = true) by (apply pos_eqb_eq; auto). congruence.
    + destruct (pos_eqb p (apos (ag m))) eqn:E1.
      { apply pos_eqb_eq in E1. exfalso. apply (dest_not_head k m); [lia|lia|apply win_prop; exact Wk|congruence]. }
      destruct (pos_eqb p (dest m)) eqn:E2.
      { apply pos_eqb_eq in E2. exfalso. apply (win_no_higher m k); [lia|exact W|lia|apply win_prop; exact Wk|congruence]. }
      apply A; [lia|exact Wk|exact E].
  - intros k Hk Wk E. destruct (Z.eq_dec k m) as [->|NK].
    + destruct (pos_eqb p (apos (ag m))) eqn:E1; [reflexivity|]. assert (X : pos_eqb p (apos (ag m)) = true) by (apply pos_eqb_eq; auto). congruence.
    + destruct (pos_eqb p (apos (ag m))) eqn:E1.
      { apply pos_eqb_eq in E1. exfalso. apply NK. apply heads_distinct; [lia|lia|congruence]. }
      destruct (pos_eqb p (dest m)) eqn:E2.
      { apply pos_eqb_eq in E2. exfalso. apply (dest_not_head m k); [lia|lia|exact P|congruence]. }
      apply B; [lia|exact Wk|exact E].
  - intros H. destruct (H m ltac:(lia) W) as [H1 H2].
    destruct (pos_eqb p (apos (ag m))) eqn:E1; [apply pos_eqb_eq in E1; congruence|].
    destruct (pos_eqb p (dest m)) eqn:E2; [apply pos_eqb_eq in E2; congruence|].
    apply C'. intros k Hk Wk. apply H; [lia|exact Wk].
Qed.

(* judged on the grid left by the higher ids, agent m's move is legal exactly when it wins *)
Lemma legal_on_spec m F : 0 <= m < N -> GridSpec (m + 1) F ->
  legal_b G F (ag m) (ac m) && negb (ac m =? 0) = win m.
Proof.
  intros Hm [D S]. pose proof (Hact m Hm) as R. fold (ac m) in R.
  destruct (Z.eq_dec (ac m) 0) as [Z0|NZ].
  { unfold win, prop. rewrite Z0. cbn [Z.eqb negb]. rewrite !andb_false_r. reflexivity. }
  assert (R' : 1 <= ac m <= 4) by lia. destruct (head m Hm) as (Ih & Ch & Ia).
  apply eq_true_iff_eq. split.
  - intro L. apply andb_true_iff in L as [L _]. rewrite legal_b_move in L by exact R'. fold (dest m) in L. rewrite Ia in L.
    apply andb_true_iff in L as [L1 L3]. apply andb_true_iff in L1 as [L1 L2]. apply negb_true_iff in L3.
    destruct (S _ L1) as (A & B & C').
    (* no winner above m touches the destination *)
    assert (X : forall k, m + 1 <= k < N -> win k = true -> dest k <> dest m /\ apos (ag k) <> dest m).
    { intros k Hk Wk. split; intro E.
      - rewrite (A k Hk Wk E) in L2. vals.
      - rewrite (B k Hk Wk E) in L2. vals. }
    rewrite (C' X) in L2.
    assert (P : prop m = true) by (apply prop_intro; [exact Hm|exact R'|exact L1|unfold EMPTY in L2; lia|exact L3]).
    apply win_intro; [exact P|]. intros j Hj Pj Dj.
    destruct (max_proposer (m + 1) (dest m) ltac:(lia)) as (k & Hk & Wk & Dk); [exists j; split; [lia|auto]|].
    apply (proj1 (X k Hk Wk)). exact Dk.
  - intro W. pose proof (win_prop m W) as P. destruct (prop_inv m Hm P) as (Id & Cd & NC & _).
    replace (ac m =? 0) with false by lia. rewrite andb_true_r. rewrite legal_b_move by exact R'. fold (dest m). rewrite Ia.
    unfold connected in NC. rewrite Id, NC. cbn [andb negb]. rewrite andb_true_r.
    destruct (S _ Id) as (A & B & C').
    assert (X : forall k, m + 1 <= k < N -> win k = true -> dest k <> dest m /\ apos (ag k) <> dest m).
    { intros k Hk Wk. split; intro E.
      - apply (win_no_higher m k); [lia|exact W|lia|apply win_prop; exact Wk|exact E].
      - apply (dest_not_head m k); [lia|lia|exact P|congruence]. }
    rewrite (C' X). unfold EMPTY. lia.
Qed.

Definition seqfrom (n : nat) : list agent * list (list Z) :=
  fold_right (fun (x : agent * Z) st => seq_one G (fst x) (snd x) st) ([], g) (skipn n (combine ags acts)).

Lemma seq_inv : forall d n, (n + d = Z.to_nat N)%nat ->
  exists F, seqfrom n = (map newag (zrange_from (Z.of_nat n) d), F) /\ GridSpec (Z.of_nat n) F.
Proof.
  assert (LA : length ags = Z.to_nat N) by (unfold zlen in La; lia).
  assert (LC : length acts = Z.to_nat N) by (unfold zlen in Lc; lia).
  induction d as [|d IH]; intros n E.
  - exists g. split.
    + unfold seqfrom. rewrite skipn_all2; [reflexivity|]. rewrite combine_length. lia.
    + split; [exact HD|]. intros p I. split; [|split]; try (intros; lia).
  - destruct (IH (S n) ltac:(lia)) as (F & EF & SF).
    assert (Hm : 0 <= Z.of_nat n < N) by lia.
    replace (Z.of_nat (S n)) with (Z.of_nat n + 1) in * by lia.
    unfold seqfrom in *. rewrite (skipn_nth_cons (dflt, 0)) by (rewrite combine_length; lia).
    cbn [fold_right]. rewrite EF. rewrite combine_nth by lia. cbn [fst snd].
    replace (nth n ags dflt) with (ag (Z.of_nat n)) by (unfold ag; rewrite znth_nth by lia; rewrite Nat2Z.id; reflexivity).
    replace (nth n acts 0) with (ac (Z.of_nat n)) by (unfold ac; rewrite znth_nth by lia; rewrite Nat2Z.id; reflexivity).
    unfold seq_one. cbn [fst snd]. rewrite (legal_on_spec _ F Hm SF). cbn [zrange_from map].
    change (newag (Z.of_nat n)) with (if win (Z.of_nat n) then moved (Z.of_nat n) else ag (Z.of_nat n)).
    destruct (win (Z.of_nat n)) eqn:W.
    + eexists. split; [reflexivity|]. apply spec_win; assumption.
    + exists F. split; [reflexivity|]. apply spec_lose; assumption.
Qed.

Lemma seq_agents_spec : exists F, seq_agents G g ags acts = (map newag (zrange N), F) /\ GridSpec 0 F.
Proof. destruct (seq_inv (Z.to_nat N) 0 ltac:(lia)) as (F & E & S). exists F. split; [exact E|exact S]. Qed.

(* ---------- Impl side: the simultaneous step in index form ---------- *)
Definition SA (k : Z) : agent * list (list Z) := step_agent G (ag k) g (ac k).
Definition Vf (k r c : Z) : Z := keepv k (gat 0 (snd (SA k)) r c).
Definition Jf (r c : Z) : Z := maxl (map (fun k => Vf k r c) (zrange N)).
Definition collf (k : Z) : bool := negb (existsb (existsb (Z.eqb (posv k))) (tab G G Jf)).
Definition corrf (r c : Z) : Z := zsum (map (fun k => b2z (gat 0 g r c =? posv k) * 1 * b2z (collf k)) (zrange N)).

Lemma tab_ext {A} n m (f h : Z -> Z -> A) : (forall r c, f r c = h r c) -> tab n m f = tab n m h.
Proof. intro H. unfold tab. apply map_ext. intro r. apply map_ext. intro c. apply H. Qed.

Lemma step_agents_tab :
  step_agents G N g ags acts =
  (map (fun k => if collf k then ag k else fst (SA k)) (zrange N), tab G G (fun r c => gat 0 (tab G G Jf) r c + corrf r c)).
Proof.
  assert (Ea : ags = map ag (zrange N)) by (apply as_zrange; assumption).
  assert (Ec : acts = map ac (zrange N)) by (apply as_zrange; assumption).
  unfold step_agents. cbv zeta.
  assert (E1 : map2 (fun a0 a => step_agent G a0 g a) ags acts = map SA (zrange N)).
  { rewrite Ea, Ec at 1. apply map2_map_map. }
  rewrite E1. rewrite map2_id_map.
  assert (E2 : tab G G (fun r c => maxl (map (fun ag_g : JaxIndex.grid Z => gat 0 ag_g r c)
                                             (map (fun x => map (map (keepv x)) (snd (SA x))) (zrange N)))) = tab G G Jf).
  { apply tab_ext. intros r c. rewrite map_map. unfold Jf. f_equal. apply map_ext. intro k. apply gat_map_map. apply keepv_zero. }
  rewrite E2. fold collf.
  change (map (fun k => negb (existsb (existsb (Z.eqb (posv k))) (tab G G Jf))) (zrange N)) with (map collf (zrange N)).
  f_equal.
  - rewrite Ea at 1. rewrite map_map. rewrite combine_map_map. rewrite map2_map_map. reflexivity.
  - apply tab_ext. intros r c. f_equal. rewrite map2_id_map. reflexivity.
Qed.

Lemma keepv_other j k v : j <> k -> (v = 0 \/ v = tgtv k \/ v = posv k \/ v = pathv k) -> keepv j v = 0.
Proof. intros NE H. rewrite keepv_cases. destruct ((v =? posv j) || (v =? tgtv j) || (v =? pathv j)) eqn:E; [vals|reflexivity]. Qed.

Lemma keepv_own k v : v = tgtv k \/ v = posv k \/ v = pathv k -> keepv k v = v.
Proof. intros H. rewrite keepv_cases. destruct ((v =? posv k) || (v =? tgtv k) || (v =? pathv k)) eqn:E; [reflexivity|vals]. Qed.

Lemma keepv_le k v : 0 <= v -> keepv k v <= v.
Proof. intros H. rewrite keepv_cases. destruct ((v =? posv k) || (v =? tgtv k) || (v =? pathv k)); lia. Qed.

Lemma SA_eq k : 0 <= k < N ->
  SA k = if prop k
         then (moved k, gset (gset g (fst (dest k)) (snd (dest k)) (posv k)) (fst (apos (ag k))) (snd (apos (ag k))) (pathv k))
         else (ag k, g).
Proof.
  intro Hk. pose proof (Hact k Hk) as R. fold (ac k) in R. destruct (head k Hk) as (_ & _ & Ia).
  unfold SA, step_agent, prop. destruct (Z.eq_dec (ac k) 0) as [Z0|NZ].
  - rewrite Z0. cbn [Z.eqb negb]. rewrite !andb_false_r. reflexivity.
  - rewrite valid_legal_b by (exact HD || lia). rewrite move_position_dir by lia. fold (dest k).
    destruct (legal_b G g (ag k) (ac k) && negb (ac k =? 0)); [|reflexivity].
    unfold move_agent, moved. rewrite Ia. reflexivity.
Qed.

Lemma V_eq k p : 0 <= k < N -> in_grid G p = true ->
  Vf k (fst p) (snd p) = if prop k && pos_eqb p (apos (ag k)) then pathv k
                         else if prop k && pos_eqb p (dest k) then posv k else keepv k (cell g p).
Proof.
  intros Hk I. unfold Vf. rewrite (SA_eq k Hk). destruct (prop k) eqn:P; cbn [andb snd]; [|reflexivity].
  destruct (prop_inv k Hk P) as (Id & _). destruct (head k Hk) as (Ih & _).
  change (gat 0 ?x (fst p) (snd p)) with (cell x p).
  assert (D1 : dims G (gset g (fst (dest k)) (snd (dest k)) (posv k))).
  { apply in_grid_range in Id. apply gset_dims; (assumption || lia). }
  rewrite (cell_gset G) by assumption. rewrite (cell_gset G) by assumption.
  destruct (pos_eqb p (apos (ag k))); [apply keepv_own; auto|]. destruct (pos_eqb p (dest k)); [apply keepv_own; auto|reflexivity].
Qed.

Lemma pos_eqb_refl p : pos_eqb p p = true.
Proof. apply pos_eqb_eq. reflexivity. Qed.

Lemma pos_eqb_neq p q : p <> q -> pos_eqb p q = false.
Proof. intro H. destruct (pos_eqb p q) eqn:E; [|reflexivity]. apply pos_eqb_eq in E. contradiction. Qed.

(* the joined grid, cell by cell *)
Lemma J_dest k p : 0 <= k < N -> win k = true -> dest k = p -> Jf (fst p) (snd p) = posv k.
Proof.
  intros Hk W E. pose proof (win_prop k W) as P. destruct (prop_inv k Hk P) as (Id & Cd & _). rewrite E in Id, Cd.
  unfold Jf. apply (maxl_eq (fun j => Vf j (fst p) (snd p))); [vals| |].
  - intros j Hj. rewrite (V_eq j p Hj Id).
    assert (KO : j <> k -> keepv j (cell g p) <= posv k).
    { intro NE. rewrite (keepv_other j k) by (auto || tauto). vals. }
    destruct (prop j) eqn:Pj; cbn [andb].
    + destruct (pos_eqb p (apos (ag j))) eqn:E1.
      { apply pos_eqb_eq in E1. exfalso. apply (dest_not_head k j Hk Hj P). congruence. }
      destruct (pos_eqb p (dest j)) eqn:E2.
      { apply pos_eqb_eq in E2. destruct (Z_le_gt_dec j k) as [LE|GT]; [vals|].
        exfalso. apply (win_no_higher k j); [lia|exact W|lia|exact Pj|congruence]. }
      apply KO. intros ->. rewrite E, pos_eqb_refl in E2. discriminate.
    + apply KO. intros ->. congruence.
  - right. exists k. split; [exact Hk|]. rewrite (V_eq k p Hk Id). rewrite P. cbn [andb].
    rewrite pos_eqb_neq by (intro X; apply (dest_not_head k k Hk Hk P); congruence).
    rewrite <- E, pos_eqb_refl. reflexivity.
Qed.

Lemma J_head k p : 0 <= k < N -> prop k = true -> apos (ag k) = p -> Jf (fst p) (snd p) = pathv k.
Proof.
  intros Hk P E. destruct (head k Hk) as (Ih & Ch & _). rewrite E in Ih, Ch.
  unfold Jf. apply (maxl_eq (fun j => Vf j (fst p) (snd p))); [vals| |].
  - intros j Hj. rewrite (V_eq j p Hj Ih).
    assert (KO : j <> k -> keepv j (cell g p) <= pathv k).
    { intro NE. rewrite (keepv_other j k) by (auto || tauto). vals. }
    destruct (prop j) eqn:Pj; cbn [andb].
    + destruct (pos_eqb p (apos (ag j))) eqn:E1.
      { apply pos_eqb_eq in E1. assert (j = k) by (apply heads_distinct; [lia|lia|congruence]). subst j. lia. }
      destruct (pos_eqb p (dest j)) eqn:E2.
      { apply pos_eqb_eq in E2. exfalso. apply (dest_not_head j k Hj Hk Pj). congruence. }
      apply KO. intros ->. rewrite E, pos_eqb_refl in E1. discriminate.
    + apply KO. intros ->. congruence.
  - right. exists k. split; [exact Hk|]. rewrite (V_eq k p Hk Ih). rewrite P. cbn [andb]. rewrite <- E, pos_eqb_refl. reflexivity.
Qed.

Lemma J_else p : in_grid G p = true ->
  (forall k, 0 <= k < N -> prop k = true -> dest k <> p) -> (forall k, 0 <= k < N -> prop k = true -> apos (ag k) <> p) ->
  Jf (fst p) (snd p) = cell g p.
Proof.
  intros I H1 H2.
  assert (VE : forall j, 0 <= j < N -> Vf j (fst p) (snd p) = keepv j (cell g p)).
  { intros j Hj. rewrite (V_eq j p Hj I). destruct (prop j) eqn:Pj; cbn [andb]; [|reflexivity].
    rewrite pos_eqb_neq by (intro X; apply (H2 j Hj Pj); congruence).
    rewrite pos_eqb_neq by (intro X; apply (H1 j Hj Pj); congruence). reflexivity. }
  assert (NN : 0 <= cell g p) by (destruct (cell_cases p I) as [Z0|(i & Hi & Q)]; vals).
  unfold Jf. apply (maxl_eq (fun j => Vf j (fst p) (snd p))); [exact NN| |].
  - intros j Hj. rewrite (VE j Hj). apply keepv_le. exact NN.
  - destruct (cell_cases p I) as [Z0|(i & Hi & Q)]; [left; exact Z0|right]. exists i. split; [exact Hi|].
    rewrite (VE i Hi). apply keepv_own. tauto.
Qed.

(* an agent collided exactly when it proposed a move and lost *)
Lemma coll_eq k : 0 <= k < N -> collf k = prop k && negb (win k).
Proof.
  intro Hk. unfold collf. destruct (prop k) eqn:P; [destruct (win k) eqn:W|]; cbn [andb negb].
  - apply negb_false_iff. apply existsb_tab. destruct (prop_inv k Hk P) as (Id & _). apply in_grid_range in Id.
    exists (fst (dest k)), (snd (dest k)). split; [lia|]. split; [lia|]. rewrite (J_dest k (dest k) Hk W eq_refl). apply Z.eqb_refl.
  - apply negb_true_iff. destruct (existsb (existsb (Z.eqb (posv k))) (tab G G Jf)) eqn:X; [|reflexivity]. exfalso.
    apply existsb_tab in X as (r & c & Hr & Hc & X). apply Z.eqb_eq in X.
    assert (I : in_grid G (r, c) = true) by (apply in_grid_range; cbn [fst snd]; lia).
    change (posv k = Jf (fst (r, c)) (snd (r, c))) in X. set (p := (r, c)) in *.
    destruct (tri p) as [(j & Hj & Wj & Dj)|(H1 & [(j & Hj & Pj & Aj)|H2])].
    + rewrite (J_dest j p Hj Wj Dj) in X. assert (j = k) by vals. subst j. congruence.
    + rewrite (J_head j p Hj Pj Aj) in X. vals.
    + rewrite (J_else p I H1 H2) in X. apply (H2 k Hk P). apply head_inj; [exact I|exact Hk|symmetry; exact X].
  - assert (W : win k = false) by (destruct (win k) eqn:W; [apply win_prop in W; congruence|reflexivity]).
    apply negb_false_iff. apply existsb_tab. destruct (head k Hk) as (Ih & Ch & _). pose proof Ih as Ih'. apply in_grid_range in Ih'.
    exists (fst (apos (ag k))), (snd (apos (ag k))). split; [lia|]. split; [lia|].
    rewrite (J_else (apos (ag k)) Ih).
    + rewrite Ch. apply Z.eqb_refl.
    + intros j Hj Pj. apply dest_not_head; assumption.
    + intros j Hj Pj E. assert (j = k) by (apply heads_distinct; assumption). subst j. congruence.
Qed.

Lemma corr_zero p : in_grid G p = true -> (forall k, 0 <= k < N -> cell g p = posv k -> collf k = false) ->
  corrf (fst p) (snd p) = 0.
Proof.
  intros I H. unfold corrf. apply zsum_zero_zrange. intros k Hk. change (gat 0 g (fst p) (snd p)) with (cell g p).
  destruct (cell g p =? posv k) eqn:E; [|reflexivity]. rewrite (H k Hk) by lia. reflexivity.
Qed.

Lemma corr_one p k : in_grid G p = true -> 0 <= k < N -> cell g p = posv k -> collf k = true -> corrf (fst p) (snd p) = 1.
Proof.
  intros I Hk E Ck. unfold corrf. change (gat 0 g (fst p) (snd p)) with (cell g p).
  rewrite (zsum_single (fun j => b2z (cell g p =? posv j) * 1 * b2z (collf j)) N k Hk).
  - rewrite E, Z.eqb_refl, Ck. reflexivity.
  - intros j Hj NE. replace (cell g p =? posv j) with false by vals. reflexivity.
Qed.

Lemma G_nonneg : 0 <= G.
Proof. destruct HD as [L _]. pose proof (zlen_nonneg g). lia. Qed.

Lemma impl_spec : GridSpec 0 (tab G G (fun r c => gat 0 (tab G G Jf) r c + corrf r c)).
Proof.
  split; [apply tab_dims; exact G_nonneg|]. intros p I. rewrite (cell_tab G) by exact I.
  pose proof I as I'. apply in_grid_range in I'. rewrite gat_tab by lia. split; [|split].
  - intros k Hk W E. pose proof (win_prop k W) as P. destruct (prop_inv k Hk P) as (_ & Cd & _). rewrite E in Cd.
    rewrite (J_dest k p Hk W E). rewrite corr_zero; [lia|exact I|]. intros j Hj Q. vals.
  - intros k Hk W E. pose proof (win_prop k W) as P. destruct (head k Hk) as (_ & Ch & _). rewrite E in Ch.
    rewrite (J_head k p Hk P E). rewrite corr_zero; [lia|exact I|]. intros j Hj Q. assert (j = k) by vals. subst j.
    rewrite (coll_eq k Hk), P, W. reflexivity.
  - intros H. destruct (tri p) as [(j & Hj & Wj & Dj)|(H1 & [(j & Hj & Pj & Aj)|H2])].
    + exfalso. apply (proj1 (H j Hj Wj)). exact Dj.
    + destruct (head j Hj) as (_ & Ch & _). rewrite Aj in Ch.
      assert (Wj : win j = false) by (destruct (win j) eqn:Wj; [exfalso; apply (proj2 (H j Hj Wj)); exact Aj|reflexivity]).
      rewrite (J_head j p Hj Pj Aj). rewrite (corr_one p j I Hj Ch); [vals|]. rewrite (coll_eq j Hj), Pj, Wj. reflexivity.
    + rewrite (J_else p I H1 H2). rewrite corr_zero; [lia|exact I|]. intros j Hj Q. rewrite (coll_eq j Hj).
      destruct (prop j) eqn:Pj; [|reflexivity]. exfalso. apply (H2 j Hj Pj). apply head_inj; assumption.
Qed.

Lemma impl_agents k : 0 <= k < N -> (if collf k then ag k else fst (SA k)) = newag k.
Proof.
  intro Hk. rewrite (coll_eq k Hk), (SA_eq k Hk). unfold newag. destruct (prop k) eqn:P.
  - destruct (win k); reflexivity.
  - assert (W : win k = false) by (destruct (win k) eqn:W; [apply win_prop in W; congruence|reflexivity]). rewrite W. reflexivity.
Qed.

Lemma step_agents_spec : exists F, step_agents G N g ags acts = (map newag (zrange N), F) /\ GridSpec 0 F.
Proof.
  eexists. split; [|exact impl_spec]. rewrite step_agents_tab. f_equal. apply map_ext_zrange. exact impl_agents.
Qed.

(* the max-join collision theorem at the level of agents and grid *)
Theorem step_agents_eq_seq_agents : step_agents G N g ags acts = seq_agents G g ags acts.
Proof.
  destruct step_agents_spec as (F1 & E1 & S1). destruct seq_agents_spec as (F2 & E2 & S2).
  rewrite E1, E2. f_equal. apply (GridSpec_unique 0); assumption.
Qed.

(* ---------- consequences of the closed description: the new state is Physical, cells change monotonically ---------- *)
Lemma spec_cases F p : GridSpec 0 F -> in_grid G p = true ->
  (exists k, 0 <= k < N /\ win k = true /\ dest k = p /\ cell F p = posv k)
  \/ (exists k, 0 <= k < N /\ win k = true /\ apos (ag k) = p /\ cell F p = pathv k)
  \/ ((forall k, 0 <= k < N -> win k = true -> dest k <> p /\ apos (ag k) <> p) /\ cell F p = cell g p).
Proof.
  intros [D S] I. destruct (S p I) as (A & B & C').
  destruct (bounded_last_Z (fun i => win i && pos_eqb (dest i) p) 0 N) as [(k & Hk & Pk & _)|Hn].
  - left. apply andb_true_iff in Pk as [Pk Dk]. apply pos_eqb_eq in Dk. exists k. auto.
  - destruct (bounded_last_Z (fun i => win i && pos_eqb (apos (ag i)) p) 0 N) as [(k & Hk & Pk & _)|Hm].
    + right. left. apply andb_true_iff in Pk as [Pk Dk]. apply pos_eqb_eq in Dk. exists k. auto.
    + right. right.
      assert (X : forall k, 0 <= k < N -> win k = true -> dest k <> p /\ apos (ag k) <> p).
      { intros k Hk Wk. specialize (Hn k Hk). specialize (Hm k Hk). rewrite Wk in Hn, Hm. cbn [andb] in Hn, Hm.
        split; intro E; apply pos_eqb_eq in E; congruence. }
      split; [exact X|apply C'; exact X].
Qed.

Lemma znth_newags k : 0 <= k < N -> znth dflt (map newag (zrange N)) k = newag k.
Proof. intro Hk. rewrite (znth_map _ 0 dflt) by (rewrite zlen_zrange; lia). rewrite znth_zrange by lia. reflexivity. Qed.

Lemma target_kept F k : GridSpec 0 F -> 0 <= k < N -> in_grid G (atarget (ag k)) = true -> cell g (atarget (ag k)) = tgtv k ->
  (win k = true /\ dest k = atarget (ag k)) \/ cell F (atarget (ag k)) = tgtv k.
Proof.
  intros S Hk I E. destruct (spec_cases F _ S I) as [(j & Hj & Wj & Dj & _)|[(j & Hj & Wj & Aj & _)|(_ & Q)]].
  - destruct (prop_inv j Hj (win_prop j Wj)) as (_ & Cd & _). rewrite Dj in Cd. assert (j = k) by vals. subst j. left. auto.
  - destruct (head j Hj) as (_ & Ch & _). rewrite Aj in Ch. vals.
  - right. congruence.
Qed.

Lemma new_agent_ok F k : GridSpec 0 F -> 0 <= k < N -> agent_ok G F k (newag k).
Proof.
  intros S Hk. destruct (HA k Hk) as (A & B & Ct & D & E). fold (ag k) in A, B, Ct, D, E.
  unfold newag, agent_ok. destruct (win k) eqn:W.
  - pose proof (win_prop k W) as P. destruct (prop_inv k Hk P) as (Id & _ & NC & _). cbn [moved aid apos atarget].
    split; [exact A|]. split; [exact Id|]. split; [exact Ct|]. split.
    + destruct S as [_ S]. destruct (S _ Id) as (X & _). apply (X k Hk W eq_refl).
    + destruct E as [E|E]; [congruence|]. destruct (target_kept F k S Hk Ct E) as [[_ Q]|Q]; [left|right; exact Q].
      unfold connected, moved. cbn [apos atarget]. apply pos_eqb_eq. exact Q.
  - split; [exact A|]. split; [exact B|]. split; [exact Ct|]. split.
    + destruct (spec_cases F _ S B) as [(j & Hj & Wj & Dj & _)|[(j & Hj & Wj & Aj & _)|(_ & Q)]].
      * exfalso. apply (dest_not_head j k Hj Hk (win_prop j Wj)). exact Dj.
      * assert (j = k) by (apply heads_distinct; assumption). subst j. congruence.
      * congruence.
    + destruct E as [E|E]; [left; exact E|]. destruct (target_kept F k S Hk Ct E) as [[Q _]|Q]; [congruence|right; exact Q].
Qed.

Lemma new_cell_ok F p : GridSpec 0 F -> in_grid G p = true -> cell_ok N (map newag (zrange N)) p (cell F p).
Proof.
  intros S I. destruct (spec_cases F _ S I) as [(k & Hk & Wk & Dk & Q)|[(k & Hk & Wk & Ak & Q)|(X & Q)]]; rewrite Q.
  - right. exists k. split; [exact Hk|]. right. left. split; [reflexivity|]. rewrite (znth_newags k Hk). unfold newag. rewrite Wk. exact Dk.
  - right. exists k. split; [exact Hk|]. left. reflexivity.
  - destruct (cell_okp p I) as [Z0|(i & Hi & H)]; [left; exact Z0|right]. exists i. split; [exact Hi|]. fold (ag i) in H.
    rewrite (znth_newags i Hi). destruct H as [H|[[H A]|[H A]]]; [left; exact H|right; left|right; right]; (split; [exact H|]).
    + unfold newag. destruct (win i) eqn:W; [|exact A]. exfalso. apply (proj2 (X i Hi W)). exact A.
    + unfold newag. destruct (win i); exact A.
Qed.

Lemma new_cell_step F p : GridSpec 0 F -> in_grid G p = true -> cell_step_b (cell g p) (cell F p) = true.
Proof.
  intros S I. unfold cell_step_b.
  destruct (spec_cases F _ S I) as [(k & Hk & Wk & Dk & Q)|[(k & Hk & Wk & Ak & Q)|(X & Q)]]; rewrite Q.
  - destruct (prop_inv k Hk (win_prop k Wk)) as (_ & Cd & _). rewrite Dk in Cd. destruct Cd as [Cd|Cd]; rewrite Cd; vals.
  - destruct (head k Hk) as (_ & Ch & _). rewrite Ak in Ch. rewrite Ch. vals.
  - rewrite Z.eqb_refl. reflexivity.
Qed.

(* only the cells named by the rule change: a winner's destination (EMPTY or its own TARGET before) and its old head *)
Lemma new_cell_changed F p : GridSpec 0 F -> in_grid G p = true -> cell F p <> cell g p ->
  exists k, 0 <= k < N /\ win k = true
    /\ ((dest k = p /\ (cell g p = EMPTY \/ cell g p = tgtv k) /\ cell F p = posv k)
        \/ (apos (ag k) = p /\ cell g p = posv k /\ cell F p = pathv k)).
Proof.
  intros S I NE. destruct (spec_cases F _ S I) as [(k & Hk & Wk & Dk & Q)|[(k & Hk & Wk & Ak & Q)|(X & Q)]]; [| |congruence].
  - exists k. split; [exact Hk|]. split; [exact Wk|]. left. destruct (prop_inv k Hk (win_prop k Wk)) as (_ & Cd & _). rewrite Dk in Cd.
    unfold EMPTY. auto.
  - exists k. split; [exact Hk|]. split; [exact Wk|]. right. destruct (head k Hk) as (_ & Ch & _). rewrite Ak in Ch. auto.
Qed.

(* ---------- occupancy: the number of non-empty cells grows by the number of winners that entered an EMPTY cell ---------- *)
Definition gain (k : Z) : Z := b2z (win k && (cell g (dest k) =? 0)).
Definition ind (k : Z) (p : Z * Z) : Z := b2z (win k && pos_eqb (dest k) p && (cell g p =? 0)).
Definition nzv (v : Z) : Z := b2z (negb (v =? 0)).

Lemma nzv_pos v : 0 < v -> nzv v = 1.
Proof. intro H. unfold nzv. replace (v =? 0) with false by lia. reflexivity. Qed.

Lemma cell_delta F p : GridSpec 0 F -> in_grid G p = true ->
  nzv (cell F p) = nzv (cell g p) + zsum (map (fun k => ind k p) (zrange N)).
Proof.
  intros S I. destruct (spec_cases F _ S I) as [(k & Hk & Wk & Dk & Q)|[(k & Hk & Wk & Ak & Q)|(X & Q)]]; rewrite Q.
  - rewrite (zsum_single (fun j => ind j p) N k Hk).
    + unfold ind. rewrite Wk, Dk, pos_eqb_refl. cbn [andb].
      destruct (prop_inv k Hk (win_prop k Wk)) as (_ & Cd & _). rewrite Dk in Cd. rewrite (nzv_pos (posv k)) by vals.
      destruct Cd as [Cd|Cd]; rewrite Cd; [reflexivity|]. rewrite (nzv_pos (tgtv k)) by vals. replace (tgtv k =? 0) with false by vals. reflexivity.
    + intros j Hj NE. unfold ind. destruct (win j) eqn:Wj; [|reflexivity]. cbn [andb].
      destruct (pos_eqb (dest j) p) eqn:E; [|reflexivity]. apply pos_eqb_eq in E. exfalso.
      destruct (Z_lt_le_dec j k) as [LT|GE].
      * apply (win_no_higher j k); [lia|exact Wj|lia|apply win_prop; exact Wk|congruence].
      * apply (win_no_higher k j); [lia|exact Wk|lia|apply win_prop; exact Wj|congruence].
  - rewrite zsum_zero_zrange.
    + destruct (head k Hk) as (_ & Ch & _). rewrite Ak in Ch. rewrite Ch. rewrite (nzv_pos (pathv k)), (nzv_pos (posv k)) by vals. reflexivity.
    + intros j Hj. unfold ind. destruct (win j) eqn:Wj; [|reflexivity]. cbn [andb].
      destruct (pos_eqb (dest j) p) eqn:E; [|reflexivity]. apply pos_eqb_eq in E. exfalso.
      apply (dest_not_head j k Hj Hk (win_prop j Wj)). congruence.
  - rewrite zsum_zero_zrange; [lia|]. intros j Hj. unfold ind. destruct (win j) eqn:Wj; [|reflexivity]. cbn [andb].
    rewrite pos_eqb_neq by (apply (X j Hj Wj)). reflexivity.
Qed.

Lemma zsum_add {A} (f h : A -> Z) l : zsum (map (fun x => f x + h x) l) = zsum (map f l) + zsum (map h l).
Proof. induction l as [|x l IH]; cbn [map zsum]; [reflexivity|]. rewrite IH. lia. Qed.

Lemma zsum_swap {A B} (f : A -> B -> Z) la lb :
  zsum (map (fun x => zsum (map (fun y => f x y) lb)) la) = zsum (map (fun y => zsum (map (fun x => f x y) la)) lb).
Proof.
  induction la as [|x la IH]; cbn [map zsum].
  - induction lb as [|y lb IHb]; cbn [map zsum]; [reflexivity|]. rewrite <- IHb. reflexivity.
  - rewrite IH. rewrite <- zsum_add. reflexivity.
Qed.

Lemma occupancy_tabform X : dims G X ->
  occupancy X = zsum (map (fun r => zsum (map (fun c => nzv (cell X (r, c))) (zrange G))) (zrange G)).
Proof.
  intro D. assert (E : X = tab G G (fun r c => gat 0 X r c)).
  { apply (grid_ext G); [exact D|apply tab_dims; exact G_nonneg|]. intros r c Hr Hc. rewrite gat_tab by lia. reflexivity. }
  rewrite E at 1. unfold occupancy, tab. rewrite map_map. apply map_ext_zrange_sum. intros r Hr. rewrite map_map. reflexivity.
Qed.

Lemma cell_sum_ind k : 0 <= k < N ->
  zsum (map (fun r => zsum (map (fun c => ind k (r, c)) (zrange G))) (zrange G)) = gain k.
Proof.
  intro Hk. unfold gain. destruct (win k) eqn:W.
  - destruct (prop_inv k Hk (win_prop k W)) as (Id & _). apply in_grid_range in Id. cbn [andb].
    rewrite (zsum_single (fun r => zsum (map (fun c => ind k (r, c)) (zrange G))) G (fst (dest k))) by
      (try lia; intros r Hr NE; apply zsum_zero_zrange; intros c Hc; unfold ind; rewrite W; cbn [andb];
       rewrite pos_eqb_neq by (intro X; apply NE; rewrite X; reflexivity); reflexivity).
    rewrite (zsum_single (fun c => ind k (fst (dest k), c)) G (snd (dest k))) by
      (try lia; intros c Hc NE; unfold ind; rewrite W; cbn [andb];
       rewrite pos_eqb_neq by (intro X; apply NE; rewrite X; reflexivity); reflexivity).
    unfold ind. rewrite W. rewrite <- surjective_pairing, pos_eqb_refl. reflexivity.
  - cbn [andb b2z]. apply zsum_zero_zrange. intros r Hr. apply zsum_zero_zrange. intros c Hc. unfold ind. rewrite W. reflexivity.
Qed.

Lemma occupancy_delta F : GridSpec 0 F -> occupancy F = occupancy g + zsum (map gain (zrange N)).
Proof.
  intro S. rewrite (occupancy_tabform F) by apply S. rewrite (occupancy_tabform g HD).
  transitivity (zsum (map (fun r => zsum (map (fun c => nzv (cell g (r, c))) (zrange G))
                                 + zsum (map (fun c => zsum (map (fun k => ind k (r, c)) (zrange N))) (zrange G))) (zrange G))).
  { apply map_ext_zrange_sum. intros r Hr. rewrite <- zsum_add. apply map_ext_zrange_sum. intros c Hc.
    apply cell_delta; [exact S|]. apply in_grid_range. cbn [fst snd]. lia. }
  rewrite zsum_add. f_equal.
  transitivity (zsum (map (fun r => zsum (map (fun k => zsum (map (fun c => ind k (r, c)) (zrange G))) (zrange N))) (zrange G))).
  { apply map_ext_zrange_sum. intros r Hr. apply zsum_swap. }
  rewrite zsum_swap. apply map_ext_zrange_sum. intros k Hk. apply cell_sum_ind. exact Hk.
Qed.

Lemma gain_eq k : 0 <= k < N ->
  gain k = b2z (negb (pos_eqb (apos (newag k)) (apos (ag k))) && (cell g (apos (newag k)) =? EMPTY)).
Proof.
  intro Hk. unfold gain, newag, EMPTY. destruct (win k) eqn:W.
  - cbn [moved apos andb]. rewrite pos_eqb_neq by (apply dest_not_head; [exact Hk|exact Hk|apply win_prop; exact W]). reflexivity.
  - rewrite pos_eqb_refl. reflexivity.
Qed.

End Join.
