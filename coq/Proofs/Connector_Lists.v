(* Generic list / grid lemmas used by the Connector max-join analysis (Proofs/Connector_Join.v). *)
Require Import JV.Base.Prelude JV.Base.JaxIndex JV.Base.Codec JV.Base.TimeStep JV.Model.Connector JV.Proofs.Connector.

(* ---------- index-wise view of lists ---------- *)
Lemma list_ext {A} (d : A) (a b : list A) :
  zlen a = zlen b -> (forall k, 0 <= k < zlen a -> znth d a k = znth d b k) -> a = b.
Proof.
  unfold zlen. intros L H. apply (nth_ext a b d d); [lia|]. intros n Hn.
  specialize (H (Z.of_nat n) ltac:(lia)). rewrite !znth_nth in H by lia. rewrite Nat2Z.id in H. exact H.
Qed.

Lemma znth_map {A B} (f : A -> B) da db l k : 0 <= k < zlen l -> znth db (map f l) k = f (znth da l k).
Proof.
  intro H. rewrite !znth_nth by lia. rewrite (nth_indep (map f l) db (f da)) by (rewrite map_length; unfold zlen in H; lia).
  apply map_nth.
Qed.

Lemma znth_zrange n k : 0 <= k < n -> znth 0 (zrange n) k = k.
Proof. intro H. rewrite znth_nth by lia. unfold zrange. rewrite zrange_from_nth by lia. lia. Qed.

Lemma as_zrange {A} (d : A) N l : 0 <= N -> zlen l = N -> l = map (fun k => znth d l k) (zrange N).
Proof.
  intros HN L. apply (list_ext d); [rewrite zlen_map, zlen_zrange; lia|].
  intros k Hk. rewrite (znth_map _ 0 d) by (rewrite zlen_zrange; lia). rewrite znth_zrange by lia. reflexivity.
Qed.

Lemma map2_map_map {A B C D} (h : B -> C -> D) (f1 : A -> B) (f2 : A -> C) l :
  map2 h (map f1 l) (map f2 l) = map (fun x => h (f1 x) (f2 x)) l.
Proof. induction l as [|x l IH]; cbn [map map2]; [reflexivity|]. rewrite IH. reflexivity. Qed.

Lemma map2_id_map {A C D} (h : A -> C -> D) (f2 : A -> C) l : map2 h l (map f2 l) = map (fun x => h x (f2 x)) l.
Proof. induction l as [|x l IH]; cbn [map map2]; [reflexivity|]. rewrite IH. reflexivity. Qed.

Lemma combine_map_map {A B C} (f1 : A -> B) (f2 : A -> C) l : combine (map f1 l) (map f2 l) = map (fun x => (f1 x, f2 x)) l.
Proof. induction l as [|x l IH]; cbn [map combine]; [reflexivity|]. rewrite IH. reflexivity. Qed.

Lemma map_ext_zrange {A} (f h : Z -> A) N : (forall k, 0 <= k < N -> f k = h k) -> map f (zrange N) = map h (zrange N).
Proof. intro H. apply map_ext_in. intros k Hk. apply H. apply in_zrange. exact Hk. Qed.

(* ---------- bounded search over Z ---------- *)
Lemma bounded_last (P : Z -> bool) lo n :
  (exists k, lo <= k < lo + Z.of_nat n /\ P k = true /\ forall j, k < j < lo + Z.of_nat n -> P j = false)
  \/ (forall k, lo <= k < lo + Z.of_nat n -> P k = false).
Proof.
  induction n as [|n IH].
  - right. intros k Hk. lia.
  - destruct (P (lo + Z.of_nat n)) eqn:E.
    + left. exists (lo + Z.of_nat n). split; [lia|]. split; [exact E|]. intros j Hj. lia.
    + destruct IH as [(k & Hk & Pk & Hl)|Hn].
      * left. exists k. split; [lia|]. split; [exact Pk|]. intros j Hj.
        destruct (Z.eq_dec j (lo + Z.of_nat n)) as [->|NE]; [exact E|]. apply Hl. lia.
      * right. intros k Hk. destruct (Z.eq_dec k (lo + Z.of_nat n)) as [->|NE]; [exact E|]. apply Hn. lia.
Qed.

Lemma bounded_last_Z (P : Z -> bool) lo hi :
  (exists k, lo <= k < hi /\ P k = true /\ forall j, k < j < hi -> P j = false)
  \/ (forall k, lo <= k < hi -> P k = false).
Proof.
  destruct (Z_lt_le_dec lo hi) as [L|L].
  - pose proof (bounded_last P lo (Z.to_nat (hi - lo))) as H. replace (lo + Z.of_nat (Z.to_nat (hi - lo))) with hi in H by lia. exact H.
  - right. intros k Hk. lia.
Qed.

Lemma existsb_zrange (P : Z -> bool) N : existsb P (zrange N) = true <-> exists k, 0 <= k < N /\ P k = true.
Proof.
  rewrite existsb_exists. split; intros (k & A & B); exists k; (split; [|exact B]); apply in_zrange; exact A.
Qed.

Lemma existsb_zrange_false (P : Z -> bool) N : existsb P (zrange N) = false <-> forall k, 0 <= k < N -> P k = false.
Proof.
  split.
  - intros H k Hk. destruct (P k) eqn:E; [|reflexivity]. assert (X : existsb P (zrange N) = true) by (apply existsb_zrange; exists k; auto). congruence.
  - intro H. destruct (existsb P (zrange N)) eqn:E; [|reflexivity]. apply existsb_zrange in E as (k & Hk & Pk). rewrite H in Pk by assumption. discriminate.
Qed.

(* ---------- max / sum over an index range ---------- *)
Lemma maxl_nonneg l : 0 <= maxl l.
Proof. unfold maxl. induction l as [|x l IH]; cbn [fold_right]; lia. Qed.

Lemma maxl_le l x : 0 <= x -> (forall y, In y l -> y <= x) -> maxl l <= x.
Proof.
  unfold maxl. intros Hx. induction l as [|y l IH]; intros H; cbn [fold_right]; [lia|].
  assert (y <= x) by (apply H; left; reflexivity). assert (fold_right Z.max 0 l <= x) by (apply IH; intros; apply H; right; assumption). lia.
Qed.

Lemma maxl_ge l y : In y l -> y <= maxl l.
Proof.
  unfold maxl. induction l as [|z l IH]; intros H; cbn [fold_right]; [destruct H|].
  destruct H as [->|H]; [lia|]. specialize (IH H). lia.
Qed.

Lemma maxl_eq (V : Z -> Z) N x :
  0 <= x -> (forall k, 0 <= k < N -> V k <= x) -> (x = 0 \/ exists k, 0 <= k < N /\ V k = x) ->
  maxl (map V (zrange N)) = x.
Proof.
  intros Hx UB AT. apply Z.le_antisymm.
  - apply maxl_le; [exact Hx|]. intros y Hy. apply in_map_iff in Hy as (k & <- & Hk). apply UB. apply in_zrange. exact Hk.
  - destruct AT as [->|(k & Hk & <-)]; [apply maxl_nonneg|]. apply maxl_ge. apply in_map. apply in_zrange. exact Hk.
Qed.

Lemma zsum_zero (V : Z -> Z) l : (forall k, In k l -> V k = 0) -> zsum (map V l) = 0.
Proof.
  induction l as [|x l IH]; intro H; cbn [map zsum]; [reflexivity|].
  rewrite H by (left; reflexivity). rewrite IH; [reflexivity|]. intros; apply H; right; assumption.
Qed.

Lemma zsum_single_from (V : Z -> Z) s n j :
  s <= j < s + Z.of_nat n -> (forall k, s <= k < s + Z.of_nat n -> k <> j -> V k = 0) -> zsum (map V (zrange_from s n)) = V j.
Proof.
  revert s. induction n as [|n IH]; intros s Hj H; [lia|]. cbn [zrange_from map zsum].
  destruct (Z.eq_dec s j) as [->|NE].
  - rewrite zsum_zero; [lia|]. intros k Hk. apply in_zrange_from in Hk. apply H; lia.
  - rewrite (H s) by lia. rewrite IH; [lia|lia|]. intros k Hk Hn. apply H; lia.
Qed.

Lemma zsum_single (V : Z -> Z) N j :
  0 <= j < N -> (forall k, 0 <= k < N -> k <> j -> V k = 0) -> zsum (map V (zrange N)) = V j.
Proof. intros Hj H. unfold zrange. apply zsum_single_from; [lia|]. intros k Hk. apply H. lia. Qed.

Lemma zsum_zero_zrange (V : Z -> Z) N : (forall k, 0 <= k < N -> V k = 0) -> zsum (map V (zrange N)) = 0.
Proof. intro H. apply zsum_zero. intros k Hk. apply H. apply in_zrange. exact Hk. Qed.

(* ---------- grids ---------- *)
Lemma gat_tab {A} (d : A) G f r k : 0 <= r < G -> 0 <= k < G -> gat d (tab G G f) r k = f r k.
Proof.
  intros Hr Hk. unfold gat, tab. rewrite (znth_map _ 0 []) by (rewrite zlen_zrange; lia). rewrite znth_zrange by lia.
  rewrite (znth_map _ 0 d) by (rewrite zlen_zrange; lia). rewrite znth_zrange by lia. reflexivity.
Qed.

Lemma znth_map0 {A B} (f : A -> B) da l k : znth (f da) (map f l) k = f (znth da l k).
Proof. unfold znth. destruct (k <? 0); [reflexivity|]. apply map_nth. Qed.

Lemma gat_map_map (f : Z -> Z) g r k : f 0 = 0 -> gat 0 (map (map f) g) r k = f (gat 0 g r k).
Proof.
  intro F. unfold gat. change (@nil Z) with (map f []) at 1. rewrite znth_map0. rewrite <- F at 1. apply znth_map0.
Qed.

Lemma znth_zupd {A} (d : A) l i v j :
  0 <= i < zlen l -> 0 <= j -> znth d (zupd i v l) j = if j =? i then v else znth d l j.
Proof.
  intros Hi Hj. unfold zupd. destruct (i <? 0) eqn:E; [lia|]. rewrite !znth_nth by lia.
  destruct (j =? i) eqn:Q.
  - assert (j = i) by lia. subst j. apply nth_upd_same. unfold zlen in Hi. lia.
  - apply nth_upd_other. lia.
Qed.

Lemma zlen_zupd {A} i (v : A) l : zlen (zupd i v l) = zlen l.
Proof. unfold zlen. rewrite zupd_length. reflexivity. Qed.

Lemma gset_in_range G (g : list (list Z)) r k v :
  dims G g -> 0 <= r < G -> 0 <= k < G -> gset g r k v = zupd r (zupd k v (znth [] g r)) g.
Proof.
  intros D Hr Hk. pose proof (dims_row G g r D Hr) as LR. destruct D as [L _]. unfold gset, jnorm. rewrite L.
  replace (r <? 0) with false by lia. replace ((0 <=? r) && (r <? G)) with true by lia. rewrite LR.
  replace (k <? 0) with false by lia. replace ((0 <=? k) && (k <? G)) with true by lia. reflexivity.
Qed.

Lemma gset_dims G g r k v : dims G g -> 0 <= r < G -> 0 <= k < G -> dims G (gset g r k v).
Proof.
  intros D Hr Hk. rewrite (gset_in_range G) by assumption. pose proof (dims_row G g r D Hr) as LR. destruct D as [L F].
  split; [rewrite zlen_zupd; exact L|]. rewrite Forall_forall in *. intros row Hrow.
  apply (In_nth _ _ []) in Hrow as (n & Hn & <-). rewrite zupd_length in Hn.
  pose proof (znth_zupd [] g r (zupd k v (znth [] g r)) (Z.of_nat n) ltac:(lia) ltac:(lia)) as Z1.
  rewrite znth_nth in Z1 by lia. rewrite Nat2Z.id in Z1. rewrite Z1.
  destruct (Z.of_nat n =? r); [rewrite zlen_zupd; exact LR|]. rewrite znth_nth by lia. rewrite Nat2Z.id. apply F. apply nth_In. exact Hn.
Qed.

Lemma gat_gset G g r k v r' k' :
  dims G g -> 0 <= r < G -> 0 <= k < G -> 0 <= r' < G -> 0 <= k' < G ->
  gat 0 (gset g r k v) r' k' = if (r' =? r) && (k' =? k) then v else gat 0 g r' k'.
Proof.
  intros D Hr Hk Hr' Hk'. rewrite (gset_in_range G) by assumption. pose proof (dims_row G g r D Hr) as LR.
  unfold gat. rewrite znth_zupd by (destruct D; lia). destruct (r' =? r) eqn:E; cbn [andb]; [|reflexivity].
  rewrite znth_zupd by lia. assert (r' = r) by lia. subst r'. reflexivity.
Qed.

(* the strict write of the Rules layer coincides with the scatter in range *)
Lemma gput_gset G g p v : dims G g -> in_grid G p = true -> gput g p v = gset g (fst p) (snd p) v.
Proof.
  intros D I. unfold in_grid, inb in I. unfold gput. rewrite (gset_in_range G) by (assumption || lia). reflexivity.
Qed.

Lemma in_grid_range G p : in_grid G p = true <-> 0 <= fst p < G /\ 0 <= snd p < G.
Proof. unfold in_grid, inb. lia. Qed.

(* cell after a write, in terms of positions *)
Lemma cell_gset G g p v q :
  dims G g -> in_grid G p = true -> in_grid G q = true ->
  cell (gset g (fst p) (snd p) v) q = if pos_eqb q p then v else cell g q.
Proof.
  intros D Ip Iq. apply in_grid_range in Ip. apply in_grid_range in Iq. unfold cell, pos_eqb.
  apply (gat_gset G); (assumption || lia).
Qed.

Lemma cell_tab G f p : in_grid G p = true -> cell (tab G G f) p = f (fst p) (snd p).
Proof. intro I. apply in_grid_range in I. unfold cell. apply gat_tab; lia. Qed.

(* two grids of the same dimensions with equal cells are equal *)
Lemma grid_ext G (a b : list (list Z)) :
  dims G a -> dims G b -> (forall r c, 0 <= r < G -> 0 <= c < G -> gat 0 a r c = gat 0 b r c) -> a = b.
Proof.
  intros Da Db H. apply (list_ext []); [destruct Da, Db; lia|]. intros r Hr. destruct Da as [La Fa]. rewrite La in Hr.
  pose proof (dims_row G a r (conj La Fa) Hr) as Ra. pose proof (dims_row G b r Db Hr) as Rb.
  apply (list_ext 0); [lia|]. intros k Hk. rewrite Ra in Hk. apply (H r k Hr Hk).
Qed.

Lemma existsb_tab (p : Z -> bool) G f :
  existsb (existsb p) (tab G G f) = true <-> exists r c, 0 <= r < G /\ 0 <= c < G /\ p (f r c) = true.
Proof.
  unfold tab. rewrite existsb_exists. split.
  - intros (row & Hrow & E). apply in_map_iff in Hrow as (r & <- & Hr). apply existsb_exists in E as (v & Hv & Pv).
    apply in_map_iff in Hv as (c & <- & Hc). apply in_zrange in Hr. apply in_zrange in Hc. exists r, c. auto.
  - intros (r & c & Hr & Hc & Pv). exists (map (fun c => f r c) (zrange G)). split.
    + apply in_map_iff. exists r. split; [reflexivity|apply in_zrange; exact Hr].
    + apply existsb_exists. exists (f r c). split; [|exact Pv]. apply in_map_iff. exists c. split; [reflexivity|apply in_zrange; exact Hc].
Qed.

(* pointwise facts about a well-shaped grid, as the boolean folds used by the checkers *)
Lemma forallb_grid (P : Z -> bool) G g :
  dims G g -> (forall r c, 0 <= r < G -> 0 <= c < G -> P (gat 0 g r c) = true) -> forallb (forallb P) g = true.
Proof.
  intros D H. rewrite forallb_forall. intros row Hrow. rewrite forallb_forall. intros v Hv.
  apply (In_nth _ _ []) in Hrow as (n & Hn & <-). assert (Hr : 0 <= Z.of_nat n < G) by (destruct D as [L _]; unfold zlen in L; lia).
  pose proof (dims_row G g _ D Hr) as LR. rewrite znth_nth in LR by lia. rewrite Nat2Z.id in LR.
  apply (In_nth _ _ 0) in Hv as (m & Hm & <-). assert (Hc : 0 <= Z.of_nat m < G) by (unfold zlen in LR; lia).
  specialize (H _ _ Hr Hc). unfold gat in H. rewrite !znth_nth in H by lia. rewrite !Nat2Z.id in H. exact H.
Qed.

Lemma forallb2_ext {A B} (f : A -> B -> bool) da db (a : list A) (b : list B) :
  zlen a = zlen b -> (forall k, 0 <= k < zlen a -> f (znth da a k) (znth db b k) = true) -> forallb2 f a b = true.
Proof.
  revert b. induction a as [|x a IH]; intros [|y b] L H; cbn [forallb2]; try reflexivity;
    try (rewrite ?zlen_cons in L; unfold zlen in L; cbn [length] in L; lia).
  rewrite !zlen_cons in *. pose proof (zlen_nonneg a).
  pose proof (H 0 ltac:(lia)) as HH. unfold znth in HH. cbn [Z.ltb Z.compare Z.to_nat nth] in HH. rewrite HH. cbn [andb]. apply IH; [lia|]. intros k Hk.
  specialize (H (k + 1) ltac:(lia)). rewrite !znth_nth in * by lia. replace (Z.to_nat (k + 1)) with (S (Z.to_nat k)) in H by lia. exact H.
Qed.

Lemma forallb2_grid (f : Z -> Z -> bool) G a b :
  dims G a -> dims G b -> (forall r c, 0 <= r < G -> 0 <= c < G -> f (gat 0 a r c) (gat 0 b r c) = true) ->
  forallb2 (forallb2 f) a b = true.
Proof.
  intros Da Db H. apply (forallb2_ext _ [] []); [destruct Da, Db; lia|]. intros r Hr. rewrite (proj1 Da) in Hr.
  pose proof (dims_row G a r Da Hr) as Ra. pose proof (dims_row G b r Db Hr) as Rb.
  apply (forallb2_ext _ 0 0); [lia|]. intros k Hk. rewrite Ra in Hk. apply (H r k Hr Hk).
Qed.
