(* Connector, state level: step = ref_step on Physical states (C09), Physical is preserved by every in-spec joint action
   (C07), cells change only EMPTY / own TARGET -> POSITION and POSITION -> PATH of the same agent (C06), every emitted
   value lies in the declared range (C01).  All from the max-join theorem of Proofs/Connector_Join.v. *)
Require Import JV.Base.Prelude JV.Base.JaxIndex JV.Base.Codec JV.Base.TimeStep JV.Model.Connector JV.Proofs.Connector
  JV.Proofs.Connector_Lists JV.Proofs.Connector_Join.

Definition in_spec (acts : list Z) : Prop := Forall (fun a => 0 <= a <= 4) acts.

Lemma in_spec_nth acts N : in_spec acts -> zlen acts = N -> forall k, 0 <= k < N -> 0 <= znth 0 acts k <= 4.
Proof.
  intros F L k Hk. unfold in_spec in F. rewrite Forall_forall in F. apply F. rewrite znth_nth by lia. apply nth_In.
  unfold zlen in L. lia.
Qed.

(* ---------- the hypotheses of the join theorem hold in a Physical state ---------- *)
Section Phys.
Variables (c : cfg) (s : state) (acts : list Z).
Hypothesis HP : Physical c s.
Hypothesis HW : wf c s acts.
Hypothesis HI : in_spec acts.

Let G := gsz c.
Let N := nag c.

Lemma join_hyps :
  dims G (grid s) /\ 0 <= N /\ zlen (agents s) = N /\ zlen acts = N
  /\ (forall k, 0 <= k < N -> 0 <= znth 0 acts k <= 4)
  /\ (forall k, 0 <= k < N -> agent_ok G (grid s) k (znth dflt (agents s) k))
  /\ (forall r k, 0 <= r < G -> 0 <= k < G -> cell_ok N (agents s) (r, k) (gat 0 (grid s) r k)).
Proof.
  destruct HP as (D & L & A & C'). destruct HW as (H0 & H1 & H2).
  split; [exact D|]. split; [exact H0|]. split; [exact H1|]. split; [exact H2|].
  split; [apply in_spec_nth; assumption|]. split; [exact A|exact C'].
Qed.

Theorem step_agents_is_seq :
  step_agents G N (grid s) (agents s) acts = seq_agents G (grid s) (agents s) acts.
Proof. destruct join_hyps as (D & H0 & H1 & H2 & H3 & H4 & H5). apply step_agents_eq_seq_agents; assumption. Qed.

Lemma next_spec :
  exists F, agents (next c s acts) = map (newag G N (grid s) (agents s) acts) (zrange N) /\ grid (next c s acts) = F
            /\ GridSpec G N (grid s) (agents s) acts 0 F.
Proof.
  destruct join_hyps as (D & H0 & H1 & H2 & H3 & H4 & H5).
  destruct (step_agents_spec G N (grid s) (agents s) acts D H0 H1 H2 H3 H4 H5) as (F & E & S).
  exists F. rewrite next_agents, next_grid. fold G N. rewrite E. auto.
Qed.

(* C07: grid-level physical consistency is preserved by ANY in-spec joint action *)
Theorem Physical_next : Physical c (next c s acts).
Proof.
  destruct join_hyps as (D & H0 & H1 & H2 & H3 & H4 & H5).
  destruct next_spec as (F & EA & EG & S). unfold Physical. rewrite EA, EG. fold G N.
  split; [apply S|]. split; [rewrite zlen_map, zlen_zrange; lia|]. split.
  - intros k Hk. rewrite znth_newags by assumption. apply new_agent_ok; assumption.
  - intros r k Hr Hk.
    assert (I : in_grid G (r, k) = true) by (apply in_grid_range; cbn [fst snd]; lia).
    apply new_cell_ok; assumption.
Qed.

(* C06: every cell changes only EMPTY / own TARGET -> POSITION of the mover or POSITION -> PATH of the same agent *)
Theorem grid_step_next : grid_step_b (grid s) (grid (next c s acts)) = true.
Proof.
  destruct join_hyps as (D & H0 & H1 & H2 & H3 & H4 & H5).
  destruct next_spec as (F & EA & EG & S). rewrite EG. unfold grid_step_b. apply (forallb2_grid _ G); [exact D|apply S|].
  intros r k Hr Hk. assert (I : in_grid G (r, k) = true) by (apply in_grid_range; cbn [fst snd]; lia).
  apply (new_cell_step G N (grid s) (agents s) acts) with (p := (r, k)); assumption.
Qed.

(* C06, declaratively: a cell that changed was EMPTY or the mover's own TARGET and now holds the mover's POSITION, or it
   was the mover's POSITION and now holds its PATH; the mover is the agent whose head moved there / away *)
Theorem changed_cell r k :
  0 <= r < G -> 0 <= k < G -> gat 0 (grid (next c s acts)) r k <> gat 0 (grid s) r k ->
  exists j, 0 <= j < N /\
    let o := znth dflt (agents s) j in let n := znth dflt (agents (next c s acts)) j in
    ((apos n = (r, k) /\ apos o <> (r, k) /\ (gat 0 (grid s) r k = EMPTY \/ gat 0 (grid s) r k = tgtv j)
      /\ gat 0 (grid (next c s acts)) r k = posv j)
     \/ (apos o = (r, k) /\ apos n <> (r, k) /\ gat 0 (grid s) r k = posv j /\ gat 0 (grid (next c s acts)) r k = pathv j)).
Proof.
  intros Hr Hk NE. destruct join_hyps as (D & H0 & H1 & H2 & H3 & H4 & H5).
  destruct next_spec as (F & EA & EG & S). rewrite EG in *. rewrite EA.
  assert (I : in_grid G (r, k) = true) by (apply in_grid_range; cbn [fst snd]; lia).
  assert (X : exists j, 0 <= j < N /\ win G N (grid s) (agents s) acts j = true
    /\ ((dest (agents s) acts j = (r, k) /\ (cell (grid s) (r, k) = EMPTY \/ cell (grid s) (r, k) = tgtv j) /\ cell F (r, k) = posv j)
        \/ (apos (ag (agents s) j) = (r, k) /\ cell (grid s) (r, k) = posv j /\ cell F (r, k) = pathv j))).
  { apply new_cell_changed; assumption. }
  destruct X as (j & Hj & W & Q).
  exists j. split; [exact Hj|]. cbv zeta. rewrite znth_newags by assumption. unfold newag. rewrite W.
  cbn [moved apos]. fold (ag (agents s) j).
  assert (DH : dest (agents s) acts j <> apos (ag (agents s) j)).
  { apply (dest_not_head G N (grid s) (agents s) acts); try assumption. apply (win_prop G N (grid s) (agents s) acts). exact W. }
  destruct Q as [(E & V & V')|(E & V & V')]; [left|right].
  - split; [exact E|]. split; [intro X; apply DH; congruence|]. split; [exact V|exact V'].
  - split; [exact E|]. split; [intro X; apply DH; congruence|]. split; [exact V|exact V'].
Qed.

(* C07: the number of occupied cells grows by exactly the number of agents whose head moved onto an EMPTY cell *)
Definition entered_empty (k : Z) : Z :=
  let o := znth dflt (agents s) k in let n := znth dflt (agents (next c s acts)) k in
  b2z (negb (pos_eqb (apos n) (apos o)) && (cell (grid s) (apos n) =? EMPTY)).

Theorem occupancy_next :
  occupancy (grid (next c s acts)) = occupancy (grid s) + zsum (map entered_empty (zrange N)).
Proof.
  destruct join_hyps as (D & H0 & H1 & H2 & H3 & H4 & H5).
  destruct next_spec as (F & EA & EG & S). rewrite EG.
  rewrite (occupancy_delta G N (grid s) (agents s) acts) with (F := F) by assumption. f_equal.
  apply map_ext_zrange_sum. intros k Hk. unfold entered_empty. cbv zeta. rewrite EA. rewrite znth_newags by assumption.
  apply gain_eq; assumption.
Qed.

End Phys.

(* ---------- C09: the code's step IS the reference step ---------- *)
Lemma reward_of_ref c o n :
  reward_of c o n = (if negb (connected o) && connected n then crew c else 0) + (if connected o then 0 else trew c).
Proof. unfold reward_of. destruct (connected o), (connected n); cbn [negb andb b2z]; lia. Qed.

Lemma done_of_ref G g ag : dims G g -> done_of ag (action_mask G g ag) = connected ag || blocked G g ag.
Proof.
  intro D. unfold done_of, blocked, action_mask. cbn [tl map existsb]. rewrite !valid_legal_b by (assumption || lia).
  destruct (legal_b G g ag 1), (legal_b G g ag 2), (legal_b G g ag 3), (legal_b G g ag 4); reflexivity.
Qed.

Lemma map_const_repeat {A} (l : list A) (x : Z) : map (fun _ => x) l = repeat x (length l).
Proof. induction l as [|y l IH]; cbn [map length repeat]; [reflexivity|]. rewrite IH. reflexivity. Qed.

Theorem step_eq_ref_step c s acts :
  Physical c s -> wf c s acts -> in_spec acts -> step c s acts = ref_step c s acts.
Proof.
  intros HP HW HI. pose proof (step_agents_is_seq c s acts HP HW HI) as E.
  pose proof (next_dims c s acts) as ND. pose proof (next_len c s acts HW) as NL.
  rewrite next_grid in ND. rewrite next_agents in NL.
  assert (HG : 0 <= gsz c). { destruct HP as ((L & _) & _). pose proof (zlen_nonneg (grid s)). lia. }
  specialize (ND HG). rewrite step_eq. unfold ref_step. rewrite <- E.
  destruct (step_agents (gsz c) (nag c) (grid s) (agents s) acts) as [ags' g']. cbn [fst snd] in *. cbv zeta.
  assert (EM : map (action_mask (gsz c) g') ags' = map (fun ag => map (legal_b (gsz c) g' ag) (zrange 5)) ags').
  { apply map_ext. intro ag. apply C04_mask_table. exact ND. }
  assert (ED : map2 done_of ags' (map (action_mask (gsz c) g') ags') = map (fun ag => connected ag || blocked (gsz c) g' ag) ags').
  { rewrite map2_id_map. apply map_ext. intro ag. apply done_of_ref. exact ND. }
  assert (ER : map2 (reward_of c) (agents s) ags'
               = map2 (fun o n => (if negb (connected o) && connected n then crew c else 0) + (if connected o then 0 else trew c))
                      (agents s) ags').
  { apply map2_ext_in. intros o n _. apply reward_of_ref. }
  rewrite ED, ER, EM. f_equal. f_equal.
  set (dn := map (fun ag => connected ag || blocked (gsz c) g' ag) ags').
  destruct (forallb (fun d : bool => d) dn || (tlim c <=? cnt s + 1)).
  - unfold termination. f_equal. rewrite map_const_repeat. f_equal. unfold dn. rewrite map_length. unfold zlen in NL. lia.
  - unfold transition_d. f_equal. apply map_ext. intros [|]; reflexivity.
Qed.

(* ---------- C01: every emitted value is within the declared observation spec ---------- *)
Lemma Physical_values c s r k : Physical c s -> 0 <= r < gsz c -> 0 <= k < gsz c -> 0 <= gat 0 (grid s) r k <= 3 * nag c + 1.
Proof.
  intros (D & L & A & C') Hr Hk. pose proof (zlen_nonneg (agents s)) as NN.
  destruct (C' r k Hr Hk) as [Z0|(i & Hi & H)]; [unfold EMPTY in Z0; lia|].
  unfold pathv, posv, tgtv in H. lia.
Qed.

Lemma Physical_spec_ok c s m :
  Physical c s -> 0 <= cnt s <= tlim c -> zlen m = nag c -> forallb (fun r => zlen r =? 5) m = true -> spec_ok_b c s m = true.
Proof.
  intros HP HC Lm Fm. pose proof HP as (D & _). unfold spec_ok_b. rewrite (proj2 (dims_b_spec _ _) D), Lm, Z.eqb_refl, Fm.
  rewrite (forallb_grid _ (gsz c)); [lia|exact D|]. intros r k Hr Hk. pose proof (Physical_values c s r k HP Hr Hk). lia.
Qed.

Theorem spec_next c s acts :
  Physical c s -> wf c s acts -> in_spec acts -> 0 <= cnt s < tlim c ->
  spec_ok_b c (next c s acts) (maskof c s acts) = true.
Proof.
  intros HP HW HI HC. assert (HG : 0 <= gsz c). { destruct HP as ((L & _) & _). pose proof (zlen_nonneg (grid s)). lia. }
  destruct (C01_shape c s acts HG HW HC) as (_ & Lm & Fm & Hn).
  apply Physical_spec_ok; [apply Physical_next; assumption|exact Hn|exact Lm|exact Fm].
Qed.

Theorem spec_reset c s :
  Physical c s -> cnt s = 0 -> 0 <= tlim c -> spec_ok_b c s (snd (reset_of c s)) = true.
Proof.
  intros HP H0 HT. apply Physical_spec_ok; [exact HP|lia| |]; unfold reset_of; cbn [snd].
  - rewrite zlen_map. apply HP.
  - rewrite forallb_forall. intros r Hr. apply in_map_iff in Hr as (ag & <- & _). reflexivity.
Qed.

(* ---------- invariants along any sequence of in-spec joint actions ---------- *)
Theorem Physical_run c plan : forall s,
  Physical c s -> Forall (fun a => zlen a = nag c /\ in_spec a) plan -> Physical c (run c s plan).
Proof.
  induction plan as [|a plan IH]; intros s HP F; [exact HP|].
  inversion F as [|? ? [Fa Fi] Fr]; subst. rewrite run_cons. apply IH; [|exact Fr].
  apply Physical_next; [exact HP| |exact Fi]. destruct HP as (_ & L & _). pose proof (zlen_nonneg (agents s)).
  split; [lia|]. split; [exact L|exact Fa].
Qed.
