(* Connector C10, UniformRandomGenerator: for EVERY valid draw (2N distinct flat cells of the G x G board) the generated
   state is Physical (one entity per cell, stored heads / targets agree with the grid) and fresh (step 0, every agent at
   its start, no PATH cell, heads and targets on 2N distinct cells, exactly 2N occupied cells). *)
Require Import JV.Base.Prelude JV.Base.JaxIndex JV.Base.Codec JV.Base.TimeStep JV.Model.Connector JV.Proofs.Connector
  JV.Proofs.Connector_Lists JV.Proofs.Connector_Step.

(* ---------- lists ---------- *)
Lemma nodup_b_NoDup l : nodup_b l = true -> NoDup l.
Proof.
  induction l as [|x l IH]; cbn [nodup_b]; intro H; [constructor|]. apply andb_true_iff in H as [H1 H2].
  constructor; [|apply IH; exact H2]. intro I. apply negb_true_iff in H1.
  assert (X : existsb (Z.eqb x) l = true) by (apply existsb_exists; exists x; split; [exact I|apply Z.eqb_refl]). congruence.
Qed.

Lemma NoDup_map_on {A B} (f : A -> B) l :
  (forall x y, In x l -> In y l -> f x = f y -> x = y) -> NoDup l -> NoDup (map f l).
Proof.
  intros Inj ND. induction ND as [|x l NI ND IH]; cbn [map]; constructor.
  - intro I. apply in_map_iff in I as (y & E & Iy). apply NI. rewrite (Inj x y); [exact Iy|left; reflexivity|right; exact Iy|symmetry; exact E].
  - apply IH. intros a b Ia Ib. apply Inj; right; assumption.
Qed.

Lemma NoDup_app_disjoint {A} (a b : list A) x : NoDup (a ++ b) -> In x a -> In x b -> False.
Proof.
  induction a as [|y a IH]; cbn [app]; intros ND Ia Ib; [destruct Ia|]. inversion ND as [|? ? NI ND']; subst.
  destruct Ia as [->|Ia]; [apply NI; apply in_or_app; right; exact Ib|apply IH; assumption].
Qed.

Lemma NoDup_app_left {A} (a b : list A) : NoDup (a ++ b) -> NoDup a.
Proof.
  induction a as [|x a IH]; cbn [app]; intro ND; [constructor|]. inversion ND as [|? ? NI ND']; subst.
  constructor; [intro I; apply NI; apply in_or_app; left; exact I|apply IH; exact ND'].
Qed.

Lemma NoDup_app_right {A} (a b : list A) : NoDup (a ++ b) -> NoDup b.
Proof. induction a as [|x a IH]; cbn [app]; intro ND; [exact ND|]. inversion ND; subst. apply IH. assumption. Qed.

Lemma zsum_map_upd (f : Z -> Z) d l : forall n v, (n < length l)%nat ->
  zsum (map f (upd n v l)) = zsum (map f l) - f (nth n l d) + f v.
Proof.
  induction l as [|x l IH]; intros n v H; cbn [length] in H; [lia|]. destruct n; cbn [upd map zsum nth]; [lia|].
  rewrite IH by lia. lia.
Qed.

Lemma zsum_map_upd_gen {A} (f : A -> Z) d l : forall n v, (n < length l)%nat ->
  zsum (map f (upd n v l)) = zsum (map f l) - f (nth n l d) + f v.
Proof.
  induction l as [|x l IH]; intros n v H; cbn [length] in H; [lia|]. destruct n; cbn [upd map zsum nth]; [lia|].
  rewrite IH by lia. lia.
Qed.

(* ---------- flat <-> (row, col) ---------- *)
Lemma unflat_in_grid G x : 0 < G -> 0 <= x < G * G -> in_grid G (unflat G x) = true.
Proof.
  intros HG Hx. apply in_grid_range. unfold unflat. cbn [fst snd]. split; [|apply Z.mod_pos_bound; exact HG].
  split; [apply Z.div_pos; lia|]. apply Z.div_lt_upper_bound; lia.
Qed.

Lemma flat_unflat G x : 0 < G -> flat G (unflat G x) = x.
Proof. intros HG. unfold flat, unflat. cbn [fst snd]. pose proof (Z_div_mod_eq_full x G). lia. Qed.

Lemma unflat_inj G x y : 0 < G -> unflat G x = unflat G y -> x = y.
Proof. intros HG E. rewrite <- (flat_unflat G x HG), <- (flat_unflat G y HG), E. reflexivity. Qed.

(* ---------- scatter of distinct in-range cells ---------- *)
Lemma scatter_cons g p v ps vs : scatter g (p :: ps) (v :: vs) = scatter (gset g (fst p) (snd p) v) ps vs.
Proof. reflexivity. Qed.

Lemma scatter_spec G : forall ps vs g,
  dims G g -> Forall (fun p => in_grid G p = true) ps -> NoDup ps -> length ps = length vs ->
  dims G (scatter g ps vs)
  /\ (forall i, (i < length ps)%nat -> cell (scatter g ps vs) (nth i ps (0, 0)) = nth i vs 0)
  /\ (forall q, in_grid G q = true -> ~ In q ps -> cell (scatter g ps vs) q = cell g q).
Proof.
  induction ps as [|p ps IH]; intros vs g D F ND L.
  - destruct vs; [|discriminate]. split; [exact D|]. split; [intros i Hi; cbn [length] in Hi; lia|reflexivity].
  - destruct vs as [|v vs]; [discriminate|]. inversion F as [|? ? Fp Fr]; subst. inversion ND as [|? ? NI ND']; subst.
    cbn [length] in L. rewrite scatter_cons.
    assert (D1 : dims G (gset g (fst p) (snd p) v)). { pose proof Fp as Fp'. apply in_grid_range in Fp'. apply gset_dims; (assumption || lia). }
    destruct (IH vs _ D1 Fr ND' ltac:(lia)) as (A & B & C'). split; [exact A|]. split.
    + intros [|i] Hi; cbn [nth length] in *.
      * rewrite (C' p Fp NI). rewrite (cell_gset G) by assumption. rewrite (proj2 (pos_eqb_eq p p) eq_refl). reflexivity.
      * apply B. lia.
    + intros q Iq NQ. rewrite (C' q Iq) by (intro X; apply NQ; right; exact X). rewrite (cell_gset G) by assumption.
      destruct (pos_eqb q p) eqn:E; [|reflexivity]. apply pos_eqb_eq in E. exfalso. apply NQ. left. congruence.
Qed.

Definition nz (v : Z) : Z := b2z (negb (v =? 0)).
Definition rowocc (r : list Z) : Z := zsum (map nz r).

Lemma occupancy_gset G g p v :
  dims G g -> in_grid G p = true -> cell g p = 0 -> v <> 0 -> occupancy (gset g (fst p) (snd p) v) = occupancy g + 1.
Proof.
  intros D I C0 NV. pose proof I as I'. apply in_grid_range in I'. rewrite (gset_in_range G) by (assumption || lia).
  pose proof (dims_row G g (fst p) D ltac:(lia)) as LR. destruct D as [L _].
  change (occupancy ?x) with (zsum (map rowocc x)). unfold zupd. replace (fst p <? 0) with false by lia. replace (snd p <? 0) with false by lia.
  rewrite (zsum_map_upd_gen rowocc []) by (unfold zlen in L; lia).
  unfold cell, gat in C0. rewrite !znth_nth in C0 by lia. rewrite znth_nth in * by lia.
  unfold rowocc at 3. rewrite (zsum_map_upd nz 0) by (unfold zlen in LR; lia). fold (rowocc (nth (Z.to_nat (fst p)) g [])).
  rewrite C0. unfold nz. replace (v =? 0) with false by lia. cbn. lia.
Qed.

Lemma occupancy_scatter G : forall ps vs g,
  dims G g -> Forall (fun p => in_grid G p = true) ps -> NoDup ps -> length ps = length vs ->
  Forall (fun v => v <> 0) vs -> (forall p, In p ps -> cell g p = 0) ->
  occupancy (scatter g ps vs) = occupancy g + Z.of_nat (length ps).
Proof.
  induction ps as [|p ps IH]; intros vs g D F ND L NV C0.
  - destruct vs; [|discriminate]. change (scatter g [] []) with g. cbn [length]. lia.
  - destruct vs as [|v vs]; [discriminate|]. inversion F as [|? ? Fp Fr]; subst. inversion ND as [|? ? NI ND']; subst.
    inversion NV as [|? ? Nv NVr]; subst. cbn [length] in L. rewrite scatter_cons.
    assert (D1 : dims G (gset g (fst p) (snd p) v)). { pose proof Fp as Fp'. apply in_grid_range in Fp'. apply gset_dims; (assumption || lia). }
    rewrite IH; [|exact D1|exact Fr|exact ND'|lia|exact NVr|].
    + rewrite (occupancy_gset G) by (try assumption; apply C0; left; reflexivity). cbn [length]. lia.
    + intros q Iq. rewrite Forall_forall in Fr. rewrite (cell_gset G) by (try assumption; apply Fr; exact Iq).
      destruct (pos_eqb q p) eqn:E; [apply pos_eqb_eq in E; subst; contradiction|]. apply C0. right. exact Iq.
Qed.

Lemma zeros_dims G : 0 <= G -> dims G (zeros G).
Proof. intro H. apply tab_dims. exact H. Qed.

Lemma cell_zeros G q : in_grid G q = true -> cell (zeros G) q = 0.
Proof. intro I. unfold zeros. rewrite (cell_tab G) by exact I. reflexivity. Qed.

Lemma occupancy_zeros G : occupancy (zeros G) = 0.
Proof.
  unfold occupancy, zeros, tab. rewrite map_map. apply zsum_zero. intros r _. rewrite map_map. apply zsum_zero. intros k _. reflexivity.
Qed.

(* ---------- the generated state ---------- *)
Section Uniform.
Variables (G N : Z) (starts targets : list Z) (c : cfg).
Hypothesis HG : 0 < G.
Hypothesis Hc1 : gsz c = G.
Hypothesis Hc2 : nag c = N.
Hypothesis OK : uniform_draw_ok G N starts targets = true.

Definition sk (k : Z) : Z * Z := unflat G (znth 0 starts k).
Definition tk (k : Z) : Z * Z := unflat G (znth 0 targets k).
Definition g1 : list (list Z) := scatter (zeros G) (map (unflat G) starts) (map posv (zrange N)).
Definition gR : list (list Z) := scatter g1 (map (unflat G) targets) (map tgtv (zrange N)).

Lemma draw_facts :
  zlen starts = N /\ zlen targets = N /\ 0 <= N
  /\ (forall x, In x (starts ++ targets) -> 0 <= x < G * G) /\ NoDup (starts ++ targets).
Proof.
  unfold uniform_draw_ok in OK. apply andb_true_iff in OK as [O1 O4]. apply andb_true_iff in O1 as [O1 O3].
  apply andb_true_iff in O1 as [O1 O2]. pose proof (zlen_nonneg starts).
  split; [lia|]. split; [lia|]. split; [lia|]. split; [|apply nodup_b_NoDup; exact O4].
  intros x Ix. rewrite forallb_forall in O3. specialize (O3 x Ix). unfold inb in O3. lia.
Qed.

Lemma Ess : map (unflat G) starts = map sk (zrange N).
Proof.
  destruct draw_facts as (Ls & Lt & HN & _). rewrite (as_zrange 0 N starts HN Ls) at 1. rewrite map_map. reflexivity.
Qed.
Lemma Ets : map (unflat G) targets = map tk (zrange N).
Proof.
  destruct draw_facts as (Ls & Lt & HN & _). rewrite (as_zrange 0 N targets HN Lt) at 1. rewrite map_map. reflexivity.
Qed.

Lemma in_starts k : 0 <= k < N -> In (znth 0 starts k) starts.
Proof. destruct draw_facts as (Ls & _). intro Hk. rewrite znth_nth by lia. apply nth_In. unfold zlen in Ls. lia. Qed.
Lemma in_targets k : 0 <= k < N -> In (znth 0 targets k) targets.
Proof. destruct draw_facts as (_ & Lt & _). intro Hk. rewrite znth_nth by lia. apply nth_In. unfold zlen in Lt. lia. Qed.

Lemma sk_in_grid k : 0 <= k < N -> in_grid G (sk k) = true.
Proof.
  intro Hk. destruct draw_facts as (_ & _ & _ & R & _). apply unflat_in_grid; [exact HG|]. apply R. apply in_or_app. left. apply in_starts. exact Hk.
Qed.
Lemma tk_in_grid k : 0 <= k < N -> in_grid G (tk k) = true.
Proof.
  intro Hk. destruct draw_facts as (_ & _ & _ & R & _). apply unflat_in_grid; [exact HG|]. apply R. apply in_or_app. right. apply in_targets. exact Hk.
Qed.

Lemma cells_nodup : NoDup (map sk (zrange N) ++ map tk (zrange N)).
Proof.
  destruct draw_facts as (_ & _ & _ & _ & ND). rewrite <- Ess, <- Ets, <- map_app. apply NoDup_map_on; [|exact ND].
  intros x y _ _ E. apply (unflat_inj G); assumption.
Qed.

Lemma in_sk q : In q (map sk (zrange N)) <-> exists k, 0 <= k < N /\ q = sk k.
Proof. rewrite in_map_iff. split; intros (k & A & B). - exists k. apply in_zrange in B. auto. - exists k. split; [auto|apply in_zrange; exact A]. Qed.
Lemma in_tk q : In q (map tk (zrange N)) <-> exists k, 0 <= k < N /\ q = tk k.
Proof. rewrite in_map_iff. split; intros (k & A & B). - exists k. apply in_zrange in B. auto. - exists k. split; [auto|apply in_zrange; exact A]. Qed.

Lemma sk_not_tk k j : 0 <= k < N -> 0 <= j < N -> sk k <> tk j.
Proof.
  intros Hk Hj E. apply (NoDup_app_disjoint _ _ (sk k) cells_nodup); [apply in_sk; exists k; auto|apply in_tk; exists j; auto].
Qed.

Lemma nth_map_zrange {A} (f : Z -> A) d k : 0 <= k < N -> nth (Z.to_nat k) (map f (zrange N)) d = f k.
Proof.
  intro Hk. rewrite <- znth_nth by lia. rewrite (znth_map _ 0 d) by (rewrite zlen_zrange; lia). rewrite znth_zrange by lia. reflexivity.
Qed.

Lemma grid_facts :
  dims G gR
  /\ (forall k, 0 <= k < N -> cell gR (sk k) = posv k)
  /\ (forall k, 0 <= k < N -> cell gR (tk k) = tgtv k)
  /\ (forall q, in_grid G q = true -> ~ In q (map sk (zrange N)) -> ~ In q (map tk (zrange N)) -> cell gR q = 0)
  /\ occupancy gR = 2 * N.
Proof.
  destruct draw_facts as (Ls & Lt & HN & _). pose proof cells_nodup as ND.
  assert (Fs : Forall (fun p => in_grid G p = true) (map sk (zrange N))).
  { rewrite Forall_forall. intros q Iq. apply in_sk in Iq as (k & Hk & ->). apply sk_in_grid. exact Hk. }
  assert (Ft : Forall (fun p => in_grid G p = true) (map tk (zrange N))).
  { rewrite Forall_forall. intros q Iq. apply in_tk in Iq as (k & Hk & ->). apply tk_in_grid. exact Hk. }
  assert (LN : length (zrange N) = Z.to_nat N) by (unfold zrange; apply zrange_from_length).
  unfold gR, g1. rewrite Ess, Ets.
  destruct (scatter_spec G (map sk (zrange N)) (map posv (zrange N)) (zeros G) (zeros_dims G ltac:(lia)) Fs
              (NoDup_app_left _ _ ND) ltac:(rewrite !map_length; reflexivity)) as (D1 & B1 & C1).
  destruct (scatter_spec G (map tk (zrange N)) (map tgtv (zrange N)) _ D1 Ft
              (NoDup_app_right _ _ ND) ltac:(rewrite !map_length; reflexivity)) as (D2 & B2 & C2).
  split; [exact D2|]. split; [|split; [|split]].
  - intros k Hk. rewrite C2; [|apply sk_in_grid; exact Hk|].
    + specialize (B1 (Z.to_nat k) ltac:(rewrite map_length; lia)). rewrite !nth_map_zrange in B1 by exact Hk. exact B1.
    + intro X. apply in_tk in X as (j & Hj & E). apply (sk_not_tk k j Hk Hj E).
  - intros k Hk. specialize (B2 (Z.to_nat k) ltac:(rewrite map_length; lia)). rewrite !nth_map_zrange in B2 by exact Hk. exact B2.
  - intros q Iq N1 N2. rewrite (C2 q Iq N2), (C1 q Iq N1). apply cell_zeros. exact Iq.
  - rewrite (occupancy_scatter G); [|exact D1|exact Ft|exact (NoDup_app_right _ _ ND)|rewrite !map_length; reflexivity| |].
    + rewrite (occupancy_scatter G); [|apply zeros_dims; lia|exact Fs|exact (NoDup_app_left _ _ ND)|rewrite !map_length; reflexivity| |].
      * rewrite occupancy_zeros, !map_length, LN. lia.
      * rewrite Forall_forall. intros v Iv. apply in_map_iff in Iv as (k & <- & Ik). apply in_zrange in Ik. unfold posv. lia.
      * intros p Ip. apply cell_zeros. rewrite Forall_forall in Fs. apply Fs. exact Ip.
    + rewrite Forall_forall. intros v Iv. apply in_map_iff in Iv as (k & <- & Ik). apply in_zrange in Ik. unfold tgtv. lia.
    + intros p Ip. pose proof Ip as Ip'. rewrite Forall_forall in Ft. rewrite (C1 p (Ft p Ip)).
      * apply cell_zeros. apply Ft. exact Ip.
      * intro X. apply (NoDup_app_disjoint _ _ p ND X Ip').
Qed.

Definition gen_agent (k : Z) : agent := mkA k (sk k) (tk k) (sk k).

Lemma gen_uniform_eq : gen_uniform G N starts targets = mkS gR 0 (map gen_agent (zrange N)).
Proof.
  unfold gen_uniform. cbv zeta. fold g1. fold gR. f_equal. rewrite Ess, Ets, combine_map_map, map2_id_map. reflexivity.
Qed.

Lemma znth_gen k : 0 <= k < N -> znth dflt (map gen_agent (zrange N)) k = gen_agent k.
Proof. intro Hk. rewrite (znth_map _ 0 dflt) by (rewrite zlen_zrange; lia). rewrite znth_zrange by lia. reflexivity. Qed.

Theorem gen_uniform_Physical : Physical c (gen_uniform G N starts targets).
Proof.
  destruct draw_facts as (Ls & Lt & HN & _). destruct grid_facts as (D & Ps & Pt & Pz & _).
  rewrite gen_uniform_eq. unfold Physical. cbn [grid agents]. rewrite Hc1, Hc2.
  split; [exact D|]. split; [rewrite zlen_map, zlen_zrange; lia|]. split.
  - intros k Hk. rewrite (znth_gen k Hk). unfold agent_ok, gen_agent. cbn [aid apos atarget].
    split; [reflexivity|]. split; [apply sk_in_grid; exact Hk|]. split; [apply tk_in_grid; exact Hk|].
    split; [apply Ps; exact Hk|right; apply Pt; exact Hk].
  - intros r k Hr Hk. assert (I : in_grid G (r, k) = true) by (apply in_grid_range; cbn [fst snd]; lia).
    change (gat 0 gR r k) with (cell gR (r, k)). set (q := (r, k)) in *.
    assert (dec : forall a b : Z * Z, {a = b} + {a <> b}) by (decide equality; apply Z.eq_dec).
    destruct (in_dec dec q (map tk (zrange N))) as [It|Nt].
    { apply in_tk in It as (j & Hj & ->). right. exists j. split; [exact Hj|]. right. right. rewrite (znth_gen j Hj). split; [apply Pt; exact Hj|reflexivity]. }
    destruct (in_dec dec q (map sk (zrange N))) as [Is|Ns].
    { apply in_sk in Is as (j & Hj & ->). right. exists j. split; [exact Hj|]. right. left. rewrite (znth_gen j Hj). split; [apply Ps; exact Hj|reflexivity]. }
    left. apply Pz; assumption.
Qed.

Theorem gen_uniform_fresh : fresh_b c (gen_uniform G N starts targets) = true.
Proof.
  destruct draw_facts as (Ls & Lt & HN & _). destruct grid_facts as (D & Ps & Pt & Pz & Occ).
  rewrite gen_uniform_eq. unfold fresh_b. cbn [grid agents cnt]. rewrite Hc1, Hc2, Occ, !Z.eqb_refl. cbn [andb]. rewrite andb_true_r.
  apply andb_true_iff. split; [apply andb_true_iff; split|].
  - rewrite forallb_forall. intros a Ia. apply in_map_iff in Ia as (k & <- & _). apply pos_eqb_eq. reflexivity.
  - apply (forallb_grid _ G); [exact D|]. intros r k Hr Hk. assert (I : in_grid G (r, k) = true) by (apply in_grid_range; cbn [fst snd]; lia).
    change (gat 0 gR r k) with (cell gR (r, k)). set (q := (r, k)) in *.
    assert (dec : forall a b : Z * Z, {a = b} + {a <> b}) by (decide equality; apply Z.eq_dec).
    destruct (in_dec dec q (map tk (zrange N))) as [It|Nt].
    { apply in_tk in It as (j & Hj & ->). rewrite (Pt j Hj). unfold tgtv. lia. }
    destruct (in_dec dec q (map sk (zrange N))) as [Is|Ns].
    { apply in_sk in Is as (j & Hj & ->). rewrite (Ps j Hj). unfold posv. lia. }
    rewrite (Pz q I Ns Nt). reflexivity.
  - rewrite !map_map. cbn [apos atarget gen_agent].
    assert (E1 : map (fun k => flat G (sk k)) (zrange N) = starts).
    { rewrite (as_zrange 0 N starts HN Ls) at 1. apply map_ext. intro k. apply flat_unflat. exact HG. }
    assert (E2 : map (fun k => flat G (tk k)) (zrange N) = targets).
    { rewrite (as_zrange 0 N targets HN Lt) at 1. apply map_ext. intro k. apply flat_unflat. exact HG. }
    unfold gen_agent. cbn [apos atarget]. rewrite E1, E2. unfold uniform_draw_ok in OK. apply andb_true_iff in OK as [_ O4]. exact O4.
Qed.

End Uniform.

(* all valid draws of the UniformRandomGenerator give a well-formed fresh instance *)
Theorem gen_uniform_wellformed c starts targets :
  0 < gsz c -> uniform_draw_ok (gsz c) (nag c) starts targets = true ->
  Physical c (gen_uniform (gsz c) (nag c) starts targets) /\ fresh_b c (gen_uniform (gsz c) (nag c) starts targets) = true.
Proof.
  intros HG OK. split; [apply gen_uniform_Physical|apply gen_uniform_fresh]; auto.
Qed.

(* every state reachable from a uniformly generated instance by in-spec joint actions is Physical *)
Theorem uniform_reachable_Physical c starts targets plan :
  0 < gsz c -> uniform_draw_ok (gsz c) (nag c) starts targets = true ->
  Forall (fun a => zlen a = nag c /\ in_spec a) plan ->
  Physical c (run c (gen_uniform (gsz c) (nag c) starts targets) plan).
Proof.
  intros HG OK F. apply Physical_run; [|exact F]. apply gen_uniform_wellformed; assumption.
Qed.
