(* CVRP AS TRANSLATED FROM THE SOURCE (Gen/CvrpSrc.v: the state part of step, _update_state, _state_to_observation) equals the hand
   model Model/CVRP.v for every state and action; the reward function is a parameter instantiated with the model's reward. *)
Require Import JV.Base.Prelude JV.Base.JaxIndex JV.Base.Codec JV.Base.TimeStep JV.Gen.TimeStepSrc JV.Gen.CvrpSrc.
Require JV.Model.CVRP.
Module M := JV.Model.CVRP.

Definition conv (s : State) : M.state :=
  M.mkS (s_demands s) (s_position s) (s_capacity s) (s_visited_mask s) (s_trajectory s) (s_num_total_visits s).
Definition reward_model rnd sparse pen dist : State -> Z -> State -> bool -> Z :=
  fun s _ s' v => M.reward_of rnd sparse pen dist (conv s) (conv s') v.

Lemma update_src mc s a : conv (update_state mc s a) = M.update mc (conv s) a.  Proof. reflexivity. Qed.

Lemma mask_src mc s : o_action_mask (state_to_observation mc s) = M.mask (conv s).
Proof.
  unfold state_to_observation, M.mask. cbn [o_action_mask conv M.visited M.demands M.cap M.pos]. unfold DEPOT_IDX. f_equal.
  generalize (s_capacity s) as c. generalize (s_demands s) as d. generalize (s_visited_mask s) as v.
  induction v as [|x v IH]; intros [|y d] c; cbn [map zip_with M.map2]; try reflexivity; try (rewrite IH; reflexivity).
Qed.

(* timesteps equal up to the boolean identities left after the case analysis; conditions compared up to conversion *)
Ltac ts_eq := unfold cond_done, termination_src, transition_src, termination, transition, StepType_LAST, StepType_MID, LAST, MID;
  cbn [negb orb andb]; rewrite ?orb_true_r, ?orb_false_r;
  first [reflexivity | match goal with |- (if ?c then _ else _) = (if ?d then _ else _) => change c with d; destruct d; reflexivity end].
Theorem step_src rnd sparse mc pen dist s a :
  let r := step mc (reward_model rnd sparse pen dist) s a in
  conv (fst r) = fst (M.step_r rnd sparse mc pen dist (conv s) a) /\ snd r = snd (M.step_r rnd sparse mc pen dist (conv s) a).
Proof.
  (* by cases on the two atomic tests (already visited? demand within capacity?): spelling of the source irrelevant *)
  cbv zeta. unfold step, M.step_r, M.valid, M.all_visited, reward_model. cbn [conv M.visited M.demands M.cap]. rewrite ?Z.geb_leb.
  destruct (jget false (s_visited_mask s) a) eqn:Ev, (jget 0 (s_demands s) a <=? s_capacity s) eqn:Ed; cbn [negb andb fst snd];
    (split; [reflexivity|]); ts_eq.
Qed.

Require Import JV.Proofs.CVRP.
Lemma src_mask_iff_legal n mc s a : shape n (conv s) -> 0 <= a <= n ->
  (jget false (o_action_mask (state_to_observation mc s)) a = true <-> M.legal n (conv s) a).
Proof. intros Sh Ha. rewrite mask_src. exact (C04_mask_iff_legal n (conv s) a Sh Ha). Qed.
Lemma src_step_inv dist n mc s h sp pen a : 1 <= n -> 0 <= mc -> M.Inv n mc (conv s) h -> 0 <= a <= n ->
  exists h', M.Inv n mc (conv (fst (step mc (reward_model (fun x => x) sp pen dist) s a))) h' /\ (h' = h \/ (h' = a :: h /\ M.legal n (conv s) a)).
Proof.
  intros Hn Hm I Ha. destruct (step_src (fun x => x) sp mc pen dist s a) as [E _]. rewrite E.
  exact (step_Inv_any dist n mc (conv s) h sp pen a Hn Hm I Ha).
Qed.

(* C03 on the translated step: never FIRST, MID with discount 1 or LAST with discount 0 (no truncation) -- any state, any action *)
Lemma src_step_protocol rnd sparse mc pen dist s a : step_ok 1 false (snd (step mc (reward_model rnd sparse pen dist) s a)) = true.
Proof. destruct (step_src rnd sparse mc pen dist s a) as [_ E]. rewrite E. apply C03_step_protocol. Qed.
(* C05: a refused node (any state) leaves the state untouched and ends the episode; the penalty is paid *)
Lemma src_refused_any_state dist rnd sp mc pen s a : M.valid (conv s) a = false ->
  let p := step mc (reward_model rnd sp pen dist) s a in
  conv (fst p) = conv s /\ st (snd p) = LAST /\ discount (snd p) = [0]
  /\ (sp = true \/ M.all_visited (conv s) = false -> reward (snd p) = [- pen]).
Proof.
  intros Hv. cbv zeta. destruct (step_src rnd sp mc pen dist s a) as [E1 E2]. rewrite E1, E2.
  exact (C05_refused_any_state dist rnd sp mc pen (conv s) a Hv).
Qed.
