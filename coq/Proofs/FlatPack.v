(* FlatPack: basic facts about the model (tabulated grids, rotation = quarter turns, expansion with the
   clamped start index), protocol (C03), structural horizon (C11), ignored illegal placements (C05),
   the mask is exactly the declarative legal set (C04).                                                  *)
Require Import JV.Base.Prelude JV.Base.JaxIndex JV.Base.Codec JV.Base.TimeStep JV.Model.FlatPack.

(* ---------- lists ---------- *)
Lemma znth_nth {A} (d : A) l i : 0 <= i -> znth d l i = nth (Z.to_nat i) l d.
Proof. intro H. unfold znth. destruct (i <? 0) eqn:E; [lia|reflexivity]. Qed.

Lemma zrange_length n : length (zrange n) = Z.to_nat n.
Proof. unfold zrange. apply zrange_from_length. Qed.

Lemma zlen_zrange n : 0 <= n -> zlen (zrange n) = n.
Proof. intro H. unfold zlen. rewrite zrange_length. lia. Qed.

Lemma zlen_map {A B} (f : A -> B) l : zlen (map f l) = zlen l.
Proof. unfold zlen. rewrite map_length. reflexivity. Qed.

Lemma znth_map_zrange {A} (d : A) (f : Z -> A) n i : 0 <= i < n -> znth d (map f (zrange n)) i = f i.
Proof.
  intro H. rewrite znth_nth by lia.
  rewrite (nth_indep _ d (f 0)) by (rewrite map_length, zrange_length; lia).
  rewrite map_nth. unfold zrange. rewrite zrange_from_nth by lia. f_equal. lia.
Qed.

Lemma jget_map_zrange {A} (d : A) (f : Z -> A) n i : 0 <= i < n -> jget d (map f (zrange n)) i = f i.
Proof.
  intro H. unfold jget. rewrite zlen_map, zlen_zrange by lia. rewrite jclamp_id by lia.
  apply znth_map_zrange. lia.
Qed.

Lemma jget_znth {A} (d d' : A) l i : 0 <= i < zlen l -> jget d l i = znth d' l i.
Proof.
  intro H. unfold jget. rewrite jclamp_id by lia. rewrite !znth_nth by lia.
  apply nth_indep. unfold zlen in H. lia.
Qed.

Lemma forallb_zrange (f : Z -> bool) n : forallb f (zrange n) = true <-> forall i, 0 <= i < n -> f i = true.
Proof.
  rewrite forallb_forall. split; intros H i Hi; apply H.
  - apply in_zrange. lia.
  - apply in_zrange in Hi. lia.
Qed.

Lemma cell_tab R C f i j : 0 <= i < R -> 0 <= j < C -> cell (tab R C f) i j = f i j.
Proof.
  intros Hi Hj. unfold cell, gat, tab.
  rewrite (znth_map_zrange [] _ R i Hi). apply znth_map_zrange. lia.
Qed.

Lemma tab_ext {A} R C (f h : Z -> Z -> A) :
  (forall i j, 0 <= i < R -> 0 <= j < C -> f i j = h i j) -> tab R C f = tab R C h.
Proof.
  intro H. unfold tab. apply map_ext_in. intros i Hi. apply map_ext_in. intros j Hj.
  apply in_zrange in Hi. apply in_zrange in Hj. apply H; lia.
Qed.

(* a grid of shape R x C is the table of its cells *)
Definition shape (R C : Z) (g : list (list Z)) : Prop := zlen g = R /\ Forall (fun row => zlen row = C) g.

Lemma list_is_map_zrange {A} (d : A) (l : list A) : l = map (fun i => znth d l i) (zrange (zlen l)).
Proof.
  apply (nth_ext _ _ d d).
  - rewrite map_length, zrange_length. unfold zlen. lia.
  - intros n Hn. pose proof (znth_map_zrange d (fun i => znth d l i) (zlen l) (Z.of_nat n)) as E.
    rewrite !znth_nth in E by lia. rewrite Nat2Z.id in E. rewrite E; [reflexivity|]. unfold zlen. lia.
Qed.

Lemma shape_tab R C g : shape R C g -> g = tab R C (cell g).
Proof.
  intros [HR HC]. unfold tab, cell, gat.
  rewrite (list_is_map_zrange [] g) at 1. rewrite HR. apply map_ext_in. intros i Hi. apply in_zrange in Hi.
  assert (HL : zlen (znth [] g i) = C).
  { rewrite Forall_forall in HC. apply HC. rewrite znth_nth by lia. apply nth_In. unfold zlen in HR. lia. }
  rewrite (list_is_map_zrange 0 (znth [] g i)) at 1. rewrite HL. reflexivity.
Qed.

Lemma shape_tab_intro R C f : 0 <= R -> 0 <= C -> shape R C (tab R C f).
Proof.
  intros HR HC. split.
  - unfold tab. rewrite zlen_map. apply zlen_zrange. lia.
  - apply Forall_forall. intros row Hin. unfold tab in Hin. apply in_map_iff in Hin as [i [E _]]. subst row.
    rewrite zlen_map. apply zlen_zrange. lia.
Qed.

(* ---------- rotation: rotate_block(b, k) = k clockwise quarter turns ---------- *)
Lemma is3x3_inv b : is3x3 b = true ->
  exists a0 a1 a2 b0 b1 b2 c0 c1 c2, b = [[a0; a1; a2]; [b0; b1; b2]; [c0; c1; c2]].
Proof.
  unfold is3x3. intro H. apply andb_true_iff in H as [L F].
  destruct b as [|r0 [|r1 [|r2 [|? ?]]]]; cbn in L; try discriminate.
  cbn in F. repeat (apply andb_true_iff in F as [? F]).
  destruct r0 as [|a0 [|a1 [|a2 [|? ?]]]]; try discriminate.
  destruct r1 as [|b0 [|b1 [|b2 [|? ?]]]]; try discriminate.
  destruct r2 as [|c0 [|c1 [|c2 [|? ?]]]]; try discriminate.
  repeat eexists.
Qed.

Lemma rotate_qturns b k : is3x3 b = true -> 0 <= k < 4 -> rotate b k = qturns (Z.to_nat k) b.
Proof.
  intros H Hk. destruct (is3x3_inv b H) as (a0 & a1 & a2 & b0 & b1 & b2 & c0 & c1 & c2 & E). subst b.
  assert (K : k = 0 \/ k = 1 \/ k = 2 \/ k = 3) by lia.
  destruct K as [K | [K | [K | K]]]; subst k; reflexivity.
Qed.

Lemma rotate_clamps b k : rotate b k = rotate b (Z.max 0 (Z.min 3 k)).
Proof. unfold rotate. replace (Z.max 0 (Z.min 3 (Z.max 0 (Z.min 3 k)))) with (Z.max 0 (Z.min 3 k)) by lia. reflexivity. Qed.

Lemma four_quarter_turns b : is3x3 b = true -> qturns 4 b = b.
Proof.
  intro H. destruct (is3x3_inv b H) as (a0 & a1 & a2 & b0 & b1 & b2 & c0 & c1 & c2 & E). subst b. reflexivity.
Qed.

Lemma qturn_3x3 b : is3x3 (qturn b) = true.
Proof. reflexivity. Qed.

Lemma qturns_3x3 n b : is3x3 b = true -> is3x3 (qturns n b) = true.
Proof. intro H. destruct n; [exact H|]. cbn [qturns]. apply qturn_3x3. Qed.

(* the cells of a quarter turn: new (i, j) = old (2 - j, i) *)
Lemma cell_qturn b i j : 0 <= i < 3 -> 0 <= j < 3 -> cell (qturn b) i j = cell b (2 - j) i.
Proof. intros Hi Hj. unfold qturn. rewrite cell_tab by lia. reflexivity. Qed.

(* ---------- expansion: dynamic_update_slice into zeros, start clamped ---------- *)
Lemma dyn_start_id n r : 0 <= r <= n - 3 -> dyn_start n 3 r = r.
Proof. intro H. unfold dyn_start, jnorm. destruct (r <? 0) eqn:E; lia. Qed.

Lemma dyn_start_range n r : 3 <= n -> 0 <= dyn_start n 3 r <= n - 3.
Proof. intro H. unfold dyn_start. lia. Qed.

Lemma cell_expand R C blk r c i j : 0 <= i < R -> 0 <= j < C ->
  cell (expand R C blk r c) i j =
  if in_win (dyn_start R 3 r) (dyn_start C 3 c) i j then cell blk (i - dyn_start R 3 r) (j - dyn_start C 3 c) else 0.
Proof. intros Hi Hj. unfold expand. rewrite cell_tab by lia. reflexivity. Qed.

Lemma cell_grid_add R C g e i j : 0 <= i < R -> 0 <= j < C -> cell (grid_add R C g e) i j = cell g i j + cell e i j.
Proof. intros Hi Hj. unfold grid_add. rewrite cell_tab by lia. reflexivity. Qed.

Lemma cell_zeros R C i j : 0 <= i < R -> 0 <= j < C -> cell (zeros R C) i j = 0.
Proof. intros Hi Hj. unfold zeros. rewrite cell_tab by lia. reflexivity. Qed.

(* the window test of the model is the whole-grid test of the code *)
Lemma overlap_free_full_eq R C g blk r c : 3 <= R -> 3 <= C ->
  overlap_free_full R C g (expand R C blk r c) = overlap_free g blk (dyn_start R 3 r) (dyn_start C 3 c).
Proof.
  intros HR HC. pose proof (dyn_start_range R r HR) as Hr. pose proof (dyn_start_range C c HC) as Hc.
  set (r0 := dyn_start R 3 r) in *. set (c0 := dyn_start C 3 c) in *.
  apply eq_true_iff_eq. unfold overlap_free_full, overlap_free.
  rewrite !forallb_zrange. split.
  - intros H i Hi. apply forallb_zrange. intros j Hj.
    specialize (H (r0 + i) ltac:(lia)). rewrite forallb_zrange in H. specialize (H (c0 + j) ltac:(lia)).
    rewrite cell_expand in H by lia. fold r0 c0 in H.
    replace (in_win r0 c0 (r0 + i) (c0 + j)) with true in H by (unfold in_win; lia).
    replace (r0 + i - r0) with i in H by lia. replace (c0 + j - c0) with j in H by lia.
    destruct (0 <? cell g (r0 + i) (c0 + j)); destruct (cell blk i j =? 0); cbn in *; auto; lia.
  - intros H i Hi. apply forallb_zrange. intros j Hj.
    rewrite cell_expand by lia. fold r0 c0.
    destruct (in_win r0 c0 i j) eqn:W.
    + unfold in_win in W. specialize (H (i - r0) ltac:(lia)). rewrite forallb_zrange in H.
      specialize (H (j - c0) ltac:(lia)).
      replace (r0 + (i - r0)) with i in H by lia. replace (c0 + (j - c0)) with j in H by lia.
      destruct (0 <? cell g i j); destruct (cell blk (i - r0) (j - c0) =? 0); cbn in *; auto; lia.
    + destruct (0 <? cell g i j); cbn; lia.
Qed.

(* ---------- step: projections ---------- *)
Lemma step_grid cf s b k r c :
  grid (fst (step cf s b k r c)) =
  if mask_get (amask s) b k r c
  then grid_add (cR cf) (cC cf) (grid s) (expand (cR cf) (cC cf) (rotate (jget [] (blocks s) b) k) r c) else grid s.
Proof. Timeout 20 (unfold step; cbv zeta; cbn [fst snd grid blocks amask placed step_count num_blocks]; reflexivity). Qed.
Lemma step_placed cf s b k r c :
  placed (fst (step cf s b k r c)) = if mask_get (amask s) b k r c then jset (placed s) b true else placed s.
Proof. Timeout 20 (unfold step; cbv zeta; cbn [fst snd grid blocks amask placed step_count num_blocks]; reflexivity). Qed.
Lemma step_blocks cf s b k r c : blocks (fst (step cf s b k r c)) = blocks s.
Proof. Timeout 20 (unfold step; cbv zeta; cbn [fst snd grid blocks amask placed step_count num_blocks]; reflexivity). Qed.
Lemma step_count_step cf s b k r c : step_count (fst (step cf s b k r c)) = step_count s + 1.
Proof. Timeout 20 (unfold step; cbv zeta; cbn [fst snd grid blocks amask placed step_count num_blocks]; reflexivity). Qed.
Lemma step_num_blocks cf s b k r c : num_blocks (fst (step cf s b k r c)) = num_blocks s.
Proof. Timeout 20 (unfold step; cbv zeta; cbn [fst snd grid blocks amask placed step_count num_blocks]; reflexivity). Qed.
Lemma step_amask cf s b k r c :
  amask (fst (step cf s b k r c)) =
  make_mask (cR cf) (cC cf) (cN cf) (grid (fst (step cf s b k r c))) (blocks s) (placed (fst (step cf s b k r c))).
Proof. Timeout 20 (unfold step; cbv zeta; cbn [fst snd grid blocks amask placed step_count num_blocks]; reflexivity). Qed.
Lemma step_ts cf s b k r c :
  snd (step cf s b k r c) =
  cond_done 1 (num_blocks s <=? step_count s + 1)
    [reward_num (cK cf) (mask_get (amask s) b k r c) (expand (cR cf) (cC cf) (rotate (jget [] (blocks s) b) k) r c)].
Proof. Timeout 20 (unfold step; cbv zeta; cbn [fst snd grid blocks amask placed step_count num_blocks]; reflexivity). Qed.

Global Opaque step.

(* ---------- C03: protocol ---------- *)
Lemma step_protocol cf s b k r c :
  let t := snd (step cf s b k r c) in
  (st t = MID /\ discount t = [1] \/ st t = LAST /\ discount t = [0]) /\ length (reward t) = 1%nat /\ st t <> FIRST.
Proof.
  cbn zeta. rewrite step_ts. unfold cond_done. destruct (num_blocks s <=? step_count s + 1); cbn; repeat split; auto;
  unfold MID, LAST, FIRST; lia.
Qed.

Lemma init_protocol cf bl : first_ok 1 (snd (init cf bl)) = true.
Proof. reflexivity. Qed.

(* ---------- C11: exactly num_blocks steps, whatever the actions ---------- *)
Lemma step_last_iff cf s b k r c : st (snd (step cf s b k r c)) = LAST <-> num_blocks s <= step_count s + 1.
Proof.
  rewrite step_ts. unfold cond_done. destruct (num_blocks s <=? step_count s + 1) eqn:E; cbn; unfold LAST, MID; split; intro; lia.
Qed.

Lemma run_counts cf acts : forall s s' ts,
  run cf s acts = (s', ts) ->
  step_count s' = step_count s + zlen acts /\ num_blocks s' = num_blocks s /\ length ts = length acts /\
  forall i t, nth_error ts i = Some t -> (st t = LAST <-> num_blocks s <= step_count s + Z.of_nat i + 1).
Proof.
  induction acts as [|a rest IH]; intros s s' ts H; cbn [run] in H.
  - inversion H; subst. split; [unfold zlen; cbn; lia|]. split; [reflexivity|]. split; [reflexivity|].
    intros [|i] t E; discriminate.
  - destruct a as [[[b k] r] c]. cbn [step_a] in H.
    destruct (step cf s b k r c) as [s1 t1] eqn:E1.
    destruct (run cf s1 rest) as [s2 ts2] eqn:E2. inversion H; subst. clear H.
    specialize (IH _ _ _ E2) as (A & B & L & D).
    assert (S1 : s1 = fst (step cf s b k r c)) by (rewrite E1; reflexivity).
    assert (T1 : t1 = snd (step cf s b k r c)) by (rewrite E1; reflexivity).
    rewrite S1, step_count_step in A. rewrite S1, step_num_blocks in B.
    split; [rewrite zlen_cons; lia|]. split; [exact B|]. split; [cbn [length]; lia|].
    intros i t E. destruct i as [|i]; cbn [nth_error] in E.
    + inversion E; subst t. rewrite T1, step_last_iff. lia.
    + apply D in E. rewrite E. rewrite S1, step_num_blocks, step_count_step. lia.
Qed.

(* from reset: the i-th step (1-based) is LAST iff i >= num_blocks; so the first LAST is step num_blocks exactly *)
Theorem horizon_exact cf bl acts s' ts i t :
  run cf (fst (init cf bl)) acts = (s', ts) -> nth_error ts i = Some t ->
  (st t = LAST <-> cN cf <= Z.of_nat i + 1).
Proof.
  intros H E. destruct (run_counts cf acts _ _ _ H) as (_ & _ & _ & D). specialize (D i t E).
  cbn [init fst step_count num_blocks] in D. rewrite D. lia.
Qed.

(* ---------- C05: a placement the mask rejects is ignored ---------- *)
Theorem illegal_ignored cf s b k r c :
  mask_get (amask s) b k r c = false ->
  let s' := fst (step cf s b k r c) in let t := snd (step cf s b k r c) in
  grid s' = grid s /\ placed s' = placed s /\ blocks s' = blocks s /\ num_blocks s' = num_blocks s /\
  step_count s' = step_count s + 1 /\
  amask s' = make_mask (cR cf) (cC cf) (cN cf) (grid s) (blocks s) (placed s) /\
  reward t = [0] /\ (st t = MID <-> step_count s + 1 < num_blocks s).
Proof.
  intro M. cbn zeta. rewrite step_amask, step_grid, step_placed, step_ts, M.
  repeat split; auto.
  - unfold cond_done. destruct (_ <=? _); reflexivity.
  - unfold cond_done. destruct (num_blocks s <=? step_count s + 1) eqn:E; cbn; unfold MID, LAST; lia.
  - unfold cond_done. destruct (num_blocks s <=? step_count s + 1) eqn:E; cbn; unfold MID, LAST; lia.
Qed.

(* ---------- the state invariant ---------- *)
Definition nonneg_grid (R C : Z) (g : list (list Z)) : Prop := forall i j, 0 <= i < R -> 0 <= j < C -> 0 <= cell g i j.
Definition block_nonneg (b : list (list Z)) : Prop := forall i j, 0 <= cell b i j.
Definition blocks_ok (N : Z) (bl : list (list (list Z))) : Prop :=
  zlen bl = N /\ Forall (fun b => is3x3 b = true /\ block_nonneg b) bl.

Record StateOK (cf : cfg) (s : state) : Prop := {
  ok_dims : 3 <= cR cf /\ 3 <= cC cf /\ 0 <= cN cf;
  ok_mask : amask s = make_mask (cR cf) (cC cf) (cN cf) (grid s) (blocks s) (placed s);
  ok_shape : shape (cR cf) (cC cf) (grid s);
  ok_nonneg : nonneg_grid (cR cf) (cC cf) (grid s);
  ok_blocks : blocks_ok (cN cf) (blocks s);
  ok_placed : zlen (placed s) = cN cf;
  ok_nb : num_blocks s = cN cf }.

Lemma blocks_ok_nth N bl b : blocks_ok N bl -> 0 <= b < N -> is3x3 (znth [] bl b) = true /\ block_nonneg (znth [] bl b).
Proof.
  intros [L F] Hb. rewrite Forall_forall in F. apply F. rewrite znth_nth by lia. apply nth_In. unfold zlen in L. lia.
Qed.

Lemma mask_get_make_mask R C N g bl pl b k r c :
  0 <= b < N -> 0 <= k < 4 -> 0 <= r < R - 2 -> 0 <= c < C - 2 ->
  mask_get (make_mask R C N g bl pl) b k r c = is_legal R C g bl pl b k r c.
Proof.
  intros Hb Hk Hr Hc. unfold mask_get, make_mask, is_legal.
  rewrite (jget_map_zrange [] _ N b Hb). rewrite (jget_map_zrange [] _ 4 k Hk).
  unfold tab. rewrite (jget_map_zrange [] _ (R - 2) r Hr). rewrite (jget_map_zrange false _ (C - 2) c Hc).
  destruct (jget false pl b); reflexivity.
Qed.

Lemma all_true_is_make_mask R C N bl : 3 <= R -> 3 <= C -> 0 <= N ->
  all_true_mask R C N = make_mask R C N (zeros R C) bl (repeat false (Z.to_nat N)).
Proof.
  intros HR HC HN. unfold all_true_mask, make_mask.
  apply map_ext_in. intros b Hb. apply in_zrange in Hb.
  apply map_ext_in. intros k Hk. apply in_zrange in Hk.
  apply tab_ext. intros r c Hr Hc.
  assert (P : jget false (repeat false (Z.to_nat N)) b = false).
  { unfold jget. rewrite znth_nth by (apply jclamp_range; unfold zlen; rewrite repeat_length; lia).
    apply nth_repeat. }
  rewrite P. cbn [negb andb]. symmetry. unfold overlap_free.
  apply forallb_zrange. intros i Hi. apply forallb_zrange. intros j Hj.
  rewrite !dyn_start_id by lia. rewrite cell_zeros by lia. reflexivity.
Qed.

Lemma init_StateOK cf bl : 3 <= cR cf -> 3 <= cC cf -> 0 <= cN cf -> blocks_ok (cN cf) bl -> StateOK cf (fst (init cf bl)).
Proof.
  intros HR HC HN HB. constructor; cbn [init fst grid blocks amask placed num_blocks]; auto.
  - apply all_true_is_make_mask; lia.
  - apply shape_tab_intro; lia.
  - intros i j Hi Hj. rewrite cell_zeros by lia. lia.
  - unfold zlen. rewrite repeat_length. lia.
Qed.

Lemma znth_oob {A} (d : A) l i : i < 0 \/ zlen l <= i -> znth d l i = d.
Proof.
  intro H. unfold znth. destruct (i <? 0) eqn:E; [reflexivity|]. apply nth_overflow. unfold zlen in H. lia.
Qed.

Lemma cell_3x3_outside b i j : is3x3 b = true -> ~ (0 <= i < 3 /\ 0 <= j < 3) -> cell b i j = 0.
Proof.
  intros H N. destruct (is3x3_inv b H) as (a0 & a1 & a2 & b0 & b1 & b2 & c0 & c1 & c2 & E). subst b.
  unfold cell, gat.
  destruct (Z_lt_dec i 0) as [L|L]; [rewrite (znth_oob [] _ i) by (left; lia); apply znth_oob; unfold zlen; cbn; lia|].
  destruct (Z_le_dec 3 i) as [G|G]; [rewrite (znth_oob [] _ i) by (right; unfold zlen; cbn; lia); apply znth_oob; unfold zlen; cbn; lia|].
  assert (K : i = 0 \/ i = 1 \/ i = 2) by lia.
  destruct K as [K | [K | K]]; subst i;
    match goal with |- znth 0 ?row j = 0 => let r := eval cbv in row in change row with r end;
    apply znth_oob; unfold zlen; cbn [length]; lia.
Qed.

Lemma rotate_block_nonneg b k : is3x3 b = true -> block_nonneg b -> 0 <= k < 4 ->
  is3x3 (rotate b k) = true /\ block_nonneg (rotate b k).
Proof.
  intros H NN Hk. rewrite rotate_qturns by auto. split; [apply qturns_3x3; auto|].
  generalize (Z.to_nat k). intro n. induction n as [|n IH]; [exact NN|].
  cbn [qturns]. intros i j.
  destruct (Z_lt_dec i 0); [|destruct (Z_lt_dec j 0); [|destruct (Z_lt_dec i 3); [destruct (Z_lt_dec j 3)|]]].
  3: { rewrite cell_qturn by lia. apply IH. }
  all: rewrite cell_3x3_outside; [lia | apply qturn_3x3 | lia].
Qed.

(* every step from an OK state with an in-spec action gives an OK state *)
Lemma step_StateOK cf s b k r c :
  StateOK cf s -> in_space cf (b, k, r, c) -> StateOK cf (fst (step cf s b k r c)).
Proof.
  intros OK (Hb & Hk & Hr & Hc). destruct OK as [[HR [HC HN]] M SH NN BO PL NB].
  constructor.
  - repeat split; assumption.
  - rewrite step_blocks. apply step_amask.
  - rewrite step_grid. destruct (mask_get (amask s) b k r c); [|exact SH]. apply shape_tab_intro; lia.
  - rewrite step_grid. destruct (mask_get (amask s) b k r c); [|exact NN].
    intros i j Hi Hj. rewrite cell_grid_add, cell_expand by lia.
    specialize (NN i j Hi Hj).
    destruct (in_win _ _ i j); [|lia].
    destruct BO as [LB FB].
    rewrite (jget_znth [] [] (blocks s) b) by lia.
    destruct (blocks_ok_nth _ _ b (conj LB FB) Hb) as [B3 BN].
    destruct (rotate_block_nonneg _ k B3 BN Hk) as [_ RN]. specialize (RN (i - dyn_start (cR cf) 3 r) (j - dyn_start (cC cf) 3 c)). lia.
  - rewrite step_blocks. exact BO.
  - rewrite step_placed. destruct (mask_get (amask s) b k r c); [|exact PL]. unfold zlen. rewrite jset_length. exact PL.
  - rewrite step_num_blocks. exact NB.
Qed.

(* ---------- C04: mask entry = true  <->  the placement is legal by the rules ---------- *)
Lemma is_legal_iff cf g bl pl b k r c :
  3 <= cR cf -> 3 <= cC cf -> nonneg_grid (cR cf) (cC cf) g -> blocks_ok (cN cf) bl -> zlen pl = cN cf ->
  in_space cf (b, k, r, c) ->
  (is_legal (cR cf) (cC cf) g bl pl b k r c = true <-> legal cf g bl pl (b, k, r, c)).
Proof.
  intros HR HC NN BO PL IS. pose proof IS as (Hb & Hk & Hr & Hc).
  unfold is_legal, legal. destruct BO as [LB FB].
  rewrite (jget_znth false true pl b) by lia. rewrite (jget_znth [] [] bl b) by lia.
  destruct (blocks_ok_nth _ _ b (conj LB FB) Hb) as [B3 BN].
  rewrite rotate_qturns by auto. rewrite !dyn_start_id by lia.
  set (blk := qturns (Z.to_nat k) (znth [] bl b)).
  rewrite andb_true_iff, negb_true_iff. unfold overlap_free. rewrite forallb_zrange.
  split.
  - intros [P O]. split; [exact IS|]. split; [exact P|]. intros i j Hi Hj NZ.
    specialize (O i Hi). rewrite forallb_zrange in O. specialize (O j Hj).
    specialize (NN (r + i) (c + j) ltac:(lia) ltac:(lia)).
    destruct (0 <? cell g (r + i) (c + j)) eqn:E; [|lia].
    destruct (cell blk i j =? 0) eqn:E2; [lia|discriminate].
  - intros (_ & P & O). split; [exact P|]. intros i Hi. apply forallb_zrange. intros j Hj.
    destruct (cell blk i j =? 0) eqn:E2; [rewrite andb_false_r; reflexivity|].
    rewrite (O i j Hi Hj) by lia. reflexivity.
Qed.

Theorem mask_iff_legal cf s a :
  StateOK cf s -> in_space cf a -> let '(b, k, r, c) := a in
  (mask_get (amask s) b k r c = true <-> legal cf (grid s) (blocks s) (placed s) a).
Proof.
  destruct a as [[[b k] r] c]. intros OK IS. pose proof IS as (Hb & Hk & Hr & Hc).
  destruct OK as [[HR [HC HN]] M SH NN BO PL NB]. rewrite M.
  rewrite mask_get_make_mask by lia. apply is_legal_iff; auto.
Qed.

Lemma legal_b_iff cf g bl pl a : legal_b cf g bl pl a = true <-> legal cf g bl pl a.
Proof.
  destruct a as [[[b k] r] c]. unfold legal_b, legal.
  rewrite !andb_true_iff, negb_true_iff, forallb_zrange.
  assert (IS : in_space_b cf (b, k, r, c) = true <-> in_space cf (b, k, r, c)).
  { unfold in_space_b, in_space. lia. }
  rewrite IS. split.
  - intros [[A B] F]. split; [exact A|]. split; [exact B|]. intros i j Hi Hj NZ.
    specialize (F i Hi). rewrite forallb_zrange in F. specialize (F j Hj). lia.
  - intros (A & B & F). split; [split; [exact A | exact B]|]. intros i Hi. apply forallb_zrange. intros j Hj.
    specialize (F i j Hi Hj). lia.
Qed.
