(* FlatPack generator (C10): the toy generators' literal instances tile their solved grid and are solvable inside the
   action space; a concrete valid draw of RandomFlatPackGenerator (the one recovered from PRNGKey(6), 2 x 2 blocks)
   whose solved grid IS an exact tiling by connected blocks fitting their 3x3 windows, but whose cropped / rotated
   block set has no complete placement inside the action space (exhaustive verified search).                      *)
Require Import JV.Base.Prelude JV.Base.JaxIndex JV.Base.Codec JV.Base.TimeStep JV.Model.FlatPack JV.Proofs.FlatPack JV.Proofs.FlatPack_Pack JV.Proofs.FlatPack_Solve.

Definition toy_cf : cfg := mkC 5 5 4 0.
Definition toy_sol_rot : list (Z * Z * Z) := [(2, 0, 0); (2, 0, 2); (1, 2, 0); (0, 2, 2)].
Definition toy_sol_norot : list (Z * Z * Z) := [(0, 0, 0); (0, 0, 2); (0, 2, 0); (0, 2, 2)].

Lemma toy_rot_ok : tiling_ok_b 2 2 toy_solved = true /\ inst_wf_b 4 toy_blocks_rot = true /\
  tiles_b toy_cf toy_blocks_rot toy_sol_rot = true /\ plays_b toy_cf toy_blocks_rot (sol_actions toy_sol_rot) = true /\
  grid (fst (run toy_cf (fst (init toy_cf toy_blocks_rot)) (sol_actions toy_sol_rot))) = toy_solved.
Proof. vm_compute. repeat split; reflexivity. Qed.

Lemma toy_norot_ok : inst_wf_b 4 toy_blocks_norot = true /\
  tiles_b toy_cf toy_blocks_norot toy_sol_norot = true /\ plays_b toy_cf toy_blocks_norot (sol_actions toy_sol_norot) = true /\
  grid (fst (run toy_cf (fst (init toy_cf toy_blocks_norot)) (sol_actions toy_sol_norot))) = toy_solved.
Proof. vm_compute. repeat split; reflexivity. Qed.

(* the draws recovered from RandomFlatPackGenerator(2, 2)(PRNGKey(6)) *)
Definition w_cd : list (list bool) := [[true; false; false; false; true]].
Definition w_rd : list (list bool) := [[true; true; true; false; false]].
Definition w_rots : list Z := [2; 0; 2; 1].
Definition w_perm : list Z := [1; 3; 2; 0].
Definition w_blocks : list (list (list Z)) :=
  [ [[0;2;2];[2;2;2];[2;0;0]]; [[0;4;0];[4;4;4];[4;4;4]]; [[0;0;0];[3;3;3];[0;3;3]]; [[0;1;1];[0;1;1];[1;1;1]] ].

Lemma witness_facts :
  valid_draw 2 2 w_cd w_rd w_rots w_perm = true /\
  solved_grid 2 2 w_cd w_rd = [[1;1;1;2;2];[1;1;2;2;2];[1;1;2;4;4];[3;3;4;4;4];[3;3;3;4;4]] /\
  tiling_ok_b 2 2 (solved_grid 2 2 w_cd w_rd) = true /\
  gen_blocks 2 2 (solved_grid 2 2 w_cd w_rd) w_rots w_perm = w_blocks /\
  inst_wf_b 4 w_blocks = true /\
  solvable_b toy_cf w_blocks = false.
Proof. vm_compute. repeat split; reflexivity. Qed.

Lemma w_blocks_ok : blocks_ok 4 w_blocks.
Proof. apply blocks_ok_b; vm_compute; reflexivity. Qed.

(* a valid draw whose solved grid is a perfect tiling, yet the emitted block set cannot be packed: NO assignment of
   (rotation, row, col) inside the action space tiles the 5 x 5 grid *)
Theorem random_generator_unsolvable_instance :
  exists cd rd rots perm,
    valid_draw 2 2 cd rd rots perm = true /\
    tiling_ok_b 2 2 (solved_grid 2 2 cd rd) = true /\
    forall sol, ~ tiles toy_cf (gen_blocks 2 2 (solved_grid 2 2 cd rd) rots perm) sol.
Proof.
  exists w_cd, w_rd, w_rots, w_perm. destruct witness_facts as (V & _ & T & G & _ & S).
  split; [exact V|]. split; [exact T|]. intros sol TL. rewrite G in TL.
  apply solvable_b_complete in TL.
  - rewrite S in TL. discriminate.
  - unfold toy_cf; cbn [cR]; lia.
  - unfold toy_cf; cbn [cC]; lia.
  - unfold toy_cf; cbn [cN]; lia.
  - exact w_blocks_ok.
Qed.
