(* FlatPack generator (C10), part 3: the condition [own_ok_b] read on the solved grid and on the draws.
   Grid level: every block of the LAST block row still owns a cell of row R-3 (its cropped height is 3) and every
   block of the LAST block column still owns a cell of column C-3 (its cropped width is 3); the other blocks never
   matter.  Draw level: which interlock draws make a block lose that row / column.                            *)
Require Import JV.Base.Prelude JV.Base.JaxIndex JV.Base.Codec JV.Base.TimeStep JV.Model.FlatPack JV.Proofs.FlatPack
  JV.Proofs.FlatPack_Tiling JV.Proofs.FlatPack_OwnSol.

(* what tiling_ok_b says cell by cell, and the centre of every block *)
Lemma tiling_cells nrb ncb g : 1 <= nrb -> 1 <= ncb -> tiling_ok_b nrb ncb g = true ->
  (forall i j, 0 <= i < 2 * nrb + 1 -> 0 <= j < 2 * ncb + 1 ->
     1 <= cell g i j <= nrb * ncb /\ Z.abs (i - (2 * ((cell g i j - 1) / ncb) + 1)) <= 1 /\
     Z.abs (j - (2 * ((cell g i j - 1) mod ncb) + 1)) <= 1) /\
  (forall a b, 0 <= a < nrb -> 0 <= b < ncb -> cell g (2 * a + 1) (2 * b + 1) = a * ncb + b + 1).
Proof.
  intros HR HC T. unfold tiling_ok_b in T. cbv zeta in T. apply andb_true_iff in T as [SH T].
  assert (Cell : forall i j, 0 <= i < 2 * nrb + 1 -> 0 <= j < 2 * ncb + 1 ->
     1 <= cell g i j <= nrb * ncb /\ Z.abs (i - (2 * ((cell g i j - 1) / ncb) + 1)) <= 1 /\
     Z.abs (j - (2 * ((cell g i j - 1) mod ncb) + 1)) <= 1).
  { intros i j Hi Hj. rewrite forallb_zrange in T. specialize (T i Hi). rewrite forallb_zrange in T. specialize (T j Hj).
    cbv zeta in T. repeat (apply andb_true_iff in T as [T ?]). repeat split; lia. }
  split; [exact Cell|]. intros a b Ha Hb.
  destruct (Cell (2 * a + 1) (2 * b + 1) ltac:(lia) ltac:(lia)) as (Hk' & Ai & Aj).
  set (k' := cell g (2 * a + 1) (2 * b + 1)) in *.
  destruct (kdiv_range k' nrb ncb HC Hk') as [Ra' Rb'].
  assert (Ea : (k' - 1) / ncb = a) by lia. assert (Eb : (k' - 1) mod ncb = b) by lia.
  pose proof (Z.div_mod (k' - 1) ncb ltac:(lia)) as D'. rewrite Ea, Eb in D'. lia.
Qed.

Theorem own_ok_grid_iff nrb ncb g : 1 <= nrb -> 1 <= ncb -> tiling_ok_b nrb ncb g = true ->
  (own_ok_b nrb ncb g = true <->
   (forall b, 0 <= b < ncb -> exists j, 0 <= j < 2 * ncb + 1 /\ cell g (2 * nrb + 1 - 3) j = (nrb - 1) * ncb + b + 1) /\
   (forall a, 0 <= a < nrb -> exists i, 0 <= i < 2 * nrb + 1 /\ cell g i (2 * ncb + 1 - 3) = a * ncb + (ncb - 1) + 1)).
Proof.
  intros HR HC T. destruct (tiling_cells nrb ncb g HR HC T) as [Cell Ctr].
  set (R := 2 * nrb + 1) in *. set (C := 2 * ncb + 1) in *.
  assert (OK : own_ok_b nrb ncb g = true <->
     forall p, 0 <= p < nrb * ncb -> first_row R C g (p + 1) <= R - 3 /\ first_col R C g (p + 1) <= C - 3).
  { unfold own_ok_b. cbv zeta. fold R C. rewrite forallb_zrange. split; intros H p Hp; specialize (H p Hp); lia. }
  rewrite OK. clear OK.
  assert (ER : R = 2 * nrb + 1) by reflexivity. assert (EC : C = 2 * ncb + 1) by reflexivity. clearbody R C.
  (* the cells of block (a, b) *)
  assert (Geo : forall a b i j, 0 <= a < nrb -> 0 <= b < ncb -> 0 <= i < R -> 0 <= j < C -> cell g i j = a * ncb + b + 1 ->
            Z.abs (i - (2 * a + 1)) <= 1 /\ Z.abs (j - (2 * b + 1)) <= 1).
  { intros a b i j Ha Hb Hi Hj E. destruct (Cell i j Hi Hj) as (_ & Ai & Aj). rewrite E in Ai, Aj.
    replace (a * ncb + b + 1 - 1) with (a * ncb + b) in Ai, Aj by lia.
    destruct (divmod_lin a b ncb Hb) as [D M]. rewrite D in Ai. rewrite M in Aj. lia. }
  split.
  - intro H. split.
    + intros b Hb. assert (Hp : 0 <= (nrb - 1) * ncb + b < nrb * ncb) by nia.
      destruct (H _ Hp) as [Fr _].
      destruct (first_row_spec R C g ((nrb - 1) * ncb + b + 1) (2 * (nrb - 1) + 1) (2 * b + 1) ltac:(lia) ltac:(lia)
                  (Ctr (nrb - 1) b ltac:(lia) Hb)) as (F0 & [j [Hj E]] & _). cbv zeta in *.
      exists j. split; [exact Hj|].
      destruct (Geo (nrb - 1) b (first_row R C g ((nrb - 1) * ncb + b + 1)) j ltac:(lia) Hb ltac:(lia) Hj E) as [A _].
      replace (R - 3) with (first_row R C g ((nrb - 1) * ncb + b + 1)) by lia. exact E.
    + intros a Ha. assert (Hp : 0 <= a * ncb + (ncb - 1) < nrb * ncb) by nia.
      destruct (H _ Hp) as [_ Fc].
      destruct (first_col_spec R C g (a * ncb + (ncb - 1) + 1) (2 * a + 1) (2 * (ncb - 1) + 1) ltac:(lia) ltac:(lia)
                  (Ctr a (ncb - 1) Ha ltac:(lia))) as (F0 & [i [Hi E]] & _). cbv zeta in *.
      exists i. split; [exact Hi|].
      destruct (Geo a (ncb - 1) i (first_col R C g (a * ncb + (ncb - 1) + 1)) Ha ltac:(lia) Hi ltac:(lia) E) as [_ A].
      replace (C - 3) with (first_col R C g (a * ncb + (ncb - 1) + 1)) by lia. exact E.
  - intros [HRow HCol] p Hp.
    destruct (kdiv_range (p + 1) nrb ncb HC ltac:(lia)) as [Ra Rb]. replace (p + 1 - 1) with p in Ra, Rb by lia.
    set (a := p / ncb) in *. set (b := p mod ncb) in *.
    assert (Ep : p + 1 = a * ncb + b + 1) by (pose proof (Z.div_mod p ncb ltac:(lia)); fold a b in H; lia).
    pose proof (Ctr a b Ra Rb) as Cc. rewrite <- Ep in Cc.
    destruct (first_row_spec R C g (p + 1) (2 * a + 1) (2 * b + 1) ltac:(lia) ltac:(lia) Cc) as (Fr & _ & MinR).
    destruct (first_col_spec R C g (p + 1) (2 * a + 1) (2 * b + 1) ltac:(lia) ltac:(lia) Cc) as (Fc & _ & MinC).
    cbv zeta in *. split.
    + destruct (Z.eq_dec a (nrb - 1)) as [Ea | Na]; [|lia].
      destruct (HRow b Rb) as [j [Hj E]]. rewrite <- Ea, <- Ep in E.
      pose proof (first_row_spec R C g (p + 1) (R - 3) j ltac:(lia) Hj E) as (F' & _). cbv zeta in F'. lia.
    + destruct (Z.eq_dec b (ncb - 1)) as [Eb | Nb]; [|lia].
      destruct (HCol a Ra) as [i [Hi E]]. rewrite <- Eb, <- Ep in E.
      pose proof (first_col_spec R C g (p + 1) i (C - 3) Hi ltac:(lia) E) as (F' & _). cbv zeta in F'. lia.
Qed.

(* ---------- draw level ---------- *)
Lemma g3_lab nrb ncb cd rd i j : 1 <= nrb -> 1 <= ncb -> 0 <= i < 2 * nrb + 1 -> 0 <= j < 2 * ncb + 1 ->
  g3 nrb ncb cd rd i j = bk nrb (srcrow nrb rd i j) * ncb + bk ncb (srccol ncb cd (srcrow nrb rd i j) j) + 1.
Proof. intros HR HC Hi Hj. unfold g3. apply g1_plain; auto. apply (srcrow_plain nrb rd i j HR Hi). Qed.

Lemma lab_inj n a b a' b' : 0 <= b < n -> 0 <= b' < n -> a * n + b + 1 = a' * n + b' + 1 -> a = a' /\ b = b'.
Proof.
  intros Hb Hb' E. destruct (divmod_lin a b n Hb) as [D M]. destruct (divmod_lin a' b' n Hb') as [D' M'].
  replace (a * n + b) with (a' * n + b') in D, M by lia. split; congruence.
Qed.

(* block (nrb-1, b) keeps a cell of row R-3: its own edge cell above the centre, or one of the two corner cells *)
Definition keeps_top (nrb ncb : Z) (cd rd : list (list bool)) (b : Z) : bool :=
  (nrb =? 1) ||
  let rdl := znth [] rd (nrb - 2) in let r2 := 2 * nrb - 1 in
  negb (znth false rdl (2 * b + 1))
  || (negb (znth false rdl (2 * b)) && ((b =? 0) || negb (znth false (znth [] cd (b - 1)) r2)))
  || (negb (znth false rdl (2 * b + 2)) && ((b =? ncb - 1) || znth false (znth [] cd b) r2)).
(* block (a, ncb-1) keeps a cell of column C-3: only the draw of its centre row matters (the interlock rows copy it),
   plus the draws of the first / last grid row for the first / last block row *)
Definition keeps_left (nrb ncb : Z) (cd : list (list bool)) (a : Z) : bool :=
  (ncb =? 1) ||
  let cdl := znth [] cd (ncb - 2) in
  negb (znth false cdl (2 * a + 1)) || ((a =? 0) && negb (znth false cdl 0)) || ((a =? nrb - 1) && negb (znth false cdl (2 * nrb))).

Lemma keeps_top_iff nrb ncb cd rd b : 1 <= nrb -> 1 <= ncb -> 0 <= b < ncb ->
  ((exists j, 0 <= j < 2 * ncb + 1 /\ g3 nrb ncb cd rd (2 * nrb + 1 - 3) j = (nrb - 1) * ncb + b + 1)
   <-> keeps_top nrb ncb cd rd b = true).
Proof.
  intros HR HC Hb. unfold keeps_top. cbv zeta.
  destruct (Z.eq_dec nrb 1) as [E1 | N1].
  { subst nrb. cbn [Z.eqb orb]. split; [reflexivity|]. intros _. exists (2 * b + 1). split; [lia|].
    rewrite g3_lab by lia. replace (2 * 1 + 1 - 3) with 0 by lia.
    replace (srcrow 1 rd 0 (2 * b + 1)) with 0 by reflexivity.
    rewrite srccol_odd by lia. unfold bk. replace (Z.min (0 / 2) (1 - 1)) with 0 by reflexivity. replace (Z.min ((2 * b + 1) / 2) (ncb - 1)) with b by lia. lia. }
  replace (nrb =? 1) with false by lia. cbn [orb].
  assert (SR : forall j, srcrow nrb rd (2 * nrb + 1 - 3) j = if znth false (znth [] rd (nrb - 2)) j then 2 * nrb - 3 else 2 * nrb - 1).
  { intro j. unfold srcrow. replace (ilk nrb (2 * nrb + 1 - 3)) with true by (unfold ilk; lia).
    replace ((2 * nrb + 1 - 3) / 2 - 1) with (nrb - 2) by lia. destruct (znth false (znth [] rd (nrb - 2)) j); lia. }
  assert (Lab : forall j, 0 <= j < 2 * ncb + 1 ->
            (g3 nrb ncb cd rd (2 * nrb + 1 - 3) j = (nrb - 1) * ncb + b + 1 <->
             znth false (znth [] rd (nrb - 2)) j = false /\ bk ncb (srccol ncb cd (2 * nrb - 1) j) = b)).
  { intros j Hj. rewrite g3_lab by lia. rewrite SR.
    destruct (srccol_plain ncb cd (if znth false (znth [] rd (nrb - 2)) j then 2 * nrb - 3 else 2 * nrb - 1) j HC Hj) as [[P0 _] _].
    split.
    - intro E. apply lab_inj in E as [Ea Eb]; [| apply bk_range; lia | lia].
      destruct (znth false (znth [] rd (nrb - 2)) j); [unfold bk in Ea; lia|]. split; [reflexivity | exact Eb].
    - intros [D Eb]. rewrite D. rewrite Eb. unfold bk. replace (Z.min ((2 * nrb - 1) / 2) (nrb - 1)) with (nrb - 1) by lia. reflexivity. }
  assert (SC1 : bk ncb (srccol ncb cd (2 * nrb - 1) (2 * b + 1)) = b).
  { rewrite srccol_odd by lia. unfold bk. lia. }
  assert (SC0 : bk ncb (srccol ncb cd (2 * nrb - 1) (2 * b)) = b <-> ((b =? 0) || negb (znth false (znth [] cd (b - 1)) (2 * nrb - 1))) = true).
  { unfold srccol, ilk, bk. replace (2 * b / 2 - 1) with (b - 1) by lia.
    destruct (znth false (znth [] cd (b - 1)) (2 * nrb - 1)); brk; lia. }
  assert (SC2 : bk ncb (srccol ncb cd (2 * nrb - 1) (2 * b + 2)) = b <-> ((b =? ncb - 1) || znth false (znth [] cd b) (2 * nrb - 1)) = true).
  { unfold srccol, ilk, bk. replace ((2 * b + 2) / 2 - 1) with b by lia.
    destruct (znth false (znth [] cd b) (2 * nrb - 1)); brk; lia. }
  split.
  - intros (j & Hj & E). apply Lab in E as [D Eb]; [|exact Hj].
    destruct (srccol_plain ncb cd (2 * nrb - 1) j HC Hj) as [_ Aj]. rewrite Eb in Aj.
    assert (Kj : j = 2 * b \/ j = 2 * b + 1 \/ j = 2 * b + 2) by lia.
    destruct Kj as [Kj | [Kj | Kj]]; subst j.
    + apply SC0 in Eb. rewrite D, Eb. cbn [negb andb]. apply orb_true_iff. left. apply orb_true_r.
    + rewrite D. reflexivity.
    + apply SC2 in Eb. rewrite D, Eb. cbn [negb andb]. apply orb_true_r.
  - intro Kp. apply orb_true_iff in Kp as [Kp | Kp]; [apply orb_true_iff in Kp as [Kp | Kp]|].
    + exists (2 * b + 1). split; [lia|]. apply Lab; [lia|]. split; [|exact SC1].
      destruct (znth false (znth [] rd (nrb - 2)) (2 * b + 1)); [discriminate | reflexivity].
    + apply andb_true_iff in Kp as [K1 K2]. exists (2 * b). split; [lia|]. apply Lab; [lia|]. split; [|apply SC0; exact K2].
      destruct (znth false (znth [] rd (nrb - 2)) (2 * b)); [discriminate | reflexivity].
    + apply andb_true_iff in Kp as [K1 K2]. exists (2 * b + 2). split; [lia|]. apply Lab; [lia|]. split; [|apply SC2; exact K2].
      destruct (znth false (znth [] rd (nrb - 2)) (2 * b + 2)); [discriminate | reflexivity].
Qed.

Lemma keeps_left_iff nrb ncb cd rd a : 1 <= nrb -> 1 <= ncb -> 0 <= a < nrb ->
  ((exists i, 0 <= i < 2 * nrb + 1 /\ g3 nrb ncb cd rd i (2 * ncb + 1 - 3) = a * ncb + (ncb - 1) + 1)
   <-> keeps_left nrb ncb cd a = true).
Proof.
  intros HR HC Ha. unfold keeps_left. cbv zeta.
  destruct (Z.eq_dec ncb 1) as [E1 | N1].
  { subst ncb. cbn [Z.eqb orb]. split; [reflexivity|]. intros _. exists (2 * a + 1). split; [lia|].
    rewrite g3_lab by lia. rewrite srcrow_odd by lia. replace (2 * 1 + 1 - 3) with 0 by lia.
    replace (srccol 1 cd (2 * a + 1) 0) with 0 by reflexivity.
    unfold bk. replace (Z.min (0 / 2) (1 - 1)) with 0 by reflexivity. lia. }
  replace (ncb =? 1) with false by lia. cbn [orb].
  assert (Lab : forall i, 0 <= i < 2 * nrb + 1 ->
            (g3 nrb ncb cd rd i (2 * ncb + 1 - 3) = a * ncb + (ncb - 1) + 1 <->
             bk nrb (srcrow nrb rd i (2 * ncb + 1 - 3)) = a /\
             znth false (znth [] cd (ncb - 2)) (srcrow nrb rd i (2 * ncb + 1 - 3)) = false)).
  { intros i Hi. rewrite g3_lab by lia.
    destruct (srcrow_plain nrb rd i (2 * ncb + 1 - 3) HR Hi) as [[P0 _] _].
    set (i' := srcrow nrb rd i (2 * ncb + 1 - 3)) in *.
    assert (SC : srccol ncb cd i' (2 * ncb + 1 - 3) = if znth false (znth [] cd (ncb - 2)) i' then 2 * ncb - 3 else 2 * ncb - 1).
    { unfold srccol. replace (ilk ncb (2 * ncb + 1 - 3)) with true by (unfold ilk; lia).
      replace ((2 * ncb + 1 - 3) / 2 - 1) with (ncb - 2) by lia. destruct (znth false (znth [] cd (ncb - 2)) i'); lia. }
    rewrite SC. split.
    - intro E. apply lab_inj in E as [Ea Eb]; [| destruct (znth false (znth [] cd (ncb - 2)) i'); unfold bk; lia | lia].
      split; [exact Ea|]. destruct (znth false (znth [] cd (ncb - 2)) i'); [unfold bk in Eb; lia | reflexivity].
    - intros [Ea D]. rewrite D, Ea. unfold bk. replace (Z.min ((2 * ncb - 1) / 2) (ncb - 1)) with (ncb - 1) by lia. reflexivity. }
  split.
  - intros (i & Hi & E). apply Lab in E as [Ea D]; [|exact Hi].
    destruct (srcrow_plain nrb rd i (2 * ncb + 1 - 3) HR Hi) as [P _].
    set (i' := srcrow nrb rd i (2 * ncb + 1 - 3)) in *.
    assert (Ki : i' = 2 * a + 1 \/ (a = 0 /\ i' = 0) \/ (a = nrb - 1 /\ i' = 2 * nrb)) by (unfold plain, bk in *; lia).
    destruct Ki as [Ki | [[Ka Ki] | [Ka Ki]]]; rewrite Ki in D; rewrite D.
    + reflexivity.
    + replace (a =? 0) with true by lia. cbn [negb andb]. apply orb_true_iff. left. apply orb_true_r.
    + replace (a =? nrb - 1) with true by lia. cbn [negb andb]. apply orb_true_r.
  - intro Kp. apply orb_true_iff in Kp as [Kp | Kp]; [apply orb_true_iff in Kp as [Kp | Kp]|].
    + exists (2 * a + 1). split; [lia|]. apply Lab; [lia|]. rewrite srcrow_odd by lia. split; [unfold bk; lia|].
      destruct (znth false (znth [] cd (ncb - 2)) (2 * a + 1)); [discriminate | reflexivity].
    + apply andb_true_iff in Kp as [K1 K2]. exists 0. split; [lia|]. apply Lab; [lia|].
      replace (srcrow nrb rd 0 (2 * ncb + 1 - 3)) with 0 by (unfold srcrow, ilk; replace (2 <=? 0) with false by lia; rewrite andb_false_r; reflexivity).
      split; [unfold bk; lia|]. destruct (znth false (znth [] cd (ncb - 2)) 0); [discriminate | reflexivity].
    + apply andb_true_iff in Kp as [K1 K2]. exists (2 * nrb). split; [lia|]. apply Lab; [lia|].
      replace (srcrow nrb rd (2 * nrb) (2 * ncb + 1 - 3)) with (2 * nrb)
        by (unfold srcrow, ilk; replace (2 * nrb <=? 2 * (nrb - 1)) with false by lia; rewrite andb_false_r; reflexivity).
      split; [unfold bk; lia|]. destruct (znth false (znth [] cd (ncb - 2)) (2 * nrb)); [discriminate | reflexivity].
Qed.

(* C10: the exact set of draws for which RandomFlatPackGenerator's own solution is playable *)
Theorem own_ok_draws_iff nrb ncb cd rd rots perm :
  1 <= nrb -> 1 <= ncb -> valid_draw nrb ncb cd rd rots perm = true ->
  (own_ok_b nrb ncb (solved_grid nrb ncb cd rd) = true <->
   forallb (keeps_top nrb ncb cd rd) (zrange ncb) && forallb (keeps_left nrb ncb cd) (zrange nrb) = true).
Proof.
  intros HR HC V. pose proof (random_generator_exact_tiling nrb ncb cd rd rots perm HR HC V) as [T _].
  rewrite (own_ok_grid_iff nrb ncb _ HR HC T).
  unfold valid_draw in V. repeat (apply andb_true_iff in V as [V ?]).
  rewrite solved_grid_closed by lia.
  rewrite andb_true_iff, !forallb_zrange.
  assert (CT : forall i j, 0 <= i < 2 * nrb + 1 -> 0 <= j < 2 * ncb + 1 ->
            cell (tab (2 * nrb + 1) (2 * ncb + 1) (g3 nrb ncb cd rd)) i j = g3 nrb ncb cd rd i j) by (intros; apply cell_tab; lia).
  split; intros [A B]; split.
  - intros b Hb. apply keeps_top_iff; auto. destruct (A b Hb) as [j [Hj E]]. exists j. split; [exact Hj|]. rewrite <- CT by lia. exact E.
  - intros a Ha. apply (keeps_left_iff nrb ncb cd rd); auto. destruct (B a Ha) as [i [Hi E]]. exists i. split; [exact Hi|]. rewrite <- CT by lia. exact E.
  - intros b Hb. specialize (A b Hb). apply keeps_top_iff in A; auto. destruct A as [j [Hj E]]. exists j. split; [exact Hj|]. rewrite CT by lia. exact E.
  - intros a Ha. specialize (B a Ha). apply (keeps_left_iff nrb ncb cd rd) in B; auto. destruct B as [i [Hi E]]. exists i. split; [exact Hi|]. rewrite CT by lia. exact E.
Qed.
