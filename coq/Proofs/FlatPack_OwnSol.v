(* FlatPack generator (C10), part 2: WHEN the generator's own solution is playable.
   RandomFlatPackGenerator crops every block to the top-left corner of its bounding box ([first_row], [first_col]),
   rotates it and shuffles the list.  Its own solution puts block k back at (first_row k, first_col k) with the
   rotation undone.  That placement is an action iff first_row k <= R-3 and first_col k <= C-3 ([own_ok_b]).     *)
Require Import JV.Base.Prelude JV.Base.JaxIndex JV.Base.Codec JV.Base.TimeStep JV.Model.FlatPack JV.Proofs.FlatPack
  JV.Proofs.FlatPack_Pack JV.Proofs.FlatPack_Solve JV.Proofs.FlatPack_Tiling JV.Proofs.FlatPack_Plays JV.Proofs.FlatPack_Gen.

(* ---------- first index satisfying a test ---------- *)
Lemma first_spec (P : Z -> bool) d n : forall s,
  let r := fold_right (fun i acc => if P i then i else acc) d (zrange_from s n) in
  (r = d /\ forall i, s <= i < s + Z.of_nat n -> P i = false) \/
  (s <= r < s + Z.of_nat n /\ P r = true /\ forall i, s <= i < r -> P i = false).
Proof.
  induction n as [|n IH]; intro s; cbn [zrange_from fold_right]; cbv zeta.
  - left. split; [reflexivity|]. intros i Hi. lia.
  - destruct (P s) eqn:E.
    + right. split; [lia|]. split; [exact E|]. intros i Hi. lia.
    + specialize (IH (s + 1)). cbv zeta in IH. destruct IH as [[E1 H1] | (R1 & P1 & H1)].
      * left. split; [exact E1|]. intros i Hi. destruct (Z.eq_dec i s); [subst; exact E|]. apply H1. lia.
      * right. split; [lia|]. split; [exact P1|]. intros i Hi. destruct (Z.eq_dec i s); [subst; exact E|]. apply H1. lia.
Qed.

Lemma existsb_zrange (f : Z -> bool) n : existsb f (zrange n) = true <-> exists i, 0 <= i < n /\ f i = true.
Proof.
  rewrite existsb_exists. split; intros [i [A B]]; exists i; split; auto; apply in_zrange; auto.
Qed.
Lemma existsb_zrange_false (f : Z -> bool) n : existsb f (zrange n) = false <-> forall i, 0 <= i < n -> f i = false.
Proof.
  split.
  - intros H i Hi. destruct (f i) eqn:E; [|reflexivity].
    assert (X : existsb f (zrange n) = true) by (apply existsb_zrange; exists i; auto). congruence.
  - intro H. destruct (existsb f (zrange n)) eqn:E; [|reflexivity]. apply existsb_zrange in E as [i [Hi Fi]].
    rewrite H in Fi by exact Hi. discriminate.
Qed.

(* the first row / column holding label k, when the label occurs *)
Lemma first_row_spec R C g k i0 j0 : 0 <= i0 < R -> 0 <= j0 < C -> cell g i0 j0 = k ->
  let r := first_row R C g k in
  0 <= r <= i0 /\ (exists j, 0 <= j < C /\ cell g r j = k) /\ forall i j, 0 <= i < R -> 0 <= j < C -> cell g i j = k -> r <= i.
Proof.
  intros Hi Hj E. cbv zeta. unfold first_row, zrange.
  pose proof (first_spec (fun i => existsb (fun j => cell g i j =? k) (zrange C)) 1000 (Z.to_nat R) 0) as S. cbv zeta in S.
  set (r := fold_right _ _ _) in *.
  assert (Pi0 : existsb (fun j => cell g i0 j =? k) (zrange C) = true) by (apply existsb_zrange; exists j0; split; [auto|lia]).
  destruct S as [[_ H] | (Rr & Pr & H)].
  - rewrite H in Pi0 by lia. discriminate.
  - apply existsb_zrange in Pr as [j [Hj' Ej]].
    assert (Min : forall i j, 0 <= i < R -> 0 <= j < C -> cell g i j = k -> r <= i).
    { intros i j' Hi' Hj'' E'. destruct (Z_lt_dec i r) as [L|]; [|lia]. specialize (H i ltac:(lia)).
      rewrite existsb_zrange_false in H. specialize (H j' Hj''). lia. }
    split; [split; [lia | apply (Min i0 j0); auto]|]. split; [exists j; split; [auto|lia] | exact Min].
Qed.

Lemma first_col_spec R C g k i0 j0 : 0 <= i0 < R -> 0 <= j0 < C -> cell g i0 j0 = k ->
  let c := first_col R C g k in
  0 <= c <= j0 /\ (exists i, 0 <= i < R /\ cell g i c = k) /\ forall i j, 0 <= i < R -> 0 <= j < C -> cell g i j = k -> c <= j.
Proof.
  intros Hi Hj E. cbv zeta. unfold first_col, zrange.
  pose proof (first_spec (fun j => existsb (fun i => cell g i j =? k) (zrange R)) 1000 (Z.to_nat C) 0) as S. cbv zeta in S.
  set (c := fold_right _ _ _) in *.
  assert (Pj0 : existsb (fun i => cell g i j0 =? k) (zrange R) = true) by (apply existsb_zrange; exists i0; split; [auto|lia]).
  destruct S as [[_ H] | (Rr & Pr & H)].
  - rewrite H in Pj0 by lia. discriminate.
  - apply existsb_zrange in Pr as [i [Hi' Ei]].
    assert (Min : forall i j, 0 <= i < R -> 0 <= j < C -> cell g i j = k -> c <= j).
    { intros i' j Hi'' Hj' E'. destruct (Z_lt_dec j c) as [L|]; [|lia]. specialize (H j ltac:(lia)).
      rewrite existsb_zrange_false in H. specialize (H i' Hi''). lia. }
    split; [split; [lia | apply (Min i0 j0); auto]|]. split; [exists i; split; [auto|lia] | exact Min].
Qed.

(* ---------- lists: znth / map, combine with a range, permutations ---------- *)
Lemma znth_map {A B} (f : A -> B) (dA : A) (dB : B) l q : 0 <= q < zlen l -> znth dB (map f l) q = f (znth dA l q).
Proof.
  intro H. rewrite !znth_nth by lia. rewrite (nth_indep _ dB (f dA)) by (rewrite map_length; unfold zlen in H; lia).
  apply map_nth.
Qed.

Lemma in_combine_zrange {A} (d : A) l : forall s q y,
  In (q, y) (combine (zrange_from s (length l)) l) <-> s <= q < s + zlen l /\ znth d l (q - s) = y.
Proof.
  induction l as [|x l IH]; intros s q y.
  - cbn [length zrange_from combine In]. unfold zlen. cbn [length]. lia.
  - cbn [length zrange_from combine In]. rewrite IH. rewrite zlen_cons. split.
    + intros [E | [Hq E]].
      * inversion E; subst. split; [pose proof (zlen_nonneg l); lia|]. replace (q - q) with 0 by lia. reflexivity.
      * split; [lia|]. rewrite znth_cons_pos by lia. replace (q - s - 1) with (q - (s + 1)) by lia. exact E.
    + intros [Hq E]. destruct (Z.eq_dec q s) as [Eq | Nq].
      * left. subst q. replace (s - s) with 0 in E by lia. rewrite znth_cons_0 in E. subst. reflexivity.
      * right. split; [lia|]. rewrite znth_cons_pos in E by lia. replace (q - s - 1) with (q - (s + 1)) in E by lia. exact E.
Qed.

Lemma in_sol_actions sol a :
  In a (sol_actions sol) <-> exists q, 0 <= q < zlen sol /\ a = (let '(k, r, c) := znth (0, 0, 0) sol q in (q, k, r, c)).
Proof.
  unfold sol_actions, zrange. replace (Z.to_nat (zlen sol)) with (length sol) by (unfold zlen; lia).
  rewrite in_map_iff. split.
  - intros [[q [[k r] c]] [E Hin]]. apply (in_combine_zrange (0, 0, 0)) in Hin as [Hq Ez]. exists q. split; [lia|].
    replace (q - 0) with q in Ez by lia. rewrite Ez. auto.
  - intros [q [Hq E]]. exists (q, znth (0, 0, 0) sol q). split.
    + subst a. destruct (znth (0, 0, 0) sol q) as [[k r] c]. reflexivity.
    + apply (in_combine_zrange (0, 0, 0)). split; [lia|]. f_equal. lia.
Qed.

Lemma is_perm_facts n p : 0 <= n -> is_perm_b n p = true ->
  zlen p = n /\ NoDup p /\ (forall x, In x p <-> 0 <= x < n).
Proof.
  intros Hn H. unfold is_perm_b in H. apply andb_true_iff in H as [L S].
  assert (I : incl (zrange n) p).
  { intros x Hx. rewrite forallb_forall in S. specialize (S x Hx). apply existsb_exists in S as [y [Hy E]].
    replace x with y by lia. exact Hy. }
  assert (LL : (length p <= length (zrange n))%nat) by (rewrite zrange_length; unfold zlen in L; lia).
  split; [lia|]. split.
  - apply NoDup_incl_NoDup with (l := zrange n); auto. apply NoDup_zrange_from.
  - intro x. split.
    + intro Hx. apply in_zrange. apply (NoDup_length_incl (NoDup_zrange_from _ 0) LL I). exact Hx.
    + intro Hx. apply I. apply in_zrange. exact Hx.
Qed.

Lemma znth_In {A} (d : A) l q : 0 <= q < zlen l -> In (znth d l q) l.
Proof. intro H. rewrite znth_nth by lia. apply nth_In. unfold zlen in H. lia. Qed.

Lemma In_znth {A} (d : A) l x : In x l -> exists q, 0 <= q < zlen l /\ znth d l q = x.
Proof.
  intro H. apply (In_nth _ _ d) in H as [n [Hn E]]. exists (Z.of_nat n). split; [unfold zlen; lia|].
  rewrite znth_nth by lia. rewrite Nat2Z.id. exact E.
Qed.

Lemma NoDup_znth_inj {A} (d : A) l q q' : NoDup l -> 0 <= q < zlen l -> 0 <= q' < zlen l -> znth d l q = znth d l q' -> q = q'.
Proof.
  intros ND Hq Hq' E. rewrite !znth_nth in E by lia. unfold zlen in *.
  assert (Z.to_nat q = Z.to_nat q') by (apply (proj1 (NoDup_nth l d) ND); [lia | lia | exact E]). lia.
Qed.

(* ---------- the cropped block and its un-rotation ---------- *)
Lemma cell_crop R C g k u v : 0 <= u < 3 -> 0 <= v < 3 ->
  cell (crop_block R C g k) u v =
  (if cell g ((u + first_row R C g k) mod R) ((v + first_col R C g k) mod C) =? k then k else 0).
Proof.
  intros Hu Hv. unfold crop_block. cbv zeta. rewrite cell_tab by lia.
  destruct (cell g ((u + first_row R C g k) mod R) ((v + first_col R C g k) mod C) =? k) eqn:E; [lia | reflexivity].
Qed.

Lemma crop_3x3 R C g k : is3x3 (crop_block R C g k) = true.
Proof. reflexivity. Qed.

Lemma unrotate blk rot : is3x3 blk = true -> 0 <= rot < 4 ->
  qturns (Z.to_nat ((4 - rot) mod 4)) (rotate blk rot) = blk.
Proof.
  intros H Hr. rewrite rotate_qturns by auto.
  assert (K : rot = 0 \/ rot = 1 \/ rot = 2 \/ rot = 3) by lia.
  destruct K as [K | [K | [K | K]]]; subst rot; [reflexivity | | |]; exact (four_quarter_turns blk H).
Qed.

Lemma rotate_3x3 blk rot : is3x3 blk = true -> is3x3 (rotate blk rot) = true.
Proof.
  intro H. rewrite rotate_clamps. rewrite rotate_qturns by (auto; lia). apply qturns_3x3. exact H.
Qed.

Section Own.
Variables (nrb ncb K : Z) (sg : list (list Z)) (rots perm : list Z).
Let R := 2 * nrb + 1.
Let C := 2 * ncb + 1.
Let N := nrb * ncb.
Let cf := mkC R C N K.
Let bl := gen_blocks nrb ncb sg rots perm.
Let sol := own_solution nrb ncb sg rots perm.
Hypothesis HR : 1 <= nrb.
Hypothesis HC : 1 <= ncb.
Hypothesis TL : ExactTiling nrb ncb sg.
Hypothesis Lrot : zlen rots = N.
Hypothesis Vrot : forallb (fun k => (0 <=? k) && (k <? 4)) rots = true.
Hypothesis Vperm : is_perm_b N perm = true.

Lemma N_nonneg : 0 <= N.
Proof. unfold N. nia. Qed.

Lemma rot_range p : 0 <= p < N -> 0 <= znth 0 rots p < 4.
Proof.
  intro Hp. rewrite forallb_forall in Vrot. specialize (Vrot (znth 0 rots p) (znth_In 0 rots p ltac:(lia))). lia.
Qed.

(* block q of the emitted list is the crop of label perm[q]+1, rotated *)
Lemma gen_block_nth q : 0 <= q < N ->
  znth [] bl q = rotate (crop_block R C sg (znth 0 perm q + 1)) (znth 0 rots (znth 0 perm q)).
Proof.
  intro Hq. destruct (is_perm_facts N perm N_nonneg Vperm) as (Lp & ND & Rg).
  assert (Hp : 0 <= znth 0 perm q < N) by (apply Rg; apply znth_In; lia).
  unfold bl, gen_blocks. cbv zeta. rewrite (znth_map _ 0 []) by lia.
  fold N R C. rewrite (jget_map_zrange [] _ N _ Hp). reflexivity.
Qed.

Lemma own_nth q : 0 <= q < N ->
  znth (0, 0, 0) sol q = ((4 - znth 0 rots (znth 0 perm q)) mod 4, first_row R C sg (znth 0 perm q + 1), first_col R C sg (znth 0 perm q + 1)).
Proof.
  intro Hq. destruct (is_perm_facts N perm N_nonneg Vperm) as (Lp & ND & Rg).
  unfold sol, own_solution. cbv zeta. rewrite (znth_map _ 0 (0, 0, 0)) by lia. reflexivity.
Qed.

Lemma zlen_sol : zlen sol = N.
Proof. destruct (is_perm_facts N perm N_nonneg Vperm) as (Lp & _). unfold sol, own_solution. cbv zeta. rewrite zlen_map. exact Lp. Qed.

(* geometry of label k in an exact tiling: its first row / column and its 3x3 extent *)
Lemma label_geometry k : 1 <= k <= N ->
  0 <= first_row R C sg k < R /\ 0 <= first_col R C sg k < C /\
  forall i j, 0 <= i < R -> 0 <= j < C -> cell sg i j = k ->
    first_row R C sg k <= i < first_row R C sg k + 3 /\ first_col R C sg k <= j < first_col R C sg k + 3.
Proof.
  intro Hk. destruct (et_nonempty _ _ _ TL k Hk) as (i0 & j0 & Hi0 & Hj0 & E0).
  destruct (et_box _ _ _ TL k Hk) as (r0 & c0 & Hr0 & Hc0 & Box).
  fold R C in Hi0, Hj0, Hr0, Hc0, Box.
  destruct (first_row_spec R C sg k i0 j0 Hi0 Hj0 E0) as (Fr & [jr [Hjr Er]] & MinR).
  destruct (first_col_spec R C sg k i0 j0 Hi0 Hj0 E0) as (Fc & [ic [Hic Ec]] & MinC).
  cbv zeta in *.
  assert (Ir : 0 <= first_row R C sg k < R) by lia. assert (Ic : 0 <= first_col R C sg k < C) by lia.
  pose proof (Box _ _ Ir Hjr Er) as [B1 _]. pose proof (Box _ _ Hic Ic Ec) as [_ B2].
  split; [exact Ir|]. split; [exact Ic|]. intros i j Hi Hj E.
  pose proof (Box i j Hi Hj E) as [B3 B4]. pose proof (MinR i j Hi Hj E). pose proof (MinC i j Hi Hj E). lia.
Qed.

(* the footprint of the own placement of emitted block q is exactly the set of cells labelled perm[q]+1 *)
Lemma own_pcell q i j : 0 <= q < N ->
  first_row R C sg (znth 0 perm q + 1) <= R - 3 -> first_col R C sg (znth 0 perm q + 1) <= C - 3 ->
  0 <= i < R -> 0 <= j < C ->
  pcell bl (let '(k, r, c) := znth (0, 0, 0) sol q in (q, k, r, c)) i j
  = if cell sg i j =? znth 0 perm q + 1 then znth 0 perm q + 1 else 0.
Proof.
  intros Hq OR OC Hi Hj. destruct (is_perm_facts N perm N_nonneg Vperm) as (Lp & ND & Rg).
  assert (Hp : 0 <= znth 0 perm q < N) by (apply Rg; apply znth_In; lia).
  rewrite own_nth by exact Hq. set (p := znth 0 perm q) in *. unfold pcell.
  rewrite gen_block_nth by exact Hq. fold p.
  rewrite unrotate by (try apply crop_3x3; apply rot_range; exact Hp).
  destruct (label_geometry (p + 1) ltac:(lia)) as (Fr & Fc & Ext).
  set (fr := first_row R C sg (p + 1)) in *. set (fc := first_col R C sg (p + 1)) in *.
  destruct (in_win fr fc i j) eqn:W.
  - unfold in_win in W. rewrite cell_crop by lia. fold fr fc.
    replace ((i - fr + fr) mod R) with i by (replace (i - fr + fr) with i by lia; symmetry; apply Z.mod_small; lia).
    replace ((j - fc + fc) mod C) with j by (replace (j - fc + fc) with j by lia; symmetry; apply Z.mod_small; lia).
    reflexivity.
  - destruct (cell sg i j =? p + 1) eqn:E; [|reflexivity]. exfalso.
    specialize (Ext i j Hi Hj ltac:(lia)). unfold in_win in W. lia.
Qed.

Lemma own_ok_iff : own_ok_b nrb ncb sg = true <->
  forall p, 0 <= p < N -> first_row R C sg (p + 1) <= R - 3 /\ first_col R C sg (p + 1) <= C - 3.
Proof.
  unfold own_ok_b. cbv zeta. fold R C N. rewrite forallb_zrange. split; intros H p Hp; specialize (H p Hp); lia.
Qed.

(* the generator's own solution is an exact tiling inside the action space EXACTLY when own_ok_b holds *)
Theorem own_solution_tiles_iff : tiles cf bl sol <-> own_ok_b nrb ncb sg = true.
Proof.
  destruct (is_perm_facts N perm N_nonneg Vperm) as (Lp & ND & Rg).
  rewrite own_ok_iff. split.
  - intros (_ & IS & _) p Hp.
    destruct (In_znth 0 perm p (proj2 (Rg p) Hp)) as [q [Hq Eq]].
    assert (A : In (let '(k, r, c) := znth (0, 0, 0) sol q in (q, k, r, c)) (sol_actions sol)).
    { apply in_sol_actions. exists q. split; [rewrite zlen_sol; lia | reflexivity]. }
    apply IS in A. rewrite own_nth in A by lia. rewrite Eq in A. unfold in_space, cf in A. cbn [cR cC cN] in A. lia.
  - intro OK. split; [exact zlen_sol|]. split.
    + intros a Hin. apply in_sol_actions in Hin as [q [Hq E]]. rewrite zlen_sol in Hq. subst a.
      rewrite own_nth by exact Hq.
      assert (Hp : 0 <= znth 0 perm q < N) by (apply Rg; apply znth_In; lia).
      destruct (OK _ Hp) as [O1 O2]. destruct (label_geometry (znth 0 perm q + 1) ltac:(lia)) as (Fr & Fc & _).
      unfold in_space, cf. cbn [cR cC cN]. pose proof (rot_range _ Hp). lia.
    + intros i j Hi Hj. unfold cf in Hi, Hj. cbn [cR cC] in Hi, Hj.
      pose proof (et_label _ _ _ TL i j Hi Hj) as Lb. fold N in Lb.
      destruct (In_znth 0 perm (cell sg i j - 1) (proj2 (Rg (cell sg i j - 1)) ltac:(lia))) as [q [Hq Eq]].
      assert (PC : forall q', 0 <= q' < N ->
                pcell bl (let '(k, r, c) := znth (0, 0, 0) sol q' in (q', k, r, c)) i j
                = if cell sg i j =? znth 0 perm q' + 1 then znth 0 perm q' + 1 else 0).
      { intros q' Hq'. assert (Hp : 0 <= znth 0 perm q' < N) by (apply Rg; apply znth_In; lia).
        destruct (OK _ Hp). apply own_pcell; auto. }
      exists (let '(k, r, c) := znth (0, 0, 0) sol q in (q, k, r, c)). split; [|split].
      * apply in_sol_actions. exists q. split; [rewrite zlen_sol; lia | reflexivity].
      * rewrite PC by lia. rewrite Eq. replace (cell sg i j =? cell sg i j - 1 + 1) with true by lia. lia.
      * intros a' Hin NZ. apply in_sol_actions in Hin as [q' [Hq' E']]. rewrite zlen_sol in Hq'. subst a'.
        rewrite PC in NZ by lia.
        destruct (cell sg i j =? znth 0 perm q' + 1) eqn:E; [|congruence].
        assert (q' = q) by (apply (NoDup_znth_inj 0 perm); auto; lia). subst q'. reflexivity.
Qed.

Lemma gen_blocks_ok : blocks_ok N bl.
Proof.
  destruct (is_perm_facts N perm N_nonneg Vperm) as (Lp & ND & Rg).
  split.
  - unfold bl, gen_blocks. cbv zeta. rewrite zlen_map. exact Lp.
  - apply Forall_forall. intros b Hin. destruct (In_znth [] bl b Hin) as [q [Hq E]].
    assert (Lb : zlen bl = N) by (unfold bl, gen_blocks; cbv zeta; rewrite zlen_map; exact Lp).
    rewrite Lb in Hq. rewrite gen_block_nth in E by exact Hq. subst b.
    assert (Hp : 0 <= znth 0 perm q < N) by (apply Rg; apply znth_In; lia).
    split; [apply rotate_3x3; apply crop_3x3|].
    apply rotate_block_nonneg; [apply crop_3x3 | | apply rot_range; exact Hp].
    intros u v. destruct (Z_lt_dec u 0); [|destruct (Z_lt_dec v 0); [|destruct (Z_lt_dec u 3); [destruct (Z_lt_dec v 3)|]]].
    3: { rewrite cell_crop by lia. destruct (_ =? _); lia. }
    all: rewrite cell_3x3_outside; [lia | apply crop_3x3 | lia].
Qed.

(* sufficient condition for solvability, evaluable from the solved grid alone *)
Corollary own_ok_solvable : own_ok_b nrb ncb sg = true ->
  tiles cf bl sol /\ solvable_b cf bl = true.
Proof.
  intro OK. assert (T : tiles cf bl sol) by (apply own_solution_tiles_iff; exact OK). split; [exact T|].
  apply (solvable_b_complete cf bl sol).
  1-3: unfold cf, R, C, N; cbn [cR cC cN]; nia.
  - exact gen_blocks_ok.
  - exact T.
Qed.

Lemma plays_from_in_space c0 l : forall s, plays_from c0 s l = true -> forall a, In a l -> in_space c0 a.
Proof.
  induction l as [|[[[b k] r] c] rest IH]; intros s H a Hin; [destruct Hin|].
  rewrite plays_from_cons in H. destruct (in_space_b c0 (b, k, r, c)) eqn:E; [|discriminate].
  destruct (mask_get (amask s) b k r c); [|discriminate]. cbn [andb] in H.
  destruct Hin as [Ea | Hin]; [subst a; apply in_space_b_iff; exact E | apply (IH _ H a Hin)].
Qed.

(* ... and it is PLAYABLE through the environment's step (every action accepted by the mask, final grid full)
   exactly under the same condition *)
Theorem own_solution_plays_iff : plays_b cf bl (sol_actions sol) = true <-> own_ok_b nrb ncb sg = true.
Proof.
  split.
  - intro P. rewrite plays_b_from in P. pose proof (plays_from_in_space _ _ _ P) as IS.
    destruct (is_perm_facts N perm N_nonneg Vperm) as (Lp & ND & Rg).
    apply own_ok_iff. intros p Hp.
    destruct (In_znth 0 perm p (proj2 (Rg p) Hp)) as [q [Hq Eq]].
    assert (A : In (let '(k, r, c) := znth (0, 0, 0) sol q in (q, k, r, c)) (sol_actions sol)).
    { apply in_sol_actions. exists q. split; [rewrite zlen_sol; lia | reflexivity]. }
    apply IS in A. rewrite own_nth in A by lia. rewrite Eq in A. unfold in_space, cf in A. cbn [cR cC cN] in A. lia.
  - intro OK. apply tiles_plays.
    1-3: unfold cf, R, C, N; cbn [cR cC cN]; nia.
    + exact gen_blocks_ok.
    + apply own_solution_tiles_iff. exact OK.
Qed.
End Own.

(* C10, solvability part, for EVERY size and EVERY valid draw of RandomFlatPackGenerator *)
Theorem random_generator_own_solution nrb ncb K cd rd rots perm :
  1 <= nrb -> 1 <= ncb -> valid_draw nrb ncb cd rd rots perm = true ->
  let sg := solved_grid nrb ncb cd rd in
  let cf := mkC (2 * nrb + 1) (2 * ncb + 1) (nrb * ncb) K in
  let bl := gen_blocks nrb ncb sg rots perm in
  let sol := own_solution nrb ncb sg rots perm in
  (tiles cf bl sol <-> own_ok_b nrb ncb sg = true) /\
  (plays_b cf bl (sol_actions sol) = true <-> own_ok_b nrb ncb sg = true) /\
  (own_ok_b nrb ncb sg = true -> solvable_b cf bl = true).
Proof.
  intros HR HC V. cbv zeta.
  destruct (random_generator_exact_tiling nrb ncb cd rd rots perm HR HC V) as [_ TL].
  unfold valid_draw in V. repeat (apply andb_true_iff in V as [V ?]).
  assert (Lr : zlen rots = nrb * ncb) by lia.
  split; [|split].
  - apply own_solution_tiles_iff; auto.
  - apply own_solution_plays_iff; auto.
  - intro OK. apply (own_ok_solvable nrb ncb K _ rots perm); auto.
Qed.

(* the condition is sufficient, not necessary: a valid draw (RandomFlatPackGenerator(2,2)(PRNGKey(9))) whose own solution
   is not in the action space (block 4 is two columns wide and sits in columns 3-4: corner column 3 = C-2) but whose
   block set can be packed (the 2x3 rectangle turned by 180 degrees fits the box at column 2) *)
Definition nn_cd : list (list bool) := [[false; false; false; true; true]].
Definition nn_rd : list (list bool) := [[true; false; false; false; false]].
Definition nn_rots : list Z := [0; 1; 3; 0].
Definition nn_perm : list Z := [1; 2; 3; 0].
Lemma own_ok_not_necessary :
  valid_draw 2 2 nn_cd nn_rd nn_rots nn_perm = true /\
  own_ok_b 2 2 (solved_grid 2 2 nn_cd nn_rd) = false /\
  solvable_b (mkC 5 5 4 0) (gen_blocks 2 2 (solved_grid 2 2 nn_cd nn_rd) nn_rots nn_perm) = true.
Proof. vm_compute. repeat split; reflexivity. Qed.

(* the refuted instance of FlatPack_Gen (PRNGKey(6)) violates the condition: block 4 lost its interlock row *)
Lemma refuted_instance_own_not_ok : own_ok_b 2 2 (solved_grid 2 2 w_cd w_rd) = false.
Proof. vm_compute. reflexivity. Qed.
