(* FlatPack: the packing invariant (C06: blocks inside the grid, never overlapping, every non-zero cell covered by
   exactly one placed block whose value it carries), the declarative step rule (C09), and the telescoping of
   both dense rewards to the objective recomputed from the final state (C08).                               *)
Require Import JV.Base.Prelude JV.Base.JaxIndex JV.Base.Codec JV.Base.TimeStep JV.Model.FlatPack JV.Proofs.FlatPack.

Lemma znth_indep {A} (d d' : A) l i : 0 <= i < zlen l -> znth d l i = znth d' l i.
Proof. intro H. rewrite !znth_nth by lia. apply nth_indep. unfold zlen in H. lia. Qed.

(* ---------- the expanded block, cell by cell = the declarative footprint ---------- *)
Lemma expand_pcell cf bl b k r c i j :
  3 <= cR cf -> 3 <= cC cf -> blocks_ok (cN cf) bl -> in_space cf (b, k, r, c) ->
  0 <= i < cR cf -> 0 <= j < cC cf ->
  cell (expand (cR cf) (cC cf) (rotate (jget [] bl b) k) r c) i j = pcell bl (b, k, r, c) i j.
Proof.
  intros HR HC BO (Hb & Hk & Hr & Hc) Hi Hj. rewrite cell_expand by lia.
  rewrite !dyn_start_id by lia. destruct BO as [LB FB].
  rewrite (jget_znth [] [] bl b) by lia.
  destruct (blocks_ok_nth _ _ b (conj LB FB) Hb) as [B3 _]. rewrite rotate_qturns by auto. reflexivity.
Qed.

Lemma pcell_nonneg cf bl a i j : blocks_ok (cN cf) bl -> in_space cf a -> 0 <= pcell bl a i j.
Proof.
  destruct a as [[[b k] r] c]. intros BO (Hb & Hk & Hr & Hc). unfold pcell.
  destruct (in_win r c i j); [|lia].
  destruct (blocks_ok_nth _ _ b BO Hb) as [B3 BN].
  destruct (rotate_block_nonneg _ k B3 BN Hk) as [_ RN]. rewrite rotate_qturns in RN by auto. apply RN.
Qed.

Lemma pcell_nz_window bl b k r c i j : pcell bl (b, k, r, c) i j <> 0 ->
  0 <= i - r < 3 /\ 0 <= j - c < 3 /\ cell (qturns (Z.to_nat k) (znth [] bl b)) (i - r) (j - c) <> 0.
Proof. unfold pcell, in_win. destruct (_ && _) eqn:W; [|congruence]. intro H. split; [lia|]. split; [lia|]. exact H. Qed.

(* ---------- sums ---------- *)
Lemma zsum_zero_nonneg {A} (f : A -> Z) l :
  (forall a, In a l -> 0 <= f a) -> zsum (map f l) = 0 -> forall a, In a l -> f a = 0.
Proof.
  induction l as [|x t IH]; intros NN S a Hin; [destruct Hin|].
  cbn [map zsum] in S.
  assert (0 <= zsum (map f t)).
  { clear - NN. induction t as [|y t IH]; cbn [map zsum]; [lia|].
    assert (0 <= f y) by (apply NN; right; left; reflexivity).
    assert (0 <= zsum (map f t)) by (apply IH; intros a [E|Hin]; apply NN; [left|right; right]; auto). lia. }
  assert (0 <= f x) by (apply NN; left; reflexivity).
  destruct Hin as [E|Hin]; [subst; lia|]. apply IH; auto; [intros; apply NN; right; auto | lia].
Qed.

Lemma zsum_all_zero {A} (f : A -> Z) l : (forall a, In a l -> f a = 0) -> zsum (map f l) = 0.
Proof.
  induction l as [|x t IH]; intro H; cbn [map zsum]; [reflexivity|].
  rewrite (H x) by (left; reflexivity). rewrite IH; [reflexivity|]. intros; apply H; right; auto.
Qed.

Lemma zsum_unique {A} (f : A -> Z) l : NoDup l ->
  (forall a a', In a l -> In a' l -> f a <> 0 -> f a' <> 0 -> a = a') ->
  zsum (map f l) <> 0 -> exists a, In a l /\ f a = zsum (map f l).
Proof.
  induction l as [|x t IH]; intros ND U NZ; cbn [map zsum] in *; [congruence|].
  inversion ND as [|? ? NI ND']; subst.
  destruct (Z.eq_dec (f x) 0) as [E|E].
  - rewrite E in *. destruct IH as [a [Hin Ea]]; auto.
    + intros; apply U; auto; right; auto.
    + exists a. split; [right; auto | lia].
  - exists x. split; [left; reflexivity|]. rewrite zsum_all_zero; [lia|].
    intros a Hin. destruct (Z.eq_dec (f a) 0) as [|E2]; auto.
    exfalso. apply NI. rewrite (U x a); auto; [left; reflexivity | right; auto].
Qed.

(* ---------- C06: the invariant ---------- *)
Lemma init_Feasible cf bl : 0 <= cN cf ->
  Feasible cf bl (repeat false (Z.to_nat (cN cf))) (zeros (cR cf) (cC cf)) [].
Proof.
  intro HN. split; [intros a []|]. split; [constructor|]. split.
  - intros b Hb. cbn [map In]. rewrite znth_nth by lia. rewrite nth_repeat. split; [discriminate | tauto].
  - intros i j Hi Hj. split; [intros a a' []|]. rewrite cell_zeros by lia. reflexivity.
Qed.

Lemma step_Feasible cf s ps b k r c :
  StateOK cf s -> Feasible cf (blocks s) (placed s) (grid s) ps -> in_space cf (b, k, r, c) ->
  Feasible cf (blocks (fst (step cf s b k r c))) (placed (fst (step cf s b k r c))) (grid (fst (step cf s b k r c)))
           (if mask_get (amask s) b k r c then (b, k, r, c) :: ps else ps).
Proof.
  intros OK F IS. rewrite step_blocks, step_placed, step_grid.
  destruct (mask_get (amask s) b k r c) eqn:M; [|exact F].
  pose proof (mask_iff_legal cf s (b, k, r, c) OK IS) as L. cbn in L. apply L in M. clear L.
  destruct M as (_ & UNPL & FREE).
  destruct F as (F1 & F2 & F3 & F4).
  destruct OK as [[HR [HC HN]] MK SH NN BO PL NB].
  pose proof IS as (Hb & Hk & Hr & Hc).
  split; [|split; [|split]].
  - intros a [E|Hin]; [subst; exact IS | auto].
  - cbn [map blk_of]. constructor; [|exact F2]. intro Hin. apply F3 in Hin; [|lia].
    rewrite (znth_indep false true) in Hin by lia. congruence.
  - intros b' Hb'. cbn [map blk_of In]. rewrite jset_in_range by lia. rewrite znth_nth by lia.
    destruct (Z.eq_dec b b') as [E|E].
    + subst b'. rewrite nth_upd_same by (unfold zlen in PL; lia). split; auto.
    + rewrite nth_upd_other by lia. rewrite <- znth_nth by lia. rewrite F3 by lia. split; [auto|]. intros [X|X]; [congruence|auto].
  - intros i j Hi Hj. destruct (F4 i j Hi Hj) as [U V].
    rewrite cell_grid_add by lia. rewrite (expand_pcell cf) by (auto; lia).
    assert (Z0 : pcell (blocks s) (b, k, r, c) i j <> 0 -> forall a, In a ps -> pcell (blocks s) a i j = 0).
    { intros NZ. destruct (pcell_nz_window _ _ _ _ _ _ _ NZ) as (Wi & Wj & NZ').
      pose proof (FREE (i - r) (j - c) Wi Wj NZ') as G0.
      replace (r + (i - r)) with i in G0 by lia. replace (c + (j - c)) with j in G0 by lia.
      apply zsum_zero_nonneg; [|lia]. intros a Hin. apply (pcell_nonneg cf); auto. }
    split.
    + intros a a' [E|Hin] [E'|Hin'] NZ NZ'; subst; auto.
      * exfalso. apply NZ'. apply Z0; auto.
      * exfalso. apply NZ. apply Z0; auto.
    + cbn [map zsum]. lia.
Qed.

Definition Packed (cf : cfg) (s : state) : Prop := exists ps, Feasible cf (blocks s) (placed s) (grid s) ps.

Lemma run_invariants cf acts : forall s s' ts,
  StateOK cf s -> Packed cf s -> Forall (in_space cf) acts -> run cf s acts = (s', ts) ->
  StateOK cf s' /\ Packed cf s' /\ blocks s' = blocks s.
Proof.
  induction acts as [|a rest IH]; intros s s' ts OK P FA H; cbn [run] in H.
  - inversion H; subst. auto.
  - destruct a as [[[b k] r] c]. cbn [step_a] in H.
    destruct (step cf s b k r c) as [s1 t1] eqn:E1.
    destruct (run cf s1 rest) as [s2 ts2] eqn:E2. inversion H; subst. clear H.
    inversion FA as [|? ? IS FA']; subst.
    assert (S1 : s1 = fst (step cf s b k r c)) by (rewrite E1; reflexivity).
    destruct P as [ps F].
    destruct (IH s1 s' ts2) as (A & B & C); auto.
    + rewrite S1. apply step_StateOK; auto.
    + rewrite S1. eexists. apply step_Feasible; eauto.
    + split; [exact A|]. split; [exact B|]. rewrite C, S1. apply step_blocks.
Qed.

(* from reset, under ANY in-spec actions (legal ones are placed, illegal ones ignored), the grid is a packing *)
Theorem reachable_packed cf bl acts s' ts :
  3 <= cR cf -> 3 <= cC cf -> 0 <= cN cf -> blocks_ok (cN cf) bl ->
  Forall (in_space cf) acts -> run cf (fst (init cf bl)) acts = (s', ts) -> StateOK cf s' /\ Packed cf s'.
Proof.
  intros HR HC HN BO FA H.
  destruct (run_invariants cf acts _ _ _ (init_StateOK cf bl HR HC HN BO)
              (ex_intro _ [] (init_Feasible cf bl HN)) FA H) as (A & B & _). auto.
Qed.

(* reading of Feasible: a non-zero cell is covered by exactly one placement and holds that block's cell value *)
Lemma NoDup_map_inv {A B} (f : A -> B) l : NoDup (map f l) -> NoDup l.
Proof.
  induction l as [|x t IH]; intro H; [constructor|]. cbn [map] in H. inversion H; subst.
  constructor; auto. intro Hin. apply H2. apply in_map. exact Hin.
Qed.

Theorem feasible_cell cf bl pl g ps i j :
  Feasible cf bl pl g ps -> 0 <= i < cR cf -> 0 <= j < cC cf -> cell g i j <> 0 ->
  exists a, In a ps /\ in_space cf a /\ znth false pl (blk_of a) = true /\ pcell bl a i j = cell g i j /\
            forall a', In a' ps -> pcell bl a' i j <> 0 -> a' = a.
Proof.
  intros (F1 & F2 & F3 & F4) Hi Hj NZ. destruct (F4 i j Hi Hj) as [U V]. rewrite V in NZ.
  destruct (zsum_unique (fun a => pcell bl a i j) ps (NoDup_map_inv _ _ F2) U NZ) as [a [Hin E]].
  exists a. repeat split; auto.
  - apply F3; [|apply in_map; exact Hin]. specialize (F1 a Hin). destruct a as [[[b k] r] c]. cbn. apply F1.
  - cbn beta in E. lia.
  - intros a' Hin' NZ'. apply U; auto. cbn beta in E. lia.
Qed.

Theorem feasible_empty cf bl pl g ps i j :
  Feasible cf bl pl g ps -> blocks_ok (cN cf) bl -> 0 <= i < cR cf -> 0 <= j < cC cf -> cell g i j = 0 ->
  forall a, In a ps -> pcell bl a i j = 0.
Proof.
  intros (F1 & F2 & F3 & F4) BO Hi Hj Z. destruct (F4 i j Hi Hj) as [U V].
  apply zsum_zero_nonneg; [|lia]. intros a Hin. apply (pcell_nonneg cf); auto.
Qed.

(* the value carried is the id of the block: every cell of a (turned) block is 0 or a cell of the block *)
Lemma qturns_cell_from n b i j : is3x3 b = true -> 0 <= i < 3 -> 0 <= j < 3 ->
  exists i' j', 0 <= i' < 3 /\ 0 <= j' < 3 /\ cell (qturns n b) i j = cell b i' j'.
Proof.
  intro H. revert i j. induction n as [|n IH]; intros i j Hi Hj.
  - exists i, j. auto.
  - cbn [qturns]. rewrite cell_qturn by lia. apply IH; lia.
Qed.

Theorem pcell_value_of_block bl a i j : let '(b, k, r, c) := a in
  is3x3 (znth [] bl b) = true -> pcell bl a i j <> 0 ->
  exists i' j', 0 <= i' < 3 /\ 0 <= j' < 3 /\ pcell bl a i j = cell (znth [] bl b) i' j'.
Proof.
  destruct a as [[[b k] r] c]. intros H NZ. destruct (pcell_nz_window _ _ _ _ _ _ _ NZ) as (Wi & Wj & _).
  unfold pcell in *. destruct (in_win r c i j); [|congruence]. apply qturns_cell_from; auto.
Qed.

(* ---------- C09: the declarative step rule for an in-spec action ---------- *)
Theorem step_rule cf s b k r c i j :
  StateOK cf s -> in_space cf (b, k, r, c) -> 0 <= i < cR cf -> 0 <= j < cC cf ->
  let s' := fst (step cf s b k r c) in
  (legal cf (grid s) (blocks s) (placed s) (b, k, r, c) ->
     cell (grid s') i j = cell (grid s) i j + pcell (blocks s) (b, k, r, c) i j /\
     (forall b', 0 <= b' < cN cf -> znth false (placed s') b' = if b' =? b then true else znth false (placed s) b')) /\
  (~ legal cf (grid s) (blocks s) (placed s) (b, k, r, c) -> grid s' = grid s /\ placed s' = placed s).
Proof.
  intros OK IS Hi Hj. cbn zeta. pose proof (mask_iff_legal cf s (b, k, r, c) OK IS) as L. cbn in L.
  destruct OK as [[HR [HC HN]] MK SH NN BO PL NB]. pose proof IS as (Hb & Hk & Hr & Hc).
  rewrite step_grid, step_placed. split.
  - intro LG. apply L in LG. rewrite LG. split.
    + rewrite cell_grid_add by lia. rewrite (expand_pcell cf) by (auto; lia). reflexivity.
    + intros b' Hb'. rewrite jset_in_range by lia. rewrite znth_nth by lia.
      destruct (b' =? b) eqn:E.
      * assert (b' = b) by lia. subst b'. apply nth_upd_same. unfold zlen in PL. lia.
      * rewrite nth_upd_other by lia. rewrite znth_nth by lia. reflexivity.
  - intro NL. destruct (mask_get (amask s) b k r c) eqn:M; [exfalso; apply NL; apply L; reflexivity | auto].
Qed.

(* ---------- C08: the dense rewards telescope to the objective of the final state ---------- *)
Definition nzb (v : Z) : Z := b2z (negb (v =? 0)).
Definition sum2 (R C : Z) (h : Z -> Z -> Z) : Z := zsum (map (fun i => zsum (map (fun j => h i j) (zrange C))) (zrange R)).

Lemma zsum_map_ext {A} (f h : A -> Z) l : (forall a, In a l -> f a = h a) -> zsum (map f l) = zsum (map h l).
Proof. induction l as [|x t IH]; intro H; cbn [map zsum]; [reflexivity|]. rewrite H by (left; auto). rewrite IH; auto. intros; apply H; right; auto. Qed.

Lemma zsum_map_add {A} (f h : A -> Z) l : zsum (map (fun a => f a + h a) l) = zsum (map f l) + zsum (map h l).
Proof. induction l as [|x t IH]; cbn [map zsum]; [reflexivity|]. rewrite IH. lia. Qed.

Lemma sum2_ext R C f h : (forall i j, 0 <= i < R -> 0 <= j < C -> f i j = h i j) -> sum2 R C f = sum2 R C h.
Proof.
  intro H. unfold sum2. apply zsum_map_ext. intros i Hi. apply zsum_map_ext. intros j Hj.
  apply in_zrange in Hi. apply in_zrange in Hj. apply H; lia.
Qed.

Lemma sum2_add R C f h : sum2 R C (fun i j => f i j + h i j) = sum2 R C f + sum2 R C h.
Proof.
  unfold sum2. rewrite <- zsum_map_add. apply zsum_map_ext. intros i _. apply zsum_map_add.
Qed.

Lemma count_if_map {A} (p : Z -> bool) (f : A -> Z) l : count_if p (map f l) = zsum (map (fun a => b2z (p (f a))) l).
Proof.
  unfold count_if. induction l as [|x t IH]; cbn [map filter zsum]; [reflexivity|].
  destruct (p (f x)); cbn [b2z]; [rewrite zlen_cons|]; rewrite IH; lia.
Qed.

Lemma count_nz_tab R C f : count_nz (tab R C f) = sum2 R C (fun i j => nzb (f i j)).
Proof.
  unfold count_nz, tab, sum2. rewrite map_map. apply zsum_map_ext. intros i _.
  rewrite count_if_map. reflexivity.
Qed.

Lemma count_nz_add cf g e :
  shape (cR cf) (cC cf) g -> shape (cR cf) (cC cf) e ->
  (forall i j, 0 <= i < cR cf -> 0 <= j < cC cf -> cell e i j <> 0 -> cell g i j = 0) ->
  count_nz (grid_add (cR cf) (cC cf) g e) = count_nz g + count_nz e.
Proof.
  intros SG SE D. unfold grid_add. rewrite count_nz_tab.
  replace (count_nz g) with (count_nz (tab (cR cf) (cC cf) (cell g))) by (rewrite <- shape_tab; auto).
  replace (count_nz e) with (count_nz (tab (cR cf) (cC cf) (cell e))) by (rewrite <- shape_tab; auto).
  rewrite !count_nz_tab.
  rewrite <- sum2_add. apply sum2_ext. intros i j Hi Hj. specialize (D i j Hi Hj). unfold nzb.
  destruct (cell e i j =? 0) eqn:E.
  - replace (cell g i j + cell e i j) with (cell g i j) by lia. cbn [negb b2z]. lia.
  - rewrite D by lia. replace (0 + cell e i j =? 0) with false by lia. reflexivity.
Qed.

Lemma count_true_upd n l : (n < length l)%nat -> nth n l true = false -> count_true (upd n true l) = count_true l + 1.
Proof.
  unfold count_true, count_if. revert n. induction l as [|x t IH]; intros [|n] L E; cbn [length] in L; try lia.
  - cbn [nth] in E. subst x. cbn [upd filter]. rewrite zlen_cons. lia.
  - cbn [nth] in E. cbn [upd filter]. destruct x; [rewrite !zlen_cons|]; rewrite IH by (auto; lia); lia.
Qed.

(* the objective numerator recomputed from a state: covered cells (CellDense) / placed blocks (BlockDense) *)
Definition objective (cf : cfg) (s : state) : Z := if cK cf =? 0 then count_nz (grid s) else count_true (placed s).

Lemma step_reward_telescopes cf s b k r c :
  StateOK cf s -> in_space cf (b, k, r, c) ->
  reward (snd (step cf s b k r c)) = [objective cf (fst (step cf s b k r c)) - objective cf s].
Proof.
  intros OK IS. rewrite step_ts.
  assert (RW : forall d x, reward (cond_done 1 d [x]) = [x]) by (intros [|] x; reflexivity). rewrite RW. f_equal.
  unfold objective. rewrite step_grid, step_placed. unfold reward_num.
  pose proof (mask_iff_legal cf s (b, k, r, c) OK IS) as L. cbn in L.
  destruct (mask_get (amask s) b k r c) eqn:M; [|destruct (cK cf =? 0); lia].
  destruct (proj1 L eq_refl) as (_ & UNPL & FREE).
  destruct OK as [[HR [HC HN]] MK SH NN BO PL NB]. pose proof IS as (Hb & Hk & Hr & Hc).
  destruct (cK cf =? 0).
  - rewrite count_nz_add; auto; [lia | apply shape_tab_intro; lia |].
    intros i j Hi Hj NZ. rewrite (expand_pcell cf) in NZ by (auto; lia).
    destruct (pcell_nz_window _ _ _ _ _ _ _ NZ) as (Wi & Wj & NZ').
    pose proof (FREE (i - r) (j - c) Wi Wj NZ') as G0.
    replace (r + (i - r)) with i in G0 by lia. replace (c + (j - c)) with j in G0 by lia. exact G0.
  - rewrite jset_in_range by lia. rewrite count_true_upd; [lia | unfold zlen in PL; lia |].
    rewrite znth_nth in UNPL by lia. exact UNPL.
Qed.

Lemma count_nz_zeros R C : count_nz (zeros R C) = 0.
Proof.
  unfold zeros. rewrite count_nz_tab. unfold sum2. apply zsum_all_zero. intros i _. apply zsum_all_zero. reflexivity.
Qed.

Lemma count_true_repeat_false n : count_true (repeat false n) = 0.
Proof. unfold count_true, count_if. induction n; cbn [repeat filter]; auto. Qed.

Lemma run_return cf acts : forall s s' ts,
  StateOK cf s -> Forall (in_space cf) acts -> run cf s acts = (s', ts) ->
  zsum (concat (map reward ts)) = objective cf s' - objective cf s.
Proof.
  induction acts as [|a rest IH]; intros s s' ts OK FA H; cbn [run] in H.
  - inversion H; subst. cbn. lia.
  - destruct a as [[[b k] r] c]. cbn [step_a] in H.
    destruct (step cf s b k r c) as [s1 t1] eqn:E1.
    destruct (run cf s1 rest) as [s2 ts2] eqn:E2. inversion H; subst. clear H.
    inversion FA as [|? ? IS FA']; subst.
    assert (S1 : s1 = fst (step cf s b k r c)) by (rewrite E1; reflexivity).
    assert (T1 : t1 = snd (step cf s b k r c)) by (rewrite E1; reflexivity).
    cbn [map concat]. rewrite T1, step_reward_telescopes by auto.
    cbn [Datatypes.app zsum]. rewrite (IH s1 s' ts2); auto; [rewrite S1; lia|].
    rewrite S1. apply step_StateOK; auto.
Qed.

(* the episode return (numerators; the denominator rows*cols resp. num_blocks is a constant of the configuration)
   = covered cells resp. placed blocks of the final state, for ANY in-spec actions *)
Theorem return_is_objective cf bl acts s' ts :
  3 <= cR cf -> 3 <= cC cf -> 0 <= cN cf -> blocks_ok (cN cf) bl ->
  Forall (in_space cf) acts -> run cf (fst (init cf bl)) acts = (s', ts) ->
  zsum (concat (map reward ts)) = objective cf s'.
Proof.
  intros HR HC HN BO FA H.
  rewrite (run_return cf acts _ _ _ (init_StateOK cf bl HR HC HN BO) FA H).
  unfold objective. cbn [init fst grid placed]. rewrite count_nz_zeros, count_true_repeat_false.
  destruct (cK cf =? 0); lia.
Qed.

(* C01: shape and provenance of every reachable grid value *)
Theorem reachable_grid_values cf bl acts s' ts i j :
  3 <= cR cf -> 3 <= cC cf -> 0 <= cN cf -> blocks_ok (cN cf) bl ->
  Forall (in_space cf) acts -> run cf (fst (init cf bl)) acts = (s', ts) ->
  0 <= i < cR cf -> 0 <= j < cC cf ->
  shape (cR cf) (cC cf) (grid s') /\
  (cell (grid s') i j = 0 \/ exists b i' j', 0 <= b < cN cf /\ 0 <= i' < 3 /\ 0 <= j' < 3 /\ cell (grid s') i j = cell (znth [] (blocks s') b) i' j').
Proof.
  intros HR HC HN BO FA H Hi Hj.
  destruct (run_invariants cf acts _ _ _ (init_StateOK cf bl HR HC HN BO) (ex_intro _ [] (init_Feasible cf bl HN)) FA H) as (OK & [ps F] & EB).
  split; [exact (ok_shape cf s' OK)|].
  destruct (Z.eq_dec (cell (grid s') i j) 0) as [E|NE]; [left; exact E|right].
  destruct (feasible_cell cf _ _ _ ps i j F Hi Hj NE) as (a & Hin & IS & _ & PC & _).
  destruct a as [[[b k] r] c]. pose proof IS as (Hb & _).
  assert (B3 : is3x3 (znth [] (blocks s') b) = true) by (apply (blocks_ok_nth (cN cf)); [exact (ok_blocks cf s' OK) | exact Hb]).
  assert (NZ : pcell (blocks s') (b, k, r, c) i j <> 0) by (rewrite PC; exact NE).
  destruct (pcell_value_of_block (blocks s') (b, k, r, c) i j B3 NZ) as (i' & j' & Hi' & Hj' & E).
  exists b, i', j'. rewrite <- PC. auto.
Qed.
