(* FlatPack: the verified checker [tiles_b] is sound and complete for the declarative [tiles], and every exact
   tiling inside the action space is PLAYABLE: fed to the environment's step in block order, every action is
   accepted by the stored mask and the final grid is full ([plays_b]).                                         *)
Require Import JV.Base.Prelude JV.Base.JaxIndex JV.Base.Codec JV.Base.TimeStep JV.Model.FlatPack JV.Proofs.FlatPack
  JV.Proofs.FlatPack_Pack JV.Proofs.FlatPack_Solve.

Lemma in_space_b_iff cf a : in_space_b cf a = true <-> in_space cf a.
Proof. destruct a as [[[b k] r] c]. unfold in_space_b, in_space. lia. Qed.

(* ---------- tiles_b ---------- *)
Lemma filter_singleton {A} (f : A -> bool) l : length (filter f l) = 1%nat ->
  exists a, In a l /\ f a = true /\ forall a', In a' l -> f a' = true -> a' = a.
Proof.
  intro H. destruct (filter f l) as [|a [|? ?]] eqn:E; try discriminate.
  assert (Ia : In a (filter f l)) by (rewrite E; left; reflexivity). apply filter_In in Ia as [Ia Fa].
  exists a. split; [exact Ia|]. split; [exact Fa|]. intros a' Ia' Fa'.
  assert (X : In a' (filter f l)) by (apply filter_In; auto). rewrite E in X. destruct X as [X | []]. auto.
Qed.

Theorem tiles_b_sound cf bl sol : tiles_b cf bl sol = true -> tiles cf bl sol.
Proof.
  unfold tiles_b, tiles. intro H. apply andb_true_iff in H as [H T]. apply andb_true_iff in H as [L IS].
  split; [lia|]. split.
  - intros a Hin. rewrite forallb_forall in IS. apply in_space_b_iff. apply IS. exact Hin.
  - intros i j Hi Hj. rewrite forallb_zrange in T. specialize (T i Hi). rewrite forallb_zrange in T. specialize (T j Hj).
    unfold count_if, zlen in T.
    destruct (filter_singleton (fun a => negb (pcell bl a i j =? 0)) (sol_actions sol) ltac:(lia)) as (a & Ia & Fa & U).
    exists a. split; [exact Ia|]. split; [lia|]. intros a' Ia' NZ. apply U; auto. lia.
Qed.

Lemma NoDup_zrange_from n : forall s, NoDup (zrange_from s n).
Proof.
  induction n as [|n IH]; intro s; cbn [zrange_from]; constructor; auto.
  rewrite in_zrange_from. lia.
Qed.

Lemma blk_of_combine (l : list (Z * Z * Z)) : forall s,
  map blk_of (map (fun '(b, (k, r, c)) => (b, k, r, c)) (combine (zrange_from s (length l)) l)) = zrange_from s (length l).
Proof.
  induction l as [|[[k r] c] l IH]; intro s; [reflexivity|].
  cbn [length zrange_from combine map blk_of]. rewrite IH. reflexivity.
Qed.

Lemma blk_of_sol_actions sol : map blk_of (sol_actions sol) = zrange (zlen sol).
Proof.
  unfold sol_actions, zrange. replace (Z.to_nat (zlen sol)) with (length sol) by (unfold zlen; lia). apply blk_of_combine.
Qed.

Lemma NoDup_sol_actions sol : NoDup (sol_actions sol).
Proof. apply (NoDup_map_inv blk_of). rewrite blk_of_sol_actions. apply NoDup_zrange_from. Qed.

Theorem tiles_b_complete cf bl sol : tiles cf bl sol -> tiles_b cf bl sol = true.
Proof.
  unfold tiles_b, tiles. intros (L & IS & T). apply andb_true_iff. split; [apply andb_true_iff; split|].
  - lia.
  - apply forallb_forall. intros a Hin. apply in_space_b_iff. apply IS. exact Hin.
  - apply forallb_zrange. intros i Hi. apply forallb_zrange. intros j Hj.
    destruct (T i j Hi Hj) as (a & Ia & NZ & U).
    set (f := fun a => negb (pcell bl a i j =? 0)).
    assert (ND : NoDup (filter f (sol_actions sol))) by (apply NoDup_filter; apply NoDup_sol_actions).
    assert (All : forall x, In x (filter f (sol_actions sol)) -> x = a).
    { intros x Hx. apply filter_In in Hx as [Ix Fx]. apply U; auto. unfold f in Fx. lia. }
    assert (Ia' : In a (filter f (sol_actions sol))) by (apply filter_In; split; [exact Ia | unfold f; lia]).
    unfold count_if, zlen. destruct (filter f (sol_actions sol)) as [|x [|y t]] eqn:E.
    + destruct Ia'.
    + reflexivity.
    + exfalso. assert (x = a) by (apply All; left; reflexivity). assert (y = a) by (apply All; right; left; reflexivity).
      subst x y. inversion ND as [|? ? NI _]. apply NI. left. reflexivity.
Qed.

(* ---------- a tiling is playable ---------- *)
Definition plays_from (cf : cfg) : state -> list action -> bool :=
  fix go (s : state) (l : list action) : bool :=
    match l with
    | [] => full_b (grid s)
    | (b, k, r, c) :: rest =>
        if in_space_b cf (b, k, r, c) && mask_get (amask s) b k r c then go (fst (step cf s b k r c)) rest else false
    end.
Lemma plays_from_nil cf s : plays_from cf s [] = full_b (grid s).
Proof. reflexivity. Qed.
Lemma plays_from_cons cf s b k r c rest :
  plays_from cf s ((b, k, r, c) :: rest) =
  if in_space_b cf (b, k, r, c) && mask_get (amask s) b k r c then plays_from cf (fst (step cf s b k r c)) rest else false.
Proof. reflexivity. Qed.

Lemma plays_b_from cf bl acts : plays_b cf bl acts = plays_from cf (fst (init cf bl)) acts.
Proof. reflexivity. Qed.

Lemma plays_from_tiles cf bl : blocks_ok (cN cf) bl ->
  forall (rest : list action) (s : state) (ps : list action),
  StateOK cf s -> blocks s = bl -> Feasible cf bl (placed s) (grid s) ps ->
  (forall a, In a rest -> in_space cf a) ->
  NoDup (map blk_of rest) -> (forall a, In a rest -> ~ In (blk_of a) (map blk_of ps)) ->
  (forall i j a a', 0 <= i < cR cf -> 0 <= j < cC cf -> In a ps \/ In a rest -> In a' ps \/ In a' rest ->
                    pcell bl a i j <> 0 -> pcell bl a' i j <> 0 -> a = a') ->
  (forall i j, 0 <= i < cR cf -> 0 <= j < cC cf -> exists a, (In a ps \/ In a rest) /\ pcell bl a i j <> 0) ->
  plays_from cf s rest = true.
Proof.
  intros BO. induction rest as [|[[[b k] r] c] rest IH]; intros s ps OK EB F IS ND NP UQ CV.
  - rewrite plays_from_nil. destruct OK as [[HR [HC HN]] M SH NN _ PL NB].
    apply (full_b_shape (cR cf) (cC cf)); auto. intros i j Hi Hj.
    destruct (CV i j Hi Hj) as [a [[Hin | []] NZ]].
    destruct F as (FI & _ & _ & FG). destruct (FG i j Hi Hj) as [_ EG]. rewrite EG.
    apply (zsum_pos _ ps a); auto. intros x Hx. apply (pcell_nonneg cf); auto.
  - rewrite plays_from_cons.
    assert (ISa : in_space cf (b, k, r, c)) by (apply IS; left; reflexivity).
    replace (in_space_b cf (b, k, r, c)) with true by (symmetry; apply in_space_b_iff; exact ISa).
    cbn [andb].
    assert (LG : mask_get (amask s) b k r c = true).
    { apply (mask_iff_legal cf s (b, k, r, c) OK ISa). rewrite EB.
      pose proof ISa as (Hb & Hk & Hr & Hc). destruct OK as [[HR [HC HN]] M SH NN _ PL NB].
      destruct F as (FI & FN & FP & FG).
      split; [exact ISa|]. split.
      - rewrite (znth_indep true false) by lia. destruct (znth false (placed s) b) eqn:E; [|reflexivity].
        exfalso. apply (NP (b, k, r, c)); [left; reflexivity|]. apply FP; auto.
      - intros i j Hi Hj NZ. destruct (FG (r + i) (c + j) ltac:(lia) ltac:(lia)) as [_ EG]. rewrite EG.
        apply zsum_all_zero. intros a' Hin'. destruct (Z.eq_dec (pcell bl a' (r + i) (c + j)) 0) as [|NZ']; auto. exfalso.
        assert (E : (b, k, r, c) = a').
        { apply (UQ (r + i) (c + j)); auto; try lia.
          - right; left; reflexivity.
          - unfold pcell. replace (in_win r c (r + i) (c + j)) with true by (unfold in_win; lia).
            replace (r + i - r) with i by lia. replace (c + j - c) with j by lia. exact NZ. }
        subst a'. apply (NP (b, k, r, c)); [left; reflexivity|]. apply in_map. exact Hin'. }
    rewrite LG.
    pose proof (step_Feasible cf s ps b k r c OK ltac:(rewrite EB; exact F) ISa) as F'. rewrite LG in F'.
    rewrite step_blocks, EB in F'.
    apply (IH _ ((b, k, r, c) :: ps)).
    + apply step_StateOK; auto.
    + rewrite step_blocks. exact EB.
    + exact F'.
    + intros a Hin. apply IS. right. exact Hin.
    + cbn [map] in ND. inversion ND; auto.
    + intros a Hin [E | Hin'].
      * cbn [map] in ND. inversion ND as [|? ? NI _]. apply NI. cbn [blk_of] in E. rewrite E. apply in_map. exact Hin.
      * apply (NP a); [right; exact Hin | exact Hin'].
    + intros i j a a' Hi Hj Ha Ha'. apply (UQ i j); auto.
      * destruct Ha as [[E | Ha] | Ha]; [right; left; auto | left; auto | right; right; auto].
      * destruct Ha' as [[E | Ha'] | Ha']; [right; left; auto | left; auto | right; right; auto].
    + intros i j Hi Hj. destruct (CV i j Hi Hj) as [a [Ha NZ]]. exists a. split; auto.
      destruct Ha as [Ha | [E | Ha]]; [left; right; auto | left; left; auto | right; auto].
Qed.

Theorem tiles_plays cf bl sol :
  3 <= cR cf -> 3 <= cC cf -> 0 <= cN cf -> blocks_ok (cN cf) bl -> tiles cf bl sol ->
  plays_b cf bl (sol_actions sol) = true.
Proof.
  intros HR HC HN BO (L & IS & T). rewrite plays_b_from.
  apply (plays_from_tiles cf bl BO (sol_actions sol) _ []).
  - apply init_StateOK; auto.
  - reflexivity.
  - cbn [init fst placed grid]. apply init_Feasible; auto.
  - exact IS.
  - rewrite blk_of_sol_actions. apply NoDup_zrange_from.
  - intros a _ [].
  - intros i j a a' Hi Hj [[] | Ha] [[] | Ha'] NZ NZ'.
    destruct (T i j Hi Hj) as (a0 & _ & _ & U). rewrite (U a Ha NZ), (U a' Ha' NZ'). reflexivity.
  - intros i j Hi Hj. destruct (T i j Hi Hj) as (a0 & Ia & NZ & _). exists a0. split; [right; exact Ia | exact NZ].
Qed.
