(* FlatPack: completeness of the exhaustive search [solvable_b] -- if ANY assignment of (rotation, row, col) to the
   blocks tiles the grid exactly inside the action space, the search finds one.  So [solvable_b = false] proves that
   the block set admits no complete solution.                                                                   *)
Require Import JV.Base.Prelude JV.Base.JaxIndex JV.Base.Codec JV.Base.TimeStep JV.Model.FlatPack JV.Proofs.FlatPack JV.Proofs.FlatPack_Pack.

Definition mk_acts (t : Z) (sol : list (Z * Z * Z)) : list action :=
  map (fun '(b, (k, r, c)) => (b, k, r, c)) (combine (zrange_from t (length sol)) sol).

Lemma in_all_krc cf k r c : 0 <= k < 4 -> 0 <= r < cR cf - 2 -> 0 <= c < cC cf - 2 -> In (k, r, c) (all_krc cf).
Proof.
  intros Hk Hr Hc. unfold all_krc. apply in_flat_map. exists k. split; [apply in_zrange; lia|].
  apply in_flat_map. exists r. split; [apply in_zrange; lia|]. apply in_map_iff. exists c. split; [reflexivity|apply in_zrange; lia].
Qed.

Lemma zsum_pos {A} (f : A -> Z) l a : (forall x, In x l -> 0 <= f x) -> In a l -> f a <> 0 -> zsum (map f l) <> 0.
Proof.
  intros NN Hin NZ E. apply NZ. apply (zsum_zero_nonneg f l NN E a Hin).
Qed.

Lemma full_b_shape R C g : shape R C g -> (forall i j, 0 <= i < R -> 0 <= j < C -> cell g i j <> 0) -> full_b g = true.
Proof.
  intros SH H. rewrite (shape_tab R C g SH). unfold full_b, tab.
  apply forallb_forall. intros row Hin. apply in_map_iff in Hin as [i [E Hi]]. subst row. apply in_zrange in Hi.
  apply forallb_forall. intros v Hin. apply in_map_iff in Hin as [j [E Hj]]. subst v. apply in_zrange in Hj.
  specialize (H i j Hi Hj). lia.
Qed.

Lemma search_complete_gen cf bl :
  3 <= cR cf -> 3 <= cC cf -> blocks_ok (cN cf) bl ->
  forall (sol : list (Z * Z * Z)) (t : Z) (g : list (list Z)) (prev : list action),
  (forall a, In a (mk_acts t sol) -> in_space cf a) ->
  (forall a, In a prev -> in_space cf a /\ blk_of a < t) ->
  shape (cR cf) (cC cf) g ->
  (forall i j, 0 <= i < cR cf -> 0 <= j < cC cf -> cell g i j = zsum (map (fun a => pcell bl a i j) prev)) ->
  (forall i j a a', 0 <= i < cR cf -> 0 <= j < cC cf -> In a (prev ++ mk_acts t sol) -> In a' (prev ++ mk_acts t sol) ->
                    pcell bl a i j <> 0 -> pcell bl a' i j <> 0 -> a = a') ->
  (forall i j, 0 <= i < cR cf -> 0 <= j < cC cf -> exists a, In a (prev ++ mk_acts t sol) /\ pcell bl a i j <> 0) ->
  search cf bl (zrange_from t (length sol)) g = true.
Proof.
  intros HR HC BO. induction sol as [|[[k r] c] rest IH]; intros t g prev IS PV SH CG UQ CV.
  - cbn [length zrange_from search]. apply (full_b_shape (cR cf) (cC cf)); auto.
    intros i j Hi Hj. destruct (CV i j Hi Hj) as [a [Hin NZ]]. unfold mk_acts in Hin. cbn in Hin. rewrite app_nil_r in Hin.
    rewrite CG by lia. apply (zsum_pos _ prev a); auto.
    intros x Hx. apply (pcell_nonneg cf); auto. apply PV; auto.
  - cbn [length zrange_from search].
    assert (A0 : In (t, k, r, c) (mk_acts t ((k, r, c) :: rest))) by (left; reflexivity).
    pose proof (IS _ A0) as (Hb & Hk & Hr & Hc).
    apply existsb_exists. exists (k, r, c). split; [apply in_all_krc; lia|].
    destruct BO as [LB FB]. pose proof (conj LB FB) as BO.
    destruct (blocks_ok_nth _ _ t BO Hb) as [B3 _].
    assert (PZ : forall i j, 0 <= i < cR cf -> 0 <= j < cC cf -> pcell bl (t, k, r, c) i j <> 0 -> cell g i j = 0).
    { intros i j Hi Hj NZ. rewrite CG by lia. apply zsum_all_zero. intros a' Hin'.
      destruct (Z.eq_dec (pcell bl a' i j) 0) as [|NZ']; auto. exfalso.
      assert (E : (t, k, r, c) = a').
      { apply (UQ i j); auto.
        - apply in_app_iff; right; exact A0.
        - apply in_app_iff; left; exact Hin'. }
      subst a'. destruct (PV _ Hin') as [_ LT]. cbn in LT. lia. }
    assert (OF : overlap_free g (rotate (jget [] bl t) k) r c = true).
    { unfold overlap_free. apply forallb_zrange. intros i Hi. apply forallb_zrange. intros j Hj.
      rewrite (jget_znth [] [] bl t) by lia. rewrite rotate_qturns by auto.
      destruct (cell (qturns (Z.to_nat k) (znth [] bl t)) i j =? 0) eqn:E; [rewrite andb_false_r; reflexivity|].
      rewrite (PZ (r + i) (c + j)); try lia.
      unfold pcell. replace (in_win r c (r + i) (c + j)) with true by (unfold in_win; lia).
      replace (r + i - r) with i by lia. replace (c + j - c) with j by lia. lia. }
    rewrite OF.
    apply (IH (t + 1) _ ((t, k, r, c) :: prev)).
    + intros a Hin. apply IS. right. exact Hin.
    + intros a [E|Hin]; [subst a; split; [repeat split; lia | cbn; lia]|]. destruct (PV a Hin). split; auto. lia.
    + apply shape_tab_intro; lia.
    + intros i j Hi Hj. rewrite cell_grid_add by lia. rewrite (expand_pcell cf) by (auto; repeat split; lia).
      cbn [map zsum]. rewrite CG by lia. lia.
    + intros i j a a' Hi Hj Hin Hin'. apply (UQ i j); auto.
      * apply in_app_iff. cbn [In] in Hin. apply in_app_iff in Hin. destruct Hin as [[E|Hin]|Hin]; [right; left; auto | left; auto | right; right; auto].
      * apply in_app_iff. cbn [In] in Hin'. apply in_app_iff in Hin'. destruct Hin' as [[E|Hin']|Hin']; [right; left; auto | left; auto | right; right; auto].
    + intros i j Hi Hj. destruct (CV i j Hi Hj) as [a [Hin NZ]]. exists a. split; auto.
      apply in_app_iff. apply in_app_iff in Hin. destruct Hin as [Hin|[E|Hin]]; [left; right; auto | left; left; auto | right; auto].
Qed.

Theorem solvable_b_complete cf bl sol :
  3 <= cR cf -> 3 <= cC cf -> 0 <= cN cf -> blocks_ok (cN cf) bl -> tiles cf bl sol -> solvable_b cf bl = true.
Proof.
  intros HR HC HN BO (L & IS & T). unfold solvable_b, zrange.
  assert (LN : Z.to_nat (cN cf) = length sol) by (unfold zlen in L; lia). rewrite LN.
  assert (SA : sol_actions sol = mk_acts 0 sol).
  { unfold sol_actions, mk_acts, zrange. unfold zlen. rewrite Nat2Z.id. reflexivity. }
  rewrite SA in *.
  apply (search_complete_gen cf bl HR HC BO sol 0 _ []).
  - exact IS.
  - intros a [].
  - apply shape_tab_intro; lia.
  - intros i j Hi Hj. rewrite cell_zeros by lia. reflexivity.
  - intros i j a a' Hi Hj Hin Hin' NZ NZ'. cbn [Datatypes.app] in *.
    destruct (T i j Hi Hj) as [a0 [_ [_ U]]]. rewrite (U a Hin NZ), (U a' Hin' NZ'). reflexivity.
  - intros i j Hi Hj. destruct (T i j Hi Hj) as [a0 [Hin [NZ _]]]. exists a0. split; auto.
Qed.

(* boolean twin of block_nonneg *)
Lemma blocks_ok_b N bl :
  zlen bl = N -> forallb (fun b => is3x3 b && forallb (forallb (fun v => 0 <=? v)) b) bl = true -> blocks_ok N bl.
Proof.
  intros L F. split; [exact L|]. apply Forall_forall. intros b Hin. rewrite forallb_forall in F. specialize (F b Hin).
  apply andb_true_iff in F as [B3 NNb]. split; [exact B3|].
  intros i j. destruct (Z_lt_dec i 0); [|destruct (Z_lt_dec j 0); [|destruct (Z_lt_dec i 3); [destruct (Z_lt_dec j 3)|]]].
  3: { destruct (is3x3_inv b B3) as (a0 & a1 & a2 & b0 & b1 & b2 & c0 & c1 & c2 & E). subst b.
       cbn [forallb] in NNb. repeat (apply andb_true_iff in NNb as [? NNb]).
       assert (Ki : i = 0 \/ i = 1 \/ i = 2) by lia. assert (Kj : j = 0 \/ j = 1 \/ j = 2) by lia.
       destruct Ki as [Ki | [Ki | Ki]]; destruct Kj as [Kj | [Kj | Kj]]; subst i j;
         match goal with |- 0 <= ?x => let y := eval cbv in x in change x with y end; lia. }
  all: rewrite cell_3x3_outside; [lia | exact B3 | lia].
Qed.
