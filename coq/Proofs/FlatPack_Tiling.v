(* FlatPack generator (C10), part 1: closed form of RandomFlatPackGenerator's solved grid for EVERY size and EVERY
   draw (the block partition written by the two fill scans, then the column / row interlock scans), and the proof
   that the verified checker [tiling_ok_b] accepts it.                                                          *)
Require Import JV.Base.Prelude JV.Base.JaxIndex JV.Base.Codec JV.Base.TimeStep JV.Model.FlatPack JV.Proofs.FlatPack.

(* ---------- get_significant_idxs: 2, 4, .., 2n-2 ---------- *)
Definition evens_from (t0 : Z) (n : nat) : list Z := map (fun t => 2 * t + 2) (zrange_from t0 n).

Lemma evens_from_S t0 n : evens_from t0 (S n) = (2 * t0 + 2) :: evens_from (t0 + 1) n.
Proof. reflexivity. Qed.

Lemma removelast_map_zrange_from {A} (f : Z -> A) m : forall s,
  removelast (map f (zrange_from s (S m))) = map f (zrange_from s m).
Proof.
  induction m as [|m IH]; intro s; [reflexivity|].
  change (zrange_from s (S (S m))) with (s :: zrange_from (s + 1) (S m)).
  cbn [map]. specialize (IH (s + 1)).
  change (zrange_from (s + 1) (S m)) with ((s + 1) :: zrange_from (s + 1 + 1) m) in *.
  cbn [map] in *. cbn [removelast]. cbn [removelast] in IH. rewrite IH. reflexivity.
Qed.

Lemma map_zrange_from_shift {A} (f : Z -> A) n : forall s,
  map f (zrange_from (s + 1) n) = map (fun t => f (t + 1)) (zrange_from s n).
Proof. induction n as [|n IH]; intro s; [reflexivity|]. cbn [zrange_from map]. rewrite IH. reflexivity. Qed.

Lemma sig_idxs_eq n : 1 <= n -> sig_idxs n = evens_from 0 (Z.to_nat (n - 1)).
Proof.
  intro H. unfold sig_idxs, evens_from, zrange.
  replace ((2 * n + 1 + 1) / 2) with (n + 1) by lia.
  replace (Z.to_nat (n + 1)) with (S (S (Z.to_nat (n - 1)))) by lia.
  set (m := Z.to_nat (n - 1)).
  change (zrange_from 0 (S (S m))) with (0 :: zrange_from (0 + 1) (S m)).
  cbn [map tl]. rewrite removelast_map_zrange_from.
  rewrite (map_zrange_from_shift (fun t => 2 * t) _ 0).
  apply map_ext. intro t. lia.
Qed.

Ltac brk := repeat match goal with |- context[if ?b then _ else _] => destruct b eqn:? end.

(* ---------- _fill_grid_columns ---------- *)
Definition colstep (R C : Z) (cy : list (list Z) * Z) (v : Z) : list (list Z) * Z :=
  let (g, fv) := cy in let fv' := fv + 1 in let v0 := dyn_start C 3 v in
  (tab R C (fun i j => if (v0 <=? j) && (j <? v0 + 3) then fv' else cell g i j), fv').

Lemma fill_cols_fold R C n : forall t0 f fv,
  0 <= t0 -> 2 * (t0 + Z.of_nat n) = C - 3 ->
  fold_left (colstep R C) (evens_from t0 n) (tab R C f, fv) =
  (tab R C (fun i j => if (0 <? Z.of_nat n) && (2 * t0 + 2 <=? j)
                       then fv + 1 + Z.min (j / 2 - (t0 + 1)) (Z.of_nat n - 1) else f i j), fv + Z.of_nat n).
Proof.
  induction n as [|n IH]; intros t0 f fv H0 HC.
  - cbn [evens_from zrange_from map fold_left]. f_equal; try lia.
  - rewrite evens_from_S. cbn [fold_left]. unfold colstep at 2. cbv zeta.
    rewrite dyn_start_id by lia. rewrite IH by lia. f_equal; [|lia].
    apply tab_ext. intros i j Hi Hj. rewrite cell_tab by lia. brk; lia.
Qed.

Definition colv (ncb j : Z) : Z := Z.min (j / 2) (ncb - 1) + 1.

Lemma fill_cols_eq R ncb : 1 <= ncb -> fill_cols R (2 * ncb + 1) ncb = tab R (2 * ncb + 1) (fun _ j => colv ncb j).
Proof.
  intro H.
  change (fill_cols R (2 * ncb + 1) ncb)
    with (fst (fold_left (colstep R (2 * ncb + 1)) (sig_idxs ncb) (tab R (2 * ncb + 1) (fun _ _ => 1), 1))).
  rewrite sig_idxs_eq by lia.
  rewrite fill_cols_fold by lia. cbn [fst]. apply tab_ext. intros i j Hi Hj. unfold colv. brk; lia.
Qed.

(* ---------- _fill_grid_rows (additive: the interlock rows 2, 4, .. receive two increments; they are overwritten
   by the row interlocks) ---------- *)
Definition rowstep (R C ncb : Z) (cy : list (list Z) * Z) (v : Z) : list (list Z) * Z :=
  let (g, sv) := cy in let v0 := dyn_start R 3 v in
  (tab R C (fun i j => if (v0 <=? i) && (i <? v0 + 3) then cell g i j + sv else cell g i j), sv + ncb).

Fixpoint radd (ncb t0 : Z) (n : nat) (sv i : Z) : Z :=
  match n with
  | O => 0
  | S n' => (if (2 * t0 + 2 <=? i) && (i <? 2 * t0 + 5) then sv else 0) + radd ncb (t0 + 1) n' (sv + ncb) i
  end.

Lemma fill_rows_fold R C ncb n : forall t0 f sv,
  0 <= t0 -> 2 * (t0 + Z.of_nat n) <= R - 3 ->
  fst (fold_left (rowstep R C ncb) (evens_from t0 n) (tab R C f, sv)) =
  tab R C (fun i j => f i j + radd ncb t0 n sv i).
Proof.
  induction n as [|n IH]; intros t0 f sv H0 HR.
  - cbn [evens_from zrange_from map fold_left fst radd]. apply tab_ext. intros i j Hi Hj. lia.
  - rewrite evens_from_S. cbn [fold_left]. unfold rowstep at 2. cbv zeta.
    rewrite dyn_start_id by lia. rewrite IH by lia.
    apply tab_ext. intros i j Hi Hj. rewrite cell_tab by lia. cbn [radd]. brk; lia.
Qed.

Lemma radd_below ncb n : forall t0 sv i, i < 2 * t0 + 2 -> radd ncb t0 n sv i = 0.
Proof. induction n as [|n IH]; intros t0 sv i H; cbn [radd]; [reflexivity|]. rewrite IH by lia. brk; lia. Qed.

Lemma radd_odd ncb n : forall t0 i, i mod 2 = 1 ->
  radd ncb t0 n ((t0 + 1) * ncb) i = if (t0 + 1 <=? i / 2) && (i / 2 <=? t0 + Z.of_nat n) then (i / 2) * ncb else 0.
Proof.
  induction n as [|n IH]; intros t0 i Hi; cbn [radd].
  - brk; lia.
  - replace ((t0 + 1) * ncb + ncb) with ((t0 + 1 + 1) * ncb) by ring. rewrite IH by exact Hi.
    destruct ((2 * t0 + 2 <=? i) && (i <? 2 * t0 + 5)) eqn:E.
    + replace (i / 2) with (t0 + 1) by lia. brk; lia.
    + brk; lia.
Qed.

Lemma radd_last ncb n : forall t0,
  radd ncb t0 n ((t0 + 1) * ncb) (2 * (t0 + Z.of_nat n) + 2) = if 0 <? Z.of_nat n then (t0 + Z.of_nat n) * ncb else 0.
Proof.
  induction n as [|n IH]; intros t0; cbn [radd]; [reflexivity|].
  replace ((t0 + 1) * ncb + ncb) with ((t0 + 1 + 1) * ncb) by ring.
  replace (2 * (t0 + Z.of_nat (S n)) + 2) with (2 * (t0 + 1 + Z.of_nat n) + 2) by lia. rewrite IH.
  destruct n as [|n].
  - cbn [Z.of_nat]. replace (t0 + Z.of_nat 1) with (t0 + 1) by lia. brk; lia.
  - replace (t0 + Z.of_nat (S (S n))) with (t0 + 1 + Z.of_nat (S n)) by lia. brk; lia.
Qed.

Definition g1 (nrb ncb i j : Z) : Z := colv ncb j + radd ncb 0 (Z.to_nat (nrb - 1)) ncb i.

Lemma fill_rows_eq nrb ncb : 1 <= nrb -> 1 <= ncb ->
  fill_rows (2 * nrb + 1) (2 * ncb + 1) nrb ncb (fill_cols (2 * nrb + 1) (2 * ncb + 1) ncb)
  = tab (2 * nrb + 1) (2 * ncb + 1) (g1 nrb ncb).
Proof.
  intros HR HC. rewrite fill_cols_eq by lia.
  change (fill_rows (2 * nrb + 1) (2 * ncb + 1) nrb ncb ?g)
    with (fst (fold_left (rowstep (2 * nrb + 1) (2 * ncb + 1) ncb) (sig_idxs nrb) (g, ncb))).
  rewrite sig_idxs_eq by lia. rewrite fill_rows_fold by lia. reflexivity.
Qed.

(* ---------- znth on a cons ---------- *)
Lemma znth_cons_0 {A} (d x : A) l : znth d (x :: l) 0 = x.
Proof. reflexivity. Qed.
Lemma znth_cons_pos {A} (d x : A) l k : 0 < k -> znth d (x :: l) k = znth d l (k - 1).
Proof.
  intro H. rewrite !znth_nth by lia. replace (Z.to_nat k) with (S (Z.to_nat (k - 1))) by lia. reflexivity.
Qed.

(* ---------- _select_col_interlocks / _select_row_interlocks ---------- *)
Lemma col_interlocks_fold R C n : forall t0 f (ds : list (list bool)),
  0 <= t0 -> 2 * (t0 + Z.of_nat n) + 1 <= C - 1 -> length ds = n ->
  fold2 (col_interlock R C) (tab R C f) (evens_from t0 n) ds =
  tab R C (fun i j => if (j mod 2 =? 0) && (2 * t0 + 2 <=? j) && (j <=? 2 * (t0 + Z.of_nat n))
                      then (if znth false (znth [] ds (j / 2 - 1 - t0)) i then f i (j - 1) else f i (j + 1))
                      else f i j).
Proof.
  induction n as [|n IH]; intros t0 f ds H0 HC HL.
  - destruct ds; [|discriminate]. cbn [evens_from zrange_from map fold2]. apply tab_ext. intros i j Hi Hj. brk; lia.
  - destruct ds as [|d ds]; [discriminate|]. rewrite evens_from_S. cbn [fold2]. unfold col_interlock at 2. cbv zeta.
    replace (2 * t0 + 2 - 1) with (2 * t0 + 1) by lia. rewrite dyn_start_id by lia.
    rewrite IH by (cbn [length] in HL; lia).
    apply tab_ext. intros i j Hi Hj.
    destruct ((j mod 2 =? 0) && (2 * t0 + 2 <=? j) && (j <=? 2 * (t0 + Z.of_nat (S n)))) eqn:E1.
    + destruct (j =? 2 * t0 + 2) eqn:E2.
      * replace (j / 2 - 1 - t0) with 0 by lia. rewrite znth_cons_0.
        replace ((j mod 2 =? 0) && (2 * (t0 + 1) + 2 <=? j) && (j <=? 2 * (t0 + 1 + Z.of_nat n))) with false by lia.
        replace (j =? 2 * t0 + 1 + 1) with true by lia. rewrite !cell_tab by lia.
        replace (j - 1) with (2 * t0 + 1) by lia. replace (j + 1) with (2 * t0 + 1 + 2) by lia. reflexivity.
      * rewrite znth_cons_pos by lia.
        replace ((j mod 2 =? 0) && (2 * (t0 + 1) + 2 <=? j) && (j <=? 2 * (t0 + 1 + Z.of_nat n))) with true by lia.
        replace (j / 2 - 1 - t0 - 1) with (j / 2 - 1 - (t0 + 1)) by lia.
        replace (j - 1 =? 2 * t0 + 1 + 1) with false by lia. replace (j + 1 =? 2 * t0 + 1 + 1) with false by lia.
        rewrite !cell_tab by lia. reflexivity.
    + replace ((j mod 2 =? 0) && (2 * (t0 + 1) + 2 <=? j) && (j <=? 2 * (t0 + 1 + Z.of_nat n))) with false by lia.
      replace (j =? 2 * t0 + 1 + 1) with false by lia. rewrite cell_tab by lia. reflexivity.
Qed.

Lemma row_interlocks_fold R C n : forall t0 f (ds : list (list bool)),
  0 <= t0 -> 2 * (t0 + Z.of_nat n) + 1 <= R - 1 -> length ds = n ->
  fold2 (row_interlock R C) (tab R C f) (evens_from t0 n) ds =
  tab R C (fun i j => if (i mod 2 =? 0) && (2 * t0 + 2 <=? i) && (i <=? 2 * (t0 + Z.of_nat n))
                      then (if znth false (znth [] ds (i / 2 - 1 - t0)) j then f (i - 1) j else f (i + 1) j)
                      else f i j).
Proof.
  induction n as [|n IH]; intros t0 f ds H0 HC HL.
  - destruct ds; [|discriminate]. cbn [evens_from zrange_from map fold2]. apply tab_ext. intros i j Hi Hj. brk; lia.
  - destruct ds as [|d ds]; [discriminate|]. rewrite evens_from_S. cbn [fold2]. unfold row_interlock at 2. cbv zeta.
    replace (2 * t0 + 2 - 1) with (2 * t0 + 1) by lia. rewrite dyn_start_id by lia.
    rewrite IH by (cbn [length] in HL; lia).
    apply tab_ext. intros i j Hi Hj.
    destruct ((i mod 2 =? 0) && (2 * t0 + 2 <=? i) && (i <=? 2 * (t0 + Z.of_nat (S n)))) eqn:E1.
    + destruct (i =? 2 * t0 + 2) eqn:E2.
      * replace (i / 2 - 1 - t0) with 0 by lia. rewrite znth_cons_0.
        replace ((i mod 2 =? 0) && (2 * (t0 + 1) + 2 <=? i) && (i <=? 2 * (t0 + 1 + Z.of_nat n))) with false by lia.
        replace (i =? 2 * t0 + 1 + 1) with true by lia. rewrite !cell_tab by lia.
        replace (i - 1) with (2 * t0 + 1) by lia. replace (i + 1) with (2 * t0 + 1 + 2) by lia. reflexivity.
      * rewrite znth_cons_pos by lia.
        replace ((i mod 2 =? 0) && (2 * (t0 + 1) + 2 <=? i) && (i <=? 2 * (t0 + 1 + Z.of_nat n))) with true by lia.
        replace (i / 2 - 1 - t0 - 1) with (i / 2 - 1 - (t0 + 1)) by lia.
        replace (i - 1 =? 2 * t0 + 1 + 1) with false by lia. replace (i + 1 =? 2 * t0 + 1 + 1) with false by lia.
        rewrite !cell_tab by lia. reflexivity.
    + replace ((i mod 2 =? 0) && (2 * (t0 + 1) + 2 <=? i) && (i <=? 2 * (t0 + 1 + Z.of_nat n))) with false by lia.
      replace (i =? 2 * t0 + 1 + 1) with false by lia. rewrite cell_tab by lia. reflexivity.
Qed.

(* ---------- closed form of the solved grid ---------- *)
(* interior even index 2, 4, .., 2n-2 : an interlock row / column *)
Definition ilk (n x : Z) : bool := (x mod 2 =? 0) && (2 <=? x) && (x <=? 2 * (n - 1)).
(* the row a cell copies its label from (row interlock draw), then the column (column interlock draw, read on that row) *)
Definition srcrow (nrb : Z) (rd : list (list bool)) (i j : Z) : Z :=
  if ilk nrb i then (if znth false (znth [] rd (i / 2 - 1)) j then i - 1 else i + 1) else i.
Definition srccol (ncb : Z) (cd : list (list bool)) (i j : Z) : Z :=
  if ilk ncb j then (if znth false (znth [] cd (j / 2 - 1)) i then j - 1 else j + 1) else j.
Definition g3 (nrb ncb : Z) (cd rd : list (list bool)) (i j : Z) : Z :=
  g1 nrb ncb (srcrow nrb rd i j) (srccol ncb cd (srcrow nrb rd i j) j).

Theorem solved_grid_closed nrb ncb cd rd :
  1 <= nrb -> 1 <= ncb -> zlen cd = ncb - 1 -> zlen rd = nrb - 1 ->
  solved_grid nrb ncb cd rd = tab (2 * nrb + 1) (2 * ncb + 1) (g3 nrb ncb cd rd).
Proof.
  intros HR HC Lc Lr. unfold solved_grid. cbv zeta. rewrite fill_rows_eq by lia.
  rewrite !sig_idxs_eq by lia. unfold zlen in *.
  rewrite col_interlocks_fold by lia. rewrite row_interlocks_fold by lia.
  apply tab_ext. intros i j Hi Hj. unfold g3, srcrow, srccol, ilk.
  replace (2 * (0 + Z.of_nat (Z.to_nat (nrb - 1)))) with (2 * (nrb - 1)) by lia.
  replace (2 * (0 + Z.of_nat (Z.to_nat (ncb - 1)))) with (2 * (ncb - 1)) by lia.
  replace (2 * 0 + 2) with 2 by lia. rewrite !Z.sub_0_r.
  destruct ((i mod 2 =? 0) && (2 <=? i) && (i <=? 2 * (nrb - 1))); [destruct (znth false (znth [] rd (i / 2 - 1)) j)|];
    destruct ((j mod 2 =? 0) && (2 <=? j) && (j <=? 2 * (ncb - 1))); try reflexivity;
    match goal with |- context[if ?b then _ else _] => destruct b end; reflexivity.
Qed.

(* block row / block column of a plain (non-interlock) row / column *)
Definition bk (n x : Z) : Z := Z.min (x / 2) (n - 1).
Definition plain (n x : Z) : Prop := 0 <= x <= 2 * n /\ (x mod 2 = 1 \/ x = 0 \/ x = 2 * n).

Lemma g1_plain nrb ncb i j : 1 <= nrb -> 1 <= ncb -> plain nrb i -> g1 nrb ncb i j = bk nrb i * ncb + bk ncb j + 1.
Proof.
  intros HR HC [Hi P]. unfold g1, colv, bk.
  assert (E : radd ncb 0 (Z.to_nat (nrb - 1)) ncb i = Z.min (i / 2) (nrb - 1) * ncb).
  { destruct P as [P | [P | P]].
    - pose proof (radd_odd ncb (Z.to_nat (nrb - 1)) 0 i P) as E. replace ((0 + 1) * ncb) with ncb in E by ring.
      rewrite E. destruct ((0 + 1 <=? i / 2) && (i / 2 <=? 0 + Z.of_nat (Z.to_nat (nrb - 1)))) eqn:B.
      + replace (Z.min (i / 2) (nrb - 1)) with (i / 2) by lia. reflexivity.
      + replace (Z.min (i / 2) (nrb - 1)) with 0 by lia. ring.
    - subst i. rewrite radd_below by lia. replace (Z.min (0 / 2) (nrb - 1)) with 0 by lia. ring.
    - pose proof (radd_last ncb (Z.to_nat (nrb - 1)) 0) as E. replace ((0 + 1) * ncb) with ncb in E by ring.
      replace (2 * (0 + Z.of_nat (Z.to_nat (nrb - 1))) + 2) with i in E by lia. rewrite E.
      destruct (0 <? Z.of_nat (Z.to_nat (nrb - 1))) eqn:B.
      + replace (0 + Z.of_nat (Z.to_nat (nrb - 1))) with (nrb - 1) by lia.
        replace (Z.min (i / 2) (nrb - 1)) with (nrb - 1) by lia. reflexivity.
      + replace (Z.min (i / 2) (nrb - 1)) with 0 by lia. ring. }
  rewrite E. ring.
Qed.

Lemma srcrow_plain nrb rd i j : 1 <= nrb -> 0 <= i < 2 * nrb + 1 ->
  plain nrb (srcrow nrb rd i j) /\ Z.abs (i - (2 * bk nrb (srcrow nrb rd i j) + 1)) <= 1.
Proof. intros HR Hi. unfold plain, srcrow, ilk, bk. brk; lia. Qed.

Lemma srccol_plain ncb cd i j : 1 <= ncb -> 0 <= j < 2 * ncb + 1 ->
  plain ncb (srccol ncb cd i j) /\ Z.abs (j - (2 * bk ncb (srccol ncb cd i j) + 1)) <= 1.
Proof. intros HC Hj. unfold plain, srccol, ilk, bk. brk; lia. Qed.

Lemma bk_range n x : 1 <= n -> 0 <= x -> 0 <= bk n x < n.
Proof. intros. unfold bk. lia. Qed.

Lemma srcrow_odd nrb rd i j : i mod 2 = 1 -> srcrow nrb rd i j = i.
Proof. intro H. unfold srcrow, ilk. replace (i mod 2 =? 0) with false by lia. reflexivity. Qed.
Lemma srccol_odd ncb cd i j : j mod 2 = 1 -> srccol ncb cd i j = j.
Proof. intro H. unfold srccol, ilk. replace (j mod 2 =? 0) with false by lia. reflexivity. Qed.

Lemma divmod_lin a b n : 0 <= b < n -> (a * n + b) / n = a /\ (a * n + b) mod n = b.
Proof.
  intro H. split.
  - symmetry. apply (Z.div_unique _ _ _ b); [left; lia | ring].
  - symmetry. apply (Z.mod_unique _ _ a); [left; lia | ring].
Qed.

(* the structure behind tiling_ok_b, for every cell *)
Lemma g3_cell nrb ncb cd rd i j :
  1 <= nrb -> 1 <= ncb -> 0 <= i < 2 * nrb + 1 -> 0 <= j < 2 * ncb + 1 ->
  exists a b, 0 <= a < nrb /\ 0 <= b < ncb /\ g3 nrb ncb cd rd i j = a * ncb + b + 1 /\
    Z.abs (i - (2 * a + 1)) <= 1 /\ Z.abs (j - (2 * b + 1)) <= 1 /\
    g3 nrb ncb cd rd (2 * a + 1) (2 * b + 1) = a * ncb + b + 1 /\
    (g3 nrb ncb cd rd i (2 * b + 1) = a * ncb + b + 1 \/ g3 nrb ncb cd rd (2 * a + 1) j = a * ncb + b + 1).
Proof.
  intros HR HC Hi Hj.
  destruct (srcrow_plain nrb rd i j HR Hi) as [Pi Ai].
  destruct (srccol_plain ncb cd (srcrow nrb rd i j) j HC Hj) as [Pj Aj].
  set (i' := srcrow nrb rd i j) in *. set (j' := srccol ncb cd i' j) in *.
  exists (bk nrb i'), (bk ncb j').
  assert (Ra : 0 <= bk nrb i' < nrb) by (apply bk_range; [lia | destruct Pi; lia]).
  assert (Rb : 0 <= bk ncb j' < ncb) by (apply bk_range; [lia | destruct Pj; lia]).
  assert (K : g3 nrb ncb cd rd i j = bk nrb i' * ncb + bk ncb j' + 1).
  { unfold g3. fold i'. fold j'. apply g1_plain; auto. }
  assert (Ctr : forall a b, 0 <= a < nrb -> 0 <= b < ncb -> g3 nrb ncb cd rd (2 * a + 1) (2 * b + 1) = a * ncb + b + 1).
  { intros a b Ha Hb. unfold g3. rewrite srcrow_odd by lia. rewrite srccol_odd by lia.
    rewrite g1_plain; auto; [|unfold plain; lia]. unfold bk.
    replace (Z.min ((2 * a + 1) / 2) (nrb - 1)) with a by lia. replace (Z.min ((2 * b + 1) / 2) (ncb - 1)) with b by lia. reflexivity. }
  repeat split; try lia; auto.
  destruct (ilk nrb i) eqn:IL.
  - (* interlock row: the whole cell is a copy of the centre row's cell *)
    right. assert (E : 2 * bk nrb i' + 1 = i').
    { unfold i', srcrow, bk in *. rewrite IL in *. unfold ilk in IL. brk; lia. }
    rewrite E. rewrite <- K. unfold g3. rewrite (srcrow_odd nrb rd i') by (destruct Pi; lia).
    reflexivity.
  - (* plain row: the cell is a copy of (i, centre column) *)
    left. assert (E : i' = i) by (unfold i', srcrow; rewrite IL; reflexivity).
    unfold g3. replace (srcrow nrb rd i (2 * bk ncb j' + 1)) with i by (unfold srcrow; rewrite IL; reflexivity).
    rewrite srccol_odd by lia. rewrite g1_plain; auto; [|rewrite <- E; exact Pi]. rewrite E. unfold bk at 2.
    replace (Z.min ((2 * bk ncb j' + 1) / 2) (ncb - 1)) with (bk ncb j') by lia. reflexivity.
Qed.

Theorem solved_grid_tiling_ok nrb ncb cd rd :
  1 <= nrb -> 1 <= ncb -> zlen cd = ncb - 1 -> zlen rd = nrb - 1 ->
  tiling_ok_b nrb ncb (solved_grid nrb ncb cd rd) = true.
Proof.
  intros HR HC Lc Lr. rewrite solved_grid_closed by auto. unfold tiling_ok_b. cbv zeta.
  apply andb_true_iff. split.
  - unfold shape_b. apply andb_true_iff. split.
    + unfold tab. rewrite zlen_map, zlen_zrange by lia. lia.
    + apply forallb_forall. intros row Hin. unfold tab in Hin. apply in_map_iff in Hin as [i [E _]]. subst row.
      rewrite zlen_map, zlen_zrange by lia. lia.
  - apply forallb_zrange. intros i Hi. apply forallb_zrange. intros j Hj.
    destruct (g3_cell nrb ncb cd rd i j HR HC Hi Hj) as (a & b & Ha & Hb & K & Ai & Aj & Ctr & Cor).
    rewrite (cell_tab _ _ _ i j) by lia. rewrite K.
    replace (a * ncb + b + 1 - 1) with (a * ncb + b) by lia.
    destruct (divmod_lin a b ncb Hb) as [D M]. rewrite D, M.
    rewrite !cell_tab by lia. rewrite Ctr.
    assert (N : a * ncb + b + 1 <= nrb * ncb) by nia.
    assert (P : 1 <= a * ncb + b + 1) by nia.
    destruct Cor as [Cor | Cor]; rewrite Cor; lia.
Qed.

(* ---------- what the checker means: an exact tiling by connected blocks, each inside a 3x3 box of the grid ---------- *)
Definition adj4 (p q : Z * Z) : Prop :=
  (fst p = fst q /\ Z.abs (snd p - snd q) = 1) \/ (snd p = snd q /\ Z.abs (fst p - fst q) = 1).
(* a path of edge-adjacent cells all carrying label k *)
Inductive conn (g : list (list Z)) (k : Z) : Z * Z -> Z * Z -> Prop :=
| conn_refl p : cell g (fst p) (snd p) = k -> conn g k p p
| conn_step p q r : cell g (fst p) (snd p) = k -> adj4 p q -> conn g k q r -> conn g k p r.

Lemma conn_start g k p q : conn g k p q -> cell g (fst p) (snd p) = k.
Proof. intro H. destruct H; auto. Qed.
Lemma conn_trans g k p q r : conn g k p q -> conn g k q r -> conn g k p r.
Proof. intros H1 H2. induction H1; auto. eapply conn_step; eauto. Qed.
Lemma adj4_sym p q : adj4 p q -> adj4 q p.
Proof. unfold adj4. lia. Qed.
Lemma conn_sym g k p q : conn g k p q -> conn g k q p.
Proof.
  intro H. induction H as [p Hp | p q r Hp A H IH]; [apply conn_refl; auto|].
  apply (conn_trans g k r q p IH). apply (conn_step g k q p p); [eapply conn_start; eauto | apply adj4_sym; auto | apply conn_refl; auto].
Qed.

Record ExactTiling (nrb ncb : Z) (g : list (list Z)) : Prop := {
  et_shape : shape (2 * nrb + 1) (2 * ncb + 1) g;
  (* every cell carries one block id in 1..num_blocks *)
  et_label : forall i j, 0 <= i < 2 * nrb + 1 -> 0 <= j < 2 * ncb + 1 -> 1 <= cell g i j <= nrb * ncb;
  (* every block is non-empty *)
  et_nonempty : forall k, 1 <= k <= nrb * ncb -> exists i j, 0 <= i < 2 * nrb + 1 /\ 0 <= j < 2 * ncb + 1 /\ cell g i j = k;
  (* every block fits in a 3x3 box lying inside the grid *)
  et_box : forall k, 1 <= k <= nrb * ncb -> exists r0 c0, 0 <= r0 <= 2 * nrb + 1 - 3 /\ 0 <= c0 <= 2 * ncb + 1 - 3 /\
             forall i j, 0 <= i < 2 * nrb + 1 -> 0 <= j < 2 * ncb + 1 -> cell g i j = k -> r0 <= i < r0 + 3 /\ c0 <= j < c0 + 3;
  (* every block is 4-connected *)
  et_conn : forall k i j i' j', 0 <= i < 2 * nrb + 1 -> 0 <= j < 2 * ncb + 1 -> 0 <= i' < 2 * nrb + 1 -> 0 <= j' < 2 * ncb + 1 ->
             cell g i j = k -> cell g i' j' = k -> conn g k (i, j) (i', j') }.

Lemma shape_b_shape R C g : shape_b R C g = true -> shape R C g.
Proof.
  unfold shape_b, shape. intro H. apply andb_true_iff in H as [A B]. split; [lia|].
  apply Forall_forall. intros row Hin. rewrite forallb_forall in B. specialize (B row Hin). lia.
Qed.

Lemma kdiv_range k nrb ncb : 1 <= ncb -> 1 <= k <= nrb * ncb -> 0 <= (k - 1) / ncb < nrb /\ 0 <= (k - 1) mod ncb < ncb.
Proof.
  intros HC Hk. split; [|apply Z.mod_pos_bound; lia]. split; [apply Z.div_pos; lia|].
  apply Z.div_lt_upper_bound; [lia|]. nia.
Qed.

Theorem tiling_ok_b_sound nrb ncb g : 1 <= nrb -> 1 <= ncb -> tiling_ok_b nrb ncb g = true -> ExactTiling nrb ncb g.
Proof.
  intros HR HC T. unfold tiling_ok_b in T. cbv zeta in T. apply andb_true_iff in T as [SH T].
  assert (Cell : forall i j, 0 <= i < 2 * nrb + 1 -> 0 <= j < 2 * ncb + 1 ->
     let k := cell g i j in let ci := 2 * ((k - 1) / ncb) + 1 in let cj := 2 * ((k - 1) mod ncb) + 1 in
     1 <= k <= nrb * ncb /\ Z.abs (i - ci) <= 1 /\ Z.abs (j - cj) <= 1 /\ cell g ci cj = k /\
     (i = ci \/ j = cj \/ cell g i cj = k \/ cell g ci j = k)).
  { intros i j Hi Hj. rewrite forallb_zrange in T. specialize (T i Hi). rewrite forallb_zrange in T. specialize (T j Hj).
    cbv zeta in T. cbv zeta.
    repeat (apply andb_true_iff in T as [T ?]). repeat split; try lia. }
  clear T.
  (* the centre of block k carries k *)
  assert (Ctr : forall k, 1 <= k <= nrb * ncb -> cell g (2 * ((k - 1) / ncb) + 1) (2 * ((k - 1) mod ncb) + 1) = k).
  { intros k Hk. destruct (kdiv_range k nrb ncb HC Hk) as [Ra Rb].
    set (a := (k - 1) / ncb) in *. set (b := (k - 1) mod ncb) in *.
    destruct (Cell (2 * a + 1) (2 * b + 1) ltac:(lia) ltac:(lia)) as (Hk' & Ai & Aj & _).
    cbv zeta in *. set (k' := cell g (2 * a + 1) (2 * b + 1)) in *.
    destruct (kdiv_range k' nrb ncb HC Hk') as [Ra' Rb'].
    assert (Ea : (k' - 1) / ncb = a) by lia. assert (Eb : (k' - 1) mod ncb = b) by lia.
    pose proof (Z.div_mod (k - 1) ncb ltac:(lia)) as D. pose proof (Z.div_mod (k' - 1) ncb ltac:(lia)) as D'.
    rewrite Ea, Eb in D'. fold a b in D. lia. }
  constructor.
  - apply shape_b_shape; exact SH.
  - intros i j Hi Hj. apply (Cell i j Hi Hj).
  - intros k Hk. destruct (kdiv_range k nrb ncb HC Hk) as [Ra Rb].
    exists (2 * ((k - 1) / ncb) + 1), (2 * ((k - 1) mod ncb) + 1). repeat split; try lia. apply Ctr; exact Hk.
  - intros k Hk. destruct (kdiv_range k nrb ncb HC Hk) as [Ra Rb].
    exists (2 * ((k - 1) / ncb)), (2 * ((k - 1) mod ncb)). split; [lia|]. split; [lia|].
    intros i j Hi Hj E. destruct (Cell i j Hi Hj) as (_ & Ai & Aj & _). cbv zeta in *. rewrite E in *. lia.
  - (* every cell of k is joined to the centre of k by at most two steps inside k *)
    assert (ToCtr : forall k i j, 0 <= i < 2 * nrb + 1 -> 0 <= j < 2 * ncb + 1 -> cell g i j = k ->
              conn g k (i, j) (2 * ((k - 1) / ncb) + 1, 2 * ((k - 1) mod ncb) + 1)).
    { intros k i j Hi Hj E. destruct (Cell i j Hi Hj) as (Hk & Ai & Aj & Cc & Cor). cbv zeta in *. rewrite E in *.
      set (ci := 2 * ((k - 1) / ncb) + 1) in *. set (cj := 2 * ((k - 1) mod ncb) + 1) in *.
      assert (One : forall p q, cell g (fst p) (snd p) = k -> cell g (fst q) (snd q) = k -> adj4 p q -> conn g k p q).
      { intros p q Hp Hq A. apply (conn_step g k p q q Hp A). apply conn_refl; exact Hq. }
      destruct (Z.eq_dec i ci) as [Ei | Ni]; [destruct (Z.eq_dec j cj) as [Ej | Nj]|].
      - subst i j. apply conn_refl. exact Cc.
      - subst i. apply One; auto. unfold adj4; cbn [fst snd]. lia.
      - destruct (Z.eq_dec j cj) as [Ej | Nj].
        + subst j. apply One; auto. unfold adj4; cbn [fst snd]. lia.
        + destruct Cor as [Cor | [Cor | [Cor | Cor]]]; try lia.
          * apply (conn_trans g k _ (i, cj)); apply One; auto; unfold adj4; cbn [fst snd]; lia.
          * apply (conn_trans g k _ (ci, j)); apply One; auto; unfold adj4; cbn [fst snd]; lia. }
    intros k i j i' j' Hi Hj Hi' Hj' E E'.
    apply (conn_trans g k _ _ _ (ToCtr k i j Hi Hj E)). apply conn_sym. apply ToCtr; auto.
Qed.

(* C10, tiling part: for every size and every valid draw the generator's solved grid is an exact tiling *)
Theorem random_generator_exact_tiling nrb ncb cd rd rots perm :
  1 <= nrb -> 1 <= ncb -> valid_draw nrb ncb cd rd rots perm = true ->
  tiling_ok_b nrb ncb (solved_grid nrb ncb cd rd) = true /\ ExactTiling nrb ncb (solved_grid nrb ncb cd rd).
Proof.
  intros HR HC V. unfold valid_draw in V. repeat (apply andb_true_iff in V as [V ?]).
  assert (T : tiling_ok_b nrb ncb (solved_grid nrb ncb cd rd) = true) by (apply solved_grid_tiling_ok; lia).
  split; [exact T|]. apply tiling_ok_b_sound; auto.
Qed.
