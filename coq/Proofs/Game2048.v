(* Game2048, step level.  Inv = "n x n board of non-negative exponents whose stored mask is the set of legal
   directions"; it holds after reset and is preserved by EVERY action (legal or not).  Under Inv:
   C09 Impl.step = Rules.step;  C04 mask <-> legal <-> the move changes the board;  C05 illegal moves are ignored;
   C07 tile sum + exactly one new tile iff legal;  C08 return = score = potential of the final board minus the
   potential brought in by spawned tiles;  C10 reset board;  C03 protocol;  C01 shapes/bounds;  C12 observation. *)
Require Import JV.Base.Prelude JV.Base.JaxIndex JV.Base.Codec JV.Base.TimeStep JV.Model.Game2048
  JV.Proofs.Game2048_Row JV.Proofs.Game2048_Board.

Definition Inv (n : Z) (s : state) : Prop :=
  wf n (board s) /\ nonneg (board s) /\ amask s = rules_mask n (board s).

(* ---------- the boolean checkers run by the harness decide the declarative predicates ---------- *)
Lemma wf_b_spec n b : wf_b n b = true <-> wf n b.
Proof.
  unfold wf_b, wf. rewrite andb_true_iff, Nat.eqb_eq, forallb_forall, Forall_forall.
  split; intros [H1 H2]; split; auto; intros r Hr; apply Nat.eqb_eq; auto.
Qed.
Lemma nonneg_b_spec b : nonneg_b b = true <-> nonneg b.
Proof.
  unfold nonneg_b, nonneg. rewrite forallb_forall, Forall_forall. split; intros H r Hr.
  - apply Forall_forall. intros e He. specialize (H r Hr). rewrite forallb_forall in H. specialize (H e He). lia.
  - apply forallb_forall. intros e He. specialize (H r Hr). rewrite Forall_forall in H. specialize (H e He). lia.
Qed.
Lemma board_eqb_eq a b : board_eqb a b = true <-> a = b.
Proof. unfold board_eqb. apply list_eqb_eq. apply row_eqb_eq. Qed.
Lemma mask_eqb_eq (a b : list bool) : list_eqb Bool.eqb a b = true <-> a = b.
Proof. apply list_eqb_eq. intros x y. destruct x, y; cbn; split; congruence. Qed.

Lemma jget_mask n b a : 0 <= a < 4 -> jget false (rules_mask n b) a = legal_b n b a.
Proof.
  intro H. assert (C : a = 0 \/ a = 1 \/ a = 2 \/ a = 3) by lia.
  destruct C as [->|[->|[->| ->]]]; reflexivity.
Qed.

Lemma valid_draw_spec n mb idx v : valid_draw n mb idx v = true ->
  0 <= idx < n * n /\ gat 0 mb (idx / n) (idx mod n) = 0 /\ (v = 1 \/ v = 2).
Proof.
  unfold valid_draw. intro H.
  apply andb_true_iff in H as [H D]. apply andb_true_iff in H as [H C]. apply andb_true_iff in H as [A B].
  apply orb_true_iff in D. repeat split; lia.
Qed.

(* ---------- C09: the implementation's step is the rules' step ---------- *)
Lemma step_legal n s a idx v : Inv n s -> 0 <= a < 4 -> legal_b n (board s) a = true -> 0 <= v ->
  step n s a idx v = Some (rules_step n s a idx v).
Proof.
  intros (Hw & Hn & Hm) Ha L Hv. unfold step, rules_step. cbv zeta.
  rewrite move_spec, Hm, jget_mask, L by auto.
  rewrite action_mask_spec by (unfold add_cell; apply gset_nonneg; [apply nonneg_spec_move|]; auto).
  reflexivity.
Qed.

Lemma step_illegal n s a idx v : Inv n s -> 0 <= a < 4 -> legal_b n (board s) a = false ->
  step n s a idx v = Some (mkS (board s) (amask s) (score s) (step_count s + 1),
                           cond_done 1 (negb (existsb id (amask s))) [0])
  /\ step n s a idx v = Some (rules_step n s a idx v).
Proof.
  intros (Hw & Hn & Hm) Ha L. unfold step, rules_step. cbv zeta.
  rewrite move_spec, Hm, jget_mask, L by auto.
  assert (E : spec_move n (board s) a = board s) by (apply illegal_iff_fixed; auto).
  rewrite E, action_mask_spec, illegal_no_reward, Z.add_0_r by auto. split; reflexivity.
Qed.

Theorem step_rules n s a idx v : Inv n s -> 0 <= a < 4 -> (legal_b n (board s) a = true -> 0 <= v) ->
  step n s a idx v = Some (rules_step n s a idx v).
Proof.
  intros HI Ha Hv. destruct (legal_b n (board s) a) eqn:L.
  - apply step_legal; auto.
  - apply step_illegal; auto.
Qed.

Theorem init_rules n idx v : 0 <= v -> init n idx v = Some (rules_init n idx v).
Proof.
  intro Hv. unfold init, rules_init. cbv zeta.
  rewrite action_mask_spec by (unfold add_cell; apply gset_nonneg; [apply zeros_nonneg|auto]). reflexivity.
Qed.

(* ---------- Inv: established by reset, preserved by every action ---------- *)
Theorem init_Inv n idx v s t : 0 <= v -> init n idx v = Some (s, t) -> Inv n s.
Proof.
  intros Hv E. rewrite init_rules in E by auto. inversion E; subst. unfold rules_init, Inv; cbn [board amask fst].
  repeat split.
  - unfold add_cell. apply gset_wf, zeros_wf.
  - unfold add_cell. apply gset_wf, zeros_wf.
  - unfold add_cell. apply gset_nonneg; [apply zeros_nonneg|auto].
Qed.

Theorem step_Inv n s a idx v s' t : Inv n s -> 0 <= a < 4 -> (legal_b n (board s) a = true -> 0 <= v) ->
  step n s a idx v = Some (s', t) -> Inv n s'.
Proof.
  intros HI Ha Hv E. rewrite step_rules in E by auto. inversion E; subst.
  destruct HI as (Hw & Hn & Hm). unfold rules_step, Inv; cbn [board amask].
  destruct (legal_b n (board s) a) eqn:L.
  - split; [|split; [|reflexivity]]; unfold add_cell.
    + apply gset_wf, wf_spec_move.
    + apply gset_nonneg; [apply nonneg_spec_move|]; auto.
  - split; [|split; [|reflexivity]]; auto.
Qed.

(* ---------- C04 ---------- *)
Theorem mask_iff_legal n s a : Inv n s -> 0 <= a < 4 -> (jget false (amask s) a = true <-> legal n (board s) a).
Proof. intros (Hw & Hn & Hm) Ha. rewrite Hm, jget_mask by auto. apply legal_b_spec. Qed.

Theorem mask_iff_moves n s a : Inv n s -> 0 <= a < 4 ->
  (jget false (amask s) a = true <-> exists mb r, move n (board s) a = Some (mb, r) /\ mb <> board s).
Proof.
  intros (Hw & Hn & Hm) Ha. rewrite Hm, jget_mask by auto. split.
  - intro L. exists (spec_move n (board s) a), (spec_reward n (board s) a). split; [apply move_spec|].
    intro C. assert (F : legal_b n (board s) a = false) by (apply illegal_iff_fixed; auto). congruence.
  - intros (mb & r & E & N). rewrite move_spec in E. inversion E; subst.
    destruct (legal_b n (board s) a) eqn:L; auto. exfalso. apply N. apply illegal_iff_fixed; auto.
Qed.

(* ---------- C05: an illegal action is ignored ---------- *)
Theorem illegal_ignored n s a idx v : Inv n s -> 0 <= a < 4 -> jget false (amask s) a = false ->
  step n s a idx v = Some (mkS (board s) (amask s) (score s) (step_count s + 1),
                           cond_done 1 (negb (existsb id (amask s))) [0]).
Proof.
  intros HI Ha M. apply step_illegal; auto.
  destruct HI as (Hw & Hn & Hm). rewrite Hm, jget_mask in M by auto. exact M.
Qed.

Corollary illegal_continues n s a idx v : Inv n s -> 0 <= a < 4 -> jget false (amask s) a = false ->
  existsb id (amask s) = true ->
  exists s' t, step n s a idx v = Some (s', t) /\ st t = MID /\ reward t = [0] /\ board s' = board s
               /\ amask s' = amask s /\ score s' = score s.
Proof.
  intros HI Ha M Ex. rewrite illegal_ignored by auto. rewrite Ex. do 2 eexists. split; [reflexivity|].
  repeat split; reflexivity.
Qed.

(* ---------- C03 ---------- *)
Theorem step_total_protocol n s a idx v :
  exists s' t, step n s a idx v = Some (s', t) /\ step_ok 1 false t = true /\ length (amask s') = 4%nat
               /\ step_count s' = step_count s + 1.
Proof.
  unfold step. rewrite move_spec.
  destruct (action_mask_total n (if jget false (amask s) a then add_cell n (spec_move n (board s) a) idx v else spec_move n (board s) a))
    as (m & -> & Hl).
  do 2 eexists. split; [reflexivity|]. cbn [amask step_count]. repeat split; auto.
  destruct (negb (existsb id m)); reflexivity.
Qed.

Theorem init_total_protocol n idx v :
  exists s t, init n idx v = Some (s, t) /\ first_ok 1 t = true /\ score s = 0 /\ step_count s = 0
              /\ length (amask s) = 4%nat.
Proof.
  unfold init. destruct (action_mask_total n (add_cell n (zeros_board n) idx v)) as (m & -> & Hl).
  do 2 eexists. split; [reflexivity|]. repeat split; auto.
Qed.

Lemma existsb_rules_mask n b :
  existsb id (rules_mask n b) = false <-> (forall a, 0 <= a < 4 -> ~ legal n b a).
Proof.
  unfold rules_mask. cbn [map existsb id]. split.
  - intros H a Ha L. apply legal_b_spec in L.
    assert (C : a = 0 \/ a = 1 \/ a = 2 \/ a = 3) by lia.
    destruct C as [->|[->|[->| ->]]]; rewrite L in H; cbn in H; try discriminate;
      repeat (rewrite ?orb_true_r, ?orb_true_l in H); discriminate.
  - intro H.
    assert (F : forall a, 0 <= a < 4 -> legal_b n b a = false).
    { intros a Ha. destruct (legal_b n b a) eqn:L; auto. apply legal_b_spec in L. exfalso. apply (H a); auto. }
    rewrite (F 0), (F 1), (F 2), (F 3) by lia. reflexivity.
Qed.

(* the episode ends exactly when the new board has no legal direction *)
Theorem last_iff_stuck n s a idx v s' t : Inv n s -> 0 <= a < 4 -> (legal_b n (board s) a = true -> 0 <= v) ->
  step n s a idx v = Some (s', t) ->
  (st t = LAST <-> forall a', 0 <= a' < 4 -> ~ legal n (board s') a').
Proof.
  intros HI Ha Hv E. rewrite step_rules in E by auto. unfold rules_step in E. cbv zeta in E.
  injection E as Es Et. subst s' t. cbn [board].
  set (b' := if legal_b n (board s) a then add_cell n (spec_move n (board s) a) idx v else board s).
  rewrite <- existsb_rules_mask.
  change (st (cond_done 1 (negb (existsb id (rules_mask n b'))) [if legal_b n (board s) a then spec_reward n (board s) a else 0]) = LAST
          <-> existsb id (rules_mask n b') = false).
  destruct (existsb id (rules_mask n b')); unfold cond_done, termination, transition, MID, LAST; cbn [negb st];
    split; intro H; try reflexivity; discriminate.
Qed.

(* ---------- C07 / C08 per step ---------- *)
Lemma w_draw v : v = 1 \/ v = 2 -> w v = 2 ^ v.
Proof. intros [->| ->]; reflexivity. Qed.

Theorem step_physical n s a idx v s' t :
  0 < n -> Inv n s -> 0 <= a < 4 ->
  (jget false (amask s) a = true -> valid_draw n (spec_move n (board s) a) idx v = true) ->
  step n s a idx v = Some (s', t) ->
  let lg := jget false (amask s) a in
  Inv n s'
  /\ total (spec_move n (board s) a) = total (board s)
  /\ total (board s') = total (board s) + (if lg then 2 ^ v else 0)
  /\ count_tiles (board s') = count_tiles (spec_move n (board s) a) + (if lg then 1 else 0)
  /\ (lg = true -> (v = 1 \/ v = 2) /\ board s' = add_cell n (spec_move n (board s) a) idx v
                  /\ gat 0 (spec_move n (board s) a) (idx / n) (idx mod n) = 0)
  /\ (lg = false -> board s' = board s)
  /\ exists r, reward t = [r] /\ 0 <= r /\ r = (if lg then spec_reward n (board s) a else 0)
               /\ score s' = score s + r
               /\ phi_total (board s') = phi_total (board s) + r + (if lg then phi v else 0).
Proof.
  intros Hpos HI Ha Hd E lg.
  assert (Hlg : lg = legal_b n (board s) a).
  { subst lg. destruct HI as (_ & _ & Hm). rewrite Hm, jget_mask by auto. reflexivity. }
  assert (Hv : legal_b n (board s) a = true -> 0 <= v).
  { intro L. rewrite <- Hlg in L. apply Hd, valid_draw_spec in L. lia. }
  split; [eapply step_Inv; eauto|].
  rewrite step_rules in E by auto. inversion E; subst s' t. clear E.
  destruct HI as (Hw & Hn & Hm). unfold rules_step. cbn [board score reward].
  rewrite <- Hlg. fold lg in Hd.
  split; [apply total_spec_move; auto|].
  destruct lg eqn:L.
  - destruct (valid_draw_spec _ _ _ _ (Hd eq_refl)) as (Hi & Hz & Hv12).
    rewrite !total_gtotal, !phi_total_gtotal, !count_tiles_gtotal.
    rewrite !gtotal_add_cell by (auto; apply wf_spec_move). rewrite Hz.
    rewrite <- !total_gtotal, <- !phi_total_gtotal.
    pose proof (total_spec_move n (board s) a Hw Hn) as Et.
    pose proof (phi_spec_move n (board s) a Hw Hn) as Ep.
    pose proof (spec_reward_nonneg n (board s) a) as Er.
    change (w 0) with 0. change (phi 0) with 0. change (b2z (nz 0)) with 0.
    replace (b2z (nz v)) with 1 by (destruct Hv12; subst; reflexivity).
    rewrite w_draw by auto.
    split; [lia|]. split; [lia|]. split; [intros _; auto|]. split; [discriminate|].
    exists (spec_reward n (board s) a). split; [unfold cond_done; destruct (negb _); reflexivity|].
    repeat split; lia.
  - assert (Efix : spec_move n (board s) a = board s) by (apply illegal_iff_fixed; auto).
    rewrite Efix.
    repeat split; auto; try lia; try discriminate.
    exists 0. repeat split; try lia. destruct (negb _); reflexivity.
Qed.

(* ---------- exactly one cell is written by _add_random_cell ---------- *)
Lemma nth_upd {A} i j (v d : A) l : (i < length l)%nat -> nth j (upd i v l) d = if Nat.eqb i j then v else nth j l d.
Proof.
  intro H. destruct (Nat.eqb i j) eqn:E.
  - apply Nat.eqb_eq in E. subst j. apply nth_upd_same; auto.
  - apply Nat.eqb_neq in E. apply nth_upd_other; auto.
Qed.

Theorem gat_add_cell n b idx v i j : 0 < n -> wf n b -> 0 <= idx < n * n -> 0 <= i < n -> 0 <= j < n ->
  gat 0 (add_cell n b idx v) i j = if (i =? idx / n) && (j =? idx mod n) then v else gat 0 b i j.
Proof.
  intros Hn Hw Hi Hi' Hj. destruct (draw_range n idx Hn Hi) as [Hr Hc].
  rewrite add_cell_eq by auto. unfold gat. rewrite !znth_nth by lia.
  pose proof (wf_row n b (idx / n) Hw Hr) as Hrow. rewrite znth_nth in Hrow by lia.
  rewrite nth_upd by (destruct Hw as [Hl _]; lia).
  destruct (Nat.eqb (Z.to_nat (idx / n)) (Z.to_nat i)) eqn:E1.
  - apply Nat.eqb_eq in E1. replace (i =? idx / n) with true by lia. rewrite <- E1.
    rewrite nth_upd by lia.
    destruct (Nat.eqb (Z.to_nat (idx mod n)) (Z.to_nat j)) eqn:E2.
    + apply Nat.eqb_eq in E2. replace (j =? idx mod n) with true by lia. reflexivity.
    + apply Nat.eqb_neq in E2. replace (j =? idx mod n) with false by lia. reflexivity.
  - apply Nat.eqb_neq in E1. replace (i =? idx / n) with false by lia. reflexivity.
Qed.

(* ---------- C10: the reset board ---------- *)
Lemma gat_zeros n i j : gat 0 (zeros_board n) i j = 0.
Proof.
  unfold gat. apply (znth_Forall (fun e => e = 0)); [|reflexivity].
  apply (znth_Forall (Forall (fun e => e = 0))); [|constructor].
  unfold zeros_board. apply Forall_forall. intros r Hr. apply repeat_spec in Hr. subst.
  apply Forall_forall. intros e He. apply repeat_spec in He. exact He.
Qed.

Theorem init_one_tile n idx v : 0 < n -> valid_draw n (zeros_board n) idx v = true ->
  exists s t, init n idx v = Some (s, t) /\ Inv n s /\ first_ok 1 t = true
    /\ board s = add_cell n (zeros_board n) idx v
    /\ count_tiles (board s) = 1 /\ (v = 1 \/ v = 2) /\ total (board s) = 2 ^ v /\ phi_total (board s) = phi v
    /\ score s = 0 /\ step_count s = 0
    /\ (forall i j, 0 <= i < n -> 0 <= j < n ->
          gat 0 (board s) i j = if (i =? idx / n) && (j =? idx mod n) then v else 0).
Proof.
  intros Hn Hd. destruct (valid_draw_spec _ _ _ _ Hd) as (Hi & Hz & Hv).
  destruct (init_total_protocol n idx v) as (s & t & E & F & S0 & C0 & _).
  exists s, t. split; auto. split; [eapply init_Inv; eauto; lia|]. split; auto.
  rewrite init_rules in E by lia. injection E as Es Et. subst s. unfold rules_init. cbn [board score step_count].
  split; [reflexivity|].
  rewrite count_tiles_gtotal, total_gtotal, phi_total_gtotal.
  rewrite !gtotal_add_cell by (auto; apply zeros_wf). rewrite gat_zeros, !gtotal_zeros by reflexivity.
  change (w 0) with 0. change (phi 0) with 0. change (b2z (nz 0)) with 0.
  replace (b2z (nz v)) with 1 by (destruct Hv; subst; reflexivity). rewrite w_draw by auto.
  repeat split; auto; try lia.
  intros i j Hi' Hj. rewrite gat_add_cell by (auto; apply zeros_wf). rewrite gat_zeros. reflexivity.
Qed.

Lemma valid_draw_exists n : 0 < n -> valid_draw n (zeros_board n) 0 1 = true.
Proof.
  intro Hn. unfold valid_draw. rewrite gat_zeros. assert (0 < n * n) by nia.
  replace (0 <? n * n) with true by lia. reflexivity.
Qed.

(* ---------- C08: telescoping over whole episodes ---------- *)
(* run: final state, return (sum of rewards), potential brought in by the spawned tiles *)
Fixpoint run (n : Z) (s : state) (tr : list (Z * Z * Z)) : option (state * Z * Z) :=
  match tr with
  | [] => Some (s, 0, 0)
  | (a, idx, v) :: tr' =>
      match step n s a idx v with
      | None => None
      | Some (s', t) =>
          match run n s' tr' with
          | None => None
          | Some (sf, ret, sp) =>
              Some (sf, zsum (reward t) + ret, (if jget false (amask s) a then phi v else 0) + sp)
          end
      end
  end.

(* in-spec actions, and the draw is an empty cell of the moved board with exponent 1 or 2 whenever a tile is spawned *)
Fixpoint valid_trace (n : Z) (s : state) (tr : list (Z * Z * Z)) : Prop :=
  match tr with
  | [] => True
  | (a, idx, v) :: tr' =>
      0 <= a < 4
      /\ (jget false (amask s) a = true -> valid_draw n (spec_move n (board s) a) idx v = true)
      /\ forall s' t, step n s a idx v = Some (s', t) -> valid_trace n s' tr'
  end.

Theorem run_telescopes n : 0 < n -> forall tr s sf ret sp, Inv n s -> valid_trace n s tr ->
  run n s tr = Some (sf, ret, sp) ->
  Inv n sf /\ score sf = score s + ret /\ phi_total (board sf) = phi_total (board s) + ret + sp
  /\ step_count sf = step_count s + zlen tr /\ 0 <= ret.
Proof.
  intro Hn. induction tr as [|[[a idx] v] tr IH]; intros s sf ret sp HI HV E; cbn [run] in E.
  - injection E as <- <- <-. change (zlen (@nil (Z * Z * Z))) with 0. split; [exact HI|]. repeat split; lia.
  - destruct HV as (Ha & Hd & HV).
    destruct (step n s a idx v) as [[s' t]|] eqn:Es; [|discriminate].
    destruct (run n s' tr) as [[[sf' ret'] sp']|] eqn:Er; [|discriminate].
    injection E as <- <- <-.
    destruct (step_physical n s a idx v s' t Hn HI Ha Hd Es) as (HI' & _ & _ & _ & _ & _ & r & Rr & Rp & _ & Rs & Rphi).
    destruct (step_total_protocol n s a idx v) as (s2 & t2 & Es2 & _ & _ & Hc). rewrite Es in Es2. injection Es2 as <- <-.
    destruct (IH s' sf' ret' sp' HI' (HV s' t eq_refl) Er) as (HIf & Sf & Pf & Cf & Rf).
    rewrite Rr. cbn [zsum]. rewrite zlen_cons. split; [exact HIf|]. repeat split; lia.
Qed.

(* the return of an episode = final score = potential of the final board - potential of every spawned tile
   (a spawned 2 brings phi 1 = 0, a spawned 4 brings phi 2 = 4: their merges were never paid for) *)
Theorem episode_return n idx0 v0 tr s0 t0 sf ret sp : 0 < n ->
  valid_draw n (zeros_board n) idx0 v0 = true -> init n idx0 v0 = Some (s0, t0) -> valid_trace n s0 tr ->
  run n s0 tr = Some (sf, ret, sp) ->
  ret = score sf /\ ret = phi_total (board sf) - phi v0 - sp /\ step_count sf = zlen tr.
Proof.
  intros Hn Hd Ei HV Er.
  destruct (init_one_tile n idx0 v0 Hn Hd) as (s & t & E & HI & _ & _ & _ & _ & _ & Hphi & Hs & Hc & _).
  rewrite Ei in E. injection E as <- <-.
  destruct (run_telescopes n Hn tr s0 sf ret sp HI HV Er) as (_ & Sf & Pf & Cf & _).
  repeat split; lia.
Qed.

(* ---------- C12 / C01 ---------- *)
Theorem observe_faithful n s : Inv n s ->
  observe s = (board s, amask s) /\ snd (observe s) = rules_mask n (fst (observe s))
  /\ (forall a, 0 <= a < 4 -> (jget false (snd (observe s)) a = true <-> legal n (fst (observe s)) a)).
Proof.
  intro HI. split; [reflexivity|]. split; [apply HI|].
  intros a Ha. apply (mask_iff_legal n s a HI Ha).
Qed.

Theorem emitted_conforms n s a idx v s' t : Inv n s -> 0 <= a < 4 -> (legal_b n (board s) a = true -> 0 <= v) ->
  step n s a idx v = Some (s', t) ->
  wf n (fst (observe s')) /\ nonneg (fst (observe s')) /\ length (snd (observe s')) = 4%nat
  /\ step_ok 1 false t = true /\ (exists r, reward t = [r] /\ 0 <= r)
  /\ (discount t = [0] \/ discount t = [1]).
Proof.
  intros HI Ha Hv E. pose proof (step_Inv n s a idx v s' t HI Ha Hv E) as (Hw & Hn & Hm).
  destruct (step_total_protocol n s a idx v) as (s2 & t2 & E2 & Hok & Hl & _). rewrite E in E2. injection E2 as <- <-.
  assert (Ht : exists d r, t = cond_done 1 d [r] /\ 0 <= r).
  { rewrite step_rules in E by auto. unfold rules_step in E. cbv zeta in E. injection E as _ Et.
    eexists _, _. split; [symmetry; exact Et|].
    destruct (legal_b n (board s) a); [apply spec_reward_nonneg|lia]. }
  destruct Ht as (d & r & -> & Hr).
  cbn [observe fst snd]. split; [auto|]. split; [auto|]. split; [auto|]. split; [auto|]. split.
  - exists r. split; [destruct d; reflexivity|auto].
  - destruct d; [left|right]; reflexivity.
Qed.

Theorem reset_conforms n idx v s t : 0 <= v -> init n idx v = Some (s, t) ->
  wf n (fst (observe s)) /\ nonneg (fst (observe s)) /\ length (snd (observe s)) = 4%nat /\ first_ok 1 t = true.
Proof.
  intros Hv E. pose proof (init_Inv n idx v s t Hv E) as (Hw & Hn & Hm).
  destruct (init_total_protocol n idx v) as (s2 & t2 & E2 & Hok & _ & _ & Hl). rewrite E in E2. injection E2 as <- <-.
  cbn [observe fst snd]. split; [auto|]. split; [auto|]. split; auto.
Qed.

(* ---------- concrete instances (non-vacuity) ---------- *)
Definition ex_board : list (list Z) := [[1;1;2;2];[0;1;0;1];[3;0;0;0];[0;0;0;0]].
Definition ex_state : state := mkS ex_board (rules_mask 4 ex_board) 0 0.
Example ex_Inv : Inv 4 ex_state.
Proof.
  unfold Inv. split; [apply wf_b_spec; reflexivity|]. split; [apply nonneg_b_spec; reflexivity|reflexivity].
Qed.
Example ex_facts :
  amask ex_state = [true; true; true; true]
  /\ spec_move 4 ex_board 3 = [[2;3;0;0];[2;0;0;0];[3;0;0;0];[0;0;0;0]]
  /\ spec_reward 4 ex_board 3 = 16
  /\ valid_draw 4 (spec_move 4 ex_board 3) 15 2 = true
  /\ (exists s' t, step 4 ex_state 3 15 2 = Some (s', t) /\ st t = MID /\ reward t = [16]
                   /\ board s' = [[2;3;0;0];[2;0;0;0];[3;0;0;0];[0;0;0;2]] /\ score s' = 16).
Proof. vm_compute. repeat split; try reflexivity. do 2 eexists. repeat split; reflexivity. Qed.
Definition ex_stuck : state := mkS [[1;2];[2;1]] (rules_mask 2 [[1;2];[2;1]]) 8 9.
Example ex_stuck_facts :
  Inv 2 ex_stuck /\ amask ex_stuck = [false; false; false; false]
  /\ step 2 ex_stuck 1 0 1 = Some (mkS [[1;2];[2;1]] [false; false; false; false] 8 10, termination 1 [0]).
Proof.
  split; [|split; vm_compute; reflexivity].
  unfold Inv. split; [apply wf_b_spec; reflexivity|]. split; [apply nonneg_b_spec; reflexivity|reflexivity].
Qed.
Example ex_episode :
  let s0 := mkS [[0;1];[0;0]] (rules_mask 2 [[0;1];[0;0]]) 0 0 in
  let tr := [(3, 1, 1); (3, 3, 2); (0, 2, 1)] in
  valid_draw 2 (spec_move 2 [[0;1];[0;0]] 3) 1 1 = true
  /\ run 2 s0 tr = Some (mkS [[2;2];[1;0]] [false; true; true; true] 4 3, 4, 4)
  /\ phi_total [[2;2];[1;0]] = phi_total [[0;1];[0;0]] + 4 + 4.
Proof. vm_compute. repeat split; reflexivity. Qed.

(* ---------- the verified transition checker run on implementation transitions ---------- *)
Theorem trans_ok_b_sound n b a b' : trans_ok_b n b a b' = true ->
  if legal_b n b a
  then wf n b' /\ exists i y, diffs 0 (concat (spec_move n b a)) (concat b') = [(i, 0, y)]
                              /\ (y = 1 \/ y = 2) /\ total b' = total b + 2 ^ y
  else b' = b.
Proof.
  unfold trans_ok_b. destruct (legal_b n b a).
  - destruct (diffs 0 (concat (spec_move n b a)) (concat b')) as [|[[i x] y] [|? ?]]; try discriminate.
    intro H. apply andb_true_iff in H as [H T]. apply andb_true_iff in H as [H Y]. apply andb_true_iff in H as [W X].
    apply wf_b_spec in W. split; auto. exists i, y. assert (x = 0) by lia. subst x. repeat split; lia.
  - apply board_eqb_eq.
Qed.

(* ---------- a legal move always leaves an empty cell: _add_random_cell is never called on a full board ---------- *)
Lemma goF_zeros_stay : forall l x k, In 0 (goF x (S k) l).
Proof.
  induction l as [|y l IH]; intros x k; cbn [goF].
  - right. left. reflexivity.
  - destruct (y =? 0); [apply IH|]. destruct (x =? 0); [apply IH|].
    destruct (x =? y); right; apply IH.
Qed.
Lemma goF_zero_target : forall l k, In 0 (goF 0 k l).
Proof.
  induction l as [|y l IH]; intro k; cbn [goF].
  - left. reflexivity.
  - destruct (y =? 0); [apply IH|]. cbn [Z.eqb]. apply goF_zeros_stay.
Qed.
Lemma cango_leaves_zero : forall l x k, cango x k l = true -> In 0 (goF x k l).
Proof.
  induction l as [|y l IH]; intros x k H; cbn [cango goF] in *; [discriminate|].
  destruct (y =? 0); [apply IH; auto|].
  destruct (x =? 0); [apply goF_zeros_stay|].
  destruct (x =? y); [right; apply goF_zero_target|].
  destruct k; [right; apply IH; auto|right; apply goF_zeros_stay].
Qed.

Lemma moved_row_has_zero r : Forall (fun e => 0 <= e) r -> slide r <> r -> In 0 (slide r).
Proof.
  intros Hr N. destruct r as [|x l]; [contradiction|].
  pose proof (can_move_left_row_spec (x :: l) Hr) as E. rewrite can_move_left_row_cango in E.
  injection E as E. rewrite slide_goF in *. apply cango_leaves_zero. rewrite E.
  destruct (row_eqb (goF x 0 l) (x :: l)) eqn:R; [apply row_eqb_eq in R; contradiction|reflexivity].
Qed.

Theorem legal_move_leaves_empty_cell n b a : 0 < n -> wf n b -> nonneg b -> legal_b n b a = true ->
  exists idx, valid_draw n (spec_move n b a) idx 1 = true.
Proof.
  intros Hn Hw Hnn L. apply legal_b_spec in L. destruct L as (k & Hk & N).
  pose proof (moved_row_has_zero _ (line_nonneg n b a k Hnn) N) as Z0.
  apply (In_nth _ _ 0) in Z0. destruct Z0 as (pn & Hp & Ep).
  rewrite slide_length in Hp. unfold line in Hp. rewrite map_length, zrange_length in Hp.
  set (p := Z.of_nat pn). assert (Hp' : 0 <= p < n) by lia.
  destruct (coords_range n a k p Hk Hp') as [R1 R2].
  set (i := fst (coords n a k p)) in *. set (j := snd (coords n a k p)) in *.
  assert (G : gat 0 (spec_move n b a) i j = 0).
  { unfold spec_move. rewrite gat_transform by auto. subst i j. rewrite coords_invol. cbn [fst snd].
    unfold gat, transform. rewrite map_map. rewrite znth_map_zrange by lia.
    rewrite znth_nth by lia. subst p. rewrite Nat2Z.id. exact Ep. }
  exists (i * n + j). unfold valid_draw.
  assert (D : (i * n + j) / n = i) by (rewrite Z.div_add_l by lia; rewrite Z.div_small by lia; lia).
  assert (M : (i * n + j) mod n = j) by (rewrite Z.add_comm, Z.mod_add by lia; apply Z.mod_small; lia).
  rewrite D, M, G.
  assert (0 <= i * n + j < n * n) by nia.
  replace (0 <=? i * n + j) with true by lia. replace (i * n + j <? n * n) with true by lia. reflexivity.
Qed.
