(* Game2048, board level: move = spec_move (all sizes), can_move = legal_b, transform_board is an involution,
   "legal <-> the move changes the board", sums over the board are invariant under transform_board,
   the effect of _add_random_cell on sums.                                                                   *)
Require Import JV.Base.Prelude JV.Base.JaxIndex JV.Base.Codec JV.Base.TimeStep JV.Model.Game2048 JV.Proofs.Game2048_Row.

(* ---------- generic list facts ---------- *)
Lemma omap_total {A B} (f : A -> option B) (g : A -> B) l :
  (forall x, In x l -> f x = Some (g x)) -> omap f l = Some (map g l).
Proof.
  induction l as [|x l IH]; intro H; cbn [omap map]; [reflexivity|].
  rewrite H by (left; reflexivity). rewrite IH by (intros; apply H; right; auto). reflexivity.
Qed.

Lemma existsb_map {A B} (f : B -> bool) (g : A -> B) l : existsb f (map g l) = existsb (fun x => f (g x)) l.
Proof. induction l as [|x l IH]; cbn [map existsb]; [reflexivity|]. rewrite IH. reflexivity. Qed.

Lemma existsb_false_forall {A} (f : A -> bool) l : existsb f l = false <-> (forall x, In x l -> f x = false).
Proof.
  induction l as [|x l IH]; cbn [existsb In]; split; intro H; auto.
  - contradiction.
  - apply orb_false_iff in H as [H1 H2]. intros y [->|Hy]; auto. apply IH; auto.
  - apply orb_false_iff; split; [apply H; auto|]. apply IH. intros; apply H; auto.
Qed.

Lemma zsum_map_zero {A} (f : A -> Z) l : (forall x, In x l -> f x = 0) -> zsum (map f l) = 0.
Proof.
  induction l as [|x l IH]; intro H; cbn [map zsum]; [reflexivity|].
  rewrite H by (left; reflexivity). rewrite IH by (intros; apply H; right; auto). reflexivity.
Qed.

Lemma zrange_length n : length (zrange n) = Z.to_nat n.
Proof. unfold zrange. apply zrange_from_length. Qed.

Lemma znth_nth {A} (d : A) l i : 0 <= i -> znth d l i = nth (Z.to_nat i) l d.
Proof. intro H. unfold znth. destruct (i <? 0) eqn:E; [lia|reflexivity]. Qed.

Lemma znth_map_zrange {A} (d : A) (f : Z -> A) n i : 0 <= i < n -> znth d (map f (zrange n)) i = f i.
Proof.
  intro H. rewrite znth_nth by lia.
  rewrite (nth_indep _ d (f 0)) by (rewrite map_length, zrange_length; lia).
  rewrite map_nth. unfold zrange. rewrite zrange_from_nth by lia. f_equal. lia.
Qed.

Lemma map_znth_zrange {A} (d : A) l n : length l = Z.to_nat n -> map (fun k => znth d l k) (zrange n) = l.
Proof.
  intro H. apply (nth_ext _ _ (znth d l 0) d).
  - rewrite map_length, zrange_length. lia.
  - intros i Hi. rewrite map_length, zrange_length in Hi.
    rewrite (map_nth (fun k => znth d l k) (zrange n) 0 i). unfold zrange. rewrite zrange_from_nth by lia.
    rewrite znth_nth by lia. f_equal. lia.
Qed.

Lemma znth_Forall {A} (P : A -> Prop) d l i : Forall P l -> P d -> P (znth d l i).
Proof.
  intros Hl Hd. unfold znth. destruct (i <? 0); auto.
  destruct (nth_in_or_default (Z.to_nat i) l d) as [H|H]; [|rewrite H; auto].
  rewrite Forall_forall in Hl. auto.
Qed.

Lemma Forall_upd {A} (P : A -> Prop) i v l : Forall P l -> P v -> Forall P (upd i v l).
Proof.
  revert i; induction l as [|x l IH]; intros i Hl Hv; [destruct i; constructor|].
  inversion Hl; subst. destruct i; cbn [upd]; constructor; auto.
Qed.
Lemma Forall_zupd {A} (P : A -> Prop) i v l : Forall P l -> P v -> Forall P (zupd i v l).
Proof. intros. unfold zupd. destruct (i <? 0); auto using Forall_upd. Qed.

(* ---------- move / can_move = their specifications, for every board ---------- *)
Lemma move_left_spec T : move_left T = Some (map slide T, zsum (map row_reward T)).
Proof.
  unfold move_left. rewrite (omap_total _ (fun r => (slide r, row_reward r))) by (intros; apply move_left_row_spec).
  rewrite !map_map. reflexivity.
Qed.

(* C09 (board part): the real move is "slide every line of the chosen direction", reward = sum of the merged tiles *)
Theorem move_spec n b a : move n b a = Some (spec_move n b a, spec_reward n b a).
Proof.
  unfold move, spec_move, spec_reward. rewrite move_left_spec.
  replace (map row_reward (transform n b a)) with (map (fun k => row_reward (line n b a k)) (zrange n))
    by (unfold transform; rewrite map_map; reflexivity).
  reflexivity.
Qed.

Lemma gat_nonneg b i j : nonneg b -> 0 <= gat 0 b i j.
Proof.
  intro H. unfold gat. apply (znth_Forall (fun e => 0 <= e)); [|lia].
  apply (znth_Forall (Forall (fun e => 0 <= e))); auto.
Qed.

Lemma line_nonneg n b a k : nonneg b -> Forall (fun e => 0 <= e) (line n b a k).
Proof.
  intro H. unfold line. apply Forall_forall. intros e He. apply in_map_iff in He as (p & <- & _). apply gat_nonneg; auto.
Qed.

Lemma nonneg_transform n b a : nonneg b -> nonneg (transform n b a).
Proof.
  intro H. unfold nonneg, transform. apply Forall_forall. intros r Hr. apply in_map_iff in Hr as (k & <- & _).
  apply line_nonneg; auto.
Qed.

Lemma nonneg_map_slide T : nonneg T -> nonneg (map slide T).
Proof.
  unfold nonneg. intro H. apply Forall_forall. intros r Hr. apply in_map_iff in Hr as (x & <- & Hx).
  apply slide_nonneg. rewrite Forall_forall in H. auto.
Qed.

Lemma nonneg_spec_move n b a : nonneg b -> nonneg (spec_move n b a).
Proof. intro H. unfold spec_move. apply nonneg_transform, nonneg_map_slide, nonneg_transform; auto. Qed.

Theorem can_move_spec n b a : nonneg b -> can_move n b a = Some (legal_b n b a).
Proof.
  intro H. unfold can_move, can_move_left, transform.
  rewrite (omap_total _ (fun r => negb (row_eqb (slide r) r))).
  - rewrite !existsb_map. reflexivity.
  - intros r Hr. apply in_map_iff in Hr as (k & <- & _). apply can_move_left_row_spec, line_nonneg; auto.
Qed.

Theorem action_mask_spec n b : nonneg b -> action_mask n b = Some (rules_mask n b).
Proof. intro H. unfold action_mask, rules_mask. apply omap_total. intros; apply can_move_spec; auto. Qed.

(* the loops never run out of fuel, whatever the tiles are *)
Lemma can_move_left_row_total r : exists c, can_move_left_row r = Some c.
Proof. destruct r as [|x l]; [eexists; reflexivity|]. rewrite can_move_left_row_cango. eexists; reflexivity. Qed.

Lemma omap_some {A B} (f : A -> option B) l : (forall x, exists y, f x = Some y) -> exists ys, omap f l = Some ys.
Proof.
  intro H. induction l as [|x l [ys IH]]; cbn [omap]; [eexists; reflexivity|].
  destruct (H x) as [y ->]. rewrite IH. eexists; reflexivity.
Qed.

Lemma action_mask_total n b : exists m, action_mask n b = Some m /\ length m = 4%nat.
Proof.
  unfold action_mask.
  assert (T : forall a, exists c, can_move n b a = Some c).
  { intro a. unfold can_move, can_move_left.
    destruct (omap_some can_move_left_row (transform n b a) can_move_left_row_total) as [cs ->]. eexists; reflexivity. }
  cbn [omap]. destruct (T 0) as [c0 ->], (T 1) as [c1 ->], (T 2) as [c2 ->], (T 3) as [c3 ->].
  eexists; split; reflexivity.
Qed.

Lemma legal_b_spec n b a : legal_b n b a = true <-> legal n b a.
Proof.
  unfold legal_b, legal. rewrite existsb_exists. split.
  - intros (k & Hk & E). exists k. rewrite in_zrange in Hk. split; auto.
    intro C. apply row_eqb_eq in C. rewrite C in E. discriminate.
  - intros (k & Hk & E). exists k. rewrite in_zrange. split; auto.
    destruct (row_eqb (slide (line n b a k)) (line n b a k)) eqn:R; [apply row_eqb_eq in R; contradiction|reflexivity].
Qed.

(* ---------- transform_board ---------- *)
Lemma wf_transform n X a : wf n (transform n X a).
Proof.
  unfold wf, transform. rewrite map_length, zrange_length. split; auto.
  apply Forall_forall. intros r Hr. apply in_map_iff in Hr as (k & <- & _).
  unfold line. rewrite map_length, zrange_length. reflexivity.
Qed.

Lemma wf_map_slide n T : wf n T -> wf n (map slide T).
Proof.
  intros [H1 H2]. unfold wf. rewrite map_length. split; auto.
  apply Forall_forall. intros r Hr. apply in_map_iff in Hr as (x & <- & Hx).
  rewrite slide_length. rewrite Forall_forall in H2. auto.
Qed.

Lemma wf_spec_move n b a : wf n (spec_move n b a).
Proof. apply wf_transform. Qed.

Lemma gat_transform n b a i j : 0 <= i < n -> 0 <= j < n ->
  gat 0 (transform n b a) i j = gat 0 b (fst (coords n a i j)) (snd (coords n a i j)).
Proof.
  intros Hi Hj. unfold gat at 1. unfold transform. rewrite znth_map_zrange by lia.
  unfold line. rewrite znth_map_zrange by lia. reflexivity.
Qed.

Lemma coords_range n a i j : 0 <= i < n -> 0 <= j < n ->
  0 <= fst (coords n a i j) < n /\ 0 <= snd (coords n a i j) < n.
Proof. intros. unfold coords. destruct (a <=? 0), (a =? 1), (a =? 2); cbn [fst snd]; lia. Qed.

Lemma coords_invol n a i j : coords n a (fst (coords n a i j)) (snd (coords n a i j)) = (i, j).
Proof. unfold coords. destruct (a <=? 0), (a =? 1), (a =? 2); cbn [fst snd]; f_equal; lia. Qed.

Lemma wf_row n b k : wf n b -> 0 <= k < n -> length (znth [] b k) = Z.to_nat n.
Proof.
  intros [H1 H2] Hk. rewrite znth_nth by lia. rewrite Forall_forall in H2. apply H2, nth_In. lia.
Qed.

Lemma board_ext n b : wf n b -> map (fun k => map (fun p => gat 0 b k p) (zrange n)) (zrange n) = b.
Proof.
  intro H. transitivity (map (fun k => znth [] b k) (zrange n)); [|apply map_znth_zrange; apply H].
  apply map_ext_in. intros k Hk. rewrite in_zrange in Hk.
  unfold gat. apply map_znth_zrange. apply wf_row; auto.
Qed.

Theorem transform_invol n b a : wf n b -> transform n (transform n b a) a = b.
Proof.
  intro H. transitivity (map (fun k => map (fun p => gat 0 b k p) (zrange n)) (zrange n)); [|apply board_ext; auto].
  unfold transform at 1. apply map_ext_in. intros k Hk. unfold line. apply map_ext_in. intros p Hp.
  rewrite in_zrange in Hk, Hp. destruct (coords_range n a k p Hk Hp) as [R1 R2].
  rewrite gat_transform by auto. rewrite coords_invol. reflexivity.
Qed.

(* C04 by the environment's own reaction: an action is illegal exactly when the move leaves the board as it is *)
Theorem illegal_iff_fixed n b a : wf n b -> (legal_b n b a = false <-> spec_move n b a = b).
Proof.
  intro H. unfold legal_b. rewrite existsb_false_forall. split.
  - intro F. unfold spec_move.
    assert (E : map slide (transform n b a) = transform n b a).
    { unfold transform. rewrite map_map. apply map_ext_in. intros k Hk. specialize (F k Hk).
      apply negb_false_iff, row_eqb_eq in F. exact F. }
    rewrite E. apply transform_invol; auto.
  - intros E k Hk. apply negb_false_iff, row_eqb_eq.
    assert (E2 : map slide (transform n b a) = transform n b a).
    { rewrite <- (transform_invol n (map slide (transform n b a)) a) by apply wf_map_slide, wf_transform.
      unfold spec_move in E. rewrite E. reflexivity. }
    unfold transform in E2. rewrite map_map in E2. exact (ext_in_map E2 k Hk).
Qed.

Lemma illegal_no_reward n b a : nonneg b -> legal_b n b a = false -> spec_reward n b a = 0.
Proof.
  intros Hn F. unfold legal_b in F. rewrite existsb_false_forall in F. unfold spec_reward.
  apply zsum_map_zero. intros k Hk. apply slide_fixed_no_reward; [apply line_nonneg; auto|].
  specialize (F k Hk). apply negb_false_iff, row_eqb_eq in F. exact F.
Qed.

Lemma zsum_nonneg l : Forall (fun e => 0 <= e) l -> 0 <= zsum l.
Proof. induction 1; cbn [zsum]; lia. Qed.

Lemma spec_reward_nonneg n b a : 0 <= spec_reward n b a.
Proof.
  unfold spec_reward. apply zsum_nonneg, Forall_forall. intros e He. apply in_map_iff in He as (k & <- & _).
  apply row_reward_nonneg.
Qed.

(* ---------- sums over the board ---------- *)
Definition gtotal (f : Z -> Z) (b : list (list Z)) : Z := zsum (map (fun r => zsum (map f r)) b).
Definition zs (f : Z -> Z) (s : Z) (m : nat) : Z := zsum (map f (zrange_from s m)).

Lemma zs_S f s m : zs f s (S m) = f s + zs f (s + 1) m.
Proof. reflexivity. Qed.

Lemma zs_snoc f : forall m s, zs f s (S m) = zs f s m + f (s + Z.of_nat m).
Proof.
  induction m as [|m IH]; intro s.
  - unfold zs; cbn [zrange_from map zsum Z.of_nat]. replace (s + 0) with s by lia. lia.
  - rewrite zs_S, IH, (zs_S f s m). replace (s + 1 + Z.of_nat m) with (s + Z.of_nat (S m)) by lia. lia.
Qed.

Lemma zs_ext f g : forall m s, (forall i, s <= i < s + Z.of_nat m -> f i = g i) -> zs f s m = zs g s m.
Proof.
  induction m as [|m IH]; intros s H; [reflexivity|].
  rewrite !zs_S, H by lia. rewrite (IH (s + 1)); [reflexivity|]. intros; apply H; lia.
Qed.

Lemma zs_shift f : forall m s, zs f (s + 1) m = zs (fun i => f (i + 1)) s m.
Proof. induction m as [|m IH]; intro s; [reflexivity|]. rewrite !zs_S, IH. reflexivity. Qed.

Lemma zs_plus f g : forall m s, zs (fun i => f i + g i) s m = zs f s m + zs g s m.
Proof. induction m as [|m IH]; intro s; [reflexivity|]. rewrite !zs_S, IH. lia. Qed.

Lemma zs_zero : forall m s, zs (fun _ => 0) s m = 0.
Proof. induction m as [|m IH]; intro s; [reflexivity|]. rewrite zs_S, IH. reflexivity. Qed.

Lemma zs_rev f : forall m, zs (fun p => f (Z.of_nat m - 1 - p)) 0 m = zs f 0 m.
Proof.
  intro m. revert f. induction m as [|m IH]; intro f; [reflexivity|].
  rewrite zs_S, zs_shift, zs_snoc.
  rewrite (zs_ext _ (fun q => f (Z.of_nat m - 1 - q))) by (intros; f_equal; lia).
  rewrite IH. replace (Z.of_nat (S m) - 1 - 0) with (0 + Z.of_nat m) by lia. lia.
Qed.

Lemma zs_swap (g : Z -> Z -> Z) s2 m2 : forall m1 s1,
  zs (fun k => zs (fun p => g k p) s2 m2) s1 m1 = zs (fun p => zs (fun k => g k p) s1 m1) s2 m2.
Proof.
  induction m1 as [|m1 IH]; intro s1.
  - change (0 = zs (fun p => zs (fun k => g k p) s1 0) s2 m2).
    rewrite (zs_ext (fun p => zs (fun k => g k p) s1 0) (fun _ => 0)) by (intros; reflexivity).
    rewrite zs_zero. reflexivity.
  - rewrite zs_S, IH, <- zs_plus. apply zs_ext. intros; reflexivity.
Qed.

Definition S2 (n : Z) (g : Z -> Z -> Z) : Z := zs (fun k => zs (fun p => g k p) 0 (Z.to_nat n)) 0 (Z.to_nat n).

Lemma zs_rev_n f n : zs (fun p => f (n - 1 - p)) 0 (Z.to_nat n) = zs f 0 (Z.to_nat n).
Proof.
  destruct (Z_le_gt_dec 0 n) as [H|H].
  - rewrite <- (zs_rev f (Z.to_nat n)). apply zs_ext. intros; f_equal; lia.
  - replace (Z.to_nat n) with 0%nat by lia. reflexivity.
Qed.

Lemma S2_coords n a (g : Z -> Z -> Z) : S2 n (fun k p => g (fst (coords n a k p)) (snd (coords n a k p))) = S2 n g.
Proof.
  unfold S2, coords. destruct (a <=? 0); [|destruct (a =? 1); [|destruct (a =? 2)]]; cbn [fst snd].
  - apply zs_swap.
  - apply zs_ext. intros k _. apply (zs_rev_n (fun p => g k p)).
  - rewrite zs_swap.
    rewrite (zs_rev_n (fun p' => zs (fun k => g p' (n - 1 - k)) 0 (Z.to_nat n))).
    apply zs_ext. intros p _. apply (zs_rev_n (fun k => g p k)).
  - reflexivity.
Qed.

Lemma gtotal_grid f n (h : Z -> Z -> Z) :
  gtotal f (map (fun k => map (fun p => h k p) (zrange n)) (zrange n)) = S2 n (fun k p => f (h k p)).
Proof.
  unfold gtotal, S2, zs, zrange. rewrite map_map. f_equal. apply map_ext. intro k. rewrite map_map. reflexivity.
Qed.

Theorem gtotal_transform f n X a : wf n X -> gtotal f (transform n X a) = gtotal f X.
Proof.
  intro H. transitivity (gtotal f (map (fun k => map (fun p => gat 0 X k p) (zrange n)) (zrange n)));
    [|rewrite board_ext by auto; reflexivity].
  unfold transform, line. rewrite !gtotal_grid.
  apply (S2_coords n a (fun i j => f (gat 0 X i j))).
Qed.

Lemma total_gtotal b : total b = gtotal w b. Proof. reflexivity. Qed.
Lemma phi_total_gtotal b : phi_total b = gtotal phi b. Proof. reflexivity. Qed.

Lemma total_map_slide T : nonneg T -> total (map slide T) = total T.
Proof.
  unfold total. induction 1 as [|r T Hr HT IH]; cbn [map zsum]; [reflexivity|].
  rewrite slide_tile_sum by auto. lia.
Qed.
Lemma phi_map_slide T : nonneg T -> phi_total (map slide T) = phi_total T + zsum (map row_reward T).
Proof.
  unfold phi_total. induction 1 as [|r T Hr HT IH]; cbn [map zsum]; [reflexivity|].
  rewrite slide_phi_sum by auto. lia.
Qed.

(* C07: a move conserves the sum of the tile values;  C08: the potential grows by exactly the reward *)
Theorem total_spec_move n b a : wf n b -> nonneg b -> total (spec_move n b a) = total b.
Proof.
  intros Hw Hn. unfold spec_move. rewrite !total_gtotal.
  rewrite gtotal_transform by apply wf_map_slide, wf_transform.
  rewrite <- total_gtotal, total_map_slide by (apply nonneg_transform; auto).
  rewrite total_gtotal. apply gtotal_transform; auto.
Qed.
Theorem phi_spec_move n b a : wf n b -> nonneg b -> phi_total (spec_move n b a) = phi_total b + spec_reward n b a.
Proof.
  intros Hw Hn. unfold spec_move. rewrite !phi_total_gtotal.
  rewrite gtotal_transform by apply wf_map_slide, wf_transform.
  rewrite <- phi_total_gtotal, phi_map_slide by (apply nonneg_transform; auto).
  rewrite phi_total_gtotal, gtotal_transform by auto.
  unfold spec_reward, transform. rewrite map_map. reflexivity.
Qed.

(* ---------- _add_random_cell ---------- *)
Lemma zsum_map_upd {A} (f : A -> Z) d v : forall l i, (i < length l)%nat ->
  zsum (map f (upd i v l)) = zsum (map f l) - f (nth i l d) + f v.
Proof.
  induction l as [|x l IH]; intros i Hi; cbn [length] in Hi; [lia|].
  destruct i; cbn [upd map zsum nth]; [lia|]. rewrite IH by lia. lia.
Qed.

Lemma draw_range n idx : 0 < n -> 0 <= idx < n * n -> 0 <= idx / n < n /\ 0 <= idx mod n < n.
Proof.
  intros Hn Hi. split; [|apply Z.mod_pos_bound; lia].
  split; [apply Z.div_pos; lia|apply Z.div_lt_upper_bound; lia].
Qed.

Lemma gset_in_range (g : list (list Z)) r c v : 0 <= r < zlen g -> 0 <= c < zlen (znth [] g r) ->
  gset g r c v = upd (Z.to_nat r) (upd (Z.to_nat c) v (nth (Z.to_nat r) g [])) g.
Proof.
  intros Hr Hc. unfold gset, jnorm.
  replace (r <? 0) with false by lia. replace ((0 <=? r) && (r <? zlen g)) with true by lia.
  replace (c <? 0) with false by lia. replace ((0 <=? c) && (c <? zlen (znth [] g r))) with true by lia.
  unfold zupd. replace (r <? 0) with false by lia. replace (c <? 0) with false by lia.
  rewrite znth_nth by lia. reflexivity.
Qed.

Lemma wf_zlen n b : wf n b -> 0 <= n -> zlen b = n.
Proof. intros [H _] Hn. unfold zlen. lia. Qed.

Lemma add_cell_eq n b idx v : 0 < n -> wf n b -> 0 <= idx < n * n ->
  add_cell n b idx v = upd (Z.to_nat (idx / n)) (upd (Z.to_nat (idx mod n)) v (nth (Z.to_nat (idx / n)) b [])) b.
Proof.
  intros Hn Hw Hi. destruct (draw_range n idx Hn Hi) as [Hr Hc].
  unfold add_cell. apply gset_in_range.
  - rewrite (wf_zlen n b) by (auto; lia). lia.
  - unfold zlen. rewrite (wf_row n b) by auto. lia.
Qed.

Theorem gtotal_add_cell f n b idx v : 0 < n -> wf n b -> 0 <= idx < n * n ->
  gtotal f (add_cell n b idx v) = gtotal f b - f (gat 0 b (idx / n) (idx mod n)) + f v.
Proof.
  intros Hn Hw Hi. destruct (draw_range n idx Hn Hi) as [Hr Hc].
  rewrite add_cell_eq by auto. unfold gtotal.
  pose proof (wf_row n b (idx / n) Hw Hr) as Hrow. rewrite znth_nth in Hrow by lia.
  rewrite (zsum_map_upd (fun r => zsum (map f r)) []) by (destruct Hw as [Hl _]; lia).
  rewrite (zsum_map_upd f 0) by lia.
  unfold gat. rewrite !znth_nth by lia. lia.
Qed.

Lemma wf_add_cell n b idx v : 0 < n -> wf n b -> 0 <= idx < n * n -> wf n (add_cell n b idx v).
Proof.
  intros Hn Hw Hi. destruct (draw_range n idx Hn Hi) as [Hr Hc].
  rewrite add_cell_eq by auto. destruct Hw as [H1 H2]. split; [rewrite upd_length; auto|].
  apply Forall_upd; auto. rewrite upd_length.
  pose proof (wf_row n b (idx / n) (conj H1 H2) Hr) as Hrow. rewrite znth_nth in Hrow by lia. exact Hrow.
Qed.

(* without any assumption: a scatter never changes shapes *)
Lemma gset_wf n (g : list (list Z)) r c v : wf n g -> wf n (gset g r c v).
Proof.
  intros [H1 H2]. unfold gset.
  destruct ((0 <=? jnorm (zlen g) r) && (jnorm (zlen g) r <? zlen g)) eqn:E1; [|split; auto].
  destruct ((0 <=? jnorm (zlen (znth [] g (jnorm (zlen g) r))) c) && (jnorm (zlen (znth [] g (jnorm (zlen g) r))) c <? zlen (znth [] g (jnorm (zlen g) r)))) eqn:E2; [|split; auto].
  split; [rewrite zupd_length; auto|].
  apply Forall_zupd; auto. rewrite zupd_length.
  set (j := jnorm (zlen g) r) in *.
  assert (R : 0 <= j < Z.of_nat (length g)) by (unfold zlen in E1; lia).
  rewrite znth_nth by lia. rewrite Forall_forall in H2. apply H2, nth_In. lia.
Qed.

Lemma gset_nonneg (g : list (list Z)) r c v : nonneg g -> 0 <= v -> nonneg (gset g r c v).
Proof.
  intros H Hv. unfold gset.
  destruct ((0 <=? jnorm (zlen g) r) && (jnorm (zlen g) r <? zlen g)); auto.
  destruct (_ && _); auto.
  apply Forall_zupd; auto. apply Forall_zupd; auto.
  apply (znth_Forall (Forall (fun e => 0 <= e))); auto.
Qed.

Lemma zeros_wf n : wf n (zeros_board n).
Proof.
  unfold wf, zeros_board. rewrite repeat_length. split; auto.
  apply Forall_forall. intros r Hr. apply repeat_spec in Hr. subst. apply repeat_length.
Qed.
Lemma zeros_nonneg n : nonneg (zeros_board n).
Proof.
  unfold nonneg, zeros_board. apply Forall_forall. intros r Hr. apply repeat_spec in Hr. subst.
  apply Forall_forall. intros e He. apply repeat_spec in He. lia.
Qed.
Lemma gtotal_zeros f n : f 0 = 0 -> gtotal f (zeros_board n) = 0.
Proof.
  intro H. unfold gtotal, zeros_board. apply zsum_map_zero. intros r Hr. apply repeat_spec in Hr. subst.
  apply zsum_w_repeat0; auto.
Qed.

Lemma count_if_sum (p : Z -> bool) l : count_if p l = zsum (map (fun e => b2z (p e)) l).
Proof.
  unfold count_if. induction l as [|x l IH]; [reflexivity|]. cbn [filter map zsum].
  destruct (p x); cbn [b2z]; [rewrite zlen_cons|]; lia.
Qed.
Lemma count_tiles_gtotal b : count_tiles b = gtotal (fun e => b2z (nz e)) b.
Proof. unfold count_tiles, gtotal. f_equal. apply map_ext. intro r. apply count_if_sum. Qed.
