(* Game2048, row level (DESIGN Appendix A.1): for EVERY row (any length, any tile values)
   - the two-index while_loop of [move_left_row] terminates within its fuel and returns
     "compress, merge equal neighbours left to right once, pad with zeros" and the sum of the merged tiles;
   - [can_move_left_row] (same loop with early exit) returns "sliding changes the row" (rows of non-negative exponents);
   - the tile sum is conserved, the potential sum((e-1) 2^e) grows by exactly the reward.                     *)
Require Import JV.Base.Prelude JV.Base.JaxIndex JV.Base.Codec JV.Base.TimeStep JV.Model.Game2048.

(* ---------- list surgery ---------- *)
Lemma zlen_repeat {A} (x : A) k : zlen (repeat x k) = Z.of_nat k.
Proof. unfold zlen. rewrite repeat_length. reflexivity. Qed.

Lemma upd_mid {A} (P : list A) x Q v : upd (length P) v (P ++ x :: Q) = P ++ v :: Q.
Proof. induction P as [|p P IH]; cbn; [reflexivity|]. rewrite IH. reflexivity. Qed.

Lemma jget_mid {A} (d : A) P x Q i : i = zlen P -> jget d (P ++ x :: Q) i = x.
Proof.
  intros ->. rewrite jget_in_range.
  - unfold zlen. rewrite Nat2Z.id. apply nth_middle.
  - rewrite zlen_app, zlen_cons. pose proof (zlen_nonneg P). pose proof (zlen_nonneg Q). lia.
Qed.

Lemma jset_mid {A} (P : list A) x Q i v : i = zlen P -> jset (P ++ x :: Q) i v = P ++ v :: Q.
Proof.
  intros ->. rewrite jset_in_range.
  - unfold zlen. rewrite Nat2Z.id. apply upd_mid.
  - rewrite zlen_app, zlen_cons. pose proof (zlen_nonneg P). pose proof (zlen_nonneg Q). lia.
Qed.

Lemma repeat_snoc0 k (l : list Z) : repeat 0 k ++ 0 :: l = repeat 0 (S k) ++ l.
Proof.
  change (repeat 0 (S k)) with (0 :: repeat 0 k). rewrite (repeat_cons k 0).
  rewrite <- app_assoc. reflexivity.
Qed.

(* ---------- the loop, as a function of (pending target x, k zeros, untouched suffix l) ---------- *)
Fixpoint goF (x : Z) (k : nat) (l : list Z) : list Z :=
  match l with
  | [] => x :: repeat 0 k
  | y :: l' => if y =? 0 then goF x (S k) l'
               else if x =? 0 then goF y (S k) l'
               else if x =? y then (x + 1) :: goF 0 k l'
               else x :: goF y k l'
  end.
Fixpoint rwF (x : Z) (l : list Z) : Z :=
  match l with
  | [] => 0
  | y :: l' => if y =? 0 then rwF x l'
               else if x =? 0 then rwF y l'
               else if x =? y then 2 ^ (x + 1) + rwF 0 l'
               else rwF y l'
  end.
(* the early-exit loop: does some tile shift or merge? *)
Fixpoint cango (x : Z) (k : nat) (l : list Z) : bool :=
  match l with
  | [] => false
  | y :: l' => if y =? 0 then cango x (S k) l'
               else if x =? 0 then true
               else if x =? y then true
               else match k with O => cango y O l' | S _ => true end
  end.

(* carry of the shape  P ++ [x] ++ zeros k ++ l,  target index |P|, origin index |P|+1+k *)
Definition shp (P : list Z) (x : Z) (k : nat) (l : list Z) (rew : Z) : carry :=
  mkC (P ++ x :: repeat 0 k ++ l) rew (zlen P) (zlen P + 1 + Z.of_nat k).

Lemma shp_t P x k l rew : c_target (shp P x k l rew) = x.
Proof. unfold c_target, shp; cbn [c_row c_t]. apply jget_mid. reflexivity. Qed.

Lemma shp_reassoc (P : list Z) x (Z0 : list Z) y l : P ++ x :: Z0 ++ y :: l = (P ++ x :: Z0) ++ y :: l.
Proof. rewrite <- app_assoc. reflexivity. Qed.

Lemma shp_o P x k y l rew : c_origin (shp P x k (y :: l) rew) = y.
Proof.
  unfold c_origin, shp; cbn [c_row c_o]. rewrite shp_reassoc. apply jget_mid.
  rewrite zlen_app, zlen_cons, zlen_repeat. lia.
Qed.

Lemma shp_update P x k y l rew ut uo ur ti oi :
  c_update (shp P x k (y :: l) rew) ut uo ur ti oi = mkC (P ++ ut :: repeat 0 k ++ uo :: l) (rew + ur) ti oi.
Proof.
  unfold c_update, shp; cbn [c_row c_t c_o c_rew]. f_equal.
  rewrite (jset_mid P x _ _ ut) by reflexivity.
  rewrite shp_reassoc. rewrite jset_mid.
  - rewrite <- app_assoc. reflexivity.
  - rewrite zlen_app, zlen_cons, zlen_repeat. lia.
Qed.

Lemma shp_len P x k l rew : zlen (c_row (shp P x k l rew)) = zlen P + 1 + Z.of_nat k + zlen l.
Proof. unfold shp; cbn [c_row]. rewrite zlen_app, zlen_cons, zlen_app, zlen_repeat. lia. Qed.

Lemma mkC_eq r1 r2 w1 w2 t1 t2 o1 o2 : r1 = r2 -> w1 = w2 -> t1 = t2 -> o1 = o2 -> mkC r1 w1 t1 o1 = mkC r2 w2 t2 o2.
Proof. intros; subst; reflexivity. Qed.

Lemma zlen_snoc {A} (P : list A) x : zlen (P ++ [x]) = zlen P + 1.
Proof. rewrite zlen_app, zlen_cons. cbn. lia. Qed.

(* the five cases of move_left_row_body *)
Lemma body_zero P x k l rew : mlr_body (shp P x k (0 :: l) rew) = shp P x (S k) l rew.
Proof.
  unfold mlr_body. rewrite shp_t, shp_o. unfold nz. cbn [Z.eqb negb andb b2z Z.mul Z.add Z.leb Z.compare].
  unfold no_op. rewrite shp_t, shp_o, shp_update. unfold nz. cbn [Z.eqb negb b2z orb].
  unfold shp; cbn [c_t c_o]. apply mkC_eq; try lia.
  rewrite repeat_snoc0. reflexivity.
Qed.

Lemma body_shift P k y l rew : y <> 0 -> mlr_body (shp P 0 k (y :: l) rew) = shp P y (S k) l rew.
Proof.
  intro Hy. unfold mlr_body. rewrite shp_t, shp_o. unfold nz.
  replace (y =? 0) with false by lia. replace (0 =? y) with false by lia.
  cbn [Z.eqb negb andb b2z Z.mul Z.add Z.leb Z.compare].
  unfold shift. rewrite shp_o, shp_update. unfold shp; cbn [c_t c_o]. apply mkC_eq; try lia.
  rewrite repeat_snoc0. reflexivity.
Qed.

Lemma body_merge P x k l rew : x <> 0 -> mlr_body (shp P x k (x :: l) rew) = shp (P ++ [x + 1]) 0 k l (rew + 2 ^ (x + 1)).
Proof.
  intro Hx. unfold mlr_body. rewrite shp_t, shp_o. unfold nz.
  replace (x =? 0) with false by lia. rewrite Z.eqb_refl.
  cbn [negb andb b2z Z.mul Z.add Z.leb Z.compare Z.eqb Pos.eqb Pos.mul Pos.add].
  unfold merge. rewrite shp_t, shp_update. unfold shp; cbn [c_t c_o].
  apply mkC_eq; try (rewrite ?zlen_snoc; lia).
  rewrite <- app_assoc. cbn [app]. rewrite repeat_snoc0. reflexivity.
Qed.

Lemma body_block0 P x y l rew : x <> 0 -> y <> 0 -> x <> y ->
  mlr_body (shp P x 0 (y :: l) rew) = shp (P ++ [x]) y 0 l rew.
Proof.
  intros Hx Hy Hxy. unfold mlr_body. rewrite shp_t, shp_o. unfold nz.
  replace (y =? 0) with false by lia. replace (x =? 0) with false by lia. replace (x =? y) with false by lia.
  cbn [negb andb b2z Z.mul Z.add Z.leb Z.compare].
  unfold no_op. rewrite shp_t, shp_o, shp_update. unfold nz. replace (y =? 0) with false by lia.
  unfold shp; cbn [c_t c_o negb b2z orb repeat app Z.of_nat].
  replace (zlen P + 1 =? zlen P + 1 + 0) with true by lia.
  apply mkC_eq; try (rewrite ?zlen_snoc; lia).
  rewrite <- app_assoc. reflexivity.
Qed.

Lemma body_blockS P x k y l rew : x <> 0 -> y <> 0 -> x <> y ->
  mlr_body (shp P x (S k) (y :: l) rew) = shp (P ++ [x]) 0 k (y :: l) rew.
Proof.
  intros Hx Hy Hxy. unfold mlr_body. rewrite shp_t, shp_o. unfold nz.
  replace (y =? 0) with false by lia. replace (x =? 0) with false by lia. replace (x =? y) with false by lia.
  cbn [negb andb b2z Z.mul Z.add Z.leb Z.compare].
  unfold no_op. rewrite shp_t, shp_o, shp_update. unfold nz. replace (y =? 0) with false by lia.
  unfold shp; cbn [c_t c_o negb b2z orb].
  replace (zlen P + 1 =? zlen P + 1 + Z.of_nat (S k)) with false by lia.
  apply mkC_eq; try (rewrite ?zlen_snoc; lia).
  rewrite <- app_assoc. reflexivity.
Qed.

Lemma mlr_loop_eq fuel c :
  mlr_loop fuel c = if c_o c <? zlen (c_row c) then match fuel with O => None | S f => mlr_loop f (mlr_body c) end else Some c.
Proof. destruct fuel; reflexivity. Qed.

Lemma shp_cond P x k y l rew : (c_o (shp P x k (y :: l) rew) <? zlen (c_row (shp P x k (y :: l) rew))) = true.
Proof. rewrite shp_len, zlen_cons. unfold shp; cbn [c_o]. pose proof (zlen_nonneg l). lia. Qed.

(* loop invariant => result; 2 iterations per remaining element suffice *)
Lemma mlr_loop_shp : forall l P x k rew fuel, (2 * length l <= fuel)%nat ->
  exists c', mlr_loop fuel (shp P x k l rew) = Some c' /\ c_row c' = P ++ goF x k l /\ c_rew c' = rew + rwF x l.
Proof.
  induction l as [|y l IH]; intros P x k rew fuel Hf.
  - exists (shp P x k [] rew). rewrite mlr_loop_eq, shp_len. unfold shp; cbn [c_o c_row c_rew goF rwF].
    replace (zlen P + 1 + Z.of_nat k <? zlen P + 1 + Z.of_nat k + zlen (@nil Z)) with false by (unfold zlen; cbn; lia).
    rewrite app_nil_r. repeat split; lia.
  - cbn [length] in Hf. destruct fuel as [|f]; [lia|].
    rewrite mlr_loop_eq, shp_cond. cbn [goF rwF].
    destruct (y =? 0) eqn:Ey.
    + assert (y = 0) by lia; subst y. rewrite body_zero. apply IH. lia.
    + destruct (x =? 0) eqn:Ex.
      * assert (x = 0) by lia; subst x. rewrite body_shift by lia. apply IH. lia.
      * destruct (x =? y) eqn:Exy.
        -- assert (x = y) by lia; subst y. rewrite body_merge by lia.
           destruct (IH (P ++ [x + 1]) 0 k (rew + 2 ^ (x + 1)) f ltac:(lia)) as (c' & E1 & E2 & E3).
           exists c'. repeat split; auto.
           ++ rewrite E2, <- app_assoc. reflexivity.
           ++ lia.
        -- destruct k as [|k].
           ++ rewrite body_block0 by lia.
              destruct (IH (P ++ [x]) y O rew f ltac:(lia)) as (c' & E1 & E2 & E3).
              exists c'. repeat split; auto. rewrite E2, <- app_assoc. reflexivity.
           ++ rewrite body_blockS by lia.
              destruct f as [|f]; [lia|].
              rewrite mlr_loop_eq, shp_cond, body_shift by lia.
              destruct (IH (P ++ [x]) y (S k) rew f ltac:(lia)) as (c' & E1 & E2 & E3).
              exists c'. repeat split; auto. rewrite E2, <- app_assoc. reflexivity.
Qed.

Theorem move_left_row_goF x l : move_left_row (x :: l) = Some (goF x 0 l, rwF x l).
Proof.
  unfold move_left_row.
  destruct (mlr_loop_shp l [] x 0%nat 0 (2 * length (x :: l))%nat ltac:(cbn [length]; lia)) as (c' & E1 & E2 & E3).
  change (mkC (x :: l) 0 0 1) with (shp [] x 0 l 0). rewrite E1, E2, E3. reflexivity.
Qed.

(* ---------- goF = compress / merge once / pad ---------- *)
Definition cz (x : Z) (m : list Z) : list Z := if x =? 0 then m else x :: m.

Lemma compress_cons x l : compress (x :: l) = cz x (compress l).
Proof. unfold compress, cz, nz. cbn [filter]. destruct (x =? 0); reflexivity. Qed.

Lemma merge_adj_cons2 x y r : merge_adj (x :: y :: r) = if x =? y then (x + 1) :: merge_adj r else x :: merge_adj (y :: r).
Proof. reflexivity. Qed.
Lemma merge_reward_cons2 x y r : merge_reward (x :: y :: r) = if x =? y then 2 ^ (x + 1) + merge_reward r else merge_reward (y :: r).
Proof. reflexivity. Qed.

Lemma goF_spec : forall l x k,
  goF x k l = merge_adj (cz x (compress l)) ++ repeat 0 (1 + k + length l - length (merge_adj (cz x (compress l)))).
Proof.
  induction l as [|y l IH]; intros x k.
  - cbn [goF compress filter]. unfold cz. destruct (x =? 0) eqn:Ex.
    + assert (x = 0) by lia; subst. cbn [merge_adj app length]. replace (1 + k + 0 - 0)%nat with (S k) by lia. reflexivity.
    + cbn [merge_adj app length]. replace (1 + k + 0 - 1)%nat with k by lia. reflexivity.
  - cbn [goF]. rewrite compress_cons. unfold cz at 2 4. destruct (y =? 0) eqn:Ey.
    + rewrite IH. cbn [length]. f_equal. f_equal. lia.
    + destruct (x =? 0) eqn:Ex.
      * rewrite IH. unfold cz. rewrite Ey, Ex. cbn [length]. f_equal. f_equal. lia.
      * unfold cz. rewrite Ex. destruct (x =? y) eqn:Exy.
        -- rewrite merge_adj_cons2, Exy. rewrite IH. unfold cz. cbn [Z.eqb app length]. f_equal. f_equal. f_equal. lia.
        -- rewrite merge_adj_cons2, Exy. rewrite IH. unfold cz. rewrite Ey. cbn [app length]. f_equal. f_equal. f_equal. lia.
Qed.

Lemma rwF_spec : forall l x, rwF x l = merge_reward (cz x (compress l)).
Proof.
  induction l as [|y l IH]; intro x.
  - cbn [rwF compress filter]. unfold cz. destruct (x =? 0); reflexivity.
  - cbn [rwF]. rewrite compress_cons. unfold cz at 2. destruct (y =? 0) eqn:Ey.
    + apply IH.
    + destruct (x =? 0) eqn:Ex.
      * rewrite IH. unfold cz. rewrite Ey, Ex. reflexivity.
      * unfold cz. rewrite Ex. rewrite merge_reward_cons2. destruct (x =? y) eqn:Exy.
        -- rewrite IH. unfold cz. reflexivity.
        -- rewrite IH. unfold cz. rewrite Ey. reflexivity.
Qed.

Lemma goF_length : forall l x k, length (goF x k l) = (1 + k + length l)%nat.
Proof.
  induction l as [|y l IH]; intros x k; cbn [goF length].
  - rewrite repeat_length. lia.
  - destruct (y =? 0); [rewrite IH; lia|]. destruct (x =? 0); [rewrite IH; lia|].
    destruct (x =? y); cbn [length]; rewrite IH; lia.
Qed.

(* C09, row level: the loop IS the published rule, for every row length and every tile value *)
Theorem move_left_row_spec r : move_left_row r = Some (slide r, row_reward r).
Proof.
  destruct r as [|x l]; [reflexivity|].
  rewrite move_left_row_goF. unfold slide, row_reward. rewrite compress_cons, <- rwF_spec, goF_spec.
  cbn [length]. reflexivity.
Qed.

Lemma slide_goF x l : slide (x :: l) = goF x 0 l.
Proof.
  pose proof (move_left_row_spec (x :: l)) as H. rewrite move_left_row_goF in H. congruence.
Qed.
Lemma row_reward_rwF x l : row_reward (x :: l) = rwF x l.
Proof.
  pose proof (move_left_row_spec (x :: l)) as H. rewrite move_left_row_goF in H. congruence.
Qed.

Lemma slide_length r : length (slide r) = length r.
Proof. destruct r as [|x l]; [reflexivity|]. rewrite slide_goF, goF_length. cbn [length]. lia. Qed.

(* ---------- can_move_left_row ---------- *)
Lemma cml_loop_eq fuel row c :
  cml_loop fuel row c = if negb (cc_can c) && (cc_o c <? zlen row) then match fuel with O => None | S f => cml_loop f row (cml_body row c) end else Some c.
Proof. destruct fuel; reflexivity. Qed.

Lemma row_len (P : list Z) x k l : zlen (P ++ x :: repeat 0 k ++ l) = zlen P + 1 + Z.of_nat k + zlen l.
Proof. rewrite zlen_app, zlen_cons, zlen_app, zlen_repeat. lia. Qed.
Lemma zlen_nil {A} : zlen (@nil A) = 0.
Proof. reflexivity. Qed.

Lemma jget_o (P : list Z) x k y l : jget 0 (P ++ x :: repeat 0 k ++ y :: l) (zlen P + 1 + Z.of_nat k) = y.
Proof. rewrite shp_reassoc. apply jget_mid. rewrite zlen_app, zlen_cons, zlen_repeat. lia. Qed.

Lemma cml_loop_shp : forall l P x k fuel, (2 * length l <= fuel)%nat ->
  exists c', cml_loop fuel (P ++ x :: repeat 0 k ++ l) (mkCC false (zlen P) (zlen P + 1 + Z.of_nat k)) = Some c'
             /\ cc_can c' = cango x k l.
Proof.
  induction l as [|y l IH]; intros P x k fuel Hf.
  - eexists. rewrite cml_loop_eq. cbn [cc_can cc_o negb andb].
    replace (zlen P + 1 + Z.of_nat k <? zlen (P ++ x :: repeat 0 k ++ [])) with false
      by (rewrite row_len, zlen_nil; lia).
    split; reflexivity.
  - cbn [length] in Hf. destruct fuel as [|f]; [lia|].
    rewrite cml_loop_eq. cbn [cc_can cc_o negb andb].
    replace (zlen P + 1 + Z.of_nat k <? zlen (P ++ x :: repeat 0 k ++ y :: l)) with true
      by (rewrite row_len, zlen_cons; pose proof (zlen_nonneg l); lia).
    unfold cml_body. cbn [cc_t cc_o].
    rewrite (jget_mid 0 P x _ (zlen P)) by reflexivity.
    rewrite jget_o.
    cbn [cango]. unfold nz. destruct (y =? 0) eqn:Ey.
    + assert (y = 0) by lia; subst y. cbn [negb andb b2z orb].
      rewrite repeat_snoc0.
      replace (zlen P + 0) with (zlen P) by lia.
      replace (zlen P + 1 + Z.of_nat k + 1) with (zlen P + 1 + Z.of_nat (S k)) by lia.
      apply IH. lia.
    + cbn [negb andb b2z orb]. destruct (x =? 0) eqn:Ex.
      * cbn [orb]. eexists. rewrite cml_loop_eq. cbn [cc_can negb andb]. split; reflexivity.
      * destruct (x =? y) eqn:Exy.
        -- cbn [orb]. eexists. rewrite cml_loop_eq. cbn [cc_can negb andb]. split; reflexivity.
        -- cbn [orb]. destruct k as [|k].
           ++ cbn [repeat app Z.of_nat].
              replace (zlen P + 1 =? zlen P + 1 + 0) with true by lia.
              replace (P ++ x :: y :: l) with ((P ++ [x]) ++ y :: repeat 0 0 ++ l) by (rewrite <- app_assoc; reflexivity).
              replace (zlen P + 1) with (zlen (P ++ [x])) by (rewrite zlen_snoc; lia).
              replace (zlen (P ++ [x]) + 0 + 1) with (zlen (P ++ [x]) + 1 + Z.of_nat 0) by lia.
              apply IH. lia.
           ++ replace (zlen P + 1 =? zlen P + 1 + Z.of_nat (S k)) with false by lia.
              destruct f as [|f]; [lia|].
              rewrite cml_loop_eq. cbn [cc_can cc_o negb andb].
              replace (zlen P + 1 + Z.of_nat (S k) <? zlen (P ++ x :: repeat 0 (S k) ++ y :: l)) with true
                by (rewrite row_len, zlen_cons; pose proof (zlen_nonneg l); lia).
              unfold cml_body. cbn [cc_t cc_o].
              rewrite jget_o.
              replace (P ++ x :: repeat 0 (S k) ++ y :: l) with ((P ++ [x]) ++ 0 :: repeat 0 k ++ y :: l)
                by (rewrite <- app_assoc; reflexivity).
              rewrite (jget_mid 0 (P ++ [x]) 0 _) by (rewrite zlen_snoc; lia).
              unfold nz. rewrite Ey. cbn [negb andb Z.eqb orb].
              eexists. rewrite cml_loop_eq. cbn [cc_can negb andb]. split; reflexivity.
Qed.

Theorem can_move_left_row_cango x l : can_move_left_row (x :: l) = Some (cango x 0 l).
Proof.
  unfold can_move_left_row.
  destruct (cml_loop_shp l [] x 0%nat (2 * length (x :: l))%nat ltac:(cbn [length]; lia)) as (c' & E1 & E2).
  change (cml_loop (2 * length (x :: l)) (x :: l) (mkCC false 0 1) = Some c') in E1. rewrite E1, E2. reflexivity.
Qed.

(* a pending non-zero tile stays in front (possibly merged) *)
Lemma goF_head : forall l x k, x <> 0 -> exists t, goF x k l = x :: t \/ goF x k l = (x + 1) :: t.
Proof.
  induction l as [|y l IH]; intros x k Hx; cbn [goF].
  - eexists; left; reflexivity.
  - destruct (y =? 0); [apply IH; auto|]. replace (x =? 0) with false by lia.
    destruct (x =? y); eexists; [right|left]; reflexivity.
Qed.

Lemma cango_false_fix : forall l x k, cango x k l = false -> goF x k l = x :: repeat 0 k ++ l /\ rwF x l = 0.
Proof.
  induction l as [|y l IH]; intros x k H; cbn [cango goF rwF] in *.
  - rewrite app_nil_r. auto.
  - destruct (y =? 0) eqn:Ey.
    + assert (y = 0) by lia; subst y. destruct (IH _ _ H) as [E1 E2]. rewrite E1, E2, <- repeat_snoc0. auto.
    + destruct (x =? 0); [discriminate|]. destruct (x =? y); [discriminate|].
      destruct k; [|discriminate]. destruct (IH _ _ H) as [E1 E2]. rewrite E1, E2. auto.
Qed.

Lemma cango_true_moves : forall l x k, 0 <= x -> Forall (fun e => 0 <= e) l ->
  cango x k l = true -> goF x k l <> x :: repeat 0 k ++ l.
Proof.
  induction l as [|y l IH]; intros x k Hx Hl H; cbn [cango goF] in *; [discriminate|].
  inversion Hl as [|? ? Hy Hl']; subst.
  destruct (y =? 0) eqn:Ey.
  - assert (y = 0) by lia; subst y. rewrite repeat_snoc0. apply IH; auto.
  - destruct (x =? 0) eqn:Ex.
    + destruct (goF_head l y (S k) ltac:(lia)) as [t [E|E]]; rewrite E; intro C; inversion C; lia.
    + destruct (x =? y) eqn:Exy.
      * intro C; inversion C; lia.
      * destruct k as [|k].
        -- cbn [repeat app]. intro C. inversion C as [C']. revert C'. apply IH; auto.
        -- destruct (goF_head l y (S k) ltac:(lia)) as [t [E|E]]; rewrite E; cbn [repeat app]; intro C; inversion C; lia.
Qed.

Lemma row_eqb_eq a b : row_eqb a b = true <-> a = b.
Proof. unfold row_eqb. apply list_eqb_eq. intros; lia. Qed.

(* C04, row level: the early-exit loop answers "does sliding change this row?" *)
Theorem can_move_left_row_spec r : Forall (fun e => 0 <= e) r ->
  can_move_left_row r = Some (negb (row_eqb (slide r) r)).
Proof.
  intro Hr. destruct r as [|x l]; [reflexivity|].
  rewrite can_move_left_row_cango, slide_goF. f_equal.
  inversion Hr; subst.
  destruct (cango x 0 l) eqn:E.
  - pose proof (cango_true_moves l x 0%nat ltac:(auto) ltac:(auto) E) as N. cbn [repeat app] in N.
    destruct (row_eqb (goF x 0 l) (x :: l)) eqn:R; [apply row_eqb_eq in R; contradiction|reflexivity].
  - destruct (cango_false_fix l x 0%nat E) as [E1 _]. cbn [repeat app] in E1. rewrite E1.
    replace (row_eqb (x :: l) (x :: l)) with true by (symmetry; apply row_eqb_eq; reflexivity). reflexivity.
Qed.

(* a row that does not move earns nothing *)
Theorem slide_fixed_no_reward r : Forall (fun e => 0 <= e) r -> slide r = r -> row_reward r = 0.
Proof.
  intros Hr E. destruct r as [|x l]; [reflexivity|].
  rewrite row_reward_rwF. rewrite slide_goF in E. inversion Hr; subst.
  destruct (cango x 0 l) eqn:C.
  - exfalso. apply (cango_true_moves l x 0%nat); auto.
  - apply (cango_false_fix l x 0%nat C).
Qed.

(* ---------- conserved quantities of a row ---------- *)
Lemma zsum_w_repeat0 (f : Z -> Z) k : f 0 = 0 -> zsum (map f (repeat 0 k)) = 0.
Proof. intro H. induction k; cbn [repeat map zsum]; lia. Qed.

Lemma w0 : w 0 = 0. Proof. reflexivity. Qed.
Lemma phi0 : phi 0 = 0. Proof. reflexivity. Qed.
Lemma w_merge x : 0 <= x -> x <> 0 -> w (x + 1) = w x + w x.
Proof.
  intros H1 H2. unfold w. replace (x + 1 =? 0) with false by lia. replace (x =? 0) with false by lia.
  rewrite Z.pow_add_r by lia. lia.
Qed.
Lemma phi_merge x : 0 <= x -> x <> 0 -> phi (x + 1) = phi x + phi x + 2 ^ (x + 1).
Proof.
  intros H1 H2. unfold phi. replace (x + 1 =? 0) with false by lia. replace (x =? 0) with false by lia.
  rewrite Z.pow_add_r by lia. change (2 ^ 1) with 2. ring.
Qed.

Lemma goF_tile_sum : forall l x k, 0 <= x -> Forall (fun e => 0 <= e) l ->
  tile_sum (goF x k l) = w x + tile_sum l.
Proof.
  unfold tile_sum. induction l as [|y l IH]; intros x k Hx Hl; cbn [goF map zsum].
  - rewrite zsum_w_repeat0 by apply w0. lia.
  - inversion Hl as [|? ? Hy Hl']; subst. destruct (y =? 0) eqn:Ey.
    + assert (y = 0) by lia; subst y. rewrite IH by auto. rewrite w0. lia.
    + destruct (x =? 0) eqn:Ex.
      * assert (x = 0) by lia; subst x. rewrite IH by auto. rewrite w0. lia.
      * destruct (x =? y) eqn:Exy; cbn [map zsum].
        -- assert (x = y) by lia; subst y. rewrite IH by (auto; lia). rewrite w_merge, w0 by lia. lia.
        -- rewrite IH by auto. lia.
Qed.

Lemma goF_phi_sum : forall l x k, 0 <= x -> Forall (fun e => 0 <= e) l ->
  phi_sum (goF x k l) = phi x + phi_sum l + rwF x l.
Proof.
  unfold phi_sum. induction l as [|y l IH]; intros x k Hx Hl; cbn [goF rwF map zsum].
  - rewrite zsum_w_repeat0 by apply phi0. lia.
  - inversion Hl as [|? ? Hy Hl']; subst. destruct (y =? 0) eqn:Ey.
    + assert (y = 0) by lia; subst y. rewrite IH by auto. rewrite phi0. lia.
    + destruct (x =? 0) eqn:Ex.
      * assert (x = 0) by lia; subst x. rewrite IH by auto. rewrite phi0. lia.
      * destruct (x =? y) eqn:Exy; cbn [map zsum].
        -- assert (x = y) by lia; subst y. rewrite IH by (auto; lia). rewrite phi_merge, phi0 by lia. lia.
        -- rewrite IH by auto. lia.
Qed.

Lemma goF_nonneg : forall l x k, 0 <= x -> Forall (fun e => 0 <= e) l -> Forall (fun e => 0 <= e) (goF x k l).
Proof.
  induction l as [|y l IH]; intros x k Hx Hl; cbn [goF].
  - constructor; auto. apply Forall_forall. intros e He. apply repeat_spec in He. lia.
  - inversion Hl as [|? ? Hy Hl']; subst.
    destruct (y =? 0); [apply IH; auto|]. destruct (x =? 0); [apply IH; auto|].
    destruct (x =? y); constructor; try lia; apply IH; auto; lia.
Qed.

Lemma rwF_nonneg : forall l x, 0 <= rwF x l.
Proof.
  induction l as [|y l IH]; intro x; cbn [rwF]; [lia|].
  destruct (y =? 0); auto. destruct (x =? 0); auto. destruct (x =? y); auto.
  pose proof (IH 0). pose proof (Z.pow_nonneg 2 (x + 1)). lia.
Qed.

(* C07, row level: sliding conserves the tile sum;  C08: the potential grows by exactly the reward *)
Theorem slide_tile_sum r : Forall (fun e => 0 <= e) r -> tile_sum (slide r) = tile_sum r.
Proof.
  intro Hr. destruct r as [|x l]; [reflexivity|]. inversion Hr; subst.
  rewrite slide_goF, goF_tile_sum by auto. reflexivity.
Qed.
Theorem slide_phi_sum r : Forall (fun e => 0 <= e) r -> phi_sum (slide r) = phi_sum r + row_reward r.
Proof.
  intro Hr. destruct r as [|x l]; [reflexivity|]. inversion Hr; subst.
  rewrite slide_goF, row_reward_rwF, goF_phi_sum by auto. reflexivity.
Qed.
Theorem slide_nonneg r : Forall (fun e => 0 <= e) r -> Forall (fun e => 0 <= e) (slide r).
Proof.
  intro Hr. destruct r as [|x l]; [constructor|]. inversion Hr; subst.
  rewrite slide_goF. apply goF_nonneg; auto.
Qed.
Theorem row_reward_nonneg r : 0 <= row_reward r.
Proof. destruct r as [|x l]; [cbn; lia|]. rewrite row_reward_rwF. apply rwF_nonneg. Qed.
